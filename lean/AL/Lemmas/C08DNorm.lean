import AL.Lemmas.C08DBase
/-
  The AST with the NAMES of its case-insensitive mappings (and the ids, which are values) folded: two ASTs have the same
  normal form iff they differ in the spelling of these names only — same ids (the parser's folded keys), same positions,
  same values. One fold per kind of name (`Folds`); the identity fold leaves that kind of name alone, so "only the
  keys of `with:` were re-spelled" is `N` with every other fold the identity.
-/
namespace AL.C08D
open AL.PW AL.Yaml AL.Ast AL.C13P

/-- one fold per kind of name -/
structure Folds where
  /-- keys of `env:` (workflow, job, step, container, service) -/
  env : String → String := id
  /-- keys of `with:` of a step -/
  input : String → String := id
  /-- the value of `id:` of a step -/
  stepId : String → String := id
  /-- job ids (keys of `jobs:`) and the entries of `needs:` -/
  jobId : String → String := id
  /-- keys of `with:` / `secrets:` of a job that calls a reusable workflow -/
  arg : String → String := id
  /-- keys of `outputs:` of a job -/
  output : String → String := id
  /-- keys of `services:` -/
  service : String → String := id
  /-- keys of `matrix:` (rows) and of the elements of `include:` / `exclude:` -/
  matrix : String → String := id
  /-- keys of `inputs:` / `secrets:` / `outputs:` of `workflow_call` and of `inputs:` of `workflow_dispatch` -/
  event : String → String := id

variable (F : Folds)

def nEnvVar (f : String → String) (v : EnvVar) : EnvVar := ⟨nStr f v.name, v.value⟩
def nEnv (f : String → String) (e : Env) : Env := ⟨e.vars.map (nAssoc (nEnvVar f)), e.expr⟩

def nInput (f : String → String) (v : Input) : Input := ⟨nStr f v.name, v.value⟩
def nAct (e : ExecAction) : ExecAction := { e with inputs := e.inputs.map (nAssoc (nInput F.input)) }
def nExec : Exec → Exec
  | .action e => .action (nAct F e)
  | x => x

def nStep (s : Step) : Step :=
  { s with id := s.id.map (nStr F.stepId), exec := nExec F s.exec, env := s.env.map (nEnv F.env) }

def nArg (f : String → String) (v : CallArg) : CallArg := ⟨nStr f v.name, v.value⟩
def nCall (c : WorkflowCall) : WorkflowCall :=
  { c with inputs := c.inputs.map (nAssoc (nArg F.arg)), secrets := c.secrets.map (nAssoc (nArg F.arg)) }

def nOutput (f : String → String) (v : Output) : Output := ⟨nStr f v.name, v.value⟩

def nContainer (c : Container) : Container := { c with env := c.env.map (nEnv F.env) }
def nService (s : Service) : Service := ⟨nStr F.service s.name, nContainer F s.container⟩
def nServices (s : Services) : Services := { s with value := s.value.map (nAssoc (nService F)) }

def nRow (f : String → String) (r : MatrixRow) : MatrixRow := { r with name := r.name.map (nStr f) }
def nAssign (f : String → String) (a : MatrixAssign) : MatrixAssign := ⟨nStr f a.key, a.value⟩
def nCombo (f : String → String) (c : MatrixCombination) : MatrixCombination := { c with assigns := c.assigns.map (nAssoc (nAssign f)) }
def nCombos (f : String → String) (c : MatrixCombinations) : MatrixCombinations :=
  { c with combinations := c.combinations.map (List.map (nCombo f)) }
def nMatrix (f : String → String) (m : Matrix) : Matrix :=
  { m with rows := m.rows.map (nAssoc (nRow f)), incl := m.incl.map (nCombos f), excl := m.excl.map (nCombos f) }
def nStrategy (s : Strategy) : Strategy := { s with matrix := s.matrix.map (nMatrix F.matrix) }

def nJob (j : Job) : Job :=
  { j with
    id := nStr F.jobId j.id
    needs := j.needs.map (List.map (nStr F.jobId))
    outputs := j.outputs.map (nAssoc (nOutput F.output))
    env := j.env.map (nEnv F.env)
    steps := j.steps.map (List.map (nStep F))
    strategy := j.strategy.map (nStrategy F)
    container := j.container.map (nContainer F)
    services := j.services.map (nServices F)
    workflowCall := j.workflowCall.map (nCall F) }

def nDispatchInput (f : String → String) (i : DispatchInput) : DispatchInput := { i with name := nStr f i.name }
def nCallInput (f : String → String) (i : CallInput) : CallInput := { i with name := nStr f i.name }
def nCallSecret (f : String → String) (i : CallSecret) : CallSecret := { i with name := nStr f i.name }
def nCallOutput (f : String → String) (i : CallOutput) : CallOutput := { i with name := nStr f i.name }

def nEvent (f : String → String) : Event → Event
  | .dispatch ins pos => .dispatch (ins.map (nAssoc (nDispatchInput f))) pos
  | .call ins secs outs pos =>
    .call (ins.map (List.map (nCallInput f))) (secs.map (nAssoc (nCallSecret f))) (outs.map (nAssoc (nCallOutput f))) pos
  | e => e

def nWf (w : Workflow) : Workflow :=
  { w with
    on := w.on.map (List.map (nEvent F.event))
    env := w.env.map (nEnv F.env)
    jobs := w.jobs.map (nAssoc (nJob F)) }

/-! ### the identity fold -/

@[simp] theorem nStr_id (s : Str) : nStr id s = s := rfl
theorem nStr_id' : nStr id = id := rfl

@[simp] theorem nAssoc_id {β : Type} (l : List (String × β)) : nAssoc id l = l := by
  induction l with
  | nil => rfl
  | cons p rest ih => simp [ih]

theorem option_map_id' {α : Type} (g : α → α) (h : ∀ x, g x = x) (o : Option α) : o.map g = o := by
  cases o <;> simp [h]

theorem list_map_id' {α : Type} (g : α → α) (h : ∀ x, g x = x) (l : List α) : l.map g = l := by
  induction l with
  | nil => rfl
  | cons x rest ih => simp [h, ih]

theorem nAssoc_id' {β : Type} (g : β → β) (h : ∀ x, g x = x) (l : List (String × β)) : nAssoc g l = l := by
  induction l with
  | nil => rfl
  | cons p rest ih => simp [h, ih]

@[simp] theorem nEnvVar_id (v : EnvVar) : nEnvVar id v = v := rfl
@[simp] theorem nEnv_id (e : Env) : nEnv id e = e := by
  cases e with | mk vars expr => simp [nEnv, option_map_id' _ (nAssoc_id' _ nEnvVar_id)]
@[simp] theorem nInput_id (v : Input) : nInput id v = v := rfl
@[simp] theorem nArg_id (v : CallArg) : nArg id v = v := rfl
@[simp] theorem nOutput_id (v : Output) : nOutput id v = v := rfl
@[simp] theorem nRow_id (r : MatrixRow) : nRow id r = r := by
  cases r with | mk name values expr => cases name <;> rfl
@[simp] theorem nAssign_id (a : MatrixAssign) : nAssign id a = a := rfl
@[simp] theorem nCombo_id (c : MatrixCombination) : nCombo id c = c := by
  cases c with | mk a e => simp [nCombo, option_map_id' _ (nAssoc_id' _ nAssign_id)]
@[simp] theorem nCombos_id (c : MatrixCombinations) : nCombos id c = c := by
  cases c with | mk a e => simp [nCombos, option_map_id' _ (list_map_id' _ nCombo_id)]
@[simp] theorem nMatrix_id (m : Matrix) : nMatrix id m = m := by
  cases m with
  | mk rows incl excl expr pos =>
    simp [nMatrix, option_map_id' _ (nAssoc_id' _ nRow_id), option_map_id' _ nCombos_id]

end AL.C08D
