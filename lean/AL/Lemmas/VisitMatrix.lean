import AL.Model.Visit
import AL.Lemmas.Visit
/-
  Lemmas about the type `checkMatrix` computes for the `matrix` context (AL/Model/Visit.lean: `matrixLitTy`,
  `includeCombo`, `matrixExprTy`): the rows fold and the literal include entries keep the object an object, keep its
  `mapped` part, and add exactly the assigned keys.
-/
namespace AL.Visit
open AL AL.Sema

/-! ### presence of a key after `Ty.setProp` -/

theorem lookup_setProp_isSome (k : String) (v : Ty) (x : String) (ps : List (String × Ty)) :
    (Ty.lookup x (Ty.setProp k v ps)).isSome = true ↔ (x = k ∨ (Ty.lookup x ps).isSome = true) := by
  rw [lookup_setProp]
  by_cases h : x = k
  · simp [h]
  · simp [h]

/-! ### the rows fold of `matrixLitTy` -/

theorem lookup_rowsFold_isSome (ev : Ev) (x : String) :
    ∀ (rows : List (String × RowM)) (acc : List (String × Ty)),
      (Ty.lookup x (rows.foldl (fun ps kr => Ty.setProp kr.1 (rowTy ev kr.2) ps) acc)).isSome = true ↔
        ((Ty.lookup x acc).isSome = true ∨ x ∈ rows.map (·.1))
  | [], acc => by simp
  | kr :: rows, acc => by
    rw [List.foldl_cons, lookup_rowsFold_isSome ev x rows, lookup_setProp_isSome]
    simp only [List.map_cons, List.mem_cons]
    constructor
    · rintro ((h | h) | h)
      · exact Or.inr (Or.inl h)
      · exact Or.inl h
      · exact Or.inr (Or.inr h)
    · rintro (h | h | h)
      · exact Or.inl (Or.inr h)
      · exact Or.inl (Or.inl h)
      · exact Or.inr h

theorem lookup_nil_isSome (x : String) : (Ty.lookup x []).isSome = false := rfl

/-! ### literal include entries -/

theorem includeCombo_assigns_nil (ev : Ev) (o : Ty) : includeCombo ev o (.assigns []) = o := rfl

theorem includeCombo_assigns_cons_obj (ev : Ev) (ps : List (String × Ty)) (m : Option Ty) (kv : String × RawV)
    (as : List (String × RawV)) :
    includeCombo ev (.obj ps m) (.assigns (kv :: as)) =
      includeCombo ev
        (.obj (Ty.setProp kv.1
          (match Ty.lookup kv.1 ps with
            | some t => Ty.merge t (rawTy ev kv.2)
            | none => rawTy ev kv.2) ps) m) (.assigns as) := rfl

/-- a literal include entry maps an object to an object with the same `mapped` part; a key is present afterwards
iff it was present before or is assigned by the entry -/
theorem includeCombo_assigns_obj (ev : Ev) :
    ∀ (as : List (String × RawV)) (ps : List (String × Ty)) (m : Option Ty),
      ∃ ps', includeCombo ev (.obj ps m) (.assigns as) = .obj ps' m ∧
        ∀ x, (Ty.lookup x ps').isSome = true ↔ ((Ty.lookup x ps).isSome = true ∨ x ∈ as.map (·.1))
  | [], ps, m => ⟨ps, rfl, fun x => by simp⟩
  | kv :: as, ps, m => by
    rw [includeCombo_assigns_cons_obj]
    obtain ⟨ps', h1, h2⟩ := includeCombo_assigns_obj ev as _ m
    refine ⟨ps', h1, fun x => ?_⟩
    rw [h2 x, lookup_setProp_isSome]
    simp only [List.map_cons, List.mem_cons]
    constructor
    · rintro ((h | h) | h)
      · exact Or.inr (Or.inl h)
      · exact Or.inl h
      · exact Or.inr (Or.inr h)
    · rintro (h | h | h)
      · exact Or.inl (Or.inr h)
      · exact Or.inl (Or.inl h)
      · exact Or.inr h

/-- the `include:` loop over entries that are all literal mappings -/
theorem foldl_includeCombo_assigns (ev : Ev) :
    ∀ (cs : List ComboM), (∀ c ∈ cs, ∃ as, c = ComboM.assigns as) →
      ∀ (ps : List (String × Ty)) (m : Option Ty),
        ∃ ps', cs.foldl (includeCombo ev) (.obj ps m) = .obj ps' m ∧
          ∀ x, (Ty.lookup x ps').isSome = true ↔
            ((Ty.lookup x ps).isSome = true ∨ ∃ as, ComboM.assigns as ∈ cs ∧ x ∈ as.map (·.1))
  | [], _, ps, m => ⟨ps, rfl, fun x => by simp⟩
  | c :: cs, hall, ps, m => by
    obtain ⟨as, rfl⟩ := hall c (List.mem_cons_self ..)
    obtain ⟨ps1, e1, k1⟩ := includeCombo_assigns_obj ev as ps m
    obtain ⟨ps2, e2, k2⟩ :=
      foldl_includeCombo_assigns ev cs (fun c hc => hall c (List.mem_cons_of_mem _ hc)) ps1 m
    refine ⟨ps2, ?_, fun x => ?_⟩
    · rw [List.foldl_cons, e1, e2]
    · rw [k2 x, k1 x]
      constructor
      · rintro ((h | h) | ⟨as', hm, hx⟩)
        · exact Or.inl h
        · exact Or.inr ⟨as, List.mem_cons_self .., h⟩
        · exact Or.inr ⟨as', List.mem_cons_of_mem _ hm, hx⟩
      · rintro (h | ⟨as', hm, hx⟩)
        · exact Or.inl (Or.inl h)
        · rcases List.mem_cons.1 hm with heq | hm
          · cases heq
            exact Or.inl (Or.inr hx)
          · exact Or.inr ⟨as', hm, hx⟩

/-! ### `matrixLitTy`, unfolded per shape of `include` -/

theorem matrixLitTy_none (ev : Ev) (rows : List (String × RowM)) :
    matrixLitTy ev rows .none =
      .obj (rows.foldl (fun ps kr => Ty.setProp kr.1 (rowTy ev kr.2) ps) []) none := rfl

theorem matrixLitTy_combos (ev : Ev) (rows : List (String × RowM)) (cs : List ComboM) :
    matrixLitTy ev rows (.combos cs) =
      cs.foldl (includeCombo ev)
        (.obj (rows.foldl (fun ps kr => Ty.setProp kr.1 (rowTy ev kr.2) ps) []) none) := rfl

theorem matrixLitTy_expr_open (ev : Ev) (rows : List (String × RowM)) (e : E)
    (h : ∀ el d, ev e ≠ some (Ty.arr el d)) : matrixLitTy ev rows (.expr e) = emptyLoose := by
  show (match ev e with
    | some (.arr elem _) =>
      (match Ty.merge (.obj (rows.foldl (fun ps kr => Ty.setProp kr.1 (rowTy ev kr.2) ps) []) none) elem with
      | .obj ps m => Ty.obj ps m
      | _ => emptyLoose)
    | _ => emptyLoose) = emptyLoose
  split
  · next elem d heq => exact absurd heq (h elem d)
  · rfl

theorem matrixExprTy_open (ev : Ev) (e : E) (h : ∀ ps m, ev e ≠ some (Ty.obj ps m)) :
    matrixExprTy ev e = emptyLoose := by
  unfold matrixExprTy
  split
  · next ps m heq => exact absurd heq (h ps m)
  · rfl

/-! ### an include element that is an expression -/

theorem merge_obj_any (ps : List (String × Ty)) (m : Option Ty) : Ty.merge (.obj ps m) .any = .any := rfl

theorem includeCombo_expr_any (ev : Ev) (ps : List (String × Ty)) (m : Option Ty) (e : E)
    (h : ev e = some Ty.any) : includeCombo ev (.obj ps m) (.expr e) = .obj ps (some .any) := by
  unfold includeCombo
  simp only [h, merge_obj_any]
  rfl

end AL.Visit
