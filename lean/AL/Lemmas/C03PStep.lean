import AL.Lemmas.C03PBase
/-
  C03Parse, level 2: `parseStep`. The walk over a step node (`stepScalars`), the strings the loop state holds under each
  key (`stepK`), the three facts `loop_keyed` needs (`stepKey_store`, `stepK_pres`, `stepK_final`).
-/
namespace AL.C03P
open AL.PW AL.Yaml AL.Ast AL.C03R

/-! ### `env:` -/

theorem parseEnv_leaf (cfg : Cfg) (n : Node) (v : Node) (hv : v ∈ leaves n) (h : (parseEnv cfg n).2 = []) :
    Rep v (envStrs (some (parseEnv cfg n).1)) := by
  simp only [parseEnv] at h ⊢
  split at h
  · rename_i hk
    simp only [hk, ↓reduceIte, envStrs]
    rw [leaves_scalar n hk, List.mem_singleton] at hv
    subst hv
    simp only [parseExpression_clean _ _ h, Option.toList_some]
    exact Rep.newString _
  · rename_i hk
    simp only [hk, ↓reduceIte, envStrs]
    simp only [append_nil_iff] at h
    obtain ⟨kv, hkv, k, _, hvk⟩ := mapScalars_clean cfg "env" n false false _ v (leaves_mapScalars cfg "env" n false v hv h.1) h.1
    obtain ⟨h1, h2⟩ := mapKVs_clean _ _ h.2 kv hkv
    have := parseString_leaf kv.val true v hvk h1
    refine this.mono ?_
    intro s hs
    rw [List.mem_singleton] at hs
    subst hs
    exact List.mem_map.2 ⟨_, h2, rfl⟩

/-! ### `with:` of a step -/

/-- the strings the `with` loop holds under an input id -/
def withK (k : String) (st : ExecAction) : List Str :=
  match k with
  | "entrypoint" => st.entrypoint.toList
  | "args" => st.args.toList
  | _ => (st.inputs.getD []).map (·.2.value)

def withStrs (st : ExecAction) : List Str := (st.inputs.getD []).map (·.2.value) ++ st.entrypoint.toList ++ st.args.toList

theorem withK_sub (k : String) (st : ExecAction) : ∀ s ∈ withK k st, s ∈ withStrs st := by
  intro s hs
  simp only [withK] at hs
  simp only [withStrs, List.mem_append]
  split at hs
  · exact Or.inl (Or.inr hs)
  · exact Or.inr hs
  · exact Or.inl (Or.inl hs)

theorem withK_pres (k : String) (st : ExecAction) (kv : KV) (hne : kv.id ≠ k) :
    ∀ s ∈ withK k st, s ∈ withK k (withKey st kv).1 := by
  intro s hs
  simp only [withKey]
  split
  all_goals (simp only [withK] at hs ⊢; split at hs)
  all_goals first | exact hs | exact absurd ‹kv.id = _› hne | skip
  simp only [Option.getD_some, List.map_append, List.mem_append]
  exact Or.inl hs

theorem withKey_store (st : ExecAction) (kv : KV) (v : Node) (hv : v ∈ leaves kv.val) (hc : (withKey st kv).2 = []) :
    Rep v (withK kv.id (withKey st kv).1) := by
  revert hc
  simp only [withKey]
  split
  · rename_i h
    intro hc
    simp only [h, withK]
    exact (parseString_leaf _ _ v hv hc).mono (by simp)
  · rename_i h
    intro hc
    simp only [h, withK]
    exact (parseString_leaf _ _ v hv hc).mono (by simp)
  · rename_i h1 h2
    intro hc
    have : withK kv.id = fun st => (st.inputs.getD []).map (·.2.value) := by
      funext st
      simp only [withK]
      try (split <;> first | exact absurd ‹kv.id = _› h1 | exact absurd ‹kv.id = _› h2 | rfl)
    rw [this]
    exact (parseString_leaf _ _ v hv hc).mono (by simp)

theorem withKey_uses (st : ExecAction) (kv : KV) : (withKey st kv).1.uses = st.uses := by
  simp only [withKey]
  split <;> rfl

theorem loop_withKey_uses (kvs : List KV) (init : ExecAction) : (loop withKey init kvs).1.uses = init.uses :=
  loop_inv withKey (fun st => st.uses = init.uses) (fun st kv h => by rw [withKey_uses]; exact h) kvs init rfl

/-- `with:` — every scalar below it is an input value, the entrypoint or the args of the action, or the section reports -/
theorem with_leaf (cfg : Cfg) (n : Node) (init : ExecAction) (v : Node) (hv : v ∈ leaves n)
    (hm : (parseSectionMapping cfg "with" n false false).2 = [])
    (hr : (loop withKey init (parseSectionMapping cfg "with" n false false).1).2 = []) :
    Rep v (withStrs (loop withKey init (parseSectionMapping cfg "with" n false false).1).1) := by
  obtain ⟨k, hk⟩ := sect_keyed cfg (sectionWhat "with") n false false withKey init (fun _ x => leaves x) v
    (leaves_mapScalars cfg _ n false v hv hm) (fun _ _ => True)
    (fun k st => Rep v (withK k st)) (fun _ => trivial) hm hr
    (by
      intro kv k _ hvk
      refine ⟨fun _ _ _ _ => trivial, ?_, ?_⟩
      · intro st _ hc
        exact withKey_store st kv v hvk hc
      · intro st kv' hne hq _
        exact hq.mono (withK_pres kv.id st kv' hne))
  exact hk.mono (withK_sub k _)

/-! ### the step -/

/-- the strings the loop of `parseStep` holds under the key `k` -/
def stepK (k : String) (st : StepSt) : List Str :=
  match k with
  | "if" => st.step.cond.toList
  | "name" => st.step.name.toList
  | "env" => envStrs st.step.env
  | "continue-on-error" => boolStrs st.step.continueOnError
  | "timeout-minutes" => floatStrs st.step.timeoutMinutes
  | "uses" => (match st.step.exec with | .action e => e.uses.toList | _ => [])
  | "with" => (match st.step.exec with | .action e => withStrs e | _ => [])
  | "run" => (match st.step.exec with | .run e => e.run.toList | _ => [])
  | "shell" => (match st.step.exec with | .run e => e.shell.toList | _ => [])
  | "working-directory" => st.workDir.toList
  | _ => []

theorem stepK_pres (cfg : Cfg) (k : String) (st : StepSt) (kv : KV) (hne : kv.id ≠ k) :
    ∀ s ∈ stepK k st, s ∈ stepK k (stepKey cfg st kv).1 := by
  intro s hs
  simp only [stepKey]
  split
  all_goals (simp only [stepK] at hs ⊢; split at hs)
  all_goals first | exact hs | exact absurd ‹kv.id = _› hne | (cases he : st.step.exec <;> simp_all [loop_withKey_uses, withStrs])

/-- while the loop runs, the working directory of a `run` step is the one remembered in the loop state -/
def WorkInv (st : StepSt) : Prop := ∀ e, st.step.exec = .run e → e.workingDirectory = st.workDir

theorem stepKey_workInv (cfg : Cfg) (st : StepSt) (kv : KV) (h : WorkInv st) : WorkInv (stepKey cfg st kv).1 := by
  simp only [stepKey]
  split
  all_goals first | exact h | (cases he : st.step.exec <;> simp_all [WorkInv])

theorem stepKey_store (cfg : Cfg) (st : StepSt) (kv : KV) (v : Node) (hv : v ∈ stepKeyScalars kv.id kv.val)
    (hc : (stepKey cfg st kv).2 = []) : Rep v (stepK kv.id (stepKey cfg st kv).1) := by
  revert hc hv
  simp only [stepKey]
  split
  next h => intro hv; simp [h, stepKeyScalars] at hv
  next h =>
    intro hv hc; simp only [h, stepKeyScalars] at hv; simp only [h, stepK]
    exact (parseString_leaf _ _ v hv hc).mono (by simp)
  next h =>
    intro hv hc; simp only [h, stepKeyScalars] at hv; simp only [h, stepK]
    exact (parseString_leaf _ _ v hv hc).mono (by simp)
  next h =>
    intro hv hc; simp only [h, stepKeyScalars] at hv; simp only [h, stepK]
    exact parseEnv_leaf cfg _ v hv hc
  next h =>
    intro hv hc; simp only [h, stepKeyScalars] at hv; simp only [h, stepK]
    exact parseBool_leaf _ v hv hc
  next h =>
    intro hv hc; simp only [h, stepKeyScalars] at hv; simp only [h, stepK]
    exact parseTimeoutMinutes_leaf cfg _ v hv hc
  next h =>  -- uses
    intro hv; simp only [h, stepKeyScalars] at hv; simp only [h, stepK]
    cases he : st.step.exec <;> dsimp only <;> intro hc
    · exact (parseString_leaf _ _ v hv hc).mono (by simp)
    · simp at hc
    · exact (parseString_leaf _ _ v hv hc).mono (by simp)
  next h =>  -- with
    intro hv; simp only [h, stepKeyScalars] at hv; simp only [h, stepK]
    cases he : st.step.exec <;> dsimp only <;> intro hc
    · rw [append_nil_iff] at hc; exact with_leaf cfg _ _ v hv hc.1 hc.2
    · simp at hc
    · rw [append_nil_iff] at hc; exact with_leaf cfg _ _ v hv hc.1 hc.2
  next h =>  -- run
    intro hv; simp only [h, stepKeyScalars] at hv; simp only [h, stepK]
    cases he : st.step.exec <;> dsimp only <;> intro hc
    · exact (parseString_leaf _ _ v hv hc).mono (by simp)
    · exact (parseString_leaf _ _ v hv hc).mono (by simp)
    · simp at hc
  next h =>  -- shell
    intro hv; simp only [h, stepKeyScalars] at hv; simp only [h, stepK]
    cases he : st.step.exec <;> dsimp only <;> intro hc
    · exact (parseString_leaf _ _ v hv hc).mono (by simp)
    · exact (parseString_leaf _ _ v hv hc).mono (by simp)
    · simp at hc
  next h =>  -- working-directory
    intro hv; simp only [h, stepKeyScalars] at hv; simp only [h, stepK]
    cases he : st.step.exec <;> dsimp only <;> intro hc <;>
      exact (parseString_leaf _ _ v hv hc).mono (by simp)
  next => intro _ hc; simp at hc

theorem stepK_final (n : Node) (k : String) (st : StepSt) (hinv : WorkInv st) (hc : stepFinish n st = []) :
    ∀ s ∈ stepK k st, s ∈ stepStrs st.step := by
  intro s hs
  simp only [stepK] at hs
  simp only [stepStrs, List.mem_append]
  split at hs
  all_goals (cases he : st.step.exec <;> simp_all [execStrs, stepFinish, WorkInv, withStrs])

/-- **level 2, clean form.** When `parseStep` appends no diagnostic, every value scalar of the step node is one of the
value strings of the step. -/
theorem parseStep_leaf (cfg : Cfg) (n : Node) (v : Node) (hv : v ∈ stepScalars n) (hc : (parseStep cfg n).2 = []) :
    Rep v (stepStrs (parseStep cfg n).1) := by
  simp only [parseStep, append_nil_iff] at hc ⊢
  obtain ⟨⟨hm, hr⟩, hf⟩ := hc
  obtain ⟨k, hk⟩ := sect_keyed cfg _ n false true (stepKey cfg) _ stepKeyScalars v hv (fun _ _ => True)
    (fun k st => Rep v (stepK k st)) (fun _ => trivial) hm hr (by
      intro kv k hkid hvk
      have := hkid rfl
      subst this
      exact ⟨fun _ _ _ _ => trivial, fun st _ hc => stepKey_store cfg st kv v hvk hc,
        fun st kv' hne hq _ => hq.mono (stepK_pres cfg kv.id st kv' hne)⟩)
  exact hk.mono (stepK_final n k _ (loop_inv _ WorkInv (stepKey_workInv cfg) _ _ (by intro e he; cases he)) hf)

theorem stepsOf_leaf (cfg : Cfg) (v : Node) : ∀ (cs : List Node), v ∈ cs.flatMap stepScalars → (stepsOf cfg cs).2 = [] →
    Rep v ((stepsOf cfg cs).1.flatMap stepStrs)
  | [], hv, _ => by simp at hv
  | c :: cs, hv, h => by
    simp only [stepsOf, append_nil_iff] at h ⊢
    simp only [List.flatMap_cons, List.mem_append] at hv ⊢
    rcases hv with hv | hv
    · exact (parseStep_leaf cfg c v hv h.1).left
    · exact (stepsOf_leaf cfg v cs hv h.2).right

theorem seqScalars_clean (sec : String) (n : Node) (ae : Bool) (g : Node → List Node) (v : Node) (hv : v ∈ seqScalars n g)
    (h : (checkSequence sec n ae).2 = []) : (checkSequence sec n ae).1 = true ∧ v ∈ n.content.flatMap g := by
  obtain ⟨hk, h1⟩ := checkSequence_clean sec n ae h
  simp only [seqScalars, hk, ↓reduceIte] at hv
  exact ⟨h1, hv⟩

theorem parseSteps_leaf (cfg : Cfg) (n : Node) (v : Node) (hv : v ∈ stepsScalars n) (h : (parseSteps cfg n).2 = []) :
    Rep v (((parseSteps cfg n).1.getD []).flatMap stepStrs) := by
  simp only [parseSteps] at h ⊢
  split at h
  · rename_i hc
    have := checkSequence_clean "steps" n false h
    simp [this.2] at hc
  · rename_i hc
    simp only [hc]
    simp only [append_nil_iff] at h
    obtain ⟨_, hv⟩ := seqScalars_clean "steps" n false stepScalars v hv h.1
    exact stepsOf_leaf cfg v _ hv h.2

end AL.C03P
