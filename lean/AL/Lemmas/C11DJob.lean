import AL.Lemmas.C11DStep
/-
  AL.Props.C11Doc, from a step to the document: `Job.Steps` and `Workflow.Jobs` of the parsed document in terms of what
  is WRITTEN (the readers of AL/Spec/ScriptScalars.lean).

    * unconditionally: `parseSteps_fst`, `parseJob_steps_eq` (the steps of a parsed job ARE the parsed elements of the
      node written under `steps:`), `parseJobs_mem` (every parsed job comes from a pair of the `jobs:` node),
      `parse_jobs_eq` (`Workflow.Jobs` is `parseJobs` of the node written under `jobs:` of the root);
      hence `scriptKStrs_from_nodes`;
    * for a document the parser accepts silently: `parse_jobs_clean`, `parseJobs_clean_entries`, `parseJob_steps_clean`;
      hence `scriptKStrs_clean`.
-/
namespace AL.C11D
open AL.PW AL.Yaml AL.Ast AL.C03P AL.C05D AL.C11R

theorem flatMap_congr_mem {α β : Type} {f g : α → List β} : ∀ {l : List α}, (∀ a ∈ l, f a = g a) → l.flatMap f = l.flatMap g
  | [], _ => rfl
  | x :: rest, h => by
    simp only [List.flatMap_cons, h x (List.mem_cons_self ..)]
    rw [flatMap_congr_mem fun a ha => h a (List.mem_cons_of_mem _ ha)]

/-! ### `steps:` -/

/-- **the steps `parseSteps` returns are the parsed elements of the node** (none when it is not a sequence, or empty) —
unconditionally -/
theorem parseSteps_fst (cfg : Cfg) (x : Node) :
    (parseSteps cfg x).1.getD [] = (elements x).map fun c => (parseStep cfg c).1 := by
  simp only [parseSteps, elements, checkSequence, checkNotEmpty]
  by_cases hk : x.kind = .sequence
  · by_cases hl : x.content.length = 0
    · have : x.content = [] := List.eq_nil_of_length_eq_zero hl
      simp [hk, this]
    · simp [hk, hl, stepsOf_fst]
  · simp [hk]

/-- **the steps of a parsed job are the parsed elements of the node written under `steps:`** — unconditionally -/
theorem parseJob_steps_eq (cfg : Cfg) (id : Str) (n : Node) :
    (parseJob cfg id n).1.steps.getD [] = (jobStepNodes n).map fun c => (parseStep cfg c).1 := by
  rw [(parseJob_fields cfg id n).1]
  unfold jobLoop
  rw [sect_field_find cfg (jobWhat id.value) n true (jobKey cfg) { job := { id := id, pos := id.pos } }
    (fun st => st.job.steps) "steps" (fun kv => (parseSteps cfg kv.val).1)
    (fun st kv hne => jobKey_steps_ne cfg st kv hne) (fun st kv he => (jobKey_steps_eq cfg st kv he).1)]
  simp only [jobStepNodes, ← parseMapping_find_cs cfg (jobWhat id.value) n "steps"]
  cases (parseMapping cfg (jobWhat id.value) n false true).1.find? (fun kv => kv.id = "steps") with
  | none => rfl
  | some kv => simp [parseSteps_fst]

/-- the script strings of a parsed job, by the step nodes -/
theorem jobScriptKStrs_eq (cfg : Cfg) (lower : String → String) (id : Str) (n : Node) :
    (((parseJob cfg id n).1.steps.getD []).flatMap fun st => execScriptKStrs lower st.exec) =
      (jobStepNodes n).flatMap fun c => execScriptKStrs lower (parseStep cfg c).1.exec := by
  rw [parseJob_steps_eq, List.flatMap_map]

/-! ### `jobs:` -/

/-- every job `parseJobs` returns was parsed from a pair of the node -/
theorem parseJobs_mem (cfg : Cfg) (x : Node) :
    ∀ kv ∈ (parseJobs cfg x).1, ∃ p ∈ entries x, ∃ id, kv.2 = (parseJob cfg id p.2).1 := by
  intro kv hkv
  simp only [parseJobs, mapKVs_fst, parseSectionMapping, List.mem_map] at hkv
  obtain ⟨e, he, rfl⟩ := hkv
  obtain ⟨p, hp, rfl⟩ := parseMapping_mem cfg _ x false e he
  exact ⟨p, hp, _, rfl⟩

/-- **`Workflow.Jobs` of a parsed document is `parseJobs` of the node written under `jobs:` of the root mapping** —
unconditionally -/
theorem parse_jobs_eq (cfg : Cfg) (doc : Node) :
    (parse cfg doc).1.jobs =
      match doc.content with
      | root :: _ => (lookup root "jobs").map fun x => (parseJobs cfg x).1
      | [] => none := by
  unfold parse
  simp only [fixDocPos_content]
  cases hc : doc.content with
  | nil => rfl
  | cons root rest =>
    simp only
    rw [sect_field_find cfg "workflow" root true (workflowKey cfg) {} (fun w => w.jobs) "jobs"
      (fun kv => some (parseJobs cfg kv.val).1)
      (fun st kv hne => workflowKey_jobs_ne cfg st kv hne) (fun st kv he => (workflowKey_jobs_eq cfg st kv he).1),
      ← parseMapping_find_cs cfg "workflow" root "jobs"]
    cases (parseMapping cfg "workflow" root false true).1.find? (fun kv => kv.id = "jobs") <;> rfl

/-- **every script string of a parsed document, with its key, is made from a node at a script position of the document**
— unconditionally: the parser stores nothing else in `run` / the `script` input of an `actions/github-script` step -/
theorem scriptKStrs_from_nodes (cfg : Cfg) (doc : Node) :
    ∀ p ∈ scriptKStrs cfg.lower (parse cfg doc).1,
      ∃ q ∈ scriptKNodes cfg.lower doc, p.2 = q.2 ∧ ∃ ae, p.1 = (parseString q.1 ae).1 := by
  intro p hp
  simp only [scriptKStrs, List.mem_flatMap] at hp
  obtain ⟨kv, hkv, st, hst, hp⟩ := hp
  rw [parse_jobs_eq] at hkv
  cases hc : doc.content with
  | nil => rw [hc] at hkv; cases hkv
  | cons root rest =>
    rw [hc] at hkv
    simp only at hkv
    cases hj : lookup root "jobs" with
    | none => rw [hj] at hkv; cases hkv
    | some x =>
      rw [hj] at hkv
      simp only [Option.map_some, Option.getD_some] at hkv
      obtain ⟨pe, hpe, id, hjob⟩ := parseJobs_mem cfg x kv hkv
      rw [hjob, parseJob_steps_eq] at hst
      obtain ⟨c, hcm, rfl⟩ := List.mem_map.1 hst
      obtain ⟨q, hq, e⟩ := execScriptKStrs_from_nodes cfg c p hp
      refine ⟨q, ?_, e⟩
      simp only [scriptKNodes, docStepNodes, docJobNodes, hc, hj, Option.toList_some, List.flatMap_cons, List.flatMap_nil,
        List.append_nil, List.mem_flatMap, List.mem_map]
      exact ⟨c, ⟨pe.2, ⟨pe, hpe, rfl⟩, hcm⟩, hq⟩

/-! ### a document the parser accepts silently -/

/-- the steps of an accepted job were accepted -/
theorem parseJob_steps_clean (cfg : Cfg) (id : Str) (n : Node) (h : (parseJob cfg id n).2 = []) :
    ∀ c ∈ jobStepNodes n, (parseStep cfg c).2 = [] := by
  obtain ⟨hm, hr⟩ := parseJob_clean cfg id n h
  intro c hc
  simp only [jobStepNodes, lookup_eq_mget cfg _ n true hm, mget] at hc
  cases hp : mpair n "steps" with
  | none => rw [hp] at hc; simp at hc
  | some p =>
    rw [hp] at hc
    simp only [Option.map_some, Option.toList_some, List.flatMap_cons, List.flatMap_nil, List.append_nil] at hc
    obtain ⟨hmem, hk⟩ := mpair_mem hp
    obtain ⟨st, hcl⟩ := sect_clean_at cfg _ n false true (jobKey cfg) _ hm hr p hmem
    rw [(jobKey_steps_eq cfg st _ (by rw [kvOf_true]; exact hk)).2] at hcl
    simp only [kvOf_true] at hcl
    refine (parseSteps_clean cfg p.2 hcl).2 c ?_
    simp only [elements] at hc
    split at hc
    · exact hc
    · cases hc

/-- `parseJobs` on a node it accepts: one job per pair of the node, each accepted -/
theorem parseJobs_clean_entries (cfg : Cfg) (x : Node) (h : (parseJobs cfg x).2 = []) :
    (parseJobs cfg x).1 = (entries x).map (jobOf cfg) ∧ ∀ p ∈ entries x, (parseJob cfg (newString p.1) p.2).2 = [] := by
  have he : entries x = pairs x.content := by
    simp only [parseJobs, append_nil_iff, parseSectionMapping] at h
    exact (parseMapping_clean_keys cfg _ x false h.1).2.1
  rw [he]
  exact parseJobs_clean cfg x h

/-- an accepted document has a root mapping with a `jobs:` node, accepted by `parseJobs` -/
theorem parse_jobs_clean (cfg : Cfg) (doc : Node) (h : (parse cfg doc).2 = []) :
    ∃ root rest x, doc.content = root :: rest ∧ lookup root "jobs" = some x ∧ (parseJobs cfg x).2 = [] := by
  obtain ⟨root, hroot, hm, hr, he, _, hjs⟩ := parse_clean cfg doc h
  have hf := sect_field cfg "workflow" root false (workflowKey cfg) {} (fun w => w.jobs) "jobs"
    (fun kv => some (parseJobs cfg kv.val).1)
    (fun st kv hne => workflowKey_jobs_ne cfg st kv hne) (fun st kv he => (workflowKey_jobs_eq cfg st kv he).1) hm
  cases hc : doc.content with
  | nil => simp [docRoot, hc] at hroot
  | cons r rest =>
    have hrr : r = root := by simpa [docRoot, hc] using hroot
    subst hrr
    refine ⟨r, rest, ?_⟩
    rw [lookup_eq_mget cfg _ r true hm]
    simp only [mget]
    cases hp : mpair r "jobs" with
    | none =>
      exfalso
      have hj : (parse cfg doc).1.jobs = none := by rw [he, hf, hp]
      rw [hj] at hjs
      cases hjs
    | some p =>
      obtain ⟨hmem, hk⟩ := mpair_mem hp
      obtain ⟨st, hcl⟩ := sect_clean_at cfg _ r false true (workflowKey cfg) _ hm hr p hmem
      rw [(workflowKey_jobs_eq cfg st _ (by rw [kvOf_true]; exact hk)).2] at hcl
      simp only [kvOf_true] at hcl
      exact ⟨p.2, trivial, rfl, hcl⟩

/-- every step node of an accepted document was accepted by `parseStep` -/
theorem doc_steps_clean (cfg : Cfg) (doc : Node) (h : (parse cfg doc).2 = []) :
    ∀ c ∈ docStepNodes doc, (parseStep cfg c).2 = [] := by
  obtain ⟨root, rest, x, hc, hj, hx⟩ := parse_jobs_clean cfg doc h
  obtain ⟨_, hjc⟩ := parseJobs_clean_entries cfg x hx
  intro c hcm
  simp only [docStepNodes, docJobNodes, hc, hj, Option.toList_some, List.flatMap_cons, List.flatMap_nil, List.append_nil,
    List.mem_flatMap, List.mem_map] at hcm
  obtain ⟨job, ⟨p, hp, rfl⟩, hcm⟩ := hcm
  exact parseJob_steps_clean cfg _ p.2 (hjc p hp) c hcm

/-- **the script strings of an accepted document ARE the nodes at the script positions of the document** — in order, each
with its key, each a scalar, each turned into a `*String` by `newString` (text, quoting, position) -/
theorem scriptKStrs_clean (cfg : Cfg) (doc : Node) (h : (parse cfg doc).2 = []) :
    scriptKStrs cfg.lower (parse cfg doc).1 = (scriptKNodes cfg.lower doc).map (fun q => (newString q.1, q.2)) ∧
    ∀ q ∈ scriptKNodes cfg.lower doc, q.1.kind = .scalar := by
  obtain ⟨root, rest, x, hc, hj, hx⟩ := parse_jobs_clean cfg doc h
  obtain ⟨hjobs, hjc⟩ := parseJobs_clean_entries cfg x hx
  have hsteps := doc_steps_clean cfg doc h
  refine ⟨?_, ?_⟩
  · have hw : (parse cfg doc).1.jobs.getD [] = (entries x).map (jobOf cfg) := by
      rw [parse_jobs_eq, hc]
      simp only [hj, Option.map_some, Option.getD_some, hjobs]
    simp only [scriptKStrs, hw, List.flatMap_map, jobOf, jobScriptKStrs_eq]
    simp only [scriptKNodes, docStepNodes, docJobNodes, hc, hj, Option.toList_some, List.flatMap_cons, List.flatMap_nil,
      List.append_nil, List.flatMap_map, List.map_flatMap, List.flatMap_assoc]
    refine flatMap_congr_mem fun p hp => flatMap_congr_mem fun c hcm => ?_
    refine (execScriptKStrs_clean cfg c (hsteps c ?_)).1
    simp only [docStepNodes, docJobNodes, hc, hj, Option.toList_some, List.flatMap_cons, List.flatMap_nil, List.append_nil,
      List.mem_flatMap, List.mem_map]
    exact ⟨p.2, ⟨p, hp, rfl⟩, hcm⟩
  · intro q hq
    simp only [scriptKNodes, List.mem_flatMap] at hq
    obtain ⟨c, hcm, hq⟩ := hq
    exact (execScriptKStrs_clean cfg c (hsteps c hcm)).2 q hq

end AL.C11D
