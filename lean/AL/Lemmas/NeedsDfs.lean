import AL.Lemmas.NeedsBasic
import Mathlib.Data.List.Chain
/-
  Fuel-free big-step description `Dfs` of `visitList`, and the DFS invariants proved by rule
  induction on it.
-/
namespace AL.Needs
open AL.Spec

/-- Big-step relation of the loop of `detectCyclicNode` (no fuel). -/
inductive Dfs (g : Graph) : List Status → Nat → List Nat → Option (Nat × Nat) → List Status → Prop
  | nil (st v) : Dfs g st v [] none (setStatus st v .finished)
  | back (st v w ws) : st[w]? = some .active → Dfs g st v (w :: ws) (some (v, w)) st
  | descendSome (st v w ws e st2) : st[w]? = some .new →
      Dfs g (setStatus st w .active) w (g.succ w) (some e) st2 → Dfs g st v (w :: ws) (some e) st2
  | descendNone (st v w ws st2 r st3) : st[w]? = some .new →
      Dfs g (setStatus st w .active) w (g.succ w) none st2 → Dfs g st2 v ws r st3 →
      Dfs g st v (w :: ws) r st3
  | skip (st v w ws r st') : st[w]? ≠ some .active → st[w]? ≠ some .new → Dfs g st v ws r st' →
      Dfs g st v (w :: ws) r st'

theorem visitList_dfs (g : Graph) (fuel : Nat) (st : List Status) (v : Nat) (ws : List Nat)
    (hf : countNew st ≤ fuel) :
    Dfs g st v ws (visitList g fuel st v ws).1 (visitList g fuel st v ws).2 := by
  fun_induction visitList g fuel st v ws with
  | case1 fuel st v => exact .nil st v
  | case2 fuel st v w ws h => exact .back st v w ws h
  | case3 st v w ws h =>
    have := countNew_pos_of_new h
    omega
  | case4 st v w ws h fuel' st1 e st2 heq ih =>
    have hc := countNew_set_new (s := .active) h (by decide)
    rw [heq] at ih
    exact .descendSome st v w ws e st2 h (ih (by simp only [st1]; omega))
  | case5 st v w ws h fuel' st1 st2 heq ih1 ih2 =>
    have hc := countNew_set_new (s := .active) h (by decide)
    have hle : countNew st2 ≤ countNew st1 := by
      have := visitList_countNew_le g fuel' st1 w (g.succ w)
      rw [heq] at this; exact this
    rw [heq] at ih1
    exact .descendNone st v w ws st2 _ _ h (ih1 (by simp only [st1]; omega))
      (ih2 (by simp only [st1] at hle; omega))
  | case6 fuel st v w ws hna hnn ih =>
    exact .skip st v w ws _ _ hna hnn (ih hf)

/-! ### Status predicates -/

theorem getElem?_setStatus_self {st : List Status} {v : Nat} {s : Status} (h : v < st.length) :
    (setStatus st v s)[v]? = some s := by
  simp [setStatus, h]

theorem getElem?_setStatus_ne {st : List Status} {v u : Nat} {s : Status} (h : u ≠ v) :
    (setStatus st v s)[u]? = st[u]? := by
  simp [setStatus, Ne.symm h]

theorem length_setStatus (st : List Status) (v : Nat) (s : Status) : (setStatus st v s).length = st.length := by
  simp [setStatus]

/-- Frame facts valid for every run. -/
theorem Dfs.frame {g : Graph} {st st' : List Status} {v : Nat} {ws : List Nat} {r : Option (Nat × Nat)}
    (h : Dfs g st v ws r st') :
    st'.length = st.length ∧ (∀ u : Nat, st[u]? = some .finished → st'[u]? = some .finished) := by
  induction h with
  | nil st v =>
    refine ⟨length_setStatus _ _ _, ?_⟩
    intro u hu
    by_cases huv : u = v
    · subst huv
      exact getElem?_setStatus_self (by
        rcases Nat.lt_or_ge u st.length with h | h
        · exact h
        · simp [List.getElem?_eq_none h] at hu)
    · rw [getElem?_setStatus_ne huv]; exact hu
  | back st v w ws h => exact ⟨rfl, fun _ h => h⟩
  | descendSome st v w ws e st2 hw _ ih =>
    refine ⟨by rw [ih.1, length_setStatus], fun u hu => ih.2 u ?_⟩
    have : u ≠ w := by rintro rfl; simp [hw] at hu
    rw [getElem?_setStatus_ne this]; exact hu
  | descendNone st v w ws st2 r st3 hw _ _ ih1 ih2 =>
    refine ⟨by rw [ih2.1, ih1.1, length_setStatus], fun u hu => ih2.2 u (ih1.2 u ?_)⟩
    have : u ≠ w := by rintro rfl; simp [hw] at hu
    rw [getElem?_setStatus_ne this]; exact hu
  | skip st v w ws r st' _ _ _ ih => exact ih

/-- A run that returns `none` finishes `v` and leaves all other active nodes active, creating none. -/
theorem Dfs.none_spec {g : Graph} {st st' : List Status} {v : Nat} {ws : List Nat} {r : Option (Nat × Nat)}
    (h : Dfs g st v ws r st') (hr : r = none) (hv : st[v]? = some .active) :
    st'[v]? = some .finished ∧ ∀ u, u ≠ v → (st'[u]? = some .active ↔ st[u]? = some .active) := by
  induction h with
  | nil st v =>
    have hlt : v < st.length := by
      rcases Nat.lt_or_ge v st.length with h | h
      · exact h
      · simp [List.getElem?_eq_none h] at hv
    exact ⟨getElem?_setStatus_self hlt, fun u hu => by rw [getElem?_setStatus_ne hu]⟩
  | back st v w ws h => cases hr
  | descendSome st v w ws e st2 hw _ ih => cases hr
  | descendNone st v w ws st2 r st3 hw _ _ ih1 ih2 =>
    have hwlt : w < st.length := by
      rcases Nat.lt_or_ge w st.length with h | h
      · exact h
      · simp [List.getElem?_eq_none h] at hw
    have hvw : v ≠ w := by rintro rfl; simp [hw] at hv
    have i1 := ih1 rfl (getElem?_setStatus_self hwlt)
    have hv2 : st2[v]? = some .active := by
      rw [i1.2 v hvw, getElem?_setStatus_ne hvw]; exact hv
    have i2 := ih2 hr hv2
    refine ⟨i2.1, fun u hu => ?_⟩
    rw [i2.2 u hu]
    by_cases huw : u = w
    · subst huw; simp [i1.1, hw]
    · rw [i1.2 u huw, getElem?_setStatus_ne huw]
  | skip st v w ws r st' _ _ _ ih => exact ih hr hv

/-! ### Reachability, closedness, and "no cycle through a finished node" -/

/-- Reflexive-transitive closure of the edge relation. -/
inductive Reach (g : Graph) : Nat → Nat → Prop
  | refl (u) : Reach g u u
  | step (u w x) : w ∈ g.succ u → Reach g w x → Reach g u x

/-- Finished nodes are closed under successors. -/
def Closed (g : Graph) (st : List Status) : Prop :=
  ∀ u, st[u]? = some .finished → ∀ w ∈ g.succ u, st[w]? = some .finished

/-- No finished node lies on a cycle. -/
def NoCyc (g : Graph) (st : List Status) : Prop :=
  ∀ u, st[u]? = some .finished → ∀ w ∈ g.succ u, ¬ Reach g w u

theorem Closed.reach {g : Graph} {st : List Status} (hc : Closed g st) {u x : Nat} (h : Reach g u x)
    (hu : st[u]? = some .finished) : st[x]? = some .finished := by
  induction h with
  | refl u => exact hu
  | step u w x hw _ ih => exact ih (hc u hu w hw)

theorem finished_setStatus_active {st : List Status} {w : Nat} (hw : st[w]? = some .new) (u : Nat) :
    (setStatus st w .active)[u]? = some .finished ↔ st[u]? = some .finished := by
  by_cases h : u = w
  · subst h
    have hwlt : u < st.length := by
      rcases Nat.lt_or_ge u st.length with h | h
      · exact h
      · simp [List.getElem?_eq_none h] at hw
    simp [getElem?_setStatus_self hwlt, hw]
  · rw [getElem?_setStatus_ne h]

/-- Status of an in-range node that is neither active nor new. -/
theorem finished_of_not {st : List Status} {w : Nat} (hlt : w < st.length)
    (h1 : st[w]? ≠ some .active) (h2 : st[w]? ≠ some .new) : st[w]? = some .finished := by
  rw [List.getElem?_eq_getElem hlt] at *
  cases h : st[w] <;> simp_all

/-- `none` runs keep the finished set closed and cycle-free. -/
theorem Dfs.none_closed {g : Graph} (hwf : WF g) {st st' : List Status} {v : Nat} {ws : List Nat}
    {r : Option (Nat × Nat)} (h : Dfs g st v ws r st') (hr : r = none) (hlen : st.length = g.length)
    (hv : st[v]? = some .active) (hc : Closed g st) (hn : NoCyc g st)
    (hpre : ∃ pre, g.succ v = pre ++ ws ∧ ∀ w ∈ pre, st[w]? = some .finished) :
    Closed g st' ∧ NoCyc g st' := by
  induction h with
  | nil st v =>
    obtain ⟨pre, hsucc, hfin⟩ := hpre
    simp only [List.append_nil] at hsucc
    subst hsucc
    have hmono : ∀ u : Nat, st[u]? = some .finished → (setStatus st v .finished)[u]? = some .finished :=
      ((Dfs.nil (g := g) st v).frame).2
    constructor
    · intro u hu w hw
      apply hmono
      by_cases huv : u = v
      · subst huv; exact hfin w hw
      · rw [getElem?_setStatus_ne huv] at hu
        exact hc u hu w hw
    · intro u hu w hw hreach
      by_cases huv : u = v
      · subst huv
        have := hc.reach hreach (hfin w hw)
        simp [hv] at this
      · rw [getElem?_setStatus_ne huv] at hu
        exact hn u hu w hw hreach
  | back st v w ws h => cases hr
  | descendSome st v w ws e st2 hw _ ih => cases hr
  | descendNone st v w ws st2 r st3 hw d1 d2 ih1 ih2 =>
    obtain ⟨pre, hsucc, hfin⟩ := hpre
    have hwlt : w < st.length := by
      rcases Nat.lt_or_ge w st.length with h | h
      · exact h
      · simp [List.getElem?_eq_none h] at hw
    have hvw : v ≠ w := by rintro rfl; simp [hw] at hv
    have hfs := finished_setStatus_active hw
    have hc1 : Closed g (setStatus st w .active) := by
      intro u hu x hx
      rw [hfs] at hu ⊢
      exact hc u hu x hx
    have hn1 : NoCyc g (setStatus st w .active) := by
      intro u hu x hx
      rw [hfs] at hu
      exact hn u hu x hx
    have hw1 := getElem?_setStatus_self (s := .active) hwlt
    have i1 := ih1 rfl (by rw [length_setStatus]; exact hlen) hw1 hc1 hn1 ⟨[], rfl, by simp⟩
    have s1 := d1.none_spec rfl hw1
    have f1 := d1.frame
    have hv2 : st2[v]? = some .active := by
      rw [s1.2 v hvw, getElem?_setStatus_ne hvw]; exact hv
    refine ih2 hr (by rw [f1.1, length_setStatus]; exact hlen) hv2 i1.1 i1.2 ⟨pre ++ [w], by simp [hsucc], ?_⟩
    intro x hx
    simp only [List.mem_append, List.mem_singleton] at hx
    rcases hx with hx | rfl
    · exact f1.2 x ((hfs x).2 (hfin x hx))
    · exact s1.1
  | skip st v w ws r st' hna hnn _ ih =>
    obtain ⟨pre, hsucc, hfin⟩ := hpre
    have hwlt : w < st.length := by
      rw [hlen]; exact hwf v w (by simp [hsucc])
    refine ih hr hlen hv hc hn ⟨pre ++ [w], by simp [hsucc], ?_⟩
    intro x hx
    simp only [List.mem_append, List.mem_singleton] at hx
    rcases hx with hx | rfl
    · exact hfin x hx
    · exact finished_of_not hwlt hna hnn

/-! ### The stack invariant and `some` runs -/

/-- `y` is a successor of `x` and every successor listed before it is finished. -/
def Link (g : Graph) (st : List Status) (x y : Nat) : Prop :=
  ∃ pre post, g.succ x = pre ++ y :: post ∧ ∀ w ∈ pre, st[w]? = some Status.finished

theorem Link.mono {g : Graph} {st st' : List Status} {x y : Nat} (h : Link g st x y)
    (hm : ∀ u : Nat, st[u]? = some Status.finished → st'[u]? = some Status.finished) : Link g st' x y := by
  obtain ⟨pre, post, he, hf⟩ := h
  exact ⟨pre, post, he, fun w hw => hm w (hf w hw)⟩

theorem Link.mem {g : Graph} {st : List Status} {x y : Nat} (h : Link g st x y) : y ∈ g.succ x := by
  obtain ⟨pre, post, he, _⟩ := h
  simp [he]

/-- The active nodes are exactly the DFS stack (top first), each stack node being the first
non-finished successor of the node below it. -/
structure StackInv (g : Graph) (st : List Status) (stack : List Nat) : Prop where
  nodup : stack.Nodup
  act : ∀ u : Nat, st[u]? = some Status.active ↔ u ∈ stack
  chain : List.IsChain (fun y x => Link g st x y) stack

theorem StackInv.mono {g : Graph} {st st' : List Status} {stack : List Nat} (h : StackInv g st stack)
    (hm : ∀ u : Nat, st[u]? = some Status.finished → st'[u]? = some Status.finished)
    (ha : ∀ u : Nat, st'[u]? = some Status.active ↔ st[u]? = some Status.active) : StackInv g st' stack :=
  ⟨h.nodup, fun u => (ha u).trans (h.act u), h.chain.imp fun _ _ hl => hl.mono hm⟩

theorem Dfs.some_spec {g : Graph} (hwf : WF g) {st st' : List Status} {v : Nat} {ws : List Nat}
    {r : Option (Nat × Nat)} (h : Dfs g st v ws r st') :
    ∀ (a b : Nat) (rest : List Nat), r = some (a, b) → st.length = g.length → StackInv g st (v :: rest) →
      (∃ pre, g.succ v = pre ++ ws ∧ ∀ w ∈ pre, st[w]? = some Status.finished) →
      ∃ stack', StackInv g st' (a :: stack') ∧ b ∈ a :: stack' ∧ Link g st' a b := by
  induction h with
  | nil st v => intro a b rest hr; cases hr
  | back st v w ws hw =>
    intro a b rest hr hlen hs hpre
    cases hr
    obtain ⟨pre, hsucc, hfin⟩ := hpre
    exact ⟨rest, hs, (hs.act w).1 hw, pre, ws, hsucc, hfin⟩
  | descendSome st v w ws e st2 hw d1 ih =>
    intro a b rest hr hlen hs hpre
    cases hr
    obtain ⟨pre, hsucc, hfin⟩ := hpre
    have hwlt : w < st.length := by
      rcases Nat.lt_or_ge w st.length with h | h
      · exact h
      · simp [List.getElem?_eq_none h] at hw
    have hfs := finished_setStatus_active hw
    have hw1 := getElem?_setStatus_self (s := Status.active) hwlt
    have hwn : w ∉ v :: rest := by
      intro hmem
      have := (hs.act w).2 hmem
      simp [hw] at this
    refine ih a b (v :: rest) rfl (by rw [length_setStatus]; exact hlen) ?_ ⟨[], rfl, by simp⟩
    refine ⟨List.nodup_cons.2 ⟨hwn, hs.nodup⟩, ?_, ?_⟩
    · intro u
      by_cases huw : u = w
      · subst huw; simp [hw1]
      · rw [getElem?_setStatus_ne huw, hs.act u]; simp [huw]
    · refine List.IsChain.cons_cons ?_ (hs.chain.imp fun _ _ hl => hl.mono fun u hu => (hfs u).2 hu)
      exact ⟨pre, ws, hsucc, fun x hx => (hfs x).2 (hfin x hx)⟩
  | descendNone st v w ws st2 r st3 hw d1 d2 ih1 ih2 =>
    intro a b rest hr hlen hs hpre
    obtain ⟨pre, hsucc, hfin⟩ := hpre
    have hwlt : w < st.length := by
      rcases Nat.lt_or_ge w st.length with h | h
      · exact h
      · simp [List.getElem?_eq_none h] at hw
    have hv : st[v]? = some Status.active := (hs.act v).2 (by simp)
    have hvw : v ≠ w := by rintro rfl; simp [hw] at hv
    have hfs := finished_setStatus_active hw
    have hw1 := getElem?_setStatus_self (s := Status.active) hwlt
    have s1 := d1.none_spec rfl hw1
    have f1 := d1.frame
    have hs2 : StackInv g st2 (v :: rest) := by
      refine hs.mono (fun u hu => f1.2 u ((hfs u).2 hu)) ?_
      intro u
      by_cases huw : u = w
      · subst huw; simp [s1.1, hw]
      · rw [s1.2 u huw, getElem?_setStatus_ne huw]
    refine ih2 a b rest hr (by rw [f1.1, length_setStatus]; exact hlen) hs2 ⟨pre ++ [w], by simp [hsucc], ?_⟩
    intro x hx
    simp only [List.mem_append, List.mem_singleton] at hx
    rcases hx with hx | rfl
    · exact f1.2 x ((hfs x).2 (hfin x hx))
    · exact s1.1
  | skip st v w ws r st' hna hnn _ ih =>
    intro a b rest hr hlen hs hpre
    obtain ⟨pre, hsucc, hfin⟩ := hpre
    have hwlt : w < st.length := by
      rw [hlen]; exact hwf v w (by simp [hsucc])
    refine ih a b rest hr hlen hs ⟨pre ++ [w], by simp [hsucc], ?_⟩
    intro x hx
    simp only [List.mem_append, List.mem_singleton] at hx
    rcases hx with hx | rfl
    · exact hfin x hx
    · exact finished_of_not hwlt hna hnn

end AL.Needs
