import AL.Lemmas.C05DBase
import AL.Props.C08Parse
/-
  AL.Props.C05Doc, the job: what `parseJob` / `parseSteps` / `parseStep` / `parseJobs` / `parse` return on nodes they
  accept without a diagnostic, in terms of what is WRITTEN (the readers of AL/Lemmas/C05DBase.lean).
-/
namespace AL.C05D
open AL.PW AL.Yaml AL.Ast AL.C03P

/-! ### a step: its `id:` -/

theorem stepKey_id_ne (cfg : Cfg) (st : StepSt) (kv : KV) (h : kv.id ≠ "id") : (stepKey cfg st kv).1.step.id = st.step.id := by
  simp only [stepKey]
  split <;> first | rfl | exact absurd ‹_› h | (split <;> rfl)

theorem stepKey_id_eq (cfg : Cfg) (st : StepSt) (kv : KV) (h : kv.id = "id") :
    (stepKey cfg st kv).1.step.id = some (parseString kv.val false).1 ∧ (stepKey cfg st kv).2 = (parseString kv.val false).2 := by
  simp only [stepKey]
  split <;> first | exact ⟨rfl, rfl⟩ | (exfalso; simp_all)

theorem parseStep_clean (cfg : Cfg) (n : Node) (h : (parseStep cfg n).2 = []) :
    (parseMapping cfg "element of \"steps\" section" n false true).2 = [] ∧
    (loop (stepKey cfg) { step := { pos := n.pos } } (parseMapping cfg "element of \"steps\" section" n false true).1).2 = [] := by
  simp only [parseStep, append_nil_iff] at h
  exact ⟨h.1.1, h.1.2⟩

/-- **the `id` of a parsed step is the `id:` scalar of the step node** (its text, quoting and position) -/
theorem parseStep_id (cfg : Cfg) (n : Node) (h : (parseStep cfg n).2 = []) :
    (parseStep cfg n).1.id = (docStepIdNode n).map newString := by
  obtain ⟨hm, hr⟩ := parseStep_clean cfg n h
  have hf := sect_field cfg "element of \"steps\" section" n false (stepKey cfg) { step := { pos := n.pos } }
    (fun st => st.step.id) "id" (fun kv => some (parseString kv.val false).1)
    (fun st kv hne => stepKey_id_ne cfg st kv hne) (fun st kv he => (stepKey_id_eq cfg st kv he).1) hm
  simp only [parseStep]
  rw [hf]
  simp only [docStepIdNode, mget]
  cases hp : mpair n "id" with
  | none => rfl
  | some p =>
    obtain ⟨hmem, hk⟩ := mpair_mem hp
    obtain ⟨st, hc⟩ := sect_clean_at cfg _ n false true (stepKey cfg) _ hm hr p hmem
    rw [(stepKey_id_eq cfg st _ (by rw [kvOf_true]; exact hk)).2] at hc
    simp only [kvOf_true] at hc ⊢
    simp only [(parseString_clean p.2 false hc).2, Option.map_some]

/-! ### a step: its `run:` -/

/-- the script of a step -/
def runOf (s : Step) : Option Str := match s.exec with | .run e => e.run | _ => none

theorem stepKey_run_ne (cfg : Cfg) (st : StepSt) (kv : KV) (h : kv.id ≠ "run") : runOf (stepKey cfg st kv).1.step = runOf st.step := by
  simp only [stepKey]
  split
  case h_9 => exact absurd ‹_› h
  all_goals first | rfl | (split <;> simp_all [runOf])

theorem stepKey_run_eq (cfg : Cfg) (st : StepSt) (kv : KV) (h : kv.id = "run") (hc : (stepKey cfg st kv).2 = []) :
    runOf (stepKey cfg st kv).1.step = some (parseString kv.val false).1 ∧ (parseString kv.val false).2 = [] := by
  revert hc
  simp only [stepKey]
  split
  case h_9 => split <;> simp_all [runOf]
  all_goals (intro _; exfalso; simp_all)

/-- **the script of a parsed step is the `run:` scalar of the step node** -/
theorem parseStep_run (cfg : Cfg) (n : Node) (h : (parseStep cfg n).2 = []) :
    runOf (parseStep cfg n).1 = (mget n "run").map newString := by
  obtain ⟨hm, hr⟩ := parseStep_clean cfg n h
  have hf := sect_field_clean cfg "element of \"steps\" section" n false (stepKey cfg) { step := { pos := n.pos } }
    (fun st => runOf st.step) "run" (fun kv => some (parseString kv.val false).1)
    (fun st kv hne => stepKey_run_ne cfg st kv hne) (fun st kv he hc => (stepKey_run_eq cfg st kv he hc).1) hm hr
  simp only [parseStep]
  rw [hf]
  simp only [mget]
  cases hp : mpair n "run" with
  | none => rfl
  | some p =>
    obtain ⟨hmem, hk⟩ := mpair_mem hp
    obtain ⟨st, hc⟩ := sect_clean_at cfg _ n false true (stepKey cfg) _ hm hr p hmem
    have := (stepKey_run_eq cfg st _ (by rw [kvOf_true]; exact hk) hc).2
    simp only [kvOf_true] at this ⊢
    simp only [(parseString_clean p.2 false this).2, Option.map_some]

theorem stepsOf_fst (cfg : Cfg) : ∀ (cs : List Node), (stepsOf cfg cs).1 = cs.map fun c => (parseStep cfg c).1
  | [] => rfl
  | c :: cs => by simp [stepsOf, stepsOf_fst cfg cs]

theorem stepsOf_clean (cfg : Cfg) : ∀ (cs : List Node), (stepsOf cfg cs).2 = [] → ∀ c ∈ cs, (parseStep cfg c).2 = []
  | [], _, c, hc => by cases hc
  | x :: cs, h, c, hc => by
    simp only [stepsOf, append_nil_iff] at h
    rcases List.mem_cons.1 hc with rfl | hc
    · exact h.1
    · exact stepsOf_clean cfg cs h.2 c hc

/-- `parseSteps`, clean: a sequence, one step per element -/
theorem parseSteps_clean (cfg : Cfg) (n : Node) (h : (parseSteps cfg n).2 = []) :
    (parseSteps cfg n).1 = some (n.content.map fun c => (parseStep cfg c).1) ∧ ∀ c ∈ n.content, (parseStep cfg c).2 = [] := by
  simp only [parseSteps] at h ⊢
  split at h
  · rename_i hc
    have := checkSequence_clean "steps" n false h
    simp [this.2] at hc
  · rename_i hc
    simp only [hc]
    simp only [append_nil_iff] at h
    exact ⟨by simp [stepsOf_fst], stepsOf_clean cfg _ h.2⟩

/-! ### a job: `steps`, `needs` -/

/-- the state of `parseJob` after its key loop -/
def jobLoop (cfg : Cfg) (id : Str) (n : Node) : JobSt × List PErr :=
  loop (jobKey cfg) { job := { id := id, pos := id.pos } } (parseMapping cfg (jobWhat id.value) n false true).1

theorem parseJob_clean (cfg : Cfg) (id : Str) (n : Node) (h : (parseJob cfg id n).2 = []) :
    (parseMapping cfg (jobWhat id.value) n false true).2 = [] ∧ (jobLoop cfg id n).2 = [] := by
  simp only [parseJob, append_nil_iff] at h
  exact ⟨h.1.1, h.1.2⟩

theorem jobFinish_fields (id : Str) (st : JobSt) :
    (jobFinish id st).1.steps = st.job.steps ∧ (jobFinish id st).1.needs = st.job.needs ∧
    (jobFinish id st).1.strategy = st.job.strategy ∧ (jobFinish id st).1.outputs = st.job.outputs := by
  simp only [jobFinish]
  split
  · split <;> exact ⟨rfl, rfl, rfl, rfl⟩
  · exact ⟨rfl, rfl, rfl, rfl⟩

theorem parseJob_fields (cfg : Cfg) (id : Str) (n : Node) :
    (parseJob cfg id n).1.steps = (jobLoop cfg id n).1.job.steps ∧ (parseJob cfg id n).1.needs = (jobLoop cfg id n).1.job.needs ∧
    (parseJob cfg id n).1.strategy = (jobLoop cfg id n).1.job.strategy ∧
    (parseJob cfg id n).1.outputs = (jobLoop cfg id n).1.job.outputs :=
  jobFinish_fields id (jobLoop cfg id n).1

theorem jobKey_steps_ne (cfg : Cfg) (st : JobSt) (kv : KV) (h : kv.id ≠ "steps") : (jobKey cfg st kv).1.job.steps = st.job.steps := by
  simp only [jobKey]
  split <;> first | rfl | exact absurd ‹_› h | (split <;> first | rfl | (split <;> rfl))

theorem jobKey_steps_eq (cfg : Cfg) (st : JobSt) (kv : KV) (h : kv.id = "steps") :
    (jobKey cfg st kv).1.job.steps = (parseSteps cfg kv.val).1 ∧ (jobKey cfg st kv).2 = (parseSteps cfg kv.val).2 := by
  simp only [jobKey]
  split <;> first | exact ⟨rfl, rfl⟩ | (exfalso; simp_all)

/-- the `needs:` value as `parseJob` reads it -/
def needsOf (v : Node) : R (Option (List Str)) :=
  if v.kind = .scalar then (some [(parseString v false).1], (parseString v false).2)
  else parseStringSequence "needs" v false false

theorem jobKey_needs_ne (cfg : Cfg) (st : JobSt) (kv : KV) (h : kv.id ≠ "needs") : (jobKey cfg st kv).1.job.needs = st.job.needs := by
  simp only [jobKey]
  split <;> first | rfl | exact absurd ‹_› h | (split <;> first | rfl | (split <;> rfl))

theorem jobKey_needs_eq (cfg : Cfg) (st : JobSt) (kv : KV) (h : kv.id = "needs") :
    (jobKey cfg st kv).1.job.needs = (needsOf kv.val).1 ∧ (jobKey cfg st kv).2 = (needsOf kv.val).2 := by
  simp only [jobKey, needsOf]
  split
  case h_2 => split <;> exact ⟨rfl, rfl⟩
  all_goals (exfalso; simp_all)

/-- the nodes under `needs:` of a job node: the scalar, or the elements of the sequence -/
def docNeedsNodes (job : Node) : List Node :=
  match mget job "needs" with
  | some v => if v.kind = .scalar then [v] else v.content
  | none => []

theorem docNeeds_eq (job : Node) : docNeeds job = (docNeedsNodes job).map (·.value) := by
  simp only [docNeeds, docNeedsNodes]
  cases mget job "needs" with
  | none => rfl
  | some v => by_cases hk : v.kind = .scalar <;> simp [hk]

theorem parseStrings_clean_eq (ae : Bool) : ∀ (cs : List Node), (parseStrings ae cs).2 = [] → (parseStrings ae cs).1 = cs.map newString
  | [], _ => rfl
  | c :: cs, h => by
    simp only [parseStrings, append_nil_iff] at h ⊢
    rw [(parseString_clean c ae h.1).2, parseStrings_clean_eq ae cs h.2]
    rfl

theorem needsOf_clean (v : Node) (h : (needsOf v).2 = []) :
    (needsOf v).1 = some ((if v.kind = .scalar then [v] else v.content).map newString) := by
  simp only [needsOf] at h ⊢
  by_cases hk : v.kind = .scalar
  · simp only [hk, if_true] at h ⊢
    simp [(parseString_clean v false h).2]
  · simp only [hk, if_false] at h ⊢
    simp only [parseStringSequence] at h ⊢
    split at h
    · rename_i hc
      have := checkSequence_clean "needs" v false h
      simp [this.2] at hc
    · rename_i hc
      simp only [hc]
      simp only [append_nil_iff] at h
      simp [parseStrings_clean_eq false _ h.2]

/-- **the steps of a parsed job are the elements of `steps:`**, each parsed without a diagnostic, **and their ids are the
`id:` scalars** -/
theorem parseJob_steps (cfg : Cfg) (id : Str) (n : Node) (h : (parseJob cfg id n).2 = []) :
    (parseJob cfg id n).1.steps.getD [] = (docSteps n).map (fun c => (parseStep cfg c).1) ∧
    ∀ c ∈ docSteps n, (parseStep cfg c).2 = [] ∧ (parseStep cfg c).1.id = (docStepIdNode c).map newString := by
  obtain ⟨hm, hr⟩ := parseJob_clean cfg id n h
  have hf := sect_field cfg (jobWhat id.value) n false (jobKey cfg) { job := { id := id, pos := id.pos } }
    (fun st => st.job.steps) "steps" (fun kv => (parseSteps cfg kv.val).1)
    (fun st kv hne => jobKey_steps_ne cfg st kv hne) (fun st kv he => (jobKey_steps_eq cfg st kv he).1) hm
  rw [(parseJob_fields cfg id n).1]
  unfold jobLoop
  rw [hf]
  simp only [docSteps, mget]
  cases hp : mpair n "steps" with
  | none => simp
  | some p =>
    obtain ⟨hmem, hk⟩ := mpair_mem hp
    obtain ⟨st, hc⟩ := sect_clean_at cfg _ n false true (jobKey cfg) _ hm hr p hmem
    rw [(jobKey_steps_eq cfg st _ (by rw [kvOf_true]; exact hk)).2] at hc
    simp only [kvOf_true] at hc ⊢
    obtain ⟨h1, h2⟩ := parseSteps_clean cfg p.2 hc
    simp only [h1, Option.map_some, Option.getD_some, true_and]
    exact fun c hc' => ⟨h2 c hc', parseStep_id cfg c (h2 c hc')⟩

/-- **the `needs` of a parsed job are the scalars written under `needs:`** -/
theorem parseJob_needs (cfg : Cfg) (id : Str) (n : Node) (h : (parseJob cfg id n).2 = []) :
    (parseJob cfg id n).1.needs.getD [] = (docNeedsNodes n).map newString := by
  obtain ⟨hm, hr⟩ := parseJob_clean cfg id n h
  have hf := sect_field cfg (jobWhat id.value) n false (jobKey cfg) { job := { id := id, pos := id.pos } }
    (fun st => st.job.needs) "needs" (fun kv => (needsOf kv.val).1)
    (fun st kv hne => jobKey_needs_ne cfg st kv hne) (fun st kv he => (jobKey_needs_eq cfg st kv he).1) hm
  rw [(parseJob_fields cfg id n).2.1]
  unfold jobLoop
  rw [hf]
  simp only [docNeedsNodes, mget]
  cases hp : mpair n "needs" with
  | none => simp
  | some p =>
    obtain ⟨hmem, hk⟩ := mpair_mem hp
    obtain ⟨st, hc⟩ := sect_clean_at cfg _ n false true (jobKey cfg) _ hm hr p hmem
    rw [(jobKey_needs_eq cfg st _ (by rw [kvOf_true]; exact hk)).2] at hc
    simp only [kvOf_true] at hc ⊢
    simp only [needsOf_clean p.2 hc, Option.map_some, Option.getD_some]

/-! ### a job: `outputs`, and whether it calls a reusable workflow -/

/-- the names declared under `outputs:` of a job node, as written -/
def docOutputs (job : Node) : List String :=
  match mget job "outputs" with
  | some v => (pairs v.content).map (·.1.value)
  | none => []

theorem jobKey_outputs_ne (cfg : Cfg) (st : JobSt) (kv : KV) (h : kv.id ≠ "outputs") : (jobKey cfg st kv).1.job.outputs = st.job.outputs := by
  simp only [jobKey]
  split <;> first | rfl | exact absurd ‹_› h | (split <;> first | rfl | (split <;> rfl))

theorem jobKey_outputs_eq (cfg : Cfg) (st : JobSt) (kv : KV) (h : kv.id = "outputs") :
    (jobKey cfg st kv).1.job.outputs = some (parseOutputs cfg kv.val).1 ∧ (jobKey cfg st kv).2 = (parseOutputs cfg kv.val).2 := by
  simp only [jobKey]
  split <;> first | exact ⟨rfl, rfl⟩ | (exfalso; simp_all)

theorem parseOutputs_clean (cfg : Cfg) (n : Node) (h : (parseOutputs cfg n).2 = []) :
    (parseOutputs cfg n).1.map (·.1) = (pairs n.content).map fun p => cfg.lower p.1.value := by
  simp only [parseOutputs, append_nil_iff, parseSectionMapping] at h ⊢
  rw [mapKVs_fst, parseMapping_clean_eq cfg _ n false false h.1.1, List.map_map, List.map_map]
  exact List.map_congr_left fun p _ => by simp [kvOf_false]

/-- **the output names of a parsed job are the folded keys written under `outputs:`** -/
theorem parseJob_outputs (cfg : Cfg) (id : Str) (n : Node) (h : (parseJob cfg id n).2 = []) :
    ((parseJob cfg id n).1.outputs.getD []).map (·.1) = (docOutputs n).map cfg.lower := by
  obtain ⟨hm, hr⟩ := parseJob_clean cfg id n h
  have hf := sect_field cfg (jobWhat id.value) n false (jobKey cfg) { job := { id := id, pos := id.pos } }
    (fun st => st.job.outputs) "outputs" (fun kv => some (parseOutputs cfg kv.val).1)
    (fun st kv hne => jobKey_outputs_ne cfg st kv hne) (fun st kv he => (jobKey_outputs_eq cfg st kv he).1) hm
  rw [(parseJob_fields cfg id n).2.2.2]
  unfold jobLoop
  rw [hf]
  simp only [docOutputs, mget]
  cases hp : mpair n "outputs" with
  | none => rfl
  | some p =>
    obtain ⟨hmem, hk⟩ := mpair_mem hp
    obtain ⟨st, hc⟩ := sect_clean_at cfg _ n false true (jobKey cfg) _ hm hr p hmem
    rw [(jobKey_outputs_eq cfg st _ (by rw [kvOf_true]; exact hk)).2] at hc
    simp only [kvOf_true] at hc ⊢
    simp only [Option.getD_some, Option.map_some, parseOutputs_clean cfg p.2 hc, List.map_map]
    rfl

theorem jobKey_workflowCall (cfg : Cfg) (st : JobSt) (kv : KV) : (jobKey cfg st kv).1.job.workflowCall = st.job.workflowCall := by
  simp only [jobKey]
  split <;> first | rfl | (split <;> first | rfl | (split <;> rfl))

theorem jobKey_uses_ne (cfg : Cfg) (st : JobSt) (kv : KV) (h : kv.id ≠ "uses") : (jobKey cfg st kv).1.call.uses = st.call.uses := by
  simp only [jobKey]
  split <;> first | rfl | exact absurd ‹_› h | (split <;> first | rfl | (split <;> rfl))

theorem jobKey_uses_eq (cfg : Cfg) (st : JobSt) (kv : KV) (h : kv.id = "uses") :
    (jobKey cfg st kv).1.call.uses = some (parseString kv.val false).1 := by
  simp only [jobKey]
  split <;> first | rfl | (exfalso; simp_all)

/-- **a job node without a `uses:` key is not a reusable-workflow call** -/
theorem parseJob_no_call (cfg : Cfg) (id : Str) (n : Node) (h : (parseJob cfg id n).2 = []) (hu : mget n "uses" = none) :
    (parseJob cfg id n).1.workflowCall = none := by
  obtain ⟨hm, _⟩ := parseJob_clean cfg id n h
  have hf := sect_field cfg (jobWhat id.value) n false (jobKey cfg) { job := { id := id, pos := id.pos } }
    (fun st => st.call.uses) "uses" (fun kv => some (parseString kv.val false).1)
    (fun st kv hne => jobKey_uses_ne cfg st kv hne) (fun st kv he => jobKey_uses_eq cfg st kv he) hm
  have hu' : mpair n "uses" = none := by
    simp only [mget, Option.map_eq_none_iff] at hu
    exact hu
  rw [hu'] at hf
  have hw : (jobLoop cfg id n).1.job.workflowCall = none :=
    loop_inv (jobKey cfg) (fun st => st.job.workflowCall = none) (fun st kv hs => by rw [jobKey_workflowCall]; exact hs) _ _ rfl
  have hf' : (jobLoop cfg id n).1.call.uses = none := hf
  show (jobFinish id (jobLoop cfg id n).1).1.workflowCall = none
  simp only [jobFinish, hf', Option.isSome_none, Bool.false_eq_true, if_false]
  exact hw

/-! ### `jobs:` and the workflow -/

/-- the entry of `Workflow.Jobs` built from a pair of `jobs:` -/
def jobOf (cfg : Cfg) (p : Node × Node) : String × Job := (cfg.lower p.1.value, (parseJob cfg (newString p.1) p.2).1)

/-- `parseJobs`, clean: one job per pair of the node, keyed by the folded key, each parsed without a diagnostic -/
theorem parseJobs_clean (cfg : Cfg) (n : Node) (h : (parseJobs cfg n).2 = []) :
    (parseJobs cfg n).1 = (pairs n.content).map (jobOf cfg) ∧
    ∀ p ∈ pairs n.content, (parseJob cfg (newString p.1) p.2).2 = [] := by
  simp only [parseJobs, append_nil_iff, parseSectionMapping] at h ⊢
  have he := parseMapping_clean_eq cfg _ n false false h.1
  refine ⟨?_, ?_⟩
  · rw [mapKVs_fst, he, List.map_map]
    apply List.map_congr_left
    intro p _
    simp [jobOf, kvOf_false]
  · intro p hp
    have := (mapKVs_clean _ _ h.2 (kvOf cfg false p) (by rw [he]; exact List.mem_map.2 ⟨p, hp, rfl⟩)).1
    simpa [kvOf_false] using this

theorem workflowKey_jobs_ne (cfg : Cfg) (w : Workflow) (kv : KV) (h : kv.id ≠ "jobs") : (workflowKey cfg w kv).1.jobs = w.jobs := by
  simp only [workflowKey]
  split <;> first | rfl | exact absurd ‹_› h

theorem workflowKey_jobs_eq (cfg : Cfg) (w : Workflow) (kv : KV) (h : kv.id = "jobs") :
    (workflowKey cfg w kv).1.jobs = some (parseJobs cfg kv.val).1 ∧ (workflowKey cfg w kv).2 = (parseJobs cfg kv.val).2 := by
  simp only [workflowKey]
  split <;> first | exact ⟨rfl, rfl⟩ | (exfalso; simp_all)

/-- what `parse` is on a document it accepts: there is a root mapping, `parseMapping` and the key loop were clean -/
theorem parse_clean (cfg : Cfg) (doc : Node) (h : (parse cfg doc).2 = []) :
    ∃ root, docRoot doc = some root ∧ (parseMapping cfg "workflow" root false true).2 = [] ∧
      (loop (workflowKey cfg) {} (parseMapping cfg "workflow" root false true).1).2 = [] ∧
      (parse cfg doc).1 = (loop (workflowKey cfg) {} (parseMapping cfg "workflow" root false true).1).1 ∧
      (parse cfg doc).1.on.isNone = false ∧ (parse cfg doc).1.jobs.isNone = false := by
  unfold parse at h ⊢
  simp only [fixDocPos_content] at h ⊢
  unfold docRoot
  cases hc : doc.content with
  | nil => rw [hc] at h; simp at h
  | cons root rest =>
    rw [hc] at h
    simp only [append_nil_iff] at h
    refine ⟨root, rfl, h.1.1.1, h.1.1.2, rfl, ?_, ?_⟩
    · have := h.1.2
      revert this
      cases (loop (workflowKey cfg) {} (parseMapping cfg "workflow" root false true).1).1.on <;> simp
    · have := h.2
      revert this
      cases (loop (workflowKey cfg) {} (parseMapping cfg "workflow" root false true).1).1.jobs <;> simp

/-- **`Workflow.Jobs` of an accepted document: one job per pair of `jobs:`**, in order, keyed by the folded key, each
parsed (by `parseJob`, from the key scalar and the value node) without a diagnostic -/
theorem parse_jobs_written (cfg : Cfg) (doc : Node) (h : (parse cfg doc).2 = []) :
    (parse cfg doc).1.jobs = some ((docJobs doc).map (jobOf cfg)) ∧
    ∀ p ∈ docJobs doc, (parseJob cfg (newString p.1) p.2).2 = [] := by
  obtain ⟨root, hroot, hm, hr, he, _, hjs⟩ := parse_clean cfg doc h
  have hf := sect_field cfg "workflow" root false (workflowKey cfg) {} (fun w => w.jobs) "jobs"
    (fun kv => some (parseJobs cfg kv.val).1)
    (fun st kv hne => workflowKey_jobs_ne cfg st kv hne) (fun st kv he => (workflowKey_jobs_eq cfg st kv he).1) hm
  rw [he, hf]
  simp only [docJobs, hroot, Option.bind_some, mget]
  cases hp : mpair root "jobs" with
  | none =>
    exfalso
    have hj : (parse cfg doc).1.jobs = none := by rw [he, hf, hp]
    rw [hj] at hjs
    cases hjs
  | some p =>
    obtain ⟨hmem, hk⟩ := mpair_mem hp
    obtain ⟨st, hc⟩ := sect_clean_at cfg _ root false true (workflowKey cfg) _ hm hr p hmem
    rw [(workflowKey_jobs_eq cfg st _ (by rw [kvOf_true]; exact hk)).2] at hc
    simp only [kvOf_true] at hc ⊢
    obtain ⟨h1, h2⟩ := parseJobs_clean cfg p.2 hc
    simp only [h1, Option.map_some, true_and]
    exact h2

end AL.C05D
