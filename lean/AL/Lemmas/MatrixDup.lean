import AL.Lemmas.MatrixEq
/-
  Duplicate detection (`dupRow`): exact description of the reported diagnostics, and permutation
  invariance of their number.
-/
namespace AL.Matrix
open AL.Spec

/-! ### `firstEqual` -/

theorem firstEqual_eq_find (v : Raw) (l : List Raw) :
    firstEqual v l = l.find? (fun p => equals p v) := by
  induction l with
  | nil => rfl
  | cons p ps ih =>
    simp only [firstEqual, List.find?_cons]
    cases equals p v <;> simp [ih]

theorem firstEqual_append (v : Raw) (l₁ l₂ : List Raw) :
    firstEqual v (l₁ ++ l₂) = (firstEqual v l₁).or (firstEqual v l₂) := by
  simp [firstEqual_eq_find, List.find?_append]

theorem firstEqual_some {v p : Raw} {l : List Raw} (h : firstEqual v l = some p) :
    p ∈ l ∧ equals p v = true := by
  rw [firstEqual_eq_find] at h
  exact ⟨List.mem_of_find?_eq_some h, by simpa using List.find?_some h⟩

theorem firstEqual_eq_none {v : Raw} {l : List Raw} :
    firstEqual v l = none ↔ ∀ p ∈ l, equals p v = false := by
  rw [firstEqual_eq_find, List.find?_eq_none]; simp

/-! ### Exact description of `dupRow` -/

/-- The diagnostic (if any) for the value at index `i` of a row: it is reported iff an earlier value
of the row is equal to it, and then the *first* such earlier value is named. -/
def dupAt (row : String) (vs : List Raw) (i : Nat) : Option Diag :=
  match vs[i]? with
  | none => none
  | some v => (firstEqual v (vs.take i)).map fun p => .dup v.pos row p.pos

/-- "Equal to an earlier kept value" is the same as "equal to an earlier value": the invariant of
the loop in `checkDuplicateInRow` (`pre` = values processed so far, `seen` = values kept). -/
theorem dupRow_gen (row : String) :
    ∀ (vs pre seen : List Raw), (∀ v, firstEqual v seen = firstEqual v pre) →
      dupRow row vs seen =
        (List.range vs.length).filterMap (fun i => dupAt row (pre ++ vs) (pre.length + i))
  | [], pre, seen, _ => by simp [dupRow]
  | x :: t, pre, seen, inv => by
    have hx : dupAt row (pre ++ x :: t) (pre.length + 0) =
        (firstEqual x pre).map fun p => .dup x.pos row p.pos := by
      simp [dupAt]
    have hrest : ∀ i, dupAt row (pre ++ x :: t) (pre.length + (i + 1)) =
        dupAt row ((pre ++ [x]) ++ t) ((pre ++ [x]).length + i) := by
      intro i
      have e1 : pre ++ x :: t = (pre ++ [x]) ++ t := by simp
      have e2 : pre.length + (i + 1) = (pre ++ [x]).length + i := by simp; omega
      rw [e1, e2]
    rw [List.length_cons, List.range_succ_eq_map, List.filterMap_cons, hx, List.filterMap_map]
    simp only [Function.comp_def, hrest]
    rw [dupRow]
    cases hf : firstEqual x seen with
    | some p =>
      have hp := firstEqual_some hf
      rw [← inv x, hf]
      simp only [Option.map_some]
      congr 1
      apply dupRow_gen row t (pre ++ [x]) seen
      intro v
      rw [firstEqual_append, ← inv v]
      cases hv : firstEqual v seen with
      | some _ => simp
      | none =>
        have hxv : equals x v = false := by
          cases hxv : equals x v with
          | false => rfl
          | true =>
            have := firstEqual_eq_none.1 hv p hp.1
            rw [equals_trans p x v hp.2 hxv] at this
            cases this
        simp [firstEqual, hxv]
    | none =>
      rw [← inv x, hf]
      simp only [Option.map_none]
      apply dupRow_gen row t (pre ++ [x]) (seen ++ [x])
      intro v
      rw [firstEqual_append, firstEqual_append, inv v]

theorem dupRow_eq (row : String) (vs : List Raw) :
    dupRow row vs [] = (List.range vs.length).filterMap (dupAt row vs) := by
  simpa using dupRow_gen row vs [] [] (fun _ => rfl)

theorem dupAt_eq_some {row : String} {vs : List Raw} {i : Nat} {d : Diag}
    (h : dupAt row vs i = some d) :
    ∃ (hi : i < vs.length) (j : Nat) (hj : j < i),
      equals (vs[j]'(Nat.lt_trans hj hi)) vs[i] = true ∧
      (∀ j' (hj' : j' < j), equals (vs[j']'(Nat.lt_trans hj' (Nat.lt_trans hj hi))) vs[i] = false) ∧
      d = .dup (vs[i]).pos row (vs[j]'(Nat.lt_trans hj hi)).pos := by
  unfold dupAt at h
  split at h
  · cases h
  · next v hv =>
    obtain ⟨hi, hvi⟩ := List.getElem?_eq_some_iff.1 hv
    subst hvi
    simp only [Option.map_eq_some_iff] at h
    obtain ⟨p, hp, rfl⟩ := h
    rw [firstEqual_eq_find, List.find?_eq_some_iff_getElem] at hp
    obtain ⟨hpe, j, hj, hjp, hmin⟩ := hp
    have hj' : j < i := by simp at hj; omega
    refine ⟨hi, j, hj', ?_, ?_, ?_⟩
    · simp only [List.getElem_take] at hjp; rw [hjp]; exact hpe
    · intro j' hlt
      have := hmin j' hlt
      simpa [List.getElem_take] using this
    · simp only [List.getElem_take] at hjp; rw [hjp]

theorem dupAt_isSome_iff (row : String) (vs : List Raw) (i : Nat) (hi : i < vs.length) :
    (dupAt row vs i).isSome = true ↔
      ∃ j, ∃ (hj : j < i), equals (vs[j]'(Nat.lt_trans hj hi)) vs[i] = true := by
  constructor
  · intro h
    obtain ⟨d, hd⟩ := Option.isSome_iff_exists.1 h
    obtain ⟨_, j, hj, he, _, _⟩ := dupAt_eq_some hd
    exact ⟨j, hj, he⟩
  · rintro ⟨j, hj, he⟩
    unfold dupAt
    rw [List.getElem?_eq_getElem hi]
    simp only [Option.isSome_map]
    cases hf : firstEqual vs[i] (vs.take i) with
    | some _ => rfl
    | none =>
      have := firstEqual_eq_none.1 hf (vs[j]'(Nat.lt_trans hj hi))
        (List.mem_take_iff_getElem.2 ⟨j, by omega, rfl⟩)
      rw [he] at this; cases this

/-! ### Number of reports -/

/-- Number of values of `vs` that are *not* reported, when `P` tells which values count as already
seen. -/
def freshCount (P : Raw → Bool) : List Raw → Nat
  | [] => 0
  | v :: vs => if P v then freshCount P vs else 1 + freshCount (fun x => P x || equals v x) vs

theorem freshCount_congr {P P' : Raw → Bool} :
    ∀ (l : List Raw), (∀ v ∈ l, RawWF v) → (∀ z, RawWF z → P z = P' z) →
      freshCount P l = freshCount P' l
  | [], _, _ => rfl
  | v :: t, wf, h => by
    have wv : RawWF v := wf v (by simp)
    have wt : ∀ z ∈ t, RawWF z := fun z hz => wf z (List.mem_cons_of_mem _ hz)
    simp only [freshCount, ← h v wv]
    split
    · exact freshCount_congr t wt h
    · congr 1
      exact freshCount_congr t wt (fun z wz => by simp only [h z wz])

theorem dupRow_length_add (row : String) :
    ∀ (vs seen : List Raw),
      (dupRow row vs seen).length + freshCount (fun x => seen.any (fun p => equals p x)) vs = vs.length
  | [], _ => by simp [dupRow, freshCount]
  | v :: t, seen => by
    rw [dupRow, freshCount]
    cases hf : firstEqual v seen with
    | some p =>
      have hp := firstEqual_some hf
      have : seen.any (fun p => equals p v) = true := List.any_eq_true.2 ⟨p, hp.1, hp.2⟩
      simp only [this, if_true, List.length_cons]
      have := dupRow_length_add row t seen
      omega
    | none =>
      have : seen.any (fun p => equals p v) = false := by
        rw [List.any_eq_false]; intro p hp
        simp [firstEqual_eq_none.1 hf p hp]
      simp only [this, Bool.false_eq_true, if_false, List.length_cons]
      have := dupRow_length_add row t (seen ++ [v])
      simp only [List.any_append, List.any_cons, List.any_nil, Bool.or_false] at this
      omega

theorem freshCount_perm {l₁ l₂ : List Raw} (h : l₁.Perm l₂) :
    (∀ v ∈ l₁, RawWF v) → ∀ P, freshCount P l₁ = freshCount P l₂ := by
  induction h with
  | nil => intros; rfl
  | cons x _ ih =>
    intro wf P
    have wt := fun z hz => wf z (List.mem_cons_of_mem _ hz)
    simp only [freshCount]
    rw [ih wt, ih wt]
  | swap x y l =>
    intro wf P
    have wy : RawWF y := wf y (by simp)
    have wx : RawWF x := wf x (by simp)
    have wl : ∀ z ∈ l, RawWF z := fun z hz => wf z (by simp [hz])
    have hsym : equals y x = equals x y := equals_symm y x wy wx
    have hcomm : freshCount (fun z => (P z || equals y z) || equals x z) l =
        freshCount (fun z => (P z || equals x z) || equals y z) l := by
      congr 1; funext z; exact Bool.or_right_comm ..
    simp only [freshCount, hsym]
    cases hpx : P x <;> cases hpy : P y <;> simp only [Bool.false_or, Bool.true_or, if_true,
      Bool.false_eq_true, if_false]
    · cases hxy : equals x y
      · simp only [Bool.false_eq_true, if_false]; rw [hcomm]
      · simp only [if_true]
        congr 1
        apply freshCount_congr l wl
        intro z _
        have hyx : equals y x = true := hsym.trans hxy
        rw [equals_congr_left wy wx hyx]
  | trans h₁ _ ih₁ ih₂ =>
    intro wf P
    rw [ih₁ wf, ih₂ (fun v hv => wf v (h₁.mem_iff.2 hv))]

theorem dupRow_length_perm (row : String) {vs ws : List Raw} (wf : ∀ v ∈ vs, RawWF v)
    (h : vs.Perm ws) : (dupRow row vs []).length = (dupRow row ws []).length := by
  have h1 := dupRow_length_add row vs []
  have h2 := dupRow_length_add row ws []
  rw [freshCount_perm h wf] at h1
  have := h.length_eq
  omega

end AL.Matrix
