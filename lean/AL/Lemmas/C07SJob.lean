import AL.Lemmas.C07SEvents
/-
  C07Sites, parser side, part 3: the sections shared by workflow and job, the matrix, containers, steps, jobs, the workflow.
-/
namespace AL.C07S
open AL.Yaml AL.Ast AL.PW

variable {S : List Node}

/-! ### sections shared by workflow and job -/

theorem parsePermissions_ok (cfg : Cfg) {pos : Pos} (hp : POk S pos) {n : Node} (h : ∀ x ∈ allNodes n, x ∈ S) :
    ROk S (parsePermissions cfg pos n) := by
  have hs := parseString_ok (S := S) (self_mem h) false
  have hm := parseSectionMapping_ok (S := S) cfg "permissions" h true false
  simp only [parsePermissions]
  split
  · simp_all
  · generalize hr : mapKVs _ _ = r
    have hrok : ROk S r := by
      rw [← hr]
      refine mapKVs_ok _ _ hm.1 ?_
      intro kv hkv
      have := parseString_ok (S := S) hkv.valMem false
      have := hkv.1
      simp_all
    simp_all

theorem parseEnv_ok (cfg : Cfg) {n : Node} (h : ∀ x ∈ allNodes n, x ∈ S) : ROk S (parseEnv cfg n) := by
  have he := fun e => parseExpression_ok (S := S) (self_mem h) e
  have hm := parseMapping_ok (S := S) cfg "env" h false false
  simp only [parseEnv]
  split
  · simp_all
  · generalize hr : mapKVs _ _ = r
    have hrok : ROk S r := by
      rw [← hr]
      refine mapKVs_ok _ _ hm.1 ?_
      intro kv hkv
      have := parseString_ok (S := S) hkv.valMem true
      have := hkv.1
      simp_all
    simp_all

theorem defaultsRunKey_ok {st : DefaultsRun} {attr : KV} (hkv : KVOk S attr) (hst : IOk S st) :
    ROk S (defaultsRunKey st attr) := by
  have hs := fun ae => parseString_ok (S := S) hkv.valMem ae
  have hu := fun sec exp => unexpectedKey_ok (S := S) hkv sec exp
  simp only [defaultsRunKey]
  split <;> simp_all

theorem parseDefaults_ok (cfg : Cfg) {pos : Pos} (hp : POk S pos) {n : Node} (h : ∀ x ∈ allNodes n, x ∈ S) :
    ROk S (parseDefaults cfg pos n) := by
  have hm := parseSectionMapping_ok (S := S) cfg "defaults" h false true
  have he := fun c a => errAt_ok (S := S) (self_mem h) c a
  simp only [parseDefaults]
  generalize hr : loop _ _ _ = r
  have hrok : ROk S r := by
    rw [← hr]
    refine loop_ok _ _ _ hm.1 ?_ (by simp)
    intro st kv hkv hst
    have hu := fun sec exp => unexpectedKey_ok (S := S) hkv sec exp
    have hi := parseSectionMapping_ok (S := S) cfg "run" hkv.2 false true
    have hx := loop_ok (S := S) defaultsRunKey _ { pos := kv.key.pos } hi.1 (fun st kv h1 h2 => defaultsRunKey_ok h1 h2)
      (by have := hkv.keyPos; simp_all)
    split <;> simp_all
  split <;> simp_all

theorem concurrencyKey_ok {st : Concurrency × Bool} {kv : KV} (hkv : KVOk S kv) (hst : IOk S st) :
    ROk S (concurrencyKey st kv) := by
  have hs := fun ae => parseString_ok (S := S) hkv.valMem ae
  have hb := parseBool_ok (S := S) hkv.valMem
  have hu := fun sec exp => unexpectedKey_ok (S := S) hkv sec exp
  simp only [concurrencyKey]
  split <;> simp_all

theorem parseConcurrency_ok (cfg : Cfg) {pos : Pos} (hp : POk S pos) {n : Node} (h : ∀ x ∈ allNodes n, x ∈ S) :
    ROk S (parseConcurrency cfg pos n) := by
  have hs := parseString_ok (S := S) (self_mem h) false
  have hm := parseSectionMapping_ok (S := S) cfg "concurrency" h false true
  have hr := loop_ok (S := S) concurrencyKey _ ({ pos := pos }, false) hm.1 (fun st kv h1 h2 => concurrencyKey_ok h1 h2)
    (by simp_all)
  simp only [parseConcurrency]
  repeat' split
  all_goals simp_all [POk]

theorem environmentKey_ok {st : Environment × Bool} {kv : KV} (hkv : KVOk S kv) (hst : IOk S st) :
    ROk S (environmentKey st kv) := by
  have hs := fun ae => parseString_ok (S := S) hkv.valMem ae
  have hu := fun sec exp => unexpectedKey_ok (S := S) hkv sec exp
  simp only [environmentKey]
  split <;> simp_all

theorem parseEnvironment_ok (cfg : Cfg) {pos : Pos} (hp : POk S pos) {n : Node} (h : ∀ x ∈ allNodes n, x ∈ S) :
    ROk S (parseEnvironment cfg pos n) := by
  have hs := parseString_ok (S := S) (self_mem h) false
  have hm := parseSectionMapping_ok (S := S) cfg "environment" h false true
  have hr := loop_ok (S := S) environmentKey _ ({ pos := pos }, false) hm.1 (fun st kv h1 h2 => environmentKey_ok h1 h2)
    (by simp_all)
  simp only [parseEnvironment]
  repeat' split
  all_goals simp_all [POk]

theorem parseOutputs_ok (cfg : Cfg) {n : Node} (h : ∀ x ∈ allNodes n, x ∈ S) : ROk S (parseOutputs cfg n) := by
  have hm := parseSectionMapping_ok (S := S) cfg "outputs" h false false
  have hc := fun len => checkNotEmpty_ok (S := S) (self_mem h) "outputs" len
  simp only [parseOutputs]
  generalize hr : mapKVs _ _ = r
  have hrok : ROk S r := by
    rw [← hr]
    refine mapKVs_ok _ _ hm.1 ?_
    intro kv hkv
    have := parseString_ok (S := S) hkv.valMem true
    have := hkv.1
    simp_all
  simp_all

/-! ### matrix -/

mutual
theorem rawValue_ok (cfg : Cfg) : ∀ (n : Node), (∀ x ∈ allNodes n, x ∈ S) → ROk S (rawValue cfg n)
  | .mk k t v q l c cs, h => by
    have hn := self_mem h
    have hcs : ∀ c' ∈ cs, ∀ x ∈ allNodes c', x ∈ S := fun c' hc' => content_sub h c' (by simpa [Node.content] using hc')
    have hp : POk S ⟨l, c⟩ := ⟨_, hn, rfl⟩
    cases k with
    | scalar =>
      simp only [rawValue, ROk_iff, IOk_some, IOk_raw_str, EOk_nil, and_true]
      exact ⟨_, hn, ⟨rfl, Or.inl rfl, Or.inr rfl, Or.inl rfl⟩⟩
    | sequence =>
      have := rawSeq_ok cfg cs hcs
      simp only [rawValue]
      simp_all
    | mapping =>
      have := rawProps_ok cfg cs [] hcs
      simp only [rawValue]
      simp_all
    | document =>
      simp only [rawValue, ROk_iff, IOk_none, EOk_cons, EOk_nil, and_true, true_and]
      exact ⟨_, hn, rfl⟩
    | alias =>
      simp only [rawValue, ROk_iff, IOk_none, EOk_cons, EOk_nil, and_true, true_and]
      exact ⟨_, hn, rfl⟩
theorem rawSeq_ok (cfg : Cfg) : ∀ (cs : List Node), (∀ c ∈ cs, ∀ x ∈ allNodes c, x ∈ S) → ROk S (rawSeq cfg cs)
  | [], _ => by simp [rawSeq]
  | c :: cs, h => by
    have h1 := rawValue_ok cfg c (h c (List.mem_cons_self ..))
    have h2 := rawSeq_ok cfg cs (fun x hx => h x (List.mem_cons_of_mem _ hx))
    simp only [rawSeq]
    split <;> simp_all
theorem rawProps_ok (cfg : Cfg) : ∀ (cs : List Node) (seen : List (String × Pos)), (∀ c ∈ cs, ∀ x ∈ allNodes c, x ∈ S) →
    IOk S (rawProps cfg cs seen).1 ∧ EOk S (rawProps cfg cs seen).2.1 ∧ EOk S (rawProps cfg cs seen).2.2
  | [], _, _ => by simp [rawProps]
  | [_], _, _ => by simp [rawProps]
  | kn :: vn :: rest, seen, h => by
    have hkn : kn ∈ S := h kn (List.mem_cons_self ..) kn (mem_allNodes_self kn)
    have hk := parseString_ok (S := S) hkn false
    have hkp : ∃ v ∈ S, (parseString kn false).1.pos = v.pos := ⟨kn, hkn, parseString_pos kn false⟩
    have hv := rawValue_ok cfg vn (h vn (List.mem_cons_of_mem _ (List.mem_cons_self ..)))
    have hrest : ∀ c ∈ rest, ∀ x ∈ allNodes c, x ∈ S :=
      fun x hx => h x (List.mem_cons_of_mem _ (List.mem_cons_of_mem _ hx))
    have ih := fun seen' => rawProps_ok cfg rest seen' hrest
    simp only [rawProps]
    repeat' split
    all_goals simp_all
end

theorem matrixAssigns_ok (cfg : Cfg) : ∀ (kvs : List KV), (∀ kv ∈ kvs, KVOk S kv) → ROk S (matrixAssigns cfg kvs)
  | [], _ => by simp [matrixAssigns]
  | kv :: rest, hk => by
    have hkv := hk kv (List.mem_cons_self ..)
    have h1 := rawValue_ok (S := S) cfg kv.val hkv.2
    have h2 := matrixAssigns_ok cfg rest (fun x hx => hk x (List.mem_cons_of_mem _ hx))
    have := hkv.1
    simp only [matrixAssigns]
    split <;> simp_all

theorem matrixCombos_ok (cfg : Cfg) (sec : String) : ∀ (cs : List Node), (∀ c ∈ cs, ∀ x ∈ allNodes c, x ∈ S) →
    ROk S (matrixCombos cfg sec cs)
  | [], _ => by simp [matrixCombos]
  | c :: cs, h => by
    have hc := h c (List.mem_cons_self ..)
    have ih := matrixCombos_ok cfg sec cs (fun x hx => h x (List.mem_cons_of_mem _ hx))
    have he := parseExpression_ok (S := S) (self_mem hc) "mapping of matrix combination"
    have hm := parseMapping_ok (S := S) cfg ("element in \"" ++ sec ++ "\" section") hc false false
    have ha := matrixAssigns_ok (S := S) cfg _ hm.1
    simp only [matrixCombos]
    repeat' split
    all_goals simp_all

theorem parseMatrixCombinations_ok (cfg : Cfg) (sec : String) {n : Node} (h : ∀ x ∈ allNodes n, x ∈ S) :
    ROk S (parseMatrixCombinations cfg sec n) := by
  have he := fun e => parseExpression_ok (S := S) (self_mem h) e
  have hc := checkSequence_ok (S := S) (self_mem h) sec false
  have hr := matrixCombos_ok (S := S) cfg sec n.content (content_sub h)
  simp only [parseMatrixCombinations]
  repeat' split
  all_goals simp_all

theorem setAssoc_ok {β : Type} [HasItems β] (k : String) {v : β} (hv : IOk S v) :
    ∀ (l : List (String × β)), IOk S l → IOk S (setAssoc k v l)
  | [], _ => by simp_all [setAssoc]
  | (k', v') :: rest, h => by
    have ih := setAssoc_ok k hv rest
    simp only [setAssoc]
    split <;> simp_all

theorem matrixKey_ok (cfg : Cfg) {st : Ast.Matrix} {kv : KV} (hkv : KVOk S kv) (hst : IOk S st) :
    ROk S (matrixKey cfg st kv) := by
  have hc := fun sec => parseMatrixCombinations_ok (S := S) cfg sec hkv.2
  have he := fun e => parseExpression_ok (S := S) hkv.valMem e
  have hq := checkSequence_ok (S := S) hkv.valMem "matrix values" false
  have hr := rawSeq_ok (S := S) cfg kv.val.content (content_sub hkv.2)
  have hk := hkv.1
  have hrows : IOk S (st.rows.getD []) := IOk_getD (IOk_Matrix.1 hst).1
  simp only [matrixKey]
  repeat' split
  · simp_all
  · simp_all
  · refine ⟨?_, (he _).2⟩
    simp only [IOk_Matrix, IOk_some]
    refine ⟨setAssoc_ok _ (by simp_all) _ hrows, ?_⟩
    simp_all
  · simp_all
  · refine ⟨?_, by simp_all⟩
    simp only [IOk_Matrix, IOk_some]
    refine ⟨setAssoc_ok _ (by simp_all) _ hrows, ?_⟩
    simp_all

theorem parseMatrix_ok (cfg : Cfg) {pos : Pos} (hp : POk S pos) {n : Node} (h : ∀ x ∈ allNodes n, x ∈ S) :
    ROk S (parseMatrix cfg pos n) := by
  have he := fun e => parseExpression_ok (S := S) (self_mem h) e
  have hnp := POk_of_mem (self_mem h)
  have hm := parseSectionMapping_ok (S := S) cfg "matrix" h false false
  have hr := loop_ok (S := S) (matrixKey cfg) _ { rows := some [], pos := pos } hm.1
    (fun st kv h1 h2 => matrixKey_ok cfg h1 h2) (by simp_all)
  simp only [parseMatrix]
  split <;> simp_all

theorem parseMaxParallel_ok (cfg : Cfg) {n : Node} (h : n ∈ S) : ROk S (parseMaxParallel cfg n) := by
  have hi := parseInt_ok (S := S) cfg h
  have he := fun c a => errAt_ok (S := S) h c a
  simp only [parseMaxParallel]
  repeat' split
  all_goals simp_all

theorem strategyKey_ok (cfg : Cfg) {st : Strategy} {kv : KV} (hkv : KVOk S kv) (hst : IOk S st) :
    ROk S (strategyKey cfg st kv) := by
  have hm := parseMatrix_ok (S := S) cfg hkv.keyPos hkv.2
  have hb := parseBool_ok (S := S) hkv.valMem
  have hi := parseMaxParallel_ok (S := S) cfg hkv.valMem
  have hu := fun sec exp => unexpectedKey_ok (S := S) hkv sec exp
  simp only [strategyKey]
  split <;> simp_all

theorem parseStrategy_ok (cfg : Cfg) {pos : Pos} (hp : POk S pos) {n : Node} (h : ∀ x ∈ allNodes n, x ∈ S) :
    ROk S (parseStrategy cfg pos n) := by
  have hm := parseSectionMapping_ok (S := S) cfg "strategy" h false true
  have hr := loop_ok (S := S) (strategyKey cfg) _ { pos := pos } hm.1
    (fun st kv h1 h2 => strategyKey_ok cfg h1 h2) (by simp_all)
  simp only [parseStrategy]
  simp_all

/-! ### container, services -/

theorem credentialsKey_ok {st : Credentials} {c : KV} (hkv : KVOk S c) (hst : IOk S st) : ROk S (credentialsKey st c) := by
  have hs := fun ae => parseString_ok (S := S) hkv.valMem ae
  have hu := fun sec exp => unexpectedKey_ok (S := S) hkv sec exp
  simp only [credentialsKey]
  split <;> simp_all

theorem containerKey_ok (cfg : Cfg) (sec : String) {st : Container} {kv : KV} (hkv : KVOk S kv) (hst : IOk S st) :
    ROk S (containerKey cfg sec st kv) := by
  have hs := fun ae => parseString_ok (S := S) hkv.valMem ae
  have hu := fun sec exp => unexpectedKey_ok (S := S) hkv sec exp
  have hm := parseSectionMapping_ok (S := S) cfg "credentials" hkv.2 false true
  have hr := loop_ok (S := S) credentialsKey _ { pos := kv.key.pos } hm.1 (fun st kv h1 h2 => credentialsKey_ok h1 h2)
    (by have := hkv.keyPos; simp_all)
  have he := parseEnv_ok (S := S) cfg hkv.2
  have hq := fun sec => parseStringSequence_ok (S := S) hkv.2 sec true false
  have hk := hkv.keyPos
  simp only [containerKey]
  repeat' split
  all_goals simp_all [POk]

theorem parseContainer_ok (cfg : Cfg) (sec : String) {pos : Pos} (hp : POk S pos) {n : Node} (h : ∀ x ∈ allNodes n, x ∈ S) :
    ROk S (parseContainer cfg sec pos n) := by
  have hs := parseString_ok (S := S) (self_mem h) false
  have hm := parseSectionMapping_ok (S := S) cfg sec h false true
  have hr := loop_ok (S := S) (containerKey cfg sec) _ { pos := pos } hm.1
    (fun st kv h1 h2 => containerKey_ok cfg sec h1 h2) (by simp_all)
  simp only [parseContainer]
  split <;> simp_all

theorem parseServices_ok (cfg : Cfg) {n : Node} (h : ∀ x ∈ allNodes n, x ∈ S) : ROk S (parseServices cfg n) := by
  have hx := mayParseExpression_ok (S := S) (self_mem h)
  have hnp := POk_of_mem (self_mem h)
  have hm := parseSectionMapping_ok (S := S) cfg "services" h false false
  simp only [parseServices]
  split
  · simp_all
  · generalize hr : mapKVs _ _ = r
    have hrok : ROk S r := by
      rw [← hr]
      refine mapKVs_ok _ _ hm.1 ?_
      intro kv hkv
      have := parseContainer_ok (S := S) cfg "services" hkv.keyPos hkv.2
      have := hkv.1
      simp_all
    simp_all

theorem parseTimeoutMinutes_ok (cfg : Cfg) {n : Node} (h : n ∈ S) : ROk S (parseTimeoutMinutes cfg n) := by
  have hi := parseFloat_ok (S := S) cfg h
  have he := fun c a => errAt_ok (S := S) h c a
  simp only [parseTimeoutMinutes]
  repeat' split
  all_goals simp_all

end AL.C07S
