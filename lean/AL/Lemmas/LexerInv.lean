import AL.Model.Lexer
/-
  Scanner / lexer-state invariants for the lexer model.

  * `Scanner.unread`  : the characters the scanner can still deliver (look-ahead first).
  * `SInv src s pre`  : the scanner `s` runs over `src`, `pre` are the characters already consumed;
                        `srcPos` = bytes of all characters read (look-ahead included),
                        `pos.off = srcPos - lastCharLen` = bytes of `pre`; for a one-line ASCII source
                        (`Flat`) `line = 1` and `column` = characters read.
  * `LInv src done st`: lexer state: `src = done ++ st.buf ++ unread`, `start` is the position after `done`.
  * `Steps st x st'`  : `st'` is reached from `st` by `x.length` successful `Next()` calls which delivered `x`.
-/
namespace AL.Lex
open AL

/-! ### the unread part of the input -/

def _root_.AL.Scanner.unread (s : Scanner) : List Sym :=
  match s.ch with
  | some c => c :: s.rest
  | none => []

theorem remaining_eq_unread (s : Scanner) : s.remaining = s.unread.length := by
  unfold Scanner.remaining Scanner.unread; cases s.ch <;> simp

theorem peek_eq_unread (s : Scanner) : s.peek = s.unread.head?.map (·.r) := by
  unfold Scanner.peek Scanner.unread; cases s.ch <;> simp

theorem read_unread (s : Scanner) : s.read.1.unread = s.rest := by
  unfold Scanner.read
  cases h : s.rest with
  | nil => simp [Scanner.unread]
  | cons c r => simp [Scanner.unread]

theorem unread_of_some {s : Scanner} {c : Sym} (h : s.ch = some c) : s.unread = c :: s.rest := by
  simp [Scanner.unread, h]

theorem unread_of_none {s : Scanner} (h : s.ch = none) : s.unread = [] := by
  simp [Scanner.unread, h]

/-! ### `scanErrs`, `error`, `next` only touch what they should -/

@[simp] theorem scanErrs_buf (st : LexState) (es : List ScanErr) : (st.scanErrs es).buf = st.buf := by
  induction es generalizing st with
  | nil => rfl
  | cons e es ih => simp only [LexState.scanErrs]; rw [ih]; split <;> rfl

@[simp] theorem scanErrs_start (st : LexState) (es : List ScanErr) : (st.scanErrs es).start = st.start := by
  induction es generalizing st with
  | nil => rfl
  | cons e es ih => simp only [LexState.scanErrs]; rw [ih]; split <;> rfl

theorem scanErrs_err_none {st : LexState} {es : List ScanErr} (h : (st.scanErrs es).err = none) : st.err = none := by
  induction es generalizing st with
  | nil => exact h
  | cons e es ih =>
    simp only [LexState.scanErrs] at h
    have := ih h
    cases hst : st.err with
    | none => rfl
    | some e' => simp [hst] at this

theorem scanErrs_err_some {st : LexState} {es : List ScanErr} {e : LexErr} (h : st.err = some e) :
    (st.scanErrs es).err = some e := by
  induction es generalizing st with
  | nil => exact h
  | cons e' es ih =>
    simp only [LexState.scanErrs]
    apply ih
    split
    · exact h
    · rename_i h'; rw [h] at h'; cases h'

@[simp] theorem error_buf (st : LexState) (m : LexMsg) : (st.error m).buf = st.buf := by
  unfold LexState.error; split <;> rfl

@[simp] theorem error_start (st : LexState) (m : LexMsg) : (st.error m).start = st.start := by
  unfold LexState.error; split <;> rfl

theorem error_err_ne_none (st : LexState) (m : LexMsg) : (st.error m).err ≠ none := by
  unfold LexState.error; split
  · rename_i h; simp [h]
  · simp

theorem next_none {st : LexState} (h : st.scan.ch = none) : st.next = st := by
  unfold LexState.next Scanner.next
  simp only [h]
  rfl

theorem next_some {st : LexState} {c : Sym} (h : st.scan.ch = some c) :
    st.next = ({ st with scan := st.scan.read.1, buf := st.buf ++ [c] } : LexState).scanErrs st.scan.read.2 := by
  unfold LexState.next Scanner.next
  simp only [h]

theorem next_buf_some {st : LexState} {c : Sym} (h : st.scan.ch = some c) : st.next.buf = st.buf ++ [c] := by
  rw [next_some h]; simp

@[simp] theorem next_start (st : LexState) : st.next.start = st.start := by
  cases h : st.scan.ch with
  | none => rw [next_none h]
  | some c => rw [next_some h]; simp

theorem next_unread_some {st : LexState} {c : Sym} (h : st.scan.ch = some c) :
    st.next.scan.unread = st.scan.rest := by
  rw [next_some h, LexState.scanErrs_scan]; exact read_unread _

theorem next_unread (st : LexState) : st.next.scan.unread = st.scan.unread.tail := by
  cases h : st.scan.ch with
  | none => rw [next_none h, unread_of_none h]; rfl
  | some c => rw [next_unread_some h, unread_of_some h]; rfl

theorem takeWhile_all {α} (p : α → Bool) (l : List α) : ∀ c ∈ l.takeWhile p, p c = true := by
  induction l with
  | nil => simp
  | cons a l ih =>
    simp only [List.takeWhile_cons]
    split
    · intro c hc; simp at hc; rcases hc with rfl | hc
      · assumption
      · exact ih c hc
    · simp

theorem dropWhile_head {α} (p : α → Bool) (l : List α) {d : α} {t : List α} (h : l.dropWhile p = d :: t) :
    p d = false := by
  induction l with
  | nil => simp at h
  | cons a l ih =>
    simp only [List.dropWhile_cons] at h
    split at h
    · exact ih h
    · simp at h; rw [← h.1]; simpa using ‹¬ p a = true›

theorem next_err_none {st : LexState} (h : st.next.err = none) : st.err = none := by
  cases hc : st.scan.ch with
  | none => rw [next_none hc] at h; exact h
  | some c => rw [next_some hc] at h; have := scanErrs_err_none h; exact this

theorem peek_eq (st : LexState) : st.peek = st.scan.ch.map (·.r) := rfl

theorem peek_some {st : LexState} {r : Nat} (h : st.peek = some r) : ∃ c, st.scan.ch = some c ∧ c.r = r := by
  unfold LexState.peek Scanner.peek at h
  cases hc : st.scan.ch with
  | none => simp [hc] at h
  | some c => exact ⟨c, rfl, by simpa [hc] using h⟩

theorem peek_none {st : LexState} (h : st.peek = none) : st.scan.ch = none := by
  unfold LexState.peek Scanner.peek at h
  cases hc : st.scan.ch with
  | none => rfl
  | some c => simp [hc] at h

/-! ### byte length, one-line ASCII sources -/

def bytes (l : List Sym) : Nat := (l.map (·.w)).sum

@[simp] theorem bytes_nil : bytes [] = 0 := rfl
@[simp] theorem bytes_cons (c : Sym) (l : List Sym) : bytes (c :: l) = c.w + bytes l := by simp [bytes]
@[simp] theorem bytes_append (a b : List Sym) : bytes (a ++ b) = bytes a + bytes b := by simp [bytes]

/-- one-line ASCII source (every character is one byte, no newline, valid UTF-8) -/
def Flat (src : List Sym) : Prop := ∀ s ∈ src, s.w = 1 ∧ s.r ≠ 10 ∧ s.bad = false

theorem Flat.bytes_eq {src : List Sym} (h : Flat src) : bytes src = src.length := by
  induction src with
  | nil => rfl
  | cons c l ih =>
    have h1 := (h c (by simp)).1
    have := ih (fun s hs => h s (by simp [hs]))
    simp [h1, this]; omega

theorem Flat.of_append_left {a b : List Sym} (h : Flat (a ++ b)) : Flat a := fun s hs => h s (by simp [hs])

/-! ### the scanner invariant -/

structure SInv (src : List Sym) (s : Scanner) (pre : List Sym) : Prop where
  split  : src = pre ++ s.unread
  srcPos : s.srcPos = bytes pre + s.lastCharLen
  lcl    : s.lastCharLen = (s.ch.map (·.w)).getD 0
  flat   : Flat src → s.line = 1 ∧ s.lastLineLen = 0 ∧ s.column = (if src = [] then 0 else pre.length + 1)

theorem SInv.read {src : List Sym} {s : Scanner} {pre : List Sym} {c : Sym}
    (h : SInv src s pre) (hc : s.ch = some c) : SInv src s.read.1 (pre ++ [c]) := by
  have hsplit : src = pre ++ c :: s.rest := by simpa [unread_of_some hc] using h.split
  have hl : s.lastCharLen = c.w := by simpa [hc] using h.lcl
  have hsp := h.srcPos
  have hne : src ≠ [] := by rw [hsplit]; simp
  refine ⟨?_, ?_, ?_, ?_⟩
  · rw [read_unread]; simpa using hsplit
  · unfold Scanner.read
    cases hr : s.rest with
    | nil => simp; omega
    | cons d rest =>
      simp only [Scanner.advance]
      (repeat' split) <;> simp <;> omega
  · unfold Scanner.read
    cases hr : s.rest with
    | nil => simp
    | cons d rest =>
      simp only [Scanner.advance]
      (repeat' split) <;> simp
  · intro hf
    obtain ⟨h1, h2, h3⟩ := h.flat hf
    simp only [hne, if_false] at h3 ⊢
    have hcw : c.w = 1 := (hf c (by rw [hsplit]; simp)).1
    unfold Scanner.read
    cases hr : s.rest with
    | nil => simp [h3, hl, hcw]; exact ⟨h1, h2⟩
    | cons d rest =>
      have hd := hf d (by rw [hsplit, hr]; simp)
      simp only [Scanner.advance]
      simp [hd.2.2, hd.2.1, h1, h2, h3]
      split <;> simp

theorem SInv.pos_off {src : List Sym} {s : Scanner} {pre : List Sym} (h : SInv src s pre) :
    s.pos.off = bytes pre := by
  have := h.srcPos
  unfold Scanner.pos; (repeat' split) <;> simp <;> omega

theorem SInv.pos_flat {src : List Sym} {s : Scanner} {pre : List Sym} (h : SInv src s pre) (hf : Flat src) :
    s.pos.line = 1 ∧ s.pos.col = pre.length + 1 := by
  obtain ⟨h1, h2, h3⟩ := h.flat hf
  have hs := h.split
  unfold Scanner.pos
  by_cases hsrc : src = []
  · simp only [hsrc, if_true] at h3
    have : pre = [] := by rw [hsrc] at hs; simp at hs; exact hs.1
    simp [h3, h2, this]
  · simp only [hsrc, if_false] at h3
    simp [h3, h1]

/-- the state right after `Init` + loading the first look-ahead character -/
theorem SInv.first (src : List Sym) : SInv src (({ rest := src } : Scanner).read).1 [] := by
  cases src with
  | nil => exact ⟨by simp [Scanner.read, Scanner.unread], by simp [Scanner.read], by simp [Scanner.read], by simp [Scanner.read]⟩
  | cons c rest =>
    refine ⟨by rw [read_unread]; rfl, ?_, ?_, ?_⟩
    · simp only [Scanner.read, Scanner.advance]; (repeat' split) <;> simp
    · simp only [Scanner.read, Scanner.advance]; (repeat' split) <;> simp
    · intro hf
      have hc := hf c (by simp)
      simp only [Scanner.read, Scanner.advance]
      simp [hc.2.2, hc.2.1]
      split <;> simp

/-! ### the lexer-state invariant -/

structure LInv (src done : List Sym) (st : LexState) : Prop where
  scan      : SInv src st.scan (done ++ st.buf)
  startOff  : st.start.off = bytes done
  startFlat : Flat src → st.start.line = 1 ∧ st.start.col = done.length + 1

theorem LInv.split {src done : List Sym} {st : LexState} (h : LInv src done st) :
    src = done ++ st.buf ++ st.scan.unread := h.scan.split

theorem LInv.scanErrs {src done : List Sym} {st : LexState} (h : LInv src done st) (es : List ScanErr) :
    LInv src done (st.scanErrs es) :=
  ⟨by simpa using h.scan, by simpa using h.startOff, by simpa using h.startFlat⟩

theorem LInv.error {src done : List Sym} {st : LexState} (h : LInv src done st) (m : LexMsg) :
    LInv src done (st.error m) :=
  ⟨by simpa using h.scan, by simpa using h.startOff, by simpa using h.startFlat⟩

theorem LInv.next {src done : List Sym} {st : LexState} (h : LInv src done st) : LInv src done st.next := by
  cases hc : st.scan.ch with
  | none => rw [next_none hc]; exact h
  | some c =>
    rw [next_some hc]
    apply LInv.scanErrs
    refine ⟨?_, h.startOff, h.startFlat⟩
    have := h.scan.read hc
    simpa [List.append_assoc] using this

theorem LInv.token {src done : List Sym} {st : LexState} (h : LInv src done st) (k : TokKind) :
    LInv src (done ++ st.buf) (st.token k).2 := by
  refine ⟨by simpa [LexState.token] using h.scan, ?_, ?_⟩
  · simpa [LexState.token] using h.scan.pos_off
  · intro hf; simpa [LexState.token] using h.scan.pos_flat hf

theorem LInv.init (src : List Sym) : LInv src [] (lexInit src) := by
  have h0 := SInv.first src
  cases src with
  | nil =>
    apply LInv.scanErrs
    exact ⟨h0, rfl, fun _ => ⟨rfl, rfl⟩⟩
  | cons c r =>
    have hch : (({ rest := c :: r } : Scanner).read).1.ch = some c := by simp [Scanner.read]
    unfold lexInit Scanner.init
    simp only [hch]
    by_cases hb : (c.r = 0xFEFF && !c.bad) = true
    · simp only [hb, if_true]
      apply LInv.scanErrs
      refine ⟨?_, rfl, fun _ => ⟨rfl, rfl⟩⟩
      simpa using h0.read hch
    · simp only [hb]
      apply LInv.scanErrs
      refine ⟨?_, rfl, fun _ => ⟨rfl, rfl⟩⟩
      simpa using h0

/-! ### consuming characters -/

inductive Steps : LexState → List Sym → LexState → Prop
  | refl (st : LexState) : Steps st [] st
  | next {st : LexState} {c : Sym} {x : List Sym} {st' : LexState} :
      st.scan.ch = some c → Steps st.next x st' → Steps st (c :: x) st'

theorem Steps.one {st : LexState} {c : Sym} (h : st.scan.ch = some c) : Steps st [c] st.next :=
  .next h (.refl _)

theorem Steps.trans {a b c : LexState} {x y : List Sym} (h1 : Steps a x b) (h2 : Steps b y c) :
    Steps a (x ++ y) c := by
  induction h1 with
  | refl => exact h2
  | next hc _ ih => exact .next hc (ih h2)

theorem Steps.snoc {a b : LexState} {x : List Sym} {c : Sym} (h1 : Steps a x b) (hc : b.scan.ch = some c) :
    Steps a (x ++ [c]) b.next := h1.trans (.one hc)

theorem Steps.buf {a b : LexState} {x : List Sym} (h : Steps a x b) : b.buf = a.buf ++ x := by
  induction h with
  | refl => simp
  | next hc _ ih => rw [ih, next_buf_some hc]; simp

theorem Steps.start {a b : LexState} {x : List Sym} (h : Steps a x b) : b.start = a.start := by
  induction h with
  | refl => rfl
  | next hc _ ih => rw [ih, next_start]

theorem Steps.unread {a b : LexState} {x : List Sym} (h : Steps a x b) : a.scan.unread = x ++ b.scan.unread := by
  induction h with
  | refl => simp
  | @next st c x st' hc _ ih =>
    rw [unread_of_some hc, ← next_unread_some hc, ih]; rfl

theorem Steps.err_none {a b : LexState} {x : List Sym} (h : Steps a x b) (hb : b.err = none) : a.err = none := by
  induction h with
  | refl => exact hb
  | next hc _ ih => exact next_err_none (ih hb)

theorem Steps.linv {a b : LexState} {x : List Sym} (h : Steps a x b) {src done : List Sym}
    (hi : LInv src done a) : LInv src done b := by
  induction h with
  | refl => exact hi
  | next hc _ ih => exact ih hi.next

theorem Steps.remaining {a b : LexState} {x : List Sym} (h : Steps a x b) :
    b.scan.remaining + x.length = a.scan.remaining := by
  rw [remaining_eq_unread, remaining_eq_unread, h.unread]; simp; omega

/-! ### `eatWhile`, `skipWhite` -/

theorem eatWhile_steps (p : Nat → Bool) (st : LexState) :
    Steps st (st.scan.unread.takeWhile (fun c => p c.r)) (eatWhile p st) ∧
    (eatWhile p st).scan.unread = st.scan.unread.dropWhile (fun c => p c.r) := by
  fun_induction eatWhile p st with
  | case1 st h => simp [unread_of_none h]; exact .refl _
  | case2 st c h hp ih =>
    have hu := next_unread_some h
    rw [unread_of_some h]
    rw [hu] at ih
    simp only [List.takeWhile_cons, List.dropWhile_cons, hp, if_true]
    exact ⟨.next h ih.1, ih.2⟩
  | case3 st c h hp =>
    rw [unread_of_some h]
    simp only [List.takeWhile_cons, List.dropWhile_cons, hp]
    simp; exact .refl _

theorem eatWhile_spec (p : Nat → Bool) (st : LexState) :
    ∃ x, Steps st x (eatWhile p st) ∧ (∀ c ∈ x, p c.r = true) ∧
      (∀ r, (eatWhile p st).peek = some r → p r = false) := by
  refine ⟨_, (eatWhile_steps p st).1, ?_, ?_⟩
  · intro c hc; exact takeWhile_all (fun c : Sym => p c.r) _ c hc
  · intro r hr
    unfold LexState.peek at hr
    rw [peek_eq_unread, (eatWhile_steps p st).2] at hr
    cases hd : List.dropWhile (fun c => p c.r) st.scan.unread with
    | nil => simp [hd] at hr
    | cons d l =>
      have := dropWhile_head (fun c : Sym => p c.r) st.scan.unread hd
      simp [hd] at hr
      rw [← hr]; exact this

/-- `skipWhite`: the skipped characters are whitespace; if something was skipped the token buffer is reset. -/
theorem skipWhite_spec (st : LexState) :
    ∃ gap, (∀ s ∈ gap, isWhitespace s.r = true) ∧
      st.scan.unread = gap ++ (skipWhite st).scan.unread ∧
      (∀ r, (skipWhite st).peek = some r → isWhitespace r = false) ∧
      ((skipWhite st).err = none → st.err = none) ∧
      (gap = [] → skipWhite st = st) ∧ (gap ≠ [] → (skipWhite st).buf = []) ∧
      (∀ src done, LInv src done st →
        LInv src (if gap = [] then done else done ++ st.buf ++ gap) (skipWhite st)) := by
  fun_induction skipWhite st with
  | case1 st h =>
    refine ⟨[], by simp, by simp, ?_, id, fun _ => rfl, by simp, by simp⟩
    intro r hr; rw [peek_eq, h] at hr; simp at hr
  | case2 st c h hw st1 ih =>
    obtain ⟨gap, g1, g2, g3, g4, g5, g6, g7⟩ := ih
    refine ⟨c :: gap, ?_, ?_, g3, ?_, by simp, ?_, ?_⟩
    · intro s hs; simp at hs; rcases hs with rfl | hs
      · exact hw
      · exact g1 s hs
    · have := next_unread_some h
      rw [unread_of_some h, List.cons_append, ← g2, this]
    · intro he; have := g4 he; simp at this; exact next_err_none this
    · intro _
      by_cases hg : gap = []
      · rw [g5 hg]
      · exact g6 hg
    · intro src done hi
      simp only [reduceCtorEq, if_false]
      have h1 : LInv src done st1 := hi.next
      have hb : st1.buf = st.buf ++ [c] := next_buf_some h
      have h2 : LInv src (done ++ st.buf ++ [c]) { st1 with start := st1.scan.pos, buf := [] } := by
        refine ⟨?_, ?_, ?_⟩
        · have := h1.scan; rw [hb] at this; simpa [List.append_assoc] using this
        · have := h1.scan.pos_off; rw [hb] at this; simpa [List.append_assoc] using this
        · intro hf; have := h1.scan.pos_flat hf; rw [hb] at this; simpa [List.append_assoc] using this
      have := g7 src _ h2
      by_cases hg : gap = []
      · simpa [hg] using this
      · simpa [hg, List.append_assoc] using this
  | case3 st c h hw =>
    refine ⟨[], by simp, by simp, ?_, id, fun _ => rfl, by simp, by simp⟩
    intro r hr; rw [peek_eq, h] at hr; simp at hr; rw [← hr]; simpa using hw

end AL.Lex
