import AL.Lemmas.NeedsCollect
/-
  `pickStart`, `printLoop`, and the specification of `cycleDiag`.
-/
namespace AL.Needs
open AL.Spec

/-! ### `pickStart` -/

theorem P.isBefore_irrefl (a : P) : a.isBefore a = false := by
  simp [P.isBefore]

theorem P.isBefore_trans {a b c : P} (h1 : a.isBefore b = true) (h2 : b.isBefore c = true) :
    a.isBefore c = true := by
  simp only [P.isBefore, Bool.or_eq_true, decide_eq_true_eq, Bool.and_eq_true] at *
  omega

theorem pickStart_spec (g : Graph) (keys : List Nat) (s : Nat) :
    pickStart g s keys ∈ s :: keys ∧
      (pickStart g s keys = s ∨ (posOf g (pickStart g s keys)).isBefore (posOf g s) = true) ∧
      ∀ n ∈ s :: keys, (posOf g n).isBefore (posOf g (pickStart g s keys)) = false := by
  unfold pickStart
  induction keys generalizing s with
  | nil => simp [P.isBefore_irrefl]
  | cons k keys ih =>
    simp only [List.foldl_cons]
    split
    next hlt =>
      obtain ⟨hm, hle, hmin⟩ := ih k
      refine ⟨by simp only [List.mem_cons] at hm ⊢; rcases hm with h | h <;> simp [h], ?_, ?_⟩
      · rcases hle with h | h
        · rw [h]; exact Or.inr hlt
        · exact Or.inr (P.isBefore_trans h hlt)
      · intro n hn
        simp only [List.mem_cons] at hn
        rcases hn with rfl | rfl | hn
        · cases hb : (posOf g n).isBefore (posOf g (List.foldl _ k keys)) with
          | false => rfl
          | true =>
            have := P.isBefore_trans hlt hb
            rw [hmin k (by simp)] at this
            cases this
        · exact hmin n (by simp)
        · exact hmin n (by simp [hn])
    next hge =>
      obtain ⟨hm, hle, hmin⟩ := ih s
      refine ⟨by simp only [List.mem_cons] at hm ⊢; rcases hm with h | h <;> simp [h], hle, ?_⟩
      intro n hn
      simp only [List.mem_cons] at hn
      rcases hn with rfl | rfl | hn
      · exact hmin n (by simp)
      · cases hb : (posOf g n).isBefore (posOf g (List.foldl _ s keys)) with
        | false => rfl
        | true =>
          exfalso
          rcases hle with h | h
          · rw [h] at hb; exact hge hb
          · exact hge (P.isBefore_trans hb h)
      · exact hmin n (by simp [hn])

/-! ### The collected edge map -/

theorem keys_pairsRev (l : List Nat) : (pairsRev l).keys = l.dropLast.reverse := by
  fun_induction pairsRev l with
  | case1 x y r ih =>
    simp only [Edges.keys, List.map_append, List.map_cons, List.map_nil] at ih ⊢
    rw [ih]
    simp
  | case2 l h =>
    match l, h with
    | [], _ => simp [Edges.keys]
    | [x], _ => simp [Edges.keys]
    | x :: y :: r, h => exact absurd rfl (h x y r)

theorem chain_pairsRev (l : List Nat) : List.IsChain (fun x y => (x, y) ∈ pairsRev l) l := by
  fun_induction pairsRev l with
  | case1 x y r ih =>
    rw [List.isChain_cons_cons]
    exact ⟨by simp, ih.imp fun a b h => by simp [h]⟩
  | case2 l h =>
    match l, h with
    | [], _ => exact .nil
    | [x], _ => exact .singleton x
    | x :: y :: r, h => exact absurd rfl (h x y r)

theorem rel_of_mem_pairsRev {R : Nat → Nat → Prop} (l : List Nat) (h : List.IsChain R l) :
    ∀ x y, (x, y) ∈ pairsRev l → R x y := by
  fun_induction pairsRev l with
  | case1 a b r ih =>
    rw [List.isChain_cons_cons] at h
    intro x y hxy
    simp only [List.mem_append, List.mem_singleton, Prod.mk.injEq] at hxy
    rcases hxy with hxy | ⟨rfl, rfl⟩
    · exact ih h.2 x y hxy
    · exact h.1
  | case2 l hl => intro x y hxy; simp at hxy

theorem length_pairsRev (l : List Nat) : (pairsRev l).length = l.dropLast.length := by
  have := congrArg List.length (keys_pairsRev l)
  simpa [Edges.keys] using this

/-- Facts about the final edge map `pairsRev cs ++ [(a, b)]` of a cycle segment. -/
theorem CycleSeg.edges_facts {g : Graph} {st : List Status} {a b : Nat} {cs : List Nat}
    (h : CycleSeg g st a b cs) :
    let edges : Edges := pairsRev cs ++ [(a, b)]
    edges.keys.Perm cs ∧ List.IsChain (fun x y => edges.get? x = some y) (cs ++ [b]) := by
  intro edges
  have hd := List.dropLast_append_getLast? a h.last
  have hperm : edges.keys.Perm cs := by
    have : edges.keys = cs.dropLast.reverse ++ [a] := by
      simp only [edges, Edges.keys, List.map_append, List.map_cons, List.map_nil]
      have := keys_pairsRev cs
      simp only [Edges.keys] at this
      rw [this]
    rw [this]
    conv => rhs; rw [← hd]
    exact List.Perm.append_right _ (List.reverse_perm _)
  refine ⟨hperm, ?_⟩
  have hnd : edges.keys.Nodup := hperm.nodup_iff.2 h.nodup
  have hmem : List.IsChain (fun x y => (x, y) ∈ edges) (cs ++ [b]) := by
    rw [List.isChain_append]
    refine ⟨(chain_pairsRev cs).imp fun x y hxy => by simp [edges, hxy], .singleton b, ?_⟩
    intro x hx y hy
    rw [h.last] at hx
    simp at hx hy
    subst hx hy
    simp [edges]
  exact hmem.imp fun x y hxy => Edges.get?_of_mem hnd hxy

/-! ### `printLoop` -/

theorem printLoop_follow (edges : Edges) (start : Nat) :
    ∀ (q : List Nat) (x fuel : Nat), q ≠ [] →
      List.IsChain (fun x y => edges.get? x = some y) (x :: q) →
      (∀ y ∈ q.dropLast, y ≠ start) → q.getLast? = some start → q.length ≤ fuel →
      ∃ first, edges.get? x = some first ∧ printLoop edges start fuel first = q := by
  intro q
  induction q with
  | nil => intro _ _ h; exact absurd rfl h
  | cons y r ih =>
    intro x fuel _ hch hne hlast hfuel
    rw [List.isChain_cons_cons] at hch
    refine ⟨y, hch.1, ?_⟩
    cases fuel with
    | zero => simp at hfuel
    | succ f =>
      cases r with
      | nil =>
        simp at hlast
        subst hlast
        simp [printLoop]
      | cons z r =>
        have hy : y ≠ start := hne y (by simp)
        obtain ⟨first, hf, hp⟩ := ih y f (by simp) hch.2
          (fun w hw => hne w (by simp only [List.dropLast_cons_cons, List.mem_cons]; exact Or.inr hw))
          (by simpa [List.getLast?_cons_cons] using hlast) (by simpa using hfuel)
        simp only [printLoop, hy, if_false, hf, hp]

/-- Rotating a closed chain. -/
theorem isChain_rotate {R : Nat → Nat → Prop} {l1 l2 : List Nat} {s c : Nat}
    (hhead : (l1 ++ s :: l2).head? = some c) (h : List.IsChain R ((l1 ++ s :: l2) ++ [c])) :
    List.IsChain R (s :: (l2 ++ l1 ++ [s])) := by
  cases l1 with
  | nil =>
    simp at hhead
    subst hhead
    simpa using h
  | cons d l1 =>
    simp at hhead
    subst hhead
    have h' : List.IsChain R ((d :: l1) ++ s :: (l2 ++ [d])) := by simpa using h
    rw [List.isChain_split] at h'
    have : s :: (l2 ++ (d :: l1) ++ [s]) = (s :: l2) ++ d :: (l1 ++ [s]) := by simp
    rw [this, List.isChain_split]
    exact ⟨by simpa using h'.2, by simpa using h'.1⟩

theorem walk_of_chain {g : Graph} : ∀ (l : List Nat), l ≠ [] → List.IsChain (fun x y => y ∈ g.succ x) l →
    (∀ x ∈ l, x < g.length) → Walk g l := by
  intro l
  induction l with
  | nil => intro h; exact absurd rfl h
  | cons x r ih =>
    intro _ hch hlt
    cases r with
    | nil => exact .single x (hlt x (by simp))
    | cons y r =>
      rw [List.isChain_cons_cons] at hch
      exact .cons x y r (hlt x (by simp)) hch.1 (ih (by simp) hch.2 fun z hz => hlt z (by simp [hz]))

/-! ### Specification of `cycleDiag` -/

theorem cycleDiag_of_none {g : Graph} {order : List Nat} {st : List Status}
    (h : detectFirstCycle g order (g.map fun _ => Status.new) = (none, st)) : cycleDiag g order = none := by
  simp only [cycleDiag, h]

theorem cycleDiag_of_found {g : Graph} {order : List Nat} {st : List Status} {a b : Nat}
    (h : detectFirstCycle g order (g.map fun _ => Status.new) = (some (a, b), st)) (hf : Found g st a b) :
    ∃ vs, IsCycle g vs ∧
      cycleDiag g order = some { pos := posOf g (vs.headD 0), path := vs.map (idOf g) } ∧
      ∀ v ∈ vs, (posOf g v).isBefore (posOf g (vs.headD 0)) = false := by
  obtain ⟨cs, hseg⟩ := hf.seg
  have hcoll := collectCycle_seg hf.len hseg
  obtain ⟨hperm, hchain⟩ := hseg.edges_facts
  generalize hedges : (pairsRev cs ++ [(a, b)] : Edges) = edges at hcoll hperm hchain
  have hacs : a ∈ cs := List.mem_of_getLast? hseg.last
  obtain ⟨hsm, -, hsmin⟩ := pickStart_spec g edges.keys a
  generalize hstart : pickStart g a edges.keys = start at hsm hsmin
  have hscs : start ∈ cs := by
    simp only [List.mem_cons] at hsm
    rcases hsm with rfl | h
    · exact hacs
    · exact hperm.mem_iff.1 h
  obtain ⟨l1, l2, hsplit⟩ := List.append_of_mem hscs
  -- the rotated closed walk
  have hrot : List.IsChain (fun x y => edges.get? x = some y) (start :: (l2 ++ l1 ++ [start])) := by
    refine isChain_rotate (c := b) ?_ ?_
    · rw [← hsplit]; exact hseg.head
    · rw [← hsplit]; exact hchain
  have hnd := hseg.nodup
  rw [hsplit] at hnd
  have hlenE : edges.length = cs.length := by
    have := hperm.length_eq
    simpa [Edges.keys] using this
  obtain ⟨first, hfirst, hprint⟩ := printLoop_follow edges start (l2 ++ l1 ++ [start]) start (edges.length + 1)
    (by simp) hrot
    (by
      intro y hy
      rw [List.dropLast_concat] at hy
      rintro rfl
      rw [List.nodup_append] at hnd
      simp only [List.mem_append] at hy
      rcases hy with hy | hy
      · exact (List.nodup_cons.1 hnd.2.1).1 hy
      · exact hnd.2.2 y hy y (by simp) rfl)
    (by simp)
    (by rw [hlenE, hsplit]; simp; omega)
  have hstart' : pickStart g a (edges.map (·.1)) = start := hstart
  have hwalk : Walk g (start :: (l2 ++ l1 ++ [start])) := by
    refine walk_of_chain _ (by simp) (hrot.imp fun x y hxy => ?_) ?_
    · -- every binding of `edges` is an edge of `g`
      have hmem := Edges.mem_of_get? hxy
      rw [← hedges] at hmem
      simp only [List.mem_append, List.mem_singleton, Prod.mk.injEq] at hmem
      rcases hmem with hmem | ⟨rfl, rfl⟩
      · exact (rel_of_mem_pairsRev cs hseg.chain x y hmem).mem
      · exact hseg.close.mem
    · intro x hx
      apply hseg.lt hf.len
      rw [hsplit]
      simp only [List.mem_cons, List.mem_append, List.not_mem_nil, or_false] at hx ⊢
      tauto
  have hlast : (start :: (l2 ++ l1 ++ [start])).head? = (start :: (l2 ++ l1 ++ [start])).getLast? := by
    show _ = ((start :: (l2 ++ l1)) ++ [start]).getLast?
    rw [List.getLast?_concat]; rfl
  refine ⟨start :: (l2 ++ l1 ++ [start]), ⟨hwalk, by simp; omega, hlast⟩, ?_, ?_⟩
  · simp only [cycleDiag, h, hcoll, hstart', hfirst, hprint]
    simp
  · intro v hv
    simp only [List.headD_cons]
    apply hsmin
    have : v ∈ cs := by
      rw [hsplit]
      simp only [List.mem_cons, List.mem_append, List.not_mem_nil, or_false] at hv ⊢
      tauto
    exact List.mem_cons_of_mem _ (hperm.mem_iff.2 this)

end AL.Needs
