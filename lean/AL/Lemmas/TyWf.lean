import AL.Model.Ty
/-
  Well-formed types: every `obj` property list is strictly sorted by key (hence keys are pairwise
  distinct), hereditarily. This is the representation invariant of the model (`ObjectType.Props` is a
  Go map; the driver sorts its inputs; `setProp` keeps lists sorted). `merge` preserves it.
-/
namespace AL.Ty
open AL

/-- every key of the list is greater than `k` -/
def keysGt (k : String) : List (String × Ty) → Bool
  | [] => true
  | (k', _) :: rest => decide (k < k') && keysGt k rest

def sortedKeys : List (String × Ty) → Bool
  | [] => true
  | (k, _) :: rest => keysGt k rest && sortedKeys rest

mutual
def wf : Ty → Bool
  | .obj ps none => sortedKeys ps && wfProps ps
  | .obj ps (some t) => sortedKeys ps && wfProps ps && wf t
  | .arr e _ => wf e
  | _ => true
def wfProps : List (String × Ty) → Bool
  | [] => true
  | (_, t) :: rest => wf t && wfProps rest
end

def wfOpt : Option Ty → Bool
  | none => true
  | some t => wf t

theorem wf_obj (ps : List (String × Ty)) (m : Option Ty) :
    wf (.obj ps m) = (sortedKeys ps && wfProps ps && wfOpt m) := by
  cases m <;> simp [wf, wfOpt]

theorem str_lt_of_ne_of_not_lt {a b : String} (h1 : ¬ a = b) (h2 : ¬ b < a) : a < b := by
  apply Decidable.byContradiction
  intro h3
  exact h1 (String.le_antisymm (String.not_lt.mp h2) (String.not_lt.mp h3))

theorem keysGt_trans {k k' : String} (h : k < k') : (ps : List (String × Ty)) → keysGt k' ps = true → keysGt k ps = true
  | [], _ => rfl
  | (k2, _) :: rest, hp => by
    simp only [keysGt, Bool.and_eq_true, decide_eq_true_eq] at hp ⊢
    exact ⟨String.lt_trans h hp.1, keysGt_trans h rest hp.2⟩

theorem lookup_none_of_keysGt {k : String} : (ps : List (String × Ty)) → keysGt k ps = true → lookup k ps = none
  | [], _ => rfl
  | (k2, _) :: rest, hp => by
    simp only [keysGt, Bool.and_eq_true, decide_eq_true_eq] at hp
    have hne : ¬ k2 = k := fun h => String.lt_irrefl k (h ▸ hp.1)
    simp [lookup, hne, lookup_none_of_keysGt rest hp.2]

theorem lookup_wf {k : String} {t : Ty} : (ps : List (String × Ty)) → wfProps ps = true → lookup k ps = some t → wf t = true
  | [], _, h => by simp [lookup] at h
  | (k2, v) :: rest, hp, h => by
    simp only [wfProps, Bool.and_eq_true] at hp
    simp only [lookup] at h
    split at h
    · cases h; exact hp.1
    · exact lookup_wf rest hp.2 h

theorem setProp_keysGt {k0 k : String} {v : Ty} (h : k0 < k) :
    (ps : List (String × Ty)) → keysGt k0 ps = true → keysGt k0 (setProp k v ps) = true
  | [], _ => by simp [setProp, keysGt, h]
  | (k2, v2) :: rest, hp => by
    simp only [keysGt, Bool.and_eq_true, decide_eq_true_eq] at hp
    simp only [setProp]
    split
    · simp [keysGt, h, hp.2]
    · split
      · simp [keysGt, h, hp.1, hp.2]
      · simp [keysGt, hp.1, setProp_keysGt h rest hp.2]

theorem setProp_sorted {k : String} {v : Ty} :
    (ps : List (String × Ty)) → sortedKeys ps = true → sortedKeys (setProp k v ps) = true
  | [], _ => by simp [setProp, sortedKeys, keysGt]
  | (k2, v2) :: rest, hp => by
    simp only [sortedKeys, Bool.and_eq_true] at hp
    simp only [setProp]
    split
    · next heq => subst heq; simp [sortedKeys, hp.1, hp.2]
    · next hne =>
      split
      · next hlt => simp [sortedKeys, keysGt, hlt, keysGt_trans hlt rest hp.1, hp.1, hp.2]
      · next hnlt =>
        have hlt : k2 < k := str_lt_of_ne_of_not_lt hne hnlt
        simp [sortedKeys, setProp_keysGt hlt rest hp.1, setProp_sorted rest hp.2]

theorem setProp_wfProps {k : String} {v : Ty} (hv : wf v = true) :
    (ps : List (String × Ty)) → wfProps ps = true → wfProps (setProp k v ps) = true
  | [], _ => by simp [setProp, wfProps, hv]
  | (k2, v2) :: rest, hp => by
    simp only [wfProps, Bool.and_eq_true] at hp
    simp only [setProp]
    split
    · simp [wfProps, hv, hp.2]
    · split
      · simp [wfProps, hv, hp.1, hp.2]
      · simp [wfProps, hp.1, setProp_wfProps hv rest hp.2]

theorem mergeScalar_wf (l r : Ty) : wf (mergeScalar l r) = true := by
  cases l <;> cases r <;> simp [mergeScalar, wf]

/-! ### unfolding lemmas for `merge`
Lean cannot generate the equational theorems of `merge` (nested `match` inside the mutual structural
recursion), so `simp [merge]`/`unfold merge` are unusable; the lemmas below are all proved by `rfl`. -/

/-- the `match` that computes the initial mapped type in `merge` on two objects -/
def mapped0 (m m' : Option Ty) : Option Ty :=
  match m, m' with
  | none, _ => m'
  | some a, none => some a
  | some a, some b => some (merge a b)

def isSomeAny : Option Ty → Bool
  | some .any => true
  | _ => false

/-- the update of the accumulated mapped type in `mergeProps` for a new key -/
def mergeMapped (mapped : Option Ty) (r : Ty) : Option Ty :=
  match mapped with
  | some mt => some (merge mt r)
  | none => none

def isObj : Ty → Bool
  | .obj _ _ => true
  | _ => false

def isArr : Ty → Bool
  | .arr _ _ => true
  | _ => false

theorem isSomeAny_iff {m : Option Ty} : isSomeAny m = true ↔ m = some .any := by
  cases m with
  | none => simp [isSomeAny]
  | some t => cases t <;> simp [isSomeAny]

theorem merge_obj_obj (ps qs : List (String × Ty)) (m m' : Option Ty) :
    merge (.obj ps m) (.obj qs m') =
      if ps.isEmpty && isSomeAny m' then .obj qs m'
      else if qs.isEmpty && isSomeAny m then .obj ps m
      else mergeProps ps (mapped0 m m') qs := by
  rcases m with _ | a <;> rcases m' with _ | b
  · rfl
  · cases b <;> rfl
  · cases a <;> rfl
  · cases a <;> cases b <;> rfl

theorem merge_arr_arr (e e' : Ty) (d d' : Bool) :
    merge (.arr e d) (.arr e' d') =
      if e.isAny then .arr e (d || d') else if e'.isAny then .arr e' (d || d') else .arr (merge e e') false := rfl

theorem mergeProps_nil (props : List (String × Ty)) (mapped : Option Ty) :
    mergeProps props mapped [] = .obj props mapped := rfl

theorem mergeProps_cons (props : List (String × Ty)) (mapped : Option Ty) (n : String) (r : Ty)
    (rest : List (String × Ty)) :
    mergeProps props mapped ((n, r) :: rest) =
      match lookup n props with
      | some l => mergeProps (setProp n (merge l r) props) mapped rest
      | none => mergeProps (setProp n r props) (mergeMapped mapped r) rest := rfl

theorem merge_any_left (r : Ty) : merge .any r = .any := by
  cases r <;> rfl

theorem merge_any_right (l : Ty) : merge l .any = .any := by
  cases l <;> rfl

theorem merge_scalar_left {l : Ty} (h1 : l.isObj = false) (h2 : l.isArr = false) (r : Ty) :
    merge l r = mergeScalar l r := by
  cases l <;> cases r <;> first | rfl | (simp [isObj, isArr] at h1 h2; done)

theorem merge_null_left (r : Ty) : merge .null r = mergeScalar .null r := merge_scalar_left rfl rfl r
theorem merge_number_left (r : Ty) : merge .number r = mergeScalar .number r := merge_scalar_left rfl rfl r
theorem merge_bool_left (r : Ty) : merge .bool r = mergeScalar .bool r := merge_scalar_left rfl rfl r
theorem merge_string_left (r : Ty) : merge .string r = mergeScalar .string r := merge_scalar_left rfl rfl r

theorem merge_obj_left (ps : List (String × Ty)) (m : Option Ty) {r : Ty} (h : r.isObj = false) :
    merge (.obj ps m) r = .any := by
  cases r <;> first | rfl | (simp [isObj] at h; done)

theorem merge_arr_left (e : Ty) (d : Bool) {r : Ty} (h : r.isArr = false) :
    merge (.arr e d) r = .any := by
  cases r <;> first | rfl | (simp [isArr] at h; done)

/-- evaluate `merge` on concrete types (its equational theorems cannot be generated, and `Ty` has no
`DecidableEq`) -/
macro "ty_eval" : tactic =>
  `(tactic| simp [merge_arr_arr, merge_obj_obj, mergeProps_nil, mergeProps_cons, merge_any_left, merge_any_right,
      merge_null_left, merge_number_left, merge_bool_left, merge_string_left, merge_obj_left, merge_arr_left,
      mergeScalar, mapped0, mergeMapped, isSomeAny, Ty.lookup, Ty.setProp, Ty.isAny, Ty.isObj, Ty.isArr])

mutual
theorem merge_wf : (r : Ty) → ∀ l, wf l = true → wf r = true → wf (merge l r) = true
  | .any, l, _, _ => by simp [merge_any_right, wf]
  | .null, l, _, _ => by cases l <;> rfl
  | .number, l, _, _ => by cases l <;> rfl
  | .bool, l, _, _ => by cases l <;> rfl
  | .string, l, _, _ => by cases l <;> rfl
  | .arr e' d', l, hl, hr => by
    cases l with
    | arr e d =>
      rw [merge_arr_arr]
      split
      · simpa [wf] using hl
      · split
        · simpa [wf] using hr
        · simp only [wf] at hl hr ⊢
          exact merge_wf e' e hl hr
    | _ => rfl
  | .obj qs none, l, hl, hr => by
    cases l with
    | obj ps m =>
      rw [merge_obj_obj]
      split
      · exact hr
      · split
        · exact hl
        · rw [wf_obj] at hl hr
          simp only [Bool.and_eq_true] at hl hr
          apply mergeProps_wf qs hr.1.2 ps _ hl.1.1 hl.1.2
          cases m <;> simp_all [mapped0, wfOpt]
    | _ => rfl
  | .obj qs (some b), l, hl, hr => by
    cases l with
    | obj ps m =>
      rw [merge_obj_obj]
      split
      · exact hr
      · split
        · exact hl
        · rw [wf_obj] at hl hr
          simp only [Bool.and_eq_true] at hl hr
          apply mergeProps_wf qs hr.1.2 ps _ hl.1.1 hl.1.2
          cases m with
          | none => simpa [mapped0] using hr.2
          | some a =>
            simp only [mapped0, wfOpt] at hl hr ⊢
            exact merge_wf b a hl.2 hr.2
    | _ => rfl
theorem mergeProps_wf : (qs : List (String × Ty)) → wfProps qs = true →
    ∀ props mapped, sortedKeys props = true → wfProps props = true → wfOpt mapped = true →
      wf (mergeProps props mapped qs) = true
  | [], _, props, mapped, hs, hp, hm => by
    rw [mergeProps_nil, wf_obj]; simp [hs, hp, hm]
  | (n, r) :: rest, hq, props, mapped, hs, hp, hm => by
    simp only [wfProps, Bool.and_eq_true] at hq
    rw [mergeProps_cons]
    split
    · next l hl =>
      have hwl := lookup_wf props hp hl
      exact mergeProps_wf rest hq.2 _ _ (setProp_sorted props hs)
        (setProp_wfProps (merge_wf r l hwl hq.1) props hp) hm
    · next hl =>
      refine mergeProps_wf rest hq.2 _ _ (setProp_sorted props hs) (setProp_wfProps hq.1 props hp) ?_
      cases mapped with
      | none => rfl
      | some mt => simp only [mergeMapped, wfOpt] at hm ⊢; exact merge_wf r mt hm hq.1
end

end AL.Ty
