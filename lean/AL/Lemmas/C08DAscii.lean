import AL.Lemmas.C08DRules
/-
  The ASCII folding (`A`–`Z` ↦ `a`–`z`) keeps everything the rules read of an id as written: emptiness, whether it holds a
  placeholder, whether it matches the naming convention. So re-casing an id in the ASCII sense is an `IdFold` as soon as
  `lower` does not tell the two spellings apart.
-/
namespace AL.C08D
open AL AL.Ast AL.Rules AL.C08R

theorem fC_cases (P : Char → Prop) (hup : ∀ n : Fin 26, P (Char.ofNat (65 + n.val))) (hother : ∀ c, ¬('A' ≤ c ∧ c ≤ 'Z') → P c) :
    ∀ c, P c := by
  intro c
  by_cases h : 'A' ≤ c ∧ c ≤ 'Z'
  · have h1 : 65 ≤ c.toNat := by
      have := h.1
      rw [Char.le_def] at this
      exact this
    have h2 : c.toNat ≤ 90 := by
      have := h.2
      rw [Char.le_def] at this
      exact this
    have := hup ⟨c.toNat - 65, by omega⟩
    simp only at this
    have e : 65 + (c.toNat - 65) = c.toNat := by omega
    rw [e, Char.ofNat_toNat] at this
    exact this
  · exact hother c h

theorem asciiLower_toList (s : String) : (AL.PW.asciiLower s).toList = s.toList.map fC := by
  simp only [AL.PW.asciiLower, String.toList_ofList]
  rfl

theorem fC_other (c : Char) (h : ¬('A' ≤ c ∧ c ≤ 'Z')) : fC c = c := by simp [fC, h]

theorem fC_beq (p : Char) (hp : ∀ n : Fin 26, (p == fC (Char.ofNat (65 + n.val))) = (p == Char.ofNat (65 + n.val))) :
    ∀ c, (p == fC c) = (p == c) :=
  fC_cases _ hp (fun c h => by rw [fC_other c h])

theorem isPrefixOf_map (g : Char → Char) : ∀ (pat : List Char), (∀ p ∈ pat, ∀ c, (p == g c) = (p == c)) → ∀ l : List Char,
    pat.isPrefixOf (l.map g) = pat.isPrefixOf l
  | [], _, l => by simp
  | p :: ps, h, [] => by simp
  | p :: ps, h, c :: cs => by
    simp only [List.map_cons, List.isPrefixOf_cons_cons, h p (by simp) c,
      isPrefixOf_map g ps (fun q hq => h q (by simp [hq])) cs]

theorem indexOf_map (g : Char → Char) (pat : List Char) (hp : ∀ p ∈ pat, ∀ c, (p == g c) = (p == c)) : ∀ (l : List Char) (i : Nat),
    AL.Matrix.indexOf pat (l.map g) i = AL.Matrix.indexOf pat l i
  | [], i => rfl
  | c :: cs, i => by
    have := isPrefixOf_map g pat hp (c :: cs)
    simp only [List.map_cons] at this
    simp only [List.map_cons, AL.Matrix.indexOf, this, indexOf_map g pat hp cs (i + 1)]

theorem open_stable : ∀ p ∈ "${{".toList, ∀ c, (p == fC c) = (p == c) := by
  intro p hp
  have : p = '$' ∨ p = '{' := by
    have : "${{".toList = ['$', '{', '{'] := by decide
    rw [this] at hp
    simp only [List.mem_cons, List.not_mem_nil, or_false] at hp
    rcases hp with h | h | h <;> simp [h]
  rcases this with rfl | rfl
  · exact fC_beq _ (by decide)
  · exact fC_beq _ (by decide)

theorem close_stable : ∀ p ∈ "}}".toList, ∀ c, (p == fC c) = (p == c) := by
  intro p hp
  have : p = '}' := by
    have : "}}".toList = ['}', '}'] := by decide
    rw [this] at hp
    simp only [List.mem_cons, List.not_mem_nil, or_false] at hp
    rcases hp with h | h <;> simp [h]
  subst this
  exact fC_beq _ (by decide)

theorem containsExpr_asciiLower (s : String) : AL.Matrix.containsExpr (AL.PW.asciiLower s) = AL.Matrix.containsExpr s := by
  simp only [AL.Matrix.containsExpr, asciiLower_toList, indexOf_map fC _ open_stable]
  cases AL.Matrix.indexOf "${{".toList s.toList 0 with
  | none => rfl
  | some i =>
    simp only [← List.map_drop, indexOf_map fC _ close_stable]

theorem isIdStart_fC : ∀ c, isIdStart (fC c) = isIdStart c :=
  fC_cases _ (by decide) (fun c h => by rw [fC_other c h])

theorem isIdChar_fC : ∀ c, isIdChar (fC c) = isIdChar c :=
  fC_cases _ (by decide) (fun c h => by rw [fC_other c h])

theorem matchesIdPattern_asciiLower (s : String) : matchesIdPattern (AL.PW.asciiLower s) = matchesIdPattern s := by
  simp only [matchesIdPattern, asciiLower_toList]
  cases s.toList with
  | nil => rfl
  | cons c cs =>
    simp only [List.map_cons, isIdStart_fC, List.all_map]
    congr 2
    funext x
    exact isIdChar_fC x

theorem asciiLower_empty (s : String) : AL.PW.asciiLower s = "" ↔ s = "" := by
  constructor
  · intro h
    have := congrArg String.toList h
    rw [asciiLower_toList] at this
    have h0 : "".toList = [] := by decide
    rw [h0, List.map_eq_nil_iff] at this
    have e : s = String.ofList s.toList := (String.ofList_toList).symm
    rw [e, this]
  · rintro rfl
    decide

/-- **the ASCII folding is a fold of ids** for every `lower` that does not tell `X` from `x` -/
theorem IdFold.ascii {lower : String → String} (hl : ∀ a, lower (AL.PW.asciiLower a) = lower a) : IdFold lower AL.PW.asciiLower :=
  ⟨hl, asciiLower_empty, containsExpr_asciiLower, matchesIdPattern_asciiLower⟩

/-- the model's own `lower` (the ASCII one) qualifies -/
theorem asciiLower_idem (a : String) : AL.PW.asciiLower (AL.PW.asciiLower a) = AL.PW.asciiLower a := by
  have h : ∀ c, fC (fC c) = fC c := fC_cases _ (by decide) (fun c h => by rw [fC_other c h, fC_other c h])
  have e : (AL.PW.asciiLower (AL.PW.asciiLower a)).toList = (AL.PW.asciiLower a).toList := by
    rw [asciiLower_toList, asciiLower_toList, List.map_map]
    apply List.map_congr_left
    intro c _
    exact h c
  calc AL.PW.asciiLower (AL.PW.asciiLower a)
      = String.ofList (AL.PW.asciiLower (AL.PW.asciiLower a)).toList := (String.ofList_toList).symm
    _ = String.ofList (AL.PW.asciiLower a).toList := by rw [e]
    _ = AL.PW.asciiLower a := String.ofList_toList

end AL.C08D
