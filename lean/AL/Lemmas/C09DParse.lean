import AL.Props.C13Doc3
import AL.Lemmas.C03PBase
/-
  Helper lemmas for AL.Props.C09Doc: the key loop of `parseMapping` as a function of the list of pairs (`kept`,
  `seenAfter`), `mapKVs` as a map, and the lifting of a CHANGED sub-result through the enclosing parsers (`Split`):
  where `C13Doc3.Path` carries an unchanged result and extra diagnostics, `Split` says that the enclosing parser looks at
  the sub-node only through the sub-parser: its result is `put` of the sub-result, its diagnostics are the sub-parser's,
  between two fixed lists.
-/
namespace AL.C09D
open AL.PW AL.Yaml AL.Ast AL.C13P AL.C13D AL.C13D3

/-! ### `mappingLoop` as a function of the pairs -/

/-- the entry `parseMapping` makes of a key/value pair -/
def kvOf (cfg : Cfg) (cs : Bool) (p : Node × Node) : KV := ⟨keyId cfg cs p.1, (parseString p.1 false).1, p.2⟩

/-- the pairs `parseMapping` keeps: those whose (folded) id was not seen before — the real key handling -/
def kept (cfg : Cfg) (cs : Bool) : List (Node × Node) → List (String × Yaml.Pos) → List (Node × Node)
  | [], _ => []
  | p :: rest, seen =>
    match lookupSeen (keyId cfg cs p.1) seen with
    | some _ => kept cfg cs rest seen
    | none => p :: kept cfg cs rest (seen ++ [(keyId cfg cs p.1, (parseString p.1 false).1.pos)])

/-- the `seen` table of `parseMapping` after the pairs `ps` -/
def seenAfter (cfg : Cfg) (cs : Bool) : List (Node × Node) → List (String × Yaml.Pos) → List (String × Yaml.Pos)
  | [], seen => seen
  | p :: rest, seen =>
    match lookupSeen (keyId cfg cs p.1) seen with
    | some _ => seenAfter cfg cs rest seen
    | none => seenAfter cfg cs rest (seen ++ [(keyId cfg cs p.1, (parseString p.1 false).1.pos)])

theorem mappingLoop_kept (cfg : Cfg) (what : String) (cs : Bool) : ∀ (ps : List (Node × Node)) (seen : List (String × Yaml.Pos)),
    (mappingLoop cfg what cs ps seen).1 = (kept cfg cs ps seen).map (kvOf cfg cs)
  | [], _ => rfl
  | (kn, vn) :: rest, seen => by
    rw [mappingLoop_cons]
    simp only [kept]
    cases lookupSeen (keyId cfg cs kn) seen with
    | some pos => exact mappingLoop_kept cfg what cs rest seen
    | none => simp only [List.map_cons, kvOf]; rw [mappingLoop_kept cfg what cs rest]

theorem mappingLoop_append (cfg : Cfg) (what : String) (cs : Bool) (b : List (Node × Node)) :
    ∀ (a : List (Node × Node)) (seen : List (String × Yaml.Pos)),
    mappingLoop cfg what cs (a ++ b) seen =
      ((mappingLoop cfg what cs a seen).1 ++ (mappingLoop cfg what cs b (seenAfter cfg cs a seen)).1,
       (mappingLoop cfg what cs a seen).2 ++ (mappingLoop cfg what cs b (seenAfter cfg cs a seen)).2)
  | [], seen => by simp [mappingLoop, seenAfter]
  | (kn, vn) :: rest, seen => by
    simp only [List.cons_append, mappingLoop_cons, seenAfter]
    cases lookupSeen (keyId cfg cs kn) seen with
    | some pos => simp only [mappingLoop_append cfg what cs b rest seen, List.append_assoc]
    | none => simp only [mappingLoop_append cfg what cs b rest, List.cons_append, List.append_assoc]

theorem kept_append (cfg : Cfg) (cs : Bool) (b : List (Node × Node)) :
    ∀ (a : List (Node × Node)) (seen : List (String × Yaml.Pos)),
    kept cfg cs (a ++ b) seen = kept cfg cs a seen ++ kept cfg cs b (seenAfter cfg cs a seen)
  | [], seen => by simp [kept, seenAfter]
  | p :: rest, seen => by
    simp only [List.cons_append, kept, seenAfter]
    cases lookupSeen (keyId cfg cs p.1) seen with
    | some pos => exact kept_append cfg cs b rest seen
    | none => simp only [kept_append cfg cs b rest, List.cons_append]

/-- an id is in the table after `ps` iff it was there before or is the id of one of `ps` -/
theorem lookupSeen_seenAfter_none (cfg : Cfg) (cs : Bool) (id : String) :
    ∀ (ps : List (Node × Node)) (seen : List (String × Yaml.Pos)),
    lookupSeen id (seenAfter cfg cs ps seen) = none ↔ (lookupSeen id seen = none ∧ ∀ q ∈ ps, keyId cfg cs q.1 ≠ id)
  | [], seen => by simp [seenAfter]
  | p :: rest, seen => by
    simp only [seenAfter]
    cases hl : lookupSeen (keyId cfg cs p.1) seen with
    | some pos =>
      simp only
      rw [lookupSeen_seenAfter_none cfg cs id rest seen]
      constructor
      · rintro ⟨h1, h2⟩
        refine ⟨h1, ?_⟩
        intro q hq
        rcases List.mem_cons.1 hq with rfl | hq
        · intro e; rw [e, h1] at hl; cases hl
        · exact h2 q hq
      · rintro ⟨h1, h2⟩
        exact ⟨h1, fun q hq => h2 q (List.mem_cons_of_mem _ hq)⟩
    | none =>
      simp only
      rw [lookupSeen_seenAfter_none cfg cs id rest]
      constructor
      · rintro ⟨h1, h2⟩
        rw [lookupSeen_snoc] at h1
        cases hs : lookupSeen id seen with
        | some q => rw [hs] at h1; cases h1
        | none =>
          rw [hs] at h1
          refine ⟨rfl, ?_⟩
          intro q hq
          rcases List.mem_cons.1 hq with rfl | hq
          · intro e; simp [e] at h1
          · exact h2 q hq
      · rintro ⟨h1, h2⟩
        refine ⟨?_, fun q hq => h2 q (List.mem_cons_of_mem _ hq)⟩
        rw [lookupSeen_snoc_ne _ _ (h2 p (by simp))]
        exact h1

/-- a pair whose id is new (not in the table, not among the pairs around it): exactly one more entry, at its place; the
key's own diagnostics at their place; nothing else changes -/
theorem mappingLoop_insert (cfg : Cfg) (what : String) (cs : Bool) (pre post : List (Node × Node)) (kn vn : Node)
    (seen : List (String × Yaml.Pos)) (hs : lookupSeen (keyId cfg cs kn) seen = none)
    (hfresh : ∀ q ∈ pre ++ post, keyId cfg cs q.1 ≠ keyId cfg cs kn) :
    mappingLoop cfg what cs (pre ++ (kn, vn) :: post) seen =
      ((mappingLoop cfg what cs pre seen).1 ++ kvOf cfg cs (kn, vn) :: (mappingLoop cfg what cs post (seenAfter cfg cs pre seen)).1,
       (mappingLoop cfg what cs pre seen).2 ++ ((parseString kn false).2 ++ (mappingLoop cfg what cs post (seenAfter cfg cs pre seen)).2)) := by
  have hS : lookupSeen (keyId cfg cs kn) (seenAfter cfg cs pre seen) = none :=
    (lookupSeen_seenAfter_none cfg cs _ pre seen).2 ⟨hs, fun q hq => hfresh q (List.mem_append_left _ hq)⟩
  have hc : mappingLoop cfg what cs post (seenAfter cfg cs pre seen ++ [(keyId cfg cs kn, (parseString kn false).1.pos)]) =
      mappingLoop cfg what cs post (seenAfter cfg cs pre seen) := by
    apply mappingLoop_congr
    intro q hq
    exact lookupSeen_snoc_ne _ _ (Ne.symm (hfresh q (List.mem_append_right _ hq)))
  rw [mappingLoop_append, mappingLoop_cons, hS]
  simp only [hc, kvOf]

theorem kept_insert (cfg : Cfg) (cs : Bool) (pre post : List (Node × Node)) (kn vn : Node)
    (seen : List (String × Yaml.Pos)) (hs : lookupSeen (keyId cfg cs kn) seen = none)
    (hfresh : ∀ q ∈ pre ++ post, keyId cfg cs q.1 ≠ keyId cfg cs kn) :
    kept cfg cs (pre ++ (kn, vn) :: post) seen =
      kept cfg cs pre seen ++ (kn, vn) :: kept cfg cs post (seenAfter cfg cs pre seen) := by
  have hS : lookupSeen (keyId cfg cs kn) (seenAfter cfg cs pre seen) = none :=
    (lookupSeen_seenAfter_none cfg cs _ pre seen).2 ⟨hs, fun q hq => hfresh q (List.mem_append_left _ hq)⟩
  rw [kept_append]
  congr 1
  simp only [kept, hS]
  congr 1
  -- the table with the new id behaves like the one without on `post`
  have : ∀ (l : List (Node × Node)) (s s' : List (String × Yaml.Pos)),
      (∀ q ∈ l, lookupSeen (keyId cfg cs q.1) s = lookupSeen (keyId cfg cs q.1) s') → kept cfg cs l s = kept cfg cs l s' := by
    intro l
    induction l with
    | nil => intros; rfl
    | cons q rest ih =>
      intro s s' h
      have hq := h q (by simp)
      simp only [kept, ← hq]
      cases hl : lookupSeen (keyId cfg cs q.1) s with
      | some pos => exact ih s s' (fun q' hq' => h q' (by simp [hq']))
      | none =>
        simp only
        congr 1
        apply ih
        intro q' hq'
        rw [lookupSeen_snoc, lookupSeen_snoc, h q' (by simp [hq'])]
  apply this
  intro q hq
  exact lookupSeen_snoc_ne _ _ (Ne.symm (hfresh q (List.mem_append_right _ hq)))

/-- pairwise distinct ids, none in the table: every pair is kept, the diagnostics are those of the key nodes -/
theorem mappingLoop_nodup_ids (cfg : Cfg) (what : String) (cs : Bool) : ∀ (ps : List (Node × Node)) (seen : List (String × Yaml.Pos)),
    (ps.map fun p => keyId cfg cs p.1).Nodup → (∀ q ∈ ps, lookupSeen (keyId cfg cs q.1) seen = none) →
    kept cfg cs ps seen = ps ∧ (mappingLoop cfg what cs ps seen).2 = ps.flatMap (fun p => (parseString p.1 false).2)
  | [], _, _, _ => ⟨rfl, rfl⟩
  | (kn, vn) :: rest, seen, hn, hs => by
    have h0 := hs (kn, vn) (by simp)
    simp only at h0
    simp only [List.map_cons, List.nodup_cons, List.mem_map, not_exists, not_and] at hn
    have hs' : ∀ q ∈ rest, lookupSeen (keyId cfg cs q.1) (seen ++ [(keyId cfg cs kn, (parseString kn false).1.pos)]) = none := by
      intro q hq
      rw [lookupSeen_snoc_ne _ _ (fun e => hn.1 q hq e.symm)]
      exact hs q (List.mem_cons_of_mem _ hq)
    obtain ⟨ih1, ih2⟩ := mappingLoop_nodup_ids cfg what cs rest _ hn.2 hs'
    rw [mappingLoop_cons]
    simp only [kept, h0, ih1, ih2, List.flatMap_cons, and_self]

/-! ### `mapKVs` -/

theorem mapKVs_eq_map {β : Type} (f : KV → R β) : ∀ kvs : List KV,
    mapKVs f kvs = (kvs.map (fun kv => (kv.id, (f kv).1)), kvs.flatMap (fun kv => (f kv).2))
  | [] => rfl
  | kv :: rest => by simp [mapKVs, mapKVs_eq_map f rest]

/-! ### `loop`: an update of the state that the other iterations leave alone -/

theorem loop_commute {σ : Type} (step : σ → KV → σ × List PErr) (upd : σ → σ) (kvs : List KV)
    (h : ∀ s kv, kv ∈ kvs → step (upd s) kv = (upd (step s kv).1, (step s kv).2)) :
    ∀ init, loop step (upd init) kvs = (upd (loop step init kvs).1, (loop step init kvs).2) := by
  induction kvs with
  | nil => intro init; rfl
  | cons kv rest ih =>
    intro init
    rw [loop_cons, loop_cons, h init kv (by simp)]
    simp only
    rw [ih (fun s kv' hm => h s kv' (List.mem_cons_of_mem _ hm))]

/-! ### `Split`: the enclosing parser sees a sub-node only through the sub-parser -/

/-- `P` on `ctx v` is `put` of the result of `Q` on `v`; its diagnostics are `A`, those of `Q` on `v`, `B` — whatever `v` -/
def Split {H α β : Type} (P : Node → R α) (Q : H → R β) (ctx : H → Node) (put : β → α) (A B : List PErr) : Prop :=
  ∀ v, P (ctx v) = (put (Q v).1, A ++ ((Q v).2 ++ B))

theorem Split.trans {H α β γ : Type} {P : Node → R α} {Q : Node → R β} {T : H → R γ} {c₁ : Node → Node} {c₂ : H → Node}
    {p₁ : β → α} {p₂ : γ → β} {A₁ B₁ A₂ B₂ : List PErr}
    (h₁ : Split P Q c₁ p₁ A₁ B₁) (h₂ : Split Q T c₂ p₂ A₂ B₂) :
    Split P T (fun v => c₁ (c₂ v)) (fun x => p₁ (p₂ x)) (A₁ ++ A₂) (B₂ ++ B₁) := by
  intro v
  rw [h₁ (c₂ v), h₂ v]
  simp only [List.append_assoc]

/-- the generic edge: a section parser and the value `emb h` of one of its keys (the first with its id), when the loop
body stores `Q`'s result with `upd` (on a state `base s` that does not depend on the value), keeps `Q`'s diagnostics, and
the iterations of the other keys and the final checks commute with `upd` (`fin`: the final checks on an updated state do
not look at the stored value) -/
theorem Sect.split {H σ ρ β : Type} (S : Sect σ ρ) (cfg : Cfg) (what : String) (cs : Bool) (m : MapCtx) (emb : H → Node)
    (Q : H → R β) (upd : β → σ → σ) (base : σ → σ) (put : β → ρ → ρ) (fin : σ → ρ × List PErr)
    (hfirst : ∀ q ∈ m.pre, keyId cfg cs q.1 ≠ keyId cfg cs m.key)
    (hstep : ∀ s h, S.step s ⟨keyId cfg cs m.key, (parseString m.key false).1, emb h⟩ = (upd (Q h).1 (base s), (Q h).2))
    (hcomm : ∀ b s kv, kv.id ≠ keyId cfg cs m.key → S.step (upd b s) kv = (upd b (S.step s kv).1, (S.step s kv).2))
    (hfin : ∀ b s, S.finish (upd b s) = (put b (fin s).1, (fin s).2)) :
    ∃ (r : ρ) (A B : List PErr), Split (fun n => S.run cfg what n false cs) Q (fun h => m.at (emb h)) (fun b => put b r) A B := by
  have hS : lookupSeen (keyId cfg cs m.key) (seenAfter cfg cs m.pre []) = none :=
    (lookupSeen_seenAfter_none cfg cs _ m.pre []).2 ⟨rfl, hfirst⟩
  -- the entries after the distinguished one have other ids
  have hk2 : ∀ kv ∈ (mappingLoop cfg what cs m.post
      (seenAfter cfg cs m.pre [] ++ [(keyId cfg cs m.key, (parseString m.key false).1.pos)])).1, kv.id ≠ keyId cfg cs m.key := by
    intro kv hkv e
    have := (C03P.mappingLoop_nodup cfg what cs m.post _).2 kv hkv
    rw [lookupSeen_snoc, e, hS] at this
    simp at this
  let k1 := (mappingLoop cfg what cs m.pre []).1
  let k2 := (mappingLoop cfg what cs m.post
      (seenAfter cfg cs m.pre [] ++ [(keyId cfg cs m.key, (parseString m.key false).1.pos)])).1
  let s1 := base (loop S.step S.init k1).1
  refine ⟨(fin (loop S.step s1 k2).1).1,
    (mappingLoop cfg what cs m.pre []).2 ++ ((parseString m.key false).2 ++ (mappingLoop cfg what cs m.post
      (seenAfter cfg cs m.pre [] ++ [(keyId cfg cs m.key, (parseString m.key false).1.pos)])).2) ++ (loop S.step S.init k1).2,
    (loop S.step s1 k2).2 ++ (fin (loop S.step s1 k2).1).2, ?_⟩
  intro v
  have hm : mappingLoop cfg what cs (m.pre ++ (m.key, emb v) :: m.post) [] =
      (k1 ++ ⟨keyId cfg cs m.key, (parseString m.key false).1, emb v⟩ :: k2,
       (mappingLoop cfg what cs m.pre []).2 ++ ((parseString m.key false).2 ++ (mappingLoop cfg what cs m.post
        (seenAfter cfg cs m.pre [] ++ [(keyId cfg cs m.key, (parseString m.key false).1.pos)])).2)) := by
    rw [mappingLoop_append, mappingLoop_cons, hS]
  have hne : (k1 ++ ⟨keyId cfg cs m.key, (parseString m.key false).1, emb v⟩ :: k2).isEmpty = false := by
    cases k1 <;> rfl
  have hl : loop S.step S.init (k1 ++ ⟨keyId cfg cs m.key, (parseString m.key false).1, emb v⟩ :: k2) =
      (upd (Q v).1 (loop S.step s1 k2).1, (loop S.step S.init k1).2 ++ ((Q v).2 ++ (loop S.step s1 k2).2)) := by
    rw [loop_append, loop_cons, hstep]
    simp only
    rw [loop_commute S.step (upd (Q v).1) k2 (fun s kv hkv => hcomm _ s kv (hk2 kv hkv))]
  simp only [MapCtx.at, Sect.run, parseMapping_mapNode, hm, hne, hl, hfin, Bool.not_false, Bool.and_false, Bool.false_eq_true,
    ↓reduceIte, List.append_nil, List.append_assoc]

/-! ### the `jobs:` mapping: names for the parts of `parseJobs`' result -/

/-- `W` with the given job list -/
abbrev withJobs (W : Workflow) (js : List (String × Job)) : Workflow := { W with jobs := some js }


/-- what `parseJobs` makes of one pair of the `jobs:` mapping: the job and its diagnostics -/
def jobOfPair (cfg : Cfg) (p : Node × Node) : R Job := parseJob cfg (parseString p.1 false).1 p.2

/-- the entry of `Workflow.Jobs` for a pair: keyed by the folded id -/
def jobEntry (cfg : Cfg) (p : Node × Node) : String × Job := (keyId cfg false p.1, (jobOfPair cfg p).1)

/-- `"jobs" section should not be empty`, at the `jobs:` mapping -/
def emptyErr (l c : Nat) : PErr := ⟨⟨l, c⟩, "mapping-empty", [sectionWhat "jobs"]⟩

theorem kept_isEmpty (cfg : Cfg) (cs : Bool) (ps : List (Node × Node)) : (kept cfg cs ps []).isEmpty = ps.isEmpty := by
  cases ps with
  | nil => rfl
  | cons p rest => simp [kept, lookupSeen]

/-- the jobs, the key diagnostics and the job diagnostics of a run of pairs, the table of seen ids being `seen` -/
def jobsOfPairs (cfg : Cfg) (ps : List (Node × Node)) (seen : List (String × Yaml.Pos)) : List (String × Job) :=
  (kept cfg false ps seen).map (jobEntry cfg)
def keyDiags (cfg : Cfg) (ps : List (Node × Node)) (seen : List (String × Yaml.Pos)) : List PErr :=
  (mappingLoop cfg (sectionWhat "jobs") false ps seen).2
def jobDiags (cfg : Cfg) (ps : List (Node × Node)) (seen : List (String × Yaml.Pos)) : List PErr :=
  (kept cfg false ps seen).flatMap (fun p => (jobOfPair cfg p).2)

theorem pairs_cons_fresh (cfg : Cfg) (post : List (Node × Node)) (kn vn : Node) (seen : List (String × Yaml.Pos))
    (hs : lookupSeen (keyId cfg false kn) seen = none) (hfresh : ∀ q ∈ post, keyId cfg false q.1 ≠ keyId cfg false kn) :
    jobsOfPairs cfg ((kn, vn) :: post) seen = jobEntry cfg (kn, vn) :: jobsOfPairs cfg post seen ∧
    keyDiags cfg ((kn, vn) :: post) seen = (parseString kn false).2 ++ keyDiags cfg post seen ∧
    jobDiags cfg ((kn, vn) :: post) seen = (jobOfPair cfg (kn, vn)).2 ++ jobDiags cfg post seen := by
  have h1 : kept cfg false ((kn, vn) :: post) seen = (kn, vn) :: kept cfg false post seen :=
    kept_insert cfg false [] post kn vn seen hs (by simpa using hfresh)
  have h2 : mappingLoop cfg (sectionWhat "jobs") false ((kn, vn) :: post) seen =
      (kvOf cfg false (kn, vn) :: (mappingLoop cfg (sectionWhat "jobs") false post seen).1,
       (parseString kn false).2 ++ (mappingLoop cfg (sectionWhat "jobs") false post seen).2) :=
    mappingLoop_insert cfg (sectionWhat "jobs") false [] post kn vn seen hs (by simpa using hfresh)
  simp [jobsOfPairs, keyDiags, jobDiags, h1, h2]

theorem parseSteps_seqNode (cfg : Cfg) (tag : String) (l c : Nat) (c0 : Node) (t : List Node) :
    parseSteps cfg (seqNode tag l c (c0 :: t)) = (some (stepsOf cfg (c0 :: t)).1, (stepsOf cfg (c0 :: t)).2) := by
  simp [parseSteps, checkSequence, seqNode, Node.kind, Node.content, checkNotEmpty]

end AL.C09D
