import AL.Props.C20Shell
import AL.Model.Rules
/-
  AL.Props.C20Doc, the AST side: `shellView` (what the visitor callbacks of rule_shellcheck.go / rule_pyflakes.go read
  off the AST), the list of scripts the two rules hand to their tool as the model (AL.ShellVisit) decides it, and the
  effective shell defined DIRECTLY on the AST.
-/
namespace AL.C20D
open AL.Ast AL.Proc AL.ShellVisit AL.Yaml
open AL.Rules (jobsOf stepsOf defaultsShell)

/-! ### the view -/

/-- `n.Defaults != nil && n.Defaults.Run != nil` -/
def hasRun (d : Option Defaults) : Bool :=
  match d with
  | some d => d.run.isSome
  | none => false

/-- `n.Defaults.Run.Shell.Value` (`none`: one of the three pointers is nil) — `AL.Rules.defaultsShell`, the text -/
def defShellText (d : Option Defaults) : Option String := (defaultsShell d).map (·.value)

/-- the texts of `n.RunsOn.Labels` (`RunsOn == nil`, or no literal labels: none) -/
def labelsOf (j : Job) : List String :=
  match j.runsOn with
  | some r => (r.labels.getD []).map (·.value)
  | none => []

/-- `VisitStep`: `run, ok := n.Exec.(*ExecRun); if !ok || run.Run == nil { return }`, then `run.Shell` -/
def stepView (s : Step) : StepS :=
  match s.exec with
  | .run e => ⟨e.shell.map (·.value), e.run.isSome⟩
  | _ => ⟨none, false⟩

def jobView (j : Job) : JobS :=
  { hasDefaultsRun := hasRun j.defaults, defShell := defShellText j.defaults, labels := labelsOf j,
    steps := (stepsOf j).map stepView }

/-- **the abstraction of a workflow the two rules see** (the jobs in the order of `Workflow.Jobs`) -/
def shellView (w : Workflow) : WfS :=
  { hasDefaultsRun := hasRun w.defaults, defShell := defShellText w.defaults, jobs := (jobsOf w).map jobView }

theorem defShellText_none_of_noRun (d : Option Defaults) (h : hasRun d = false) : defShellText d = none := by
  unfold defShellText defaultsShell
  cases d with
  | none => rfl
  | some d =>
    simp only [hasRun] at h
    cases hr : d.run with
    | none => simp [hr]
    | some r => rw [hr] at h; cases h

theorem jobView_shell (j : Job) : (jobView j).shell = defShellText j.defaults := by
  simp only [JobS.shell, jobView]
  by_cases h : hasRun j.defaults = true
  · simp [h]
  · simp [h, defShellText_none_of_noRun _ (Bool.eq_false_iff.2 h)]

theorem shellView_shell (w : Workflow) : (shellView w).shell = defShellText w.defaults := by
  simp only [WfS.shell, shellView]
  by_cases h : hasRun w.defaults = true
  · simp [h]
  · simp [h, defShellText_none_of_noRun _ (Bool.eq_false_iff.2 h)]

/-! ### what is handed to the tools -/

/-- one invocation of shellcheck: `runShellcheck(run.Run.Value, shell, run.RunPos)` after the shell was recognised -/
structure Handed where
  script : String
  pos : Option Yaml.Pos
  /-- the value after `--shell` -/
  shell : String
deriving Repr, DecidableEq

/-- the script of a step and the position diagnostics are reported at -/
def scriptOf (s : Step) : Option (String × Option Yaml.Pos) :=
  match s.exec with
  | .run e => e.run.map fun r => (r.value, e.runPos)
  | _ => none

/-- a step and the model's decision for it (`none`: not a `run:` step; `some eff`: the shell name) -/
def scPickModel (s : Step) (d : Option String) : Option Handed :=
  match scriptOf s, d with
  | some (src, pos), some eff => (shellcheckShell eff).map fun sh => ⟨src, pos, sh⟩
  | _, _ => none

/-- **the invocations of shellcheck for a workflow, as the model `AL.ShellVisit.scWorkflow` run on `shellView w`
decides them**: job by job, step by step -/
def scHanded (lower : String → String) (w : Workflow) : List Handed :=
  (List.zipWith (fun j ds => (List.zipWith scPickModel (stepsOf j) ds).filterMap id)
    (jobsOf w) (scWorkflow lower ScSt.init (shellView w)).2).flatten

def pyPickModel (s : Step) (b : Bool) : Option (String × Option Yaml.Pos) := if b then scriptOf s else none

/-- **the invocations of pyflakes** (`runPyflakes(run.Run.Value, run.RunPos)`), as `pyWorkflow` decides them -/
def pyHanded (w : Workflow) : List (String × Option Yaml.Pos) :=
  (List.zipWith (fun j ds => (List.zipWith pyPickModel (stepsOf j) ds).filterMap id)
    (jobsOf w) (pyWorkflow PySt.init (shellView w)).2).flatten

/-! ### the effective shell, directly on the AST -/

/-- a default shell that is the empty string counts as absent (`if rule.jobShell != ""`) -/
def nonEmpty (o : Option String) : Option String :=
  match o with
  | some s => if s = "" then none else some s
  | none => none

/-- some literal label of `runs-on`, lower-cased, is `windows` or starts with `windows-` -/
def isWindowsJob (lower : String → String) (j : Job) : Bool := (labelsOf j).any (isWindowsLabel lower)

/-- **the effective shell of a `run:` step as shellcheck's rule resolves it**: step `shell:` > job `defaults.run.shell` >
workflow `defaults.run.shell` > the runner's default (`pwsh` on a Windows runner, else `bash`) -/
def effShell (lower : String → String) (w : Workflow) (j : Job) (e : ExecRun) : String :=
  match e.shell with
  | some s => s.value
  | none =>
    match nonEmpty (defShellText j.defaults) with
    | some s => s
    | none =>
      match nonEmpty (defShellText w.defaults) with
      | some s => s
      | none => if isWindowsJob lower j then "pwsh" else "bash"

/-- `getShellIsPythonKind`'s test on a shell name -/
def isPyName (s : String) : Bool := s = "python" || s.startsWith "python "

/-- **whether a `run:` step is a Python script as pyflakes' rule resolves it**: step `shell:` > job `defaults.run.shell` >
workflow `defaults.run.shell`, by PRESENCE; without any of them: not Python -/
def effPython (w : Workflow) (j : Job) (e : ExecRun) : Bool :=
  match e.shell with
  | some s => isPyName s.value
  | none =>
    match defShellText j.defaults with
    | some s => isPyName s
    | none =>
      match defShellText w.defaults with
      | some s => isPyName s
      | none => false

/-- the invocation of shellcheck a step of job `j` of workflow `w` causes -/
def scPick (lower : String → String) (w : Workflow) (j : Job) (s : Step) : Option Handed :=
  match s.exec with
  | .run e =>
    (match e.run with
     | some r => (shellcheckShell (effShell lower w j e)).map fun sh => ⟨r.value, e.runPos, sh⟩
     | none => none)
  | _ => none

def pyPick (w : Workflow) (j : Job) (s : Step) : Option (String × Option Yaml.Pos) :=
  match s.exec with
  | .run e =>
    (match e.run with
     | some r => if effPython w j e then some (r.value, e.runPos) else none
     | none => none)
  | _ => none

/-! ### list helpers -/

theorem zipWith_map_self {α β γ : Type} (f : α → β → γ) (g : α → β) :
    ∀ (l : List α), List.zipWith f l (l.map g) = l.map fun a => f a (g a)
  | [] => rfl
  | a :: l => by simp [zipWith_map_self f g l]

theorem flatten_map {α β : Type} (f : α → List β) : ∀ (l : List α), (l.map f).flatten = l.flatMap f
  | [] => rfl
  | a :: l => by simp [flatten_map f l]

theorem flatMap_congr' {α β : Type} {f g : α → List β} : ∀ {l : List α}, (∀ a ∈ l, f a = g a) → l.flatMap f = l.flatMap g
  | [], _ => rfl
  | a :: l, h => by
    simp only [List.flatMap_cons]
    rw [h a (List.mem_cons_self ..), flatMap_congr' fun b hb => h b (List.mem_cons_of_mem _ hb)]

theorem filterMap_congr' {α β : Type} {f g : α → Option β} : ∀ {l : List α}, (∀ a ∈ l, f a = g a) → l.filterMap f = l.filterMap g
  | [], _ => rfl
  | a :: l, h => by
    simp only [List.filterMap_cons]
    rw [h a (List.mem_cons_self ..), filterMap_congr' fun b hb => h b (List.mem_cons_of_mem _ hb)]

theorem filterMap_id_map {α β : Type} (f : α → Option β) (l : List α) : (l.map f).filterMap id = l.filterMap f := by
  rw [List.filterMap_map]; rfl

theorem getD_ne_empty (o : Option String) :
    (if o.getD "" ≠ "" then some (o.getD "") else none) = nonEmpty o := by
  cases o with
  | none => simp [nonEmpty]
  | some s => by_cases h : s = "" <;> simp [nonEmpty, h]

theorem effectiveShell_eq (lower : String → String) (w : Workflow) (j : Job) (e : ExecRun) :
    effectiveShell (e.shell.map (·.value)) ((defShellText j.defaults).getD "") ((defShellText w.defaults).getD "")
      (runnerDefault lower (labelsOf j)) = effShell lower w j e := by
  unfold effectiveShell effShell
  cases e.shell with
  | some s => rfl
  | none =>
    simp only [Option.map_none]
    rw [← getD_ne_empty (defShellText j.defaults), ← getD_ne_empty (defShellText w.defaults)]
    by_cases h1 : (defShellText j.defaults).getD "" = ""
    · by_cases h2 : (defShellText w.defaults).getD "" = ""
      · simp only [h1, h2, ne_eq, not_true_eq_false, if_false, runnerDefault, isWindowsJob]
        by_cases hw : (labelsOf j).any (isWindowsLabel lower) = true <;> simp [hw]
      · simp [h1, h2]
    · simp [h1]

theorem pyKind_some (s : String) : pyKind (some s) = if isPyName s then .python else .notPython := rfl

theorem pyKind_none : pyKind none = .unspecified := rfl

theorem isPython_opt (st oj ow : Option String) :
    isPython st (pyKind oj) (pyKind ow) =
      match st with
      | some s => isPyName s
      | none => match oj with
        | some s => isPyName s
        | none => match ow with
          | some s => isPyName s
          | none => false := by
  unfold isPython
  cases st with
  | some s => rw [pyKind_some]; by_cases hp : isPyName s = true <;> simp [hp]
  | none =>
    rw [pyKind_none]
    cases oj with
    | some s => rw [pyKind_some]; by_cases hp : isPyName s = true <;> simp [hp]
    | none =>
      rw [pyKind_none]
      cases ow with
      | some s => rw [pyKind_some]; by_cases hp : isPyName s = true <;> simp [hp]
      | none => simp [pyKind_none]

theorem isPython_eq (w : Workflow) (j : Job) (e : ExecRun) :
    isPython (e.shell.map (·.value)) (if hasRun j.defaults then pyKind (defShellText j.defaults) else .unspecified)
      (if hasRun w.defaults then pyKind (defShellText w.defaults) else .unspecified) = effPython w j e := by
  have hk : ∀ d : Option Defaults, (if hasRun d then pyKind (defShellText d) else .unspecified) = pyKind (defShellText d) := by
    intro d
    by_cases h : hasRun d = true
    · simp [h]
    · simp [h, defShellText_none_of_noRun _ (Bool.eq_false_iff.2 h), pyKind_none]
  rw [hk, hk, isPython_opt]
  unfold effPython
  cases e.shell <;> rfl

end AL.C20D
