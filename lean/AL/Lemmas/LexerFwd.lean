import AL.Lemmas.LexerStream
/-
  Running the lexer forward on a known input (completeness direction): `adv st n` = `n` calls of `Next()`;
  exact results of the helpers when the unread input starts with a correctly spelled token.
-/
namespace AL.Lex
open AL AL.Spec

/-- the rune at the head of a list of characters -/
def nxt (u : List Sym) : Option Nat := u.head?.map (·.r)

@[simp] theorem nxt_nil : nxt [] = none := rfl
@[simp] theorem nxt_cons (c : Sym) (u : List Sym) : nxt (c :: u) = some c.r := rfl

theorem peek_unread (st : LexState) : st.peek = nxt st.scan.unread := peek_eq_unread st.scan

theorem ch_of_unread {st : LexState} {c : Sym} {u : List Sym} (h : st.scan.unread = c :: u) :
    st.scan.ch = some c := by
  unfold Scanner.unread at h
  cases hc : st.scan.ch with
  | none => simp [hc] at h
  | some d => simp [hc] at h; rw [h.1]

theorem ch_of_unread_nil {st : LexState} (h : st.scan.unread = []) : st.scan.ch = none := by
  unfold Scanner.unread at h
  cases hc : st.scan.ch with
  | none => rfl
  | some d => simp [hc] at h

theorem next_unread_cons {st : LexState} {c : Sym} {u : List Sym} (h : st.scan.unread = c :: u) :
    st.next.scan.unread = u := by
  rw [next_unread, h]; rfl

/-- `n` calls of `Next()` -/
def adv (st : LexState) : Nat → LexState
  | 0 => st
  | n + 1 => adv st.next n

@[simp] theorem adv_zero (st : LexState) : adv st 0 = st := rfl
theorem adv_succ (st : LexState) (n : Nat) : adv st (n + 1) = adv st.next n := rfl
theorem adv_one (st : LexState) : adv st 1 = st.next := rfl

theorem adv_adv (st : LexState) (a b : Nat) : adv (adv st a) b = adv st (a + b) := by
  induction a generalizing st with
  | zero => simp
  | succ n ih => rw [adv_succ, ih, Nat.add_right_comm, adv_succ]

theorem adv_next (st : LexState) (a : Nat) : (adv st a).next = adv st (a + 1) := by
  rw [← adv_one (adv st a), adv_adv]

theorem next_adv (st : LexState) (a : Nat) : adv st.next a = adv st (a + 1) := rfl

theorem adv_spec : ∀ (x : List Sym) (st : LexState) (u : List Sym), st.scan.unread = x ++ u →
    Steps st x (adv st x.length) ∧ (adv st x.length).scan.unread = u
  | [], st, u, h => ⟨.refl _, h⟩
  | c :: x, st, u, h => by
    have hc := ch_of_unread h
    have := adv_spec x st.next u (next_unread_cons h)
    exact ⟨.next hc this.1, this.2⟩

theorem takeWhile_exact {α} (p : α → Bool) (x u : List α) (hx : ∀ c ∈ x, p c = true)
    (hu : ∀ c, u.head? = some c → p c = false) : (x ++ u).takeWhile p = x := by
  induction x with
  | nil =>
    cases u with
    | nil => rfl
    | cons d u => simp [hu d rfl]
  | cons a x ih =>
    simp only [List.cons_append, List.takeWhile_cons, hx a (by simp), if_true]
    rw [ih (fun c hc => hx c (by simp [hc]))]

theorem eatWhile_adv (p : Nat → Bool) (st : LexState) :
    eatWhile p st = adv st (st.scan.unread.takeWhile (fun c => p c.r)).length := by
  fun_induction eatWhile p st with
  | case1 st h => simp [unread_of_none h]
  | case2 st c h hp ih =>
    rw [ih, next_unread_some h, unread_of_some h]
    simp [hp, adv_succ]
  | case3 st c h hp =>
    rw [unread_of_some h]
    simp [hp]

theorem eatWhile_exact {p : Nat → Bool} {st : LexState} {x u : List Sym} (h : st.scan.unread = x ++ u)
    (hx : ∀ c ∈ x, p c.r = true) (hu : ∀ r, nxt u = some r → p r = false) : eatWhile p st = adv st x.length := by
  rw [eatWhile_adv, h, takeWhile_exact (fun c : Sym => p c.r) x u hx]
  intro c hc; apply hu; simp [nxt, hc]

/-- `skipWhite` does nothing in front of a non-blank character -/
theorem skipWhite_id {st : LexState} (h : ∀ r, st.peek = some r → isWhitespace r = false) : skipWhite st = st := by
  rw [skipWhite]
  split
  · rfl
  · rename_i c hc
    have := h c.r (by rw [peek_eq, hc]; rfl)
    simp [this]

/-! ### characters -/

theorem isNum_alnum {r : Nat} (h : isNum r = true) : isAlnum r = true := by simp [isAlnum, h]
theorem isHexNum_alnum {r : Nat} (h : isHexNum r = true) : isAlnum r = true := by
  simp [isHexNum, isAlnum, isAlpha, isNum] at h ⊢; omega
theorem not_isNum_of_not_alnum {r : Nat} (h : isAlnum r = false) : isNum r = false := by
  cases h' : isNum r with
  | false => rfl
  | true => rw [isNum_alnum h'] at h; cases h
theorem not_isHexNum_of_not_alnum {r : Nat} (h : isAlnum r = false) : isHexNum r = false := by
  cases h' : isHexNum r with
  | false => rfl
  | true => rw [isHexNum_alnum h'] at h; cases h

theorem runes_eq_nil {l : List Sym} (h : runes l = []) : l = [] := by simpa [runes] using h

theorem runes_eq_cons {l : List Sym} {r : Nat} {rs : List Nat} (h : runes l = r :: rs) :
    ∃ c cs, l = c :: cs ∧ c.r = r ∧ runes cs = rs := by
  cases l with
  | nil => simp at h
  | cons c cs => simp at h; exact ⟨c, cs, rfl, h.1, h.2⟩

theorem runes_eq_append {l : List Sym} {a b : List Nat} (h : runes l = a ++ b) :
    ∃ la lb, l = la ++ lb ∧ runes la = a ∧ runes lb = b := by
  unfold runes at h
  obtain ⟨la, lb, h1, h2, h3⟩ := List.map_eq_append_iff.mp h
  exact ⟨la, lb, h1, h2, h3⟩

theorem all_of_runes {l : List Sym} {p : Nat → Bool} (h : ∀ x ∈ runes l, p x = true) : ∀ c ∈ l, p c.r = true := by
  intro c hc; apply h; simp [runes]; exact ⟨c, hc, rfl⟩

theorem decInt_syms {ip : List Sym} (h : DecInt (runes ip)) :
    (∃ c, ip = [c] ∧ c.r = 48) ∨
    (∃ c cs, ip = c :: cs ∧ 49 ≤ c.r ∧ c.r ≤ 57 ∧ ∀ x ∈ cs, isNum x.r = true) := by
  rcases h with h | ⟨d, ds, h, h1, h2, h3⟩
  · obtain ⟨c, cs, rfl, hc, hcs⟩ := runes_eq_cons h
    rw [runes_eq_nil hcs]; exact .inl ⟨c, rfl, hc⟩
  · obtain ⟨c, cs, rfl, hc, hcs⟩ := runes_eq_cons h
    subst hc hcs
    exact .inr ⟨c, cs, rfl, h1, h2, all_of_runes h3⟩

/-! ### exact results of the number helpers -/

theorem finishNum_complete {st : LexState} (k : TokKind) (wh : Where)
    (h : ∀ r, st.peek = some r → isAlnum r = false) : finishNum st k wh = st.token k := by
  unfold finishNum
  split
  · rename_i r hr; simp [h r hr]
  · rfl

theorem eatDigits_exact {st : LexState} {c : Sym} {cs u : List Sym} (h : st.scan.unread = c :: cs ++ u)
    (hcs : ∀ x ∈ cs, isNum x.r = true) (hu : ∀ r, nxt u = some r → isNum r = false) :
    eatDigits st = adv st (cs.length + 1) := by
  unfold eatDigits
  rw [eatWhile_exact (next_unread_cons h) hcs hu]; rfl

theorem lexHexInt_complete {st : LexState} {body u : List Sym} (h : st.scan.unread = body ++ u)
    (hb : runes body = [48] ∨ ∃ d ds, runes body = d :: ds ∧ isHexNum d = true ∧ d ≠ 48 ∧ ∀ x ∈ ds, isHexNum x = true)
    (hu : ∀ r, nxt u = some r → isAlnum r = false) : lexHexInt st = (adv st body.length).token .int := by
  unfold lexHexInt
  rcases hb with hb | ⟨d, ds, hb, hd, hd0, hds⟩
  · obtain ⟨c, cs, rfl, hc, hcs⟩ := runes_eq_cons hb
    have := runes_eq_nil hcs; subst this
    have hp : st.peek = some 48 := by rw [peek_unread, h]; simp [hc]
    split
    · rw [finishNum_complete]; rfl
      intro r hr; rw [peek_unread, next_unread_cons h] at hr; exact hu r hr
    · rename_i hne; exact absurd hp hne
  · obtain ⟨c, cs, rfl, hc, hcs⟩ := runes_eq_cons hb
    subst hc hcs
    have hp : st.peek = some c.r := by rw [peek_unread, h]; simp
    split
    · rename_i h48; rw [hp] at h48; exact absurd (Option.some.inj h48) hd0
    · rw [hp]
      simp only [hd, Bool.not_true, Bool.false_eq_true, if_false]
      have he : eatWhile isHexNum st.next = adv st (cs.length + 1) := by
        rw [eatWhile_exact (next_unread_cons h) (all_of_runes hds)
          (fun r hr => not_isHexNum_of_not_alnum (hu r hr))]; rfl
      rw [he, finishNum_complete]; rfl
      intro r hr
      have := (adv_spec (c :: cs) st u h).2
      rw [peek_unread] at hr
      simp only [List.length_cons] at this
      rw [this] at hr; exact hu r hr

theorem numInt_complete {st : LexState} {ip u : List Sym} (h : st.scan.unread = ip ++ u)
    (hip : DecInt (runes ip)) (hu : ∀ r, nxt u = some r → isNum r = false) (hx : nxt u ≠ some 120) :
    numInt st = .ok (adv st ip.length, false) := by
  unfold numInt
  rcases decInt_syms hip with ⟨c, rfl, hc⟩ | ⟨c, cs, rfl, h1, h2, hcs⟩
  · have hp : st.peek = some 48 := by rw [peek_unread, h]; simp [hc]
    split
    · have : st.next.peek ≠ some 120 := by rw [peek_unread, next_unread_cons h]; exact hx
      simp [this]; rfl
    · rename_i hne; exact absurd hp hne
  · have hp : st.peek = some c.r := by rw [peek_unread, h]; simp
    split
    · rename_i h48; rw [hp] at h48; have := Option.some.inj h48; omega
    · rw [hp]
      have : isNum c.r = true := by simp [isNum]; omega
      simp only [this, Bool.not_true, Bool.false_eq_true, if_false]
      rw [eatDigits_exact h hcs hu]; rfl

theorem numInt_hex {st : LexState} {c0 cx : Sym} {u : List Sym} (h : st.scan.unread = c0 :: cx :: u)
    (h0 : c0.r = 48) (hx : cx.r = 120) : numInt st = .ok (adv st 2, true) := by
  unfold numInt
  have hp : st.peek = some 48 := by rw [peek_unread, h]; simp [h0]
  split
  · have : st.next.peek = some 120 := by rw [peek_unread, next_unread_cons h]; simp [hx]
    simp [this]; rfl
  · rename_i hne; exact absurd hp hne

theorem numFrac_none {st : LexState} (h : st.peek ≠ some 46) : numFrac st = .ok (st, .int) := by
  unfold numFrac; simp [h]

theorem numFrac_some {st : LexState} {c : Sym} {ds u : List Sym} (h : st.scan.unread = c :: ds ++ u)
    (hc : c.r = 46) (hds : Digits1 (runes ds)) (hu : ∀ r, nxt u = some r → isNum r = false) :
    numFrac st = .ok (adv st (ds.length + 1), .float) := by
  unfold numFrac
  have hp : st.peek = some 46 := by rw [peek_unread, h]; simp [hc]
  obtain ⟨hne, hall⟩ := hds
  cases ds with
  | nil => simp at hne
  | cons d ds =>
    have hu1 := next_unread_cons h
    have hp1 : st.next.peek = some d.r := by rw [peek_unread, hu1]; simp
    have hd : isNum d.r = true := hall d.r (by simp)
    simp only [hp, if_true, hp1, hd, Bool.not_true, Bool.false_eq_true, if_false]
    rw [eatDigits_exact (c := d) (cs := ds) (u := u) (by simpa using hu1)
      (all_of_runes (fun x hx => hall x (by simp [hx]))) hu]
    rw [next_adv]; rfl

/-- the exponent: `e`, optional `-`, `0 | [1-9][0-9]*` -/
theorem lexExponent_complete {st : LexState} {ce : Sym} {sg ds u : List Sym}
    (h : st.scan.unread = ce :: sg ++ ds ++ u) (hsg : sg = [] ∨ ∃ cm, sg = [cm] ∧ cm.r = 45)
    (hds : DecInt (runes ds)) (hu : runes ds ≠ [48] → ∀ r, nxt u = some r → isNum r = false) :
    lexExponent st = .ok (adv st (1 + sg.length + ds.length)) := by
  unfold lexExponent
  have hu1 : st.next.scan.unread = sg ++ ds ++ u := next_unread_cons (by simpa using h)
  -- the sign
  have hsign : (if st.next.peek = some 45 then st.next.next else st.next) = adv st (1 + sg.length) ∧
      (adv st (1 + sg.length)).scan.unread = ds ++ u := by
    rcases hsg with rfl | ⟨cm, rfl, hcm⟩
    · have : st.next.peek ≠ some 45 := by
        rw [peek_unread, hu1]
        rcases decInt_syms hds with ⟨c, rfl, hc⟩ | ⟨c, cs, rfl, h1, h2, -⟩ <;> simp <;> omega
      simp only [this, if_false]
      exact ⟨rfl, hu1⟩
    · have : st.next.peek = some 45 := by rw [peek_unread, hu1]; simp [hcm]
      simp only [this, if_true]
      exact ⟨rfl, next_unread_cons (by simpa using hu1)⟩
  obtain ⟨hs1, hs2⟩ := hsign
  dsimp only
  rw [hs1, ← adv_adv st (1 + sg.length) ds.length]
  generalize adv st (1 + sg.length) = st2 at hs2
  rcases decInt_syms hds with ⟨c, rfl, hc⟩ | ⟨c, cs, rfl, h1, h2, hcs⟩
  · have hp : st2.peek = some 48 := by rw [peek_unread, hs2]; simp [hc]
    split
    · rfl
    · rename_i hne; exact absurd hp hne
  · have hp : st2.peek = some c.r := by rw [peek_unread, hs2]; simp
    split
    · rename_i h48; rw [hp] at h48; have := Option.some.inj h48; omega
    · rw [hp]
      have : isNum c.r = true := by simp [isNum]; omega
      simp only [this, Bool.not_true, Bool.false_eq_true, if_false]
      rw [eatDigits_exact hs2 hcs (hu (by simp; omega))]; rfl

theorem numTail_none {st : LexState} (k : TokKind) (h : ∀ r, st.peek = some r → isAlnum r = false) :
    numTail st k = st.token k := by
  unfold numTail
  have h1 : st.peek ≠ some 101 := fun h' => by have := h _ h'; simp [isAlnum, isAlpha] at this
  have h2 : st.peek ≠ some 69 := fun h' => by have := h _ h'; simp [isAlnum, isAlpha] at this
  simp only [h1, h2, decide_false, Bool.or_self, Bool.false_eq_true, if_false]
  exact finishNum_complete k _ h

theorem numTail_exp {st : LexState} (k : TokKind) {ce : Sym} {sg ds u : List Sym}
    (h : st.scan.unread = ce :: sg ++ ds ++ u) (hce : ce.r = 101 ∨ ce.r = 69)
    (hsg : sg = [] ∨ ∃ cm, sg = [cm] ∧ cm.r = 45)
    (hds : DecInt (runes ds)) (hu : ∀ r, nxt u = some r → isAlnum r = false) :
    numTail st k = (adv st (1 + sg.length + ds.length)).token .float := by
  unfold numTail
  have hp : (st.peek = some 101 || st.peek = some 69) = true := by
    rw [peek_unread, h]; rcases hce with hce | hce <;> simp [hce]
  simp only [hp, if_true]
  rw [lexExponent_complete h hsg hds (fun _ r hr => not_isNum_of_not_alnum (hu r hr))]
  dsimp only
  apply finishNum_complete
  intro r hr
  have := (adv_spec (ce :: sg ++ ds) st u (by simpa using h)).2
  rw [peek_unread] at hr
  have hl : (ce :: sg ++ ds).length = 1 + sg.length + ds.length := by simp; omega
  rw [hl] at this
  rw [this] at hr; exact hu r hr

theorem sign_complete {st : LexState} {m w : List Sym} (h : st.scan.unread = m ++ w)
    (hm : (m = [] ∧ nxt w ≠ some 45) ∨ ∃ c, m = [c] ∧ c.r = 45) :
    (if st.peek = some 45 then st.next else st) = adv st m.length ∧ (adv st m.length).scan.unread = w := by
  rcases hm with ⟨rfl, hw⟩ | ⟨c, rfl, hc⟩
  · have : st.peek ≠ some 45 := by rw [peek_unread, h]; exact hw
    simp only [this, if_false]; exact ⟨rfl, h⟩
  · have : st.peek = some 45 := by rw [peek_unread, h]; simp [hc]
    simp only [this, if_true]; exact ⟨rfl, next_unread_cons h⟩

theorem decInt_head {ip : List Sym} (h : DecInt (runes ip)) (w : List Sym) :
    ∃ r, nxt (ip ++ w) = some r ∧ isNum r = true := by
  rcases decInt_syms h with ⟨c, rfl, hc⟩ | ⟨c, cs, rfl, h1, h2, -⟩
  · exact ⟨c.r, rfl, by simp [hc, isNum]⟩
  · exact ⟨c.r, rfl, by simp [isNum]; omega⟩

/-- `lexNum` on a decimal number `m ip frac exp` (sign, integer part, fraction, exponent) followed by `u` -/
theorem lexNum_dec {st : LexState} {m ip frac exp u : List Sym} {k : TokKind}
    (h : st.scan.unread = m ++ ip ++ frac ++ exp ++ u)
    (hm : m = [] ∨ ∃ c, m = [c] ∧ c.r = 45)
    (hip : DecInt (runes ip))
    (hfrac : frac = [] ∨ ∃ c ds, frac = c :: ds ∧ c.r = 46 ∧ Digits1 (runes ds))
    (hexp : exp = [] ∨ ∃ ce sg ds, exp = ce :: sg ++ ds ∧ (ce.r = 101 ∨ ce.r = 69) ∧
      (sg = [] ∨ ∃ cm, sg = [cm] ∧ cm.r = 45) ∧ DecInt (runes ds))
    (hu : ∀ r, nxt u = some r → isAlnum r = false)
    (hdot : frac = [] → exp = [] → nxt u ≠ some 46)
    (hk : (frac = [] → exp = [] → k = .int) ∧ (frac ≠ [] ∨ exp ≠ [] → k = .float)) :
    lexNum st = (adv st (m ++ ip ++ frac ++ exp).length).token k := by
  rw [lexNum_eq]
  have h' : st.scan.unread = m ++ (ip ++ (frac ++ (exp ++ u))) := by simpa [List.append_assoc] using h
  have h0 := sign_complete h' (by
    rcases hm with rfl | hm
    · left; refine ⟨rfl, ?_⟩
      obtain ⟨r, hr, hn⟩ := decInt_head hip (frac ++ (exp ++ u))
      rw [hr]; intro h45; have := Option.some.inj h45; subst this; simp [isNum] at hn
    · exact .inr hm)
  rw [h0.1]
  -- what follows the exponent marker / the fraction
  have hexpHead : ∀ r, nxt (exp ++ u) = some r → (isNum r = false ∧ r ≠ 120) ∧ (exp = [] → isAlnum r = false) := by
    intro r hr
    rcases hexp with rfl | ⟨ce, sg, ds, rfl, hce, -, -⟩
    · have := hu r hr
      refine ⟨⟨not_isNum_of_not_alnum this, ?_⟩, fun _ => this⟩
      intro hx; subst hx; simp [isAlnum, isAlpha] at this
    · simp at hr; subst hr
      refine ⟨?_, fun h => by simp at h⟩
      rcases hce with hce | hce <;> simp [hce, isNum]
  have hfracHead : ∀ r, nxt (frac ++ (exp ++ u)) = some r → isNum r = false ∧ r ≠ 120 := by
    intro r hr
    rcases hfrac with rfl | ⟨c, ds, rfl, hc, -⟩
    · exact (hexpHead r hr).1
    · simp at hr; subst hr; simp [hc, isNum]
  rw [numInt_complete h0.2 hip (fun r hr => (hfracHead r hr).1) (fun hr => (hfracHead _ hr).2 rfl)]
  dsimp only
  have h2 := (adv_spec ip _ _ h0.2).2
  rw [adv_adv] at h2 ⊢
  generalize hst2 : adv st (m.length + ip.length) = st2 at h2
  have hlen : (m ++ ip ++ frac ++ exp).length = m.length + ip.length + frac.length + exp.length := by simp; omega
  rw [hlen, ← adv_adv st (m.length + ip.length + frac.length), ← adv_adv st (m.length + ip.length), hst2]
  rcases hfrac with rfl | ⟨c, ds, rfl, hc, hds⟩
  · have hp : st2.peek ≠ some 46 := by
      rw [peek_unread, h2]
      intro h46
      have := (hexpHead 46 h46).2
      rcases hexp with rfl | ⟨ce, sg, ds, rfl, hce, -, -⟩
      · exact hdot rfl rfl h46
      · simp at h46; rcases hce with hce | hce <;> omega
    rw [numFrac_none hp]
    dsimp only
    simp only [List.length_nil, adv_zero]
    rcases hexp with rfl | ⟨ce, sg, ds, rfl, hce, hsg, hds⟩
    · rw [hk.1 rfl rfl]
      rw [numTail_none]; rfl
      intro r hr; rw [peek_unread, h2] at hr; exact hu r hr
    · rw [hk.2 (.inr (by simp))]
      rw [numTail_exp .int (by simpa using h2) hce hsg hds hu]
      congr 2; simp; omega
  · have hk' : k = .float := hk.2 (.inl (by simp))
    subst hk'
    rw [numFrac_some (by simpa using h2) hc hds (fun r hr => ((hexpHead r hr).1).1)]
    dsimp only
    have h3 := (adv_spec (c :: ds) st2 (exp ++ u) (by simpa using h2)).2
    simp only [List.length_cons] at h3 ⊢
    generalize adv st2 (ds.length + 1) = st3 at h3
    rcases hexp with rfl | ⟨ce, sg, es, rfl, hce, hsg, hes⟩
    · rw [numTail_none]; rfl
      intro r hr; rw [peek_unread, h3] at hr; exact hu r hr
    · rw [numTail_exp .float (by simpa using h3) hce hsg hes hu]
      congr 2; simp; omega

/-- `lexNum` up to and including the fraction: what remains is `numTail` -/
theorem lexNum_prefix {st : LexState} {m ip frac w : List Sym}
    (h : st.scan.unread = m ++ ip ++ frac ++ w)
    (hm : m = [] ∨ ∃ c, m = [c] ∧ c.r = 45)
    (hip : DecInt (runes ip))
    (hfrac : frac = [] ∨ ∃ c ds, frac = c :: ds ∧ c.r = 46 ∧ Digits1 (runes ds))
    (hw : ∀ r, nxt w = some r → isNum r = false ∧ r ≠ 120)
    (hdot : frac = [] → nxt w ≠ some 46) :
    lexNum st = numTail (adv st (m ++ ip ++ frac).length) (if frac = [] then .int else .float) ∧
    (adv st (m ++ ip ++ frac).length).scan.unread = w := by
  rw [lexNum_eq]
  have h' : st.scan.unread = m ++ (ip ++ (frac ++ w)) := by simpa [List.append_assoc] using h
  have h0 := sign_complete h' (by
    rcases hm with rfl | hm
    · left; refine ⟨rfl, ?_⟩
      obtain ⟨r, hr, hn⟩ := decInt_head hip (frac ++ w)
      rw [hr]; intro h45; have := Option.some.inj h45; subst this; simp [isNum] at hn
    · exact .inr hm)
  rw [h0.1]
  have hfracHead : ∀ r, nxt (frac ++ w) = some r → isNum r = false ∧ r ≠ 120 := by
    intro r hr
    rcases hfrac with rfl | ⟨c, ds, rfl, hc, -⟩
    · exact hw r hr
    · simp at hr; subst hr; simp [hc, isNum]
  rw [numInt_complete h0.2 hip (fun r hr => (hfracHead r hr).1) (fun hr => (hfracHead _ hr).2 rfl)]
  dsimp only
  have h2 := (adv_spec ip _ _ h0.2).2
  rw [adv_adv] at h2 ⊢
  generalize hst2 : adv st (m.length + ip.length) = st2 at h2
  have hlen : (m ++ ip ++ frac).length = m.length + ip.length + frac.length := by simp; omega
  rw [hlen, ← adv_adv st (m.length + ip.length), hst2]
  rcases hfrac with rfl | ⟨c, ds, rfl, hc, hds⟩
  · have hp : st2.peek ≠ some 46 := by rw [peek_unread, h2]; exact hdot rfl
    rw [numFrac_none hp]
    exact ⟨rfl, h2⟩
  · rw [numFrac_some (by simpa using h2) hc hds (fun r hr => (hw r hr).1)]
    have h3 := (adv_spec (c :: ds) st2 w (by simpa using h2)).2
    exact ⟨rfl, h3⟩

/-- `lexNum` on a hex number -/
theorem lexNum_hex {st : LexState} {m body u : List Sym} {c0 cx : Sym}
    (h : st.scan.unread = m ++ c0 :: cx :: body ++ u)
    (hm : m = [] ∨ ∃ c, m = [c] ∧ c.r = 45) (h0 : c0.r = 48) (hx : cx.r = 120)
    (hb : runes body = [48] ∨ ∃ d ds, runes body = d :: ds ∧ isHexNum d = true ∧ d ≠ 48 ∧ ∀ x ∈ ds, isHexNum x = true)
    (hu : ∀ r, nxt u = some r → isAlnum r = false) :
    lexNum st = (adv st (m ++ c0 :: cx :: body).length).token .int := by
  rw [lexNum_eq]
  have h' : st.scan.unread = m ++ (c0 :: cx :: (body ++ u)) := by simpa [List.append_assoc] using h
  have hs := sign_complete h' (by
    rcases hm with rfl | hm
    · exact .inl ⟨rfl, by simp [h0]⟩
    · exact .inr hm)
  rw [hs.1, numInt_hex hs.2 h0 hx]
  dsimp only
  have h2 := (adv_spec [c0, cx] _ _ (by simpa using hs.2)).2
  simp only [List.length_cons, List.length_nil] at h2
  rw [lexHexInt_complete h2 hb hu, adv_adv, adv_adv]
  congr 2; simp; omega

/-! ### strings -/

theorem lexString_step {st : LexState} {c0 c : Sym} (h : st.scan.ch = some c0) (h1 : st.next.scan.ch = some c) :
    lexString st = if c.r = 39 then
        (if st.next.next.peek ≠ some 39 then st.next.next.token .string else lexString st.next.next)
      else lexString st.next := by
  generalize hX : (if c.r = 39 then
        (if st.next.next.peek ≠ some 39 then st.next.next.token .string else lexString st.next.next)
      else lexString st.next) = X
  rw [lexString]
  split
  · rename_i hn; rw [h] at hn; cases hn
  · dsimp only
    split
    · rename_i hn; rw [h1] at hn; cases hn
    · rename_i c' hc'
      have : c' = c := by rw [h1] at hc'; cases hc'; rfl
      subst this
      exact hX

theorem lexString_complete : ∀ (l : List Nat), StrBody l → ∀ (st : LexState) (c0 q : Sym) (body u : List Sym),
    runes body = l → st.scan.unread = c0 :: body ++ q :: u → q.r = 39 → nxt u ≠ some 39 →
    lexString st = (adv st (body.length + 2)).token .string := by
  intro l hl
  induction hl with
  | nil =>
    intro st c0 q body u hb h hq hu
    have := runes_eq_nil hb; subst this
    have h1 := next_unread_cons h
    rw [lexString_step (ch_of_unread h) (ch_of_unread h1)]
    have h2 := next_unread_cons h1
    have : st.next.next.peek ≠ some 39 := by rw [peek_unread, h2]; exact hu
    simp [hq, this]; rfl
  | char r rest hr _ ih =>
    intro st c0 q body u hb h hq hu
    obtain ⟨c, cs, rfl, hc, hcs⟩ := runes_eq_cons hb
    have h1 := next_unread_cons h
    rw [lexString_step (ch_of_unread h) (ch_of_unread h1)]
    have : c.r ≠ 39 := by rw [hc]; exact hr
    simp only [this, if_false]
    rw [ih st.next c q cs u hcs h1 hq hu]; rfl
  | esc rest _ ih =>
    intro st c0 q body u hb h hq hu
    obtain ⟨c1, cs1, rfl, hc1, hcs1⟩ := runes_eq_cons hb
    obtain ⟨c2, cs, rfl, hc2, hcs⟩ := runes_eq_cons hcs1
    have h1 := next_unread_cons h
    rw [lexString_step (ch_of_unread h) (ch_of_unread h1)]
    have h2 := next_unread_cons h1
    have : st.next.next.peek = some 39 := by rw [peek_unread, h2]; simp [hc2]
    simp only [hc1, if_true, this, ne_eq, not_true_eq_false, if_false]
    rw [ih st.next.next c2 q cs u hcs h2 hq hu]; rfl

/-! ### operators -/

theorem lexPair_complete {st : LexState} {c d : Sym} {u : List Sym} {second : Nat} (k : TokKind) (wh : Where)
    (h : st.scan.unread = c :: d :: u) (hd : d.r = second) : lexPair st second k wh = (adv st 2).token k := by
  unfold lexPair
  have : st.next.peek = some second := by rw [peek_unread, next_unread_cons h]; simp [hd]
  simp [this]; rfl

theorem lexOptEq_one {st : LexState} {c : Sym} {u : List Sym} (k kEq : TokKind)
    (h : st.scan.unread = c :: u) (hu : nxt u ≠ some 61) : lexOptEq st k kEq = (adv st 1).token k := by
  unfold lexOptEq
  have : st.next.peek ≠ some 61 := by rw [peek_unread, next_unread_cons h]; exact hu
  simp [this]; rfl

theorem lexOptEq_two {st : LexState} {c d : Sym} {u : List Sym} (k kEq : TokKind)
    (h : st.scan.unread = c :: d :: u) (hd : d.r = 61) : lexOptEq st k kEq = (adv st 2).token kEq := by
  unfold lexOptEq
  have : st.next.peek = some 61 := by rw [peek_unread, next_unread_cons h]; simp [hd]
  simp [this]; rfl

/-! ### `Next` -/

/-- the part of `Next` after `skipWhite` -/
def lexBody (st : LexState) : Tok × LexState :=
  match st.peek with
  | none => (st.error .unexpectedEOF).eof
  | some r =>
    if isAlpha r || r = 95 then (eatWhile isIdentChar st.next).token .ident
    else if isNum r || r = 45 then lexNum st
    else match r with
      | 39 => lexString st
      | 125 => lexPair st 125 .end .endMarker
      | 33 => lexOptEq st .not .notEq
      | 60 => lexOptEq st .less .lessEq
      | 62 => lexOptEq st .greater .greaterEq
      | 61 => lexPair st 61 .eq .eqOp
      | 38 => lexPair st 38 .and .andOp
      | 124 => lexPair st 124 .or .orOp
      | 40 => lexChar st .lparen
      | 41 => lexChar st .rparen
      | 91 => lexChar st .lbracket
      | 93 => lexChar st .rbracket
      | 46 => lexChar st .dot
      | 42 => lexChar st .star
      | 44 => lexChar st .comma
      | _ => st.unexpected (some r) .expression

theorem lexNext_eq (st0 : LexState) : lexNext st0 = lexBody (skipWhite st0) := rfl

theorem lexBody_num {st : LexState} {r : Nat} (hp : st.peek = some r) (hr : isNum r = true ∨ r = 45) :
    lexBody st = lexNum st := by
  unfold lexBody
  rw [hp]
  have h1 : (isAlpha r || decide (r = 95)) = false := by
    rcases hr with hr | rfl
    · simp [isNum, isAlpha] at hr ⊢; omega
    · simp [isAlpha]
  have h2 : (isNum r || decide (r = 45)) = true := by
    rcases hr with hr | rfl <;> simp [*]
  simp only [h1, h2, Bool.false_eq_true, if_false, if_true]

/-- can the character after a token of kind `k` extend it (or make the lexer reject it)? -/
def extendsTok : TokKind → Option Nat → Bool
  | .ident, some r => isIdentChar r
  | .int, some r => isAlnum r || r == 46
  | .float, some r => isAlnum r
  | .string, some r => r == 39
  | .not, some r => r == 61
  | .less, some r => r == 61
  | .greater, some r => r == 61
  | _, _ => false

theorem optMinus_syms {P : List Nat → Prop} {v : List Sym} (h : optMinus P (runes v)) :
    ∃ m w, v = m ++ w ∧ (m = [] ∨ ∃ c, m = [c] ∧ c.r = 45) ∧ P (runes w) := by
  rcases h with h | ⟨t, ht, hP⟩
  · exact ⟨[], v, rfl, .inl rfl, h⟩
  · obtain ⟨c, cs, rfl, hc, hcs⟩ := runes_eq_cons ht
    subst hcs
    exact ⟨[c], cs, rfl, .inr ⟨c, rfl, hc⟩, hP⟩

theorem num_head {m ip : List Sym} (hm : m = [] ∨ ∃ c, m = [c] ∧ c.r = 45) (hr : ∃ r, nxt ip = some r ∧ isNum r = true)
    (w : List Sym) : ∃ r, nxt (m ++ ip ++ w) = some r ∧ (isNum r = true ∨ r = 45) := by
  rcases hm with rfl | ⟨c, rfl, hc⟩
  · obtain ⟨r, hr, hn⟩ := hr
    cases ip with
    | nil => simp at hr
    | cons d ds => exact ⟨r, by simpa using hr, .inl hn⟩
  · exact ⟨45, by simp [hc], .inr rfl⟩

theorem extends_int {rest : List Sym} (h : extendsTok .int (nxt rest) = false) :
    (∀ r, nxt rest = some r → isAlnum r = false) ∧ nxt rest ≠ some 46 := by
  cases hn : nxt rest with
  | none => simp
  | some r =>
    rw [hn] at h
    simp [extendsTok] at h
    exact ⟨fun r' hr' => by cases hr'; exact h.1, fun h46 => by cases h46; exact h.2 rfl⟩

theorem extends_float {rest : List Sym} (h : extendsTok .float (nxt rest) = false) :
    ∀ r, nxt rest = some r → isAlnum r = false := by
  cases hn : nxt rest with
  | none => simp
  | some r =>
    rw [hn] at h
    intro r' hr'; cases hr'; exact h

set_option hygiene false in
local macro "single_char" : tactic => `(tactic| (
  have hs : runes val = [_] := hs
  obtain ⟨c, cs, rfl, hc, hcs⟩ := runes_eq_cons hs
  have := runes_eq_nil hcs; subst this
  have hp : sk.peek = some c.r := by rw [peek_unread, hu]; rfl
  unfold lexBody
  rw [hp, hc]; simp [isAlpha, isNum]))

set_option hygiene false in
local macro "two_chars" : tactic => `(tactic| (
  have hs : runes val = [_, _] := hs
  obtain ⟨c, cs, rfl, hc, hcs⟩ := runes_eq_cons hs
  obtain ⟨d, ds, rfl, hd, hds⟩ := runes_eq_cons hcs
  have := runes_eq_nil hds; subst this
  have hp : sk.peek = some c.r := by rw [peek_unread, hu]; rfl
  unfold lexBody
  rw [hp, hc]; simp [isAlpha, isNum]))

/-- (m) completeness of `Next` for one token: if, after blanks, the input starts with a correctly spelled
token `val` of kind `k` and the character after it cannot extend it, `Next` returns exactly that token. -/
theorem lexNext_complete {st : LexState} {k : TokKind} {val rest : List Sym}
    (hs : Spelling k val) (hne : val ≠ []) (hu : (skipWhite st).scan.unread = val ++ rest)
    (hext : extendsTok k (nxt rest) = false) :
    lexNext st = (adv (skipWhite st) val.length).token k := by
  rw [lexNext_eq]
  generalize skipWhite st = sk at hu
  cases k with
  | unknown => exact absurd hs id
  | «end» =>
    rcases hs with hs | hs
    · two_chars
      exact lexPair_complete _ _ hu hd
    · exact absurd (runes_eq_nil hs) hne
  | ident =>
    obtain ⟨r, rs, hl, hr, hrs⟩ := hs
    obtain ⟨c, cs, rfl, hc, hcs⟩ := runes_eq_cons hl
    subst hc hcs
    have hp : sk.peek = some c.r := by rw [peek_unread, hu]; rfl
    unfold lexBody
    rw [hp]
    have : (isAlpha c.r || decide (c.r = 95)) = true := by rcases hr with hr | hr <;> simp [hr]
    simp only [this, if_true]
    rw [eatWhile_exact (next_unread_cons hu) (all_of_runes hrs)]
    · rfl
    · intro r hr
      cases hn : nxt rest with
      | none => rw [hn] at hr; cases hr
      | some r' => rw [hn] at hr hext; cases hr; exact hext
  | string =>
    obtain ⟨body, hl, hb⟩ := hs
    obtain ⟨c, cs, rfl, hc, hcs⟩ := runes_eq_cons hl
    obtain ⟨vb, vq, rfl, hvb, hvq⟩ := runes_eq_append hcs
    obtain ⟨q, qs, rfl, hq, hqs⟩ := runes_eq_cons hvq
    have := runes_eq_nil hqs; subst this
    have hp : sk.peek = some c.r := by rw [peek_unread, hu]; rfl
    unfold lexBody
    rw [hp, hc]; simp only [isAlpha, isNum]; simp only [Nat.reduceLeDiff, Bool.false_and, Bool.or_self,
      Nat.reduceEqDiff, decide_false, Bool.false_eq_true, if_false]
    rw [lexString_complete _ hb sk c q vb rest hvb (by simpa using hu) hq]
    · congr 2; simp
    · intro h39; rw [h39] at hext; simp [extendsTok] at hext
  | int =>
    obtain ⟨hal, hdot⟩ := extends_int hext
    rcases hs with hs | hs
    · obtain ⟨m, ip, rfl, hm, hip⟩ := optMinus_syms hs
      obtain ⟨r, hr, hr'⟩ := num_head hm (by simpa using decInt_head hip []) rest
      rw [lexBody_num (by rw [peek_unread, hu]; exact hr) hr']
      have := lexNum_dec (st := sk) (m := m) (ip := ip) (frac := []) (exp := []) (u := rest) (k := .int)
        (by simpa using hu) hm hip (.inl rfl) (.inl rfl) hal (fun _ _ => hdot) ⟨fun _ _ => rfl, by simp⟩
      simpa using this
    · obtain ⟨m, w, rfl, hm, body, hw, hb⟩ := optMinus_syms hs
      obtain ⟨c0, w1, rfl, h0, hw1⟩ := runes_eq_cons hw
      obtain ⟨cx, vb, rfl, hx, hvb⟩ := runes_eq_cons hw1
      subst hvb
      obtain ⟨r, hr, hr'⟩ := num_head (ip := c0 :: cx :: vb) hm ⟨48, by simp [h0], by simp [isNum]⟩ rest
      rw [lexBody_num (by rw [peek_unread, hu]; exact hr) hr']
      exact lexNum_hex (by simpa using hu) hm h0 hx hb hal
  | float =>
    have hal := extends_float hext
    obtain ⟨ip, frac, exp, hip, hfrac, hexp, hfe, hl⟩ := hs
    obtain ⟨v1, vexp, rfl, hv1, hvexp⟩ := runes_eq_append hl
    obtain ⟨vip, vfrac, rfl, hvip, hvfrac⟩ := runes_eq_append hv1
    subst hvip hvfrac hvexp
    obtain ⟨m, vi, rfl, hm, hvi⟩ := optMinus_syms hip
    obtain ⟨r, hr, hr'⟩ := num_head hm (by simpa using decInt_head hvi []) (vfrac ++ vexp ++ rest)
    rw [lexBody_num (by rw [peek_unread, hu]; simpa [List.append_assoc] using hr) hr']
    refine lexNum_dec (by simpa [List.append_assoc] using hu) hm hvi ?_ ?_ hal ?_ ⟨?_, fun _ => rfl⟩
    · rcases hfrac with h | ⟨ds, h, hds⟩
      · exact .inl (runes_eq_nil h)
      · obtain ⟨c, vds, rfl, hc, hvds⟩ := runes_eq_cons h
        subst hvds
        exact .inr ⟨c, vds, rfl, hc, hds⟩
    · rcases hexp with h | ⟨e, ds, h, he, hds⟩
      · exact .inl (runes_eq_nil h)
      · obtain ⟨ce, vds, rfl, hce, hvds⟩ := runes_eq_cons h
        subst hvds
        obtain ⟨sg, ds', rfl, hsg, hds'⟩ := optMinus_syms hds
        exact .inr ⟨ce, sg, ds', rfl, by rw [hce]; exact he, hsg, hds'⟩
    · intro h1 h2; subst h1 h2; simp at hfe
    · intro h1 h2; subst h1 h2; simp at hfe
  | lparen => single_char; rfl
  | rparen => single_char; rfl
  | lbracket => single_char; rfl
  | rbracket => single_char; rfl
  | dot => single_char; rfl
  | star => single_char; rfl
  | comma => single_char; rfl
  | not =>
    single_char
    exact lexOptEq_one (u := rest) _ _ hu (by intro h; rw [h] at hext; simp [extendsTok] at hext)
  | less =>
    single_char
    exact lexOptEq_one (u := rest) _ _ hu (by intro h; rw [h] at hext; simp [extendsTok] at hext)
  | greater =>
    single_char
    exact lexOptEq_one (u := rest) _ _ hu (by intro h; rw [h] at hext; simp [extendsTok] at hext)
  | lessEq => two_chars; exact lexOptEq_two _ _ hu hd
  | greaterEq => two_chars; exact lexOptEq_two _ _ hu hd
  | notEq => two_chars; exact lexOptEq_two _ _ hu hd
  | eq => two_chars; exact lexPair_complete _ _ hu hd
  | and => two_chars; exact lexPair_complete _ _ hu hd
  | or => two_chars; exact lexPair_complete _ _ hu hd

end AL.Lex
