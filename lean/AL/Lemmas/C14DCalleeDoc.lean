import AL.Lemmas.C14DCallee
/-
  Lemmas for AL.Props.C14Doc, part 3: from the `workflow_call:` node up to the document — `callEvent_read`,
  `parseEvents_read`, `fromDocAst_read`.
-/
namespace AL.C14D
open AL.Yaml AL.PW AL.Ast AL.CallMeta AL.C10M

/-! ### the `workflow_call:` node -/

theorem callEventKey_inputs_keep (cfg : Cfg) (st : CallEventSt) (kv : KV) (hne : kv.id ≠ "inputs") :
    (callEventKey cfg st kv).1.inputs = st.inputs := by
  simp only [callEventKey]
  split
  · rename_i h; exact absurd h hne
  · rfl
  · rfl
  · rfl

theorem callEventKey_secrets_keep (cfg : Cfg) (st : CallEventSt) (kv : KV) (hne : kv.id ≠ "secrets") :
    (callEventKey cfg st kv).1.secrets = st.secrets := by
  simp only [callEventKey]
  split
  · rfl
  · rename_i h; exact absurd h hne
  · rfl
  · rfl

theorem callEventKey_outputs_keep (cfg : Cfg) (st : CallEventSt) (kv : KV) (hne : kv.id ≠ "outputs") :
    (callEventKey cfg st kv).1.outputs = st.outputs := by
  simp only [callEventKey]
  split
  · rfl
  · rfl
  · rename_i h; exact absurd h hne
  · rfl

def inputsFold (l : List CallInput) : List (String × CallMeta.Input) := l.foldl (fun m i => put m i.id (inputOfAst i)) []
def secretsFold (l : List (String × CallSecret)) : List (String × CallMeta.Secret) :=
  l.foldl (fun m s => put m s.1 (⟨s.2.name.value, boolOf s.2.required⟩ : CallMeta.Secret)) []
def outputsFold (l : List (String × CallOutput)) : List (String × String) := l.foldl (fun m o => put m o.1 o.2.name.value) []

theorem fromAst_folds (i : Option (List CallInput)) (s : Option (List (String × CallSecret))) (o : Option (List (String × CallOutput))) :
    fromAst i s o = { inputs := inputsFold (i.getD []), outputs := outputsFold (o.getD []), secrets := secretsFold (s.getD []) } := rfl

/-- **the `workflow_call:` node**: the interface the AST of an accepted node gives is the one read from the node -/
theorem callEvent_read (cfg : Cfg) (pos : Yaml.Pos) (c : Node) (hs : SaneTo 3 c) (hnp : NoPlaceholderRequired c)
    (hc : (parseWorkflowCallEvent cfg pos c).2 = []) :
    fromEvent (parseWorkflowCallEvent cfg pos c).1 = some (readCall cfg (some c)) := by
  simp only [parseWorkflowCallEvent, parseSectionMapping] at hc ⊢
  obtain ⟨hm, hl⟩ := nil_of_append_nil hc
  obtain ⟨hkind, heq, hnd, _, _⟩ := parseMapping_clean_eq cfg _ c true true hm
  have hsc : Sane c := hs.sane
  rw [heq] at hl ⊢
  simp only [fromEvent, fromAst_folds, readCall, Option.some.injEq, Meta.mk.injEq]
  generalize hinit : ({} : CallEventSt) = init at hl ⊢
  have hi0 : init.inputs = none := by subst hinit; rfl
  have hs0 : init.secrets = none := by subst hinit; rfl
  have ho0 : init.outputs = none := by subst hinit; rfl
  refine ⟨?_, ?_, ?_⟩
  · -- inputs
    have h := loop_field_clean (callEventKey cfg) (fun st => inputsFold (st.inputs.getD [])) "inputs"
      (fun _ a => inputsFold (callInputs cfg (parseSectionMapping cfg "inputs" a.val true false).1).1)
      (by intro st a ha _; simp only [callEventKey, ha, Option.getD_some])
      (by intro st a ha _; simp only [callEventKey_inputs_keep cfg st a ha])
      _ init hnd hl
    rw [match_find_val cfg "inputs" (fun x => inputsFold (callInputs cfg (parseSectionMapping cfg "inputs" x true false).1).1) _
      (pairs c.content)] at h
    rw [h]
    simp only [inputsOf, sectionOf, ← attr_eq "inputs" c hsc hkind]
    cases hv : valueOf "inputs" (pairs c.content) with
    | none => simp [hi0, inputsFold]
    | some n =>
      simp only [Option.elim]
      obtain ⟨k, hmem, hkv⟩ := valueOf_mem hv
      obtain ⟨st, hst⟩ := loop_clean_mem (callEventKey cfg) _ init hl (mkKV cfg true (k, n)) (List.mem_map.2 ⟨_, hmem, rfl⟩)
      have hid : (mkKV cfg true (k, n)).id = "inputs" := hkv
      simp only [callEventKey, hid] at hst
      obtain ⟨h1, h2⟩ := nil_of_append_nil hst
      exact inputs_read cfg n (hs.2 (k, n) hmem).2 (hnp (k, n) hmem) h1 h2
  · -- outputs
    have h := loop_field_clean (callEventKey cfg) (fun st => outputsFold (st.outputs.getD [])) "outputs"
      (fun _ a => outputsFold (mapKVs (callOutput cfg) (parseSectionMapping cfg "outputs" a.val true false).1).1)
      (by intro st a ha _; simp only [callEventKey, ha, Option.getD_some])
      (by intro st a ha _; simp only [callEventKey_outputs_keep cfg st a ha])
      _ init hnd hl
    rw [match_find_val cfg "outputs" (fun x => outputsFold (mapKVs (callOutput cfg) (parseSectionMapping cfg "outputs" x true false).1).1) _
      (pairs c.content)] at h
    rw [h]
    simp only [outputsOf, sectionOf, ← attr_eq "outputs" c hsc hkind]
    cases hv : valueOf "outputs" (pairs c.content) with
    | none => simp [ho0, outputsFold]
    | some n =>
      simp only [Option.elim]
      obtain ⟨k, hmem, hkv⟩ := valueOf_mem hv
      obtain ⟨st, hst⟩ := loop_clean_mem (callEventKey cfg) _ init hl (mkKV cfg true (k, n)) (List.mem_map.2 ⟨_, hmem, rfl⟩)
      have hid : (mkKV cfg true (k, n)).id = "outputs" := hkv
      simp only [callEventKey, hid] at hst
      obtain ⟨h1, _⟩ := nil_of_append_nil hst
      exact outputs_read cfg n (hs.2 (k, n) hmem).2.sane h1
  · -- secrets
    have h := loop_field_clean (callEventKey cfg) (fun st => secretsFold (st.secrets.getD [])) "secrets"
      (fun _ a => secretsFold (mapKVs (callSecret cfg) (parseSectionMapping cfg "secrets" a.val true false).1).1)
      (by intro st a ha _; simp only [callEventKey, ha, Option.getD_some])
      (by intro st a ha _; simp only [callEventKey_secrets_keep cfg st a ha])
      _ init hnd hl
    rw [match_find_val cfg "secrets" (fun x => secretsFold (mapKVs (callSecret cfg) (parseSectionMapping cfg "secrets" x true false).1).1) _
      (pairs c.content)] at h
    rw [h]
    simp only [secretsOf, sectionOf, ← attr_eq "secrets" c hsc hkind]
    cases hv : valueOf "secrets" (pairs c.content) with
    | none => simp [hs0, secretsFold]
    | some n =>
      simp only [Option.elim]
      obtain ⟨k, hmem, hkv⟩ := valueOf_mem hv
      obtain ⟨st, hst⟩ := loop_clean_mem (callEventKey cfg) _ init hl (mkKV cfg true (k, n)) (List.mem_map.2 ⟨_, hmem, rfl⟩)
      have hid : (mkKV cfg true (k, n)).id = "secrets" := hkv
      simp only [callEventKey, hid] at hst
      obtain ⟨h1, h2⟩ := nil_of_append_nil hst
      exact secrets_read cfg n (hs.2 (k, n) hmem).2 (hnp (k, n) hmem) h1 h2

/-! ### the value of `on:` -/

theorem fromEvent_call (cfg : Cfg) (pos : Yaml.Pos) (v : Node) : (fromEvent (parseWorkflowCallEvent cfg pos v).1).isSome = true := by
  simp [parseWorkflowCallEvent, fromEvent]

/-- the first `workflow_call` event of the loop over the keys of `on:` is the one the key `workflow_call` makes -/
theorem fromEvents_loop (cfg : Cfg) : ∀ (kvs : List KV) (st : List Event), fromEvents st = none →
    fromEvents (loop (eventOfKey cfg) st kvs).1 =
      (kvs.find? (fun kv => kv.id = "workflow_call")).elim none
        (fun kv => fromEvent (parseWorkflowCallEvent cfg kv.key.pos kv.val).1)
  | [], st, h => by simpa using h
  | kv :: rest, st, h => by
    rw [AL.C03P.loop_cons_fst]
    obtain ⟨es, he, hcall, hother⟩ := eventOfKey_shape cfg st kv
    by_cases hk : kv.id = "workflow_call"
    · obtain ⟨hes, _⟩ := hcall hk
      simp only [List.find?_cons, hk, decide_true, Option.elim]
      cases hf : fromEvent (parseWorkflowCallEvent cfg kv.key.pos kv.val).1 with
      | none => have := fromEvent_call cfg kv.key.pos kv.val; rw [hf] at this; cases this
      | some m =>
        apply fromEvents_loop_some
        rw [he, fromEvents_append_none st es h, hes]
        simp only [fromEvents, hf]
    · simp only [List.find?_cons, hk, decide_false]
      apply fromEvents_loop cfg rest
      rw [he, fromEvents_append_none st es h]
      exact hother hk

/-- **the value of `on:`**: the interface taken from the AST of an accepted `on:` is the one read from the node -/
theorem parseEvents_read (cfg : Cfg) (pos : Yaml.Pos) (on : Node) (hc : (parseEvents cfg pos on).2 = [])
    (hsane : ∀ c, attr "workflow_call" on = some c → SaneTo 3 c ∧ NoPlaceholderRequired c)
    (m : Meta) (hm : fromEvents ((parseEvents cfg pos on).1.getD []) = some m) :
    m = readCall cfg (attr "workflow_call" on) := by
  cases hk : on.kind with
  | mapping =>
    simp only [parseEvents, hk, parseSectionMapping] at hc hm
    obtain ⟨hpm, hl⟩ := nil_of_append_nil hc
    obtain ⟨_, heq, _, _, _⟩ := parseMapping_clean_eq cfg _ on false true hpm
    rw [heq] at hl hm
    simp only [Option.getD_some] at hm
    rw [fromEvents_loop cfg _ [] rfl, match_find cfg "workflow_call"
      (fun kv => fromEvent (parseWorkflowCallEvent cfg kv.key.pos kv.val).1) none (pairs on.content)] at hm
    cases hf : (pairs on.content).find? (fun q => q.1.value = "workflow_call") with
    | none => rw [hf] at hm; cases hm
    | some q =>
      rw [hf] at hm
      simp only [Option.elim] at hm
      obtain ⟨hmem, hqv⟩ := find_pair_key "workflow_call" _ q hf
      have hval : attr "workflow_call" on = some q.2 := by
        simp only [attr, hk, if_true, ← find_pair_value, hf, Option.map_some]
      obtain ⟨st, hst⟩ := loop_clean_mem (eventOfKey cfg) _ [] hl (mkKV cfg true q) (List.mem_map.2 ⟨_, hmem, rfl⟩)
      have hid : (mkKV cfg true q).id = "workflow_call" := hqv
      simp only [eventOfKey, hid] at hst
      obtain ⟨h1, h2⟩ := hsane q.2 hval
      have := callEvent_read cfg (mkKV cfg true q).key.pos q.2 h1 h2 hst
      rw [hval]
      have hm' : fromEvent (parseWorkflowCallEvent cfg (mkKV cfg true q).key.pos (mkKV cfg true q).val).1 = some m := hm
      have hv2 : (mkKV cfg true q).val = q.2 := rfl
      rw [hv2, this] at hm'
      exact (Option.some.inj hm').symm
  | scalar =>
    have hat : attr "workflow_call" on = none := by simp [attr, hk]
    rw [hat]
    simp only [parseEvents, hk] at hm
    by_cases hv : on.value = "workflow_call"
    · simp only [hv, Option.getD_some, fromEvents, fromEvent, Option.some.injEq] at hm
      rw [← hm]; rfl
    · exfalso
      revert hm
      split
      · simp [fromEvents, fromEvent]
      · simp [fromEvents, fromEvent]
      · simp [fromEvents]
      · rename_i heq; exact absurd heq hv
      · split <;> simp [fromEvents, fromEvent]
  | sequence =>
    have hat : attr "workflow_call" on = none := by simp [attr, hk]
    rw [hat]
    simp only [parseEvents, hk] at hm hc
    obtain ⟨_, hc2⟩ := nil_of_append_nil hc
    simp only [Option.getD_some] at hm
    exact (eventsOfSeq_call on.content m hc2 hm).1
  | document => simp [parseEvents, hk, fromEvents] at hm
  | alias => simp [parseEvents, hk, fromEvents] at hm

/-! ### the document -/

theorem workflowKey_on_keep (cfg : Cfg) (w : Workflow) (kv : KV) (hne : kv.id ≠ "on") : (workflowKey cfg w kv).1.on = w.on := by
  simp only [workflowKey]
  split <;> first | rfl | (rename_i heq; exact absurd heq hne)

/-- what yaml.v3 guarantees about the `workflow_call:` node of the document (no alias, no `!!binary`, scalars are leaves,
`!!bool` / `!!null` scalars carry one of their spellings), and no `required:` in it is a `${{ }}` placeholder -/
def CalleeSane (doc : Node) : Prop := ∀ c, callNode doc = some c → SaneTo 3 c ∧ NoPlaceholderRequired c

/-- **the document**: for a document the parser accepts without a diagnostic, the interface `WriteWorkflowCallEvent` builds
from the AST is the interface read from the document -/
theorem fromDocAst_read (cfg : Cfg) (doc : Node) (hc : (parse cfg doc).2 = []) (hsane : CalleeSane doc)
    (m : Meta) (hm : fromDocAst cfg doc = some m) : m = readMeta cfg doc := by
  cases hd : doc.content with
  | nil =>
    have hfix : (fixDocPos doc).content = [] := by rw [fixDocPos_content, hd]
    simp [parse, hfix] at hc
  | cons root rest =>
    have hfix : (fixDocPos doc).content = root :: rest := by rw [fixDocPos_content, hd]
    simp only [fromDocAst, parse, hfix] at hm
    simp only [parse, hfix] at hc
    obtain ⟨hc12, _⟩ := nil_of_append_nil hc
    obtain ⟨hc12, _⟩ := nil_of_append_nil hc12
    obtain ⟨hpm, hl⟩ := nil_of_append_nil hc12
    obtain ⟨_, heq, hnd, _, hne⟩ := parseMapping_clean_eq cfg _ root false true hpm
    obtain ⟨hmap, _⟩ := hne rfl
    rw [heq] at hl hm
    have hon := loop_field_clean (workflowKey cfg) (fun w => w.on) "on" (fun _ kv => (parseEvents cfg kv.key.pos kv.val).1)
      (by intro st a ha _; simp only [workflowKey, ha])
      (by intro st a ha _; exact workflowKey_on_keep cfg st a ha)
      _ {} hnd hl
    rw [match_find cfg "on" (fun kv => (parseEvents cfg kv.key.pos kv.val).1) _ (pairs root.content)] at hon
    rw [hon] at hm
    cases hf : (pairs root.content).find? (fun q => q.1.value = "on") with
    | none =>
      rw [hf] at hm
      simp [fromEvents] at hm
    | some q =>
      rw [hf] at hm
      simp only [Option.elim] at hm
      obtain ⟨hmem, hqv⟩ := find_pair_key "on" _ q hf
      have hon' : onNode doc = some q.2 := by
        simp only [onNode, rootOf, hd, List.head?_cons, Option.bind_some, attr, hmap, if_true, ← find_pair_value, hf, Option.map_some]
      obtain ⟨st, hst⟩ := loop_clean_mem (workflowKey cfg) _ {} hl (mkKV cfg true q) (List.mem_map.2 ⟨_, hmem, rfl⟩)
      have hid : (mkKV cfg true q).id = "on" := hqv
      simp only [workflowKey, hid] at hst
      have hcn : callNode doc = attr "workflow_call" q.2 := by simp only [callNode, hon', Option.bind_some]
      simp only [readMeta, hcn]
      exact parseEvents_read cfg _ q.2 hst (fun c hc' => hsane c (by rw [hcn]; exact hc')) m hm

end AL.C14D
