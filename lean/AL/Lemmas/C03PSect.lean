import AL.Lemmas.C03PStep
/-
  C03Parse: the sections a job and the workflow share or a job alone has — `defaults`, `concurrency`, `environment`,
  `outputs`, `container`, `services`, `runs-on`. For each: the strings the key loop holds under a key (`…K`), that the
  iteration of a key stores every scalar below its value there (`…_store`), that the other iterations leave them alone
  (`…_pres`), and the section's theorem (`parse…_leaf`).
-/
namespace AL.C03P
open AL.PW AL.Yaml AL.Ast AL.C03R

/-! ### `defaults:` -/

def defaultsRunK (k : String) (st : DefaultsRun) : List Str :=
  match k with
  | "shell" => st.shell.toList
  | "working-directory" => st.workingDirectory.toList
  | _ => []

theorem defaultsRunK_pres (k : String) (st : DefaultsRun) (kv : KV) (hne : kv.id ≠ k) :
    ∀ s ∈ defaultsRunK k st, s ∈ defaultsRunK k (defaultsRunKey st kv).1 := by
  intro s hs
  simp only [defaultsRunKey]
  split
  all_goals (simp only [defaultsRunK] at hs ⊢; split at hs)
  all_goals first | exact hs | exact absurd ‹kv.id = _› hne

theorem defaultsRunKey_store (st : DefaultsRun) (kv : KV) (v : Node) (hv : v ∈ leaves kv.val)
    (hc : (defaultsRunKey st kv).2 = []) : Rep v (defaultsRunK kv.id (defaultsRunKey st kv).1) := by
  revert hc
  simp only [defaultsRunKey]
  split
  next h => intro hc; simp only [h, defaultsRunK]; exact (parseString_leaf _ _ v hv hc).mono (by simp)
  next h => intro hc; simp only [h, defaultsRunK]; exact (parseString_leaf _ _ v hv hc).mono (by simp)
  next => intro hc; simp at hc

theorem defaultsRunK_sub (k : String) (st : DefaultsRun) : ∀ s ∈ defaultsRunK k st, s ∈ st.shell.toList ++ st.workingDirectory.toList := by
  intro s hs
  simp only [defaultsRunK] at hs
  split at hs <;> simp_all

theorem parseDefaults_leaf (cfg : Cfg) (pos : Yaml.Pos) (n : Node) (v : Node) (hv : v ∈ leaves n)
    (h : (parseDefaults cfg pos n).2 = []) : Rep v (defaultsStrs (some (parseDefaults cfg pos n).1)) := by
  simp only [parseDefaults, parseSectionMapping, append_nil_iff] at h ⊢
  obtain ⟨⟨hm, hr⟩, _⟩ := h
  obtain ⟨k, hk⟩ := sect_leaves cfg _ n true _ _ v hv
    (fun k (st : Option DefaultsRun) => if k = "run" then (match st with | none => [] | some r => r.shell.toList ++ r.workingDirectory.toList) else [])
    hm hr
    (by
      intro kv st hvk
      by_cases hid : kv.id = "run"
      · simp only [hid, ne_eq, not_true_eq_false, ↓reduceIte, append_nil_iff]
        intro hc
        obtain ⟨k, hk⟩ := sect_leaves cfg _ kv.val true defaultsRunKey _ v hvk defaultsRunK hc.1 hc.2
          (fun kv st hv hc => defaultsRunKey_store st kv v hv hc) defaultsRunK_pres
        exact hk.mono (defaultsRunK_sub k _)
      · simp [hid])
    (by
      intro k st kv hne s hs
      by_cases hid : kv.id = "run"
      · have : k ≠ "run" := fun e => hne (hid.trans e.symm)
        simp [this] at hs
      · simpa [hid] using hs)
  simp only [defaultsStrs]
  split at hk
  · exact hk
  · exact hk.nil.elim

/-! ### `concurrency:` -/

def concurrencyK (k : String) (st : Concurrency × Bool) : List Str :=
  match k with
  | "group" => st.1.group.toList
  | "cancel-in-progress" => boolStrs st.1.cancelInProgress
  | _ => []

theorem concurrencyK_pres (k : String) (st : Concurrency × Bool) (kv : KV) (hne : kv.id ≠ k) :
    ∀ s ∈ concurrencyK k st, s ∈ concurrencyK k (concurrencyKey st kv).1 := by
  intro s hs
  simp only [concurrencyKey]
  split
  all_goals (simp only [concurrencyK] at hs ⊢; split at hs)
  all_goals first | exact hs | exact absurd ‹kv.id = _› hne

theorem concurrencyK_sub (k : String) (st : Concurrency × Bool) : ∀ s ∈ concurrencyK k st, s ∈ concurrencyStrs (some st.1) := by
  intro s hs
  simp only [concurrencyK] at hs
  split at hs <;> simp_all [concurrencyStrs]

theorem parseConcurrency_leaf (cfg : Cfg) (pos : Yaml.Pos) (n : Node) (v : Node) (hv : v ∈ concurrencyScalars n)
    (h : (parseConcurrency cfg pos n).2 = []) : Rep v (concurrencyStrs (some (parseConcurrency cfg pos n).1)) := by
  simp only [parseConcurrency, parseSectionMapping] at h ⊢
  simp only [concurrencyScalars] at hv
  split at h
  · rename_i hk
    simp only [hk, ↓reduceIte] at hv ⊢
    exact (parseString_leaf _ _ v hv h).mono (by simp [concurrencyStrs])
  · rename_i hk
    simp only [hk, ↓reduceIte] at hv ⊢
    simp only [append_nil_iff] at h
    obtain ⟨⟨hm, hr⟩, _⟩ := h
    obtain ⟨k, hk⟩ := sect_K cfg _ n false true concurrencyKey _ _ v hv concurrencyK hm hr
      (by
        intro kv k st hid hvk
        have := hid rfl
        subst this
        simp only [concurrencyKey]
        split
        next h => intro hc; simp only [h, concurrencyKeyScalars] at hvk; simp only [h, concurrencyK]; exact (parseString_leaf _ _ v hvk hc).mono (by simp)
        next h => intro hc; simp only [h, concurrencyKeyScalars] at hvk; simp only [h, concurrencyK]; exact parseBool_leaf _ v hvk hc
        next => intro hc; simp at hc)
      concurrencyK_pres
    exact hk.mono (concurrencyK_sub k _)

/-! ### `environment:` -/

def environmentK (k : String) (st : Environment × Bool) : List Str :=
  match k with
  | "name" => st.1.name.toList
  | "url" => st.1.url.toList
  | _ => []

theorem environmentK_pres (k : String) (st : Environment × Bool) (kv : KV) (hne : kv.id ≠ k) :
    ∀ s ∈ environmentK k st, s ∈ environmentK k (environmentKey st kv).1 := by
  intro s hs
  simp only [environmentKey]
  split
  all_goals (simp only [environmentK] at hs ⊢; split at hs)
  all_goals first | exact hs | exact absurd ‹kv.id = _› hne

def environmentStrs (e : Environment) : List Str := e.name.toList ++ e.url.toList

theorem environmentK_sub (k : String) (st : Environment × Bool) : ∀ s ∈ environmentK k st, s ∈ environmentStrs st.1 := by
  intro s hs
  simp only [environmentK] at hs
  split at hs <;> simp_all [environmentStrs]

theorem parseEnvironment_leaf (cfg : Cfg) (pos : Yaml.Pos) (n : Node) (v : Node) (hv : v ∈ leaves n)
    (h : (parseEnvironment cfg pos n).2 = []) : Rep v (environmentStrs (parseEnvironment cfg pos n).1) := by
  simp only [parseEnvironment, parseSectionMapping] at h ⊢
  split at h
  · rename_i hk
    simp only [hk, ↓reduceIte]
    exact (parseString_leaf _ _ v hv h).mono (by simp [environmentStrs])
  · rename_i hk
    simp only [hk, ↓reduceIte]
    simp only [append_nil_iff] at h
    obtain ⟨⟨hm, hr⟩, _⟩ := h
    obtain ⟨k, hk⟩ := sect_leaves cfg _ n true environmentKey _ v hv environmentK hm hr
      (by
        intro kv st hvk
        simp only [environmentKey]
        split
        next h => intro hc; simp only [h, environmentK]; exact (parseString_leaf _ _ v hvk hc).mono (by simp)
        next h => intro hc; simp only [h, environmentK]; exact (parseString_leaf _ _ v hvk hc).mono (by simp)
        next => intro hc; simp at hc)
      environmentK_pres
    exact hk.mono (environmentK_sub k _)

/-! ### `outputs:` of a job, `with:` / `secrets:` of a call -/

theorem parseOutputs_leaf (cfg : Cfg) (n : Node) (v : Node) (hv : v ∈ leaves n) (h : (parseOutputs cfg n).2 = []) :
    Rep v ((parseOutputs cfg n).1.map (·.2.value)) := by
  simp only [parseOutputs, parseSectionMapping, append_nil_iff] at h ⊢
  obtain ⟨⟨hm, hr⟩, _⟩ := h
  obtain ⟨kv, hkv, k, _, hvk⟩ := mapScalars_clean cfg _ n false false _ v (leaves_mapScalars cfg _ n false v hv hm) hm
  obtain ⟨h1, h2⟩ := mapKVs_clean _ _ hr kv hkv
  refine (parseString_leaf kv.val true v hvk h1).mono ?_
  intro s hs
  rw [List.mem_singleton] at hs
  subst hs
  exact List.mem_map.2 ⟨_, h2, rfl⟩

theorem callArgs_leaf (cfg : Cfg) (sec : String) (n : Node) (v : Node) (hv : v ∈ leaves n)
    (hm : (parseSectionMapping cfg sec n false false).2 = [])
    (hr : (callArgs (parseSectionMapping cfg sec n false false).1).2 = []) :
    Rep v ((callArgs (parseSectionMapping cfg sec n false false).1).1.map (·.2.value)) := by
  simp only [parseSectionMapping, callArgs] at hm hr ⊢
  obtain ⟨kv, hkv, k, _, hvk⟩ := mapScalars_clean cfg _ n false false _ v (leaves_mapScalars cfg _ n false v hv hm) hm
  obtain ⟨h1, h2⟩ := mapKVs_clean _ _ hr kv hkv
  refine (parseString_leaf kv.val true v hvk h1).mono ?_
  intro s hs
  rw [List.mem_singleton] at hs
  subst hs
  exact List.mem_map.2 ⟨_, h2, rfl⟩

/-! ### `container:` -/

def credentialsK (k : String) (st : Credentials) : List Str :=
  match k with
  | "username" => st.username.toList
  | "password" => st.password.toList
  | _ => []

theorem credentialsK_pres (k : String) (st : Credentials) (kv : KV) (hne : kv.id ≠ k) :
    ∀ s ∈ credentialsK k st, s ∈ credentialsK k (credentialsKey st kv).1 := by
  intro s hs
  simp only [credentialsKey]
  split
  all_goals (simp only [credentialsK] at hs ⊢; split at hs)
  all_goals first | exact hs | exact absurd ‹kv.id = _› hne

theorem credentialsK_sub (k : String) (st : Credentials) : ∀ s ∈ credentialsK k st, s ∈ st.username.toList ++ st.password.toList := by
  intro s hs
  simp only [credentialsK] at hs
  split at hs <;> simp_all

theorem credentials_leaf (cfg : Cfg) (n : Node) (init : Credentials) (v : Node) (hv : v ∈ leaves n)
    (hm : (parseSectionMapping cfg "credentials" n false true).2 = [])
    (hr : (loop credentialsKey init (parseSectionMapping cfg "credentials" n false true).1).2 = []) :
    Rep v ((loop credentialsKey init (parseSectionMapping cfg "credentials" n false true).1).1.username.toList ++
      (loop credentialsKey init (parseSectionMapping cfg "credentials" n false true).1).1.password.toList) := by
  obtain ⟨k, hk⟩ := sect_leaves cfg _ n true credentialsKey init v hv credentialsK hm hr
    (by
      intro kv st hvk
      simp only [credentialsKey]
      split
      next h => intro hc; simp only [h, credentialsK]; exact (parseString_leaf _ _ v hvk hc).mono (by simp)
      next h => intro hc; simp only [h, credentialsK]; exact (parseString_leaf _ _ v hvk hc).mono (by simp)
      next => intro hc; simp at hc)
    credentialsK_pres
  exact hk.mono (credentialsK_sub k _)

def containerK (k : String) (st : Container) : List Str :=
  match k with
  | "image" => st.image.toList
  | "credentials" => (match st.credentials with | some cr => cr.username.toList ++ cr.password.toList | none => [])
  | "env" => envStrs st.env
  | "ports" => st.ports.getD []
  | "volumes" => st.volumes.getD []
  | "options" => st.options.toList
  | _ => []

theorem containerK_pres (cfg : Cfg) (sec : String) (k : String) (st : Container) (kv : KV) (hne : kv.id ≠ k) :
    ∀ s ∈ containerK k st, s ∈ containerK k (containerKey cfg sec st kv).1 := by
  intro s hs
  simp only [containerKey]
  split
  all_goals (simp only [containerK] at hs ⊢; split at hs)
  all_goals first | exact hs | exact absurd ‹kv.id = _› hne | (split <;> exact hs)

theorem containerK_sub (k : String) (st : Container) : ∀ s ∈ containerK k st, s ∈ containerStrs (some st) := by
  intro s hs
  simp only [containerK] at hs
  simp only [containerStrs, List.mem_append]
  split at hs
  all_goals first | (simp_all; done) | (cases hcr : st.credentials <;> simp_all)

theorem containerKey_store (cfg : Cfg) (sec : String) (st : Container) (kv : KV) (v : Node) (hv : v ∈ leaves kv.val)
    (hc : (containerKey cfg sec st kv).2 = []) : Rep v (containerK kv.id (containerKey cfg sec st kv).1) := by
  revert hc
  simp only [containerKey]
  split
  next h => intro hc; simp only [h, containerK]; exact (parseString_leaf _ _ v hv hc).mono (by simp)
  next h =>
    split
    · intro hc; simp at hc
    · intro hc
      simp only [h, containerK]
      simp only [append_nil_iff] at hc
      exact credentials_leaf cfg _ _ v hv hc.1 hc.2
  next h => intro hc; simp only [h, containerK]; exact parseEnv_leaf cfg _ v hv hc
  next h => intro hc; simp only [h, containerK]; exact parseStringSequence_leaf _ _ _ _ v hv hc
  next h => intro hc; simp only [h, containerK]; exact parseStringSequence_leaf _ _ _ _ v hv hc
  next h => intro hc; simp only [h, containerK]; exact (parseString_leaf _ _ v hv hc).mono (by simp)
  next => intro hc; simp at hc

/-- `container:` / one service: an image name or a mapping -/
theorem parseContainer_leaf (cfg : Cfg) (sec : String) (pos : Yaml.Pos) (n : Node) (v : Node) (hv : v ∈ leaves n)
    (h : (parseContainer cfg sec pos n).2 = []) : Rep v (containerStrs (some (parseContainer cfg sec pos n).1)) := by
  simp only [parseContainer, parseSectionMapping] at h ⊢
  split at h
  · rename_i hk
    simp only [hk, ↓reduceIte]
    exact (parseString_leaf _ _ v hv h).mono (by simp [containerStrs])
  · rename_i hk
    simp only [hk, ↓reduceIte]
    simp only [append_nil_iff] at h
    obtain ⟨k, hk⟩ := sect_leaves cfg _ n true (containerKey cfg sec) _ v hv containerK h.1 h.2
      (fun kv st hvk hc => containerKey_store cfg sec st kv v hvk hc) (containerK_pres cfg sec)
    exact hk.mono (containerK_sub k _)

/-! ### positions that take one `${{ }}` in place of a collection: `services`, `runs-on`, `runs-on.labels` -/

theorem isExprAssigned_empty : AL.Yaml.isExprAssigned "" = false := by decide

theorem mayParseExpression_some (x : Node) (e : Str) (h : mayParseExpression x = some e) : e = newString x := by
  simp only [mayParseExpression] at h
  split at h
  · cases h
  · split at h
    · cases h
    · exact (Option.some.inj h).symm

theorem mayParseExpression_coll (x : Node) (hk : x.kind ≠ .scalar) (hok : (x.kind = .scalar || x.value = "") = true) :
    mayParseExpression x = none := by
  have hv : x.value = "" := by simpa [hk] using hok
  simp only [mayParseExpression, hv, isExprAssigned_empty]
  split <;> rfl

theorem mem_exprPos {x v : Node} {l : List Node} (h : v ∈ exprPos x l) : v ∈ l ∧ (x.kind = .scalar || x.value = "") = true := by
  simp only [exprPos] at h
  split at h
  · exact ⟨h, by assumption⟩
  · cases h

/-! ### `services:` -/

theorem parseServices_leaf (cfg : Cfg) (n : Node) (v : Node) (hv : v ∈ servicesScalars n) (h : (parseServices cfg n).2 = []) :
    Rep v (servicesStrs (some (parseServices cfg n).1)) := by
  obtain ⟨hv, hok⟩ := mem_exprPos hv
  simp only [parseServices, parseSectionMapping] at h ⊢
  split at h
  · rename_i e he
    simp only [servicesStrs, Option.toList_some]
    refine Rep.left ?_
    rw [mayParseExpression_some n e he]
    have hk : n.kind = .scalar := by
      cases hk : n.kind <;> first | rfl | (rw [mayParseExpression_coll n (by simp [hk]) hok] at he; cases he)
    have hnn : n.isNull = false := by
      simp only [mayParseExpression] at he
      split at he
      · cases he
      · rename_i ht
        simp only [ne_eq, Decidable.not_not] at ht
        simp [Node.isNull, ht]
    simp only [mapScalars, hk, hnn] at hv
    simp only [reduceCtorEq, decide_false, Bool.or_self, Bool.false_eq_true, ↓reduceIte] at hv
    rw [leaves_scalar n hk, List.mem_singleton] at hv
    subst hv
    exact Rep.newString _
  · rename_i he
    simp only [servicesStrs]
    simp only [append_nil_iff] at h
    obtain ⟨kv, hkv, k, _, hvk⟩ := mapScalars_clean cfg _ n false false _ v hv h.1
    obtain ⟨h1, h2⟩ := mapKVs_clean _ _ h.2 kv hkv
    refine Rep.right ?_
    simp only [Option.getD_some]
    exact Rep.flatMap h2 (parseContainer_leaf cfg "services" _ _ v hvk h1)

/-! ### `runs-on:` -/

def runsOnK (k : String) (st : Runner) : List Str :=
  match k with
  | "labels" => (match st.labelsExpr with | some e => [e] | none => st.labels.getD [])
  | "group" => st.group.toList
  | _ => []

theorem runsOnK_pres (k : String) (st : Runner) (kv : KV) (hne : kv.id ≠ k) :
    ∀ s ∈ runsOnK k st, s ∈ runsOnK k (runsOnKey st kv).1 := by
  intro s hs
  simp only [runsOnKey]
  split
  all_goals (simp only [runsOnK] at hs ⊢; split at hs)
  all_goals first | exact hs | exact absurd ‹kv.id = _› hne | (split <;> exact hs)

theorem runsOnK_sub (k : String) (st : Runner) : ∀ s ∈ runsOnK k st, s ∈ runnerStrs (some st) := by
  intro s hs
  simp only [runsOnK] at hs
  simp only [runnerStrs, List.mem_append]
  split at hs
  · exact Or.inl hs
  · exact Or.inr hs
  · cases hs

/-- a scalar at a position that takes a string, a sequence of strings or one `${{ }}` -/
theorem exprOrStrings_leaf (sec : String) (n : Node) (v : Node) (hv : v ∈ leaves n) (hok : (n.kind = .scalar || n.value = "") = true)
    (hns : n.kind = .scalar ∨ n.kind = .sequence) :
    match mayParseExpression n with
    | some e => Rep v [e]
    | none => (parseStringOrStringSequence sec n false false).2 = [] →
        Rep v ((parseStringOrStringSequence sec n false false).1.getD []) := by
  split
  · rename_i e he
    rw [mayParseExpression_some n e he]
    have hk : n.kind = .scalar := by
      cases hk : n.kind <;> first | rfl | (rw [mayParseExpression_coll n (by simp [hk]) hok] at he; cases he)
    rw [leaves_scalar n hk, List.mem_singleton] at hv
    subst hv
    exact Rep.newString _
  · intro h
    exact parseStringOrStringSequence_leaf sec n false v hv h

theorem runsOnKey_labelsExpr (st : Runner) (kv : KV) (hne : kv.id ≠ "labels") :
    (runsOnKey st kv).1.labelsExpr = st.labelsExpr := by
  simp only [runsOnKey]
  split <;> first | rfl | exact absurd ‹kv.id = _› hne

theorem runsOnKey_store (st : Runner) (kv : KV) (v : Node) (hv : v ∈ runsOnKeyScalars kv.id kv.val)
    (hI : kv.id = "labels" → st.labelsExpr = none)
    (hc : (runsOnKey st kv).2 = []) : Rep v (runsOnK kv.id (runsOnKey st kv).1) := by
  revert hc
  simp only [runsOnKey]
  split
  next h =>
    simp only [h, runsOnKeyScalars] at hv
    obtain ⟨hv, hok⟩ := mem_exprPos hv
    simp only [h, runsOnK]
    split
    · rename_i e he
      intro _
      simp only
      rw [mayParseExpression_some _ e he]
      have hk : kv.val.kind = .scalar := by
        cases hk : kv.val.kind <;> first | rfl | (rw [mayParseExpression_coll kv.val (by simp [hk]) hok] at he; cases he)
      rw [leaves_scalar _ hk, List.mem_singleton] at hv
      subst hv
      exact Rep.newString _
    · intro hc
      simp only [hI h]
      exact parseStringOrStringSequence_leaf _ _ _ v hv hc
  next h =>
    intro hc; simp only [h, runsOnKeyScalars] at hv; simp only [h, runsOnK]
    exact (parseString_leaf _ _ v hv hc).mono (by simp)
  next => intro hc; simp at hc

theorem parseRunsOn_leaf (cfg : Cfg) (n : Node) (v : Node) (hv : v ∈ runsOnScalars n) (h : (parseRunsOn cfg n).2 = []) :
    Rep v (runnerStrs (some (parseRunsOn cfg n).1)) := by
  obtain ⟨hv, hok⟩ := mem_exprPos hv
  simp only [parseRunsOn, parseSectionMapping] at h ⊢
  split at h
  · rename_i e he
    simp only [runnerStrs]
    refine Rep.left ?_
    rw [mayParseExpression_some n e he]
    have hk : n.kind = .scalar := by
      cases hk : n.kind <;> first | rfl | (rw [mayParseExpression_coll n (by simp [hk]) hok] at he; cases he)
    simp only [hk, reduceCtorEq, ↓reduceIte] at hv
    rw [leaves_scalar n hk, List.mem_singleton] at hv
    subst hv
    exact Rep.newString _
  · rename_i he
    split at h
    · rename_i hk
      simp only [hk, ↓reduceIte, runnerStrs]
      have hnm : n.kind ≠ .mapping := by
        simp only [Bool.or_eq_true, decide_eq_true_eq] at hk
        rcases hk with hk | hk <;> simp [hk]
      simp only [hnm, ↓reduceIte] at hv
      exact (parseStringOrStringSequence_leaf _ _ _ v hv h).left
    · rename_i hk
      simp only [hk]
      simp only [append_nil_iff] at h
      have hm := parseMapping_clean_notnull cfg _ n true h.1
      simp only [hm, ↓reduceIte] at hv
      obtain ⟨k, hk⟩ := sect_keyed cfg _ n false true runsOnKey _ runsOnKeyScalars v hv
        (fun k st => k = "labels" → st.labelsExpr = none) (fun k st => Rep v (runsOnK k st)) (fun _ _ => rfl) h.1 h.2
        (by
          intro kv k hid hvk
          have := hid rfl
          subst this
          refine ⟨?_, fun st hI hc => runsOnKey_store st kv v hvk hI hc, fun st kv' hne hq _ => hq.mono (runsOnK_pres kv.id st kv' hne)⟩
          intro st kv' hne hI hl
          rw [runsOnKey_labelsExpr st kv' (by rw [← hl]; exact hne)]
          exact hI hl)
      exact hk.mono (runsOnK_sub k _)

end AL.C03P
