import AL.Props.C14Wf
import AL.Model.ProjLint
/-
  Lemmas for AL.Props.C14Doc, part 6: the caches of the project case. Whatever was looked up before, a spec whose file
  decodes to the interface `m` is answered with `m` (`CallInv`, `answer_found`; `ActInv`, `action_answer_found`), so every
  job that calls it gets `checkLocal m …` (`simulateJobs_wc`) and every step that uses it gets `inputDiags m …`
  (`simulate_action_mem` / `simulate_action_only`).
-/
namespace AL.C14D
open AL AL.Ast AL.CallMeta

/-! ## reusable workflows: `AL.ProjCall` -/

section Call
open AL.ProjCall

theorem cacheGet_put (c : Cache) (s t : String) (v : Option Meta) :
    cacheGet (cachePut c s v) t = if s = t then some v else cacheGet c t := by
  simp only [cacheGet, cachePut, List.find?_cons]
  by_cases h : s = t
  · simp [h]
  · simp [h]

/-- what the cache says about `spec`: nothing yet, or the interface on disk -/
def CallInv (spec : String) (m : Meta) (c : Cache) : Prop := cacheGet c spec = none ∨ cacheGet c spec = some (some m)

variable {env : AL.ProjCall.Env} {spec : String} {m : Meta}

theorem remember_inv (hd : env.disk spec = .ok m) (c : Cache) (s : String) (h : CallInv spec m c) : CallInv spec m (remember env c s) := by
  simp only [remember]
  split
  · exact h
  · split
    · exact h
    · by_cases hs : s = spec
      · subst hs
        right
        rw [cacheGet_put]
        simp [diskEntry, hd]
      · simp only [CallInv, cacheGet_put, hs, if_false]
        exact h

theorem put_none_inv (c : Cache) (s : String) (hs : s ≠ spec) (h : CallInv spec m c) : CallInv spec m (cachePut c s none) := by
  simp only [CallInv, cacheGet_put, hs, if_false]
  exact h

theorem wcJob_inv (hd : env.disk spec = .ok m) (hloc : AL.Rules.isLocalCallFormat spec = true) (c : Cache) (j : Job)
    (h : CallInv spec m c) : CallInv spec m (wcJob env c j).1 := by
  simp only [wcJob]
  split
  · exact h
  · split
    · exact h
    · rename_i call _ u _
      simp only [wcUses]
      split
      · exact h
      · split
        · exact remember_inv hd c _ h
        · rename_i hnl
          split
          · exact h
          · split
            · apply put_none_inv _ _ _ h
              intro e
              rw [e] at hnl
              exact hnl hloc
            · exact h

theorem needsStep_inv (hd : env.disk spec = .ok m) (lower : String → String) (jobs : List (String × Job)) (job : Job)
    (acc : NeedsOut × List String) (id : Str) (h : CallInv spec m acc.1.cache) :
    CallInv spec m (needsStep env lower jobs job acc id).1.cache := by
  simp only [needsStep]
  split
  · exact h
  · split
    · exact h
    · split
      · exact h
      · split
        · exact h
        · split
          · exact h
          · exact remember_inv hd _ _ h

theorem needsLookups_inv (hd : env.disk spec = .ok m) (lower : String → String) (jobs : List (String × Job)) (job : Job) (c : Cache)
    (h : CallInv spec m c) : CallInv spec m (needsLookups env lower jobs job c).cache := by
  simp only [needsLookups]
  have : ∀ (ids : List Str) (acc : NeedsOut × List String), CallInv spec m acc.1.cache →
      CallInv spec m (ids.foldl (needsStep env lower jobs job) acc).1.cache := by
    intro ids
    induction ids with
    | nil => intro acc h; exact h
    | cons id rest ih => intro acc h; exact ih _ (needsStep_inv hd lower jobs job acc id h)
  exact this _ _ h

theorem callLookup_inv (hd : env.disk spec = .ok m) (job : Job) (c : Cache) (h : CallInv spec m c) :
    CallInv spec m (callLookup env job c).cache := by
  simp only [callLookup]
  split
  · exact h
  · split
    · exact h
    · exact remember_inv hd _ _ h

/-- a spec that is not skipped and whose file decodes is answered with the decoded interface, whatever was looked up before -/
theorem answer_found (hd : env.disk spec = .ok m) (hskip : skipped env spec = false) (c : Cache) (h : CallInv spec m c) :
    answer env c spec = .found m := by
  simp only [answer, hskip, Bool.false_eq_true, if_false]
  rcases h with h | h
  · simp [h, diskAnswer, hd]
  · simp [h]

/-- **a job that calls `spec`** gets `checkLocal` of the interface on disk -/
theorem wcJob_checks (hd : env.disk spec = .ok m) (hskip : skipped env spec = false) (hloc : AL.Rules.isLocalCallFormat spec = true)
    (c : Cache) (h : CallInv spec m c) (j : Job) (call : WorkflowCall) (u : Str) (hj : j.workflowCall = some call)
    (hu : call.uses = some u) (hv : u.value = spec) (hne : (u.value = "" || AL.Rules.containsExpr u) = false) :
    (wcJob env c j).2 = checkLocal m call u := by
  subst hv
  simp [wcJob, hj, hu, wcUses, hne, hloc, find, answer_found hd hskip c h, wcFound]

theorem simulateJobs_wc (hd : env.disk spec = .ok m) (hloc : AL.Rules.isLocalCallFormat spec = true) (lower : String → String)
    (jobs : List (String × Job)) : ∀ (rest : List (String × Job)) (c : Cache), CallInv spec m c →
    (∀ p ∈ rest, ∃ v ∈ simulateJobs env lower jobs rest c, v.1 = p.2.id.value ∧
        ∃ c', CallInv spec m c' ∧ v.2.wc = (wcJob env c' p.2).2) ∧
    (∀ v ∈ simulateJobs env lower jobs rest c, ∃ p ∈ rest, v.1 = p.2.id.value ∧
        ∃ c', CallInv spec m c' ∧ v.2.wc = (wcJob env c' p.2).2)
  | [], _, _ => ⟨fun p hp => (by cases hp), fun v hv => (by simp [simulateJobs] at hv)⟩
  | (k, j) :: rest, c, h => by
    have h1 := wcJob_inv hd hloc c j h
    have h2 := needsLookups_inv hd lower jobs j _ h1
    have h3 := callLookup_inv hd j _ h2
    obtain ⟨ih1, ih2⟩ := simulateJobs_wc hd hloc lower jobs rest _ h3
    simp only [simulateJobs]
    refine ⟨?_, ?_⟩
    · intro p hp
      rcases List.mem_cons.1 hp with rfl | hp
      · exact ⟨_, List.mem_cons_self .., rfl, c, h, rfl⟩
      · obtain ⟨v, hv, hh⟩ := ih1 p hp
        exact ⟨v, List.mem_cons_of_mem _ hv, hh⟩
    · intro v hv
      rcases List.mem_cons.1 hv with rfl | hv
      · exact ⟨(k, j), List.mem_cons_self .., rfl, c, h, rfl⟩
      · obtain ⟨p, hp, hh⟩ := ih2 v hv
        exact ⟨p, List.mem_cons_of_mem _ hp, hh⟩

theorem initialCache_inv (hself : env.self ≠ some spec) (w : Workflow) : CallInv spec m (initialCache env w) := by
  simp only [initialCache]
  split
  · rename_i s m' _ hs _
    left
    have : s ≠ spec := fun e => hself (by rw [hs, e])
    simp [cacheGet, this]
  · left; rfl

end Call

/-! ## local actions: `AL.ProjAction` -/

section Action
open AL.ProjAction

theorem actCacheGet_cons (c : AL.ProjAction.Cache) (s t : String) (v : Option ActionMeta) :
    AL.ProjAction.cacheGet ((s, v) :: c) t = if s = t then some v else AL.ProjAction.cacheGet c t := by
  simp only [AL.ProjAction.cacheGet, List.find?_cons]
  by_cases h : s = t
  · simp [h]
  · simp [h]

def ActInv (spec : String) (m : ActionMeta) (c : AL.ProjAction.Cache) : Prop :=
  AL.ProjAction.cacheGet c spec = none ∨ AL.ProjAction.cacheGet c spec = some (some m)

variable {env : AL.ProjAction.Env} {spec : String} {m : ActionMeta}

theorem act_remember_inv (hd : env.disk spec = .ok m) (c : AL.ProjAction.Cache) (s : String) (h : ActInv spec m c) :
    ActInv spec m (AL.ProjAction.remember env c s) := by
  simp only [AL.ProjAction.remember]
  split
  · exact h
  · split
    · exact h
    · by_cases hs : s = spec
      · subst hs
        right
        rw [actCacheGet_cons]
        simp [hd]
      · simp only [ActInv, actCacheGet_cons, hs, if_false]
        exact h

theorem actionStep_inv (hd : env.disk spec = .ok m) (c : AL.ProjAction.Cache) (st : Step) (h : ActInv spec m c) :
    ActInv spec m (actionStep env c st).1 := by
  simp only [actionStep]
  split
  · split
    · exact h
    · split
      · exact h
      · split
        · exact act_remember_inv hd _ _ h
        · exact h
  · exact h

theorem exprStep_inv (hd : env.disk spec = .ok m) (c : AL.ProjAction.Cache) (st : Step) (h : ActInv spec m c) :
    ActInv spec m (exprStep env c st).1 := by
  simp only [exprStep]
  split
  · split
    · exact h
    · split
      · exact act_remember_inv hd _ _ h
      · exact h
  · exact h

/-- a local action whose metadata file decodes is answered with the metadata, whatever was looked up before -/
theorem action_answer_found (hd : env.disk spec = .ok m) (hp : env.hasProject = true) (hs : spec.startsWith "./" = true)
    (c : AL.ProjAction.Cache) (h : ActInv spec m c) : ∃ cached, AL.ProjAction.answer env c spec = .found m cached := by
  simp only [AL.ProjAction.answer, hp, hs, Bool.not_true, Bool.or_self, Bool.false_eq_true, if_false]
  rcases h with h | h
  · exact ⟨false, by simp [h, hd]⟩
  · exact ⟨true, by simp [h]⟩

/-- **a step that uses the local action `spec`**: the metadata checks (where the action is used first) followed by exactly
`inputDiags` of the metadata on disk -/
theorem actionStep_checks (hd : env.disk spec = .ok m) (hp : env.hasProject = true) (hs : spec.startsWith "./" = true)
    (c : AL.ProjAction.Cache) (h : ActInv spec m c) (st : Step) (e : ExecAction) (u : Str) (he : st.exec = .action e)
    (hu : e.uses = some u) (hv : u.value = spec) (hne : AL.Rules.containsExpr u = false) :
    ∃ pre, (actionStep env c st).2 = pre ++ inputDiags m spec e u.pos ∧ (pre = [] ∨ pre = metadataDiags env m u.pos) := by
  subst hv
  obtain ⟨cached, ha⟩ := action_answer_found hd hp hs c h
  simp only [actionStep, he, hu, hne, Bool.false_eq_true, if_false, hs, if_true, ha, localStep]
  cases cached
  · exact ⟨_, rfl, Or.inr rfl⟩
  · exact ⟨[], by simp, Or.inl rfl⟩

theorem stepsLoop_action (hd : env.disk spec = .ok m) : ∀ (steps : List Step) (o : Out), ActInv spec m o.cache →
    ActInv spec m (stepsLoop env steps o).cache ∧
    ∃ L, (stepsLoop env steps o).action = o.action ++ L ∧
      (∀ st ∈ steps, ∃ c', ActInv spec m c' ∧ ∀ dg ∈ (actionStep env c' st).2, dg ∈ L) ∧
      (∀ dg ∈ L, ∃ st ∈ steps, ∃ c', ActInv spec m c' ∧ dg ∈ (actionStep env c' st).2)
  | [], o, h => ⟨h, [], (by simp [stepsLoop]), fun st hst => (by cases hst), fun dg hdg => (by cases hdg)⟩
  | st :: rest, o, h => by
    have h1 := actionStep_inv hd o.cache st h
    have h2 := exprStep_inv hd _ st h1
    obtain ⟨ih0, L, ihe, ih1, ih2⟩ := stepsLoop_action hd rest
      { cache := (exprStep env (actionStep env o.cache st).1 st).1, action := o.action ++ (actionStep env o.cache st).2,
        expr := o.expr ++ (exprStep env (actionStep env o.cache st).1 st).2 } h2
    simp only [stepsLoop]
    refine ⟨ih0, (actionStep env o.cache st).2 ++ L, by rw [ihe, List.append_assoc], ?_, ?_⟩
    · intro s hs
      rcases List.mem_cons.1 hs with rfl | hs
      · exact ⟨o.cache, h, fun dg hdg => List.mem_append_left _ hdg⟩
      · obtain ⟨c', hc', hh⟩ := ih1 s hs
        exact ⟨c', hc', fun dg hdg => List.mem_append_right _ (hh dg hdg)⟩
    · intro dg hdg
      rcases List.mem_append.1 hdg with hdg | hdg
      · exact ⟨st, List.mem_cons_self .., o.cache, h, hdg⟩
      · obtain ⟨s, hs, hh⟩ := ih2 dg hdg
        exact ⟨s, List.mem_cons_of_mem _ hs, hh⟩

theorem simulate_action (hd : env.disk spec = .ok m) (w : Workflow) :
    (∀ j ∈ AL.Rules.jobsOf w, ∀ st ∈ AL.Rules.stepsOf j, ∃ c', ActInv spec m c' ∧
        ∀ dg ∈ (actionStep env c' st).2, dg ∈ (AL.ProjAction.simulate env w).action) ∧
    (∀ dg ∈ (AL.ProjAction.simulate env w).action, ∃ j ∈ AL.Rules.jobsOf w, ∃ st ∈ AL.Rules.stepsOf j, ∃ c', ActInv spec m c' ∧
        dg ∈ (actionStep env c' st).2) := by
  simp only [AL.ProjAction.simulate]
  have : ∀ (js : List Job) (o : Out), ActInv spec m o.cache →
      ActInv spec m (js.foldl (fun o j => stepsLoop env (AL.Rules.stepsOf j) o) o).cache ∧
      ∃ L, (js.foldl (fun o j => stepsLoop env (AL.Rules.stepsOf j) o) o).action = o.action ++ L ∧
        (∀ j ∈ js, ∀ st ∈ AL.Rules.stepsOf j, ∃ c', ActInv spec m c' ∧ ∀ dg ∈ (actionStep env c' st).2, dg ∈ L) ∧
        (∀ dg ∈ L, ∃ j ∈ js, ∃ st ∈ AL.Rules.stepsOf j, ∃ c', ActInv spec m c' ∧ dg ∈ (actionStep env c' st).2) := by
    intro js
    induction js with
    | nil => intro o h; exact ⟨h, [], (by simp), fun j hj => (by cases hj), fun dg hdg => (by cases hdg)⟩
    | cons j rest ih =>
      intro o h
      obtain ⟨s0, L1, se, s1, s2⟩ := stepsLoop_action hd (AL.Rules.stepsOf j) o h
      obtain ⟨i0, L2, ie, i1, i2⟩ := ih _ s0
      simp only [List.foldl_cons]
      refine ⟨i0, L1 ++ L2, by rw [ie, se, List.append_assoc], ?_, ?_⟩
      · intro j' hj' st hst
        rcases List.mem_cons.1 hj' with rfl | hj'
        · obtain ⟨c', hc', hh⟩ := s1 st hst
          exact ⟨c', hc', fun dg hdg => List.mem_append_left _ (hh dg hdg)⟩
        · obtain ⟨c', hc', hh⟩ := i1 j' hj' st hst
          exact ⟨c', hc', fun dg hdg => List.mem_append_right _ (hh dg hdg)⟩
      · intro dg hdg
        rcases List.mem_append.1 hdg with hdg | hdg
        · obtain ⟨st, hst, hh⟩ := s2 dg hdg
          exact ⟨j, List.mem_cons_self .., st, hst, hh⟩
        · obtain ⟨j', hj', hh⟩ := i2 dg hdg
          exact ⟨j', List.mem_cons_of_mem _ hj', hh⟩
  obtain ⟨_, L, he, h1, h2⟩ := this (AL.Rules.jobsOf w) {} (Or.inl rfl)
  have he' : (List.foldl (fun o j => stepsLoop env (AL.Rules.stepsOf j) o) {} (AL.Rules.jobsOf w)).action = L := by
    rw [he]; rfl
  rw [he']
  exact ⟨h1, h2⟩

end Action

end AL.C14D

/-! ## `needs.<job>.outputs`: what `calcNeedsType` finds for a needed job that calls `spec` -/

namespace AL.C14D
open AL AL.Ast AL.CallMeta AL.ProjCall

theorem lookup_append_of_some (k : String) (v : Ty) : ∀ (a b : List (String × Ty)), Ty.lookup k a = some v → Ty.lookup k (a ++ b) = some v
  | [], _, h => by simp [Ty.lookup] at h
  | (k', v') :: rest, b, h => by
    simp only [List.cons_append, Ty.lookup] at h ⊢
    split
    · rename_i hk; simpa [hk] using h
    · rename_i hk; simp only [hk, if_false] at h; exact lookup_append_of_some k v rest b h

theorem lookup_append_of_absent (k : String) : ∀ (a b : List (String × Ty)), (∀ p ∈ a, p.1 ≠ k) → Ty.lookup k (a ++ b) = Ty.lookup k b
  | [], _, _ => rfl
  | (k', v') :: rest, b, h => by
    have hk : k' ≠ k := h (k', v') (List.mem_cons_self ..)
    simp only [List.cons_append, Ty.lookup, hk, if_false]
    exact lookup_append_of_absent k rest b (fun p hp => h p (List.mem_cons_of_mem _ hp))

section Needs
variable {env : AL.ProjCall.Env} {spec : String} {m : Meta}

/-- the invariant of the loop over `needs:` as far as the needed job `i` is concerned -/
structure NeedsInv (spec : String) (m : Meta) (i : String) (acc : NeedsOut × List String) : Prop where
  cache : CallInv spec m acc.1.cache
  keys : ∀ p ∈ acc.1.outs, p.1 ∈ acc.2
  found : i ∈ acc.2 → Ty.lookup i acc.1.outs = some (outputsTy m)

theorem needsStep_needsInv (hd : env.disk spec = .ok m) (hskip : skipped env spec = false) (lower : String → String)
    (jobs : List (String × Job)) (job : Job) (i : String) (j : Job) (call : WorkflowCall) (u : Str)
    (hj : AL.RuleExpr.lookupJob i jobs = some j) (hw : j.workflowCall = some call) (hu : call.uses = some u) (hv : u.value = spec)
    (acc : NeedsOut × List String) (id : Str) (h : NeedsInv spec m i acc) :
    NeedsInv spec m i (needsStep env lower jobs job acc id) ∧
    (i ∈ acc.2 → i ∈ (needsStep env lower jobs job acc id).2) ∧
    (lower id.value = i → i ≠ lower job.id.value → i ∈ (needsStep env lower jobs job acc id).2) := by
  simp only [needsStep]
  split
  · rename_i hself
    exact ⟨h, fun x => x, fun e hne => absurd (e ▸ hself) hne⟩
  · split
    · rename_i hseen
      refine ⟨h, fun x => x, fun e _ => ?_⟩
      rw [← e]
      simpa using hseen
    · rename_i hns
      have hns' : lower id.value ∉ acc.2 := by simpa using hns
      split
      · rename_i hl
        refine ⟨h, fun x => x, fun e _ => ?_⟩
        rw [e, hj] at hl
        cases hl
      · rename_i j' hl
        split
        · rename_i hnc
          refine ⟨⟨h.cache, fun p hp => List.mem_append_left _ (h.keys p hp), fun hi => ?_⟩,
            fun hi => List.mem_append_left _ hi, fun e _ => ?_⟩
          · rcases List.mem_append.1 hi with hi | hi
            · exact h.found hi
            · exfalso
              simp only [List.mem_singleton] at hi
              rw [← hi, hj] at hl
              cases hl
              rw [hw] at hnc
              cases hnc
          · rw [← e]; simp
        · rename_i call' hc'
          split
          · rename_i hnu
            refine ⟨⟨h.cache, fun p hp => List.mem_append_left _ (h.keys p hp), fun hi => ?_⟩,
              fun hi => List.mem_append_left _ hi, fun e _ => ?_⟩
            · rcases List.mem_append.1 hi with hi | hi
              · exact h.found hi
              · exfalso
                simp only [List.mem_singleton] at hi
                rw [← hi, hj] at hl
                cases hl
                rw [hw] at hc'
                cases hc'
                rw [hu] at hnu
                cases hnu
            · rw [← e]; simp
          · rename_i u' hu'
            refine ⟨⟨remember_inv hd _ _ h.cache, ?_, ?_⟩, fun hi => List.mem_append_left _ hi, fun e _ => by rw [← e]; simp⟩
            · intro p hp
              simp only at hp
              rcases List.mem_append.1 hp with hp | hp
              · exact List.mem_append_left _ (h.keys p hp)
              · simp only [outsFound] at hp
                split at hp
                · simp only [List.mem_singleton] at hp
                  subst hp
                  simp
                · cases hp
            · intro hi
              simp only
              rcases List.mem_append.1 hi with hi | hi
              · exact lookup_append_of_some _ _ _ _ (h.found hi)
              · have hie : i = lower id.value := by simpa using hi
                have habs : ∀ p ∈ acc.1.outs, p.1 ≠ i := by
                  intro p hp e
                  exact hns' (by rw [← hie, ← e]; exact h.keys p hp)
                rw [lookup_append_of_absent _ _ _ habs]
                rw [← hie, hj] at hl
                cases hl
                rw [hw] at hc'
                cases hc'
                rw [hu] at hu'
                cases hu'
                simp only [find, hv, answer_found hd hskip _ h.cache, outsFound, Ty.lookup]
                rw [if_pos hie.symm]

/-- **`calcNeedsType`**: a needed job `i` (other than the job itself) that calls `spec` gets the outputs type of the interface
on disk -/
theorem needsLookups_outs (hd : env.disk spec = .ok m) (hskip : skipped env spec = false) (lower : String → String)
    (jobs : List (String × Job)) (job : Job) (c : Cache) (hc : CallInv spec m c) (i : String) (j : Job) (call : WorkflowCall) (u : Str)
    (hin : i ∈ (job.needs.getD []).map (fun id => lower id.value)) (hself : i ≠ lower job.id.value)
    (hj : AL.RuleExpr.lookupJob i jobs = some j) (hw : j.workflowCall = some call) (hu : call.uses = some u) (hv : u.value = spec) :
    Ty.lookup i (needsLookups env lower jobs job c).outs = some (outputsTy m) := by
  simp only [needsLookups]
  have key : ∀ (ids : List Str) (acc : NeedsOut × List String), NeedsInv spec m i acc →
      NeedsInv spec m i (ids.foldl (needsStep env lower jobs job) acc) ∧
      (i ∈ acc.2 ∨ i ∈ ids.map (fun id => lower id.value) → i ∈ (ids.foldl (needsStep env lower jobs job) acc).2) := by
    intro ids
    induction ids with
    | nil => intro acc h; exact ⟨h, fun hi => hi.elim id (fun h' => by simp at h')⟩
    | cons id rest ih =>
      intro acc h
      obtain ⟨h1, h2, h3⟩ := needsStep_needsInv hd hskip lower jobs job i j call u hj hw hu hv acc id h
      obtain ⟨i1, i2⟩ := ih _ h1
      refine ⟨i1, fun hi => i2 ?_⟩
      rcases hi with hi | hi
      · exact Or.inl (h2 hi)
      · simp only [List.map_cons, List.mem_cons] at hi
        rcases hi with hi | hi
        · exact Or.inl (h3 hi.symm hself)
        · exact Or.inr hi
  obtain ⟨k1, k2⟩ := key (job.needs.getD []) (({ cache := c } : NeedsOut), ([] : List String))
    ⟨hc, fun p hp => (by cases hp), fun hi => (by cases hi)⟩
  exact k1.found (k2 (Or.inr hin))

/-- the simulation, job by job: the ids are the jobs' ids, and the `outs` of a job are what `calcNeedsType` looks up after
rule workflow-call ran on the job -/
theorem simulateJobs_outs (hd : env.disk spec = .ok m) (hloc : AL.Rules.isLocalCallFormat spec = true) (lower : String → String)
    (jobs : List (String × Job)) : ∀ (rest : List (String × Job)) (c : Cache), CallInv spec m c →
    (simulateJobs env lower jobs rest c).map (·.1) = rest.map (·.2.id.value) ∧
    ∀ p ∈ rest, ∃ v ∈ simulateJobs env lower jobs rest c, v.1 = p.2.id.value ∧
        ∃ c', CallInv spec m c' ∧ v.2.outs = (needsLookups env lower jobs p.2 c').outs
  | [], _, _ => ⟨rfl, fun p hp => (by cases hp)⟩
  | (k, j) :: rest, c, h => by
    have h1 := wcJob_inv hd hloc c j h
    have h2 := needsLookups_inv hd lower jobs j _ h1
    have h3 := callLookup_inv hd j _ h2
    obtain ⟨ih1, ih2⟩ := simulateJobs_outs hd hloc lower jobs rest _ h3
    simp only [simulateJobs]
    refine ⟨by simp only [List.map_cons, ih1], ?_⟩
    intro p hp
    rcases List.mem_cons.1 hp with rfl | hp
    · exact ⟨_, List.mem_cons_self .., rfl, _, h1, rfl⟩
    · obtain ⟨v, hv, hh⟩ := ih2 p hp
      exact ⟨v, List.mem_cons_of_mem _ hv, hh⟩

end Needs
end AL.C14D
