import AL.Props.C14Wf
import AL.Lemmas.C03PBase
/-
  Lemmas for AL.Props.C14Doc, part 1: the two loops of a section parser on a mapping the parser accepts WITHOUT a
  diagnostic, as plain functions of the key/value pairs of the node:

  * `parseMapping_clean_eq` — `parseMapping` returns one entry per pair, in order: the id is the key (folded in a
    case-insensitive mapping), the key string is the key node, the value is the value node; the ids are pairwise distinct;
  * `loop_field_clean` — a field of the loop state that only the iteration of ONE id writes ends up as what that iteration
    wrote (or as it was, when the mapping has no such key);
  * `valueOf` — the document-side reader: the value under the first key spelled `name`.
-/
namespace AL.C14D
open AL.Yaml AL.PW AL.Ast

/-! ### the document-side reader of one mapping -/

/-- the value under the first key spelled `name` -/
def valueOf (name : String) : List (Node × Node) → Option Node
  | [] => none
  | (k, v) :: rest => if k.value = name then some v else valueOf name rest

/-- the value under the key `name` of a mapping node (`none` for a node that is not a mapping) -/
def attr (name : String) (n : Node) : Option Node := if n.kind = .mapping then valueOf name (pairs n.content) else none

theorem valueOf_mem {name : String} : ∀ {l : List (Node × Node)} {v : Node}, valueOf name l = some v →
    ∃ k, (k, v) ∈ l ∧ k.value = name
  | [], _, h => by simp [valueOf] at h
  | (k, x) :: rest, v, h => by
    simp only [valueOf] at h
    split at h
    · rename_i hk
      simp only [Option.some.injEq] at h
      subst h
      exact ⟨k, List.mem_cons_self .., hk⟩
    · obtain ⟨k', hm, hk'⟩ := valueOf_mem h
      exact ⟨k', List.mem_cons_of_mem _ hm, hk'⟩

theorem valueOf_none {name : String} : ∀ {l : List (Node × Node)}, valueOf name l = none → ∀ q ∈ l, q.1.value ≠ name
  | [], _, q, hq => by cases hq
  | (k, x) :: rest, h, q, hq => by
    simp only [valueOf] at h
    split at h
    · cases h
    · rename_i hk
      rcases List.mem_cons.1 hq with rfl | hq
      · exact hk
      · exact valueOf_none h q hq

/-- with pairwise distinct key texts, "the first" is "the" -/
theorem valueOf_of_mem {name : String} : ∀ {l : List (Node × Node)} {k v : Node}, (l.map (·.1.value)).Nodup → (k, v) ∈ l →
    k.value = name → valueOf name l = some v
  | [], _, _, _, hm, _ => by cases hm
  | (k', x) :: rest, k, v, hnd, hm, hk => by
    simp only [List.map_cons, List.nodup_cons, List.mem_map, not_exists, not_and] at hnd
    simp only [valueOf]
    rcases List.mem_cons.1 hm with h | h
    · cases h; simp [hk]
    · have : k'.value ≠ name := by
        intro e
        exact hnd.1 (k, v) h (by simp [hk, e])
      simp only [this, if_false]
      exact valueOf_of_mem hnd.2 h hk

/-! ### `parseMapping`, clean: the list of entries -/

/-- the entry `parseMapping` makes of a pair -/
def mkKV (cfg : Cfg) (cs : Bool) (q : Node × Node) : KV := ⟨AL.C10M.idOf cfg cs q.1, newString q.1, q.2⟩

theorem mappingLoop_clean_eq (cfg : Cfg) (what : String) (cs : Bool) : ∀ (l : List (Node × Node)) (seen : List (String × Yaml.Pos)),
    (mappingLoop cfg what cs l seen).2 = [] → (mappingLoop cfg what cs l seen).1 = l.map (mkKV cfg cs) ∧
      ∀ q ∈ l, q.1.kind = .scalar ∧ q.1.value ≠ ""
  | [], _, _ => by simp [mappingLoop]
  | (k, v) :: rest, seen, h => by
    obtain ⟨hk, hv, _, he, hr⟩ := AL.C10M.mappingLoop_clean_cons cfg what cs k v rest seen h
    obtain ⟨ih1, ih2⟩ := mappingLoop_clean_eq cfg what cs rest _ hr
    refine ⟨?_, ?_⟩
    · rw [he, ih1]; rfl
    · intro q hq
      rcases List.mem_cons.1 hq with rfl | hq
      · exact ⟨hk, hv⟩
      · exact ih2 q hq

/-- **`parseMapping` on a mapping it accepts**: the node is a mapping or null, the entries are the pairs in order, their
ids are pairwise distinct, every key is a non-empty scalar -/
theorem parseMapping_clean_eq (cfg : Cfg) (what : String) (n : Node) (ae cs : Bool) (h : (parseMapping cfg what n ae cs).2 = []) :
    (n.kind = .mapping ∨ n.isNull = true) ∧
    (parseMapping cfg what n ae cs).1 = (pairs n.content).map (mkKV cfg cs) ∧
    (((pairs n.content).map (mkKV cfg cs)).map (·.id)).Nodup ∧
    (∀ q ∈ pairs n.content, q.1.kind = .scalar ∧ q.1.value ≠ "") ∧
    (ae = false → n.kind = .mapping ∧ pairs n.content ≠ []) := by
  have hnd := AL.C03P.parseMapping_nodup cfg what n ae cs
  have hkind := (AL.C03P.parseMapping_clean cfg what n ae cs h).1
  simp only [parseMapping] at h hnd ⊢
  split at h
  · simp at h
  · rename_i h1
    split at h
    · simp at h
    · rename_i h2
      simp only [h1, h2] at hnd ⊢
      simp only [AL.C03P.append_nil_iff] at h
      obtain ⟨he, hk⟩ := mappingLoop_clean_eq cfg what cs _ [] h.1
      rw [he] at hnd
      refine ⟨hkind, he, hnd, hk, ?_⟩
      intro hae
      subst hae
      simp only [Bool.not_false, Bool.true_and, Bool.not_eq_true] at h2
      have hm : n.kind = .mapping := by
        rcases hkind with hm | hn
        · exact hm
        · rw [hn] at h2; cases h2
      refine ⟨hm, ?_⟩
      intro hp
      have := h.2
      rw [he, hp] at this
      simp at this

theorem mkKV_id_cs (cfg : Cfg) (q : Node × Node) : (mkKV cfg true q).id = q.1.value := rfl
theorem mkKV_id_ci (cfg : Cfg) (q : Node × Node) : (mkKV cfg false q).id = cfg.lower q.1.value := rfl

/-- in a case-sensitive mapping, looking an id up among the entries is looking the key up among the pairs -/
theorem find_mkKV (cfg : Cfg) (name : String) : ∀ (l : List (Node × Node)),
    (l.map (mkKV cfg true)).find? (fun kv => kv.id = name) =
      match l.find? (fun q => q.1.value = name) with
      | some q => some (mkKV cfg true q)
      | none => none
  | [] => rfl
  | q :: rest => by
    simp only [List.map_cons, List.find?_cons, mkKV_id_cs]
    by_cases h : q.1.value = name
    · simp [h]
    · simp only [h, decide_false]
      exact find_mkKV cfg name rest

theorem find_pair_value (name : String) : ∀ (l : List (Node × Node)),
    (l.find? (fun q => q.1.value = name)).map (·.2) = valueOf name l
  | [] => rfl
  | (k, v) :: rest => by
    simp only [List.find?_cons, valueOf]
    by_cases h : k.value = name
    · simp [h]
    · simp only [h, decide_false, if_false]
      exact find_pair_value name rest

theorem find_pair_key (name : String) : ∀ (l : List (Node × Node)) (q : Node × Node),
    l.find? (fun q => q.1.value = name) = some q → q ∈ l ∧ q.1.value = name := by
  intro l q h
  exact ⟨List.mem_of_find?_eq_some h, by simpa using List.find?_some h⟩

/-! ### `loop`: a field written by the iteration of one id -/

variable {σ : Type}

/-- **a field of the loop state that only the iteration of the id `key` writes** (`hkeep`), and that iteration writes
`val old kv` (`hset`) — both asked of silent iterations only: after a silent loop over entries with pairwise distinct ids
the field is what the iteration of `key` wrote, or what it was when there is no such entry -/
theorem loop_field_clean {α : Type} (step : σ → KV → σ × List PErr) (get : σ → α) (key : String) (val : α → KV → α)
    (hset : ∀ st kv, kv.id = key → (step st kv).2 = [] → get (step st kv).1 = val (get st) kv)
    (hkeep : ∀ st kv, kv.id ≠ key → (step st kv).2 = [] → get (step st kv).1 = get st) :
    ∀ (kvs : List KV) (init : σ), (kvs.map (·.id)).Nodup → (loop step init kvs).2 = [] →
      get (loop step init kvs).1 = (kvs.find? (fun kv => kv.id = key)).elim (get init) (val (get init))
  | [], init, _, _ => rfl
  | kv :: rest, init, hnd, hc => by
    simp only [List.map_cons, List.nodup_cons, List.mem_map, not_exists, not_and] at hnd
    rw [AL.C03P.loop_clean_cons] at hc
    rw [AL.C03P.loop_cons_fst, loop_field_clean step get key val hset hkeep rest _ hnd.2 hc.2]
    by_cases hk : kv.id = key
    · have hnone : rest.find? (fun kv => kv.id = key) = none := by
        rw [List.find?_eq_none]
        intro x hx
        have := hnd.1 x hx
        simp only [decide_eq_true_eq]
        intro e
        exact this (by rw [e, hk])
      simp only [hnone, List.find?_cons, hk, decide_true, Option.elim]
      exact hset init kv hk hc.1
    · simp only [List.find?_cons, hk, decide_false]
      rw [hkeep init kv hk hc.1]

/-- every iteration of a silent loop is silent (in the state it runs in) -/
theorem loop_clean_mem (step : σ → KV → σ × List PErr) : ∀ (kvs : List KV) (init : σ), (loop step init kvs).2 = [] →
    ∀ kv ∈ kvs, ∃ st, (step st kv).2 = []
  | [], _, _, kv, hk => by cases hk
  | x :: rest, init, hc, kv, hk => by
    rw [AL.C03P.loop_clean_cons] at hc
    rcases List.mem_cons.1 hk with rfl | hk
    · exact ⟨init, hc.1⟩
    · exact loop_clean_mem step rest _ hc.2 kv hk

theorem mapKVs_fst {β : Type} (f : KV → R β) : ∀ (kvs : List KV), (mapKVs f kvs).1 = kvs.map fun kv => (kv.id, (f kv).1)
  | [] => rfl
  | kv :: rest => by simp only [mapKVs, List.map_cons, mapKVs_fst f rest]

theorem mapKVs_clean_all {β : Type} (f : KV → R β) (kvs : List KV) (h : (mapKVs f kvs).2 = []) : ∀ kv ∈ kvs, (f kv).2 = [] :=
  fun kv hk => (AL.C03P.mapKVs_clean f kvs h kv hk).1

/-! ### `put` on distinct keys is `append` -/

theorem foldl_put_distinct {α β : Type} (key : β → String) (val : β → α) : ∀ (l : List β) (m : List (String × α)),
    ((m.map (·.1)) ++ l.map key).Nodup →
    l.foldl (fun m x => AL.CallMeta.put m (key x) (val x)) m = m ++ l.map fun x => (key x, val x)
  | [], m, _ => by simp
  | x :: rest, m, h => by
    have hx : key x ∉ m.map (·.1) := by
      intro hm
      rw [List.nodup_append] at h
      exact h.2.2 _ hm _ (by simp) rfl
    have hput : AL.CallMeta.put m (key x) (val x) = m ++ [(key x, val x)] := by
      unfold AL.CallMeta.put
      have : m.any (fun e => decide (e.1 = key x)) = false := by
        rw [List.any_eq_false]
        intro e he
        simp only [decide_eq_true_eq]
        intro ee
        exact hx (List.mem_map.2 ⟨e, he, ee⟩)
      simp [this]
    simp only [List.foldl_cons, hput]
    rw [foldl_put_distinct key val rest]
    · simp
    · simpa [List.map_append, List.append_assoc] using h

end AL.C14D
