import AL.Lemmas.RenderMatch
/-
  C16 helper lemmas, part 4: inversion of the lazy searches (what a successful match tells about the
  input) and decidable checkers for the "no such infix" side conditions.
-/
namespace AL.Render

/-! ### decidable "no suffix starts with …" -/

/-- no non-empty suffix of `s` satisfies `p` -/
def noneStarts (p : List Char → Bool) : List Char → Bool
  | [] => true
  | c :: r => !p (c :: r) && noneStarts p r

theorem noneStarts_spec (p : List Char → Bool) : ∀ (s : List Char), noneStarts p s = true →
    ∀ a b, s = a ++ b → b ≠ [] → p b = false
  | [], _, a, b, hab, hb => by
    have : b = [] := by
      have := congrArg List.length hab
      simp at this
      exact List.eq_nil_of_length_eq_zero (by omega)
    exact absurd this hb
  | c :: r, h, a, b, hab, hb => by
    simp only [noneStarts, Bool.and_eq_true, Bool.not_eq_true'] at h
    cases a with
    | nil =>
      simp only [List.nil_append] at hab
      rw [← hab]; exact h.1
    | cons x a' =>
      simp only [List.cons_append, List.cons.injEq] at hab
      exact noneStarts_spec p r h.2 a' b hab.2 hb

/-- `s` starts with ` [` -/
def startsBracket : List Char → Bool
  | ' ' :: '[' :: _ => true
  | _ => false

/-- `s` starts with `:` and a digit -/
def startsColonDigit : List Char → Bool
  | ':' :: c :: _ => isDigit c
  | _ => false

/-- checker for "` [` does not occur after the first character" -/
def noInnerBracket (m : List Char) : Bool := noneStarts startsBracket m.tail

/-- checker for "no `:` is followed by a digit" -/
def noColonDigit (f : List Char) : Bool := noneStarts startsColonDigit f

theorem noInnerBracket_spec {m : List Char} (h : noInnerBracket m = true) :
    ∀ a b, m = a ++ ' ' :: '[' :: b → a = [] := by
  intro a b hab
  cases a with
  | nil => rfl
  | cons x a' =>
    have := noneStarts_spec startsBracket m.tail h a' (' ' :: '[' :: b) (by rw [hab]; rfl) (by simp)
    simp [startsBracket] at this

theorem noColonDigit_spec {f : List Char} (h : noColonDigit f = true) :
    ∀ a c b, f = a ++ ':' :: c :: b → isDigit c = false := by
  intro a c b hab
  have := noneStarts_spec startsColonDigit f h a (':' :: c :: b) hab (by simp)
  simpa [startsColonDigit] using this

/-! ### `sepPrefix` needs a `:` followed by a digit -/

theorem sepPrefix_colonDigit {s : List Char} (h : sepPrefix s = true) :
    ∃ c r, s = ':' :: c :: r ∧ isDigit c = true := by
  unfold sepPrefix at h
  cases hp : stage s with
  | none => simp [hp] at h
  | some p =>
    obtain ⟨hs, hne, hd, _⟩ := stage_some hp
    cases hp1 : p.1 with
    | nil => exact absurd hp1 hne
    | cons c r =>
      refine ⟨c, r ++ p.2, ?_, hd c (by rw [hp1]; simp)⟩
      rw [hs, hp1]; rfl

/-! ### inversion of `matchMsg` -/

theorem matchMsg_some : ∀ (s acc m k : List Char), matchMsg acc s = some (m, k) →
    ∃ m', m = acc ++ m' ∧ m' ≠ [] ∧ AllDot m' ∧ s = m' ++ ' ' :: '[' :: (k ++ [']']) ∧ k ≠ [] ∧ AllDot k ∧
      ∀ p1 p2, m' = p1 ++ p2 → p1 ≠ [] → p2 ≠ [] → matchKind (p2 ++ ' ' :: '[' :: (k ++ [']'])) = none
  | [], acc, m, k, h => by simp [matchMsg] at h
  | c :: s', acc, m, k, h => by
    rw [matchMsg] at h
    by_cases hc : dot c = true
    · simp only [hc, Bool.not_true, Bool.false_eq_true, if_false] at h
      cases hmk : matchKind s' with
      | some k' =>
        simp only [hmk, Option.some.injEq, Prod.mk.injEq] at h
        obtain ⟨rfl, rfl⟩ := h
        obtain ⟨hs', hk, hkd⟩ := matchKind_some hmk
        refine ⟨[c], rfl, by simp, (fun d hd => by simp only [List.mem_singleton] at hd; subst hd; exact hc), by rw [hs']; rfl, hk, hkd, ?_⟩
        intro p1 p2 hsplit hp1 hp2
        have hlen := congrArg List.length hsplit
        simp only [List.length_cons, List.length_nil, List.length_append] at hlen
        have : 0 < p1.length := List.length_pos_iff.mpr hp1
        have : 0 < p2.length := List.length_pos_iff.mpr hp2
        omega
      | none =>
        simp only [hmk] at h
        obtain ⟨m', hm, hm'ne, hm'd, hs', hk, hkd, hmin⟩ := matchMsg_some s' (acc ++ [c]) m k h
        refine ⟨c :: m', by rw [hm]; simp, by simp, ?_, by rw [hs']; rfl, hk, hkd, ?_⟩
        · intro d hd
          simp only [List.mem_cons] at hd
          rcases hd with rfl | hd
          · exact hc
          · exact hm'd d hd
        · intro p1 p2 hsplit hp1 hp2
          cases p1 with
          | nil => exact absurd rfl hp1
          | cons x p1' =>
            simp only [List.cons_append, List.cons.injEq] at hsplit
            obtain ⟨_, hsplit⟩ := hsplit
            by_cases hp1' : p1' = []
            · subst hp1'
              simp only [List.nil_append] at hsplit
              rw [← hsplit, ← hs']; exact hmk
            · exact hmin p1' p2 hsplit hp1' hp2
    · simp [hc] at h

/-! ### inversion of `matchFile` -/

theorem matchFile_some : ∀ (s acc f : List Char) (x : Nat × Nat × List Char × List Char),
    matchFile acc s = some (f, x) →
    ∃ pre rest, s = pre ++ rest ∧ pre ≠ [] ∧ f = acc ++ pre ∧ AllDot pre ∧ matchTail rest = some x ∧
      ∀ p1 p2, pre = p1 ++ p2 → p1 ≠ [] → p2 ≠ [] → matchTail (p2 ++ rest) = none
  | [], acc, f, x, h => by simp [matchFile] at h
  | c :: s', acc, f, x, h => by
    rw [matchFile] at h
    by_cases hc : dot c = true
    · simp only [hc, Bool.not_true, Bool.false_eq_true, if_false] at h
      cases hmt : matchTail s' with
      | some y =>
        obtain ⟨l, co, m, k⟩ := y
        simp only [hmt, Option.some.injEq, Prod.mk.injEq] at h
        obtain ⟨rfl, rfl⟩ := h
        refine ⟨[c], s', rfl, by simp, rfl, (fun d hd => by simp only [List.mem_singleton] at hd; subst hd; exact hc), hmt, ?_⟩
        intro p1 p2 hsplit hp1 hp2
        have hlen := congrArg List.length hsplit
        simp only [List.length_cons, List.length_nil, List.length_append] at hlen
        have : 0 < p1.length := List.length_pos_iff.mpr hp1
        have : 0 < p2.length := List.length_pos_iff.mpr hp2
        omega
      | none =>
        simp only [hmt] at h
        obtain ⟨pre, rest, hs', hpre, hf, hpd, hrest, hmin⟩ := matchFile_some s' (acc ++ [c]) f x h
        refine ⟨c :: pre, rest, by rw [hs']; rfl, by simp, by rw [hf]; simp, ?_, hrest, ?_⟩
        · intro d hd
          simp only [List.mem_cons] at hd
          rcases hd with rfl | hd
          · exact hc
          · exact hpd d hd
        · intro p1 p2 hsplit hp1 hp2
          cases p1 with
          | nil => exact absurd rfl hp1
          | cons y p1' =>
            simp only [List.cons_append, List.cons.injEq] at hsplit
            obtain ⟨_, hsplit⟩ := hsplit
            by_cases hp1' : p1' = []
            · subst hp1'
              simp only [List.nil_append] at hsplit
              rw [← hsplit, ← hs']; exact hmt
            · exact hmin p1' p2 hsplit hp1' hp2
    · simp [hc] at h

end AL.Render
