import AL.Lemmas.C08DFrame
/-
  From a section to the whole document: `Cong P ctx N Rel` — whenever two nodes `v`, `v'` are related by `Rel`, the parser
  `P` gives, on `ctx v` and `ctx v'`, results with the same normal form `N` and diagnostics at the same sites with the same
  codes. Edges compose (`Cong.trans`); every edge of the spine document → `jobs:` → job → `steps:` → step is a `Cong`
  because the loop bodies and the final checks carry alike states to alike states (`C08DFrame`).
-/
namespace AL.C08D
open AL.PW AL.Yaml AL.Ast AL.C13P AL.C13D AL.C13D3

def Cong {α α' : Type} (P : Node → R α) (ctx : Node → Node) (N : α → α') (Rel : Node → Node → Prop) : Prop :=
  ∀ v v', Rel v v' → Sim N (P (ctx v)) (P (ctx v'))

/-- "the sub-parser `Q` gives alike results" as a relation on nodes -/
def SimRel {β β' : Type} (Q : Node → R β) (N : β → β') (v v' : Node) : Prop := Sim N (Q v) (Q v')

theorem Cong.trans {α α' β β' : Type} {P : Node → R α} {Q : Node → R β} {c₁ c₂ : Node → Node} {N : α → α'} {M : β → β'}
    {Rel : Node → Node → Prop} (h₁ : Cong P c₁ N (SimRel Q M)) (h₂ : Cong Q c₂ M Rel) : Cong P (fun v => c₁ (c₂ v)) N Rel :=
  fun v v' h => h₁ _ _ (h₂ v v' h)

theorem Cong.refl {α α' : Type} (P : Node → R α) (N : α → α') : Cong P id N (SimRel P N) := fun _ _ h => h

/-- **the generic edge**: a section parser of the shape `Sect.run` on a mapping node, and the value of one of its keys (the first
with its id) -/
theorem Sect.cong {σ ρ σ' ρ' : Type} (S : Sect σ ρ) (cfg : Cfg) (what : String) (ae cs : Bool) (m : MapCtx)
    (Nσ : σ → σ') (Nρ : ρ → ρ') (Rel : Node → Node → Prop)
    (hfirst : ∀ q ∈ m.pre, keyId cfg cs q.1 ≠ keyId cfg cs m.key)
    (frame : ∀ s s' kv, Nσ s = Nσ s' → Sim Nσ (S.step s kv) (S.step s' kv))
    (fin : ∀ s s', Nσ s = Nσ s' → Sim Nρ (S.finish s) (S.finish s'))
    (hstep : ∀ s v v', Rel v v' → Sim Nσ (S.step s ⟨keyId cfg cs m.key, (parseString m.key false).1, v⟩)
        (S.step s ⟨keyId cfg cs m.key, (parseString m.key false).1, v'⟩)) :
    Cong (fun n => S.run cfg what n ae cs) m.at Nρ Rel := by
  intro v v' hr
  obtain ⟨k1, k2, es', e1, e2, _⟩ := mappingLoop_value' cfg what cs m.key v v' m.post m.pre [] rfl hfirst
  have hemp : (k1 ++ ⟨keyId cfg cs m.key, (parseString m.key false).1, v'⟩ :: k2).isEmpty =
      (k1 ++ ⟨keyId cfg cs m.key, (parseString m.key false).1, v⟩ :: k2).isEmpty := by
    cases k1 <;> rfl
  simp only [MapCtx.at, Sect.run, parseMapping_mapNode, e1, e2, hemp, loop_append, loop_cons]
  obtain ⟨a1, a2⟩ := hstep (loop S.step S.init k1).1 v v' hr
  obtain ⟨b1, b2⟩ := loop_frame S.step S.step Nσ frame k2 _ _ a1
  obtain ⟨c1, c2⟩ := fin _ _ b1
  refine ⟨c1, sim_append3 (SameSites.rfl'.append SameSites.rfl') (SameSites.rfl'.append (a2.append b2)) c2⟩

section
variable (F : Folds) (cfg : Cfg)

/-- document → root node -/
theorem c_root : Cong (parse cfg) docNode (nWf F) (SimRel (wfRun cfg) (nWf F)) := by
  intro v v' h
  simp only [parse_docNode]
  exact h

/-- root → the value of a top-level key -/
theorem c_wf (m : MapCtx) (name : String) (hk : m.Keyed cfg name) (Rel : Node → Node → Prop)
    (hstep : ∀ w v v', Rel v v' → Sim (nWf F) (workflowKey cfg w ⟨name, (parseString m.key false).1, v⟩)
        (workflowKey cfg w ⟨name, (parseString m.key false).1, v'⟩)) :
    Cong (wfRun cfg) m.at (nWf F) Rel :=
  Sect.cong (workflowSect cfg (docNode (mapNode "" 0 0 []))) cfg "workflow" false true m (nWf F) (nWf F) Rel hk.first'
    (fun s s' kv h => workflowKey_frame F cfg s s' kv h) (fun s s' h => workflowFinish_frame F cfg _ s s' h)
    (by intro s v v' hr; rw [hk.id]; exact hstep s v v' hr)

theorem c_wf_jobs (m : MapCtx) (hk : m.Keyed cfg "jobs") : Cong (wfRun cfg) m.at (nWf F) (SimRel (parseJobs cfg) (nAssoc (nJob F))) :=
  c_wf F cfg m "jobs" hk _ (fun w v v' h => by
    obtain ⟨h1, h2⟩ := h
    refine ⟨?_, by simpa only [workflowKey] using h2⟩
    simp only [workflowKey, nWf, Option.map_some]
    rw [h1])

theorem c_wf_env (m : MapCtx) (hk : m.Keyed cfg "env") : Cong (wfRun cfg) m.at (nWf F) (SimRel (parseEnv cfg) (nEnv F.env)) :=
  c_wf F cfg m "env" hk _ (fun w v v' h => by
    obtain ⟨h1, h2⟩ := h
    refine ⟨?_, by simpa only [workflowKey] using h2⟩
    simp only [workflowKey, nWf, Option.map_some]
    rw [h1])

/-- `jobs:` → one job (the value under a job id) -/
theorem c_jobs_job (m : MapCtx) (hk : m.Free cfg) :
    Cong (parseJobs cfg) m.at (nAssoc (nJob F)) (SimRel (parseJob cfg (parseString m.key false).1) (nJob F)) := by
  have key := Sect.cong (mapSect (fun kv => parseJob cfg kv.key kv.val)) cfg (sectionWhat "jobs") false false m
    (nAssoc (nJob F)) (nAssoc (nJob F)) (SimRel (parseJob cfg (parseString m.key false).1) (nJob F)) hk
    (fun s s' kv h => ⟨by simp only [mapSect, plain, nAssoc_append, h], rfl⟩)
    (fun s s' h => ⟨h, rfl⟩)
    (fun s v v' h => ⟨by simp only [mapSect, plain, nAssoc_append, nAssoc_cons, nAssoc_nil, h.1], h.2⟩)
  intro v v' h
  have := key v v' h
  simpa only [parseJobs, parseSectionMapping, mapSect_run] using this

/-- a job → the value of one of its keys -/
theorem c_job (jid : Str) (m : MapCtx) (name : String) (hk : m.Keyed cfg name) (Rel : Node → Node → Prop)
    (hstep : ∀ s v v', Rel v v' → Sim (nJobSt F) (jobKey cfg s ⟨name, (parseString m.key false).1, v⟩)
        (jobKey cfg s ⟨name, (parseString m.key false).1, v'⟩)) :
    Cong (parseJob cfg jid) m.at (nJob F) Rel :=
  Sect.cong (jobSect cfg jid) cfg (jobWhat jid.value) false true m (nJobSt F) (nJob F) Rel hk.first'
    (fun s s' kv h => jobKey_frame F cfg s s' kv h) (fun s s' h => jobFinish_frame F jid jid rfl s s' h)
    (by intro s v v' hr; rw [hk.id]; exact hstep s v v' hr)

theorem c_job_steps (jid : Str) (m : MapCtx) (hk : m.Keyed cfg "steps") :
    Cong (parseJob cfg jid) m.at (nJob F) (SimRel (parseSteps cfg) (Option.map (List.map (nStep F)))) :=
  c_job F cfg jid m "steps" hk _ (fun s v v' h => by
    obtain ⟨h1, h2⟩ := h
    refine ⟨?_, by simpa only [jobKey] using h2⟩
    simp only [jobKey, nJobSt, nJob]
    rw [h1])

theorem c_job_env (jid : Str) (m : MapCtx) (hk : m.Keyed cfg "env") :
    Cong (parseJob cfg jid) m.at (nJob F) (SimRel (parseEnv cfg) (nEnv F.env)) :=
  c_job F cfg jid m "env" hk _ (fun s v v' h => by
    obtain ⟨h1, h2⟩ := h
    refine ⟨?_, by simpa only [jobKey] using h2⟩
    simp only [jobKey, nJobSt, nJob, Option.map_some]
    rw [h1])

theorem c_job_outputs (jid : Str) (m : MapCtx) (hk : m.Keyed cfg "outputs") :
    Cong (parseJob cfg jid) m.at (nJob F) (SimRel (parseOutputs cfg) (nAssoc (nOutput F.output))) :=
  c_job F cfg jid m "outputs" hk _ (fun s v v' h => by
    obtain ⟨h1, h2⟩ := h
    refine ⟨?_, by simpa only [jobKey] using h2⟩
    simp only [jobKey, nJobSt, nJob, Option.map_some]
    rw [h1])

theorem c_job_services (jid : Str) (m : MapCtx) (hk : m.Keyed cfg "services") :
    Cong (parseJob cfg jid) m.at (nJob F) (SimRel (parseServices cfg) (nServices F)) :=
  c_job F cfg jid m "services" hk _ (fun s v v' h => by
    obtain ⟨h1, h2⟩ := h
    refine ⟨?_, by simpa only [jobKey] using h2⟩
    simp only [jobKey, nJobSt, nJob, Option.map_some]
    rw [h1])

/-- `steps:` → one step -/
theorem stepsOf_cong (b : List Node) : ∀ (a : List Node) (v v' : Node), Sim (nStep F) (parseStep cfg v) (parseStep cfg v') →
    Sim (List.map (nStep F)) (stepsOf cfg (a ++ v :: b)) (stepsOf cfg (a ++ v' :: b))
  | [], v, v', h => by
    simp only [List.nil_append, stepsOf]
    exact ⟨by simp only [List.map_cons, h.1], h.2.append SameSites.rfl'⟩
  | x :: a, v, v', h => by
    obtain ⟨i1, i2⟩ := stepsOf_cong b a v v' h
    simp only [List.cons_append, stepsOf]
    exact ⟨by simp only [List.map_cons, i1], SameSites.rfl'.append i2⟩

theorem c_steps_step (s : SeqCtx) : Cong (parseSteps cfg) s.at (Option.map (List.map (nStep F))) (SimRel (parseStep cfg) (nStep F)) := by
  intro v v' h
  have hc : ∀ x : Node, checkSequence "steps" (s.at x) false = (true, []) := by
    intro x
    simp [checkSequence, SeqCtx.at, seqNode, Node.kind, Node.content, checkNotEmpty]
  have hcont : ∀ x : Node, (s.at x).content = s.before ++ x :: s.after := fun _ => rfl
  obtain ⟨i1, i2⟩ := stepsOf_cong F cfg s.after s.before v v' h
  simp only [parseSteps, hc, hcont]
  exact ⟨by simp only [Bool.not_true, Bool.false_eq_true, if_false, Option.map_some, i1], by simpa using i2⟩

/-- a step → the value of one of its keys -/
theorem c_step (m : MapCtx) (name : String) (hk : m.Keyed cfg name) (Rel : Node → Node → Prop)
    (hstep : ∀ s v v', Rel v v' → Sim (nStepSt F) (stepKey cfg s ⟨name, (parseString m.key false).1, v⟩)
        (stepKey cfg s ⟨name, (parseString m.key false).1, v'⟩)) :
    Cong (parseStep cfg) m.at (nStep F) Rel :=
  Sect.cong (stepSect cfg (mapNode m.tag m.l m.c [])) cfg "element of \"steps\" section" false true m (nStepSt F) (nStep F) Rel hk.first'
    (fun s s' kv h => stepKey_frame F cfg s s' kv h) (fun s s' h => stepFinish_frame F _ s s' h)
    (by intro s v v' hr; rw [hk.id]; exact hstep s v v' hr)

theorem c_step_env (m : MapCtx) (hk : m.Keyed cfg "env") :
    Cong (parseStep cfg) m.at (nStep F) (SimRel (parseEnv cfg) (nEnv F.env)) :=
  c_step F cfg m "env" hk _ (fun s v v' h => by
    obtain ⟨h1, h2⟩ := h
    refine ⟨?_, by simpa only [stepKey] using h2⟩
    simp only [stepKey, nStepSt, nStep, Option.map_some]
    rw [h1])

/-! ### the leaves -/

/-- **the keys of `with:` of a step** -/
theorem c_step_with (m : MapCtx) (hk : m.Keyed cfg "with") (hf : ∀ a b, F.input a = F.input b → cfg.lower a = cfg.lower b) :
    Cong (parseStep cfg) m.at (nStep F) (KeyRecased F.input) :=
  c_step F cfg m "with" hk _ (fun s v v' h => by
    obtain ⟨⟨id, cond, name, exec, env, coe, tm, pos⟩, wd⟩ := s
    simp only [stepKey]
    cases exec with
    | run e => exact ⟨rfl, rfl⟩
    | none =>
      obtain ⟨j1, j2⟩ := stepWith_recase (cfg := cfg) F hf h {}
      exact ⟨by simp only [nStepSt, nStep, nExec]; simp only at j1; rw [j1], j2⟩
    | action e =>
      obtain ⟨j1, j2⟩ := stepWith_recase (cfg := cfg) F hf h e
      exact ⟨by simp only [nStepSt, nStep, nExec]; simp only at j1; rw [j1], j2⟩)

/-- **the value of `id:` of a step** -/
theorem c_step_id (m : MapCtx) (hk : m.Keyed cfg "id") : Cong (parseStep cfg) m.at (nStep F) (KeyAlike F.stepId) :=
  c_step F cfg m "id" hk _ (fun s v v' h => by
    simp only [stepKey, h.errs]
    exact ⟨by simp only [nStepSt, nStep, Option.map_some, h.str], rfl⟩)

/-- **the keys of `with:` / `secrets:` of a job that calls a reusable workflow** -/
theorem c_job_with (jid : Str) (m : MapCtx) (hk : m.Keyed cfg "with") (hf : ∀ a b, F.arg a = F.arg b → cfg.lower a = cfg.lower b) :
    Cong (parseJob cfg jid) m.at (nJob F) (KeyRecased F.arg) :=
  c_job F cfg jid m "with" hk _ (fun s v v' h => by
    obtain ⟨j1, j2⟩ := callArgs_recase (cfg := cfg) hf "with" h
    simp only at j1 j2
    simp only [jobKey]
    exact ⟨by simp only [nJobSt, nCall, Option.map_some]; rw [j1], j2⟩)

theorem c_job_secrets (jid : Str) (m : MapCtx) (hk : m.Keyed cfg "secrets") (hf : ∀ a b, F.arg a = F.arg b → cfg.lower a = cfg.lower b) :
    Cong (parseJob cfg jid) m.at (nJob F) (KeyRecased F.arg) :=
  c_job F cfg jid m "secrets" hk _ (fun s v v' h => by
    obtain ⟨j1, j2⟩ := callArgs_recase (cfg := cfg) hf "secrets" h
    simp only at j1 j2
    simp only [jobKey, h.kind, h.value, errAt, h.pos]
    split
    · exact ⟨rfl, rfl⟩
    · exact ⟨by simp only [nJobSt, nCall, Option.map_some]; rw [j1], j2⟩)

/-! ### job ids: the keys of `jobs:` and the entries of `needs:` -/

/-- **the keys of `jobs:`** -/
theorem parseJobs_recase (hf : ∀ a b, F.jobId a = F.jobId b → cfg.lower a = cfg.lower b) {n n' : Node} (h : KeyRecased F.jobId n n') :
    Sim (nAssoc (nJob F)) (parseJobs cfg n) (parseJobs cfg n') := by
  obtain ⟨i1, i2⟩ := parseMapping_alike cfg F.jobId hf (sectionWhat "jobs") (sectionWhat "jobs") n n' false h
  obtain ⟨j1, j2⟩ := mapKVs_sim F.jobId (fun kv => parseJob cfg kv.key kv.val) (fun kv => parseJob cfg kv.key kv.val) (nJob F)
    (fun kv kv' hk => by
      obtain ⟨_, hk2, hk3⟩ := nKV_eq hk
      rw [hk3]
      exact parseJob_id_sim F cfg kv.key kv'.key hk2 kv'.val) _ _ i1
  exact ⟨j1, i2.append j2⟩

theorem c_jobs_keys (hf : ∀ a b, F.jobId a = F.jobId b → cfg.lower a = cfg.lower b) :
    Cong (parseJobs cfg) id (nAssoc (nJob F)) (KeyRecased F.jobId) :=
  fun _ _ h => parseJobs_recase F cfg hf h

/-- the elements of a sequence of names, each re-spelled -/
inductive ElemsAlike (f : String → String) : List Node → List Node → Prop
  | nil : ElemsAlike f [] []
  | cons {x x' : Node} {xs xs' : List Node} : KeyAlike f x x' → ElemsAlike f xs xs' → ElemsAlike f (x :: xs) (x' :: xs')

theorem ElemsAlike.rfl' {f : String → String} : ∀ {l : List Node}, ElemsAlike f l l
  | [] => .nil
  | _ :: _ => .cons KeyAlike.rfl' ElemsAlike.rfl'

theorem ElemsAlike.one {f : String → String} {x x' : Node} (h : KeyAlike f x x') (b : List Node) :
    ∀ a : List Node, ElemsAlike f (a ++ x :: b) (a ++ x' :: b)
  | [] => .cons h ElemsAlike.rfl'
  | _ :: a => .cons KeyAlike.rfl' (ElemsAlike.one h b a)

theorem ElemsAlike.length {f : String → String} {l l' : List Node} (h : ElemsAlike f l l') : l.length = l'.length := by
  induction h with
  | nil => rfl
  | cons _ _ ih => simp [ih]

theorem parseStrings_alike {f : String → String} {l l' : List Node} (h : ElemsAlike f l l') :
    (parseStrings false l).1.map (nStr f) = (parseStrings false l').1.map (nStr f) ∧ (parseStrings false l).2 = (parseStrings false l').2 := by
  induction h with
  | nil => exact ⟨rfl, rfl⟩
  | cons hx _ ih =>
    simp only [parseStrings, List.map_cons, hx.errs, hx.str, ih.1, ih.2]
    exact ⟨trivial, trivial⟩

/-- a sequence node whose elements (names) are re-spelled -/
structure SeqRecased (f : String → String) (n n' : Node) : Prop where
  kind : n'.kind = n.kind
  tag : n'.tag = n.tag
  value : n'.value = n.value
  quoted : n'.quoted = n.quoted
  pos : n'.pos = n.pos
  elems : ElemsAlike f n.content n'.content

/-- **`NeedsRecased f v v'`**: the value of `needs:` — one name, or a sequence of names — with the names re-spelled -/
def NeedsRecased (f : String → String) (v v' : Node) : Prop := KeyAlike f v v' ∨ SeqRecased f v v'

theorem parseStringSequence_setValue (sec : String) (v : Node) (x : String) (a b : Bool) :
    parseStringSequence sec (setValue v x) a b = parseStringSequence sec v a b := by
  cases v with | mk k t y q l c cs => rfl

theorem parseStringSequence_alike {f : String → String} (sec : String) (k : Kind) (t x : String) (q : Bool) (l c : Nat) {cs cs' : List Node}
    (h : ElemsAlike f cs cs') :
    (parseStringSequence sec (.mk k t x q l c cs) false false).1.map (List.map (nStr f)) =
      (parseStringSequence sec (.mk k t x q l c cs') false false).1.map (List.map (nStr f)) ∧
    (parseStringSequence sec (.mk k t x q l c cs) false false).2 = (parseStringSequence sec (.mk k t x q l c cs') false false).2 := by
  obtain ⟨i1, i2⟩ := parseStrings_alike h
  have hl := h.length
  simp only [parseStringSequence, checkSequence, checkNotEmpty, Node.kind, Node.content, errAt, Node.pos, Node.line, Node.col, Node.tag, hl, i2]
  by_cases hk : k = .sequence
  · subst hk
    by_cases h0 : cs'.length = 0 <;> simp [h0, i1]
  · simp [hk]

theorem SeqRecased.shape {f : String → String} {v v' : Node} (h : SeqRecased f v v') :
    ∃ k t x q l c cs cs', v = .mk k t x q l c cs ∧ v' = .mk k t x q l c cs' ∧ ElemsAlike f cs cs' := by
  obtain ⟨k, t, x, q, l, c, cs⟩ := v
  obtain ⟨k', t', x', q', l', c', cs'⟩ := v'
  obtain ⟨h1, h2, h3, h4, h5, h6⟩ := h
  simp only [Node.kind, Node.tag, Node.value, Node.quoted, Node.pos, Node.line, Node.col, Node.content] at h1 h2 h3 h4 h5 h6
  have h5' := h5
  simp only [AL.Matrix.P.mk.injEq] at h5'
  obtain ⟨rfl, rfl⟩ := h5'
  subst h1; subst h2; subst h3; subst h4
  exact ⟨_, _, _, _, _, _, _, _, rfl, rfl, h6⟩

theorem c_job_needs (jid : Str) (m : MapCtx) (hk : m.Keyed cfg "needs") :
    Cong (parseJob cfg jid) m.at (nJob F) (NeedsRecased F.jobId) :=
  c_job F cfg jid m "needs" hk _ (fun s v v' h => by
    rcases h with h | h
    · obtain ⟨x, rfl, hn⟩ := id h
      simp only [jobKey, setValue_kind, parseStringSequence_setValue]
      split
      · exact ⟨by simp only [nJobSt, nJob, Option.map_some, List.map_cons, List.map_nil, h.str], by rw [h.errs]; exact SameSites.rfl'⟩
      · exact ⟨rfl, rfl⟩
    · obtain ⟨k, t, x, q, l, c, cs, cs', rfl, rfl, he⟩ := h.shape
      obtain ⟨i1, i2⟩ := parseStringSequence_alike "needs" k t x q l c he
      have hps : parseString (.mk k t x q l c cs') false = parseString (.mk k t x q l c cs) false := rfl
      simp only [jobKey, hps, i2]
      have hkk : (Node.mk k t x q l c cs').kind = (Node.mk k t x q l c cs).kind := rfl
      rw [hkk]
      split
      · exact ⟨rfl, rfl⟩
      · exact ⟨by simp only [nJobSt, nJob, i1], rfl⟩)

end

end AL.C08D
