import AL.Model.Lint
/-
  C15 lemmas, part 1: `less` is a strict weak order whose incomparability classes are the
  (file, line, col) keys; `insertStable`/`stableSort` sort, permute, keep every key class in its
  original order, and commute with filtering.
-/
namespace AL.Lint

/-- the sort key of `ByErrorPosition` -/
def key (d : D) : String × Nat × Nat := (d.file, d.line, d.col)

theorem less_iff (a b : D) : less a b = true ↔
    a.file < b.file ∨ (a.file = b.file ∧ (a.line < b.line ∨ (a.line = b.line ∧ a.col < b.col))) := by
  unfold less
  by_cases hf : a.file = b.file
  · simp [hf]
    by_cases hl : a.line = b.line
    · simp [hl]
    · simp [hl]
  · simp [hf]

theorem str_tri (a b : String) : a < b ∨ a = b ∨ b < a := by
  rcases String.le_total a b with h | h
  · by_cases h' : b ≤ a
    · exact .inr (.inl (String.le_antisymm h h'))
    · exact .inl (by simpa using h')
  · by_cases h' : a ≤ b
    · exact .inr (.inl (String.le_antisymm h' h))
    · exact .inr (.inr (by simpa using h'))

theorem less_irrefl (a : D) : less a a = false := by
  simp [less]

theorem less_asymm {a b : D} (h : less a b = true) : less b a = false := by
  rw [Bool.eq_false_iff]; intro h'
  rw [less_iff] at h h'
  rcases h with h | ⟨h1, h⟩ <;> rcases h' with h' | ⟨h1', h'⟩
  · exact String.lt_asymm h h'
  · rw [h1'] at h; exact String.lt_irrefl _ h
  · rw [h1] at h'; exact String.lt_irrefl _ h'
  · omega

theorem less_trans {a b c : D} (h : less a b = true) (h' : less b c = true) : less a c = true := by
  rw [less_iff] at h h' ⊢
  rcases h with h | ⟨h1, h⟩ <;> rcases h' with h' | ⟨h1', h'⟩
  · exact .inl (String.lt_trans h h')
  · rw [← h1']; exact .inl h
  · rw [h1]; exact .inl h'
  · right; refine ⟨h1.trans h1', ?_⟩; omega

theorem less_incomp_iff (a b : D) : (less a b = false ∧ less b a = false) ↔ key a = key b := by
  simp only [Bool.eq_false_iff, ne_eq, less_iff, key, Prod.mk.injEq]
  constructor
  · rintro ⟨h1, h2⟩
    rcases str_tri a.file b.file with h | h | h
    · exact absurd (.inl h) h1
    · refine ⟨h, ?_⟩
      simp only [h, String.lt_irrefl, false_or, true_and, not_or, not_and] at h1 h2
      omega
    · exact absurd (.inl h) h2
  · rintro ⟨h1, h2, h3⟩
    simp [h1, h2, h3]

/-- negative transitivity: `less` is a strict weak order -/
theorem less_neg_trans {a b c : D} (h : less a b = false) (h' : less b c = false) : less a c = false := by
  rw [Bool.eq_false_iff] at *
  intro hac
  rw [ne_eq, less_iff] at h h'
  rw [less_iff] at hac
  rcases str_tri a.file b.file with x | x | x
  · exact h (.inl x)
  · rcases str_tri b.file c.file with y | y | y
    · exact h' (.inl y)
    · simp only [x, y, String.lt_irrefl, false_or, true_and] at h h' hac; omega
    · rcases hac with hac | hac
      · rw [x] at hac; exact String.lt_asymm y hac
      · rw [← x, hac.1] at y; exact String.lt_irrefl _ y
  · rcases hac with hac | hac
    · rcases str_tri b.file c.file with y | y | y
      · exact h' (.inl y)
      · rw [← y] at hac; exact String.lt_asymm x hac
      · exact String.lt_asymm (String.lt_trans y x) hac
    · rw [hac.1] at x
      exact h' (.inl x)
/-- sorted w.r.t. `less` (no later element is strictly less than an earlier one) -/
def SortedL (l : List D) : Prop := List.Pairwise (fun a b => less b a = false) l

abbrev ins : List D → D → List D := fun acc x => insertStable x acc

theorem stableSort_eq (l : List D) : stableSort l = l.foldl ins [] := rfl

theorem insertStable_perm (x : D) (l : List D) : (insertStable x l).Perm (x :: l) := by
  induction l with
  | nil => simp [insertStable]
  | cons y ys ih =>
    simp only [insertStable]
    split
    · exact List.Perm.refl _
    · exact (List.Perm.cons y ih).trans (List.Perm.swap x y ys)

theorem mem_insertStable {x z : D} {l : List D} : z ∈ insertStable x l ↔ z = x ∨ z ∈ l := by
  rw [(insertStable_perm x l).mem_iff]; simp

theorem insertStable_sorted {x : D} {l : List D} (h : SortedL l) : SortedL (insertStable x l) := by
  induction l with
  | nil => simp [insertStable, SortedL]
  | cons y ys ih =>
    simp only [insertStable]
    unfold SortedL at h ih ⊢
    rw [List.pairwise_cons] at h
    split
    next hxy =>
      refine List.pairwise_cons.2 ⟨?_, List.pairwise_cons.2 h⟩
      intro z hz
      rcases List.mem_cons.1 hz with rfl | hz
      · exact less_asymm hxy
      · -- less z y = false, less y x = false
        exact less_neg_trans (h.1 z hz) (less_asymm hxy)
    next hxy =>
      refine List.pairwise_cons.2 ⟨?_, ih h.2⟩
      intro z hz
      rcases mem_insertStable.1 hz with rfl | hz
      · simpa using hxy
      · exact h.1 z hz

theorem foldl_ins_perm (acc l : List D) : (l.foldl ins acc).Perm (acc ++ l) := by
  induction l generalizing acc with
  | nil => simp
  | cons x xs ih =>
    simp only [List.foldl_cons]
    refine (ih _).trans ?_
    refine ((insertStable_perm x acc).append_right xs).trans ?_
    simpa using List.perm_middle.symm

theorem foldl_ins_sorted {acc : List D} (l : List D) (h : SortedL acc) : SortedL (l.foldl ins acc) := by
  induction l generalizing acc with
  | nil => simpa
  | cons x xs ih => exact ih (insertStable_sorted h)

theorem stableSort_perm (l : List D) : (stableSort l).Perm l := by
  simpa [stableSort] using foldl_ins_perm [] l

theorem stableSort_sorted (l : List D) : SortedL (stableSort l) :=
  foldl_ins_sorted l (by simp [SortedL])

theorem less_of_sorted_cons {x y : D} {ys : List D} (h : SortedL (y :: ys)) (hxy : less x y = true) :
    ∀ z ∈ ys, less x z = true := by
  intro z hz
  have h1 := (List.pairwise_cons.1 h).1 z hz
  cases hxz : less x z with
  | true => rfl
  | false => rw [less_neg_trans hxz h1] at hxy; cases hxy

/-- `x` lands behind everything that is not strictly greater -/
theorem insertStable_filter_tie (p : D → Bool) (x : D) (l : List D) (hs : SortedL l) (hx : p x = true)
    (h : ∀ z ∈ l, p z = true → less x z = false) :
    (insertStable x l).filter p = l.filter p ++ [x] := by
  induction l with
  | nil => simp [insertStable, hx]
  | cons y ys ih =>
    have ih := ih (List.pairwise_cons.1 hs).2 (fun z hz => h z (List.mem_cons_of_mem _ hz))
    simp only [insertStable]
    split
    next hxy =>
      have hall : ∀ z ∈ y :: ys, p z = false := by
        intro z hz
        have hxz : less x z = true := by
          rcases List.mem_cons.1 hz with rfl | hz'
          · exact hxy
          · exact less_of_sorted_cons hs hxy z hz'
        cases hp : p z with
        | false => rfl
        | true => have := h z hz hp; rw [hxz] at this; cases this
      have : (y :: ys).filter p = [] := List.filter_eq_nil_iff.2 (fun z hz => by simp [hall z hz])
      rw [List.filter_cons, hx, this]; rfl
    next hxy =>
      simp only [List.filter_cons, ih]
      split <;> simp

theorem insertStable_filter_not (p : D → Bool) (x : D) (l : List D) (hx : p x = false) :
    (insertStable x l).filter p = l.filter p := by
  induction l with
  | nil => simp [insertStable, hx]
  | cons y ys ih =>
    simp only [insertStable]
    split
    · simp [List.filter_cons, hx]
    · simp only [List.filter_cons, ih]

/-- with `p x`, inserting commutes with filtering a sorted list -/
theorem insertStable_filter_pos (p : D → Bool) (x : D) (l : List D) (hs : SortedL l) (hx : p x = true) :
    insertStable x (l.filter p) = (insertStable x l).filter p := by
  induction l with
  | nil => simp [insertStable, hx]
  | cons y ys ih =>
    have ih := ih (List.pairwise_cons.1 hs).2
    simp only [insertStable]
    split
    next hxy =>
      rw [List.filter_cons (x := x), hx]
      simp only [if_true]
      rw [List.filter_cons]
      split
      · simp [insertStable, hxy]
      · have hall := less_of_sorted_cons hs hxy
        generalize hq : ys.filter p = q
        have hq' : ∀ z ∈ q, less x z = true := fun z hz => hall z (by rw [← hq] at hz; exact (List.mem_filter.1 hz).1)
        cases q with
        | nil => rfl
        | cons z zs => simp [insertStable, hq' z (by simp)]
    next hxy =>
      rw [List.filter_cons, List.filter_cons]
      split
      · simp [insertStable, hxy, ih]
      · exact ih

theorem foldl_ins_filter (p : D → Bool) (acc l : List D) (hs : SortedL acc) :
    (l.filter p).foldl ins (acc.filter p) = (l.foldl ins acc).filter p := by
  induction l generalizing acc with
  | nil => simp
  | cons x xs ih =>
    rw [List.filter_cons]
    cases hx : p x with
    | true =>
      simp only [if_true, List.foldl_cons]
      rw [← ih _ (insertStable_sorted hs), ← insertStable_filter_pos p x acc hs hx]
    | false =>
      simp only [List.foldl_cons]
      rw [← ih _ (insertStable_sorted hs), insertStable_filter_not p x acc hx]
      rfl

/-- core lemma of (b): filtering before or after the stable sort is the same -/
theorem stableSort_filter (p : D → Bool) (l : List D) :
    stableSort (l.filter p) = (stableSort l).filter p := by
  simpa [stableSort] using foldl_ins_filter p [] l (by simp [SortedL])

theorem foldl_ins_filter_key (k : String × Nat × Nat) (acc l : List D) (hs : SortedL acc) :
    (l.foldl ins acc).filter (fun d => key d = k) = acc.filter (fun d => key d = k) ++ l.filter (fun d => key d = k) := by
  induction l generalizing acc with
  | nil => simp
  | cons x xs ih =>
    simp only [List.foldl_cons]
    rw [ih _ (insertStable_sorted hs)]
    by_cases hx : key x = k
    · rw [insertStable_filter_tie _ x acc hs (by simpa using hx)]
      · simp [hx]
      · intro z _ hz
        have : key x = key z := by rw [hx]; exact (by simpa using hz : key z = k).symm
        exact ((less_incomp_iff x z).2 this).1
    · rw [insertStable_filter_not _ x acc (by simpa using hx)]
      simp [hx]

/-- stability: the elements of each key class keep their original order -/
theorem stableSort_filter_key (k : String × Nat × Nat) (l : List D) :
    (stableSort l).filter (fun d => key d = k) = l.filter (fun d => key d = k) := by
  simpa [stableSort] using foldl_ins_filter_key k [] l (by simp [SortedL])
end AL.Lint
