import AL.Lemmas.C12PStep
/-
  C12Parse: the sections of a job whose positions lie under more than one workflow key — `container`, `services`,
  `environment`. For each: the workflow key of the scalars below a key of the section (`…KeyOf`), the field ↔ key table
  (`…K_keyed`: what the parser's loop holds under the key is listed by the keyed enumeration of AL.C12R under THAT
  workflow key), and the section's theorem (`parse…_leafK`).
-/
namespace AL.C12P
open AL.PW AL.Yaml AL.Ast AL.C03P AL.C03R AL.C12R

/-! ### `container:` / one service -/

def containerKeyOf (kSect kCred kEnv : String) (k : String) : String :=
  match k with
  | "credentials" => kCred
  | "env" => kEnv
  | _ => kSect

theorem containerKeyKeyed_eq (a b c : String) (k : String) (y : Node) :
    containerKeyKeyed a b c k y = under (containerKeyOf a b c k) (leaves y) := by
  simp only [containerKeyKeyed]
  split <;> simp [containerKeyOf]

/-- the field ↔ key table of a container -/
theorem containerK_keyed (a b c : String) (k : String) (st : Container) :
    ∀ s ∈ containerK k st, (s, containerKeyOf a b c k) ∈ containerKStrs (some st) a b c a := by
  intro s hs
  simp only [containerK] at hs
  simp only [containerKStrs, List.mem_append]
  split at hs
  all_goals first
    | (simp_all [containerKeyOf, mem_tag]; done)
    | (cases hcr : st.credentials <;> simp_all [containerKeyOf, mem_tag])

/-- `container:` / one service: every scalar below it is stored in the field that is checked under the scalar's key -/
theorem parseContainer_leafK (cfg : Cfg) (sec : String) (pos : Yaml.Pos) (n : Node) (a b c : String) (v : Node) (key : String)
    (hv : (v, key) ∈ containerKeyed a b c n) (h : (parseContainer cfg sec pos n).2 = []) :
    RepK v key (containerKStrs (some (parseContainer cfg sec pos n).1) a b c a) := by
  simp only [parseContainer, parseSectionMapping] at h ⊢
  simp only [containerKeyed] at hv
  split at h
  · rename_i hk
    simp only [hk, ↓reduceIte]
    have hnm : n.kind ≠ .mapping := by simp [hk]
    simp only [subKeyed, hnm, ↓reduceIte] at hv
    obtain ⟨hvl, rfl⟩ := mem_under.1 hv
    obtain ⟨s, hs, e⟩ := parseString_leaf _ _ v hvl h
    refine ⟨s, ?_, e⟩
    rw [List.mem_singleton] at hs
    subst hs
    simp [containerKStrs, mem_tag]
  · rename_i hk
    simp only [hk, ↓reduceIte]
    simp only [append_nil_iff] at h
    rw [subKeyed_clean cfg _ n true _ _ h.1] at hv
    have hv' : (v, key) ∈ mapKeyed n a (fun k y => under (containerKeyOf a b c k) ((fun _ x => leaves x) k y)) := by
      have : containerKeyKeyed a b c = fun k y => under (containerKeyOf a b c k) (leaves y) := by
        funext k y; exact containerKeyKeyed_eq a b c k y
      rw [← this]; exact hv
    obtain ⟨k, hkey, hk⟩ := sect_tag cfg _ n false (containerKey cfg sec) _ a (containerKeyOf a b c) (fun _ x => leaves x) v key hv'
      containerK h.1 h.2 (fun kv st hvk hc => containerKey_store cfg sec st kv v hvk hc) (containerK_pres cfg sec)
    obtain ⟨s, hs, e⟩ := hk
    subst hkey
    exact ⟨s, containerK_keyed a b c k _ s hs, e⟩

/-! ### `services:` -/

theorem parseServices_leafK (cfg : Cfg) (n : Node) (v : Node) (key : String) (hv : (v, key) ∈ servicesKeyed n)
    (h : (parseServices cfg n).2 = []) : RepK v key (servicesKStrs (some (parseServices cfg n).1)) := by
  simp only [servicesKeyed] at hv
  split at hv
  case isFalse => cases hv
  rename_i hok
  simp only [parseServices, parseSectionMapping] at h ⊢
  split at h
  · rename_i e he
    simp only [servicesKStrs, Option.toList_some]
    refine RepK.left ?_
    rw [mayParseExpression_some n e he]
    have hk : n.kind = .scalar := by
      cases hk : n.kind <;> first | rfl | (rw [mayParseExpression_coll n (by simp [hk]) hok] at he; cases he)
    have hnn : n.isNull = false := by
      simp only [mayParseExpression] at he
      split at he
      · cases he
      · rename_i ht
        simp only [ne_eq, Decidable.not_not] at ht
        simp [Node.isNull, ht]
    simp only [mapKeyed, hk, hnn] at hv
    simp only [reduceCtorEq, decide_false, Bool.or_self, Bool.false_eq_true, ↓reduceIte] at hv
    obtain ⟨hvl, rfl⟩ := mem_under.1 hv
    rw [leaves_scalar n hk, List.mem_singleton] at hvl
    subst hvl
    exact RepK.of_rep (Rep.newString _) _
  · rename_i he
    simp only [servicesKStrs]
    simp only [append_nil_iff] at h
    obtain ⟨kv, hkv, k, _, hvk⟩ := mapKeyed_clean cfg _ n false false _ _ v key hv h.1
    obtain ⟨h1, h2⟩ := mapKVs_clean _ _ h.2 kv hkv
    refine RepK.right ?_
    simp only [Option.getD_some]
    exact RepK.flatMap h2 (parseContainer_leafK cfg "services" _ _ _ _ _ v key hvk h1)

/-! ### `environment:` -/

/-- the strings of an environment with their keys (the part of `AL.C12R.jobPostKStrs` that belongs to it) -/
def environmentKStrs (e : Environment) : List (Str × String) :=
  tag "jobs.<job_id>.environment" e.name.toList ++ tag "jobs.<job_id>.environment.url" e.url.toList

def environmentKeyOf (k : String) : String :=
  match k with
  | "url" => "jobs.<job_id>.environment.url"
  | _ => "jobs.<job_id>.environment"

theorem environmentKeyKeyed_eq (k : String) (y : Node) : environmentKeyKeyed k y = under (environmentKeyOf k) (leaves y) := by
  simp only [environmentKeyKeyed]
  split <;> simp [environmentKeyOf]

theorem environmentK_keyed (k : String) (st : Environment × Bool) :
    ∀ s ∈ environmentK k st, (s, environmentKeyOf k) ∈ environmentKStrs st.1 := by
  intro s hs
  simp only [environmentK] at hs
  simp only [environmentKStrs, List.mem_append]
  split at hs <;> simp_all [environmentKeyOf, mem_tag]

theorem parseEnvironment_leafK (cfg : Cfg) (pos : Yaml.Pos) (n : Node) (v : Node) (key : String)
    (hv : (v, key) ∈ environmentKeyed n) (h : (parseEnvironment cfg pos n).2 = []) :
    RepK v key (environmentKStrs (parseEnvironment cfg pos n).1) := by
  simp only [parseEnvironment, parseSectionMapping] at h ⊢
  simp only [environmentKeyed] at hv
  split at h
  · rename_i hk
    simp only [hk, ↓reduceIte]
    have hnm : n.kind ≠ .mapping := by simp [hk]
    simp only [subKeyed, hnm, ↓reduceIte] at hv
    obtain ⟨hvl, rfl⟩ := mem_under.1 hv
    obtain ⟨s, hs, e⟩ := parseString_leaf _ _ v hvl h
    refine ⟨s, ?_, e⟩
    rw [List.mem_singleton] at hs
    subst hs
    simp [environmentKStrs, mem_tag]
  · rename_i hk
    simp only [hk, ↓reduceIte]
    simp only [append_nil_iff] at h
    obtain ⟨⟨hm, hr⟩, _⟩ := h
    rw [subKeyed_clean cfg _ n true _ _ hm] at hv
    have hv' : (v, key) ∈ mapKeyed n "jobs.<job_id>.environment" (fun k y => under (environmentKeyOf k) ((fun _ x => leaves x) k y)) := by
      have : environmentKeyKeyed = fun k y => under (environmentKeyOf k) (leaves y) := by
        funext k y; exact environmentKeyKeyed_eq k y
      rw [← this]; exact hv
    obtain ⟨k, hkey, hk⟩ := sect_tag cfg _ n false environmentKey _ _ environmentKeyOf (fun _ x => leaves x) v key hv'
      environmentK hm hr
      (by
        intro kv st hvk
        simp only [environmentKey]
        split
        next h => intro hc; simp only [h, environmentK]; exact (parseString_leaf _ _ v hvk hc).mono (by simp)
        next h => intro hc; simp only [h, environmentK]; exact (parseString_leaf _ _ v hvk hc).mono (by simp)
        next => intro hc; simp at hc)
      environmentK_pres
    obtain ⟨s, hs, e⟩ := hk
    subst hkey
    exact ⟨s, environmentK_keyed k _ s hs, e⟩

end AL.C12P
