import AL.Lemmas.C03PBase
/-
  C03Parse, level 4, first half: the `on:` section. Webhook events with their filters, `schedule`, `workflow_dispatch` and
  `workflow_call` with their input / secret / output specifications, `repository_dispatch`.
-/
namespace AL.C03P
open AL.PW AL.Yaml AL.Ast AL.C03R

/-! ### `schedule:` -/

theorem scheduleItems_leaf (cfg : Cfg) (v : Node) : ∀ (cs : List Node), v ∈ cs.flatMap leaves →
    (scheduleItems cfg cs).2 = [] → Rep v (scheduleItems cfg cs).1
  | [], hv, _ => by simp at hv
  | c :: cs, hv, h => by
    simp only [List.flatMap_cons, List.mem_append] at hv
    simp only [scheduleItems] at h ⊢
    split at h
    · rename_i kv hm1
      by_cases hid : kv.id = "cron"
      · simp only [hid, ne_eq, not_true_eq_false, ↓reduceIte, append_nil_iff] at h
        simp only [hid, ne_eq, not_true_eq_false, ↓reduceIte]
        rcases hv with hv | hv
        · obtain ⟨kv', hkv', k, _, hvk⟩ := mapScalars_clean cfg _ c false true _ v (leaves_mapScalars cfg _ c true v hv h.1.1) h.1.1
          rw [hm1, List.mem_singleton] at hkv'
          subst hkv'
          exact (parseString_leaf _ _ v hvk h.1.2).mono (by simp)
        · exact (scheduleItems_leaf cfg v cs hv h.2).mono (by simp +contextual)
      · simp [hid] at h
    · simp at h

theorem parseScheduleEvent_leaf (cfg : Cfg) (pos : Yaml.Pos) (n : Node) (v : Node) (hv : v ∈ leaves n)
    (h : (parseScheduleEvent cfg pos n).2 = []) :
    ∃ e, (parseScheduleEvent cfg pos n).1 = some e ∧ Rep v (eventStrs e) := by
  simp only [parseScheduleEvent] at h ⊢
  split at h
  · rename_i hc
    have := checkSequence_clean "schedule" n false h
    simp [this.2] at hc
  · rename_i hc
    simp only [hc]
    simp only [append_nil_iff] at h
    have hs := (checkSequence_clean "schedule" n false h.1).1
    rw [leaves_sequence n hs] at hv
    exact ⟨_, rfl, scheduleItems_leaf cfg v _ hv h.2⟩

/-! ### `workflow_dispatch:` -/

def dispatchAttrK (k : String) (st : DispatchInputSt) : List Str :=
  match k with
  | "description" => st.desc.toList
  | "required" => boolStrs st.req
  | "default" => st.dflt.toList
  | "options" => st.opts.getD []
  | _ => []

theorem dispatchAttrK_pres (k : String) (st : DispatchInputSt) (kv : KV) (hne : kv.id ≠ k) :
    ∀ s ∈ dispatchAttrK k st, s ∈ dispatchAttrK k (dispatchAttr st kv).1 := by
  intro s hs
  simp only [dispatchAttr]
  split
  all_goals (try split)
  all_goals (try split)
  all_goals (simp only [dispatchAttrK] at hs ⊢; split at hs)
  all_goals first | exact hs | exact absurd ‹kv.id = _› hne

def dispatchInputStrs (i : DispatchInput) : List Str :=
  i.description.toList ++ i.dflt.toList ++ boolStrs i.required ++ i.options.getD []

theorem dispatchAttrK_sub (k : String) (st : DispatchInputSt) (key : Str) :
    ∀ s ∈ dispatchAttrK k st, s ∈ dispatchInputStrs ⟨key, st.desc, st.req, st.dflt, st.ty, st.opts⟩ := by
  intro s hs
  simp only [dispatchAttrK] at hs
  simp only [dispatchInputStrs, List.mem_append]
  split at hs
  · exact Or.inl (Or.inl (Or.inl hs))
  · exact Or.inl (Or.inr hs)
  · exact Or.inl (Or.inl (Or.inr hs))
  · exact Or.inr hs
  · cases hs

theorem dispatchAttr_store (st : DispatchInputSt) (kv : KV) (v : Node) (hv : v ∈ dispatchAttrScalars kv.id kv.val)
    (hc : (dispatchAttr st kv).2 = []) : Rep v (dispatchAttrK kv.id (dispatchAttr st kv).1) := by
  revert hc
  simp only [dispatchAttr]
  split
  next h => intro hc; simp only [h, dispatchAttrScalars] at hv; simp only [h, dispatchAttrK]; exact (parseString_leaf _ _ v hv hc).mono (by simp)
  next h => intro hc; simp only [h, dispatchAttrScalars] at hv; simp only [h, dispatchAttrK]; exact parseBool_leaf _ v hv hc
  next h => intro hc; simp only [h, dispatchAttrScalars] at hv; simp only [h, dispatchAttrK]; exact (parseString_leaf _ _ v hv hc).mono (by simp)
  next h => simp [h, dispatchAttrScalars] at hv
  next h => intro hc; simp only [h, dispatchAttrScalars] at hv; simp only [h, dispatchAttrK]; exact parseStringSequence_leaf _ _ _ _ v hv hc
  next => intro hc; simp at hc

theorem dispatchInput_leaf (cfg : Cfg) (input : KV) (v : Node) (hv : v ∈ mapScalars input.val dispatchAttrScalars)
    (h : (dispatchInput cfg input).2 = []) : Rep v (dispatchInputStrs (dispatchInput cfg input).1) := by
  simp only [dispatchInput, append_nil_iff] at h ⊢
  obtain ⟨k, hk⟩ := sect_K cfg _ input.val true true dispatchAttr _ dispatchAttrScalars v hv dispatchAttrK h.1 h.2
    (by
      intro kv k st hid hvk hc
      have := hid rfl
      subst this
      exact dispatchAttr_store st kv v hvk hc)
    dispatchAttrK_pres
  exact hk.mono (dispatchAttrK_sub k _ _)

theorem parseWorkflowDispatchEvent_leaf (cfg : Cfg) (pos : Yaml.Pos) (n : Node) (v : Node) (hv : v ∈ dispatchScalars n)
    (h : (parseWorkflowDispatchEvent cfg pos n).2 = []) : Rep v (eventStrs (parseWorkflowDispatchEvent cfg pos n).1) := by
  simp only [parseWorkflowDispatchEvent, parseSectionMapping, append_nil_iff] at h ⊢
  obtain ⟨k, hk⟩ := sect_K cfg _ n true true _ _ dispatchKeyScalars v hv
    (fun k (st : Option (List (String × DispatchInput))) => if k = "inputs" then (st.getD []).flatMap (fun kv => dispatchInputStrs kv.2) else [])
    h.1 h.2
    (by
      intro kv k st hid hvk
      have := hid rfl
      subst this
      by_cases hi : kv.id = "inputs"
      · simp only [hi, ne_eq, not_true_eq_false, ↓reduceIte, append_nil_iff, Option.getD_some]
        simp only [hi, dispatchKeyScalars] at hvk
        intro hc
        obtain ⟨kv', hkv', k', _, hvk'⟩ := mapScalars_clean cfg _ kv.val true false _ v hvk hc.1
        obtain ⟨h1, h2⟩ := mapKVs_clean _ _ hc.2 kv' hkv'
        exact Rep.flatMap h2 (dispatchInput_leaf cfg kv' v hvk' h1)
      · simp [hi])
    (by
      intro k st kv hne s hs
      by_cases hi : kv.id = "inputs"
      · have : k ≠ "inputs" := fun e => hne (hi.trans e.symm)
        simp [this] at hs
      · simpa [hi] using hs)
  simp only [eventStrs]
  split at hk
  · exact hk
  · exact hk.nil.elim

/-! ### `repository_dispatch:` and the webhook events -/

theorem parseRepositoryDispatchEvent_leaf (cfg : Cfg) (pos : Yaml.Pos) (n : Node) (v : Node) (hv : v ∈ plainEventScalars n)
    (h : (parseRepositoryDispatchEvent cfg pos n).2 = []) : Rep v (eventStrs (parseRepositoryDispatchEvent cfg pos n).1) := by
  simp only [parseRepositoryDispatchEvent, parseSectionMapping, append_nil_iff] at h ⊢
  obtain ⟨k, hk⟩ := sect_K cfg _ n true true _ _ _ v hv
    (fun k (st : Option (List Str)) => if k = "types" then st.getD [] else [])
    h.1 h.2
    (by
      intro kv k st hid hvk
      by_cases hi : kv.id = "types"
      · simp only [hi, ↓reduceIte]
        intro hc
        exact parseStringOrStringSequence_leaf _ _ _ v hvk hc
      · simp [hi])
    (by
      intro k st kv hne s hs
      by_cases hi : kv.id = "types"
      · have : k ≠ "types" := fun e => hne (hi.trans e.symm)
        simp [this] at hs
      · simpa [hi] using hs)
  simp only [eventStrs]
  split at hk
  · exact hk
  · exact hk.nil.elim

def webhookK (k : String) (st : WebhookEvent) : List Str :=
  match k with
  | "types" => st.types.getD []
  | "branches" => filterStrs st.branches
  | "branches-ignore" => filterStrs st.branchesIgnore
  | "tags" => filterStrs st.tags
  | "tags-ignore" => filterStrs st.tagsIgnore
  | "paths" => filterStrs st.paths
  | "paths-ignore" => filterStrs st.pathsIgnore
  | "workflows" => st.workflows.getD []
  | _ => []

theorem webhookK_pres (name : Str) (k : String) (st : WebhookEvent) (kv : KV) (hne : kv.id ≠ k) :
    ∀ s ∈ webhookK k st, s ∈ webhookK k (webhookKey name st kv).1 := by
  intro s hs
  simp only [webhookKey]
  split
  all_goals (simp only [webhookK] at hs ⊢; split at hs)
  all_goals first | exact hs | exact absurd ‹kv.id = _› hne

theorem webhookK_sub (k : String) (st : WebhookEvent) : ∀ s ∈ webhookK k st, s ∈ eventStrs (.webhook st) := by
  intro s hs
  simp only [webhookK] at hs
  simp only [eventStrs, List.mem_append]
  split at hs
  all_goals first | (simp only [hs, true_or, or_true]; done) | cases hs

theorem parseWebhookEventFilter_leaf (name : Str) (n : Node) (v : Node) (hv : v ∈ leaves n)
    (h : (parseWebhookEventFilter name n).2 = []) : Rep v (filterStrs (some (parseWebhookEventFilter name n).1)) := by
  simp only [parseWebhookEventFilter] at h ⊢
  exact parseStringOrStringSequence_leaf _ _ _ v hv h

theorem webhookKey_store (name : Str) (st : WebhookEvent) (kv : KV) (v : Node) (hv : v ∈ leaves kv.val)
    (hc : (webhookKey name st kv).2 = []) : Rep v (webhookK kv.id (webhookKey name st kv).1) := by
  revert hc
  simp only [webhookKey]
  split
  next h => intro hc; simp only [h, webhookK]; exact parseStringOrStringSequence_leaf _ _ _ v hv hc
  next h => intro hc; simp only [h, webhookK]; exact parseWebhookEventFilter_leaf _ _ v hv hc
  next h => intro hc; simp only [h, webhookK]; exact parseWebhookEventFilter_leaf _ _ v hv hc
  next h => intro hc; simp only [h, webhookK]; exact parseWebhookEventFilter_leaf _ _ v hv hc
  next h => intro hc; simp only [h, webhookK]; exact parseWebhookEventFilter_leaf _ _ v hv hc
  next h => intro hc; simp only [h, webhookK]; exact parseWebhookEventFilter_leaf _ _ v hv hc
  next h => intro hc; simp only [h, webhookK]; exact parseWebhookEventFilter_leaf _ _ v hv hc
  next h => intro hc; simp only [h, webhookK]; exact parseStringOrStringSequence_leaf _ _ _ v hv hc
  next => intro hc; simp at hc

theorem parseWebhookEvent_leaf (cfg : Cfg) (name : Str) (n : Node) (v : Node) (hv : v ∈ plainEventScalars n)
    (h : (parseWebhookEvent cfg name n).2 = []) : Rep v (eventStrs (parseWebhookEvent cfg name n).1) := by
  simp only [parseWebhookEvent, parseSectionMapping, append_nil_iff] at h ⊢
  obtain ⟨k, hk⟩ := sect_K cfg _ n true true (webhookKey name) _ _ v hv webhookK h.1 h.2
    (fun kv k st _ hvk hc => webhookKey_store name st kv v hvk hc) (webhookK_pres name)
  exact hk.mono (webhookK_sub k _)

/-! ### `workflow_call:` -/

def callInputAttrK (k : String) (st : CallInput × Bool) : List Str :=
  match k with
  | "description" => st.1.description.toList
  | "required" => boolStrs st.1.required
  | "default" => st.1.dflt.toList
  | _ => []

theorem callInputAttrK_pres (k : String) (st : CallInput × Bool) (kv : KV) (hne : kv.id ≠ k) :
    ∀ s ∈ callInputAttrK k st, s ∈ callInputAttrK k (callInputAttr st kv).1 := by
  intro s hs
  simp only [callInputAttr]
  split
  all_goals (try split)
  all_goals (simp only [callInputAttrK] at hs ⊢; split at hs)
  all_goals first | exact hs | exact absurd ‹kv.id = _› hne

theorem callInputAttrK_sub (k : String) (st : CallInput × Bool) : ∀ s ∈ callInputAttrK k st, s ∈ callInputStrs st.1 := by
  intro s hs
  simp only [callInputAttrK] at hs
  simp only [callInputStrs, List.mem_append]
  split at hs
  all_goals first | (simp only [hs, true_or, or_true]; done) | cases hs

theorem callInputAttr_store (st : CallInput × Bool) (kv : KV) (v : Node) (hv : v ∈ callInputAttrScalars kv.id kv.val)
    (hc : (callInputAttr st kv).2 = []) : Rep v (callInputAttrK kv.id (callInputAttr st kv).1) := by
  revert hc
  simp only [callInputAttr]
  split
  next h => intro hc; simp only [h, callInputAttrScalars] at hv; simp only [h, callInputAttrK]; exact (parseString_leaf _ _ v hv hc).mono (by simp)
  next h => intro hc; simp only [h, callInputAttrScalars] at hv; simp only [h, callInputAttrK]; exact parseBool_leaf _ v hv hc
  next h =>
    simp only [h, callInputAttrScalars] at hv; simp only [h, callInputAttrK]
    split
    · rename_i hn; simp [hn] at hv
    · rename_i hn
      intro hc
      simp only [hn, Bool.false_eq_true, ↓reduceIte] at hv
      exact (parseString_leaf _ _ v hv hc).mono (by simp)
  next h => simp [h, callInputAttrScalars] at hv
  next => intro hc; simp at hc

theorem callInput_leaf (cfg : Cfg) (kv : KV) (v : Node) (hv : v ∈ mapScalars kv.val callInputAttrScalars)
    (h : (callInput cfg kv).2 = []) : Rep v (callInputStrs (callInput cfg kv).1) := by
  simp only [callInput, append_nil_iff] at h ⊢
  obtain ⟨k, hk⟩ := sect_K cfg _ kv.val true true callInputAttr _ callInputAttrScalars v hv callInputAttrK h.1.1 h.1.2
    (by
      intro kv k st hid hvk hc
      have := hid rfl
      subst this
      exact callInputAttr_store st kv v hvk hc)
    callInputAttrK_pres
  exact hk.mono (callInputAttrK_sub k _)

theorem callInputs_clean (cfg : Cfg) : ∀ (kvs : List KV), (callInputs cfg kvs).2 = [] →
    ∀ kv ∈ kvs, (callInput cfg kv).2 = [] ∧ (callInput cfg kv).1 ∈ (callInputs cfg kvs).1
  | [], _, kv, hk => by cases hk
  | x :: rest, h, kv, hk => by
    simp only [callInputs, append_nil_iff] at h ⊢
    rcases List.mem_cons.1 hk with rfl | hk
    · exact ⟨h.1, List.mem_cons_self ..⟩
    · obtain ⟨h1, h2⟩ := callInputs_clean cfg rest h.2 kv hk
      exact ⟨h1, List.mem_cons_of_mem _ h2⟩

def callSecretAttrK (k : String) (st : CallSecret) : List Str :=
  match k with
  | "description" => st.description.toList
  | "required" => boolStrs st.required
  | _ => []

theorem callSecretAttrK_pres (k : String) (st : CallSecret) (kv : KV) (hne : kv.id ≠ k) :
    ∀ s ∈ callSecretAttrK k st, s ∈ callSecretAttrK k (callSecretAttr st kv).1 := by
  intro s hs
  simp only [callSecretAttr]
  split
  all_goals (simp only [callSecretAttrK] at hs ⊢; split at hs)
  all_goals first | exact hs | exact absurd ‹kv.id = _› hne

def callSecretStrs (c : CallSecret) : List Str := c.description.toList ++ boolStrs c.required

theorem callSecret_leaf (cfg : Cfg) (kv : KV) (v : Node) (hv : v ∈ mapScalars kv.val callSecretAttrScalars)
    (h : (callSecret cfg kv).2 = []) : Rep v (callSecretStrs (callSecret cfg kv).1) := by
  simp only [callSecret, append_nil_iff] at h ⊢
  obtain ⟨k, hk⟩ := sect_K cfg _ kv.val true true callSecretAttr _ callSecretAttrScalars v hv callSecretAttrK h.1 h.2
    (by
      intro kv k st hid hvk
      have := hid rfl
      subst this
      simp only [callSecretAttr]
      split
      next h => intro hc; simp only [h, callSecretAttrScalars] at hvk; simp only [h, callSecretAttrK]; exact (parseString_leaf _ _ v hvk hc).mono (by simp)
      next h => intro hc; simp only [h, callSecretAttrScalars] at hvk; simp only [h, callSecretAttrK]; exact parseBool_leaf _ v hvk hc
      next => intro hc; simp at hc)
    callSecretAttrK_pres
  refine hk.mono ?_
  intro s hs
  simp only [callSecretAttrK] at hs
  simp only [callSecretStrs, List.mem_append]
  split at hs
  · exact Or.inl hs
  · exact Or.inr hs
  · cases hs

def callOutputAttrK (k : String) (st : CallOutput) : List Str :=
  match k with
  | "description" => st.description.toList
  | "value" => st.value.toList
  | _ => []

theorem callOutputAttrK_pres (k : String) (st : CallOutput) (kv : KV) (hne : kv.id ≠ k) :
    ∀ s ∈ callOutputAttrK k st, s ∈ callOutputAttrK k (callOutputAttr st kv).1 := by
  intro s hs
  simp only [callOutputAttr]
  split
  all_goals (simp only [callOutputAttrK] at hs ⊢; split at hs)
  all_goals first | exact hs | exact absurd ‹kv.id = _› hne

/-- the strings of an output of `workflow_call`: the description (checked with the event) and the value (checked after
the jobs) -/
def callOutputStrs (c : CallOutput) : List Str := c.description.toList ++ c.value.toList

theorem callOutput_leaf (cfg : Cfg) (kv : KV) (v : Node) (hv : v ∈ mapScalars kv.val fun _ z => leaves z)
    (h : (callOutput cfg kv).2 = []) : Rep v (callOutputStrs (callOutput cfg kv).1) := by
  simp only [callOutput, append_nil_iff] at h ⊢
  obtain ⟨k, hk⟩ := sect_K cfg _ kv.val true true callOutputAttr _ _ v hv callOutputAttrK h.1.1 h.1.2
    (by
      intro kv k st _ hvk
      simp only [callOutputAttr]
      split
      next h => intro hc; simp only [h, callOutputAttrK]; exact (parseString_leaf _ _ v hvk hc).mono (by simp)
      next h => intro hc; simp only [h, callOutputAttrK]; exact (parseString_leaf _ _ v hvk hc).mono (by simp)
      next => intro hc; simp at hc)
    callOutputAttrK_pres
  refine hk.mono ?_
  intro s hs
  simp only [callOutputAttrK] at hs
  simp only [callOutputStrs, List.mem_append]
  split at hs
  · exact Or.inl hs
  · exact Or.inr hs
  · cases hs

def callEventK (k : String) (st : CallEventSt) : List Str :=
  match k with
  | "inputs" => (st.inputs.getD []).flatMap callInputStrs
  | "secrets" => (st.secrets.getD []).flatMap fun kv => callSecretStrs kv.2
  | "outputs" => (st.outputs.getD []).flatMap fun kv => callOutputStrs kv.2
  | _ => []

theorem callEventK_pres (cfg : Cfg) (k : String) (st : CallEventSt) (kv : KV) (hne : kv.id ≠ k) :
    ∀ s ∈ callEventK k st, s ∈ callEventK k (callEventKey cfg st kv).1 := by
  intro s hs
  simp only [callEventKey]
  split
  all_goals (simp only [callEventK] at hs ⊢; split at hs)
  all_goals first | exact hs | exact absurd ‹kv.id = _› hne

theorem callEventKey_store (cfg : Cfg) (st : CallEventSt) (kv : KV) (v : Node) (hv : v ∈ callKeyScalars kv.id kv.val)
    (hc : (callEventKey cfg st kv).2 = []) : Rep v (callEventK kv.id (callEventKey cfg st kv).1) := by
  revert hc
  simp only [callEventKey, parseSectionMapping]
  split
  next h =>
    intro hc; simp only [h, callKeyScalars] at hv; simp only [h, callEventK, Option.getD_some]
    simp only [append_nil_iff] at hc
    obtain ⟨kv', hkv', k', _, hvk'⟩ := mapScalars_clean cfg _ kv.val true false _ v hv hc.1
    obtain ⟨h1, h2⟩ := callInputs_clean cfg _ hc.2 kv' hkv'
    exact Rep.flatMap h2 (callInput_leaf cfg kv' v hvk' h1)
  next h =>
    intro hc; simp only [h, callKeyScalars] at hv; simp only [h, callEventK, Option.getD_some]
    simp only [append_nil_iff] at hc
    obtain ⟨kv', hkv', k', _, hvk'⟩ := mapScalars_clean cfg _ kv.val true false _ v hv hc.1
    obtain ⟨h1, h2⟩ := mapKVs_clean _ _ hc.2 kv' hkv'
    exact Rep.flatMap h2 (callSecret_leaf cfg kv' v hvk' h1)
  next h =>
    intro hc; simp only [h, callKeyScalars] at hv; simp only [h, callEventK, Option.getD_some]
    simp only [append_nil_iff] at hc
    obtain ⟨kv', hkv', k', _, hvk'⟩ := mapScalars_clean cfg _ kv.val true false _ v hv hc.1
    obtain ⟨h1, h2⟩ := mapKVs_clean _ _ hc.2 kv' hkv'
    exact Rep.flatMap h2 (callOutput_leaf cfg kv' v hvk' h1)
  next => intro hc; simp at hc

/-- the strings of an event, with the `value:`s of the outputs of `workflow_call` -/
def eventAllStrs (e : Event) : List Str :=
  eventStrs e ++ (match e with
    | .call _ _ outs _ => (outs.getD []).flatMap fun kv => kv.2.value.toList
    | _ => [])

theorem parseWorkflowCallEvent_leaf (cfg : Cfg) (pos : Yaml.Pos) (n : Node) (v : Node) (hv : v ∈ callScalars n)
    (h : (parseWorkflowCallEvent cfg pos n).2 = []) : Rep v (eventAllStrs (parseWorkflowCallEvent cfg pos n).1) := by
  simp only [parseWorkflowCallEvent, parseSectionMapping, append_nil_iff] at h ⊢
  obtain ⟨k, hk⟩ := sect_K cfg _ n true true (callEventKey cfg) _ callKeyScalars v hv callEventK h.1 h.2
    (by
      intro kv k st hid hvk hc
      have := hid rfl
      subst this
      exact callEventKey_store cfg st kv v hvk hc)
    (callEventK_pres cfg)
  refine hk.mono ?_
  intro s hs
  simp only [callEventK] at hs
  simp only [eventAllStrs, eventStrs, List.mem_append]
  split at hs
  · exact Or.inl (Or.inl (Or.inl hs))
  · refine Or.inl (Or.inl (Or.inr ?_))
    simpa [callSecretStrs] using hs
  · simp only [List.mem_flatMap, callOutputStrs, List.mem_append] at hs
    obtain ⟨kv, hkv, hs | hs⟩ := hs
    · exact Or.inl (Or.inr (List.mem_flatMap.2 ⟨kv, hkv, hs⟩))
    · exact Or.inr (List.mem_flatMap.2 ⟨kv, hkv, hs⟩)
  · cases hs

/-! ### `on:` -/

def outVals (o : Option (List (String × CallOutput))) : List Str :=
  match o with
  | some outs => outs.flatMap fun kv => kv.2.value.toList
  | none => []

/-- the strings of the events, with the output values of the (first) `workflow_call` event — what the rule looks at -/
def onStrs (es : List Event) : List Str := es.flatMap eventStrs ++ outVals (AL.RuleExpr.findCallOutputs es)

theorem findCallOutputs_append_some (o : List (String × CallOutput)) : ∀ (es l : List Event),
    AL.RuleExpr.findCallOutputs es = some o → AL.RuleExpr.findCallOutputs (es ++ l) = some o
  | [], _, h => by simp [AL.RuleExpr.findCallOutputs] at h
  | e :: es, l, h => by
    cases e <;> simp only [List.cons_append, AL.RuleExpr.findCallOutputs] at h ⊢ <;>
      first | exact h | exact findCallOutputs_append_some o es l h

theorem findCallOutputs_append_none : ∀ (es l : List Event),
    AL.RuleExpr.findCallOutputs es = none → AL.RuleExpr.findCallOutputs (es ++ l) = AL.RuleExpr.findCallOutputs l
  | [], _, _ => rfl
  | e :: es, l, h => by
    cases e <;> simp only [List.cons_append, AL.RuleExpr.findCallOutputs] at h ⊢ <;>
      first | exact findCallOutputs_append_none es l h | cases h

theorem onStrs_mono (es l : List Event) : ∀ s ∈ onStrs es, s ∈ onStrs (es ++ l) := by
  intro s hs
  simp only [onStrs, List.mem_append, List.flatMap_append] at hs ⊢
  rcases hs with hs | hs
  · exact Or.inl (Or.inl hs)
  · cases hf : AL.RuleExpr.findCallOutputs es with
    | none => simp [hf, outVals] at hs
    | some o =>
      rw [findCallOutputs_append_some o es l hf]
      rw [hf] at hs
      exact Or.inr hs

theorem onStrs_snoc (es : List Event) (e : Event) (hn : AL.RuleExpr.findCallOutputs es = none) :
    ∀ s ∈ eventAllStrs e, s ∈ onStrs (es ++ [e]) := by
  intro s hs
  simp only [onStrs, List.mem_append, List.flatMap_append, List.flatMap_cons, List.flatMap_nil, List.append_nil]
  simp only [eventAllStrs, List.mem_append] at hs
  rcases hs with hs | hs
  · exact Or.inl (Or.inr hs)
  · rw [findCallOutputs_append_none es [e] hn]
    cases e <;> first | cases hs | exact Or.inr hs

theorem onStrs_snoc' (es : List Event) (e : Event) : ∀ s ∈ eventStrs e, s ∈ onStrs (es ++ [e]) := by
  intro s hs
  simp only [onStrs, List.mem_append, List.flatMap_append, List.flatMap_cons, List.flatMap_nil, List.append_nil]
  exact Or.inl (Or.inr hs)

theorem eventsOfSeq_clean : ∀ (cs : List Node), (eventsOfSeq cs).2 = [] → ∀ c ∈ cs, c.kind = .scalar
  | [], _, c, hc => by cases hc
  | x :: rest, h, c, hc => by
    simp only [eventsOfSeq] at h
    have h1 : (parseString x false).2 = [] ∧ (eventsOfSeq rest).2 = [] := by
      split at h <;> simp only [append_nil_iff] at h <;> first | exact h | exact ⟨h.1.1, h.2⟩
    rcases List.mem_cons.1 hc with rfl | hc
    · exact (parseString_clean _ _ h1.1).1
    · exact eventsOfSeq_clean rest h1.2 c hc

theorem parseScheduleEvent_kind (cfg : Cfg) (pos : Yaml.Pos) (n : Node) (ev : Event)
    (h : (parseScheduleEvent cfg pos n).1 = some ev) : AL.RuleExpr.findCallOutputs [ev] = none := by
  simp only [parseScheduleEvent] at h
  split at h
  · cases h
  · cases h; rfl

theorem eventOfKey_notcall (cfg : Cfg) (st : List Event) (kv : KV) (hne : kv.id ≠ "workflow_call")
    (h : AL.RuleExpr.findCallOutputs st = none) : AL.RuleExpr.findCallOutputs (eventOfKey cfg st kv).1 = none := by
  simp only [eventOfKey]
  split
  · split
    · rename_i hev
      rw [findCallOutputs_append_none _ _ h]; exact parseScheduleEvent_kind cfg _ _ _ hev
    · exact h
  · rw [findCallOutputs_append_none _ _ h]; rfl
  · rw [findCallOutputs_append_none _ _ h]; rfl
  · exact absurd ‹kv.id = _› hne
  · rw [findCallOutputs_append_none _ _ h]; rfl

theorem eventOfKey_store (cfg : Cfg) (st : List Event) (kv : KV) (v : Node) (hv : v ∈ eventScalars kv.id kv.val)
    (hI : kv.id = "workflow_call" → AL.RuleExpr.findCallOutputs st = none)
    (hc : (eventOfKey cfg st kv).2 = []) : Rep v (onStrs (eventOfKey cfg st kv).1) := by
  revert hc
  simp only [eventOfKey]
  split
  next h =>
    intro hc
    simp only [h, eventScalars] at hv
    obtain ⟨e, he, hrep⟩ := parseScheduleEvent_leaf cfg _ _ v hv hc
    simp only [he]
    exact hrep.mono (onStrs_snoc' st e)
  next h =>
    intro hc
    simp only [h, eventScalars] at hv
    exact (parseWorkflowDispatchEvent_leaf cfg _ _ v hv hc).mono (onStrs_snoc' st _)
  next h =>
    intro hc
    simp only [h, eventScalars] at hv
    exact (parseRepositoryDispatchEvent_leaf cfg _ _ v hv hc).mono (onStrs_snoc' st _)
  next h =>
    intro hc
    simp only [h, eventScalars] at hv
    exact (parseWorkflowCallEvent_leaf cfg _ _ v hv hc).mono (onStrs_snoc st _ (hI h))
  next h1 h2 h3 h4 =>
    intro hc
    have : eventScalars kv.id kv.val = plainEventScalars kv.val := by
      simp only [eventScalars]
      try (split <;> first | exact absurd ‹kv.id = _› h1 | exact absurd ‹kv.id = _› h2 | exact absurd ‹kv.id = _› h3 | exact absurd ‹kv.id = _› h4 | rfl)
    rw [this] at hv
    exact (parseWebhookEvent_leaf cfg _ _ v hv hc).mono (onStrs_snoc' st _)

theorem eventOfKey_mono (cfg : Cfg) (st : List Event) (kv : KV) : ∀ s ∈ onStrs st, s ∈ onStrs (eventOfKey cfg st kv).1 := by
  intro s hs
  simp only [eventOfKey]
  split
  · split
    · exact onStrs_mono _ _ s hs
    · exact hs
  all_goals exact onStrs_mono _ _ s hs

/-- **`on:`** — every value scalar of the section is a string of one of the events, or `parseEvents` reports -/
theorem parseEvents_leaf (cfg : Cfg) (pos : Yaml.Pos) (n : Node) (v : Node) (hv : v ∈ onScalars n)
    (h : (parseEvents cfg pos n).2 = []) : Rep v (onStrs ((parseEvents cfg pos n).1.getD [])) := by
  simp only [onScalars] at hv
  simp only [parseEvents, parseSectionMapping] at h ⊢
  split at h
  · rename_i hk
    simp [hk] at hv
  · rename_i hk
    simp only [hk] at hv
    simp only [append_nil_iff] at h
    simp only [Option.getD_some]
    obtain ⟨k, hq⟩ := sect_keyed cfg _ n false true (eventOfKey cfg) [] eventScalars v hv
      (fun k st => k = "workflow_call" → AL.RuleExpr.findCallOutputs st = none) (fun _ st => Rep v (onStrs st))
      (fun _ _ => rfl) h.1 h.2
      (by
        intro kv k hid hvk
        have := hid rfl
        subst this
        refine ⟨?_, fun st hI hc => eventOfKey_store cfg st kv v hvk hI hc, fun st kv' _ hq _ => hq.mono (eventOfKey_mono cfg st kv')⟩
        intro st kv' hne hI hl
        exact eventOfKey_notcall cfg st kv' (by rw [← hl]; exact hne) (hI hl))
    exact hq
  · rename_i hk
    simp only [hk, List.mem_flatMap] at hv
    obtain ⟨c, hc, hvc⟩ := hv
    simp only [append_nil_iff] at h
    have := eventsOfSeq_clean _ h.2 c hc
    simp [this] at hvc
  · rename_i k h1 h2 h3
    cases hk : n.kind <;> simp_all

end AL.C03P
