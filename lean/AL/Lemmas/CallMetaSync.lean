import AL.Model.CallMeta
import AL.Lemmas.ParseWfLoop
/-
  Lemmas for AL.Props.C10Meta: the parser's loops over a mapping it accepts without a diagnostic (`mappingLoop`, `loop`)
  run in lock-step with yaml.v3's struct-filling loop (`structLoop`) over the same mapping (`struct_sync`); instantiated for
  the attributes of an input, of a secret, and for the three sections of `workflow_call:`.
  `Sane` / `SaneTo` state what yaml.v3 guarantees about the nodes of the tree it builds (the harness checks it on every
  generated tree).
-/

namespace AL.C10M
open AL.Yaml AL.Ast AL.PW AL.CallMeta

/-- what `gopkg.in/yaml.v3` guarantees about a node of the tree it builds (checked on every generated tree by the
harness), minus the two things the model does not follow (alias, `!!binary`) -/
structure Sane (n : Node) : Prop where
  notAlias : n.kind ≠ .alias
  notBinary : n.tag ≠ "!!binary"
  leaf : n.kind = .scalar → n.content = []
  noValue : n.kind ≠ .scalar → n.value = ""
  nullValue : n.tag = "!!null" → n.value ∈ nullWords
  boolValue : n.tag = "!!bool" → n.value ∈ boolWords

def SaneTo : Nat → Node → Prop
  | 0, n => Sane n
  | d + 1, n => Sane n ∧ ∀ q ∈ pairs n.content, SaneTo d q.1 ∧ SaneTo d q.2

theorem SaneTo.sane {d : Nat} {n : Node} (h : SaneTo d n) : Sane n := by
  cases d with
  | zero => exact h
  | succ d => exact h.1

theorem parseString_clean (k : Node) (h : (parseString k false).2 = []) :
    k.kind = .scalar ∧ k.value ≠ "" ∧ (parseString k false).1 = newString k := by
  simp only [parseString, checkString] at h ⊢
  by_cases hk : k.kind = .scalar
  · by_cases hv : k.value = ""
    · simp [hk, hv] at h
    · simp [hk, hv]
  · simp [hk] at h

def idOf (cfg : Cfg) (cs : Bool) (k : Node) : String := if cs then k.value else cfg.lower k.value

theorem mappingLoop_clean_cons (cfg : Cfg) (what : String) (cs : Bool) (k v : Node) (rest : List (Node × Node))
    (seen : List (String × Pos)) (h : (mappingLoop cfg what cs ((k, v) :: rest) seen).2 = []) :
    k.kind = .scalar ∧ k.value ≠ "" ∧ lookupSeen (idOf cfg cs k) seen = none ∧
    (mappingLoop cfg what cs ((k, v) :: rest) seen).1 =
      ⟨idOf cfg cs k, newString k, v⟩ :: (mappingLoop cfg what cs rest (seen ++ [(idOf cfg cs k, k.pos)])).1 ∧
    (mappingLoop cfg what cs rest (seen ++ [(idOf cfg cs k, k.pos)])).2 = [] := by
  rw [mappingLoop_cons] at h ⊢
  cases hl : lookupSeen (keyId cfg cs k) seen with
  | some p => simp [hl] at h
  | none =>
    simp only [hl] at h ⊢
    have h1 : (parseString k false).2 = [] := (List.append_eq_nil_iff.mp h).1
    have h2 := (List.append_eq_nil_iff.mp h).2
    obtain ⟨hk, hv, hs⟩ := parseString_clean k h1
    have hid : keyId cfg cs k = idOf cfg cs k := by simp [keyId, idOf, hs, newString]
    have hp : (parseString k false).1.pos = k.pos := by simp [hs, newString]
    rw [hid] at hl h2 ⊢
    rw [hp] at h2 ⊢
    exact ⟨hk, hv, hl, by rw [hs], h2⟩

theorem parseMapping_clean (cfg : Cfg) (what : String) (n : Node) (cs : Bool)
    (h : (parseMapping cfg what n true cs).2 = []) :
    (n.isNull = true ∨ n.kind = .mapping) ∧
    (parseMapping cfg what n true cs).1 = (mappingLoop cfg what cs (pairs n.content) []).1 ∧
    (mappingLoop cfg what cs (pairs n.content) []).2 = [] := by
  simp only [parseMapping] at h ⊢
  by_cases h1 : n.isNull = true
  · simp [h1] at h ⊢; exact h
  · by_cases h2 : n.kind = .mapping
    · simp [h1, h2] at h ⊢; exact h
    · simp [h1, h2] at h

theorem clean_noDup (cfg : Cfg) (what : String) : ∀ (l : List (Node × Node)) (seen : List (String × Pos)),
    (mappingLoop cfg what true l seen).2 = [] →
    hasDupKey l = false ∧ ∀ q ∈ l, lookupSeen q.1.value seen = none := by
  intro l
  induction l with
  | nil => intro seen _; simp [hasDupKey]
  | cons q rest ih =>
    obtain ⟨k, v⟩ := q
    intro seen h
    obtain ⟨_, _, hl, _, hr⟩ := mappingLoop_clean_cons cfg what true k v rest seen h
    simp only [idOf, if_true] at hl hr
    obtain ⟨hd, hall⟩ := ih _ hr
    have hne : ∀ q ∈ rest, q.1.value ≠ k.value ∧ lookupSeen q.1.value seen = none := by
      intro q hq
      have := hall q hq
      rw [lookupSeen_snoc] at this
      cases hq2 : lookupSeen q.1.value seen with
      | some p => simp [hq2] at this
      | none =>
        simp only [hq2] at this
        by_cases he : k.value = q.1.value
        · simp [he] at this
        · exact ⟨fun e => he e.symm, rfl⟩
    refine ⟨?_, ?_⟩
    · simp only [hasDupKey, hd, Bool.or_false]
      rw [List.any_eq_false]
      intro q hq
      have := (hne q hq).1
      simp [this]
    · intro q hq
      rcases List.mem_cons.mp hq with rfl | hq
      · exact hl
      · exact (hne q hq).2

/-- the loop of a section parser over the keys of a mapping the parser accepts, and yaml.v3's loop that fills a struct
from the same mapping, step by step -/
theorem struct_sync {σa σy : Type} (cfg : Cfg) (what : String) (fields allowed : List String)
    (step : σa → KV → σa × List PErr) (set : σy → String → Node → D σy)
    (Rel : List (String × Pos) → σa → σy → Prop) (P : Node → Node → Prop)
    (hallowed : ∀ a ∈ allowed, a ≠ "<<" ∧ a ∉ nullWords)
    (hstep : ∀ (seen : List (String × Pos)) (sa : σa) (sy : σy) (k v : Node), Rel seen sa sy → k.kind = .scalar →
        lookupSeen k.value seen = none → P k v →
        (step sa ⟨k.value, newString k, v⟩).2 = [] →
        k.value ∈ allowed ∧
        (k.value ∈ fields → ∃ sy', set sy k.value v = .ok sy' ∧
            Rel (seen ++ [(k.value, k.pos)]) (step sa ⟨k.value, newString k, v⟩).1 sy') ∧
        (k.value ∉ fields → Rel (seen ++ [(k.value, k.pos)]) (step sa ⟨k.value, newString k, v⟩).1 sy)) :
    ∀ (l : List (Node × Node)) (seen : List (String × Pos)) (done : List String) (sa : σa) (sy : σy),
      (mappingLoop cfg what true l seen).2 = [] →
      (loop step sa (mappingLoop cfg what true l seen).1).2 = [] →
      (∀ q ∈ l, Sane q.1 ∧ P q.1 q.2) →
      (∀ name ∈ done, lookupSeen name seen ≠ none) →
      Rel seen sa sy →
      ∃ sy', structLoop fields set l done sy = .ok sy' ∧
        ∃ seen', Rel seen' (loop step sa (mappingLoop cfg what true l seen).1).1 sy' := by
  intro l
  induction l with
  | nil =>
    intro seen done sa sy _ _ _ _ hrel
    exact ⟨sy, rfl, seen, by simpa [mappingLoop] using hrel⟩
  | cons q rest ih =>
    obtain ⟨k, v⟩ := q
    intro seen done sa sy hm hl hP hdone hrel
    obtain ⟨hk, _, hls, hkvs, hr⟩ := mappingLoop_clean_cons cfg what true k v rest seen hm
    simp only [idOf, if_true] at hls hkvs hr
    rw [hkvs, loop_cons] at hl
    rw [hkvs, loop_cons]
    have hs1 := (List.append_eq_nil_iff.mp hl).1
    have hs2 := (List.append_eq_nil_iff.mp hl).2
    obtain ⟨hsane, hp⟩ := hP (k, v) (by simp)
    obtain ⟨hal, hin, hout⟩ := hstep seen sa sy k v hrel hk hls hp hs1
    obtain ⟨hne, hnn⟩ := hallowed _ hal
    have hmerge : isMerge k = false := by simp [isMerge, hne]
    have hdec : decStr k = .ok k.value := by
      have htag : k.tag ≠ "!!null" := fun e => hnn (hsane.nullValue e)
      simp [decStr, hk, htag, hsane.notBinary]
    have hdone' : ∀ name ∈ k.value :: done, lookupSeen name (seen ++ [(k.value, k.pos)]) ≠ none := by
      intro name hn
      rw [lookupSeen_snoc]
      rcases List.mem_cons.mp hn with rfl | hn
      · simp [hls]
      · cases hq : lookupSeen name seen with
        | some p => simp
        | none => exact absurd hq (hdone name hn)
    have hP' : ∀ q ∈ rest, Sane q.1 ∧ P q.1 q.2 := fun q hq => hP q (List.mem_cons_of_mem _ hq)
    simp only [structLoop, hmerge, hdec]
    by_cases hf : k.value ∈ fields
    · have hnd : k.value ∉ done := fun hd => hdone _ hd hls
      obtain ⟨sy1, hset, hrel1⟩ := hin hf
      simp only [hf, hnd, hset, if_true, if_false]
      exact ih _ (k.value :: done) _ sy1 hr hs2 hP' hdone' hrel1
    · simp only [hf, if_false]
      refine ih _ done _ sy hr hs2 hP' ?_ (hout hf)
      intro name hn
      exact hdone' name (List.mem_cons_of_mem _ hn)

end AL.C10M

namespace AL.C10M
open AL.Yaml AL.Ast AL.PW AL.CallMeta

theorem nil_of_append_nil {α : Type} {a b : List α} (h : a ++ b = []) : a = [] ∧ b = [] := List.append_eq_nil_iff.mp h

/-- `parseBool` accepts the node as a literal: a `!!bool` scalar -/
theorem parseBool_clean (v : Node) (hs : Sane v) (hstr : v.tag ≠ "!!str") (h : (parseBool v).2 = []) :
    decBool v = .ok (boolOf (parseBool v).1) := by
  simp only [parseBool] at h ⊢
  by_cases hk : v.kind = .scalar
  · by_cases hb : v.tag = "!!bool"
    · have hv := hs.boolValue hb
      have hn : v.tag ≠ "!!null" := by rw [hb]; decide
      have hbin : v.tag ≠ "!!binary" := hs.notBinary
      simp only [boolWords, List.mem_cons, List.not_mem_nil, or_false] at hv
      rcases hv with e | e | e | e | e | e <;>
        simp [decBool, hk, hb, e, boolOf, asciiLower] <;> decide
    · simp [hk, hb, hstr] at h
  · simp [hk] at h

def InRel (seen : List (String × Pos)) (sa : CallInput × Bool) (sy : InSt) : Prop :=
  sy.required = boolOf sa.1.required ∧ sy.dflt.isSome = sa.1.dflt.isSome ∧ tyOfString sy.ty = tyOfAst sa.1.type ∧
  (lookupSeen "default" seen = none → sa.1.dflt = none)

def InP (k v : Node) : Prop := Sane v ∧ (k.value = "required" → v.tag ≠ "!!str")

theorem lookup_default_snoc (seen : List (String × Pos)) (name : String) (p : Pos) (hne : name ≠ "default")
    (h : lookupSeen "default" (seen ++ [(name, p)]) = none) : lookupSeen "default" seen = none := by
  rw [lookupSeen_snoc] at h
  cases hq : lookupSeen "default" seen with
  | some q => simp [hq] at h
  | none => rfl

theorem input_step (seen : List (String × Pos)) (sa : CallInput × Bool) (sy : InSt) (k v : Node)
    (hrel : InRel seen sa sy) (_hk : k.kind = .scalar) (hls : lookupSeen k.value seen = none) (hp : InP k v)
    (hc : (callInputAttr sa ⟨k.value, newString k, v⟩).2 = []) :
    k.value ∈ ["description", "required", "default", "type"] ∧
    (k.value ∈ ["required", "default", "type"] → ∃ sy', setInput sy k.value v = .ok sy' ∧
        InRel (seen ++ [(k.value, k.pos)]) (callInputAttr sa ⟨k.value, newString k, v⟩).1 sy') ∧
    (k.value ∉ ["required", "default", "type"] →
        InRel (seen ++ [(k.value, k.pos)]) (callInputAttr sa ⟨k.value, newString k, v⟩).1 sy) := by
  obtain ⟨hr1, hr2, hr3, hr4⟩ := hrel
  obtain ⟨hsv, hreq⟩ := hp
  by_cases h1 : k.value = "description"
  · simp only [callInputAttr, h1] at hc ⊢
    refine ⟨by simp, fun h => absurd h (by decide), fun _ => ⟨hr1, hr2, hr3, ?_⟩⟩
    intro h; exact hr4 (lookup_default_snoc seen _ _ (by decide) h)
  by_cases h2 : k.value = "required"
  · simp only [callInputAttr, h2] at hc ⊢
    have hb := parseBool_clean v hsv (hreq h2) hc
    refine ⟨by simp, fun _ => ⟨{ sy with required := boolOf (parseBool v).1 }, ?_, ?_⟩, fun h => absurd (by simp) h⟩
    · simp [setInput, hb, Except.map]
    · refine ⟨rfl, hr2, hr3, ?_⟩
      intro h; exact hr4 (lookup_default_snoc seen _ _ (by decide) h)
  by_cases h3 : k.value = "default"
  · rw [h3] at hls
    have hd0 := hr4 hls
    simp only [callInputAttr, h3] at hc ⊢
    by_cases hn : v.isNull = true
    · simp only [hn, if_true] at hc ⊢
      refine ⟨by simp, fun _ => ⟨{ sy with dflt := none }, ?_, ?_⟩, fun h => absurd (by simp) h⟩
      · simp [setInput, decStrPtr, hn, Except.map]
      · refine ⟨hr1, by simp [hd0], hr3, fun _ => hd0⟩
    · simp only [hn] at hc ⊢
      simp only [Bool.false_eq_true, if_false] at hc ⊢
      have hkind : v.kind = .scalar := by
        simp only [parseString, checkString] at hc
        by_cases hk : v.kind = .scalar
        · exact hk
        · simp [hk] at hc
      have htag : v.tag ≠ "!!null" := by
        intro e; apply hn; simp [Node.isNull, hkind, e]
      refine ⟨by simp, fun _ => ⟨{ sy with dflt := some v.value }, ?_, ?_⟩, fun h => absurd (by simp) h⟩
      · simp [setInput, decStrPtr, hn, decStr, hkind, htag, hsv.notBinary, Except.map]
      · refine ⟨hr1, by simp, hr3, ?_⟩
        intro h
        rw [lookupSeen_snoc, hls] at h
        simp at h
  by_cases h4 : k.value = "type"
  · simp only [callInputAttr, h4] at hc ⊢
    have hkind : v.kind = .scalar := by
      by_cases hk : v.kind = .scalar
      · exact hk
      · exfalso
        have := hsv.noValue hk
        rw [this] at hc
        simp at hc
    have key : ∀ t : String, t ∈ ["boolean", "number", "string"] → v.value = t →
        (∃ sy', setInput sy "type" v = .ok sy' ∧
          InRel (seen ++ [("type", k.pos)])
            (match v.value with
              | "boolean" => (({ sa.1 with type := .boolean }, true), [])
              | "number" => (({ sa.1 with type := .number }, true), [])
              | "string" => (({ sa.1 with type := .string }, true), [])
              | v' => ((sa.1, true), [errAt v "call-input-type" [v']])).1 sy') := by
      intro t ht hv
      have htag : v.tag ≠ "!!null" := by
        intro e
        have := hsv.nullValue e
        rw [hv] at this
        simp only [List.mem_cons, List.not_mem_nil, or_false] at ht
        rcases ht with rfl | rfl | rfl <;> simp [nullWords] at this
      refine ⟨{ sy with ty := v.value }, by simp [setInput, decStr, hkind, htag, hsv.notBinary, Except.map], ?_⟩
      simp only [List.mem_cons, List.not_mem_nil, or_false] at ht
      rcases ht with rfl | rfl | rfl <;> simp only [hv] <;>
        exact ⟨hr1, hr2, by simp [tyOfString, tyOfAst, hv],
          fun h => hr4 (lookup_default_snoc seen _ _ (by decide) h)⟩
    by_cases t1 : v.value = "boolean"
    · exact ⟨by simp, fun _ => key "boolean" (by simp) t1, fun h => absurd (by simp) h⟩
    by_cases t2 : v.value = "number"
    · exact ⟨by simp, fun _ => key "number" (by simp) t2, fun h => absurd (by simp) h⟩
    by_cases t3 : v.value = "string"
    · exact ⟨by simp, fun _ => key "string" (by simp) t3, fun h => absurd (by simp) h⟩
    · exfalso
      revert hc
      split <;> simp_all
  · exfalso
    simp only [callInputAttr] at hc
    simp at hc

end AL.C10M

namespace AL.C10M
open AL.Yaml AL.Ast AL.PW AL.CallMeta

theorem loop_inv' {σ : Type} (step : σ → KV → σ × List PErr) (P : σ → Prop) (kvs : List KV)
    (h : ∀ s kv, P s → P (step s kv).1) : ∀ init, P init → P (loop step init kvs).1 := by
  induction kvs with
  | nil => intro init h0; exact h0
  | cons kv rest ih =>
    intro init h0
    rw [loop_cons]
    exact ih _ (h init kv h0)

theorem callInputAttr_keeps (st : CallInput × Bool) (attr : KV) :
    (callInputAttr st attr).1.1.name = st.1.name ∧ (callInputAttr st attr).1.1.id = st.1.id := by
  simp only [callInputAttr]
  split
  · simp
  · simp
  · split <;> simp
  · split <;> simp
  · simp

/-- the pairs of a null node (a scalar) -/
theorem pairs_of_null (v : Node) (hs : Sane v) (hn : v.isNull = true) : pairs v.content = [] := by
  have hk : v.kind = .scalar := by
    simp only [Node.isNull, Bool.and_eq_true, decide_eq_true_eq] at hn
    exact hn.1
  rw [hs.leaf hk]; rfl

theorem null_tag (v : Node) (hn : v.isNull = true) : v.kind = .scalar ∧ v.tag = "!!null" := by
  simpa [Node.isNull] using hn

def NoPH (v : Node) : Prop := ∀ a ∈ pairs v.content, a.1.value = "required" → a.2.tag ≠ "!!str"

theorem input_entry (cfg : Cfg) (k v : Node) (id : String) (hs : SaneTo 1 v) (hnp : NoPH v)
    (hc : (callInput cfg ⟨id, newString k, v⟩).2 = []) :
    ∃ r, decInput v = .ok r ∧
      inputOfAst (callInput cfg ⟨id, newString k, v⟩).1 = ⟨k.value, r.1, r.2⟩ ∧
      (callInput cfg ⟨id, newString k, v⟩).1.id = id := by
  simp only [callInput] at hc ⊢
  obtain ⟨hc1, hc3⟩ := nil_of_append_nil hc
  obtain ⟨hm, hl⟩ := nil_of_append_nil hc1
  obtain ⟨hkind, hm1, hm2⟩ := parseMapping_clean cfg _ v true hm
  rw [hm1] at hl ⊢
  have hkeep := loop_inv' callInputAttr (fun st => st.1.name = newString k ∧ st.1.id = id)
    (mappingLoop cfg "input of workflow_call event" true (pairs v.content) []).1
    (fun s kv hp => by
      obtain ⟨h1, h2⟩ := callInputAttr_keeps s kv
      exact ⟨h1.trans hp.1, h2.trans hp.2⟩)
    ({ name := newString k, id := id }, false) ⟨rfl, rfl⟩
  have hsv : Sane v := hs.sane
  have hsync := struct_sync cfg "input of workflow_call event" ["required", "default", "type"]
    ["description", "required", "default", "type"] callInputAttr setInput InRel InP
    (by intro a ha; simp only [List.mem_cons, List.not_mem_nil, or_false] at ha
        rcases ha with rfl | rfl | rfl | rfl <;> simp [nullWords])
    input_step (pairs v.content) [] [] ({ name := newString k, id := id }, false) {} hm2 hl
    (by intro q hq
        have := hs.2 q hq
        exact ⟨this.1, this.2, hnp q hq⟩)
    (by simp)
    ⟨rfl, rfl, rfl, fun _ => rfl⟩
  obtain ⟨sy', hdec, seen', hr1, hr2, hr3, _⟩ := hsync
  have hnd := (clean_noDup cfg _ (pairs v.content) [] hm2).1
  have hdecode : structDecode ["required", "default", "type"] setInput {} v = .ok sy' := by
    rcases hkind with hn | hmap
    · obtain ⟨hk, ht⟩ := null_tag v hn
      have hp := pairs_of_null v hsv hn
      rw [hp] at hdec
      simp only [structLoop] at hdec
      simp [structDecode, hk, ht, ← hdec]
    · simp [structDecode, hmap, hnd, hdec]
  refine ⟨(sy'.required && sy'.dflt.isNone, tyOfString sy'.ty), by simp [decInput, hdecode, Except.map], ?_, hkeep.2⟩
  have : sy'.dflt.isNone = (loop callInputAttr ({ name := newString k, id := id }, false)
      (mappingLoop cfg "input of workflow_call event" true (pairs v.content) []).1).1.1.dflt.isNone := by
    cases h1 : sy'.dflt <;> cases h2 : (loop callInputAttr ({ name := newString k, id := id }, false)
      (mappingLoop cfg "input of workflow_call event" true (pairs v.content) []).1).1.1.dflt <;> simp_all
  simp only [inputOfAst]
  rw [hkeep.1]
  simp [this, newString, hr1, hr3]

end AL.C10M

namespace AL.C10M
open AL.Yaml AL.Ast AL.PW AL.CallMeta

/-! ### secrets -/

def SecRel (_seen : List (String × Pos)) (sa : CallSecret) (sy : SecSt) : Prop := sy.required = boolOf sa.required

theorem secret_step (seen : List (String × Pos)) (sa : CallSecret) (sy : SecSt) (k v : Node)
    (hrel : SecRel seen sa sy) (_hk : k.kind = .scalar) (_hls : lookupSeen k.value seen = none) (hp : InP k v)
    (hc : (callSecretAttr sa ⟨k.value, newString k, v⟩).2 = []) :
    k.value ∈ ["description", "required"] ∧
    (k.value ∈ ["name", "required"] → ∃ sy', setSecret sy k.value v = .ok sy' ∧
        SecRel (seen ++ [(k.value, k.pos)]) (callSecretAttr sa ⟨k.value, newString k, v⟩).1 sy') ∧
    (k.value ∉ ["name", "required"] →
        SecRel (seen ++ [(k.value, k.pos)]) (callSecretAttr sa ⟨k.value, newString k, v⟩).1 sy) := by
  obtain ⟨hsv, hreq⟩ := hp
  by_cases h1 : k.value = "description"
  · simp only [callSecretAttr, h1] at hc ⊢
    exact ⟨by simp, fun h => absurd h (by decide), fun _ => hrel⟩
  by_cases h2 : k.value = "required"
  · simp only [callSecretAttr, h2] at hc ⊢
    have hb := parseBool_clean v hsv (hreq h2) hc
    refine ⟨by simp, fun _ => ⟨{ sy with required := boolOf (parseBool v).1 }, ?_, rfl⟩, fun h => absurd (by simp) h⟩
    simp [setSecret, hb, Except.map]
  · exfalso
    simp only [callSecretAttr] at hc
    simp at hc

theorem callSecretAttr_keeps (st : CallSecret) (attr : KV) : (callSecretAttr st attr).1.name = st.name := by
  simp only [callSecretAttr]
  split <;> simp

theorem secret_entry (cfg : Cfg) (k v : Node) (id : String) (hs : SaneTo 1 v) (hnp : NoPH v)
    (hc : (callSecret cfg ⟨id, newString k, v⟩).2 = []) :
    decSecret v = .ok (boolOf (callSecret cfg ⟨id, newString k, v⟩).1.required) ∧
      (callSecret cfg ⟨id, newString k, v⟩).1.name = newString k := by
  simp only [callSecret] at hc ⊢
  obtain ⟨hm, hl⟩ := nil_of_append_nil hc
  obtain ⟨hkind, hm1, hm2⟩ := parseMapping_clean cfg _ v true hm
  rw [hm1] at hl ⊢
  have hkeep := loop_inv' callSecretAttr (fun st => st.name = newString k)
    (mappingLoop cfg "secret of workflow_call event" true (pairs v.content) []).1
    (fun s kv hp => (callSecretAttr_keeps s kv).trans hp) { name := newString k } rfl
  have hsv : Sane v := hs.sane
  have hsync := struct_sync cfg "secret of workflow_call event" ["name", "required"]
    ["description", "required"] callSecretAttr setSecret SecRel InP
    (by intro a ha; simp only [List.mem_cons, List.not_mem_nil, or_false] at ha
        rcases ha with rfl | rfl <;> simp [nullWords])
    secret_step (pairs v.content) [] [] { name := newString k } {} hm2 hl
    (by intro q hq
        have := hs.2 q hq
        exact ⟨this.1, this.2, hnp q hq⟩)
    (by simp) rfl
  obtain ⟨sy', hdec, seen', hr⟩ := hsync
  have hnd := (clean_noDup cfg _ (pairs v.content) [] hm2).1
  have hdecode : structDecode ["name", "required"] setSecret {} v = .ok sy' := by
    rcases hkind with hn | hmap
    · obtain ⟨hk, ht⟩ := null_tag v hn
      have hp := pairs_of_null v hsv hn
      rw [hp] at hdec
      simp only [structLoop] at hdec
      simp [structDecode, hk, ht, ← hdec]
    · simp [structDecode, hmap, hnd, hdec]
  refine ⟨?_, hkeep⟩
  simp only [SecRel] at hr
  simp [decSecret, hdecode, Except.map, hr]

/-! ### outputs -/

theorem callOutputAttr_keeps (st : CallOutput) (attr : KV) : (callOutputAttr st attr).1.name = st.name := by
  simp only [callOutputAttr]
  split <;> simp

theorem output_entry (cfg : Cfg) (kv : KV) : (callOutput cfg kv).1.name = kv.key := by
  simp only [callOutput]
  exact loop_inv' callOutputAttr (fun st => st.name = kv.key) _
    (fun s a hp => (callOutputAttr_keeps s a).trans hp) { name := kv.key } rfl

/-! ### the three maps -/

def NoPH2 (v : Node) : Prop := ∀ e ∈ pairs v.content, NoPH e.2

theorem inputs_sync (cfg : Cfg) (what : String) : ∀ (l : List (Node × Node)) (seen : List (String × Pos))
    (m : List (String × CallMeta.Input)),
    (mappingLoop cfg what false l seen).2 = [] →
    (callInputs cfg (mappingLoop cfg what false l seen).1).2 = [] →
    (∀ q ∈ l, SaneTo 1 q.2 ∧ NoPH q.2) →
    decInputsLoop cfg l m =
      .ok ((callInputs cfg (mappingLoop cfg what false l seen).1).1.foldl (fun m i => put m i.id (inputOfAst i)) m) := by
  intro l
  induction l with
  | nil => intro seen m _ _ _; simp [mappingLoop, callInputs, decInputsLoop]
  | cons q rest ih =>
    obtain ⟨k, v⟩ := q
    intro seen m hm hc hP
    obtain ⟨_, _, _, hkvs, hr⟩ := mappingLoop_clean_cons cfg what false k v rest seen hm
    simp only [idOf, Bool.false_eq_true, if_false] at hkvs hr
    rw [hkvs] at hc ⊢
    simp only [callInputs] at hc ⊢
    obtain ⟨hc1, hc2⟩ := nil_of_append_nil hc
    obtain ⟨hsv, hnp⟩ := hP (k, v) (by simp)
    obtain ⟨r, hdec, hin, hid⟩ := input_entry cfg k v (cfg.lower k.value) hsv hnp hc1
    simp only [decInputsLoop, hdec, List.foldl_cons]
    rw [hin, hid]
    exact ih _ _ hr hc2 (fun q hq => hP q (List.mem_cons_of_mem _ hq))

theorem secrets_sync (cfg : Cfg) (what : String) : ∀ (l : List (Node × Node)) (seen : List (String × Pos))
    (m : List (String × CallMeta.Secret)),
    (mappingLoop cfg what false l seen).2 = [] →
    (mapKVs (callSecret cfg) (mappingLoop cfg what false l seen).1).2 = [] →
    (∀ q ∈ l, SaneTo 1 q.2 ∧ NoPH q.2) →
    decSecretsLoop cfg l m =
      .ok ((mapKVs (callSecret cfg) (mappingLoop cfg what false l seen).1).1.foldl
        (fun m s => put m s.1 ⟨s.2.name.value, boolOf s.2.required⟩) m) := by
  intro l
  induction l with
  | nil => intro seen m _ _ _; simp [mappingLoop, mapKVs, decSecretsLoop]
  | cons q rest ih =>
    obtain ⟨k, v⟩ := q
    intro seen m hm hc hP
    obtain ⟨_, _, _, hkvs, hr⟩ := mappingLoop_clean_cons cfg what false k v rest seen hm
    simp only [idOf, Bool.false_eq_true, if_false] at hkvs hr
    rw [hkvs] at hc ⊢
    simp only [mapKVs] at hc ⊢
    obtain ⟨hc1, hc2⟩ := nil_of_append_nil hc
    obtain ⟨hsv, hnp⟩ := hP (k, v) (by simp)
    obtain ⟨hdec, hname⟩ := secret_entry cfg k v (cfg.lower k.value) hsv hnp hc1
    simp only [decSecretsLoop, hdec, List.foldl_cons]
    rw [hname]
    simp only [newString]
    exact ih _ _ hr hc2 (fun q hq => hP q (List.mem_cons_of_mem _ hq))

theorem outputs_sync (cfg : Cfg) (what : String) : ∀ (l : List (Node × Node)) (seen : List (String × Pos))
    (m : List (String × String)),
    (mappingLoop cfg what false l seen).2 = [] →
    l.foldl (fun m kv => put m (cfg.lower kv.1.value) kv.1.value) m =
      (mapKVs (callOutput cfg) (mappingLoop cfg what false l seen).1).1.foldl (fun m o => put m o.1 o.2.name.value) m := by
  intro l
  induction l with
  | nil => intro seen m _; simp [mappingLoop, mapKVs]
  | cons q rest ih =>
    obtain ⟨k, v⟩ := q
    intro seen m hm
    obtain ⟨_, _, _, hkvs, hr⟩ := mappingLoop_clean_cons cfg what false k v rest seen hm
    simp only [idOf, Bool.false_eq_true, if_false] at hkvs hr
    rw [hkvs]
    simp only [mapKVs, List.foldl_cons]
    rw [output_entry]
    simp only [newString]
    exact ih _ _ hr

end AL.C10M

namespace AL.C10M
open AL.Yaml AL.Ast AL.PW AL.CallMeta

def EvRel (_seen : List (String × Pos)) (sa : CallEventSt) (sy : Meta) : Prop :=
  sy = fromAst sa.inputs sa.secrets sa.outputs

def EvP (_k v : Node) : Prop := SaneTo 2 v ∧ NoPH2 v

theorem sane_entries {v : Node} (hs : SaneTo 2 v) (hnp : NoPH2 v) :
    ∀ q ∈ pairs v.content, SaneTo 1 q.2 ∧ NoPH q.2 :=
  fun q hq => ⟨(hs.2 q hq).2, hnp q hq⟩

theorem event_step (cfg : Cfg) (seen : List (String × Pos)) (sa : CallEventSt) (sy : Meta) (k v : Node)
    (hrel : EvRel seen sa sy) (_hk : k.kind = .scalar) (_hls : lookupSeen k.value seen = none) (hp : EvP k v)
    (hc : (callEventKey cfg sa ⟨k.value, newString k, v⟩).2 = []) :
    k.value ∈ ["inputs", "outputs", "secrets"] ∧
    (k.value ∈ ["inputs", "outputs", "secrets"] → ∃ sy', setMeta cfg sy k.value v = .ok sy' ∧
        EvRel (seen ++ [(k.value, k.pos)]) (callEventKey cfg sa ⟨k.value, newString k, v⟩).1 sy') ∧
    (k.value ∉ ["inputs", "outputs", "secrets"] →
        EvRel (seen ++ [(k.value, k.pos)]) (callEventKey cfg sa ⟨k.value, newString k, v⟩).1 sy) := by
  obtain ⟨hs, hnp⟩ := hp
  have hsv : Sane v := hs.sane
  have hent := sane_entries hs hnp
  simp only [EvRel] at hrel ⊢
  by_cases h1 : k.value = "inputs"
  · simp only [callEventKey, h1, parseSectionMapping] at hc ⊢
    obtain ⟨hm, hl⟩ := nil_of_append_nil hc
    obtain ⟨hkind, hm1, hm2⟩ := parseMapping_clean cfg _ v false hm
    rw [hm1] at hl ⊢
    have hsync := inputs_sync cfg _ (pairs v.content) [] [] hm2 hl hent
    generalize hX : List.foldl (fun m i => put m i.id (inputOfAst i)) []
      (callInputs cfg (mappingLoop cfg (sectionWhat "inputs") false (pairs v.content) []).1).1 = X at hsync
    refine ⟨by simp, fun _ => ⟨{ sy with inputs := X }, ?_, ?_⟩, fun h => absurd (by simp) h⟩
    · rcases hkind with hn | hmap
      · have hp := pairs_of_null v hsv hn
        simp only [hp, mappingLoop, callInputs, List.foldl_nil] at hX
        simp [setMeta, viaUnmarshaler, hn, ← hX, Except.map]
      · have hnn : v.isNull = false := by simp [Node.isNull, hmap]
        simp [setMeta, viaUnmarshaler, hnn, decInputs, hmap, hsync, Except.map]
    · subst hX; rw [hrel]; simp [fromAst]
  by_cases h2 : k.value = "secrets"
  · simp only [callEventKey, h2, parseSectionMapping] at hc ⊢
    obtain ⟨hm, hl⟩ := nil_of_append_nil hc
    obtain ⟨hkind, hm1, hm2⟩ := parseMapping_clean cfg _ v false hm
    rw [hm1] at hl ⊢
    have hsync := secrets_sync cfg _ (pairs v.content) [] [] hm2 hl hent
    generalize hX : List.foldl (fun m (s : String × CallSecret) => put m s.1 (⟨s.2.name.value, boolOf s.2.required⟩ : CallMeta.Secret)) []
      (mapKVs (callSecret cfg) (mappingLoop cfg (sectionWhat "secrets") false (pairs v.content) []).1).1 = X at hsync
    refine ⟨by simp, fun _ => ⟨{ sy with secrets := X }, ?_, ?_⟩, fun h => absurd (by simp) h⟩
    · rcases hkind with hn | hmap
      · have hp := pairs_of_null v hsv hn
        simp only [hp, mappingLoop, mapKVs, List.foldl_nil] at hX
        simp [setMeta, viaUnmarshaler, hn, ← hX, Except.map]
      · have hnn : v.isNull = false := by simp [Node.isNull, hmap]
        simp [setMeta, viaUnmarshaler, hnn, decSecrets, hmap, hsync, Except.map]
    · subst hX; rw [hrel]; simp [fromAst]
  by_cases h3 : k.value = "outputs"
  · simp only [callEventKey, h3, parseSectionMapping] at hc ⊢
    obtain ⟨hm, _⟩ := nil_of_append_nil hc
    obtain ⟨hkind, hm1, hm2⟩ := parseMapping_clean cfg _ v false hm
    rw [hm1]
    have hsync := outputs_sync cfg _ (pairs v.content) [] [] hm2
    generalize hX : List.foldl (fun m (o : String × CallOutput) => put m o.1 o.2.name.value) []
      (mapKVs (callOutput cfg) (mappingLoop cfg (sectionWhat "outputs") false (pairs v.content) []).1).1 = X at hsync
    refine ⟨by simp, fun _ => ⟨{ sy with outputs := X }, ?_, ?_⟩, fun h => absurd (by simp) h⟩
    · rcases hkind with hn | hmap
      · have hp := pairs_of_null v hsv hn
        simp only [hp, mappingLoop, mapKVs, List.foldl_nil] at hX
        simp [setMeta, viaUnmarshaler, hn, ← hX, Except.map]
      · have hnn : v.isNull = false := by simp [Node.isNull, hmap]
        simp [setMeta, viaUnmarshaler, hnn, decOutputs, hmap, hsync, Except.map]
    · subst hX; rw [hrel]; simp [fromAst]
  · exfalso
    simp only [callEventKey] at hc
    simp at hc

end AL.C10M
