import AL.Lemmas.SemaMonoOps
/-
  C06 (e), (g): the checker is monotone in the context types (for `Looser`/`LooserD`, in well-formed
  environments with `SameRet`), and its event stream does not depend on the context types at all.
  All three by the functional induction principle of `check`/`narrow`/`checkArgs`.
-/
namespace AL.Sema
open AL AL.Ty AL.Spec

/-! ### every computed type is well formed -/

theorem check_wf_all (Γ : Env) (hΓ : WfEnv Γ) :
    (∀ e, wf (check Γ e).ty = true) ∧ (∀ e b, wf (narrow Γ e b).ty = true) ∧ (∀ _es : List E, True) := by
  apply check.mutual_induct Γ (motive1 := fun e => wf (check Γ e).ty = true)
    (motive2 := fun e b => wf (narrow Γ e b).ty = true) (motive3 := fun _ => True)
  case case1 => rw [check_null]; rfl
  case case2 => rw [check_bool]; rfl
  case case3 => rw [check_num]; rfl
  case case4 => intro v; rw [check_str]; rfl
  case case5 =>
    intro name
    rw [check_var, wrap_ty]
    cases hl : Ty.lookup name Γ.vars with
    | none => rfl
    | some t => exact lookup_wf _ hΓ.vars hl
  case case6 =>
    intro recv prop r isVars t es _ ih
    rw [check_objDeref, wrap_ty]
    exact objDerefTy_wf _ _ _ ih
  case case7 =>
    intro recv r t es _ ih
    rw [check_arrDeref, wrap_ty]
    exact arrDerefTy_wf ih
  case case8 =>
    intro operand idx ri ro t es _ _ ih
    rw [check_index, wrap_ty]
    exact indexTy_wf _ _ _ ih
  case case9 =>
    intro callee args _
    rw [check_call, wrap_ty]
    cases hl : lookupFuncs (Γ.lower callee) Γ.funcs with
    | none => rfl
    | some sigs =>
      exact resolveCall_wf Γ hΓ.fromJson _ _ (hΓ.funcs _ _ (lookupFuncs_mem _ hl)) _ _
  case case10 => intro operand _; rw [check_not]; rfl
  case case11 => intro op l r _ _; rw [check_cmp]; rfl
  case case12 =>
    intro op l r ihl ihr
    rw [check_logical, wrap_ty]
    cases op <;> exact merge_wf _ _ ihl ihr
  case case13 => intro l r _ ihr; rw [narrow_and_true]; exact ihr
  case case14 => intro l r _ ihr; rw [narrow_or_false]; exact ihr
  case case15 =>
    intro op l r x h1 h2 ihl ihr
    cases op <;> cases x
    · rw [narrow_and_false]; exact merge_wf _ _ ihl ihr
    · exact (h1 rfl rfl).elim
    · exact (h2 rfl rfl).elim
    · rw [narrow_or_true]; exact merge_wf _ _ ihl ihr
  case case16 => intro operand t ih; rw [narrow_not]; exact ih
  case case17 => intro e x _ _ h3 h4 ih; rw [narrow_other Γ e x h3 h4]; exact ih
  case case18 => trivial
  case case19 => intros; trivial

theorem check_wf {Γ : Env} (hΓ : WfEnv Γ) (e : E) : wf (check Γ e).ty = true := (check_wf_all Γ hΓ).1 e
theorem narrow_wf {Γ : Env} (hΓ : WfEnv Γ) (e : E) (b : Bool) : wf (narrow Γ e b).ty = true :=
  (check_wf_all Γ hΓ).2.1 e b

/-! ### monotonicity -/

theorem append_eq_nil {α : Type} {a b : List α} (h : a ++ b = []) : a = [] ∧ b = [] :=
  List.append_eq_nil_iff.mp h

/-- the invariant of the induction: accepted before ⇒ accepted after, with a looser type -/
def Mono (r r' : R) : Prop := r.errs = [] → r'.errs = [] ∧ LooserD r.ty r'.ty

theorem check_mono_all (Γ : Env) (vs : List (String × Ty)) (hΓ : WfEnv Γ) (hvs : LooserDProps Γ.vars vs)
    (hsame : SameRet Γ.funcs) :
    (∀ e, Mono (check Γ e) (check (Γ.setVars vs) e)) ∧
    (∀ e b, Mono (narrow Γ e b) (narrow (Γ.setVars vs) e b)) ∧
    (∀ es, (checkArgs Γ es).2.1 = [] → (checkArgs (Γ.setVars vs) es).2.1 = [] ∧
      LooserDs (checkArgs Γ es).1 (checkArgs (Γ.setVars vs) es).1) := by
  apply check.mutual_induct Γ (motive1 := fun e => Mono (check Γ e) (check (Γ.setVars vs) e))
    (motive2 := fun e b => Mono (narrow Γ e b) (narrow (Γ.setVars vs) e b))
    (motive3 := fun es => (checkArgs Γ es).2.1 = [] → (checkArgs (Γ.setVars vs) es).2.1 = [] ∧
      LooserDs (checkArgs Γ es).1 (checkArgs (Γ.setVars vs) es).1)
  case case1 => intro _; rw [check_null, check_null]; exact ⟨rfl, .null⟩
  case case2 => intro _; rw [check_bool, check_bool]; exact ⟨rfl, .bool⟩
  case case3 => intro _; rw [check_num, check_num]; exact ⟨rfl, .number⟩
  case case4 => intro v _; rw [check_str, check_str]; exact ⟨rfl, .string⟩
  case case5 =>
    intro name he
    rw [check_var] at he
    rw [check_var, check_var]
    simp only [wrap_errs, wrap_ty, setVars_vars, setVars_availCtx, setVars_lower] at he ⊢
    rcases hvs.lookup (k := name) with ⟨h1, h2⟩ | ⟨t, t', h1, h2, ht⟩
    · simp [h1] at he
    · simp only [h1] at he
      simp only [h1, h2]
      exact ⟨he, ht⟩
  case case6 =>
    intro recv prop r isVars t es _ ih he
    rw [check_objDeref] at he
    rw [check_objDeref, check_objDeref, objDerefTy_setVars]
    simp only [wrap_errs, wrap_ty] at he ⊢
    obtain ⟨he1, he2⟩ := append_eq_nil he
    obtain ⟨ih1, ih2⟩ := ih he1
    obtain ⟨h1, h2⟩ := objDerefTy_mono Γ (isVarsVar recv) prop ih2 he2
    exact ⟨by rw [ih1, h1]; rfl, h2⟩
  case case7 =>
    intro recv r t es _ ih he
    rw [check_arrDeref] at he
    rw [check_arrDeref, check_arrDeref]
    simp only [wrap_errs, wrap_ty] at he ⊢
    obtain ⟨he1, he2⟩ := append_eq_nil he
    obtain ⟨ih1, ih2⟩ := ih he1
    obtain ⟨h1, h2⟩ := arrDerefTy_mono ih2 he2
    exact ⟨by rw [ih1, h1]; rfl, h2⟩
  case case8 =>
    intro operand idx ri ro t es _ ihi iho he
    rw [check_index] at he
    rw [check_index, check_index, indexTy_setVars]
    simp only [wrap_errs, wrap_ty] at he ⊢
    obtain ⟨he12, he3⟩ := append_eq_nil he
    obtain ⟨he1, he2⟩ := append_eq_nil he12
    obtain ⟨ihi1, ihi2⟩ := ihi he1
    obtain ⟨iho1, iho2⟩ := iho he2
    obtain ⟨h1, h2⟩ := indexTy_mono Γ (strLit? idx) ihi2 iho2 he3
    exact ⟨by rw [ihi1, iho1, h1]; rfl, h2⟩
  case case9 =>
    intro callee args ih he
    rw [check_call] at he
    rw [check_call, check_call]
    simp only [wrap_errs, wrap_ty, setVars_funcs, setVars_lower] at he ⊢
    cases hl : lookupFuncs (Γ.lower callee) Γ.funcs with
    | none => simp [hl] at he
    | some sigs =>
      simp only [hl] at he ⊢
      obtain ⟨he1, he2⟩ := append_eq_nil he
      obtain ⟨ih1, ih2⟩ := ih he1
      obtain ⟨h1, h2⟩ := resolveCall_mono Γ vs callee sigs (args.head?.bind strLit?)
        (hsame _ _ (lookupFuncs_mem _ hl)) ih2 he2
      exact ⟨by rw [ih1, h1]; rfl, h2⟩
  case case10 =>
    intro operand ih he
    rw [check_not] at he
    rw [check_not, check_not]
    simp only [wrap_errs, wrap_ty] at he ⊢
    obtain ⟨he1, _⟩ := append_eq_nil he
    obtain ⟨ih1, _⟩ := ih he1
    exact ⟨by simp [ih1, assignable], .bool⟩
  case case11 =>
    intro op l r ihl ihr he
    rw [check_cmp] at he
    rw [check_cmp, check_cmp]
    simp only [wrap_errs, wrap_ty] at he ⊢
    obtain ⟨he12, he3⟩ := append_eq_nil he
    obtain ⟨he1, he2⟩ := append_eq_nil he12
    obtain ⟨ihl1, ihl2⟩ := ihl he1
    obtain ⟨ihr1, ihr2⟩ := ihr he2
    have hv : validCompare op (check Γ l).ty (check Γ r).ty = true := by
      by_cases hv : validCompare op (check Γ l).ty (check Γ r).ty = true
      · exact hv
      · simp [hv] at he3
    have hv' := validCompare_mono op ihl2.toW ihr2.toW hv
    exact ⟨by simp [ihl1, ihr1, hv'], .bool⟩
  case case12 =>
    intro op l r ihl ihr he
    rw [check_logical] at he
    rw [check_logical, check_logical]
    simp only [wrap_errs, wrap_ty] at he ⊢
    obtain ⟨he1, he2⟩ := append_eq_nil he
    have ihl' : Mono (narrow Γ l (opTruthy op)) (narrow (Γ.setVars vs) l (opTruthy op)) := by
      cases op <;> exact ihl
    obtain ⟨ihl1, ihl2⟩ := ihl' he1
    obtain ⟨ihr1, ihr2⟩ := ihr he2
    exact ⟨by rw [ihl1, ihr1]; rfl, merge_mono _ _ _ _ (check_wf hΓ r) ihl2 ihr2⟩
  case case13 =>
    intro l r ihl ihr he
    rw [narrow_and_true] at he
    rw [narrow_and_true, narrow_and_true]
    simp only at he ⊢
    obtain ⟨he1, he2⟩ := append_eq_nil he
    obtain ⟨ihl1, _⟩ := ihl he1
    obtain ⟨ihr1, ihr2⟩ := ihr he2
    exact ⟨by rw [ihl1, ihr1]; rfl, ihr2⟩
  case case14 =>
    intro l r ihl ihr he
    rw [narrow_or_false] at he
    rw [narrow_or_false, narrow_or_false]
    simp only at he ⊢
    obtain ⟨he1, he2⟩ := append_eq_nil he
    obtain ⟨ihl1, _⟩ := ihl he1
    obtain ⟨ihr1, ihr2⟩ := ihr he2
    exact ⟨by rw [ihl1, ihr1]; rfl, ihr2⟩
  case case15 =>
    intro op l r x h1 h2 ihl ihr he
    cases op <;> cases x
    · rw [narrow_and_false] at he
      rw [narrow_and_false, narrow_and_false]
      simp only at he ⊢
      obtain ⟨he1, he2⟩ := append_eq_nil he
      obtain ⟨ihl1, ihl2⟩ := ihl he1
      obtain ⟨ihr1, ihr2⟩ := ihr he2
      exact ⟨by rw [ihl1, ihr1]; rfl, merge_mono _ _ _ _ (check_wf hΓ r) ihl2 ihr2⟩
    · exact (h1 rfl rfl).elim
    · exact (h2 rfl rfl).elim
    · rw [narrow_or_true] at he
      rw [narrow_or_true, narrow_or_true]
      simp only at he ⊢
      obtain ⟨he1, he2⟩ := append_eq_nil he
      obtain ⟨ihl1, ihl2⟩ := ihl he1
      obtain ⟨ihr1, ihr2⟩ := ihr he2
      exact ⟨by rw [ihl1, ihr1]; rfl, merge_mono _ _ _ _ (check_wf hΓ r) ihl2 ihr2⟩
  case case16 =>
    intro operand t ih he
    rw [narrow_not] at he
    rw [narrow_not, narrow_not]
    exact ih he
  case case17 =>
    intro e x _ _ h3 h4 ih he
    rw [narrow_other Γ e x h3 h4] at he
    rw [narrow_other Γ e x h3 h4, narrow_other (Γ.setVars vs) e x h3 h4]
    exact ih he
  case case18 =>
    intro _
    rw [checkArgs_nil, checkArgs_nil]
    exact ⟨rfl, .nil⟩
  case case19 =>
    intro a rest iha ihr he
    rw [checkArgs_cons] at he
    rw [checkArgs_cons, checkArgs_cons]
    simp only at he ⊢
    obtain ⟨he1, he2⟩ := append_eq_nil he
    obtain ⟨iha1, iha2⟩ := iha he1
    obtain ⟨ihr1, ihr2⟩ := ihr he2
    exact ⟨by rw [iha1, ihr1]; rfl, .cons iha2 ihr2⟩

/-- C06 (e'): monotonicity of the checker for `LooserD` (context types may even differ in `deref` flags). -/
theorem check_mono {Γ Γ' : Env} (e : E) (h : LooserEnvD Γ Γ') (hΓ : WfEnv Γ) (hsame : SameRet Γ.funcs)
    (he : (check Γ e).errs = []) : (check Γ' e).errs = [] ∧ LooserD (check Γ e).ty (check Γ' e).ty := by
  rw [h.eq_setVars]
  exact (check_mono_all Γ Γ'.vars hΓ h.vars hsame).1 e he

theorem LooserEnvD.of_looserEnv {Γ Γ' : Env} (h : LooserEnv Γ Γ') : LooserEnvD Γ Γ' :=
  ⟨LooserDProps.of_looser h.vars, h.funcs, h.specialFuncs, h.availCtx, h.availSpecial, h.configVars, h.lower,
   h.fromJson⟩

/-- C06 (e) at full strength: with the ORIGINAL environment relation `LooserEnv`. -/
theorem check_mono_full {Γ Γ' : Env} (e : E) (h : LooserEnv Γ Γ') (hΓ : WfEnv Γ) (hsame : SameRet Γ.funcs)
    (he : (check Γ e).errs = []) : (check Γ' e).errs = [] ∧ LooserD (check Γ e).ty (check Γ' e).ty :=
  check_mono e (LooserEnvD.of_looserEnv h) hΓ hsame he

/-! ### events -/

theorem check_evs_all (Γ : Env) (vs : List (String × Ty)) :
    (∀ e, (check Γ e).evs = (check (Γ.setVars vs) e).evs) ∧
    (∀ e b, (narrow Γ e b).evs = (narrow (Γ.setVars vs) e b).evs) ∧
    (∀ es, (checkArgs Γ es).2.2 = (checkArgs (Γ.setVars vs) es).2.2) := by
  apply check.mutual_induct Γ (motive1 := fun e => (check Γ e).evs = (check (Γ.setVars vs) e).evs)
    (motive2 := fun e b => (narrow Γ e b).evs = (narrow (Γ.setVars vs) e b).evs)
    (motive3 := fun es => (checkArgs Γ es).2.2 = (checkArgs (Γ.setVars vs) es).2.2)
  case case1 => rw [check_null, check_null]; rfl
  case case2 => rw [check_bool, check_bool]; rfl
  case case3 => rw [check_num, check_num]; rfl
  case case4 => intro v; rw [check_str, check_str]; rfl
  case case5 =>
    intro name
    rw [check_var, check_var]
    simp only [wrap_evs, setVars_vars, setVars_availCtx, setVars_lower]
    cases Ty.lookup name Γ.vars <;> cases Ty.lookup name vs <;> rfl
  case case6 =>
    intro recv prop r isVars t es _ ih
    rw [check_objDeref, check_objDeref]
    simp only [wrap_evs, ih]
    rfl
  case case7 =>
    intro recv r t es _ ih
    rw [check_arrDeref, check_arrDeref]
    simp only [wrap_evs, ih]
    rfl
  case case8 =>
    intro operand idx ri ro t es _ ihi iho
    rw [check_index, check_index]
    simp only [wrap_evs, ihi, iho]
    rfl
  case case9 =>
    intro callee args ih
    rw [check_call, check_call]
    simp only [wrap_evs, setVars_funcs, setVars_lower]
    cases lookupFuncs (Γ.lower callee) Γ.funcs with
    | none => rfl
    | some sigs => simp only [ih]
  case case10 =>
    intro operand ih
    rw [check_not, check_not]
    simp only [wrap_evs, ih]
    rfl
  case case11 =>
    intro op l r ihl ihr
    rw [check_cmp, check_cmp]
    simp only [wrap_evs, ihl, ihr]
    rfl
  case case12 =>
    intro op l r ihl ihr
    rw [check_logical, check_logical]
    have ihl' : (narrow Γ l (opTruthy op)).evs = (narrow (Γ.setVars vs) l (opTruthy op)).evs := by
      cases op <;> exact ihl
    simp only [wrap_evs, ihl', ihr]
    rfl
  case case13 => intro l r ihl ihr; rw [narrow_and_true, narrow_and_true]; simp only [ihl, ihr]
  case case14 => intro l r ihl ihr; rw [narrow_or_false, narrow_or_false]; simp only [ihl, ihr]
  case case15 =>
    intro op l r x h1 h2 ihl ihr
    cases op <;> cases x
    · rw [narrow_and_false, narrow_and_false]; simp only [ihl, ihr]
    · exact (h1 rfl rfl).elim
    · exact (h2 rfl rfl).elim
    · rw [narrow_or_true, narrow_or_true]; simp only [ihl, ihr]
  case case16 => intro operand t ih; rw [narrow_not, narrow_not]; exact ih
  case case17 =>
    intro e x _ _ h3 h4 ih
    rw [narrow_other Γ e x h3 h4, narrow_other (Γ.setVars vs) e x h3 h4]; exact ih
  case case18 => rw [checkArgs_nil, checkArgs_nil]
  case case19 =>
    intro a rest iha ihr
    rw [checkArgs_cons, checkArgs_cons]
    simp only [iha, ihr]

/-- C06 (g): the event stream is the same whatever the context types are. -/
theorem check_evs {Γ Γ' : Env} (e : E) (h : LooserEnv Γ Γ') : (check Γ e).evs = (check Γ' e).evs := by
  rw [LooserEnv.eq_setVars h]
  exact (check_evs_all Γ Γ'.vars).1 e

end AL.Sema

namespace AL.Sema
open AL AL.Ty

/-- Evaluate `check` on concrete data by rewriting with the unfolding lemmas (`check` is compiled by
well-founded recursion, so `decide`/`rfl` get stuck on it). Extra simp lemmas — typically the names of
the concrete environment and expression — go in the brackets. -/
macro "check_eval" "[" ls:Lean.Parser.Tactic.simpLemma,* "]" : tactic =>
  `(tactic| simp [check_null, check_bool, check_num, check_str, check_var, check_objDeref, check_arrDeref,
      check_index, check_call, check_not, check_cmp, check_logical, narrow_and_true, narrow_or_false,
      narrow_and_false, narrow_or_true, narrow_not, narrow_other, checkArgs_nil, checkArgs_cons,
      Ty.lookup, objDerefTy, arrDerefTy, indexTy, validCompare, opTruthy, isVarsVar, strLit?,
      lookupFuncs, resolveCall, resolveCall.go, checkSig, firstBadArg, firstBadArg.fixed, firstBadArg.rest,
      builtinCall, specialFuncErrs, checkConfigVar, Ty.assignable,
      merge_arr_arr, merge_obj_obj, mergeProps_nil, mergeProps_cons, merge_any_left, merge_any_right,
      merge_null_left, merge_number_left, merge_bool_left, merge_string_left, merge_obj_left, merge_arr_left, mergeScalar, mapped0, mergeMapped, isSomeAny,
      Ty.setProp, Ty.isAny, Ty.isObj, Ty.isArr, $ls,*])

end AL.Sema
