import AL.Lemmas.C17DRule
/-
  AL.Props.C17Doc: the characters the validator reads (`AL.Rules.symsOf`: Go's `utf8.DecodeRune` over the bytes of the string) are
  the characters of the Lean string, one `Sym` per `Char` (`symsOf_chars`): Lean's UTF-8 encoder (`String.utf8EncodeChar`)
  followed by the model's decoder (`AL.decodeOne`) is the identity on Unicode scalar values.
-/
namespace AL.C17D
open AL AL.Rules

theorem ba_loop (bs : ByteArray) : ∀ (k i : Nat) (r : List UInt8), bs.size - i = k →
    ByteArray.toList.loop bs i r = r.reverse ++ bs.data.toList.drop i
  | 0, i, r, h => by
    rw [ByteArray.toList.loop]
    have : ¬ i < bs.size := by omega
    simp only [this, if_false]
    have hs : bs.data.size = bs.size := ByteArray.size_data
    have : bs.data.toList.length ≤ i := by rw [Array.length_toList]; omega
    rw [List.drop_eq_nil_of_le this, List.append_nil]
  | k + 1, i, r, h => by
    rw [ByteArray.toList.loop]
    have hi : i < bs.size := by omega
    simp only [hi, if_true]
    rw [ba_loop bs k (i + 1) _ (by omega)]
    have hs : bs.data.size = bs.size := ByteArray.size_data
    have hi' : i < bs.data.toList.length := by rw [Array.length_toList]; omega
    rw [List.reverse_cons, List.append_assoc, List.singleton_append]
    congr 1
    rw [← List.getElem_cons_drop hi']
    congr 1
    cases bs with
    | mk d =>
      simp only [ByteArray.get!]
      have : i < d.size := by simpa using hi'
      simp [this]

theorem ba_toList (bs : ByteArray) : bs.toList = bs.data.toList := by
  unfold ByteArray.toList
  rw [ba_loop bs _ 0 [] rfl]
  simp

theorem toUTF8_toList (s : String) : s.toUTF8.toList = s.toList.flatMap String.utf8EncodeChar := by
  rw [ba_toList, String.toUTF8_eq_toByteArray, ← String.utf8Encode_toList, List.utf8Encode, List.data_toByteArray]

theorem char_valid (c : Char) : c.toNat < 0xd800 ∨ (0xdfff < c.toNat ∧ c.toNat < 0x110000) := c.valid

theorem utf8Size_eq (c : Char) : c.utf8Size =
    if c.toNat ≤ 0x7f then 1 else if c.toNat ≤ 0x7ff then 2 else if c.toNat ≤ 0xffff then 3 else 4 := by
  simp only [Char.utf8Size, Char.toNat, UInt32.le_iff_toNat_le, UInt32.toNat_ofNatLT]

/-- the bytes of the UTF-8 encoding of the code point `v` -/
def encNat (v : Nat) : List Nat :=
  if v ≤ 0x7f then [v]
  else if v ≤ 0x7ff then [v / 64 % 0x20 + 0xc0, v % 0x40 + 0x80]
  else if v ≤ 0xffff then [v / 4096 % 0x10 + 0xe0, v / 64 % 0x40 + 0x80, v % 0x40 + 0x80]
  else [v / 262144 % 0x08 + 0xf0, v / 4096 % 0x40 + 0x80, v / 64 % 0x40 + 0x80, v % 0x40 + 0x80]

theorem encode_toNat (c : Char) : (String.utf8EncodeChar c).map (·.toNat) = encNat c.toNat := by
  have hv := char_valid c
  simp only [String.utf8EncodeChar, encNat, Char.toNat] at *
  generalize c.val.toNat = v at *
  have m : ∀ x, x < 256 → x % 2 ^ 8 = x := fun x h => Nat.mod_eq_of_lt h
  split
  · simp only [List.map_cons, List.map_nil, UInt8.toNat_ofNat']
    rw [m _ (by omega)]
  · split
    · simp only [List.map_cons, List.map_nil, UInt8.toNat_ofNat']
      rw [m _ (by omega), m _ (by omega)]
    · split
      · simp only [List.map_cons, List.map_nil, UInt8.toNat_ofNat']
        rw [m _ (by omega), m _ (by omega), m _ (by omega)]
      · simp only [List.map_cons, List.map_nil, UInt8.toNat_ofNat']
        rw [m _ (by omega), m _ (by omega), m _ (by omega), m _ (by omega)]

theorem decodeOne_2 (b0 b1 : Nat) (rest : List Nat) (h0 : 0xC2 ≤ b0) (h0' : b0 < 0xE0) (h1 : 0x80 ≤ b1) (h1' : b1 ≤ 0xBF) :
    decodeOne (b0 :: b1 :: rest) = some (⟨(b0 - 0xC0) * 64 + (b1 - 0x80), 2, false⟩, rest) := by
  have a1 : ¬ b0 < 0x80 := by omega
  have a2 : ¬ b0 < 0xC2 := by omega
  have a4 : isCont b1 = true := by simp [isCont]; omega
  simp only [decodeOne, a1, a2, h0', a4, if_true, if_false]

theorem decodeOne_3 (b0 b1 b2 : Nat) (rest : List Nat) (h0 : 0xE0 ≤ b0) (h0' : b0 < 0xF0)
    (h1 : (if b0 = 0xE0 then 0xA0 else 0x80) ≤ b1) (h1' : b1 ≤ (if b0 = 0xED then 0x9F else 0xBF)) (h2 : 0x80 ≤ b2) (h2' : b2 ≤ 0xBF) :
    decodeOne (b0 :: b1 :: b2 :: rest) = some (⟨(b0 - 0xE0) * 4096 + (b1 - 0x80) * 64 + (b2 - 0x80), 3, false⟩, rest) := by
  have a1 : ¬ b0 < 0x80 := by omega
  have a2 : ¬ b0 < 0xC2 := by omega
  have a3 : ¬ b0 < 0xE0 := by omega
  have a4 : isCont b2 = true := by simp [isCont]; omega
  simp only [decodeOne, a1, a2, a3, h0', a4, if_true, if_false, decide_eq_true h1, decide_eq_true h1', Bool.and_self]

theorem decodeOne_4 (b0 b1 b2 b3 : Nat) (rest : List Nat) (h0 : 0xF0 ≤ b0) (h0' : b0 < 0xF5)
    (h1 : (if b0 = 0xF0 then 0x90 else 0x80) ≤ b1) (h1' : b1 ≤ (if b0 = 0xF4 then 0x8F else 0xBF)) (h2 : 0x80 ≤ b2) (h2' : b2 ≤ 0xBF)
    (h3 : 0x80 ≤ b3) (h3' : b3 ≤ 0xBF) :
    decodeOne (b0 :: b1 :: b2 :: b3 :: rest) =
      some (⟨(b0 - 0xF0) * 262144 + (b1 - 0x80) * 4096 + (b2 - 0x80) * 64 + (b3 - 0x80), 4, false⟩, rest) := by
  have a1 : ¬ b0 < 0x80 := by omega
  have a2 : ¬ b0 < 0xC2 := by omega
  have a3 : ¬ b0 < 0xE0 := by omega
  have a3' : ¬ b0 < 0xF0 := by omega
  have a4 : isCont b2 = true := by simp [isCont]; omega
  have a5 : isCont b3 = true := by simp [isCont]; omega
  simp only [decodeOne, a1, a2, a3, a3', h0', a4, a5, if_true, if_false, decide_eq_true h1, decide_eq_true h1', Bool.and_self]

theorem decodeOne_encNat (v : Nat) (hv : v < 0xd800 ∨ (0xdfff < v ∧ v < 0x110000)) (rest : List Nat) :
    decodeOne (encNat v ++ rest) =
      some (⟨v, if v ≤ 0x7f then 1 else if v ≤ 0x7ff then 2 else if v ≤ 0xffff then 3 else 4, false⟩, rest) := by
  unfold encNat
  by_cases h1 : v ≤ 0x7f
  · have : v < 0x80 := by omega
    simp [h1, decodeOne, this]
  · by_cases h2 : v ≤ 0x7ff
    · simp only [h1, h2, if_true, if_false, List.cons_append, List.nil_append]
      rw [decodeOne_2 (v / 64 % 32 + 192) (v % 64 + 128) rest (by omega) (by omega) (by omega) (by omega)]
      have e : (v / 64 % 32 + 192 - 0xC0) * 64 + (v % 64 + 128 - 0x80) = v := by omega
      rw [e]
    · by_cases h3 : v ≤ 0xffff
      · simp only [h1, h2, h3, if_true, if_false, List.cons_append, List.nil_append]
        rw [decodeOne_3 (v / 4096 % 16 + 224) (v / 64 % 64 + 128) (v % 64 + 128) rest (by omega) (by omega) (by split <;> omega) (by split <;> omega) (by omega) (by omega)]
        have e : (v / 4096 % 16 + 224 - 0xE0) * 4096 + (v / 64 % 64 + 128 - 0x80) * 64 + (v % 64 + 128 - 0x80) = v := by omega
        rw [e]
      · simp only [h1, h2, h3, if_false, List.cons_append, List.nil_append]
        rw [decodeOne_4 (v / 262144 % 8 + 240) (v / 4096 % 64 + 128) (v / 64 % 64 + 128) (v % 64 + 128) rest (by omega) (by omega) (by split <;> omega) (by split <;> omega) (by omega) (by omega) (by omega) (by omega)]
        have e : (v / 262144 % 8 + 240 - 0xF0) * 262144 + (v / 4096 % 64 + 128 - 0x80) * 4096 + (v / 64 % 64 + 128 - 0x80) * 64 +
            (v % 64 + 128 - 0x80) = v := by omega
        rw [e]

/-- a character as the validator's scanner sees it: code point, width of its UTF-8 encoding, well-formed -/
def symOfChar (c : Char) : Sym := ⟨c.toNat, c.utf8Size, false⟩

theorem decodeUtf8_chars : ∀ (cs : List Char),
    decodeUtf8 ((cs.flatMap String.utf8EncodeChar).map (·.toNat)) = cs.map symOfChar
  | [] => by simp [decodeUtf8_nil]
  | c :: cs => by
    have h := decodeOne_encNat c.toNat (char_valid c) (((cs.flatMap String.utf8EncodeChar).map (·.toNat)))
    rw [← utf8Size_eq, ← encode_toNat] at h
    simp only [List.flatMap_cons, List.map_append, List.map_cons]
    rw [decodeUtf8_step h, decodeUtf8_chars cs]
    rfl

/-- **the characters the validator reads are the characters of the string** -/
theorem symsOf_chars (s : String) : symsOf s = s.toList.map symOfChar := by
  unfold symsOf
  rw [toUTF8_toList, decodeUtf8_chars]

end AL.C17D
