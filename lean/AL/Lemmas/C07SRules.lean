import AL.Lemmas.C07SBase
import AL.Props.C07Rules
import AL.Props.C18
/-
  C07Sites, the AST-only rules (AL.Rules): a diagnostic that sits at none of the positions of the AST is not reported.
  `NP p x`: no string / position of `x` is at `p`. The positive per-helper statements of AL.C09R / AL.C07M (a diagnostic of
  `checkEnv` sits at a variable's name, …) are lifted to the whole workflow here.
-/
namespace AL.C07S.AR
open AL AL.Ast AL.Rules

/-- the item is not at position `p` -/
def NotAtP (p : Pos) (it : Item) : Prop := it.at ≠ p

/-- no string and no position of `x` is at `p` -/
abbrev NP {α} [HasItems α] (p : Pos) (x : α) : Prop := AllI (NotAtP p) x

variable {p : Pos}

@[simp] theorem NotAtP_str {s : Str} : NotAtP p (.str s) ↔ s.pos ≠ p := Iff.rfl
@[simp] theorem NotAtP_pos {q : Pos} : NotAtP p (.pos q) ↔ q ≠ p := Iff.rfl

theorem AllI_getD_mem {α} [HasItems α] {P : Item → Prop} {o : Option (List α)} (h : AllI P o) : ∀ x ∈ o.getD [], AllI P x := by
  cases o with
  | none => intro x hx; cases hx
  | some l => exact IOk_list.1 (IOk_some.1 h)

theorem NP_str {s : Str} (h : NP p s) : s.pos ≠ p := by simpa using h
theorem NP_ostr {o : Option Str} (h : NP p o) : ∀ s, o = some s → s.pos ≠ p := by
  intro s hs; subst hs; exact NP_str (IOk_some.1 h)

theorem NP_jobs {w : Workflow} (h : NP p w) : ∀ j ∈ jobsOf w, NP p j := by
  intro j hj
  simp only [jobsOf, List.mem_map] at hj
  obtain ⟨kv, hkv, rfl⟩ := hj
  exact IOk_entry.1 (AllI_getD_mem (IOk_Workflow.1 h).2.2.2.2.2.2.2 kv hkv)

theorem NP_steps {j : Job} (h : NP p j) : ∀ st ∈ Rules.stepsOf j, NP p st := by
  obtain ⟨_, _, _, _, _, _, _, _, _, _, _, hsteps, _⟩ := IOk_Job.1 h
  exact AllI_getD_mem hsteps

theorem not_mem_flatMap' {α β} {l : List α} {f : α → List β} {b : β} (h : ∀ x ∈ l, b ∉ f x) : b ∉ l.flatMap f := by
  simp only [List.mem_flatMap, not_exists, not_and]; exact h

variable {d : Rules.Diag}

/-! ### rule_id -/

theorem ruleId_not (lower : String → String) {w : Workflow} (h : NP d.pos w) : d ∉ ruleId lower w := by
  refine not_mem_flatMap' fun j hj => ?_
  have hj' := NP_jobs h j hj
  obtain ⟨hid, _, hneeds, _⟩ := IOk_Job.1 hj'
  simp only [idJob, List.mem_append, not_or]
  refine ⟨⟨?_, ?_⟩, ?_⟩
  · intro hd
    obtain ⟨s, hs, he⟩ := AL.C09R.validateConvention_pos _ _ d hd
    simp only [Option.some.injEq] at hs
    subst hs
    exact NP_str hid he.symm
  · refine not_mem_flatMap' fun n hn hd => ?_
    obtain ⟨s, hs, he⟩ := AL.C09R.validateConvention_pos _ _ d hd
    simp only [Option.some.injEq] at hs
    subst hs
    exact NP_str (AllI_getD_mem hneeds _ hn) he.symm
  · intro hd
    obtain ⟨st, hst, s, hs, he⟩ := AL.C09R.idSteps_pos lower _ _ d hd
    exact NP_ostr (IOk_Step.1 (NP_steps hj' st hst)).1 s hs he.symm

/-! ### rule_env_var -/

theorem checkEnv_not {env : Option Ast.Env} (h : NP d.pos env) : d ∉ Rules.checkEnv env := by
  intro hd
  obtain ⟨e, vars, rfl, hv, kv, hkv, he⟩ := AL.C09R.checkEnv_pos env d hd
  have := (IOk_Env.1 (IOk_some.1 h)).1
  rw [hv] at this
  exact NP_str (IOk_EnvVar.1 (IOk_entry.1 (IOk_list.1 (IOk_some.1 this) kv hkv))).1 he.symm

theorem ruleEnvVar_not {w : Workflow} (h : NP d.pos w) : d ∉ ruleEnvVar w := by
  simp only [ruleEnvVar, List.mem_append, not_or]
  refine ⟨checkEnv_not (IOk_Workflow.1 h).2.2.2.2.1, not_mem_flatMap' fun j hj => ?_⟩
  have hj' := NP_jobs h j hj
  obtain ⟨_, _, _, _, _, _, _, _, henv, _, _, _, _, _, _, hcont, hserv, _⟩ := IOk_Job.1 hj'
  simp only [envVarJob, List.mem_append, not_or]
  refine ⟨⟨⟨checkEnv_not henv, ?_⟩, ?_⟩, ?_⟩
  · split
    · rename_i c hc
      rw [hc] at hcont
      exact checkEnv_not (IOk_Container.1 (IOk_some.1 hcont)).2.2.1
    · simp
  · split
    · rename_i s hs
      rw [hs] at hserv
      refine not_mem_flatMap' fun kv hkv => ?_
      have := (IOk_Service.1 (IOk_entry.1 (AllI_getD_mem (IOk_Services.1 (IOk_some.1 hserv)).1 kv hkv))).2
      exact checkEnv_not (IOk_Container.1 this).2.2.1
    · simp
  · exact not_mem_flatMap' fun st hst => checkEnv_not (IOk_Step.1 (NP_steps hj' st hst)).2.2.2.2.1

/-! ### rule_credentials -/

theorem checkCredContainer_not (k a : String) {c : Container} (h : NP d.pos c) : d ∉ checkCredContainer k a c := by
  intro hd
  obtain ⟨cr, pw, hcr, hp, he⟩ := AL.C09R.checkCredContainer_pos k a c d hd
  have := (IOk_Container.1 h).2.1
  rw [hcr] at this
  exact NP_ostr (IOk_Credentials.1 (IOk_some.1 this)).2.1 pw hp he.symm

theorem ruleCredentials_not {w : Workflow} (h : NP d.pos w) : d ∉ ruleCredentials w := by
  refine not_mem_flatMap' fun j hj => ?_
  have hj' := NP_jobs h j hj
  obtain ⟨_, _, _, _, _, _, _, _, _, _, _, _, _, _, _, hcont, hserv, _⟩ := IOk_Job.1 hj'
  simp only [credentialsJob, List.mem_append, not_or]
  refine ⟨?_, ?_⟩
  · split
    · rename_i c hc
      rw [hc] at hcont
      exact checkCredContainer_not _ _ (IOk_some.1 hcont)
    · simp
  · split
    · rename_i s hs
      rw [hs] at hserv
      refine not_mem_flatMap' fun kv hkv => ?_
      exact checkCredContainer_not _ _ (IOk_Service.1 (IOk_entry.1 (AllI_getD_mem (IOk_Services.1 (IOk_some.1 hserv)).1 kv hkv))).2
    · simp

/-! ### rule_permissions -/

theorem checkPermissions_not {x : Option Permissions} (h : NP d.pos x) : d ∉ checkPermissions x := by
  intro hd
  obtain ⟨q, rfl, hq⟩ := AL.C09R.checkPermissions_pos x d hd
  have hq' := IOk_Permissions.1 (IOk_some.1 h)
  rcases hq with ⟨a, ha, he⟩ | ⟨scopes, hs, kv, hkv, he⟩
  · exact NP_ostr hq'.1 a ha he.symm
  · have := hq'.2.1
    rw [hs] at this
    have hkv' := IOk_PermissionScope.1 (IOk_entry.1 (IOk_list.1 (IOk_some.1 this) kv hkv))
    rcases he with he | he
    · exact NP_str hkv'.1 he.symm
    · exact NP_str hkv'.2 he.symm

theorem rulePermissions_not {w : Workflow} (h : NP d.pos w) : d ∉ rulePermissions w := by
  simp only [rulePermissions, List.mem_append, not_or]
  refine ⟨checkPermissions_not (IOk_Workflow.1 h).2.2.2.1, not_mem_flatMap' fun j hj => ?_⟩
  obtain ⟨_, _, _, _, hperm, _⟩ := IOk_Job.1 (NP_jobs h j hj)
  exact checkPermissions_not hperm

/-! ### rule_if_cond -/

theorem checkIfCond_not {o : Option Str} (h : NP d.pos o) : d ∉ checkIfCond o := by
  intro hd
  obtain ⟨n, hn, he⟩ := AL.C09R.checkIfCond_pos o d hd
  exact NP_ostr h n hn he.symm

theorem ruleIfCond_not {w : Workflow} (h : NP d.pos w) : d ∉ ruleIfCond w := by
  refine not_mem_flatMap' fun j hj => ?_
  have hj' := NP_jobs h j hj
  obtain ⟨_, _, _, _, _, _, _, _, _, _, hcond, _⟩ := IOk_Job.1 hj'
  simp only [List.mem_append, not_or]
  exact ⟨checkIfCond_not hcond, not_mem_flatMap' fun st hst => checkIfCond_not (IOk_Step.1 (NP_steps hj' st hst)).2.1⟩

/-! ### rule_workflow_call, rule_deprecated_commands -/

theorem ruleWorkflowCall_not {w : Workflow} (h : NP d.pos w) : d ∉ ruleWorkflowCall w := by
  refine not_mem_flatMap' fun j hj hd => ?_
  obtain ⟨c, u, hc, hu, he⟩ := AL.C07M.workflowCallJob_pos j d hd
  obtain ⟨_, _, _, _, _, _, _, _, _, _, _, _, _, _, _, _, _, hcall, _⟩ := IOk_Job.1 (NP_jobs h j hj)
  rw [hc] at hcall
  exact NP_ostr (IOk_WorkflowCall.1 (IOk_some.1 hcall)).1 u hu he.symm

theorem ruleDeprecatedCommands_not {w : Workflow} (h : NP d.pos w) : d ∉ ruleDeprecatedCommands w := by
  intro hd
  obtain ⟨j, hj, st, hst, e, r, hex, hr, he⟩ := AL.C07M.deprecated_pos w d hd
  have := (IOk_Step.1 (NP_steps (NP_jobs h j hj) st hst)).2.2.2.1
  rw [hex] at this
  exact NP_ostr (IOk_ExecRun.1 (IOk_exec_run.1 this)).1 r hr he.symm

/-! ### rule_shell_name -/

theorem checkShellName_not (lower : String → String) (pf : Platform) {o : Option Str} (h : NP d.pos o) :
    d ∉ checkShellName lower pf o := by
  intro hd
  obtain ⟨n, hn, he⟩ := AL.C07M.checkShellName_pos lower pf o d hd
  exact NP_ostr h n hn he.symm

theorem defaultsShell_NP {x : Option Defaults} (h : NP p x) : NP p (defaultsShell x) := by
  simp only [defaultsShell]
  split
  · rename_i x
    split
    · rename_i r hr
      have := (IOk_Defaults.1 (IOk_some.1 h)).1
      rw [hr] at this
      exact (IOk_DefaultsRun.1 (IOk_some.1 this)).1
    · simp
  · simp

theorem ruleShellName_not (lower : String → String) {w : Workflow} (h : NP d.pos w) : d ∉ ruleShellName lower w := by
  simp only [ruleShellName, List.mem_append, not_or]
  refine ⟨checkShellName_not lower _ (defaultsShell_NP (IOk_Workflow.1 h).2.2.2.2.2.1), not_mem_flatMap' fun j hj => ?_⟩
  have hj' := NP_jobs h j hj
  obtain ⟨_, _, _, _, _, _, _, _, _, hdef, _⟩ := IOk_Job.1 hj'
  simp only [shellNameJob, List.mem_append, not_or]
  refine ⟨?_, not_mem_flatMap' fun st hst => ?_⟩
  · split
    · exact checkShellName_not lower _ (defaultsShell_NP hdef)
    · simp
  · split
    · rename_i e hex
      have := (IOk_Step.1 (NP_steps hj' st hst)).2.2.2.1
      rw [hex] at this
      exact checkShellName_not lower _ (IOk_ExecRun.1 (IOk_exec_run.1 this)).2.1
    · simp

/-! ### rule_action -/

theorem mem_ite_single {α} {c : Prop} [Decidable c] {a x : α} (h : a ∈ (if c then [x] else [])) : a = x := by
  split at h
  · simpa using h
  · cases h

/-- docker action: at `uses:` -/
theorem checkDockerAction_pos (urlOk : String → Bool) (uri : String) (pos : Pos) :
    ∀ d ∈ checkDockerAction urlOk uri pos, d.pos = pos := by
  intro d hd
  simp only [checkDockerAction] at hd
  split at hd
  all_goals
    simp only [List.mem_append] at hd
    rcases hd with hd | hd <;> split at hd <;> simp at hd <;> (rw [hd])

/-- repository action: at `uses:` or at the name of an undeclared input -/
theorem checkRepoAction_pos (spec : String) (e : ExecAction) (pos : Pos) :
    ∀ d ∈ checkRepoAction spec e pos, d.pos = pos ∨ ∃ kv ∈ e.inputs.getD [], d.pos = kv.2.name.pos := by
  intro d hd
  simp only [checkRepoAction] at hd
  split at hd
  · simp only [List.mem_singleton] at hd; rw [hd]; exact Or.inl rfl
  · split at hd
    · simp only [List.mem_singleton] at hd; rw [hd]; exact Or.inl rfl
    · simp only [List.mem_append] at hd
      rcases hd with hd | hd
      · rw [mem_ite_single hd]; exact Or.inl rfl
      · split at hd
        · rw [mem_ite_single hd]; exact Or.inl rfl
        · split at hd
          · cases hd
          · exact AL.C07M.checkActionInputs_pos _ _ _ _ d hd

theorem actionStep_not (urlOk : String → Bool) {st : Step} (h : NP d.pos st) : d ∉ actionStep urlOk st := by
  have hex := (IOk_Step.1 h).2.2.2.1
  simp only [actionStep]
  split
  · rename_i e he
    rw [he] at hex
    have he' := IOk_ExecAction.1 (IOk_exec_action.1 hex)
    split
    · simp
    · rename_i u hu
      have hup : u.pos ≠ d.pos := NP_ostr he'.1 u hu
      have hin : ∀ kv ∈ e.inputs.getD [], d.pos ≠ kv.2.name.pos := fun kv hkv he =>
        NP_str (IOk_Input.1 (IOk_entry.1 (AllI_getD_mem he'.2.1 kv hkv))).1 he.symm
      repeat' split
      · simp
      · simp
      · intro hd
        exact hup (checkDockerAction_pos _ _ _ d hd).symm
      · intro hd
        rcases checkRepoAction_pos _ _ _ d hd with he | ⟨kv, hkv, he⟩
        · exact hup he.symm
        · exact hin kv hkv he
  · simp

theorem ruleAction_not (urlOk : String → Bool) {w : Workflow} (h : NP d.pos w) : d ∉ ruleAction urlOk w :=
  not_mem_flatMap' fun j hj => not_mem_flatMap' fun st hst => actionStep_not urlOk (NP_steps (NP_jobs h j hj) st hst)

/-! ### rule_events -/

theorem diag_ne (x : Rules.Diag) (h : x.pos ≠ d.pos) : (d = x) = False := by
  simp only [eq_iff_iff, iff_false]
  intro he
  exact h (by rw [he])

theorem exclusiveFilters_not {f i : Option Filter} (hf : NP d.pos f) (hi : NP d.pos i) (hook : String) (av : List String) :
    d ∉ exclusiveFilters f i hook av := by
  have h1 : ∀ x, f = some x → x.name.pos ≠ d.pos := by
    intro x hx; subst hx; exact NP_str (IOk_Filter.1 (IOk_some.1 hf)).1
  have h2 : ∀ x, i = some x → x.name.pos ≠ d.pos := by
    intro x hx; subst hx; exact NP_str (IOk_Filter.1 (IOk_some.1 hi)).1
  simp only [exclusiveFilters]
  repeat' split
  all_goals simp_all [diag_ne]

theorem checkWebhookEvent_not {e : WebhookEvent} (h : NP d.pos e) : d ∉ checkWebhookEvent e := by
  obtain ⟨hhook, htypes, hb, hbi, ht, hti, hp, hpi, hwf, hpos⟩ := IOk_WebhookEvent.1 h
  have hpos' : e.pos ≠ d.pos := by simpa using hpos
  have hhook' : e.hook.pos ≠ d.pos := NP_str hhook
  simp only [checkWebhookEvent]
  split
  · simp [diag_ne, hpos']
  · simp only [List.mem_append, not_or]
    refine ⟨⟨⟨⟨?_, ?_⟩, exclusiveFilters_not hp hpi _ _⟩, exclusiveFilters_not hb hbi _ _⟩, exclusiveFilters_not ht hti _ _⟩
    · split
      · simp [diag_ne, hhook']
      · refine not_mem_flatMap' fun ty hty => ?_
        have := NP_str (AllI_getD_mem htypes ty hty)
        split <;> simp [diag_ne, this]
    · repeat' split
      all_goals simp [diag_ne, hpos']

theorem checkCallEvent_not (lower : String → String) (isNum : String → Bool) {inputs : List CallInput} (h : NP d.pos inputs) :
    d ∉ checkCallEvent lower isNum inputs := by
  refine not_mem_flatMap' fun i hi => ?_
  have hd := NP_ostr (IOk_CallInput.1 (IOk_list.1 h i hi)).2.2.1
  split
  · simp
  · rename_i dd hdd
    have := hd dd hdd
    simp only [List.mem_append, not_or]
    constructor
    · repeat' split
      all_goals simp [diag_ne, this]
    · split <;> simp [diag_ne, this]

theorem dupOptions_not : ∀ (opts : List Str) (seen : List String), NP d.pos opts → ∀ x ∈ (dupOptions opts seen).1, x.pos ≠ d.pos
  | [], _, _ => by simp [dupOptions]
  | o :: rest, seen, h => by
    have hh := IOk_cons.1 h
    have ho := NP_str hh.1
    simp only [dupOptions]
    split
    · intro x hx
      simp only [List.mem_cons] at hx
      rcases hx with rfl | hx
      · exact ho
      · exact dupOptions_not rest seen hh.2 x hx
    · exact dupOptions_not rest _ hh.2

theorem checkDispatchEvent_not (lower : String → String) (isNum : String → Bool) {inputs : List (String × DispatchInput)}
    (h : NP d.pos inputs) {pos : Pos} (hp : pos ≠ d.pos) : d ∉ checkDispatchEvent lower isNum inputs pos := by
  simp only [checkDispatchEvent, List.mem_append, not_or]
  refine ⟨not_mem_flatMap' fun kv hkv => ?_, by split <;> simp [diag_ne, hp]⟩
  obtain ⟨hname, _, _, hdflt, hopts⟩ := IOk_DispatchInput.1 (IOk_entry.1 (IOk_list.1 h kv hkv))
  have hn := NP_str hname
  have hd := NP_ostr hdflt
  have hopts' : NP d.pos (kv.2.options.getD []) := IOk_getD hopts
  have hdup := dupOptions_not (kv.2.options.getD []) [] hopts'
  split
  · split
    · simp [diag_ne, hn]
    · simp only [List.mem_append, not_or, List.mem_map, not_exists, not_and]
      constructor
      · intro x hx he
        exact hdup x hx (by rw [← he])
      · split
        · rename_i dd hdd
          have := hd dd hdd
          split <;> simp [diag_ne, this]
        · simp
  · simp only [List.mem_append, not_or]
    constructor
    · split <;> simp [diag_ne, hn]
    · split
      · rename_i dd hdd
        have := hd dd hdd
        repeat' split
        all_goals simp [diag_ne, this]
      · simp

/-- the CRON check: every diagnostic about a `schedule` entry (cron-no-schedule / cron-invalid / cron-too-frequent) sits at
the cron string -/
theorem cronEntry_pos (zk : List Char → Bool) (s : Str) : ∀ x ∈ cronEntry zk s, x.pos = s.pos := by
  intro x hx
  simp only [cronEntry] at hx
  split at hx
  · obtain ⟨c, _, rfl⟩ := List.mem_map.1 hx
    cases c <;> rfl
  · cases hx

theorem checkScheduleEvent_not (zk : List Char → Bool) {cron : List Str} (h : NP d.pos cron) :
    d ∉ checkScheduleEvent zk cron := by
  refine not_mem_flatMap' fun s hs hd => ?_
  exact NP_str (IOk_list.1 h s hs) (cronEntry_pos zk s d hd).symm

theorem ruleEvents_not (lower : String → String) (isNum : String → Bool) (lc : LabelCfg) {w : Workflow} (h : NP d.pos w) :
    d ∉ ruleEvents lower isNum w lc := by
  refine not_mem_flatMap' fun e he => ?_
  have he' := AllI_getD_mem (IOk_Workflow.1 h).2.2.1 e he
  cases e with
  | webhook x => exact checkWebhookEvent_not (IOk_webhook.1 he')
  | dispatch inputs pos =>
    have := IOk_dispatch.1 he'
    exact checkDispatchEvent_not lower isNum (IOk_getD this.1) (by simpa using this.2)
  | call inputs s o pos => exact checkCallEvent_not lower isNum (IOk_getD (IOk_call.1 he').1)
  | schedule c pos => exact checkScheduleEvent_not lc.zoneKnown (IOk_schedule.1 he').1
  | repoDispatch t pos => simp

/-! ### rule_glob: the one rule that computes a column -/

/-- `p` is on the line of the string `s`, at or after its first character (after the opening quote when it is quoted) -/
def GlobAt (s : Str) (p : Pos) : Prop :=
  p.line = s.pos.line ∧ ∃ k, p.col = s.pos.col + (if s.quoted then 1 else 0) + k

theorem checkGlobs_at (isRef : Bool) (f : Option Filter) :
    ∀ d ∈ checkGlobs isRef f, ∃ x, f = some x ∧ ∃ v ∈ x.values.getD [], GlobAt v d.pos := by
  intro d hd
  simp only [checkGlobs] at hd
  split at hd
  · cases hd
  · rename_i x
    obtain ⟨v, hv, hd⟩ := List.mem_flatMap.1 hd
    split at hd
    · cases hd
    · obtain ⟨e, _, hl, hc⟩ := AL.C09R.globErrors_pos _ v d hd
      exact ⟨x, rfl, v, hv, hl, _, hc⟩

/-- a glob diagnostic sits on the line of one of the patterns of a filter of a webhook event, at the pattern's column + 1
for an opening quote + the offset the validator reports -/
theorem ruleGlob_at (w : Workflow) :
    ∀ d ∈ ruleGlob w, ∃ s, Item.str s ∈ items w ∧ GlobAt s d.pos := by
  intro d hd
  obtain ⟨e, he, hd⟩ := List.mem_flatMap.1 hd
  -- "`s` is not a string of `w`" through the structure, contrapositive
  refine Classical.byContradiction fun hne => ?_
  have hall : AllI (fun it => ∀ s, it = Item.str s → ¬ GlobAt s d.pos) w := by
    intro it hit s hs
    subst hs
    exact fun hg => hne ⟨s, hit, hg⟩
  have he' := AllI_getD_mem (IOk_Workflow.1 hall).2.2.1 e he
  cases e with
  | webhook x =>
    obtain ⟨_, _, hb, hbi, ht, hti, hp, hpi, _, _⟩ := IOk_WebhookEvent.1 (IOk_webhook.1 he')
    have key : ∀ (isRef : Bool) (f : Option Filter), AllI (fun it => ∀ s, it = Item.str s → ¬ GlobAt s d.pos) f →
        d ∉ checkGlobs isRef f := by
      intro isRef f hf hd
      obtain ⟨y, rfl, v, hv, hg⟩ := checkGlobs_at isRef f d hd
      have := AllI_getD_mem (IOk_Filter.1 (IOk_some.1 hf)).2 v hv
      exact (AllI_str.1 this) v rfl hg
    simp only [List.mem_append] at hd
    rcases hd with ((((hd | hd) | hd) | hd) | hd) | hd
    · exact key _ _ hb hd
    · exact key _ _ hbi hd
    · exact key _ _ ht hd
    · exact key _ _ hti hd
    · exact key _ _ hp hd
    · exact key _ _ hpi hd
  | dispatch inputs pos => cases hd
  | call inputs s o pos => cases hd
  | schedule c pos => cases hd
  | repoDispatch t pos => cases hd

/-! ### rule_matrix -/

theorem NP_raw_pos : ∀ {r : AL.Matrix.Raw}, NP p r → r.pos ≠ p
  | .str v q, h => by simpa [AL.Matrix.Raw.pos] using h
  | .arr es q, h => (IOk_raw_arr.1 h).1
  | .obj ps q, h => (IOk_raw_obj.1 h).1

/-- a duplicate is reported at the later of the two equal values -/
theorem dupRow_pos (row : String) : ∀ (vs seen : List AL.Matrix.Raw), ∀ md ∈ AL.Matrix.dupRow row vs seen,
    ∃ v ∈ vs, (matrixDiag md).pos = v.pos
  | [], _, md, h => by simp [AL.Matrix.dupRow] at h
  | v :: vs, seen, md, h => by
    simp only [AL.Matrix.dupRow] at h
    split at h
    · simp only [List.mem_cons] at h
      rcases h with rfl | h
      · exact ⟨v, by simp, rfl⟩
      · obtain ⟨v', hv', he⟩ := dupRow_pos row vs seen md h
        exact ⟨v', by simp [hv'], he⟩
    · obtain ⟨v', hv', he⟩ := dupRow_pos row vs _ md h
      exact ⟨v', by simp [hv'], he⟩

/-- `exclude`: at the key of the assignment (unknown key) or at its value (no row value matches) -/
theorem excludeAssign_pos (ignored : List String) (rows : AL.Matrix.RowMap) (a : AL.Matrix.Assign) :
    ∀ md ∈ AL.Matrix.excludeAssign ignored rows a, (matrixDiag md).pos = a.keyPos ∨ (matrixDiag md).pos = a.value.pos := by
  intro md h
  simp only [AL.Matrix.excludeAssign] at h
  split at h
  · cases h
  · split at h
    · simp only [List.mem_singleton] at h; subst h; exact Or.inl rfl
    · split at h
      · cases h
      · simp only [List.mem_singleton] at h; subst h; exact Or.inr rfl

theorem checkExclude_pos (m : AL.Matrix.Mat) : ∀ md ∈ AL.Matrix.checkExclude m,
    (matrixDiag md).pos = m.pos ∨
    ∃ ex, m.excl = some ex ∧ ∃ as, AL.Matrix.Combo.assigns as ∈ ex.combos ∧ ∃ a ∈ as,
      (matrixDiag md).pos = a.keyPos ∨ (matrixDiag md).pos = a.value.pos := by
  intro md h
  simp only [AL.Matrix.checkExclude] at h
  split at h
  · cases h
  · rename_i ex hex
    have key : ∀ l, md ∈ List.flatMap (fun c => match c with
        | AL.Matrix.Combo.assigns as => as.flatMap (AL.Matrix.excludeAssign (List.map (fun x => x.id) (List.filter (fun x => x.values.isNone) m.rows)) l)
        | AL.Matrix.Combo.expr => []) ex.combos →
        ∃ as, AL.Matrix.Combo.assigns as ∈ ex.combos ∧ ∃ a ∈ as,
          (matrixDiag md).pos = a.keyPos ∨ (matrixDiag md).pos = a.value.pos := by
      intro l h
      obtain ⟨c, hc, h⟩ := List.mem_flatMap.1 h
      cases c with
      | assigns as =>
        obtain ⟨a, ha, h⟩ := List.mem_flatMap.1 h
        exact ⟨as, hc, a, ha, excludeAssign_pos _ _ a md h⟩
      | expr => cases h
    repeat' split at h
    all_goals first
      | (cases h; done)
      | (simp only [List.mem_singleton] at h; subst h; exact Or.inl rfl)
      | exact Or.inr ⟨ex, hex, key _ h⟩

theorem matrixJob_not {j : Job} (h : NP d.pos j) : d ∉ matrixJob j := by
  obtain ⟨_, _, _, _, _, _, _, _, _, _, _, _, _, hstrat, _⟩ := IOk_Job.1 h
  simp only [matrixJob]
  split
  · simp
  · rename_i s hs
    rw [hs] at hstrat
    have hm := (IOk_Strategy.1 (IOk_some.1 hstrat)).1
    split
    · simp
    · rename_i m hmm
      rw [hmm] at hm
      obtain ⟨hrows, _, hexcl, _, hpos⟩ := IOk_Matrix.1 (IOk_some.1 hm)
      split
      · simp
      · intro hd
        obtain ⟨md, hmd, rfl⟩ := List.mem_map.1 hd
        simp only [AL.Matrix.check, List.mem_append] at hmd
        rcases hmd with hmd | hmd
        · -- duplicates in a row
          simp only [AL.Matrix.checkDuplicates, matrixOf, List.mem_flatMap, List.mem_map] at hmd
          obtain ⟨r, ⟨kv, hkv, rfl⟩, hmd⟩ := hmd
          have hrow := IOk_MatrixRow.1 (IOk_entry.1 (AllI_getD_mem hrows kv hkv))
          split at hmd
          · rename_i vs hvs
            simp only at hvs
            split at hvs
            · cases hvs
            · simp only [Option.some.injEq] at hvs
              subst hvs
              obtain ⟨v, hv, he⟩ := dupRow_pos _ _ _ md hmd
              exact NP_raw_pos (AllI_getD_mem hrow.2.1 v hv) he.symm
          · cases hmd
        · rcases checkExclude_pos _ md hmd with he | ⟨ex, hex, as, has, a, ha, he⟩
          · exact (by simpa using hpos : m.pos ≠ (matrixDiag md).pos) he.symm
          · simp only [matrixOf, Rules.matrixCombos] at hex
            cases hx : m.excl with
            | none => simp [hx] at hex
            | some cs =>
              rw [hx] at hexcl
              have hcs := (IOk_MatrixCombinations.1 (IOk_some.1 hexcl)).1
              simp only [hx, Option.map_some, Option.some.injEq] at hex
              subst hex
              split at has
              · simp [AL.Matrix.Combos.combos] at has
              · simp only [AL.Matrix.Combos.combos, List.mem_map] at has
                obtain ⟨x, hx', hxe⟩ := has
                split at hxe
                · cases hxe
                · simp only [AL.Matrix.Combo.assigns.injEq] at hxe
                  subst hxe
                  simp only [List.mem_map] at ha
                  obtain ⟨kv, hkv, rfl⟩ := ha
                  have hx'' := (IOk_MatrixCombination.1 (AllI_getD_mem hcs x hx')).1
                  have hkv' := IOk_MatrixAssign.1 (IOk_entry.1 (AllI_getD_mem hx'' kv hkv))
                  rcases he with he | he
                  · exact NP_str hkv'.1 he.symm
                  · exact NP_raw_pos hkv'.2 he.symm

theorem ruleMatrix_not {w : Workflow} (h : NP d.pos w) : d ∉ ruleMatrix w :=
  not_mem_flatMap' fun j hj => matrixJob_not (NP_jobs h j hj)

/-! ### rule_runner_label -/

/-- no diagnostic of the list is at `p` -/
def Clean (p : Pos) (ds : List Rules.Diag) : Prop := ∀ x ∈ ds, x.pos ≠ p

theorem Clean.nil : Clean p [] := fun _ h => by cases h
theorem Clean.append {a b : List Rules.Diag} (ha : Clean p a) (hb : Clean p b) : Clean p (a ++ b) :=
  fun x hx => (List.mem_append.1 hx).elim (ha x) (hb x)
theorem Clean.flatMap {α} {l : List α} {f : α → List Rules.Diag} (h : ∀ a ∈ l, Clean p (f a)) : Clean p (l.flatMap f) := by
  intro x hx
  obtain ⟨a, ha, hx⟩ := List.mem_flatMap.1 hx
  exact h a ha x hx
theorem Clean.not_mem {ds : List Rules.Diag} (h : Clean d.pos ds) : d ∉ ds := fun hd => h d hd rfl

theorem verify_clean (lower : String → String) (lc : LabelCfg) {l : Str} (h : l.pos ≠ p) : Clean p (verifyRunnerLabel lower l lc).2 := by
  intro x hx
  rw [AL.C07M.verifyRunnerLabel_pos lower l lc x hx]
  exact h

/-- a label a matrix expression may stand for is a scalar of the matrix: of a row or of an `include` entry -/
theorem labelsInMatrix_pos (lower : String → String) (l : Str) {m : Option Ast.Matrix} (h : NP p m) :
    ∀ s ∈ labelsInMatrix lower l m, s.pos ≠ p := by
  intro s hs
  cases m with
  | none => simp [labelsInMatrix] at hs
  | some m =>
    obtain ⟨hrows, hincl, _⟩ := IOk_Matrix.1 (IOk_some.1 h)
    have hraw : ∀ (v : AL.Matrix.Raw), NP p v → (match v with
        | .str s p => if AL.Matrix.containsExpr s then none else some (⟨s, false, p⟩ : Str)
        | _ => none) = some s → s.pos ≠ p := by
      intro v hv he
      cases v with
      | str s' q =>
        simp only at he
        split at he
        · cases he
        · simp only [Option.some.injEq] at he
          subst he
          simpa using hv
      | arr es q => cases he
      | obj ps q => cases he
    simp only [labelsInMatrix] at hs
    split at hs
    · cases hs
    · split at hs
      · cases hs
      · split at hs
        · rename_i prop _
          simp only [List.mem_append] at hs
          rcases hs with hs | hs
          · split at hs
            · rename_i rows hr
              rw [hr] at hrows
              split at hs
              · rename_i k row hf
                have hmem := List.mem_of_find?_eq_some hf
                have hrow := IOk_MatrixRow.1 (IOk_entry.1 (IOk_list.1 (IOk_some.1 hrows) _ hmem))
                obtain ⟨v, hv, he⟩ := List.mem_filterMap.1 hs
                exact hraw v (AllI_getD_mem hrow.2.1 v hv) he
              · cases hs
            · cases hs
          · split at hs
            · rename_i inc hi
              rw [hi] at hincl
              have hcs := (IOk_MatrixCombinations.1 (IOk_some.1 hincl)).1
              obtain ⟨c, hc, he⟩ := List.mem_filterMap.1 hs
              have hc' := (IOk_MatrixCombination.1 (AllI_getD_mem hcs c hc)).1
              split at he
              · rename_i as has
                rw [has] at hc'
                split at he
                · rename_i k a hf
                  have hmem := List.mem_of_find?_eq_some hf
                  have ha := (IOk_MatrixAssign.1 (IOk_entry.1 (IOk_list.1 (IOk_some.1 hc') _ hmem))).2
                  exact hraw a.value ha he
                · cases he
              · cases he
            · cases hs
        · cases hs

theorem checkCompat_clean (compats : Compats) (comp : Nat) {l : Str} (h : l.pos ≠ p) : Clean p (checkCompat compats comp l).2 := by
  simp only [checkCompat]
  split
  · exact Clean.nil
  · split
    · intro x hx
      simp only [List.mem_singleton] at hx
      subst hx
      exact h
    · exact Clean.nil

theorem checkCombiCompat_clean (compats : Compats) {cls : List (Nat × Str)} (h : ∀ cl ∈ cls, cl.2.pos ≠ p) :
    Clean p (checkCombiCompat compats cls).2 := by
  simp only [checkCombiCompat]
  intro x hx
  obtain ⟨y, hy, hx⟩ := List.mem_flatMap.1 hx
  obtain ⟨cl, hcl, rfl⟩ := List.mem_map.1 hy
  split at hx
  · split at hx
    · simp only [List.mem_singleton] at hx
      subst hx
      exact h cl hcl
    · cases hx
  · cases hx

theorem checkLabelAndConflict_clean (lc : LabelCfg) (lower : String → String) {m : Option Ast.Matrix} (hm : NP p m)
    {acc : Compats × List Rules.Diag} (hacc : Clean p acc.2) {l : Str} (hl : l.pos ≠ p) :
    Clean p (checkLabelAndConflict lc lower m acc l).2 := by
  have hss := labelsInMatrix_pos lower l hm
  simp only [checkLabelAndConflict]
  split
  · refine (hacc.append (Clean.flatMap ?_)).append (checkCombiCompat_clean _ ?_)
    · intro x hx
      obtain ⟨s, hs, rfl⟩ := List.mem_map.1 hx
      exact verify_clean lower lc (hss s hs)
    · intro cl hcl
      obtain ⟨x, hx, rfl⟩ := List.mem_map.1 hcl
      obtain ⟨s, hs, rfl⟩ := List.mem_map.1 hx
      exact hss s hs
  · exact (hacc.append (verify_clean lower lc hl)).append (checkCompat_clean _ _ hl)

theorem foldl_checkLabel_clean (lc : LabelCfg) (lower : String → String) {m : Option Ast.Matrix} (hm : NP p m) :
    ∀ (ls : List Str) (acc : Compats × List Rules.Diag), Clean p acc.2 → (∀ l ∈ ls, l.pos ≠ p) →
      Clean p (ls.foldl (checkLabelAndConflict lc lower m) acc).2
  | [], _, hacc, _ => hacc
  | l :: ls, acc, hacc, h => by
    simp only [List.foldl_cons]
    exact foldl_checkLabel_clean lc lower hm ls _
      (checkLabelAndConflict_clean lc lower hm hacc (h l (List.mem_cons_self ..))) (fun x hx => h x (List.mem_cons_of_mem _ hx))

theorem runnerLabelJob_clean (lower : String → String) (lc : LabelCfg) {j : Job} (h : NP p j) :
    Clean p (runnerLabelJob lower j lc) := by
  obtain ⟨_, _, _, hrunsOn, _, _, _, _, _, _, _, _, _, hstrat, _⟩ := IOk_Job.1 h
  have hm : NP p (match j.strategy with | some s => s.matrix | none => none) := by
    split
    · rename_i s hs
      rw [hs] at hstrat
      exact (IOk_Strategy.1 (IOk_some.1 hstrat)).1
    · simp
  simp only [runnerLabelJob]
  split
  · exact Clean.nil
  · rename_i r hr
    rw [hr] at hrunsOn
    obtain ⟨hlabels, hexpr, _⟩ := IOk_Runner.1 (IOk_some.1 hrunsOn)
    have hls : ∀ l ∈ r.labels.getD [], l.pos ≠ p := fun l hl => NP_str (AllI_getD_mem hlabels l hl)
    split
    · rename_i l hl
      have hlp : l.pos ≠ p := hls l (by rw [hl]; simp)
      split
      · exact Clean.flatMap fun s hs => verify_clean lower lc (labelsInMatrix_pos lower l hm s hs)
      · exact verify_clean lower lc hlp
    · split
      · rename_i e he
        exact checkLabelAndConflict_clean lc lower hm Clean.nil (NP_ostr hexpr e he)
      · exact foldl_checkLabel_clean lc lower hm _ _ Clean.nil hls

theorem ruleRunnerLabel_not (lower : String → String) (lc : LabelCfg) {w : Workflow} (h : NP d.pos w) :
    d ∉ ruleRunnerLabel lower w lc :=
  not_mem_flatMap' fun j hj => (runnerLabelJob_clean lower lc (NP_jobs h j hj)).not_mem

/-! ### rule_job_needs -/

section needs
open AL.Needs

/-- where a diagnostic of the job-needs model sits -/
def dpos : Needs.Diag → Needs.P
  | .dupNeeds pos _ => pos
  | .dupJob pos _ _ => pos
  | .undefined pos _ _ => pos
  | .cyclic c => c.pos

theorem needsDiag_pos (x : Needs.Diag) : (needsDiag x).pos = ofNP (dpos x) := by
  cases x <;> rfl

/-- a repeated `needs:` entry is reported at the repetition -/
theorem normNeeds_pos (lower : String → String) (ns : List NeedRef) (acc : List String) :
    ∀ x ∈ (normNeeds lower ns acc).2, ∃ n ∈ ns, dpos x = n.pos := by
  induction ns generalizing acc with
  | nil => simp [normNeeds]
  | cons j rest ih =>
    intro x hx
    simp only [normNeeds] at hx
    split at hx
    · simp only [List.mem_cons] at hx
      rcases hx with rfl | hx
      · exact ⟨j, by simp, rfl⟩
      · obtain ⟨n, hn, he⟩ := ih _ x hx
        exact ⟨n, by simp [hn], he⟩
    · split at hx
      · obtain ⟨n, hn, he⟩ := ih _ x hx
        exact ⟨n, by simp [hn], he⟩
      · obtain ⟨n, hn, he⟩ := ih _ x hx
        exact ⟨n, by simp [hn], he⟩

/-- `q` is the position of a job, of a job id or of a `needs:` entry of the jobs -/
def JP (jobs : List JobIn) (q : Needs.P) : Prop :=
  ∃ j ∈ jobs, q = j.idPos ∨ q = j.jobPos ∨ ∃ n ∈ j.needs, q = n.pos

theorem JP.mono {js js' : List JobIn} {q : Needs.P} (h : JP js q) (hs : ∀ j ∈ js, j ∈ js') : JP js' q := by
  obtain ⟨j, hj, h⟩ := h
  exact ⟨j, hs j hj, h⟩

/-- `VisitJobPre` over all jobs: the registered nodes carry the position of a job id; a repeated job id is reported at the
later JOB (`jobPos`), a repeated `needs:` entry at the entry -/
theorem visitJobs_pos (lower : String → String) (all : List JobIn) :
    ∀ (js : List JobIn) (nodes : List RawNode), (∀ j ∈ js, j ∈ all) → (∀ n ∈ nodes, ∃ j ∈ all, n.pos = j.idPos) →
      (∀ n ∈ (visitJobs lower js nodes).1, ∃ j ∈ all, n.pos = j.idPos) ∧
      ∀ x ∈ (visitJobs lower js nodes).2, JP all (dpos x) := by
  intro js
  induction js with
  | nil => intro nodes _ hn; simp [visitJobs]; exact hn
  | cons j rest ih =>
    intro nodes hjs hn
    have hj : j ∈ all := hjs j (List.mem_cons_self ..)
    have hrest : ∀ x ∈ rest, x ∈ all := fun x hx => hjs x (List.mem_cons_of_mem _ hx)
    have hnorm : ∀ x ∈ (normNeeds lower j.needs []).2, JP all (dpos x) := by
      intro x hx
      obtain ⟨n, hn', he⟩ := normNeeds_pos lower j.needs [] x hx
      exact ⟨j, hj, Or.inr (Or.inr ⟨n, hn', he⟩)⟩
    simp only [visitJobs]
    split
    · have := ih nodes hrest hn
      refine ⟨this.1, ?_⟩
      intro x hx
      simp only [List.mem_append] at hx
      rcases hx with hx | hx
      · exact hnorm x hx
      · exact this.2 x hx
    · have hn' : ∀ n ∈ (if nodes.any (·.id = lower j.idValue) then
          nodes.map (fun n => if n.id = lower j.idValue then
            ({ id := lower j.idValue, pos := j.idPos, needs := (normNeeds lower j.needs []).1 } : RawNode) else n)
          else nodes ++ [{ id := lower j.idValue, pos := j.idPos, needs := (normNeeds lower j.needs []).1 }]),
          ∃ j ∈ all, n.pos = j.idPos := by
        intro n hnm
        split at hnm
        · obtain ⟨n', hn'', rfl⟩ := List.mem_map.1 hnm
          split
          · exact ⟨j, hj, rfl⟩
          · exact hn n' hn''
        · simp only [List.mem_append, List.mem_singleton] at hnm
          rcases hnm with hnm | rfl
          · exact hn n hnm
          · exact ⟨j, hj, rfl⟩
      have := ih _ hrest hn'
      refine ⟨this.1, ?_⟩
      intro x hx
      simp only [List.mem_append] at hx
      rcases hx with (hx | hx) | hx
      · exact hnorm x hx
      · split at hx
        · simp only [List.mem_singleton] at hx
          subst hx
          exact ⟨j, hj, Or.inr (Or.inl rfl)⟩
        · cases hx
      · exact this.2 x hx

theorem resolve_wf (nodes : List RawNode) : AL.Spec.WF (resolve nodes).1 := by
  intro v w hw
  simp only [resolve, Graph.succ, List.getElem?_map, List.length_map] at hw ⊢
  cases hv : nodes[v]? with
  | none => simp [hv] at hw
  | some n =>
    simp only [hv, Option.map_some, Option.getD_some, List.mem_filterMap] at hw
    obtain ⟨dep, _, he⟩ := hw
    exact indexOf?_lt nodes dep w he

theorem walk_head_lt {g : Graph} : ∀ {vs : List Nat}, AL.Spec.Walk g vs → vs.headD 0 < g.length
  | _, .single v h => h
  | _, .cons v w rest hv _ _ => hv

/-- the whole model: every diagnostic sits at a job, a job id or a `needs:` entry -/
theorem check_pos (lower : String → String) (jobs : List JobIn) (order : List Nat) :
    ∀ x ∈ Needs.check lower jobs order, JP jobs (dpos x) := by
  intro x hx
  have hv := visitJobs_pos lower jobs jobs [] (fun _ h => h) (fun _ h => by cases h)
  simp only [Needs.check] at hx
  rcases hvj : visitJobs lower jobs [] with ⟨nodes, d0⟩
  rw [hvj] at hx hv
  simp only at hx hv
  rcases hres : resolve nodes with ⟨g, d1⟩
  rw [hres] at hx
  simp only at hx
  have hundef : ∀ y ∈ d1, JP jobs (dpos y) := by
    intro y hy
    have : y ∈ (resolve nodes).2 := by rw [hres]; exact hy
    simp only [resolve, List.mem_flatMap, List.mem_map, List.mem_filter] at this
    obtain ⟨n, hn, dep, _, rfl⟩ := this
    obtain ⟨j, hj, he⟩ := hv.1 n hn
    exact ⟨j, hj, Or.inl he⟩
  split at hx
  · simp only [List.mem_append] at hx
    rcases hx with hx | hx
    · exact hv.2 x hx
    · exact hundef x hx
  · split at hx
    · rename_i c hc
      simp only [List.mem_append, List.mem_singleton] at hx
      rcases hx with hx | rfl
      · exact hv.2 x hx
      · have hwf : AL.Spec.WF g := by
          have := resolve_wf nodes
          rw [hres] at this
          exact this
        rcases AL.C18.cycleDiag_cases g order hwf with ⟨hnone, _⟩ | ⟨vs, hcyc, hsome, _⟩
        · rw [hnone] at hc; cases hc
        · rw [hsome] at hc
          simp only [Option.some.injEq] at hc
          subst hc
          have hlt := walk_head_lt hcyc.1
          have hg : g = nodes.map fun n => ({ id := n.id, pos := n.pos, resolved := n.needs.filterMap (indexOf? nodes) } : Needs.Node) := by
            have : g = (resolve nodes).1 := by rw [hres]
            rw [this]; rfl
          have hlt' : vs.headD 0 < nodes.length := by rw [hg, List.length_map] at hlt; exact hlt
          have hpos : posOf g (vs.headD 0) = (nodes[vs.headD 0]'hlt').pos := by
            simp only [posOf, hg, List.getElem?_map, List.getElem?_eq_getElem hlt', Option.map_some, Option.getD_some]
          obtain ⟨j, hj, he⟩ := hv.1 _ (List.getElem_mem hlt')
          exact ⟨j, hj, Or.inl (by simp only [dpos]; rw [hpos]; exact he)⟩
    · exact hv.2 x hx

end needs

theorem ofNP_toNP (q : Pos) : ofNP (toNP q) = q := rfl

theorem ruleJobNeeds_not (lower : String → String) {w : Workflow} (h : NP d.pos w) : d ∉ ruleJobNeeds lower w := by
  intro hd
  simp only [ruleJobNeeds] at hd
  obtain ⟨x, hx, rfl⟩ := List.mem_map.1 hd
  obtain ⟨ji, hji, hq⟩ := check_pos lower _ _ x hx
  obtain ⟨j, hj, rfl⟩ := List.mem_map.1 hji
  have hj' := IOk_Job.1 (NP_jobs h j hj)
  obtain ⟨hid, _, hneeds, _, _, _, _, _, _, _, _, _, _, _, _, _, _, _, hpos⟩ := hj'
  rw [needsDiag_pos] at hid hneeds hpos
  rcases hq with hq | hq | ⟨n, hn, hq⟩
  · rw [hq] at hid
    exact NP_str hid rfl
  · rw [hq] at hpos
    simp only [needsJobIn, AllI_pos, NotAtP_pos] at hpos
    exact hpos rfl
  · simp only [needsJobIn, List.mem_map] at hn
    obtain ⟨s, hs, rfl⟩ := hn
    rw [hq] at hneeds
    exact NP_str (AllI_getD_mem hneeds s hs) rfl

end AL.C07S.AR
