import AL.Model.Sema
import AL.Lemmas.TyMono
/-
  C06 (d): `validCompare` is monotone in both operands for `LooserW` (hence `Looser`, `LooserD`).
-/
namespace AL.Sema
open AL AL.Ty AL.Spec

theorem validCompare_mono (op : CmpOp) : {l l' : Ty} → LooserW l l' → ∀ {r r' : Ty}, LooserW r r' →
    validCompare op l r = true → validCompare op l' r' = true
  | l, _, .any _ => fun hr h => by
    cases hr <;> cases op <;> cases l <;> simp_all [validCompare]
  | _, _, .null => fun hr h => by cases hr <;> cases op <;> simp_all [validCompare]
  | _, _, .number => fun hr h => by cases hr <;> cases op <;> simp_all [validCompare]
  | _, _, .bool => fun hr h => by cases hr <;> cases op <;> simp_all [validCompare]
  | _, _, .string => fun hr h => by cases hr <;> cases op <;> simp_all [validCompare]
  | _, _, .arr hl => fun hr h => by
    cases hr with
    | arr hre =>
      have ih := validCompare_mono op hl hre
      cases op <;> simp_all [validCompare]
    | _ => cases op <;> simp_all [validCompare]
  | _, _, .obj _ _ => fun hr h => by cases hr <;> cases op <;> simp_all [validCompare]

theorem validCompare_mono_looser {op : CmpOp} {l l' r r' : Ty} (hl : Looser l l') (hr : Looser r r')
    (h : validCompare op l r = true) : validCompare op l' r' = true :=
  validCompare_mono op (LooserW.of_looser hl) (LooserW.of_looser hr) h

end AL.Sema
