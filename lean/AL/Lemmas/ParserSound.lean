import AL.Lemmas.ParserBasic
/-
  Soundness of the parser model w.r.t. the grammar relation: one invariant per parser function,
  proved together by induction on the fuel.
-/
namespace AL.Parse
open AL AL.Lex AL.Spec

abbrev tk (ts : Toks) : List Tok := ts.map (·.tok)

theorem step_kind {ts : Toks} (h : endsEnd ts = true) {k : TokKind} (hk : (cur ts).tok.kind = k) (hne : k ≠ .end) :
    ∃ t rest, ts = t :: rest ∧ adv ts = rest ∧ endsEnd rest = true ∧ t.tok.kind = k := by
  obtain ⟨t, rest, rfl, h2, h3, _⟩ := step_of_not_end h (by rw [hk]; exact hne)
  exact ⟨t, rest, rfl, h2, h3, hk⟩

/-- invariant of the six level functions -/
def SLevel (p : Nat → Toks → PRes) (L : Level) (f : Nat) : Prop :=
  ∀ ts e rest, endsEnd ts = true → p f ts = .ok (e, rest) →
    endsEnd rest = true ∧ ∃ pre, ts = pre ++ rest ∧ Der L (tk pre) e

/-- invariant of the postfix loop: it extends whatever postfix sentence denotes `ret` -/
def SLoop (f : Nat) : Prop :=
  ∀ ret ts e rest, endsEnd ts = true → postfixLoop f ret ts = .ok (e, rest) →
    endsEnd rest = true ∧ ∃ pre, ts = pre ++ rest ∧
      ∀ pre0, Der .postfix pre0 ret → Der .postfix (pre0 ++ tk pre) e

/-- invariant of the argument loop: arguments, then `)` -/
def SArgs (f : Nat) : Prop :=
  ∀ acc ts es rest, endsEnd ts = true → argsLoop f acc ts = .ok (es, rest) →
    endsEnd rest = true ∧ ∃ pre rp es', ts = pre ++ rp :: rest ∧ rp.tok.kind = .rparen ∧
      es = acc ++ es' ∧ DerArgs (tk pre) es'

def SAll (f : Nat) : Prop :=
  SLevel parseLogicalOr .or f ∧ SLevel parseLogicalAnd .and f ∧ SLevel parseCompare .cmp f ∧
  SLevel parsePrefix .unary f ∧ SLevel parsePostfix .postfix f ∧ SLevel parsePrimary .primary f ∧
  SLoop f ∧ SArgs f

theorem cmpOf_ne_end {k : TokKind} {c : CmpKind} (h : cmpOf k = some c) : k ≠ .end := by
  intro h0; subst h0; simp [cmpOf] at h

theorem sound_or {f} (hAnd : SLevel parseLogicalAnd .and f) (hOr : SLevel parseLogicalOr .or f) :
    SLevel parseLogicalOr .or (f + 1) := by
  intro ts e rest hE h
  rw [parseLogicalOr] at h
  split at h
  · cases h
  · rename_i l ts1 h1
    obtain ⟨hE1, pre1, rfl, hd1⟩ := hAnd _ _ _ hE h1
    split at h
    · cases h; exact ⟨hE1, pre1, rfl, .orUp hd1⟩
    · rename_i hk
      have hk : (cur ts1).tok.kind = .or := by simpa using hk
      obtain ⟨t, r1, rfl, hadv, hE2, htk⟩ := step_kind hE1 hk (by decide)
      rw [hadv] at h
      split at h
      · cases h
      · rename_i r ts2 h2
        cases h
        obtain ⟨hE3, pre2, rfl, hd2⟩ := hOr _ _ _ hE2 h2
        refine ⟨hE3, pre1 ++ t :: pre2, by simp, ?_⟩
        have : tk (pre1 ++ t :: pre2) = tk pre1 ++ t.tok :: tk pre2 := by simp [tk]
        rw [this]; exact .orBin hd1 htk hd2

theorem sound_and {f} (hCmp : SLevel parseCompare .cmp f) (hAnd : SLevel parseLogicalAnd .and f) :
    SLevel parseLogicalAnd .and (f + 1) := by
  intro ts e rest hE h
  rw [parseLogicalAnd] at h
  split at h
  · cases h
  · rename_i l ts1 h1
    obtain ⟨hE1, pre1, rfl, hd1⟩ := hCmp _ _ _ hE h1
    split at h
    · cases h; exact ⟨hE1, pre1, rfl, .andUp hd1⟩
    · rename_i hk
      have hk : (cur ts1).tok.kind = .and := by simpa using hk
      obtain ⟨t, r1, rfl, hadv, hE2, htk⟩ := step_kind hE1 hk (by decide)
      rw [hadv] at h
      split at h
      · cases h
      · rename_i r ts2 h2
        cases h
        obtain ⟨hE3, pre2, rfl, hd2⟩ := hAnd _ _ _ hE2 h2
        refine ⟨hE3, pre1 ++ t :: pre2, by simp, ?_⟩
        have : tk (pre1 ++ t :: pre2) = tk pre1 ++ t.tok :: tk pre2 := by simp [tk]
        rw [this]; exact .andBin hd1 htk hd2

theorem sound_cmp {f} (hPre : SLevel parsePrefix .unary f) (hCmp : SLevel parseCompare .cmp f) :
    SLevel parseCompare .cmp (f + 1) := by
  intro ts e rest hE h
  rw [parseCompare] at h
  split at h
  · cases h
  · rename_i l ts1 h1
    obtain ⟨hE1, pre1, rfl, hd1⟩ := hPre _ _ _ hE h1
    simp only at h
    split at h
    · cases h; exact ⟨hE1, pre1, rfl, .cmpUp hd1⟩
    · rename_i k hk
      obtain ⟨t, r1, rfl, hadv, hE2, htk⟩ := step_kind hE1 rfl (cmpOf_ne_end hk)
      rw [hadv] at h
      split at h
      · cases h
      · rename_i r ts2 h2
        cases h
        obtain ⟨hE3, pre2, rfl, hd2⟩ := hCmp _ _ _ hE2 h2
        refine ⟨hE3, pre1 ++ t :: pre2, by simp, ?_⟩
        have : tk (pre1 ++ t :: pre2) = tk pre1 ++ t.tok :: tk pre2 := by simp [tk]
        rw [this]; exact .cmpBin hd1 (by rw [htk]; exact hk) hd2

theorem sound_prefix {f} (hPost : SLevel parsePostfix .postfix f) (hPre : SLevel parsePrefix .unary f) :
    SLevel parsePrefix .unary (f + 1) := by
  intro ts e rest hE h
  rw [parsePrefix] at h
  split at h
  · obtain ⟨hE1, pre1, rfl, hd1⟩ := hPost _ _ _ hE h
    exact ⟨hE1, pre1, rfl, .unaryUp hd1⟩
  · rename_i hk
    have hk : (cur ts).tok.kind = .not := by simpa using hk
    obtain ⟨t, r1, rfl, hadv, hE2, htk⟩ := step_kind hE hk (by decide)
    rw [hadv] at h
    split at h
    · cases h
    · rename_i o ts1 h1
      cases h
      obtain ⟨hE3, pre2, rfl, hd2⟩ := hPre _ _ _ hE2 h1
      exact ⟨hE3, t :: pre2, by simp, .unaryNot htk hd2⟩

theorem sound_postfix {f} (hPrim : SLevel parsePrimary .primary f) (hLoop : SLoop f) :
    SLevel parsePostfix .postfix (f + 1) := by
  intro ts e rest hE h
  rw [parsePostfix] at h
  split at h
  · cases h
  · rename_i e0 ts1 h1
    obtain ⟨hE1, pre1, rfl, hd1⟩ := hPrim _ _ _ hE h1
    obtain ⟨hE2, pre2, rfl, hd2⟩ := hLoop _ _ _ _ hE1 h
    refine ⟨hE2, pre1 ++ pre2, by simp, ?_⟩
    have : tk (pre1 ++ pre2) = tk pre1 ++ tk pre2 := by simp [tk]
    rw [this]; exact hd2 _ (.postUp hd1)

theorem sound_loop {f} (hOr : SLevel parseLogicalOr .or f) (hLoop : SLoop f) : SLoop (f + 1) := by
  intro ret ts e rest hE h
  rw [postfixLoop] at h
  split at h
  · -- '.'
    rename_i hk
    obtain ⟨d, r1, rfl, hadv, hE1, hdk⟩ := step_kind hE hk (by decide)
    simp only [hadv] at h
    split at h
    · rename_i hk2
      obtain ⟨s, r2, rfl, hadv2, hE2, hsk⟩ := step_kind hE1 hk2 (by decide)
      rw [hadv2] at h
      obtain ⟨hE3, pre, rfl, hd⟩ := hLoop _ _ _ _ hE2 h
      refine ⟨hE3, d :: s :: pre, by simp, ?_⟩
      intro pre0 h0
      have : pre0 ++ tk (d :: s :: pre) = (pre0 ++ [d.tok, s.tok]) ++ tk pre := by simp [tk]
      rw [this]; exact hd _ (.postStar h0 hdk hsk)
    · rename_i hk2
      obtain ⟨i, r2, rfl, hadv2, hE2, hik⟩ := step_kind hE1 hk2 (by decide)
      rw [hadv2] at h
      obtain ⟨hE3, pre, rfl, hd⟩ := hLoop _ _ _ _ hE2 h
      refine ⟨hE3, d :: i :: pre, by simp, ?_⟩
      intro pre0 h0
      have : pre0 ++ tk (d :: i :: pre) = (pre0 ++ [d.tok, i.tok]) ++ tk pre := by simp [tk]
      rw [this]; exact hd _ (.postProp h0 hdk hik)
    · cases h
  · -- '['
    rename_i hk
    obtain ⟨lb, r1, rfl, hadv, hE1, hlk⟩ := step_kind hE hk (by decide)
    rw [hadv] at h
    split at h
    · cases h
    · rename_i idx ts1 h1
      obtain ⟨hE2, pre1, rfl, hd1⟩ := hOr _ _ _ hE1 h1
      split at h
      · cases h
      · rename_i hk2
        have hk2 : (cur ts1).tok.kind = .rbracket := by simpa using hk2
        obtain ⟨rb, r2, rfl, hadv2, hE3, hrk⟩ := step_kind hE2 hk2 (by decide)
        rw [hadv2] at h
        obtain ⟨hE4, pre, rfl, hd⟩ := hLoop _ _ _ _ hE3 h
        refine ⟨hE4, lb :: pre1 ++ rb :: pre, by simp, ?_⟩
        intro pre0 h0
        have : pre0 ++ tk (lb :: pre1 ++ rb :: pre) = (pre0 ++ lb.tok :: tk pre1 ++ [rb.tok]) ++ tk pre := by
          simp [tk]
        rw [this]; exact hd _ (.postIndex h0 hlk hd1 hrk)
  · cases h
    refine ⟨hE, [], by simp, ?_⟩
    intro pre0 h0; simpa using h0

theorem keyword_eq (val : List Sym) (ts : Toks) :
    (if val.map (·.r) = [110, 117, 108, 108] then (Except.ok (Expr.null, ts) : PRes)
     else if val.map (·.r) = [116, 114, 117, 101] then .ok (.bool true, ts)
     else if val.map (·.r) = [102, 97, 108, 115, 101] then .ok (.bool false, ts)
     else .ok (.var val, ts)) = .ok (keywordOrVar val, ts) := by
  by_cases h1 : val.map (·.r) = [110, 117, 108, 108]
  · simp [keywordOrVar, h1]
  · by_cases h2 : val.map (·.r) = [116, 114, 117, 101]
    · simp [keywordOrVar, h2]
    · by_cases h3 : val.map (·.r) = [102, 97, 108, 115, 101]
      · simp [keywordOrVar, h3]
      · simp [keywordOrVar, h1, h2, h3]

theorem sound_primary {f} (hOr : SLevel parseLogicalOr .or f) (hArgs : SArgs f) :
    SLevel parsePrimary .primary (f + 1) := by
  intro ts e rest hE h
  rw [parsePrimary] at h
  simp only at h
  split at h
  · -- IDENT
    rename_i hk
    obtain ⟨t, r1, rfl, hadv, hE1, htk⟩ := step_kind hE hk (by decide)
    simp only [hadv, cur_cons] at h
    split at h
    · rename_i hk2
      obtain ⟨lp, r2, rfl, hadv2, hE2, hlk⟩ := step_kind hE1 hk2 (by decide)
      simp only [hadv2] at h
      split at h
      · rename_i hk3
        obtain ⟨rp, r3, rfl, hadv3, hE3, hrk⟩ := step_kind hE2 hk3 (by decide)
        rw [hadv3] at h
        cases h
        exact ⟨hE3, [t, lp, rp], by simp, .primCall0 htk hlk hrk⟩
      · split at h
        · cases h
        · rename_i args ts3 h3
          cases h
          obtain ⟨hE3, pre, rp, es', rfl, hrk, hes, hd⟩ := hArgs _ _ _ _ hE2 h3
          simp only [List.nil_append] at hes
          subst hes
          refine ⟨hE3, t :: lp :: pre ++ [rp], by simp, ?_⟩
          have : tk (t :: lp :: pre ++ [rp]) = t.tok :: lp.tok :: tk pre ++ [rp.tok] := by simp [tk]
          rw [this]; exact .primCall htk hlk hd hrk
    · rw [keyword_eq] at h
      cases h
      exact ⟨hE1, [t], by simp, .primIdent htk⟩
  · -- '('
    rename_i hk
    obtain ⟨lp, r1, rfl, hadv, hE1, hlk⟩ := step_kind hE hk (by decide)
    rw [hadv] at h
    split at h
    · cases h
    · rename_i nested ts1 h1
      obtain ⟨hE2, pre1, rfl, hd1⟩ := hOr _ _ _ hE1 h1
      split at h
      · rename_i hk2
        obtain ⟨rp, r2, rfl, hadv2, hE3, hrk⟩ := step_kind hE2 hk2 (by decide)
        rw [hadv2] at h
        cases h
        refine ⟨hE3, lp :: pre1 ++ [rp], by simp, ?_⟩
        have : tk (lp :: pre1 ++ [rp]) = lp.tok :: tk pre1 ++ [rp.tok] := by simp [tk]
        rw [this]; exact .primParen hlk hd1 hrk
      · cases h
  · -- INT
    rename_i hk
    obtain ⟨t, r1, rfl, hadv, hE1, htk⟩ := step_kind hE hk (by decide)
    simp only [hadv, cur_cons] at h
    split at h
    · rename_i v hv
      cases h
      exact ⟨hE1, [t], by simp, .primInt htk hv⟩
    · cases h
  · -- FLOAT
    rename_i hk
    obtain ⟨t, r1, rfl, hadv, hE1, htk⟩ := step_kind hE hk (by decide)
    simp only [hadv, cur_cons] at h
    split at h
    · cases h
    · rename_i hv
      cases h
      exact ⟨hE1, [t], by simp, .primFloat htk (by simpa using hv)⟩
  · -- STRING
    rename_i hk
    obtain ⟨t, r1, rfl, hadv, hE1, htk⟩ := step_kind hE hk (by decide)
    simp only [hadv, cur_cons, unescape_eq_strValue] at h
    cases h
    exact ⟨hE1, [t], by simp, .primStr htk⟩
  · cases h

theorem sound_args {f} (hOr : SLevel parseLogicalOr .or f) (hArgs : SArgs f) : SArgs (f + 1) := by
  intro acc ts es rest hE h
  rw [argsLoop] at h
  split at h
  · cases h
  · rename_i arg ts1 h1
    obtain ⟨hE1, pre1, rfl, hd1⟩ := hOr _ _ _ hE h1
    split at h
    · rename_i hk
      obtain ⟨c, r1, rfl, hadv, hE2, hck⟩ := step_kind hE1 hk (by decide)
      rw [hadv] at h
      obtain ⟨hE3, pre, rp, es', rfl, hrk, hes, hd⟩ := hArgs _ _ _ _ hE2 h
      refine ⟨hE3, pre1 ++ c :: pre, rp, arg :: es', by simp, hrk, by simp [hes], ?_⟩
      have : tk (pre1 ++ c :: pre) = tk pre1 ++ c.tok :: tk pre := by simp [tk]
      rw [this]; exact .more hd1 hck hd
    · rename_i hk
      obtain ⟨rp, r1, rfl, hadv, hE2, hrk⟩ := step_kind hE1 hk (by decide)
      rw [hadv] at h
      cases h
      exact ⟨hE2, pre1, rp, [arg], rfl, hrk, rfl, .one hd1⟩
    · cases h

theorem sound_all : ∀ f, SAll f := by
  intro f
  induction f with
  | zero =>
    refine ⟨?_, ?_, ?_, ?_, ?_, ?_, ?_, ?_⟩
    · intro ts e rest _ h; simp [parseLogicalOr] at h
    · intro ts e rest _ h; simp [parseLogicalAnd] at h
    · intro ts e rest _ h; simp [parseCompare] at h
    · intro ts e rest _ h; simp [parsePrefix] at h
    · intro ts e rest _ h; simp [parsePostfix] at h
    · intro ts e rest _ h; simp [parsePrimary] at h
    · intro ret ts e rest _ h; simp [postfixLoop] at h
    · intro acc ts es rest _ h; simp [argsLoop] at h
  | succ f ih =>
    obtain ⟨hOr, hAnd, hCmp, hPre, hPost, hPrim, hLoop, hArgs⟩ := ih
    exact ⟨sound_or hAnd hOr, sound_and hCmp hAnd, sound_cmp hPre hCmp, sound_prefix hPost hPre,
      sound_postfix hPrim hLoop, sound_primary hOr hArgs, sound_loop hOr hLoop, sound_args hOr hArgs⟩

end AL.Parse
