import AL.Lemmas.C07SParse
/-
  C07Sites, parser side, part 2: the `on:` section.
-/
namespace AL.C07S
open AL.Yaml AL.Ast AL.PW

variable {S : List Node}

instance : HasItems DispatchInputSt := ⟨fun st => items st.desc ++ items st.req ++ items st.dflt ++ items st.opts⟩
@[simp] theorem IOk_DispatchInputSt {x : DispatchInputSt} : IOk S x ↔ IOk S x.desc ∧ IOk S x.req ∧ IOk S x.dflt ∧ IOk S x.opts := by
  change LOk S (items x.desc ++ items x.req ++ items x.dflt ++ items x.opts) ↔ _
  simp only [LOk_append, LOk_items, and_assoc]

instance : HasItems CallEventSt := ⟨fun st => items st.inputs ++ items st.secrets ++ items st.outputs⟩
@[simp] theorem IOk_CallEventSt {x : CallEventSt} : IOk S x ↔ IOk S x.inputs ∧ IOk S x.secrets ∧ IOk S x.outputs := by
  change LOk S (items x.inputs ++ items x.secrets ++ items x.outputs) ↔ _
  simp only [LOk_append, LOk_items, and_assoc]

theorem scheduleItems_ok (cfg : Cfg) : ∀ (cs : List Node), (∀ c ∈ cs, ∀ x ∈ allNodes c, x ∈ S) → ROk S (scheduleItems cfg cs)
  | [], _ => by simp [scheduleItems]
  | c :: cs, h => by
    have hc := h c (List.mem_cons_self ..)
    have hm := parseMapping_ok (S := S) cfg "element of \"schedule\" section" hc false true
    have ih := scheduleItems_ok cfg cs (fun x hx => h x (List.mem_cons_of_mem _ hx))
    have he := EOk_errAt (S := S) (self_mem hc) "schedule-element" []
    simp only [scheduleItems]
    split
    · rename_i kv hkv
      have hkv' : KVOk S kv := hm.1 kv (by rw [hkv]; exact List.mem_cons_self ..)
      have hs := parseString_ok hkv'.valMem false
      split
      · simp_all
      · simp_all
    · simp_all

theorem parseScheduleEvent_ok (cfg : Cfg) {pos : Pos} (hp : POk S pos) {n : Node} (h : ∀ x ∈ allNodes n, x ∈ S) :
    ROk S (parseScheduleEvent cfg pos n) := by
  have hc := checkSequence_ok (self_mem h) "schedule" false
  have hs := scheduleItems_ok cfg n.content (content_sub h)
  simp only [parseScheduleEvent]
  split
  · simp [hc]
  · simp [hc, hs.1, hs.2, hp]

theorem dispatchAttr_ok {st : DispatchInputSt} {attr : KV} (hkv : KVOk S attr) (hst : IOk S st) : ROk S (dispatchAttr st attr) := by
  have hv := hkv.valMem
  have hs := fun ae => parseString_ok (S := S) hv ae
  have hb := parseBool_ok (S := S) hv
  have hc := fun ae => checkString_ok (S := S) hv ae
  have ho := parseStringSequence_ok (S := S) hkv.2 "options" false false
  have hu := fun sec exp => unexpectedKey_ok (S := S) hkv sec exp
  have he := fun c a => errAt_ok (S := S) hv c a
  simp only [dispatchAttr]
  repeat' split
  all_goals simp_all

theorem dispatchInput_ok (cfg : Cfg) {input : KV} (hkv : KVOk S input) : ROk S (dispatchInput cfg input) := by
  have hm := parseMapping_ok (S := S) cfg "input settings of workflow_dispatch event" hkv.2 true true
  have hr := loop_ok (S := S) dispatchAttr _ {} hm.1 (fun st kv h1 h2 => dispatchAttr_ok h1 h2) (by simp)
  have hk := hkv.1
  simp only [dispatchInput]
  simp_all

theorem parseWorkflowDispatchEvent_ok (cfg : Cfg) {pos : Pos} (hp : POk S pos) {n : Node} (h : ∀ x ∈ allNodes n, x ∈ S) :
    ROk S (parseWorkflowDispatchEvent cfg pos n) := by
  have hm := parseSectionMapping_ok (S := S) cfg "workflow_dispatch" h true true
  simp only [parseWorkflowDispatchEvent]
  generalize hr : loop _ _ _ = r
  have hrok : ROk S r := by
    rw [← hr]
    refine loop_ok _ _ _ hm.1 ?_ (by simp)
    intro st kv hkv hst
    have hu := fun sec exp => unexpectedKey_ok (S := S) hkv sec exp
    have hi := parseSectionMapping_ok (S := S) cfg "inputs" hkv.2 true false
    have hx := mapKVs_ok (S := S) (dispatchInput cfg) _ hi.1 (fun kv h => dispatchInput_ok cfg h)
    split <;> simp_all
  simp_all

theorem parseRepositoryDispatchEvent_ok (cfg : Cfg) {pos : Pos} (hp : POk S pos) {n : Node} (h : ∀ x ∈ allNodes n, x ∈ S) :
    ROk S (parseRepositoryDispatchEvent cfg pos n) := by
  have hm := parseSectionMapping_ok (S := S) cfg "repository_dispatch" h true true
  simp only [parseRepositoryDispatchEvent]
  generalize hr : loop _ _ _ = r
  have hrok : ROk S r := by
    rw [← hr]
    refine loop_ok _ _ _ hm.1 ?_ (by simp)
    intro st kv hkv hst
    have hu := fun sec exp => unexpectedKey_ok (S := S) hkv sec exp
    have ht := parseStringOrStringSequence_ok (S := S) hkv.2 "types" false false
    split <;> simp_all
  simp_all

theorem parseWebhookEventFilter_ok {name : Str} (hname : IOk S name) {n : Node} (h : ∀ x ∈ allNodes n, x ∈ S) :
    ROk S (parseWebhookEventFilter name n) := by
  have ht := parseStringOrStringSequence_ok (S := S) h name.value false false
  simp only [parseWebhookEventFilter]
  simp_all

theorem webhookKey_ok (name : Str) {st : WebhookEvent} {kv : KV} (hkv : KVOk S kv) (hst : IOk S st) :
    ROk S (webhookKey name st kv) := by
  have hu := fun sec exp => unexpectedKey_ok (S := S) hkv sec exp
  have ht := fun sec => parseStringOrStringSequence_ok (S := S) hkv.2 sec false false
  have hf := parseWebhookEventFilter_ok (S := S) (name := kv.key) (IOk_str.2 hkv.1) hkv.2
  simp only [webhookKey]
  split <;> simp_all

theorem parseWebhookEvent_ok (cfg : Cfg) {name : Str} (hname : IOk S name) {n : Node} (h : ∀ x ∈ allNodes n, x ∈ S) :
    ROk S (parseWebhookEvent cfg name n) := by
  have hm := parseSectionMapping_ok (S := S) cfg name.value h true true
  have hpos : POk S name.pos := by
    obtain ⟨v, hv, hs⟩ := IOk_str.1 hname
    exact ⟨v, hv, hs.pos⟩
  have hr := loop_ok (S := S) (webhookKey name) _ { hook := name, pos := name.pos } hm.1
    (fun st kv h1 h2 => webhookKey_ok name h1 h2) (by simp_all)
  simp only [parseWebhookEvent]
  simp_all

theorem callInputAttr_ok {st : CallInput × Bool} {attr : KV} (hkv : KVOk S attr) (hst : IOk S st) :
    ROk S (callInputAttr st attr) := by
  have hv := hkv.valMem
  have hs := fun ae => parseString_ok (S := S) hv ae
  have hb := parseBool_ok (S := S) hv
  have hu := fun sec exp => unexpectedKey_ok (S := S) hkv sec exp
  have he := fun c a => errAt_ok (S := S) hv c a
  simp only [callInputAttr]
  repeat' split
  all_goals simp_all

theorem callInput_ok (cfg : Cfg) {kv : KV} (hkv : KVOk S kv) : ROk S (callInput cfg kv) := by
  have hm := parseMapping_ok (S := S) cfg "input of workflow_call event" hkv.2 true true
  have hr := loop_ok (S := S) callInputAttr _ ({ name := kv.key, id := kv.id }, false) hm.1
    (fun st kv h1 h2 => callInputAttr_ok h1 h2) (by have := hkv.1; simp_all)
  have hk := hkv.keyPos
  simp only [callInput]
  split <;> simp_all [POk]

theorem callInputs_ok (cfg : Cfg) : ∀ (kvs : List KV), (∀ kv ∈ kvs, KVOk S kv) → ROk S (callInputs cfg kvs)
  | [], _ => by simp [callInputs]
  | kv :: rest, hk => by
    have h1 := callInput_ok cfg (hk kv (List.mem_cons_self ..))
    have h2 := callInputs_ok cfg rest (fun x hx => hk x (List.mem_cons_of_mem _ hx))
    simp only [callInputs]
    simp_all

theorem callSecretAttr_ok {st : CallSecret} {attr : KV} (hkv : KVOk S attr) (hst : IOk S st) :
    ROk S (callSecretAttr st attr) := by
  have hv := hkv.valMem
  have hs := fun ae => parseString_ok (S := S) hv ae
  have hb := parseBool_ok (S := S) hv
  have hu := fun sec exp => unexpectedKey_ok (S := S) hkv sec exp
  simp only [callSecretAttr]
  repeat' split
  all_goals simp_all

theorem callSecret_ok (cfg : Cfg) {kv : KV} (hkv : KVOk S kv) : ROk S (callSecret cfg kv) := by
  have hm := parseMapping_ok (S := S) cfg "secret of workflow_call event" hkv.2 true true
  have hr := loop_ok (S := S) callSecretAttr _ { name := kv.key } hm.1
    (fun st kv h1 h2 => callSecretAttr_ok h1 h2) (by have := hkv.1; simp_all)
  simp only [callSecret]
  simp_all

theorem callOutputAttr_ok {st : CallOutput} {attr : KV} (hkv : KVOk S attr) (hst : IOk S st) :
    ROk S (callOutputAttr st attr) := by
  have hv := hkv.valMem
  have hs := fun ae => parseString_ok (S := S) hv ae
  have hu := fun sec exp => unexpectedKey_ok (S := S) hkv sec exp
  simp only [callOutputAttr]
  repeat' split
  all_goals simp_all

theorem callOutput_ok (cfg : Cfg) {kv : KV} (hkv : KVOk S kv) : ROk S (callOutput cfg kv) := by
  have hm := parseMapping_ok (S := S) cfg "output of workflow_call event" hkv.2 true true
  have hr := loop_ok (S := S) callOutputAttr _ { name := kv.key } hm.1
    (fun st kv h1 h2 => callOutputAttr_ok h1 h2) (by have := hkv.1; simp_all)
  have hk := hkv.keyPos
  simp only [callOutput]
  split <;> simp_all [POk]

theorem callEventKey_ok (cfg : Cfg) {st : CallEventSt} {kv : KV} (hkv : KVOk S kv) (hst : IOk S st) :
    ROk S (callEventKey cfg st kv) := by
  have hu := fun sec exp => unexpectedKey_ok (S := S) hkv sec exp
  have hm := fun sec => parseSectionMapping_ok (S := S) cfg sec hkv.2 true false
  have h1 := callInputs_ok (S := S) cfg _ (hm "inputs").1
  have h2 := mapKVs_ok (S := S) (callSecret cfg) _ (hm "secrets").1 (fun kv h => callSecret_ok cfg h)
  have h3 := mapKVs_ok (S := S) (callOutput cfg) _ (hm "outputs").1 (fun kv h => callOutput_ok cfg h)
  simp only [callEventKey]
  split <;> simp_all

theorem parseWorkflowCallEvent_ok (cfg : Cfg) {pos : Pos} (hp : POk S pos) {n : Node} (h : ∀ x ∈ allNodes n, x ∈ S) :
    ROk S (parseWorkflowCallEvent cfg pos n) := by
  have hm := parseSectionMapping_ok (S := S) cfg "workflow_call" h true true
  have hr := loop_ok (S := S) (callEventKey cfg) _ {} hm.1 (fun st kv h1 h2 => callEventKey_ok cfg h1 h2) (by simp)
  simp only [parseWorkflowCallEvent]
  simp_all

theorem eventOfKey_ok (cfg : Cfg) {st : List Event} {kv : KV} (hkv : KVOk S kv) (hst : IOk S st) :
    ROk S (eventOfKey cfg st kv) := by
  have hp := hkv.keyPos
  have h1 := parseScheduleEvent_ok (S := S) cfg hp hkv.2
  have h2 := parseWorkflowDispatchEvent_ok (S := S) cfg hp hkv.2
  have h3 := parseRepositoryDispatchEvent_ok (S := S) cfg hp hkv.2
  have h4 := parseWorkflowCallEvent_ok (S := S) cfg hp hkv.2
  have h5 := parseWebhookEvent_ok (S := S) cfg (IOk_str.2 hkv.1) hkv.2
  simp only [eventOfKey]
  repeat' split
  all_goals simp_all

theorem eventsOfSeq_ok : ∀ (cs : List Node), (∀ c ∈ cs, c ∈ S) → ROk S (eventsOfSeq cs)
  | [], _ => by simp [eventsOfSeq]
  | c :: cs, h => by
    have hc := h c (List.mem_cons_self ..)
    have hs := parseString_ok (S := S) hc false
    have ih := eventsOfSeq_ok cs (fun x hx => h x (List.mem_cons_of_mem _ hx))
    have he := fun cd a => errAt_ok (S := S) hc cd a
    have hp := POk_of_mem hc
    simp only [eventsOfSeq]
    split <;> simp_all

theorem parseEvents_ok (cfg : Cfg) {pos : Pos} (hp : POk S pos) {n : Node} (h : ∀ x ∈ allNodes n, x ∈ S) :
    ROk S (parseEvents cfg pos n) := by
  have hn := self_mem h
  have hnp := POk_of_mem hn
  have hs := parseString_ok (S := S) hn false
  have hm := parseSectionMapping_ok (S := S) cfg "on" h false true
  have hr := loop_ok (S := S) (eventOfKey cfg) _ [] hm.1 (fun st kv h1 h2 => eventOfKey_ok cfg h1 h2) (by simp)
  have hc := checkNotEmpty_ok (S := S) hn "on" n.content.length
  have hq := eventsOfSeq_ok (S := S) n.content (content_mem h)
  have he := fun cd a => errAt_ok (S := S) hn cd a
  simp only [parseEvents]
  repeat' split
  all_goals simp_all [POk]

end AL.C07S
