import AL.Props.C03Rule
/-
  The coverage chain of AL.C03R (`every_placeholder_checked`: every value string of the AST is run through `checkExprsIn`,
  under every scope) once more, for a PROPERTY OF THE DIAGNOSTIC'S CODE: if every check of the text of a value string yields
  a diagnostic whose code satisfies `Q`, the rule reports a diagnostic with such a code located at that string. And with the
  exact condition for a bare `if:` (whose text is checked as ONE expression only when it contains no complete `${{ }}`).
  Same proofs as AL/Props/C03Rule.lean, lemma by lemma; the enumeration `valueStrs` is the one of AL.C03R.
-/
namespace AL.C04R.Chain
open AL AL.Ast AL.Sema AL.RuleExpr

/-- every check of the text yields a diagnostic whose code satisfies `Q`: in a template position; and, where the text is
read as a bare condition — i.e. unless it contains a complete placeholder —, as such -/
structure BadQ (Q : String → Prop) (v : String) : Prop where
  tmpl : ∀ cx key u, ∃ e ∈ (checkExprsIn cx key u v).2, Q e.code
  cond : AL.Matrix.containsExpr v = true ∨ ∀ cx key, ∃ e ∈ (checkOne cx key false (bytesOf v ++ [125, 125])).2, Q e.code

def ReportedQ (Q : String → Prop) (ds : List Diag) (s : Str) : Prop := ∃ d ∈ ds, d.site = s.pos ∧ Q d.code

variable {Q : String → Prop}

theorem at_has (s : Str) (es : List SemaErr) (h : ∃ e ∈ es, Q e.code) : ReportedQ Q (at_ s es) s := by
  obtain ⟨e, he, hq⟩ := h
  exact ⟨⟨s.pos, e.code, e.args⟩, List.mem_map.2 ⟨e, he, rfl⟩, rfl, hq⟩

theorem has_append {a b : List SemaErr} (h : ∃ e ∈ a, Q e.code) : ∃ e ∈ a ++ b, Q e.code := by
  obtain ⟨e, he, hq⟩ := h
  exact ⟨e, List.mem_append_left _ he, hq⟩

theorem ReportedQ.mono {ds ds' : List Diag} {s : Str} (h : ReportedQ Q ds s) (hs : ∀ d ∈ ds, d ∈ ds') : ReportedQ Q ds' s := by
  obtain ⟨d, hm, e⟩ := h
  exact ⟨d, hs d hm, e⟩

theorem ReportedQ.left {a b : List Diag} {s : Str} (h : ReportedQ Q a s) : ReportedQ Q (a ++ b) s :=
  h.mono fun d hd => List.mem_append_left _ hd
theorem ReportedQ.right {a b : List Diag} {s : Str} (h : ReportedQ Q b s) : ReportedQ Q (a ++ b) s :=
  h.mono fun d hd => List.mem_append_right _ hd

theorem checkStrU_bad (cx : Cx) (u : Bool) (s : Str) (key : String) (h : BadQ Q s.value) :
    ReportedQ Q (checkStrU cx u (some s) key).2 s := by
  simp only [checkStrU]
  have := h.tmpl cx key u
  split
  · rename_i es heq
    rw [heq] at this
    exact at_has s es this
  · rename_i ts es heq
    rw [heq] at this
    exact at_has s _ (has_append this)

theorem checkString_bad (cx : Cx) (s : Str) (key : String) (h : BadQ Q s.value) : ReportedQ Q (checkString cx (some s) key) s :=
  checkStrU_bad cx false s key h
theorem checkScriptString_bad (cx : Cx) (s : Str) (key : String) (h : BadQ Q s.value) :
    ReportedQ Q (checkScriptString cx (some s) key) s := checkStrU_bad cx true s key h

theorem checkStrings_bad (cx : Cx) (ss : List Str) (key : String) (s : Str) (hm : s ∈ ss) (h : BadQ Q s.value) :
    ReportedQ Q (checkStrings cx (some ss) key) s := by
  obtain ⟨d, hd, e⟩ := checkString_bad cx s key h
  exact ⟨d, by simp only [checkStrings, Option.getD_some, List.mem_flatMap]; exact ⟨s, hm, hd⟩, e⟩

theorem checkOneExpression_bad (cx : Cx) (s : Str) (what key : String) (h : BadQ Q s.value) :
    ReportedQ Q (checkOneExpression cx (some s) what key).2 s := by
  simp only [checkOneExpression]
  have := h.tmpl cx key false
  generalize checkExprsIn cx key false s.value = r at this ⊢
  obtain ⟨ts, es⟩ := r
  simp only at this
  rcases ts with _ | (_ | ⟨t, _ | ⟨t2, rest⟩⟩)
  · exact at_has s es this
  · exact at_has s _ (has_append this)
  · exact at_has s es this
  · exact at_has s _ (has_append this)

theorem mustBe_bad (p : Ty → Bool) (code what : String) (s : Str) (r : Option Ty × List Diag) (h : ReportedQ Q r.2 s) :
    ReportedQ Q (mustBe p code what (some s) r).2 s := by
  simp only [mustBe]
  split
  · split
    · exact h
    · exact h.left
  · exact h

/-! ### the strings of the AST that come from mapping values / sequence elements -/







theorem checkBool_bad (cx : Cx) (b : Option BoolV) (key : String) (s : Str) (hm : s ∈ AL.C03R.boolStrs b) (h : BadQ Q s.value) :
    ReportedQ Q (checkBool cx b key) s := by
  cases b with
  | none => simp [AL.C03R.boolStrs] at hm
  | some b =>
    have he := AL.C03R.mem_toList (by simpa [AL.C03R.boolStrs] using hm)
    simp only [checkBool, he]
    have := checkOneExpression_bad cx s "bool value" key h
    split <;> first | exact this | exact this.left

theorem checkNumberExpression_bad (cx : Cx) (s : Str) (what key : String) (h : BadQ Q s.value) :
    ReportedQ Q (checkNumberExpression cx (some s) what key).2 s :=
  mustBe_bad _ _ _ s _ (checkOneExpression_bad cx s what key h)
theorem checkObjectExpression_bad (cx : Cx) (s : Str) (what key : String) (h : BadQ Q s.value) :
    ReportedQ Q (checkObjectExpression cx (some s) what key).2 s :=
  mustBe_bad _ _ _ s _ (checkOneExpression_bad cx s what key h)
theorem checkArrayExpression_bad (cx : Cx) (s : Str) (what key : String) (h : BadQ Q s.value) :
    ReportedQ Q (checkArrayExpression cx (some s) what key).2 s :=
  mustBe_bad _ _ _ s _ (checkOneExpression_bad cx s what key h)

theorem checkInt_bad (cx : Cx) (i : Option IntV) (key : String) (s : Str) (hm : s ∈ AL.C03R.intStrs i) (h : BadQ Q s.value) :
    ReportedQ Q (checkInt cx i key) s := by
  cases i with
  | none => simp [AL.C03R.intStrs] at hm
  | some i =>
    have he := AL.C03R.mem_toList (by simpa [AL.C03R.intStrs] using hm)
    simp only [checkInt, he]
    exact checkNumberExpression_bad cx s _ key h

theorem checkFloat_bad (cx : Cx) (f : Option FloatV) (key : String) (s : Str) (hm : s ∈ AL.C03R.floatStrs f) (h : BadQ Q s.value) :
    ReportedQ Q (checkFloat cx f key) s := by
  cases f with
  | none => simp [AL.C03R.floatStrs] at hm
  | some f =>
    have he := AL.C03R.mem_toList (by simpa [AL.C03R.floatStrs] using hm)
    simp only [checkFloat, he]
    exact checkNumberExpression_bad cx s _ key h

theorem checkString_opt_bad (cx : Cx) (o : Option Str) (key : String) (s : Str) (hm : s ∈ o.toList) (h : BadQ Q s.value) :
    ReportedQ Q (checkString cx o key) s := by
  rw [AL.C03R.mem_toList hm]; exact checkString_bad cx s key h

theorem checkStrings_opt_bad (cx : Cx) (o : Option (List Str)) (key : String) (s : Str) (hm : s ∈ o.getD []) (h : BadQ Q s.value) :
    ReportedQ Q (checkStrings cx o key) s := by
  cases o with
  | none => simp at hm
  | some ss => exact checkStrings_bad cx ss key s (by simpa using hm) h

theorem flatMap_reported {α} (l : List α) (f : α → List Diag) (a : α) (ha : a ∈ l) (s : Str) (h : ReportedQ Q (f a) s) :
    ReportedQ Q (l.flatMap f) s := by
  obtain ⟨d, hd, e⟩ := h
  exact ⟨d, List.mem_flatMap.2 ⟨a, ha, hd⟩, e⟩

theorem checkEnv_bad (cx : Cx) (e : Option Ast.Env) (key : String) (s : Str) (hm : s ∈ AL.C03R.envStrs e) (h : BadQ Q s.value) :
    ReportedQ Q (RuleExpr.checkEnv cx e key) s := by
  cases e with
  | none => simp [AL.C03R.envStrs] at hm
  | some e =>
    simp only [AL.C03R.envStrs] at hm
    simp only [RuleExpr.checkEnv]
    cases hv : e.vars with
    | some vars =>
      simp only [hv, List.mem_map] at hm
      obtain ⟨kv, hk, rfl⟩ := hm
      exact flatMap_reported vars _ kv hk _ (checkString_bad cx kv.2.value key h).right
    | none =>
      simp only [hv] at hm
      rw [AL.C03R.mem_toList hm]
      exact checkObjectExpression_bad cx s "env" key h

theorem checkContainer_bad (cx : Cx) (c : Option Container) (key pre : String) (s : Str) (hm : s ∈ AL.C03R.containerStrs c)
    (h : BadQ Q s.value) : ReportedQ Q (checkContainer cx c key pre) s := by
  cases c with
  | none => simp [AL.C03R.containerStrs] at hm
  | some c =>
    simp only [AL.C03R.containerStrs, List.mem_append] at hm
    simp only [checkContainer]
    rcases hm with ((((hm | hm) | hm) | hm) | hm) | hm
    · exact (checkString_opt_bad cx _ _ s hm h).left.left.left.left.left
    · refine ReportedQ.left (ReportedQ.left (ReportedQ.left (ReportedQ.left (ReportedQ.right ?_))))
      cases hc : c.credentials with
      | none => simp [hc] at hm
      | some cr =>
        simp only [hc, List.mem_append] at hm
        rcases hm with hm | hm
        · exact (checkString_opt_bad cx _ _ s hm h).left
        · exact (checkString_opt_bad cx _ _ s hm h).right
    · exact ReportedQ.left (ReportedQ.left (ReportedQ.left (ReportedQ.right (checkEnv_bad cx _ _ s hm h))))
    · exact ReportedQ.left (ReportedQ.left (ReportedQ.right (checkStrings_opt_bad cx _ _ s hm h)))
    · exact ReportedQ.left (ReportedQ.right (checkStrings_opt_bad cx _ _ s hm h))
    · exact ReportedQ.right (checkString_opt_bad cx _ _ s hm h)

theorem checkConcurrency_bad (cx : Cx) (c : Option Concurrency) (key : String) (s : Str) (hm : s ∈ AL.C03R.concurrencyStrs c)
    (h : BadQ Q s.value) : ReportedQ Q (checkConcurrency cx c key) s := by
  cases c with
  | none => simp [AL.C03R.concurrencyStrs] at hm
  | some c =>
    simp only [AL.C03R.concurrencyStrs, List.mem_append] at hm
    simp only [checkConcurrency]
    rcases hm with hm | hm
    · exact (checkString_opt_bad cx _ _ s hm h).left
    · exact (checkBool_bad cx _ _ s hm h).right

theorem checkDefaults_bad (cx : Cx) (d : Option Defaults) (key : String) (s : Str) (hm : s ∈ AL.C03R.defaultsStrs d)
    (h : BadQ Q s.value) : ReportedQ Q (checkDefaults cx d key) s := by
  cases d with
  | none => simp [AL.C03R.defaultsStrs] at hm
  | some d =>
    simp only [AL.C03R.defaultsStrs] at hm
    simp only [checkDefaults]
    cases hr : d.run with
    | none => simp [hr] at hm
    | some r =>
      simp only [hr, List.mem_append] at hm
      rcases hm with hm | hm
      · exact (checkString_opt_bad cx _ _ s hm h).left
      · exact (checkString_opt_bad cx _ _ s hm h).right




theorem checkIfCondition_bad (cx : Cx) (o : Option Str) (key : String) (s : Str) (hm : s ∈ o.toList) (h : BadQ Q s.value) :
    ReportedQ Q (checkIfCondition cx o key) s := by
  rw [AL.C03R.mem_toList hm]
  simp only [checkIfCondition]
  split
  · have := checkStrU_bad cx false s key h
    split
    · split
      · exact this.left
      · exact this
    · exact this
  · rename_i hce
    rcases h.cond with hce' | hc
    · exact absurd hce' hce
    · have hc := hc cx key
      have hs := AL.C03R.checkOne_some_nil cx key false (bytesOf s.value ++ [125, 125])
      cases hr : checkOne cx key false (bytesOf s.value ++ [125, 125]) with
      | mk t es =>
        rw [hr] at hc hs
        cases t with
        | none => exact at_has s es hc
        | some p =>
          obtain ⟨e, he, -⟩ := hc
          rw [hs p rfl] at he
          cases he

/-! ### matrix -/


theorem rawStringTy_bad (cx : Cx) (isNum : IsNumber) (v : String) (p : RuleExpr.Pos) (h : BadQ Q v) :
    ReportedQ Q (rawStringTy cx isNum v p).2 ⟨v, false, p⟩ := by
  have hne := h.tmpl cx "jobs.<job_id>.strategy" false
  have : ReportedQ Q (at_ ⟨v, false, p⟩ (checkExprsIn cx "jobs.<job_id>.strategy" false v).2) ⟨v, false, p⟩ :=
    at_has _ _ hne
  simp only [rawStringTy]
  split
  · split <;> exact this
  · split
    · exact this
    · split
      · exact this
      · split <;> exact this

mutual
theorem rawTy_bad (cx : Cx) (isNum : IsNumber) (s : Str) (h : BadQ Q s.value) :
    ∀ (v : AL.Matrix.Raw), s ∈ AL.C03R.rawStrs v → ReportedQ Q (rawTy cx isNum v).2 s
  | .str v p, hm => by
    simp only [AL.C03R.rawStrs, List.mem_singleton] at hm
    subst hm
    simp only [rawTy]
    exact rawStringTy_bad cx isNum v p h
  | .arr es _, hm => by
    rw [AL.C03R.rawStrs] at hm
    cases es with
    | nil => simp [AL.C03R.rawStrsL] at hm
    | cons e rest =>
      simp only [AL.C03R.rawStrsL, List.mem_append] at hm
      simp only [rawTy]
      rcases hm with hm | hm
      · exact (rawTy_bad cx isNum s h e hm).left
      · exact (rawFold_bad cx isNum s h _ rest hm).right
  | .obj ps _, hm => by
    rw [AL.C03R.rawStrs] at hm
    simp only [rawTy]
    exact rawProps_bad cx isNum s h ps hm
theorem rawFold_bad (cx : Cx) (isNum : IsNumber) (s : Str) (h : BadQ Q s.value) :
    ∀ (acc : Ty) (vs : List AL.Matrix.Raw), s ∈ AL.C03R.rawStrsL vs → ReportedQ Q (rawFold cx isNum acc vs).2 s
  | _, [], hm => by simp [AL.C03R.rawStrsL] at hm
  | acc, v :: vs, hm => by
    simp only [AL.C03R.rawStrsL, List.mem_append] at hm
    rw [rawFold]
    rcases hm with hm | hm
    · exact (rawTy_bad cx isNum s h v hm).left
    · exact (rawFold_bad cx isNum s h _ vs hm).right
theorem rawProps_bad (cx : Cx) (isNum : IsNumber) (s : Str) (h : BadQ Q s.value) :
    ∀ (ps : List (String × AL.Matrix.Raw)), s ∈ AL.C03R.rawStrsP ps → ReportedQ Q (RuleExpr.rawProps cx isNum ps).2 s
  | [], hm => by simp [AL.C03R.rawStrsP] at hm
  | (k, v) :: ps, hm => by
    simp only [AL.C03R.rawStrsP, List.mem_append] at hm
    rw [RuleExpr.rawProps]
    rcases hm with hm | hm
    · exact (rawTy_bad cx isNum s h v hm).left
    · exact (rawProps_bad cx isNum s h ps hm).right
end


theorem foldl_reported {α σ : Type} (step : σ × List Diag → α → σ × List Diag) (s : Str)
    (hkeep : ∀ acc x d, d ∈ acc.2 → d ∈ (step acc x).2) (l : List α) (a : α) (ha : a ∈ l)
    (hrep : ∀ acc, ReportedQ Q (step acc a).2 s) : ∀ acc, ReportedQ Q (l.foldl step acc).2 s := by
  induction l with
  | nil => cases ha
  | cons x rest ih =>
    intro acc
    rcases List.mem_cons.1 ha with rfl | ha
    · obtain ⟨d, hd, e⟩ := hrep acc
      exact ⟨d, AL.C03R.foldl_keep step hkeep rest _ d hd, e⟩
    · exact ih ha _





theorem rowTy_bad (cx : Cx) (isNum : IsNumber) (r : MatrixRow) (s : Str) (hm : s ∈ AL.C03R.rowStrs r) (h : BadQ Q s.value) :
    ReportedQ Q (rowTy cx isNum r).2 s := by
  simp only [AL.C03R.rowStrs] at hm
  simp only [rowTy]
  cases he : r.expr with
  | some e =>
    simp only [he, List.mem_singleton] at hm
    subst hm
    exact checkArrayExpression_bad cx s _ _ h
  | none =>
    simp only [he] at hm
    cases hv : r.values.getD [] with
    | nil => simp [hv, AL.C03R.rawStrsL] at hm
    | cons v vs =>
      simp only [hv, AL.C03R.rawStrsL, List.mem_append] at hm
      simp only
      rcases hm with hm | hm
      · exact (rawTy_bad cx isNum s h v hm).left
      · exact (rawFold_bad cx isNum s h _ vs hm).right

theorem excludeDiags_bad (cx : Cx) (isNum : IsNumber) (ex : Option MatrixCombinations) (s : Str) (hm : s ∈ AL.C03R.combosStrs ex)
    (h : BadQ Q s.value) : ReportedQ Q (excludeDiags cx isNum ex) s := by
  cases ex with
  | none => simp [AL.C03R.combosStrs] at hm
  | some ex =>
    simp only [AL.C03R.combosStrs] at hm
    simp only [excludeDiags]
    cases he : ex.expr with
    | some e =>
      simp only [he, List.mem_singleton] at hm
      subst hm
      have := checkArrayExpression_bad cx s "exclude" "jobs.<job_id>.strategy" h
      simp only
      split
      · split
        · exact this
        · exact this.left
      · exact this
    | none =>
      simp only [he, List.mem_flatMap] at hm
      obtain ⟨c, hc, hs⟩ := hm
      refine flatMap_reported _ _ c hc s ?_
      simp only [AL.C03R.comboStrs] at hs
      cases hce : c.expr with
      | some e =>
        simp only [hce, List.mem_singleton] at hs
        subst hs
        exact checkObjectExpression_bad cx s _ _ h
      | none =>
        simp only [hce, List.mem_flatMap] at hs
        obtain ⟨kv, hk, hv⟩ := hs
        exact flatMap_reported _ _ kv hk s (rawTy_bad cx isNum s h _ hv)

theorem includeCombo_keep (cx : Cx) (isNum : IsNumber) (acc : Ty × List Diag) (c : MatrixCombination) (d : Diag)
    (hd : d ∈ acc.2) : d ∈ (includeCombo cx isNum acc c).2 := by
  simp only [includeCombo]
  split
  · split <;> simp [hd]
  · apply AL.C03R.foldl_keep _ _ _ acc d hd
    intro a kv d hd
    split <;> simp [hd]

theorem includeCombo_bad (cx : Cx) (isNum : IsNumber) (acc : Ty × List Diag) (c : MatrixCombination) (s : Str)
    (hm : s ∈ AL.C03R.comboStrs c) (h : BadQ Q s.value) : ReportedQ Q (includeCombo cx isNum acc c).2 s := by
  simp only [AL.C03R.comboStrs] at hm
  simp only [includeCombo]
  cases he : c.expr with
  | some e =>
    simp only [he, List.mem_singleton] at hm
    subst hm
    have := checkOneExpression_bad cx s "matrix combination at element of include section" "jobs.<job_id>.strategy" h
    simp only
    split <;> exact this.right
  | none =>
    simp only [he, List.mem_flatMap] at hm
    obtain ⟨kv, hk, hv⟩ := hm
    simp only
    refine foldl_reported _ s ?_ _ kv hk ?_ acc
    · intro a x d hd; split <;> simp [hd]
    · intro a
      have := rawTy_bad cx isNum s h _ hv
      split <;> exact this.right

theorem checkMatrix_bad (cx : Cx) (isNum : IsNumber) (m : Matrix) (s : Str) (hm : s ∈ AL.C03R.matrixStrs m) (h : BadQ Q s.value) :
    ReportedQ Q (checkMatrix cx isNum m).2 s := by
  simp only [AL.C03R.matrixStrs] at hm
  simp only [checkMatrix]
  cases he : m.expr with
  | some e =>
    simp only [he, List.mem_singleton] at hm
    subst hm
    have := checkObjectExpression_bad cx s "matrix" "jobs.<job_id>.strategy" h
    simp only [matrixExprTy]
    split <;> exact this
  | none =>
    simp only [he, List.mem_append] at hm
    simp only
    have hrows : s ∈ (m.rows.getD []).flatMap (fun kv => AL.C03R.rowStrs kv.2) →
        ReportedQ Q ((m.rows.getD []).foldl (fun (acc : List (String × Ty) × List Diag) kv =>
          (Ty.setProp kv.1 (rowTy cx isNum kv.2).1 acc.1, acc.2 ++ (rowTy cx isNum kv.2).2)) ([], [])).2 s := by
      intro hr
      obtain ⟨kv, hk, hv⟩ := List.mem_flatMap.1 hr
      refine foldl_reported _ s ?_ _ kv hk ?_ _
      · intro a x d hd; simp [hd]
      · intro a; exact (rowTy_bad cx isNum kv.2 s hv h).right
    cases hi : m.incl with
    | none =>
      simp only [hi, AL.C03R.combosStrs, List.mem_nil_iff, or_false] at hm
      simp only [hi]
      rcases hm with hm | hm
      · exact (excludeDiags_bad cx isNum _ s hm h).left
      · exact (hrows hm).right
    | some inc =>
      simp only [hi] at hm ⊢
      cases hie : inc.expr with
      | some e =>
        simp only [hie]
        rcases hm with (hm | hm) | hm
        · exact ReportedQ.left (ReportedQ.left (excludeDiags_bad cx isNum _ s hm h))
        · exact ReportedQ.left (ReportedQ.right (hrows hm))
        · simp only [AL.C03R.combosStrs, hie, List.mem_singleton] at hm
          subst hm
          exact ReportedQ.right (checkOneExpression_bad cx s "include" "jobs.<job_id>.strategy" h)
      | none =>
        simp only [hie]
        rcases hm with (hm | hm) | hm
        · exact ReportedQ.left (ReportedQ.left (excludeDiags_bad cx isNum _ s hm h))
        · exact ReportedQ.left (ReportedQ.right (hrows hm))
        · simp only [AL.C03R.combosStrs, hie, List.mem_flatMap] at hm
          obtain ⟨c, hc, hs⟩ := hm
          refine ReportedQ.right ?_
          exact foldl_reported _ s (fun a x d hd => includeCombo_keep cx isNum a x d hd) _ c hc
            (fun a => includeCombo_bad cx isNum a c s hs h) _

/-! ### steps and jobs -/



theorem ite_reported (c : Bool) (a b : List Diag) (s : Str) (ha : ReportedQ Q a s) (hb : ReportedQ Q b s) :
    ReportedQ Q (if c = true then a else b) s := by
  cases c <;> simp [ha, hb]

theorem stepExec_bad (cx : Cx) (e : Exec) (s : Str) (hm : s ∈ AL.C03R.execStrs e) (h : BadQ Q s.value) :
    ReportedQ Q (stepExec cx e).1 s := by
  cases e with
  | none => simp [AL.C03R.execStrs] at hm
  | run e =>
    simp only [AL.C03R.execStrs, List.mem_append] at hm
    simp only [stepExec]
    rcases hm with (hm | hm) | hm
    · rw [AL.C03R.mem_toList hm]; exact (checkScriptString_bad cx s _ h).left.left
    · exact (checkString_opt_bad cx _ _ s hm h).right.left
    · exact (checkString_opt_bad cx _ _ s hm h).right
  | action e =>
    simp only [AL.C03R.execStrs, List.mem_append, List.mem_map] at hm
    simp only [stepExec]
    rcases hm with ((hm | ⟨kv, hk, rfl⟩) | hm) | hm
    · exact (checkString_opt_bad cx _ _ s hm h).left.left.left
    · refine ReportedQ.left (ReportedQ.left (ReportedQ.right ?_))
      refine flatMap_reported _ _ kv hk _ ?_
      exact ite_reported _ _ _ _ (checkScriptString_bad cx _ _ h) (checkString_bad cx _ _ h)
    · exact (checkString_opt_bad cx _ _ s hm h).right.left
    · exact (checkString_opt_bad cx _ _ s hm h).right

theorem stepDiags_bad (cx : Cx) (n : Step) (s : Str) (hm : s ∈ AL.C03R.stepStrs n) (h : BadQ Q s.value) :
    ReportedQ Q (stepDiags cx n) s := by
  simp only [AL.C03R.stepStrs, List.mem_append] at hm
  simp only [stepDiags]
  rcases hm with ((((hm | hm) | hm) | hm) | hm) | hm
  · exact (checkString_opt_bad cx _ _ s hm h).left.left.left.left.left
  · exact (checkIfCondition_bad cx _ _ s hm h).right.left.left.left.left
  · exact (stepExec_bad cx _ s hm h).right.left.left.left
  · exact (checkEnv_bad cx _ _ s hm h).right.left.left
  · exact (checkBool_bad cx _ _ s hm h).right.left
  · exact (checkFloat_bad cx _ _ s hm h).right

theorem visitStep_bad (cx : Cx) (n : Step) (s : Str) (hm : s ∈ AL.C03R.stepStrs n) (h : BadQ Q s.value) :
    ReportedQ Q (visitStep cx n).2 s := by
  simp only [visitStep]
  split
  · exact stepDiags_bad cx n s hm h
  · exact (stepDiags_bad cx n s hm h).left

theorem visitSteps_bad (s : Str) (h : BadQ Q s.value) : ∀ (steps : List Step) (cx : Cx),
    s ∈ steps.flatMap AL.C03R.stepStrs → ReportedQ Q (visitSteps cx steps).2 s
  | [], _, hm => by simp at hm
  | st :: rest, cx, hm => by
    simp only [List.flatMap_cons, List.mem_append] at hm
    simp only [visitSteps]
    rcases hm with hm | hm
    · exact (visitStep_bad cx st s hm h).left
    · exact (visitSteps_bad s h rest _ hm).right









theorem runsOnDiags_bad (cx : Cx) (r : Option Runner) (s : Str) (hm : s ∈ AL.C03R.runnerStrs r) (h : BadQ Q s.value) :
    ReportedQ Q (runsOnDiags cx r) s := by
  cases r with
  | none => simp [AL.C03R.runnerStrs] at hm
  | some r =>
    simp only [AL.C03R.runnerStrs, List.mem_append] at hm
    simp only [runsOnDiags]
    rcases hm with hm | hm
    · refine ReportedQ.left ?_
      cases he : r.labelsExpr with
      | some e =>
        simp only [he, List.mem_singleton] at hm
        subst hm
        have := checkOneExpression_bad cx s "runner label at \"runs-on\" section" "jobs.<job_id>.runs-on" h
        simp only
        split <;> first | exact this | exact this.left
      | none =>
        simp only [he] at hm
        simp only
        cases hl : r.labels with
        | none => simp [hl] at hm
        | some ls => exact flatMap_reported _ _ s (by simpa [hl] using hm) s (checkString_bad cx s _ h)
    · exact (checkString_opt_bad cx _ _ s hm h).right

theorem strategyDiags_bad (cx : Cx) (st : Option Strategy) (s : Str) (hm : s ∈ AL.C03R.strategyStrs st) (h : BadQ Q s.value) :
    ReportedQ Q (strategyDiags cx st) s := by
  cases st with
  | none => simp [AL.C03R.strategyStrs] at hm
  | some st =>
    simp only [AL.C03R.strategyStrs, List.mem_append] at hm
    simp only [strategyDiags]
    rcases hm with hm | hm
    · exact (checkBool_bad cx _ _ s hm h).left
    · exact (checkInt_bad cx _ _ s hm h).right

theorem servicesDiags_bad (cx : Cx) (sv : Option Services) (s : Str) (hm : s ∈ AL.C03R.servicesStrs sv) (h : BadQ Q s.value) :
    ReportedQ Q (servicesDiags cx sv) s := by
  cases sv with
  | none => simp [AL.C03R.servicesStrs] at hm
  | some sv =>
    simp only [AL.C03R.servicesStrs, List.mem_append, List.mem_flatMap] at hm
    simp only [servicesDiags]
    rcases hm with hm | ⟨kv, hk, hv⟩
    · rw [AL.C03R.mem_toList hm]; exact (checkObjectExpression_bad cx s _ _ h).left
    · exact ReportedQ.right (flatMap_reported _ _ kv hk s (checkContainer_bad cx _ _ _ s hv h))

theorem checkWorkflowCall_bad (cx : Cx) (c : Option WorkflowCall) (s : Str) (hm : s ∈ AL.C03R.callStrs c) (h : BadQ Q s.value) :
    ReportedQ Q (RuleExpr.checkWorkflowCall cx c) s := by
  cases c with
  | none => simp [AL.C03R.callStrs] at hm
  | some c =>
    simp only [AL.C03R.callStrs] at hm
    simp only [RuleExpr.checkWorkflowCall]
    cases hu : c.uses with
    | none => simp [hu] at hm
    | some u =>
      simp only [hu, List.mem_append, List.mem_singleton, List.mem_map] at hm
      simp only
      rcases hm with (rfl | ⟨kv, hk, rfl⟩) | ⟨kv, hk, rfl⟩
      · exact (checkString_bad cx _ _ h).left.left
      · exact ReportedQ.left (ReportedQ.right (flatMap_reported _ _ kv hk _ (checkString_bad cx _ _ h).left))
      · exact ReportedQ.right (flatMap_reported _ _ kv hk _ (checkString_bad cx _ _ h))

theorem jobPre_bad (cx : Cx) (n : Job) (s : Str) (hm : s ∈ AL.C03R.jobPreStrs n) (h : BadQ Q s.value) :
    ReportedQ Q (jobPre cx n) s := by
  simp only [AL.C03R.jobPreStrs, List.mem_append] at hm
  simp only [jobPre]
  rcases hm with (((((((((((hm | hm) | hm) | hm) | hm) | hm) | hm) | hm) | hm) | hm) | hm) | hm) | hm
  · exact (checkString_opt_bad cx _ _ s hm h).left.left.left.left.left.left.left.left.left.left.left.left
  · exact (checkStrings_opt_bad cx _ _ s hm h).right.left.left.left.left.left.left.left.left.left.left.left
  · exact (runsOnDiags_bad cx _ s hm h).right.left.left.left.left.left.left.left.left.left.left
  · exact (checkConcurrency_bad cx _ _ s hm h).right.left.left.left.left.left.left.left.left.left
  · exact (checkEnv_bad cx _ _ s hm h).right.left.left.left.left.left.left.left.left
  · exact (checkDefaults_bad cx _ _ s hm h).right.left.left.left.left.left.left.left
  · exact (checkIfCondition_bad cx _ _ s hm h).right.left.left.left.left.left.left
  · exact (strategyDiags_bad cx _ s hm h).right.left.left.left.left.left
  · exact (checkBool_bad cx _ _ s hm h).right.left.left.left.left
  · exact (checkFloat_bad cx _ _ s hm h).right.left.left.left
  · exact (checkContainer_bad cx _ _ _ s hm h).right.left.left
  · exact (servicesDiags_bad cx _ s hm h).right.left
  · exact (checkWorkflowCall_bad cx _ s hm h).right

theorem jobPost_bad (cx : Cx) (n : Job) (s : Str) (hm : s ∈ AL.C03R.jobPostStrs n) (h : BadQ Q s.value) :
    ReportedQ Q (jobPost cx n) s := by
  simp only [AL.C03R.jobPostStrs, List.mem_append, List.mem_map] at hm
  simp only [jobPost]
  rcases hm with hm | ⟨kv, hk, rfl⟩
  · refine ReportedQ.left ?_
    cases he : n.environment with
    | none => simp [he] at hm
    | some e =>
      simp only [he, List.mem_append] at hm
      simp only
      rcases hm with hm | hm
      · exact (checkString_opt_bad cx _ _ s hm h).left
      · exact (checkString_opt_bad cx _ _ s hm h).right
  · exact ReportedQ.right (flatMap_reported _ _ kv hk _ (checkString_bad cx _ _ h))

theorem jobMatrix_bad (cx : Cx) (isNum : IsNumber) (n : Job) (s : Str) (hm : s ∈ AL.C03R.matrixOfStrs n) (h : BadQ Q s.value) :
    ReportedQ Q (jobMatrix cx isNum n).2 s := by
  simp only [AL.C03R.matrixOfStrs] at hm
  simp only [jobMatrix]
  cases hs : n.strategy with
  | none => simp [hs] at hm
  | some st =>
    simp only [hs] at hm
    simp only
    cases hmx : st.matrix with
    | none => simp [hmx] at hm
    | some m =>
      simp only [hmx] at hm
      exact checkMatrix_bad cx isNum m s hm h

/-- **every value string of a job is checked**, whatever the scope in effect, the other jobs and the job's position -/
theorem visitJob_bad (cx : Cx) (isNum : IsNumber) (jobs : List (String × Job)) (n : Job) (s : Str) (hm : s ∈ AL.C03R.jobStrs n)
    (h : BadQ Q s.value) : ReportedQ Q (visitJob cx isNum jobs n) s := by
  simp only [AL.C03R.jobStrs, List.mem_append] at hm
  simp only [visitJob]
  rcases hm with ((hm | hm) | hm) | hm
  · exact (jobMatrix_bad _ isNum n s hm h).left.left.left
  · exact (jobPre_bad _ n s hm h).right.left.left
  · exact (visitSteps_bad s h _ _ hm).right.left
  · exact (jobPost_bad _ n s hm h).right

/-! ### events and the workflow -/




theorem filter_bad (cx : Cx) (f : Option Filter) (s : Str) (hm : s ∈ AL.C03R.filterStrs f) (h : BadQ Q s.value) :
    ReportedQ Q (filterDiags cx f) s := by
  cases f with
  | none => simp [AL.C03R.filterStrs] at hm
  | some f => exact checkStrings_opt_bad cx _ _ s (by simpa [AL.C03R.filterStrs] using hm) h

theorem webhookDiags_bad (cx : Cx) (e : WebhookEvent) (s : Str) (hm : s ∈ AL.C03R.eventStrs (.webhook e)) (h : BadQ Q s.value) :
    ReportedQ Q (webhookDiags cx e) s := by
  simp only [AL.C03R.eventStrs, List.mem_append] at hm
  simp only [webhookDiags]
  rcases hm with ((((((hm | hm) | hm) | hm) | hm) | hm) | hm) | hm
  · exact (checkStrings_opt_bad cx _ _ s hm h).left.left.left.left.left.left.left
  · exact (filter_bad cx _ s hm h).right.left.left.left.left.left.left
  · exact (filter_bad cx _ s hm h).right.left.left.left.left.left
  · exact (filter_bad cx _ s hm h).right.left.left.left.left
  · exact (filter_bad cx _ s hm h).right.left.left.left
  · exact (filter_bad cx _ s hm h).right.left.left
  · exact (filter_bad cx _ s hm h).right.left
  · exact (checkStrings_opt_bad cx _ _ s hm h).right

theorem callInputs_bad (cx : Cx) (s : Str) (h : BadQ Q s.value) : ∀ (ins : List Ast.CallInput) (acc : List (String × Ty)),
    s ∈ ins.flatMap AL.C03R.callInputStrs → ReportedQ Q (callInputs cx acc ins).2 s
  | [], _, hm => by simp at hm
  | i :: rest, acc, hm => by
    simp only [List.flatMap_cons, List.mem_append] at hm
    simp only [callInputs]
    rcases hm with hm | hm
    · simp only [AL.C03R.callInputStrs, List.mem_append] at hm
      rcases hm with (hm | hm) | hm
      · exact (checkString_opt_bad _ _ _ s hm h).left.left.left.left
      · exact (checkBool_bad _ _ _ s hm h).right.left.left.left
      · rw [AL.C03R.mem_toList hm]
        exact (checkStrU_bad _ false s _ h).right.left.left
    · exact (callInputs_bad cx s h rest _ hm).right

theorem visitEvent_bad (cx : Cx) (e : Ast.Event) (s : Str) (hm : s ∈ AL.C03R.eventStrs e) (h : BadQ Q s.value) :
    ReportedQ Q (visitEvent cx e).2 s := by
  cases e with
  | webhook e => exact webhookDiags_bad cx e s hm h
  | schedule cron pos =>
    simp only [AL.C03R.eventStrs] at hm
    simp only [visitEvent]
    exact checkStrings_bad cx cron "" s hm h
  | dispatch inputs pos =>
    simp only [AL.C03R.eventStrs, List.mem_flatMap, List.mem_append] at hm
    simp only [visitEvent]
    obtain ⟨kv, hk, hv⟩ := hm
    refine flatMap_reported _ _ kv hk s ?_
    simp only [dispatchInputDiags]
    rcases hv with ((hv | hv) | hv) | hv
    · exact (checkString_opt_bad cx _ _ s hv h).left.left.left
    · exact (checkString_opt_bad cx _ _ s hv h).right.left.left
    · exact (checkBool_bad cx _ _ s hv h).right.left
    · exact (checkStrings_opt_bad cx _ _ s hv h).right
  | repoDispatch types pos =>
    simp only [AL.C03R.eventStrs] at hm
    simp only [visitEvent]
    exact checkStrings_opt_bad cx _ _ s hm h
  | call inputs secrets outputs pos =>
    simp only [AL.C03R.eventStrs, List.mem_append] at hm
    simp only [visitEvent]
    rcases hm with (hm | hm) | hm
    · exact (callInputs_bad _ s h _ _ hm).left.left
    · refine ReportedQ.left (ReportedQ.right ?_)
      simp only [List.mem_flatMap, List.mem_append] at hm
      obtain ⟨kv, hk, hv⟩ := hm
      refine flatMap_reported _ _ kv hk s ?_
      simp only [callSecretDiags]
      rcases hv with hv | hv
      · exact (checkString_opt_bad _ _ _ s hv h).left
      · exact (checkBool_bad _ _ _ s hv h).right
    · refine ReportedQ.right ?_
      simp only [List.mem_flatMap] at hm
      obtain ⟨kv, hk, hv⟩ := hm
      exact flatMap_reported _ _ kv hk s (checkString_opt_bad _ _ _ s hv h)

theorem visitEvents_bad (s : Str) (h : BadQ Q s.value) : ∀ (es : List Ast.Event) (cx : Cx),
    s ∈ es.flatMap AL.C03R.eventStrs → ReportedQ Q (visitEvents cx es).2 s
  | [], _, hm => by simp at hm
  | e :: rest, cx, hm => by
    simp only [List.flatMap_cons, List.mem_append] at hm
    simp only [visitEvents]
    rcases hm with hm | hm
    · exact (visitEvent_bad cx e s hm h).left
    · exact (visitEvents_bad s h rest _ hm).right


/-- **the coverage theorem with the code**: for every workflow AST (linted with or without a project), every value string
every check of whose text yields a diagnostic with a code in `Q` gets such a diagnostic of the expression rule, located at
that string — in every section, at every nesting depth, whatever else the workflow contains. -/
theorem every_placeholder_checked (lower : String → String) (isNum : IsNumber) (w : Workflow) (proj : ProjView) (s : Str)
    (hm : s ∈ AL.C03R.valueStrs w) (h : BadQ Q s.value) : ReportedQ Q (rule lower isNum w proj) s := by
  simp only [AL.C03R.valueStrs, List.mem_append] at hm
  simp only [rule]
  rcases hm with (((hm | hm) | hm) | hm) | hm
  · exact (checkString_opt_bad _ _ _ s hm h).left.left.left.left
  · exact (visitEvents_bad s h _ _ hm).right.left.left.left
  · refine ReportedQ.left (ReportedQ.left (ReportedQ.right ?_))
    rcases hm with ((hm | hm) | hm) | hm
    · exact (checkString_opt_bad _ _ _ s hm h).left.left.left
    · exact (checkEnv_bad _ _ _ s hm h).right.left.left
    · exact (checkDefaults_bad _ _ _ s hm h).right.left
    · exact (checkConcurrency_bad _ _ _ s hm h).right
  · refine ReportedQ.left (ReportedQ.right ?_)
    obtain ⟨kv, hk, hv⟩ := List.mem_flatMap.1 hm
    exact flatMap_reported _ _ kv hk s (visitJob_bad _ isNum _ kv.2 s hv h)
  · refine ReportedQ.right ?_
    simp only [AL.C03R.outValueStrs] at hm
    cases hf : findCallOutputs (w.on.getD []) with
    | none => simp [hf] at hm
    | some outs =>
      simp only [hf] at hm
      simp only
      split at hm
      · cases hm
      · rename_i hc
        rw [if_neg hc]
        obtain ⟨kv, hk, hv⟩ := List.mem_flatMap.1 hm
        exact flatMap_reported _ _ kv hk s (checkString_opt_bad _ _ _ s hv h)

end AL.C04R.Chain
