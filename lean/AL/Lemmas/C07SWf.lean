import AL.Lemmas.C07SJob
/-
  C07Sites, parser side, part 4: steps, jobs, the workflow.
-/
namespace AL.C07S
open AL.Yaml AL.Ast AL.PW

variable {S : List Node}

instance : HasItems StepSt := ⟨fun st => items st.step ++ items st.workDir⟩
@[simp] theorem IOk_StepSt {x : StepSt} : IOk S x ↔ IOk S x.step ∧ IOk S x.workDir := by
  change LOk S (items x.step ++ items x.workDir) ↔ _
  simp only [LOk_append, LOk_items]

instance : HasItems JobSt := ⟨fun st => items st.job ++ items st.call ++ items st.stepsOnlyKey ++ items st.callOnlyKey⟩
@[simp] theorem IOk_JobSt {x : JobSt} : IOk S x ↔ IOk S x.job ∧ IOk S x.call ∧ IOk S x.stepsOnlyKey ∧ IOk S x.callOnlyKey := by
  change LOk S (items x.job ++ items x.call ++ items x.stepsOnlyKey ++ items x.callOnlyKey) ↔ _
  simp only [LOk_append, LOk_items, and_assoc]

/-! ### steps -/

theorem withKey_ok {st : ExecAction} {input : KV} (hkv : KVOk S input) (hst : IOk S st) : ROk S (withKey st input) := by
  have hs := fun ae => parseString_ok (S := S) hkv.valMem ae
  have hk := hkv.1
  have hi : IOk S (st.inputs.getD []) := IOk_getD (IOk_ExecAction.1 hst).2.1
  simp only [withKey]
  split <;> simp_all

theorem stepKey_ok (cfg : Cfg) {st : StepSt} {kv : KV} (hkv : KVOk S kv) (hst : IOk S st) : ROk S (stepKey cfg st kv) := by
  have hs := fun ae => parseString_ok (S := S) hkv.valMem ae
  have he := parseEnv_ok (S := S) cfg hkv.2
  have hb := parseBool_ok (S := S) hkv.valMem
  have hf := parseTimeoutMinutes_ok (S := S) cfg hkv.valMem
  have hu := fun sec exp => unexpectedKey_ok (S := S) hkv sec exp
  have hm := parseSectionMapping_ok (S := S) cfg "with" hkv.2 false false
  have hw := fun init hinit => loop_ok (S := S) withKey _ init hm.1 (fun st kv h1 h2 => withKey_ok h1 h2) hinit
  have hk := hkv.keyPos
  simp only [stepKey]
  split
  all_goals try (simp_all; done)
  all_goals split
  all_goals try (simp_all [POk]; done)

theorem optStr_pos {o : Option Str} (h : IOk S o) : ∀ s, o = some s → ∃ v ∈ S, s.pos = v.pos := by
  intro s hs
  subst hs
  obtain ⟨v, hv, hs⟩ := IOk_str.1 (IOk_some.1 h)
  exact ⟨v, hv, hs.pos⟩

theorem stepFinish_ok {n : Node} (h : n ∈ S) {st : StepSt} (hst : IOk S st) : EOk S (stepFinish n st) := by
  have he := fun c a => errAt_ok (S := S) h c a
  have hw := optStr_pos (IOk_StepSt.1 hst).2
  simp only [stepFinish]
  repeat' split
  all_goals simp_all

theorem parseStep_ok (cfg : Cfg) {n : Node} (h : ∀ x ∈ allNodes n, x ∈ S) : ROk S (parseStep cfg n) := by
  have hm := parseMapping_ok (S := S) cfg "element of \"steps\" section" h false true
  have hr := loop_ok (S := S) (stepKey cfg) _ { step := { pos := n.pos } } hm.1
    (fun st kv h1 h2 => stepKey_ok cfg h1 h2) (by have := POk_of_mem (self_mem h); simp_all)
  have hf := stepFinish_ok (S := S) (self_mem h) hr.1
  simp only [parseStep]
  simp_all

theorem stepsOf_ok (cfg : Cfg) : ∀ (cs : List Node), (∀ c ∈ cs, ∀ x ∈ allNodes c, x ∈ S) → ROk S (PW.stepsOf cfg cs)
  | [], _ => by simp [PW.stepsOf]
  | c :: cs, h => by
    have h1 := parseStep_ok cfg (h c (List.mem_cons_self ..))
    have h2 := stepsOf_ok cfg cs (fun x hx => h x (List.mem_cons_of_mem _ hx))
    simp only [PW.stepsOf]
    simp_all

theorem parseSteps_ok (cfg : Cfg) {n : Node} (h : ∀ x ∈ allNodes n, x ∈ S) : ROk S (parseSteps cfg n) := by
  have hc := checkSequence_ok (S := S) (self_mem h) "steps" false
  have hs := stepsOf_ok (S := S) cfg n.content (content_sub h)
  simp only [parseSteps]
  split <;> simp_all

/-! ### jobs -/

theorem runsOnKey_ok {st : Runner} {kv : KV} (hkv : KVOk S kv) (hst : IOk S st) : ROk S (runsOnKey st kv) := by
  have hx := mayParseExpression_ok (S := S) hkv.valMem
  have hl := parseStringOrStringSequence_ok (S := S) hkv.2 "labels" false false
  have hs := fun ae => parseString_ok (S := S) hkv.valMem ae
  have hu := fun sec exp => unexpectedKey_ok (S := S) hkv sec exp
  simp only [runsOnKey]
  repeat' split
  all_goals simp_all

theorem parseRunsOn_ok (cfg : Cfg) {n : Node} (h : ∀ x ∈ allNodes n, x ∈ S) : ROk S (parseRunsOn cfg n) := by
  have hx := mayParseExpression_ok (S := S) (self_mem h)
  have hl := parseStringOrStringSequence_ok (S := S) h "runs-on" false false
  have hm := parseSectionMapping_ok (S := S) cfg "runs-on" h false true
  have hr := loop_ok (S := S) runsOnKey _ {} hm.1 (fun st kv h1 h2 => runsOnKey_ok h1 h2) (by simp)
  simp only [parseRunsOn]
  repeat' split
  all_goals simp_all

theorem callArgs_ok {kvs : List KV} (hk : ∀ kv ∈ kvs, KVOk S kv) : ROk S (callArgs kvs) := by
  simp only [callArgs]
  refine mapKVs_ok _ _ hk ?_
  intro kv hkv
  have := parseString_ok (S := S) hkv.valMem true
  have := hkv.1
  simp_all

theorem jobKey_ok (cfg : Cfg) {st : JobSt} {kv : KV} (hkv : KVOk S kv) (hst : IOk S st) : ROk S (jobKey cfg st kv) := by
  have hs := fun ae => parseString_ok (S := S) hkv.valMem ae
  have hq := fun sec => parseStringSequence_ok (S := S) hkv.2 sec false false
  have h1 := parseRunsOn_ok (S := S) cfg hkv.2
  have h2 := parsePermissions_ok (S := S) cfg hkv.keyPos hkv.2
  have h3 := parseEnvironment_ok (S := S) cfg hkv.keyPos hkv.2
  have h4 := parseConcurrency_ok (S := S) cfg hkv.keyPos hkv.2
  have h5 := parseOutputs_ok (S := S) cfg hkv.2
  have h6 := parseEnv_ok (S := S) cfg hkv.2
  have h7 := parseDefaults_ok (S := S) cfg hkv.keyPos hkv.2
  have h8 := parseSteps_ok (S := S) cfg hkv.2
  have h9 := parseTimeoutMinutes_ok (S := S) cfg hkv.valMem
  have h10 := parseStrategy_ok (S := S) cfg hkv.keyPos hkv.2
  have h11 := parseBool_ok (S := S) hkv.valMem
  have h12 := parseContainer_ok (S := S) cfg "container" hkv.keyPos hkv.2
  have h13 := parseServices_ok (S := S) cfg hkv.2
  have hm := fun sec => parseSectionMapping_ok (S := S) cfg sec hkv.2 false false
  have ha := fun sec => callArgs_ok (S := S) (hm sec).1
  have hu := fun sec exp => unexpectedKey_ok (S := S) hkv sec exp
  have he := fun c a => errAt_ok (S := S) hkv.valMem c a
  have hk := hkv.1
  simp only [jobKey]
  split
  all_goals try (simp_all; done)
  all_goals repeat' split
  all_goals simp_all

theorem jobFinish_ok {id : Str} (hid : IOk S id) {st : JobSt} (hst : IOk S st) : ROk S (jobFinish id st) := by
  have hp : ∃ v ∈ S, id.pos = v.pos := by
    obtain ⟨v, hv, hs⟩ := IOk_str.1 hid
    exact ⟨v, hv, hs.pos⟩
  have h1 := optStr_pos (IOk_JobSt.1 hst).2.2.1
  have h2 := optStr_pos (IOk_JobSt.1 hst).2.2.2
  simp only [jobFinish]
  repeat' split
  all_goals simp_all

theorem parseJob_ok (cfg : Cfg) {id : Str} (hid : IOk S id) {n : Node} (h : ∀ x ∈ allNodes n, x ∈ S) :
    ROk S (parseJob cfg id n) := by
  have hp : POk S id.pos := by
    obtain ⟨v, hv, hs⟩ := IOk_str.1 hid
    exact ⟨v, hv, hs.pos⟩
  have hm := parseMapping_ok (S := S) cfg (jobWhat id.value) h false true
  have hr := loop_ok (S := S) (jobKey cfg) _ { job := { id := id, pos := id.pos } } hm.1
    (fun st kv h1 h2 => jobKey_ok cfg h1 h2) (by simp_all)
  have hf := jobFinish_ok (S := S) hid hr.1
  simp only [parseJob]
  simp_all

theorem parseJobs_ok (cfg : Cfg) {n : Node} (h : ∀ x ∈ allNodes n, x ∈ S) : ROk S (parseJobs cfg n) := by
  have hm := parseSectionMapping_ok (S := S) cfg "jobs" h false false
  simp only [parseJobs]
  generalize hr : mapKVs _ _ = r
  have hrok : ROk S r := by
    rw [← hr]
    exact mapKVs_ok _ _ hm.1 (fun kv hkv => parseJob_ok cfg (IOk_str.2 hkv.1) hkv.2)
  simp_all

/-! ### the workflow -/

theorem workflowKey_ok (cfg : Cfg) {w : Workflow} {kv : KV} (hkv : KVOk S kv) (hw : IOk S w) : ROk S (workflowKey cfg w kv) := by
  have hs := fun ae => parseString_ok (S := S) hkv.valMem ae
  have h1 := parseEvents_ok (S := S) cfg hkv.keyPos hkv.2
  have h2 := parsePermissions_ok (S := S) cfg hkv.keyPos hkv.2
  have h3 := parseEnv_ok (S := S) cfg hkv.2
  have h4 := parseDefaults_ok (S := S) cfg hkv.keyPos hkv.2
  have h5 := parseConcurrency_ok (S := S) cfg hkv.keyPos hkv.2
  have h6 := parseJobs_ok (S := S) cfg hkv.2
  have hu := fun sec exp => unexpectedKey_ok (S := S) hkv sec exp
  simp only [workflowKey]
  split <;> simp_all

/-- the document node after `fixDocPos` has the same children -/
theorem fixDocPos_content (doc : Node) : (fixDocPos doc).content = doc.content := by
  obtain ⟨k, t, v, q, l, c, cs⟩ := doc
  rfl

/-- **the parser invents no position**: every string and every position of the AST comes from a node below the root of the
document; every syntax diagnostic sits at such a node or at the document node itself (after `fixDocPos`) -/
theorem parse_ok (cfg : Cfg) (doc : Node) :
    IOk (allNodesL doc.content) (parse cfg doc).1 ∧
    ∀ e ∈ (parse cfg doc).2, e.pos = (fixDocPos doc).pos ∨ ∃ v ∈ allNodesL doc.content, e.pos = v.pos := by
  simp only [parse, fixDocPos_content]
  split
  · refine ⟨by simp, ?_⟩
    intro e he
    simp only [List.mem_singleton] at he
    subst he
    exact Or.inl rfl
  · rename_i root rest hc
    have hroot : ∀ x ∈ allNodes root, x ∈ allNodesL doc.content := by
      intro x hx
      rw [hc]
      simp only [allNodesL, List.mem_append]
      exact Or.inl hx
    have hm := parseMapping_ok (S := allNodesL doc.content) cfg "workflow" hroot false true
    have hr := loop_ok (S := allNodesL doc.content) (workflowKey cfg) _ {} hm.1
      (fun st kv h1 h2 => workflowKey_ok cfg h1 h2) (by simp)
    refine ⟨hr.1, ?_⟩
    intro e he
    simp only [List.mem_append] at he
    rcases he with ((he | he) | he) | he
    · exact Or.inr (hm.2 e he)
    · exact Or.inr (hr.2 e he)
    · split at he
      · simp only [List.mem_singleton] at he; subst he; exact Or.inl rfl
      · cases he
    · split at he
      · simp only [List.mem_singleton] at he; subst he; exact Or.inl rfl
      · cases he

end AL.C07S
-- 
