import AL.Lemmas.MatrixBasic
/-
  `equals` is an equivalence on well-formed values, coincides with `Same`, is invariant under
  member permutations, and implies `subset`.
-/
namespace AL.Matrix
open AL.Spec

/-! ### Reflexivity -/

theorem equals_refl : ∀ a : Raw, RawWF a → equals a a = true := by
  intro a
  induction a using Raw.ind with
  | str v p => intro _; simp [equals]
  | arr es p ih =>
    intro wf
    rw [rawWF_arr] at wf
    rw [equals_arr_iff]
    exact ⟨rfl, fun i h1 _ => ih _ (List.getElem_mem h1) (wf _ (List.getElem_mem h1))⟩
  | obj ps p ih =>
    intro wf
    rw [rawWF_obj] at wf
    rw [equals_obj_iff]
    refine ⟨rfl, fun kv hkv => ⟨kv.2, mem_lookup wf.1 hkv, ih kv hkv (wf.2 kv hkv)⟩⟩

/-! ### Transitivity (no well-formedness needed) -/

theorem equals_trans : ∀ a b c : Raw, equals a b = true → equals b c = true → equals a c = true := by
  intro a
  induction a using Raw.ind with
  | str v p =>
    intro b c hab hbc
    cases b <;> cases c <;> simp_all [equals]
  | arr es p ih =>
    intro b c hab hbc
    cases b with
    | str _ _ => simp [equals] at hab
    | obj _ _ => simp [equals] at hab
    | arr fs q =>
      cases c with
      | str _ _ => simp [equals] at hbc
      | obj _ _ => simp [equals] at hbc
      | arr gs r =>
        rw [equals_arr_iff] at hab hbc ⊢
        refine ⟨hab.1.trans hbc.1, fun i h1 h3 => ?_⟩
        have h2 : i < fs.length := hab.1 ▸ h1
        exact ih _ (List.getElem_mem h1) _ _ (hab.2 i h1 h2) (hbc.2 i h2 h3)
  | obj ps p ih =>
    intro b c hab hbc
    cases b with
    | str _ _ => simp [equals] at hab
    | arr _ _ => simp [equals] at hab
    | obj qs q =>
      cases c with
      | str _ _ => simp [equals] at hbc
      | arr _ _ => simp [equals] at hbc
      | obj rs r =>
        rw [equals_obj_iff] at hab hbc ⊢
        refine ⟨hab.1.trans hbc.1, fun kv hkv => ?_⟩
        obtain ⟨w, hw, hvw⟩ := hab.2 kv hkv
        obtain ⟨x, hx, hwx⟩ := hbc.2 (kv.1, w) (lookup_some_mem hw)
        exact ⟨x, hx, ih kv hkv _ _ hvw hwx⟩

/-! ### Symmetry -/

/-- One direction of symmetry for objects, given symmetry for the members of the left object. -/
private theorem equals_obj_symm_aux {ps qs : List (String × Raw)} {p q : P}
    (ndp : (ps.map (·.1)).Nodup) (ndq : (qs.map (·.1)).Nodup)
    (ih : ∀ kv ∈ ps, ∀ w, (kv.1, w) ∈ qs → (equals kv.2 w = true ↔ equals w kv.2 = true)) :
    equals (.obj ps p) (.obj qs q) = true ↔ equals (.obj qs q) (.obj ps p) = true := by
  rw [equals_obj_iff, equals_obj_iff]
  constructor
  · rintro ⟨hlen, h⟩
    refine ⟨hlen.symm, fun kv hkv => ?_⟩
    have hcov := keys_covered ndp
      (fun kv' h' => by obtain ⟨w, hw, _⟩ := h kv' h'
                        exact List.mem_map.2 ⟨(kv'.1, w), lookup_some_mem hw, rfl⟩) hlen kv hkv
    obtain ⟨v, hv⟩ := lookup_isSome_iff.2 hcov
    have hmem := lookup_some_mem hv
    obtain ⟨w, hw, hvw⟩ := h (kv.1, v) hmem
    have : w = kv.2 := by
      have := mem_lookup ndq (show (kv.1, kv.2) ∈ qs from hkv)
      simp only at hw
      rw [hw] at this; exact Option.some.inj this
    subst this
    exact ⟨v, hv, (ih (kv.1, v) hmem kv.2 hkv).1 hvw⟩
  · rintro ⟨hlen, h⟩
    refine ⟨hlen.symm, fun kv hkv => ?_⟩
    have hcov := keys_covered ndq
      (fun kv' h' => by obtain ⟨w, hw, _⟩ := h kv' h'
                        exact List.mem_map.2 ⟨(kv'.1, w), lookup_some_mem hw, rfl⟩) hlen kv hkv
    obtain ⟨w, hw⟩ := lookup_isSome_iff.2 hcov
    have hmem := lookup_some_mem hw
    obtain ⟨v, hv, hwv⟩ := h (kv.1, w) hmem
    have : v = kv.2 := by
      have := mem_lookup ndp (show (kv.1, kv.2) ∈ ps from hkv)
      simp only at hv
      rw [hv] at this; exact Option.some.inj this
    subst this
    exact ⟨w, hw, (ih kv hkv w hmem).2 hwv⟩

theorem equals_symm_iff : ∀ a b : Raw, RawWF a → RawWF b →
    (equals a b = true ↔ equals b a = true) := by
  intro a
  induction a using Raw.ind with
  | str v p =>
    intro b _ _
    cases b with
    | str w q => simp only [equals, beq_iff_eq]; exact eq_comm
    | arr _ _ => simp [equals]
    | obj _ _ => simp [equals]
  | arr es p ih =>
    intro b wa wb
    cases b with
    | str _ _ => simp [equals]
    | obj _ _ => simp [equals]
    | arr fs q =>
      rw [rawWF_arr] at wa wb
      rw [equals_arr_iff, equals_arr_iff]
      constructor
      · rintro ⟨hl, h⟩
        exact ⟨hl.symm, fun i h1 h2 =>
          (ih _ (List.getElem_mem h2) _ (wa _ (List.getElem_mem h2)) (wb _ (List.getElem_mem h1))).1
            (h i h2 h1)⟩
      · rintro ⟨hl, h⟩
        exact ⟨hl.symm, fun i h1 h2 =>
          (ih _ (List.getElem_mem h1) _ (wa _ (List.getElem_mem h1)) (wb _ (List.getElem_mem h2))).2
            (h i h2 h1)⟩
  | obj ps p ih =>
    intro b wa wb
    cases b with
    | str _ _ => simp [equals]
    | arr _ _ => simp [equals]
    | obj qs q =>
      rw [rawWF_obj] at wa wb
      exact equals_obj_symm_aux wa.1 wb.1
        (fun kv hkv w hw => ih kv hkv w (wa.2 kv hkv) (wb.2 _ hw))

theorem equals_symm (a b : Raw) (wa : RawWF a) (wb : RawWF b) : equals a b = equals b a := by
  have := equals_symm_iff a b wa wb
  cases h1 : equals a b <;> cases h2 : equals b a <;> simp_all

/-! ### `equals` decides `Same` -/

theorem equals_iff_same : ∀ a b : Raw, (equals a b = true ↔ Same a b) := by
  intro a
  induction a using Raw.ind with
  | str v p =>
    intro b
    cases b with
    | str w q =>
      simp only [equals, beq_iff_eq]
      constructor
      · rintro rfl; exact .str _ _ _
      · intro h; cases h; rfl
    | arr _ _ => simp only [equals]; constructor <;> intro h <;> cases h
    | obj _ _ => simp only [equals]; constructor <;> intro h <;> cases h
  | arr es p ih =>
    intro b
    cases b with
    | str _ _ => simp only [equals]; constructor <;> intro h <;> cases h
    | obj _ _ => simp only [equals]; constructor <;> intro h <;> cases h
    | arr fs q =>
      rw [equals_arr_iff]
      constructor
      · rintro ⟨hl, h⟩
        exact .arr _ _ _ _ hl (fun i h1 h2 => (ih _ (List.getElem_mem h1) _).1 (h i h1 h2))
      · intro h
        cases h with
        | arr _ _ _ _ hl h =>
          exact ⟨hl, fun i h1 h2 => (ih _ (List.getElem_mem h1) _).2 (h i h1 h2)⟩
  | obj ps p ih =>
    intro b
    cases b with
    | str _ _ => simp only [equals]; constructor <;> intro h <;> cases h
    | arr _ _ => simp only [equals]; constructor <;> intro h <;> cases h
    | obj qs q =>
      rw [equals_obj_iff]
      constructor
      · rintro ⟨hl, h⟩
        refine .obj _ _ _ _ hl ?_ ?_
        · intro k v hkv
          obtain ⟨w, hw, _⟩ := h (k, v) hkv
          simp only at hw; simp [hw]
        · intro k v w hkv hw
          obtain ⟨w', hw', hvw⟩ := h (k, v) hkv
          simp only at hw'
          rw [hw] at hw'; cases hw'
          exact (ih (k, v) hkv w).1 hvw
      · intro h
        cases h with
        | obj _ _ _ _ hl hdom h =>
          refine ⟨hl, fun kv hkv => ?_⟩
          have hd := hdom kv.1 kv.2 hkv
          cases hw : lookup kv.1 qs with
          | none => simp [hw] at hd
          | some w => exact ⟨w, rfl, (ih kv hkv w).2 (h kv.1 kv.2 w hkv hw)⟩

/-! ### Member order -/

theorem equals_obj_perm_left {ps qs : List (String × Raw)} (h : ps.Perm qs) (p p' : P) (b : Raw) :
    equals (.obj ps p) b = equals (.obj qs p') b := by
  cases b with
  | str _ _ => simp [equals]
  | arr _ _ => simp [equals]
  | obj rs r =>
    rw [Bool.eq_iff_iff, equals_obj_iff, equals_obj_iff, h.length_eq]
    exact and_congr Iff.rfl ⟨fun H kv hkv => H kv (h.mem_iff.2 hkv), fun H kv hkv => H kv (h.mem_iff.1 hkv)⟩

theorem equals_obj_perm_right {ps qs : List (String × Raw)} (nd : (ps.map (·.1)).Nodup)
    (h : ps.Perm qs) (p p' : P) (b : Raw) :
    equals b (.obj ps p) = equals b (.obj qs p') := by
  cases b with
  | str _ _ => simp [equals]
  | arr _ _ => simp [equals]
  | obj rs r =>
    rw [Bool.eq_iff_iff, equals_obj_iff, equals_obj_iff, h.length_eq]
    simp only [lookup_perm nd h]

/-- Equal values are interchangeable on either side of `equals` ("at any depth": by
`equals_iff_same`, `a` and `a'` may differ in the order of members anywhere inside). -/
theorem equals_congr_left {a a' b : Raw} (wa : RawWF a) (wa' : RawWF a') (h : equals a a' = true) :
    equals a b = equals a' b := by
  rw [Bool.eq_iff_iff]
  constructor
  · intro hab; exact equals_trans _ _ _ ((equals_symm a a' wa wa').symm.trans h) hab
  · intro hab; exact equals_trans _ _ _ h hab

theorem equals_congr_right {a a' b : Raw} (h : equals a a' = true) (h' : equals a' a = true) :
    equals b a = equals b a' := by
  rw [Bool.eq_iff_iff]
  exact ⟨fun hba => equals_trans _ _ _ hba h, fun hba => equals_trans _ _ _ hba h'⟩

/-! ### `subset` -/

@[simp] theorem subset_str_right (v : Raw) (s : String) (p : P) (h : containsExpr s = true) :
    subset v (.str s p) = true := by
  cases v <;> simp [subset, h]

theorem subset_obj_str (ps : List (String × Raw)) (p : P) (s : String) (q : P) :
    subset (.obj ps p) (.str s q) = containsExpr s := by
  simp [subset]

theorem subset_arr_str (es : List Raw) (p : P) (s : String) (q : P) :
    subset (.arr es p) (.str s q) = containsExpr s := by
  simp [subset]

theorem subset_str_obj (w : String) (p : P) (ps : List (String × Raw)) (q : P) :
    subset (.str w p) (.obj ps q) = containsExpr w := by
  simp [subset]

theorem subset_str_arr (w : String) (p : P) (es : List Raw) (q : P) :
    subset (.str w p) (.arr es q) = containsExpr w := by
  simp [subset]

theorem subset_obj_arr (ps : List (String × Raw)) (p : P) (es : List Raw) (q : P) :
    subset (.obj ps p) (.arr es q) = false := by
  simp [subset]

theorem subset_arr_obj (es : List Raw) (p : P) (ps : List (String × Raw)) (q : P) :
    subset (.arr es p) (.obj ps q) = false := by
  simp [subset]

theorem subset_obj_iff (ps qs : List (String × Raw)) (p q : P) :
    subset (.obj ps p) (.obj qs q) = true ↔
      ∀ kv ∈ qs, ∃ v, lookup kv.1 ps = some v ∧ subset v kv.2 = true := by
  simp [subset, subsetProps_iff]

theorem subset_arr_iff (es fs : List Raw) (p q : P) :
    subset (.arr es p) (.arr fs q) = true ↔
      es.length = fs.length ∧ ∀ i (h1 : i < es.length) (h2 : i < fs.length), subset es[i] fs[i] = true := by
  simp [subset, subsetList_iff]

theorem subset_obj_perm_left {ps qs : List (String × Raw)} (nd : (ps.map (·.1)).Nodup)
    (h : ps.Perm qs) (p p' : P) (b : Raw) :
    subset (.obj ps p) b = subset (.obj qs p') b := by
  cases b with
  | str _ _ => simp [subset_obj_str]
  | arr _ _ => simp [subset_obj_arr]
  | obj rs r =>
    rw [Bool.eq_iff_iff, subset_obj_iff, subset_obj_iff]
    simp only [lookup_perm nd h]

theorem subset_obj_perm_right {ps qs : List (String × Raw)} (h : ps.Perm qs) (p p' : P) (b : Raw) :
    subset b (.obj ps p) = subset b (.obj qs p') := by
  cases b with
  | str _ _ => simp [subset_str_obj]
  | arr _ _ => simp [subset_arr_obj]
  | obj rs r =>
    rw [Bool.eq_iff_iff, subset_obj_iff, subset_obj_iff]
    exact ⟨fun H kv hkv => H kv (h.mem_iff.2 hkv), fun H kv hkv => H kv (h.mem_iff.1 hkv)⟩

/-- Equal values are subsets of each other. -/
theorem equals_subset : ∀ a b : Raw, RawWF a → RawWF b → equals a b = true → subset a b = true := by
  intro a
  induction a using Raw.ind with
  | str v p =>
    intro b _ _ h
    cases b with
    | str w q =>
      simp only [equals, beq_iff_eq] at h
      subst h
      simp only [subset]
      split <;> simp
    | arr _ _ => simp [equals] at h
    | obj _ _ => simp [equals] at h
  | arr es p ih =>
    intro b wa wb h
    cases b with
    | str _ _ => simp [equals] at h
    | obj _ _ => simp [equals] at h
    | arr fs q =>
      rw [rawWF_arr] at wa wb
      rw [equals_arr_iff] at h
      rw [subset_arr_iff]
      exact ⟨h.1, fun i h1 h2 => ih _ (List.getElem_mem h1) _ (wa _ (List.getElem_mem h1))
        (wb _ (List.getElem_mem h2)) (h.2 i h1 h2)⟩
  | obj ps p ih =>
    intro b wa wb h
    cases b with
    | str _ _ => simp [equals] at h
    | arr _ _ => simp [equals] at h
    | obj qs q =>
      rw [rawWF_obj] at wa wb
      rw [equals_obj_iff] at h
      rw [subset_obj_iff]
      intro kv hkv
      have hcov := keys_covered wa.1
        (fun kv' h' => by obtain ⟨w, hw, _⟩ := h.2 kv' h'
                          exact List.mem_map.2 ⟨(kv'.1, w), lookup_some_mem hw, rfl⟩) h.1 kv hkv
      obtain ⟨v, hv⟩ := lookup_isSome_iff.2 hcov
      have hmem := lookup_some_mem hv
      obtain ⟨w, hw, hvw⟩ := h.2 (kv.1, v) hmem
      have : w = kv.2 := by
        have := mem_lookup wb.1 (show (kv.1, kv.2) ∈ qs from hkv)
        simp only at hw
        rw [hw] at this; exact Option.some.inj this
      subst this
      exact ⟨v, hv, ih (kv.1, v) hmem _ (wa.2 _ hmem) (wb.2 _ hkv) hvw⟩

end AL.Matrix
