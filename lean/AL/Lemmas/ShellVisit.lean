import AL.Model.ShellVisit
/-
  Lemmas about the shell-threading model (AL.Model.ShellVisit): the invariant "between jobs the job-level and
  runner-level fields are cleared" is kept by `scJob` / `pyJob`, and under it the per-step results are the closed forms
  `scStepSpec` / `pyStepSpec`.
-/
namespace AL.ShellVisit
open AL.Proc

/-! ### shellcheck -/

/-- closed form of the shellcheck decision at a step of job `j` when the workflow default is `ws` -/
def scStepSpec (lower : String → String) (ws : String) (j : JobS) (s : StepS) : Option String :=
  if s.isRun then some (effectiveShell s.shell (j.shell.getD "") ws (runnerDefault lower j.labels)) else none

/-- the state between jobs -/
def ScSt.clean (st : ScSt) : Prop := st.jobShell = "" ∧ st.runnerShell = ""

theorem scJobPre_clean (lower : String → String) (st : ScSt) (j : JobS) (h : st.clean) :
    scJobPre lower st j = ⟨st.workflowShell, j.shell.getD "", runnerDefault lower j.labels⟩ := by
  obtain ⟨ws, js, rs⟩ := st
  obtain ⟨h1, h2⟩ := h
  simp only at h1 h2
  subst h1; subst h2
  unfold scJobPre runnerDefault
  cases hj : j.shell <;> cases hl : j.labels.any (isWindowsLabel lower) <;> simp

theorem scJobPost_eq (st : ScSt) : scJobPost st = ⟨st.workflowShell, "", ""⟩ := rfl

theorem scJob_clean (lower : String → String) (st : ScSt) (j : JobS) (h : st.clean) :
    scJob lower st j = (st, j.steps.map (scStepSpec lower st.workflowShell j)) := by
  unfold scJob
  simp only [scJobPre_clean lower st j h, scJobPost_eq]
  obtain ⟨ws, js, rs⟩ := st
  obtain ⟨h1, h2⟩ := h
  simp only at h1 h2
  subst h1; subst h2
  rfl

theorem scJobs_clean (lower : String → String) (st : ScSt) (h : st.clean) (js : List JobS) :
    scJobs lower st js = (st, js.map (fun j => j.steps.map (scStepSpec lower st.workflowShell j))) := by
  induction js with
  | nil => rfl
  | cons j js ih =>
    simp only [scJobs, scJob_clean lower st j h, ih, List.map_cons]

theorem scWorkflow_init (lower : String → String) (w : WfS) :
    scWorkflow lower ScSt.init w
      = (ScSt.init, w.jobs.map (fun j => j.steps.map (scStepSpec lower (w.shell.getD "") j))) := by
  unfold scWorkflow
  cases hw : w.shell with
  | none =>
    have hc : ScSt.init.clean := ⟨rfl, rfl⟩
    simp only [scJobs_clean lower ScSt.init hc]
    rfl
  | some s =>
    have hc : ScSt.clean { ScSt.init with workflowShell := s } := ⟨rfl, rfl⟩
    simp only [scJobs_clean lower _ hc]
    rfl

/-! ### pyflakes -/

/-- closed form of the pyflakes decision at a step of job `j` when the workflow default kind is `wk` -/
def pyStepSpec (wk : PyKind) (j : JobS) (s : StepS) : Bool :=
  s.isRun && isPython s.shell (if j.hasDefaultsRun then pyKind j.defShell else .unspecified) wk

theorem pyJob_clean (st : PySt) (j : JobS) (h : st.job = .unspecified) :
    pyJob st j = (st, j.steps.map (pyStepSpec st.workflow j)) := by
  obtain ⟨wk, jk⟩ := st
  simp only at h
  subst h
  unfold pyJob pyJobPre pyJobPost
  cases hj : j.hasDefaultsRun <;> simp [pyStep, pyStepSpec, hj]

theorem pyJobs_clean (st : PySt) (h : st.job = .unspecified) (js : List JobS) :
    pyJobs st js = (st, js.map (fun j => j.steps.map (pyStepSpec st.workflow j))) := by
  induction js with
  | nil => rfl
  | cons j js ih =>
    simp only [pyJobs, pyJob_clean st j h, ih, List.map_cons]

theorem pyWorkflow_init (w : WfS) :
    pyWorkflow PySt.init w
      = (PySt.init, w.jobs.map (fun j => j.steps.map
          (pyStepSpec (if w.hasDefaultsRun then pyKind w.defShell else .unspecified) j))) := by
  unfold pyWorkflow
  cases hw : w.hasDefaultsRun with
  | false =>
    have hc : PySt.init.job = .unspecified := rfl
    simp only [Bool.false_eq_true, if_false, pyJobs_clean PySt.init hc]
    rfl
  | true =>
    have hc : PySt.job { PySt.init with workflow := pyKind w.defShell } = .unspecified := rfl
    simp only [if_true, pyJobs_clean _ hc]
    rfl

end AL.ShellVisit
