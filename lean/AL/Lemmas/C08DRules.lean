import AL.Lemmas.C08DPath
import AL.Props.C08Rules
/-
  The rules on an AST and on its normal form (names folded): the same sites, the same codes. One lemma per rule of
  `AL.Rules.rules`; the folds of the names a rule reads AS WRITTEN must keep what it reads (`IdFold` for ids, the identity for
  the names of environment variables).
-/
namespace AL.C08D
open AL AL.Ast AL.Rules AL.C08R

variable (F : Folds)

theorem jobsOf_nWf (w : Workflow) : jobsOf (nWf F w) = (jobsOf w).map (nJob F) := by
  simp only [jobsOf, nWf]
  cases w.jobs with
  | none => rfl
  | some js => simp [nAssoc, List.map_map, Function.comp_def]

theorem stepsOf_nJob (j : Job) : stepsOf (nJob F j) = (stepsOf j).map (nStep F) := by
  simp only [stepsOf, nJob]
  cases j.steps <;> rfl

theorem flatMap_norm {α : Type} (N : α → α) (g : α → List Diag) (h : ∀ a, (g (N a)).map sig = (g a).map sig) (l : List α) :
    ((l.map N).flatMap g).map sig = (l.flatMap g).map sig := by
  induction l with
  | nil => rfl
  | cons a rest ih => simp only [List.map_cons, List.flatMap_cons, List.map_append, h, ih]

theorem flatMap_norm_eq {α β : Type} (N : α → α) (g : α → List β) (h : ∀ a, g (N a) = g a) (l : List α) :
    (l.map N).flatMap g = l.flatMap g := by
  induction l with
  | nil => rfl
  | cons a rest ih => simp only [List.map_cons, List.flatMap_cons, h, ih]

/-! ### rule_matrix.go -/

theorem matrixCombos_n (f : String → String) (c : Option MatrixCombinations) : Rules.matrixCombos (c.map (nCombos f)) = Rules.matrixCombos c := by
  cases c with
  | none => rfl
  | some cs =>
    obtain ⟨combs, e⟩ := cs
    simp only [Rules.matrixCombos, Option.map_some, nCombos]
    cases combs with
    | none => rfl
    | some l =>
      simp only [Option.map_some, Option.getD_some, List.map_map]
      congr 2
      · congr 1
        apply List.map_congr_left
        intro x _
        obtain ⟨as, ex⟩ := x
        simp only [Function.comp, nCombo]
        congr 2
        cases as with
        | none => rfl
        | some al => simp [nAssoc, nAssign, nStr, List.map_map, Function.comp_def]

theorem matrixOf_n (f : String → String) (m : Matrix) : matrixOf (nMatrix f m) = matrixOf m := by
  obtain ⟨rows, incl, excl, e, p⟩ := m
  simp only [matrixOf, nMatrix, matrixCombos_n]
  congr 1
  cases rows with
  | none => rfl
  | some l => simp [nAssoc, nRow, List.map_map, Function.comp_def]

theorem matrixJob_n (j : Job) : matrixJob (nJob F j) = matrixJob j := by
  simp only [matrixJob, nJob]
  cases j.strategy with
  | none => rfl
  | some s =>
    simp only [Option.map_some, nStrategy]
    cases s.matrix with
    | none => rfl
    | some m =>
      simp only [Option.map_some, matrixOf_n]
      rfl

theorem ruleMatrix_n (w : Workflow) : ruleMatrix (nWf F w) = ruleMatrix w := by
  simp only [ruleMatrix, jobsOf_nWf]
  exact flatMap_norm_eq _ _ (matrixJob_n F) _

/-! ### rule_credentials.go -/

theorem checkCredContainer_n (k a a' : String) (c : Container) :
    (checkCredContainer k a (nContainer F c)).map sig = (checkCredContainer k a' c).map sig := by
  simp only [checkCredContainer, nContainer]
  cases c.credentials with
  | none => rfl
  | some cr =>
    simp only
    cases cr.password with
    | none => rfl
    | some p =>
      simp only
      split <;> rfl

theorem credentialsJob_n (j : Job) : (credentialsJob (nJob F j)).map sig = (credentialsJob j).map sig := by
  simp only [credentialsJob, nJob, List.map_append]
  congr 1
  · cases j.container with
    | none => rfl
    | some c => exact checkCredContainer_n F _ _ _ c
  · cases j.services with
    | none => rfl
    | some s =>
      simp only [Option.map_some, nServices]
      cases s.value with
      | none => rfl
      | some l =>
        simp only [Option.map_some, Option.getD_some, nAssoc, List.flatMap_map, List.map_flatMap]
        apply flatMap_congr'
        intro kv _
        exact checkCredContainer_n F _ _ _ _

theorem ruleCredentials_n (w : Workflow) : (ruleCredentials (nWf F w)).map sig = (ruleCredentials w).map sig := by
  simp only [ruleCredentials, jobsOf_nWf]
  exact flatMap_norm _ _ (credentialsJob_n F) _

/-! ### rule_shell_name.go -/

theorem shellNameJob_n (lower : String → String) (j : Job) : shellNameJob lower (nJob F j) = shellNameJob lower j := by
  simp only [shellNameJob, stepsOf_nJob]
  congr 1
  rw [List.flatMap_map]
  apply flatMap_congr'
  intro st _
  simp only [nStep]
  cases st.exec <;> rfl

theorem ruleShellName_n (lower : String → String) (w : Workflow) : ruleShellName lower (nWf F w) = ruleShellName lower w := by
  simp only [ruleShellName, jobsOf_nWf]
  congr 1
  exact flatMap_norm_eq _ _ (shellNameJob_n F lower) _

/-! ### rule_events.go -/

theorem map_sig_ite (c : Prop) [Decidable c] (a b a' b' : List Diag) (ha : a.map sig = a'.map sig) (hb : b.map sig = b'.map sig) :
    (if c then a else b).map sig = (if c then a' else b').map sig := by
  by_cases h : c
  · rw [if_pos h, if_pos h]; exact ha
  · rw [if_neg h, if_neg h]; exact hb

theorem checkDispatchEvent_n (f : String → String) (lower : String → String) (isNum : String → Bool) (ins : List (String × DispatchInput)) (pos : Rules.Pos) :
    (checkDispatchEvent lower isNum (nAssoc (nDispatchInput f) ins) pos).map sig = (checkDispatchEvent lower isNum ins pos).map sig := by
  simp only [checkDispatchEvent, List.map_append, nAssoc, List.length_map, List.flatMap_map, List.map_flatMap]
  congr 1
  apply flatMap_congr'
  intro kv _
  obtain ⟨n, ⟨name, desc, req, dflt, ty, opts⟩⟩ := kv
  simp only [nDispatchInput, nStr]
  cases ty <;> cases dflt <;> simp only [reduceCtorEq, if_false, if_true, List.map_append] <;> (try rfl)
  congr 1
  apply map_sig_ite <;> rfl

theorem checkCallEvent_n (f : String → String) (lower : String → String) (isNum : String → Bool) (ins : List CallInput) :
    (checkCallEvent lower isNum (ins.map (nCallInput f))).map sig = (checkCallEvent lower isNum ins).map sig := by
  simp only [checkCallEvent, List.flatMap_map, List.map_flatMap]
  apply flatMap_congr'
  intro i _
  obtain ⟨name, desc, dflt, req, ty, id⟩ := i
  simp only [nCallInput, nStr]
  cases dflt with
  | none => rfl
  | some d =>
    simp only [List.map_append]
    congr 1
    · apply map_sig_ite
      · cases ty <;> simp only <;> (try rfl) <;> (apply map_sig_ite <;> rfl)
      · rfl
    · apply map_sig_ite <;> rfl

theorem ruleEvents_n (lower : String → String) (isNum : String → Bool) (lc : LabelCfg) (w : Workflow) :
    (ruleEvents lower isNum (nWf F w) lc).map sig = (ruleEvents lower isNum w lc).map sig := by
  simp only [ruleEvents, nWf]
  cases w.on with
  | none => rfl
  | some es =>
    simp only [Option.map_some, Option.getD_some, List.flatMap_map, List.map_flatMap]
    apply flatMap_congr'
    intro e _
    cases e with
    | webhook h => rfl
    | schedule c p => rfl
    | repoDispatch t p => rfl
    | dispatch ins p =>
      simp only [nEvent]
      cases ins with
      | none => rfl
      | some l => exact checkDispatchEvent_n _ lower isNum l p
    | call ins secs outs p =>
      simp only [nEvent]
      cases ins with
      | none => rfl
      | some l => exact checkCallEvent_n _ lower isNum l

/-! ### rule_action.go -/

theorem withKeys_nAct (e : ExecAction) : withKeys (nAct F e) = withKeys e := by
  simp only [withKeys, nAct]
  cases e.inputs with
  | none => rfl
  | some l => simp [nAssoc, nInput, nStr, List.map_map, Function.comp_def]

theorem actionStep_n (urlOk : String → Bool) (st : Step) : (actionStep urlOk (nStep F st)).map sig = (actionStep urlOk st).map sig := by
  simp only [actionStep, nStep]
  cases st.exec with
  | none => rfl
  | run e => rfl
  | action e =>
    simp only [nExec]
    have hu : (nAct F e).uses = e.uses := rfl
    rw [hu]
    cases e.uses with
    | none => rfl
    | some u =>
      simp only
      split
      · rfl
      · split
        · rfl
        · split
          · rfl
          · exact checkRepoAction_recase _ _ _ _ (withKeys_nAct F e)

theorem ruleAction_n (urlOk : String → Bool) (w : Workflow) : (ruleAction urlOk (nWf F w)).map sig = (ruleAction urlOk w).map sig := by
  simp only [ruleAction, jobsOf_nWf]
  apply flatMap_norm
  intro j
  simp only [stepsOf_nJob]
  exact flatMap_norm _ _ (actionStep_n F urlOk) _

/-! ### rule_env_var.go: the names of environment variables are read as written -/

theorem option_map_nEnv_id (o : Option Env) : o.map (nEnv id) = o := option_map_id' _ nEnv_id o

theorem nContainer_env_id (hE : F.env = id) (c : Container) : nContainer F c = c := by
  simp only [nContainer, hE, option_map_nEnv_id]

theorem envVarJob_n (hE : F.env = id) (j : Job) : envVarJob (nJob F j) = envVarJob j := by
  simp only [envVarJob, stepsOf_nJob]
  simp only [nJob, hE, option_map_nEnv_id]
  congr 1
  · congr 1
    · congr 1
      cases j.container with
      | none => rfl
      | some c => simp only [Option.map_some, nContainer_env_id F hE]
    · cases j.services with
      | none => rfl
      | some s =>
        simp only [Option.map_some, nServices]
        cases s.value with
        | none => rfl
        | some l =>
          simp only [Option.map_some, Option.getD_some, nAssoc, List.flatMap_map]
          apply flatMap_congr'
          intro kv _
          simp only [nService, nContainer_env_id F hE]
  · apply flatMap_norm_eq
    intro st
    simp only [nStep, hE, option_map_nEnv_id]

theorem ruleEnvVar_n (hE : F.env = id) (w : Workflow) : ruleEnvVar (nWf F w) = ruleEnvVar w := by
  simp only [ruleEnvVar, jobsOf_nWf]
  congr 1
  · simp only [nWf, hE, option_map_nEnv_id]
  · exact flatMap_norm_eq _ _ (envVarJob_n F hE) _

/-! ### rule_glob.go, rule_permissions.go, rule_workflow_call.go, rule_deprecated_commands.go, rule_if_cond.go -/

theorem ruleGlob_n (w : Workflow) : ruleGlob (nWf F w) = ruleGlob w := by
  simp only [ruleGlob, nWf]
  cases w.on with
  | none => rfl
  | some es =>
    simp only [Option.map_some, Option.getD_some, List.flatMap_map]
    apply flatMap_congr'
    intro e _
    cases e <;> rfl

theorem rulePermissions_n (w : Workflow) : rulePermissions (nWf F w) = rulePermissions w := by
  simp only [rulePermissions, jobsOf_nWf]
  congr 1
  exact flatMap_norm_eq (nJob F) _ (fun j => rfl) _

theorem ruleWorkflowCall_n (w : Workflow) : ruleWorkflowCall (nWf F w) = ruleWorkflowCall w := by
  simp only [ruleWorkflowCall, jobsOf_nWf]
  apply flatMap_norm_eq
  intro j
  simp only [workflowCallJob, nJob]
  cases j.workflowCall <;> rfl

theorem ruleDeprecatedCommands_n (w : Workflow) : ruleDeprecatedCommands (nWf F w) = ruleDeprecatedCommands w := by
  simp only [ruleDeprecatedCommands, jobsOf_nWf]
  apply flatMap_norm_eq
  intro j
  simp only [stepsOf_nJob]
  apply flatMap_norm_eq
  intro st
  simp only [nStep]
  cases st.exec <;> rfl

theorem ruleIfCond_n (w : Workflow) : ruleIfCond (nWf F w) = ruleIfCond w := by
  simp only [ruleIfCond, jobsOf_nWf]
  apply flatMap_norm_eq
  intro j
  simp only [stepsOf_nJob]
  congr 1
  exact flatMap_norm_eq (nStep F) _ (fun st => rfl) _

/-! ### rule_runner_label.go -/

theorem find_nAssoc {β β' : Type} (N : β → β') (k : String) : ∀ (l : List (String × β)),
    (nAssoc N l).find? (·.1 = k) = (l.find? (·.1 = k)).map fun p => (p.1, N p.2)
  | [] => rfl
  | p :: rest => by
    simp only [nAssoc_cons, List.find?_cons]
    by_cases h : p.1 = k
    · simp [h]
    · simp [h, find_nAssoc N k rest]

theorem labelsInMatrix_n (f lower : String → String) (l : Str) (m : Option Matrix) :
    labelsInMatrix lower l (m.map (nMatrix f)) = labelsInMatrix lower l m := by
  cases m with
  | none => rfl
  | some m =>
    obtain ⟨rows, incl, excl, e, p⟩ := m
    simp only [Option.map_some, labelsInMatrix, nMatrix]
    split
    · rfl
    · split
      · rfl
      · split
        · rename_i prop _
          congr 1
          · cases rows with
            | none => rfl
            | some rs =>
              simp only [Option.map_some, find_nAssoc]
              cases rs.find? (·.1 = prop) with
              | none => rfl
              | some x => rfl
          · cases incl with
            | none => rfl
            | some inc =>
              obtain ⟨cs, ie⟩ := inc
              simp only [Option.map_some, nCombos]
              cases cs with
              | none => rfl
              | some cl =>
                simp only [Option.map_some, Option.getD_some, List.filterMap_map]
                congr 1
                funext c
                obtain ⟨as, ce⟩ := c
                simp only [Function.comp, nCombo]
                cases as with
                | none => rfl
                | some al =>
                  simp only [Option.map_some, find_nAssoc]
                  cases al.find? (·.1 = prop) with
                  | none => rfl
                  | some x => rfl
        · rfl

theorem checkLabelAndConflict_n (f lower : String → String) (lc : LabelCfg) (m : Option Matrix) (acc : Compats × List Diag) (l : Str) :
    checkLabelAndConflict lc lower (m.map (nMatrix f)) acc l = checkLabelAndConflict lc lower m acc l := by
  simp only [checkLabelAndConflict, labelsInMatrix_n]

theorem runnerLabelJob_n (lower : String → String) (lc : LabelCfg) (j : Job) : runnerLabelJob lower (nJob F j) lc = runnerLabelJob lower j lc := by
  simp only [runnerLabelJob, nJob]
  cases j.strategy with
  | none => rfl
  | some s =>
    simp only [Option.map_some, nStrategy]
    have : checkLabelAndConflict lc lower (Option.map (nMatrix F.matrix) s.matrix) = checkLabelAndConflict lc lower s.matrix := by
      funext acc l
      exact checkLabelAndConflict_n _ _ _ _ _ _
    simp only [labelsInMatrix_n, this]

theorem ruleRunnerLabel_n (lower : String → String) (lc : LabelCfg) (w : Workflow) :
    ruleRunnerLabel lower (nWf F w) lc = ruleRunnerLabel lower w lc := by
  simp only [ruleRunnerLabel, jobsOf_nWf]
  exact flatMap_norm_eq (nJob F) _ (fun j => runnerLabelJob_n F lower lc j) _

/-! ### rule_id.go: ids are read as written by the naming convention -/

/-- a fold of ids that keeps what the rules read of an id as written -/
structure IdFold (lower f : String → String) : Prop where
  lower : ∀ a, lower (f a) = lower a
  empty : ∀ a, f a = "" ↔ a = ""
  expr : ∀ a, AL.Matrix.containsExpr (f a) = AL.Matrix.containsExpr a
  pattern : ∀ a, matchesIdPattern (f a) = matchesIdPattern a

theorem IdFold.id (lower : String → String) : IdFold lower id := ⟨fun _ => rfl, fun _ => Iff.rfl, fun _ => rfl, fun _ => rfl⟩

theorem validateConvention_n {lower f : String → String} (hf : IdFold lower f) (s : Str) (what : String) :
    (validateConvention (some (nStr f s)) what).map sig = (validateConvention (some s) what).map sig := by
  have h1 : (f s.value = "") = (s.value = "") := propext (hf.empty _)
  simp only [validateConvention, nStr, containsExpr, hf.expr, hf.pattern, h1]
  apply map_sig_ite <;> rfl

theorem idSteps_n {lower : String → String} (hf : IdFold lower F.stepId) : ∀ (steps : List Step) (seen : List (String × Rules.Pos)),
    (idSteps lower (steps.map (nStep F)) seen).map sig = (idSteps lower steps seen).map sig
  | [], _ => rfl
  | st :: rest, seen => by
    simp only [List.map_cons]
    rw [idSteps, idSteps]
    have hid : (nStep F st).id = st.id.map (nStr F.stepId) := rfl
    rw [hid]
    cases st.id with
    | none => exact idSteps_n hf rest seen
    | some s =>
      simp only [Option.map_some]
      have hl : lower (nStr F.stepId s).value = lower s.value := hf.lower s.value
      have hp : (nStr F.stepId s).pos = s.pos := rfl
      rw [hl, hp]
      cases lookupSeen (lower s.value) seen with
      | some prev =>
        simp only [List.map_append, validateConvention_n hf, idSteps_n hf rest seen]
        rfl
      | none =>
        simp only [List.map_append, validateConvention_n hf, idSteps_n hf rest _]

theorem idJob_n {lower : String → String} (hs : IdFold lower F.stepId) (hj : IdFold lower F.jobId) (j : Job) :
    (idJob lower (nJob F j)).map sig = (idJob lower j).map sig := by
  simp only [idJob, stepsOf_nJob, List.map_append, idSteps_n F hs]
  congr 1
  congr 1
  · exact validateConvention_n hj j.id "job"
  · have : (nJob F j).needs = j.needs.map (List.map (nStr F.jobId)) := rfl
    rw [this]
    cases j.needs with
    | none => rfl
    | some l =>
      simp only [Option.map_some, Option.getD_some, List.flatMap_map, List.map_flatMap]
      apply flatMap_congr'
      intro n _
      exact validateConvention_n hj n "job"

theorem ruleId_n {lower : String → String} (hs : IdFold lower F.stepId) (hj : IdFold lower F.jobId) (w : Workflow) :
    (ruleId lower (nWf F w)).map sig = (ruleId lower w).map sig := by
  simp only [ruleId, jobsOf_nWf]
  exact flatMap_norm _ _ (idJob_n F hs hj) _

/-! ### rule_job_needs.go -/

def nRef (f : String → String) (r : AL.Needs.NeedRef) : AL.Needs.NeedRef := ⟨f r.value, r.pos⟩
def nJobIn (f : String → String) (j : AL.Needs.JobIn) : AL.Needs.JobIn := { j with idValue := f j.idValue, needs := j.needs.map (nRef f) }

/-- site and code of a diagnostic of the `needs` check -/
def dsig (d : AL.Needs.Diag) : Rules.Pos × String := sig (needsDiag d)

theorem needsJobIn_n (F : Folds) (j : Job) : needsJobIn (nJob F j) = nJobIn F.jobId (needsJobIn j) := by
  simp only [needsJobIn, nJobIn, nJob]
  cases j.needs with
  | none => rfl
  | some l => simp [nRef, nStr, List.map_map, Function.comp_def]

theorem normNeeds_n {lower f : String → String} (hl : ∀ a, lower (f a) = lower a) : ∀ (l : List AL.Needs.NeedRef) (acc : List String),
    (AL.Needs.normNeeds lower (l.map (nRef f)) acc).1 = (AL.Needs.normNeeds lower l acc).1 ∧
    (AL.Needs.normNeeds lower (l.map (nRef f)) acc).2.map dsig = (AL.Needs.normNeeds lower l acc).2.map dsig
  | [], _ => ⟨rfl, rfl⟩
  | j :: rest, acc => by
    simp only [List.map_cons, AL.Needs.normNeeds, nRef, hl]
    split
    · obtain ⟨i1, i2⟩ := normNeeds_n hl rest acc
      exact ⟨i1, by simp only [List.map_cons, i2]; rfl⟩
    · split
      · exact normNeeds_n hl rest _
      · exact normNeeds_n hl rest _

theorem visitJobs_n {lower f : String → String} (hl : ∀ a, lower (f a) = lower a) : ∀ (jobs : List AL.Needs.JobIn) (nodes : List AL.Needs.RawNode),
    (AL.Needs.visitJobs lower (jobs.map (nJobIn f)) nodes).1 = (AL.Needs.visitJobs lower jobs nodes).1 ∧
    (AL.Needs.visitJobs lower (jobs.map (nJobIn f)) nodes).2.map dsig = (AL.Needs.visitJobs lower jobs nodes).2.map dsig
  | [], _ => ⟨rfl, rfl⟩
  | j :: rest, nodes => by
    obtain ⟨n1, n2⟩ := normNeeds_n hl j.needs []
    simp only [List.map_cons, AL.Needs.visitJobs, nJobIn, hl, n1]
    split
    · obtain ⟨i1, i2⟩ := visitJobs_n hl rest nodes
      exact ⟨i1, by simp only [List.map_append, n2, i2]⟩
    · obtain ⟨i1, i2⟩ := visitJobs_n hl rest
        (if nodes.any (·.id = lower j.idValue) then nodes.map (fun n => if n.id = lower j.idValue then
          ({ id := lower j.idValue, pos := j.idPos, needs := (AL.Needs.normNeeds lower j.needs []).1 } : AL.Needs.RawNode) else n)
         else nodes ++ [{ id := lower j.idValue, pos := j.idPos, needs := (AL.Needs.normNeeds lower j.needs []).1 }])
      refine ⟨i1, ?_⟩
      simp only [List.map_append, n2, i2]
      congr 2
      cases nodes.find? (·.id = lower j.idValue) <;> rfl

theorem needsCheck_n {lower f : String → String} (hl : ∀ a, lower (f a) = lower a) (jobs : List AL.Needs.JobIn) (order : List Nat) :
    (AL.Needs.check lower (jobs.map (nJobIn f)) order).map dsig = (AL.Needs.check lower jobs order).map dsig := by
  obtain ⟨v1, v2⟩ := visitJobs_n hl jobs []
  simp only [AL.Needs.check, v1]
  split
  · simp only [List.map_append, v2]
  · split <;> simp only [List.map_append, v2]

theorem ruleJobNeeds_n (F : Folds) {lower : String → String} (hl : ∀ a, lower (F.jobId a) = lower a) (w : Workflow) :
    (ruleJobNeeds lower (nWf F w)).map sig = (ruleJobNeeds lower w).map sig := by
  simp only [ruleJobNeeds, jobsOf_nWf, List.map_map, List.length_map]
  have : (needsJobIn ∘ nJob F) = (nJobIn F.jobId ∘ needsJobIn) := by
    funext j; exact needsJobIn_n F j
  rw [this, ← List.map_map]
  have := needsCheck_n hl ((jobsOf w).map needsJobIn) (List.range (jobsOf w).length)
  simp only [List.map_map] at this ⊢
  exact this

/-! ### all the rules -/

/-- **the rules on the normal form**: the same sites and codes as on the AST itself -/
theorem rules_n {lower : String → String} (isNum urlOk : String → Bool) (lc : LabelCfg) (hE : F.env = id)
    (hs : IdFold lower F.stepId) (hj : IdFold lower F.jobId) (w : Workflow) :
    (rules lower isNum urlOk (nWf F w) lc).map sig = (rules lower isNum urlOk w lc).map sig := by
  simp only [rules, List.map_append, ruleMatrix_n, ruleCredentials_n, ruleShellName_n, ruleRunnerLabel_n, ruleEvents_n,
    ruleJobNeeds_n F hj.lower, ruleAction_n, ruleEnvVar_n F hE, ruleId_n F hs hj, ruleGlob_n, rulePermissions_n, ruleWorkflowCall_n,
    ruleDeprecatedCommands_n, ruleIfCond_n]

/-- **two ASTs with the same normal form** get the same sites and codes from the rules -/
theorem rules_recase {lower : String → String} (isNum urlOk : String → Bool) (lc : LabelCfg) (hE : F.env = id)
    (hs : IdFold lower F.stepId) (hj : IdFold lower F.jobId) (w w' : Workflow) (h : nWf F w = nWf F w') :
    (rules lower isNum urlOk w lc).map sig = (rules lower isNum urlOk w' lc).map sig := by
  rw [← rules_n F isNum urlOk lc hE hs hj w, ← rules_n F isNum urlOk lc hE hs hj w', h]

end AL.C08D
