import AL.Model.Calls
/-
  C14 lemmas: `sortS` is a canonical sort (sorted permutation, equal on permutations), lookup by id in a
  declaration list with distinct ids, and the exact content of the "missing required …" report list.
-/
namespace AL.Calls

/-! ### `insertS` / `sortS` -/

theorem insertS_perm (s : String) (l : List String) : (insertS s l).Perm (s :: l) := by
  induction l with
  | nil => simp [insertS]
  | cons x xs ih =>
    simp only [insertS]
    split
    · exact List.Perm.refl _
    · exact (List.Perm.cons x ih).trans (List.Perm.swap s x xs)

theorem mem_insertS {s z : String} {l : List String} : z ∈ insertS s l ↔ z = s ∨ z ∈ l := by
  rw [(insertS_perm s l).mem_iff]; simp

theorem insertS_sorted {s : String} {l : List String} (h : l.Pairwise (· ≤ ·)) :
    (insertS s l).Pairwise (· ≤ ·) := by
  induction l with
  | nil => simp [insertS]
  | cons x xs ih =>
    simp only [insertS]
    rw [List.pairwise_cons] at h
    split
    next hsx =>
      refine List.pairwise_cons.2 ⟨?_, List.pairwise_cons.2 h⟩
      intro z hz
      rcases List.mem_cons.1 hz with rfl | hz
      · exact hsx
      · exact String.le_trans hsx (h.1 z hz)
    next hsx =>
      refine List.pairwise_cons.2 ⟨?_, ih h.2⟩
      intro z hz
      rcases mem_insertS.1 hz with rfl | hz
      · rcases String.le_total x z with h' | h'
        · exact h'
        · exact absurd h' hsx
      · exact h.1 z hz

theorem foldl_insertS_perm (acc l : List String) :
    (l.foldl (fun acc s => insertS s acc) acc).Perm (acc ++ l) := by
  induction l generalizing acc with
  | nil => simp
  | cons x xs ih =>
    simp only [List.foldl_cons]
    refine (ih _).trans ?_
    refine ((insertS_perm x acc).append_right xs).trans ?_
    simpa using List.perm_middle.symm

theorem foldl_insertS_sorted {acc : List String} (l : List String) (h : acc.Pairwise (· ≤ ·)) :
    (l.foldl (fun acc s => insertS s acc) acc).Pairwise (· ≤ ·) := by
  induction l generalizing acc with
  | nil => simpa
  | cons x xs ih => exact ih (insertS_sorted h)

/-- `sortS` permutes -/
theorem sortS_perm (l : List String) : (sortS l).Perm l := by
  simpa [sortS] using foldl_insertS_perm [] l

/-- `sortS` sorts -/
theorem sortS_sorted (l : List String) : (sortS l).Pairwise (· ≤ ·) :=
  foldl_insertS_sorted l List.Pairwise.nil

theorem mem_sortS {s : String} {l : List String} : s ∈ sortS l ↔ s ∈ l := (sortS_perm l).mem_iff

theorem sortS_nodup {l : List String} (h : l.Nodup) : (sortS l).Nodup := (sortS_perm l).symm.nodup h

/-- `sortS` is canonical: it does not depend on the order of its input (`≤` on strings is a total order,
so a sorted permutation is unique — no distinctness needed) -/
theorem sortS_eq_of_perm {l₁ l₂ : List String} (h : l₁.Perm l₂) : sortS l₁ = sortS l₂ :=
  List.Perm.eq_of_pairwise (le := (· ≤ ·)) (fun _ _ _ _ h1 h2 => String.le_antisymm h1 h2)
    (sortS_sorted l₁) (sortS_sorted l₂) (((sortS_perm l₁).trans h).trans (sortS_perm l₂).symm)

/-! ### lookup by id -/

/-- an injective-on-the-list projection: equal images of two members means equal members -/
theorem eq_of_nodup_map {α β : Type} (f : α → β) {l : List α} (h : (l.map f).Nodup) {a b : α}
    (ha : a ∈ l) (hb : b ∈ l) (hab : f a = f b) : a = b := by
  induction l with
  | nil => cases ha
  | cons x xs ih =>
    rw [List.map_cons, List.nodup_cons] at h
    rcases List.mem_cons.1 ha with ha' | ha' <;> rcases List.mem_cons.1 hb with hb' | hb'
    · rw [ha', hb']
    · subst ha'; exact absurd (hab ▸ List.mem_map_of_mem hb') h.1
    · subst hb'; exact absurd (hab ▸ List.mem_map_of_mem ha') h.1
    · exact ih h.2 ha' hb'

theorem find_id_some {decls : List Decl} {k : String} {d : Decl}
    (h : decls.find? (·.id = k) = some d) : d ∈ decls ∧ d.id = k :=
  ⟨List.mem_of_find?_eq_some h, by simpa using List.find?_some h⟩

/-- with distinct ids, looking up the id of a member finds that member -/
theorem find_id_of_mem {decls : List Decl} (hd : (decls.map (·.id)).Nodup) {d : Decl} (h : d ∈ decls) :
    decls.find? (·.id = d.id) = some d := by
  cases hf : decls.find? (·.id = d.id) with
  | none =>
    have := List.find?_eq_none.1 hf d h
    simp at this
  | some d' =>
    obtain ⟨hm, hid⟩ := find_id_some hf
    rw [eq_of_nodup_map (·.id) hd hm h hid]

/-- the lookup is the same in any two orderings of a declaration list with distinct ids -/
theorem find_id_perm {d₁ d₂ : List Decl} (hd : (d₁.map (·.id)).Nodup) (hp : d₁.Perm d₂) (k : String) :
    d₁.find? (·.id = k) = d₂.find? (·.id = k) := by
  have hd₂ : (d₂.map (·.id)).Nodup := (hp.map (·.id)).nodup hd
  cases hf : d₁.find? (·.id = k) with
  | none =>
    symm
    rw [List.find?_eq_none] at hf ⊢
    intro x hx
    exact hf x (hp.mem_iff.2 hx)
  | some d =>
    obtain ⟨hm, rfl⟩ := find_id_some hf
    exact (find_id_of_mem hd₂ (hp.mem_iff.1 hm)).symm

theorem any_id_perm {d₁ d₂ : List Decl} (hp : d₁.Perm d₂) (k : String) :
    d₁.any (·.id = k) = d₂.any (·.id = k) := by
  rw [Bool.eq_iff_iff, List.any_eq_true, List.any_eq_true]
  constructor
  · rintro ⟨x, hx, h⟩; exact ⟨x, hp.mem_iff.1 hx, h⟩
  · rintro ⟨x, hx, h⟩; exact ⟨x, hp.mem_iff.2 hx, h⟩

/-! ### the two report lists -/

/-- "missing required …" reports, parametrised by the diagnostic constructor -/
def missingOf (mk : String → Diag) (decls : List Decl) (supplied : List String) : List Diag :=
  (sortS (decls.map (·.id))).filterMap fun id =>
    match decls.find? (·.id = id) with
    | some d => if d.required && !supplied.contains id then some (mk d.name) else none
    | none => none

/-- "… is not defined" reports -/
def undefinedOf (mk : String → Diag) (decls : List Decl) (supplied : List String) : List Diag :=
  (supplied.filter fun s => !(decls.any (·.id = s))).map mk

theorem checkAction_eq (decls : List Decl) (supplied : List String) :
    checkAction decls supplied =
      undefinedOf .undefinedInput decls supplied ++ missingOf .missingInput decls supplied := rfl

theorem checkCall_eq (inputs secrets : List Decl) (w s : List String) (inherit : Bool) :
    checkCall inputs secrets w s inherit =
      missingOf .missingInput inputs w ++ undefinedOf .undefinedInput inputs w ++
      (if inherit then [] else missingOf .missingSecret secrets s ++ undefinedOf .undefinedSecret secrets s) := rfl

/-- every element of the "missing" list is `mk` of a declared, required, not supplied name -/
theorem mem_missingOf_elim {mk : String → Diag} {decls : List Decl} {supplied : List String} {x : Diag}
    (h : x ∈ missingOf mk decls supplied) :
    ∃ d ∈ decls, x = mk d.name ∧ d.required = true ∧ d.id ∉ supplied ∧
      decls.find? (·.id = d.id) = some d := by
  unfold missingOf at h
  obtain ⟨k, _, hk⟩ := List.mem_filterMap.1 h
  split at hk
  next d hf =>
    obtain ⟨hm, rfl⟩ := find_id_some hf
    split at hk
    next hc =>
      simp only [Bool.and_eq_true, Bool.not_eq_eq_eq_not, Bool.not_true, List.contains_eq_mem,
        decide_eq_false_iff_not] at hc
      exact ⟨d, hm, (Option.some.inj hk).symm, hc.1, hc.2, hf⟩
    next => cases hk
  next => cases hk

theorem mem_missingOf_intro {mk : String → Diag} {decls : List Decl} {supplied : List String}
    (hd : (decls.map (·.id)).Nodup) {d : Decl} (hm : d ∈ decls) (hr : d.required = true)
    (hs : d.id ∉ supplied) : mk d.name ∈ missingOf mk decls supplied := by
  unfold missingOf
  refine List.mem_filterMap.2 ⟨d.id, mem_sortS.2 (List.mem_map_of_mem hm), ?_⟩
  rw [find_id_of_mem hd hm]
  simp [hr, hs]

/-- exact content of the "missing" list (ids distinct, `mk` injective) -/
theorem mem_missingOf_iff {mk : String → Diag} (hmk : ∀ a b, mk a = mk b → a = b) {decls : List Decl}
    {supplied : List String} (hd : (decls.map (·.id)).Nodup) (n : String) :
    mk n ∈ missingOf mk decls supplied ↔ ∃ d ∈ decls, d.name = n ∧ d.required = true ∧ d.id ∉ supplied := by
  constructor
  · intro h
    obtain ⟨d, hm, he, hr, hs, _⟩ := mem_missingOf_elim h
    exact ⟨d, hm, (hmk _ _ he).symm, hr, hs⟩
  · rintro ⟨d, hm, rfl, hr, hs⟩
    exact mem_missingOf_intro hd hm hr hs

/-- exact content of the "undefined" list -/
theorem mem_undefinedOf_iff {mk : String → Diag} (hmk : ∀ a b, mk a = mk b → a = b) {decls : List Decl}
    {supplied : List String} (k : String) :
    mk k ∈ undefinedOf mk decls supplied ↔ (k ∈ supplied ∧ ∀ d ∈ decls, d.id ≠ k) := by
  unfold undefinedOf
  rw [List.mem_map]
  constructor
  · rintro ⟨a, ha, he⟩
    obtain rfl := hmk _ _ he
    rw [List.mem_filter] at ha
    refine ⟨ha.1, ?_⟩
    intro d hd hid
    have := ha.2
    simp only [Bool.not_eq_eq_eq_not, Bool.not_true, List.any_eq_false, decide_eq_true_eq] at this
    exact this d hd hid
  · rintro ⟨hk, hn⟩
    refine ⟨k, List.mem_filter.2 ⟨hk, ?_⟩, rfl⟩
    simp only [Bool.not_eq_eq_eq_not, Bool.not_true, List.any_eq_false, decide_eq_true_eq]
    exact hn

theorem mem_undefinedOf_elim {mk : String → Diag} {decls : List Decl} {supplied : List String} {x : Diag}
    (h : x ∈ undefinedOf mk decls supplied) : ∃ k, x = mk k := by
  unfold undefinedOf at h
  obtain ⟨a, _, rfl⟩ := List.mem_map.1 h
  exact ⟨a, rfl⟩

theorem undefinedOf_nodup {mk : String → Diag} (hmk : ∀ a b, mk a = mk b → a = b) {decls : List Decl}
    {supplied : List String} (hs : supplied.Nodup) : (undefinedOf mk decls supplied).Nodup := by
  unfold undefinedOf
  have : (supplied.filter fun s => !(decls.any (·.id = s))).Nodup := hs.sublist List.filter_sublist
  unfold List.Nodup at this ⊢
  rw [List.pairwise_map]
  exact this.imp (fun h he => h (hmk _ _ he))

theorem missingOf_nodup {mk : String → Diag} (hmk : ∀ a b, mk a = mk b → a = b) {decls : List Decl}
    {supplied : List String} (hd : (decls.map (·.id)).Nodup) (hn : (decls.map (·.name)).Nodup) :
    (missingOf mk decls supplied).Nodup := by
  have hsorted : (sortS (decls.map (·.id))).Nodup := sortS_nodup hd
  unfold missingOf
  unfold List.Nodup at hsorted ⊢
  refine List.Pairwise.filterMap _ ?_ hsorted
  intro a a' hne b hb b' hb' hbb
  subst hbb
  apply hne
  split at hb
  next d hf =>
    split at hb'
    next d' hf' =>
      obtain ⟨hm, rfl⟩ := find_id_some hf
      obtain ⟨hm', rfl⟩ := find_id_some hf'
      split at hb
      next =>
        split at hb'
        next =>
          have : d.name = d'.name := hmk _ _ ((Option.some.inj hb).trans (Option.some.inj hb').symm)
          rw [eq_of_nodup_map (·.name) hn hm hm' this]
        next => cases hb'
      next => cases hb
    next => cases hb'
  next => cases hb

/-- the "missing" list does not depend on the storage order of the declarations -/
theorem missingOf_perm {mk : String → Diag} {d₁ d₂ : List Decl} (supplied : List String)
    (hd : (d₁.map (·.id)).Nodup) (hp : d₁.Perm d₂) : missingOf mk d₁ supplied = missingOf mk d₂ supplied := by
  unfold missingOf
  rw [sortS_eq_of_perm (hp.map (·.id))]
  congr 1
  funext k
  rw [find_id_perm hd hp k]

theorem undefinedOf_perm {mk : String → Diag} {d₁ d₂ : List Decl} (supplied : List String)
    (hp : d₁.Perm d₂) : undefinedOf mk d₁ supplied = undefinedOf mk d₂ supplied := by
  unfold undefinedOf
  congr 1
  apply List.filter_congr
  intro k _
  rw [any_id_perm hp k]

end AL.Calls
