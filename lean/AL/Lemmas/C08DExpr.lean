import AL.Lemmas.C08DAscii
import AL.Props.C12Rule
/-
  The expression rule (`AL.RuleExpr.rule`) on an AST and on its normal form. The rule does not read the names of `with:`
  inputs, of the arguments of a call, of job outputs and of services at all; it reads a step id through `lower` — and, when the
  id holds a placeholder, as an expression (those ids are left out here: `StaticIds`).
-/
namespace AL.C08D
open AL AL.Ast AL.RuleExpr AL.Sema

/-- the folds the expression rule is shown to be blind to: every other kind of name is left alone -/
def EF (F : Folds) : Folds := { input := F.input, stepId := F.stepId, arg := F.arg, output := F.output, service := F.service }

theorem nWf_EF (F : Folds) (hE : F.env = id) (hJ : F.jobId = id) (hM : F.matrix = id) (hV : F.event = id) : EF F = F := by
  obtain ⟨a, b, c, d, e, f, g, h, i⟩ := F
  simp only at hE hJ hM hV
  subst hE; subst hJ; subst hM; subst hV
  rfl

variable (F : Folds)

theorem nContainer_EF (c : Container) : nContainer (EF F) c = c := nContainer_env_id (EF F) rfl c

theorem nStrategy_EF (s : Strategy) : nStrategy (EF F) s = s := by
  obtain ⟨m, ff, mp, p⟩ := s
  simp only [nStrategy, EF, option_map_id' _ nMatrix_id]

theorem nEvent_id (e : Event) : nEvent id e = e := by
  cases e with
  | webhook h => rfl
  | schedule c p => rfl
  | repoDispatch t p => rfl
  | dispatch ins p =>
    simp only [nEvent]
    congr 1
    exact option_map_id' _ (nAssoc_id' _ (fun x => rfl)) ins
  | call ins secs outs p =>
    simp only [nEvent]
    congr 1
    · exact option_map_id' _ (list_map_id' _ (fun x => rfl)) ins
    · exact option_map_id' _ (nAssoc_id' _ (fun x => rfl)) secs
    · exact option_map_id' _ (nAssoc_id' _ (fun x => rfl)) outs

theorem stepExec_n (cx : Cx) (e : Exec) : stepExec cx (nExec (EF F) e) = stepExec cx e := by
  cases e with
  | none => rfl
  | run e => rfl
  | action e =>
    simp only [nExec, stepExec, nAct]
    congr 2
    congr 1
    congr 1
    cases e.inputs with
    | none => rfl
    | some l =>
      simp only [Option.map_some, Option.getD_some, nAssoc, List.flatMap_map]
      rfl

theorem stepDiags_n (cx : Cx) (n : Step) : stepDiags cx (nStep (EF F) n) = stepDiags cx n := by
  simp only [stepDiags, nStep, stepExec_n]
  simp only [EF, option_map_nEnv_id]

/-- a step id that holds a placeholder is not re-spelled (it is also read as an expression) -/
def IdOk (f : String → String) (st : Step) : Prop :=
  ∀ id, st.id = some id → AL.Rules.containsExpr id = false ∨ f id.value = id.value

/-- every step id of the workflow is static, or kept as written by the fold -/
def IdsOk (f : String → String) (w : Workflow) : Prop :=
  ∀ j ∈ AL.Rules.jobsOf w, ∀ st ∈ AL.Rules.stepsOf j, IdOk f st

theorem IdsOk.id (w : Workflow) : IdsOk id w := fun _ _ _ _ _ _ => Or.inr rfl

theorem visitStep_n (cx : Cx) (hf : IdFold cx.lower F.stepId) (n : Step) (hs : IdOk F.stepId n) :
    visitStep cx (nStep (EF F) n) = visitStep cx n := by
  have hid : (nStep (EF F) n).id = n.id.map (nStr F.stepId) := rfl
  have hx : (nStep (EF F) n).exec = nExec (EF F) n.exec := rfl
  simp only [visitStep, hid, stepDiags_n, hx, stepExec_n]
  cases h : n.id with
  | none => rfl
  | some id =>
    rcases hs id h with hd | hk
    · have hd' : AL.Rules.containsExpr ⟨F.stepId id.value, id.quoted, id.pos⟩ = false := by
        simp only [AL.Rules.containsExpr, hf.expr] at hd ⊢
        exact hd
      simp only [Option.map_some, hd, hd', nStr, hf.lower]
      rfl
    · simp only [Option.map_some, nStr, hk]

theorem visitSteps_n : ∀ (steps : List Step) (cx : Cx), IdFold cx.lower F.stepId →
    (∀ st ∈ steps, IdOk F.stepId st) →
    visitSteps cx (steps.map (nStep (EF F))) = visitSteps cx steps
  | [], _, _, _ => rfl
  | s :: rest, cx, hf, hs => by
    simp only [List.map_cons, visitSteps, visitStep_n F cx hf s (hs s (by simp))]
    have hl : (visitStep cx s).1.lower = cx.lower := (AL.C08R.visitStep_proj cx s).2
    rw [visitSteps_n rest (visitStep cx s).1 (by rw [hl]; exact hf) (fun st hst => hs st (by simp [hst]))]

theorem lookupJob_nAssoc (N : Job → Job) (i : String) : ∀ (jobs : List (String × Job)),
    lookupJob i (nAssoc N jobs) = (lookupJob i jobs).map N
  | [] => rfl
  | (k, j) :: rest => by
    simp only [nAssoc_cons, lookupJob]
    split
    · rfl
    · exact lookupJob_nAssoc N i rest

theorem declaredOutputsTy_n (j : Job) : declaredOutputsTy (nJob (EF F) j) = declaredOutputsTy j := by
  simp only [declaredOutputsTy, nJob]
  cases j.outputs with
  | none => rfl
  | some l => simp only [Option.map_some, Option.getD_some, nAssoc, List.foldl_map]

theorem needsTy_n (outs : List (String × Ty)) (lower : String → String) (jobs : List (String × Job)) (n : Job) :
    needsTy outs lower (nAssoc (nJob (EF F)) jobs) (nJob (EF F) n) = needsTy outs lower jobs n := by
  have h1 : (nJob (EF F) n).needs = n.needs := by
    simp only [nJob, EF]
    exact option_map_id' _ (list_map_id' _ (fun x => rfl)) n.needs
  have h2 : (nJob (EF F) n).id = n.id := rfl
  simp only [needsTy, h1, h2, lookupJob_nAssoc]
  congr 1
  congr 1
  funext ps id
  split
  · rfl
  · split
    · rfl
    · cases lookupJob (lower id.value) jobs with
      | none => rfl
      | some j =>
        simp only [Option.map_some, declaredOutputsTy_n]
        have : (nJob (EF F) j).workflowCall.isNone = j.workflowCall.isNone := by
          simp only [nJob]; cases j.workflowCall <;> rfl
        rw [this]

theorem jobsTyOf_n (jobs : List (String × Job)) : jobsTyOf (nAssoc (nJob (EF F)) jobs) = jobsTyOf jobs := by
  simp only [jobsTyOf, nAssoc, List.foldl_map, declaredOutputsTy_n]
  congr 2
  funext ps kv
  have : (nJob (EF F) kv.2).workflowCall.isSome = kv.2.workflowCall.isSome := by
    simp only [nJob]; cases kv.2.workflowCall <;> rfl
  rw [this]

theorem checkWorkflowCall_n (cx : Cx) (c : Option WorkflowCall) : checkWorkflowCall cx (c.map (nCall (EF F))) = checkWorkflowCall cx c := by
  cases c with
  | none => rfl
  | some c =>
    simp only [Option.map_some, checkWorkflowCall, nCall]
    cases c.uses with
    | none => rfl
    | some u =>
      simp only
      congr 1
      · congr 1
        cases c.inputs with
        | none => rfl
        | some l =>
          simp only [Option.map_some, Option.getD_some, nAssoc, List.flatMap_map]
          rfl
      · cases c.secrets with
        | none => rfl
        | some l =>
          simp only [Option.map_some, Option.getD_some, nAssoc, List.flatMap_map]
          rfl

theorem servicesDiags_n (cx : Cx) (s : Option Services) : servicesDiags cx (s.map (nServices (EF F))) = servicesDiags cx s := by
  cases s with
  | none => rfl
  | some s =>
    simp only [Option.map_some, servicesDiags, nServices]
    congr 1
    cases s.value with
    | none => rfl
    | some l =>
      simp only [Option.map_some, Option.getD_some, nAssoc, List.flatMap_map, nService, nContainer_EF]

theorem jobPre_n (cx : Cx) (n : Job) : jobPre cx (nJob (EF F) n) = jobPre cx n := by
  have h1 : (nJob (EF F) n).needs = n.needs := by
    simp only [nJob, EF]
    exact option_map_id' _ (list_map_id' _ (fun x => rfl)) n.needs
  have h2 : (nJob (EF F) n).env = n.env := by simp only [nJob, EF, option_map_nEnv_id]
  have h3 : (nJob (EF F) n).strategy = n.strategy := by
    simp only [nJob]; exact option_map_id' _ (nStrategy_EF F) n.strategy
  have h4 : (nJob (EF F) n).container = n.container := by
    simp only [nJob]; exact option_map_id' _ (nContainer_EF F) n.container
  have h5 : (nJob (EF F) n).services = n.services.map (nServices (EF F)) := rfl
  have h6 : (nJob (EF F) n).workflowCall = n.workflowCall.map (nCall (EF F)) := rfl
  simp only [jobPre, h1, h2, h3, h4, h5, h6, servicesDiags_n, checkWorkflowCall_n]
  rfl

theorem jobPost_n (cx : Cx) (n : Job) : jobPost cx (nJob (EF F) n) = jobPost cx n := by
  simp only [jobPost, nJob]
  congr 1
  cases n.outputs with
  | none => rfl
  | some l => simp only [Option.map_some, Option.getD_some, nAssoc, List.flatMap_map]; rfl

theorem jobMatrix_n (cx : Cx) (isNum : IsNumber) (n : Job) : jobMatrix cx isNum (nJob (EF F) n) = jobMatrix cx isNum n := by
  have h3 : (nJob (EF F) n).strategy = n.strategy := by
    simp only [nJob]; exact option_map_id' _ (nStrategy_EF F) n.strategy
  simp only [jobMatrix, h3]

theorem visitJob_n (cx0 : Cx) (hf : IdFold cx0.lower F.stepId) (isNum : IsNumber) (jobs : List (String × Job)) (n : Job)
    (hs : ∀ st ∈ AL.Rules.stepsOf n, IdOk F.stepId st) :
    visitJob cx0 isNum (nAssoc (nJob (EF F)) jobs) (nJob (EF F) n) = visitJob cx0 isNum jobs n := by
  have h2 : (nJob (EF F) n).id = n.id := rfl
  have h7 : (nJob (EF F) n).steps = n.steps.map (List.map (nStep (EF F))) := rfl
  have hst : (Option.map (List.map (nStep (EF F))) n.steps).getD [] = (n.steps.getD []).map (nStep (EF F)) := by
    cases n.steps <;> rfl
  simp only [visitJob, h2, h7, hst, needsTy_n, jobMatrix_n, jobPre_n, jobPost_n]
  rw [visitSteps_n F (n.steps.getD []) _ (by
    cases (jobMatrix _ isNum n).1 <;> exact hf) hs]

/-- **the expression rule on the normal form** (names of `with:` inputs, of call arguments, of job outputs, of services; step ids that
hold no placeholder): literally the same diagnostics -/
theorem ruleExpr_n (lower : String → String) (hf : IdFold lower F.stepId) (isNum : IsNumber) (proj : ProjView) (w : Workflow)
    (hs : IdsOk F.stepId w) : rule lower isNum (nWf (EF F) w) proj = rule lower isNum w proj := by
  have hon : (nWf (EF F) w).on = w.on := by
    simp only [nWf, EF]
    exact option_map_id' _ (list_map_id' _ nEvent_id) w.on
  have henv : (nWf (EF F) w).env = w.env := by simp only [nWf, EF, option_map_nEnv_id]
  have hjobs : (nWf (EF F) w).jobs.getD [] = nAssoc (nJob (EF F)) (w.jobs.getD []) := by
    simp only [nWf]; cases w.jobs <;> rfl
  have hname : (nWf (EF F) w).name = w.name := rfl
  have hrn : (nWf (EF F) w).runName = w.runName := rfl
  have hd : (nWf (EF F) w).defaults = w.defaults := rfl
  have hc : (nWf (EF F) w).concurrency = w.concurrency := rfl
  simp only [rule, hon, henv, hjobs, hname, hrn, hd, hc, jobsTyOf_n]
  have hempty : (nAssoc (nJob (EF F)) (w.jobs.getD [])).isEmpty = (w.jobs.getD []).isEmpty := by
    cases w.jobs.getD [] <;> rfl
  rw [hempty]
  congr 2
  simp only [nAssoc, List.flatMap_map]
  apply AL.C08R.flatMap_congr'
  intro kv hkv
  have hl : (visitEvents { lower := lower, proj := proj } (w.on.getD [])).1.lower = lower :=
    AL.C12R.visitEvents_lower _ _
  exact visitJob_n F _ (by rw [hl]; exact hf) isNum _ kv.2 (hs kv.2 (by
    simp only [AL.Rules.jobsOf, List.mem_map]; exact ⟨kv, hkv, rfl⟩))

/-- whether each step id holds a placeholder, in order -/
def exprFlags (w : Workflow) : List Bool :=
  (AL.Rules.jobsOf w).flatMap fun j => (AL.Rules.stepsOf j).flatMap fun st =>
    match st.id with
    | some id => [AL.Rules.containsExpr id]
    | none => []

/-- no step id holds a placeholder -/
def StaticIds (w : Workflow) : Prop := ∀ b ∈ exprFlags w, b = false

theorem StaticIds.idsOk {w : Workflow} (h : StaticIds w) (f : String → String) : IdsOk f w := by
  intro j hj st hst id hid
  refine Or.inl (h _ ?_)
  simp only [exprFlags, List.mem_flatMap]
  exact ⟨j, hj, st, hst, by simp [hid]⟩

theorem exprFlags_n {lower : String → String} (G : Folds) (hf : IdFold lower G.stepId) (w : Workflow) : exprFlags (nWf G w) = exprFlags w := by
  simp only [exprFlags, jobsOf_nWf]
  apply flatMap_norm_eq
  intro j
  simp only [stepsOf_nJob]
  apply flatMap_norm_eq
  intro st
  have hid : (nStep G st).id = st.id.map (nStr G.stepId) := rfl
  rw [hid]
  cases st.id with
  | none => rfl
  | some id => simp only [Option.map_some, AL.Rules.containsExpr, nStr, hf.expr]

/-- two ASTs with the same normal form: the step ids of one are static iff those of the other are -/
theorem StaticIds.transfer {lower : String → String} (G : Folds) (hf : IdFold lower G.stepId) {w w' : Workflow} (h : nWf G w = nWf G w')
    (hs : StaticIds w) : StaticIds w' := by
  simp only [StaticIds] at hs ⊢
  rw [← exprFlags_n G hf w', ← h, exprFlags_n G hf w]
  exact hs

end AL.C08D
