import AL.Model.SrcPos
/-
  Lemmas about `AL.SrcPos`: `isBefore` is the lexicographic strict total order on (line, col); the selection
  fold computes the minimum; insertion sort yields a permutation sorted by the induced non-strict order, which is
  unique among permutations.
-/
namespace AL.SrcPos

theorem isBefore_iff (p q : P) :
    isBefore p q = true ↔ (p.line < q.line ∨ (p.line = q.line ∧ p.col < q.col)) := by
  unfold isBefore
  by_cases h1 : p.line < q.line
  · rw [if_pos h1]; exact ⟨fun _ => Or.inl h1, fun _ => rfl⟩
  · rw [if_neg h1]
    by_cases h2 : p.line > q.line
    · rw [if_pos h2]
      exact ⟨fun h => (by cases h), fun h => (by exfalso; omega)⟩
    · rw [if_neg h2, decide_eq_true_eq]
      exact ⟨fun h => Or.inr ⟨(by omega), h⟩, fun h => (by omega)⟩

theorem isBefore_false_iff (p q : P) :
    isBefore p q = false ↔ ¬ (p.line < q.line ∨ (p.line = q.line ∧ p.col < q.col)) := by
  rw [← isBefore_iff]; cases isBefore p q <;> simp

theorem P.ext_iff' (p q : P) : p = q ↔ p.line = q.line ∧ p.col = q.col := by
  cases p; cases q; simp

theorem isBefore_irrefl (p : P) : isBefore p p = false := by
  rw [isBefore_false_iff]; omega

theorem isBefore_asymm {p q : P} (h : isBefore p q = true) : isBefore q p = false := by
  rw [isBefore_iff] at h; rw [isBefore_false_iff]; omega

theorem isBefore_trans {p q r : P} (h₁ : isBefore p q = true) (h₂ : isBefore q r = true) :
    isBefore p r = true := by
  rw [isBefore_iff] at *; omega

theorem isBefore_total {p q : P} (h : p ≠ q) : isBefore p q = true ∨ isBefore q p = true := by
  rw [Ne, P.ext_iff'] at h
  rw [isBefore_iff, isBefore_iff]; omega

/-- from "not before" and distinctness, the converse holds -/
theorem isBefore_of_not {p q : P} (h : isBefore p q = false) (hne : p ≠ q) : isBefore q p = true := by
  rcases isBefore_total hne with h' | h'
  · rw [h] at h'; cases h'
  · exact h'

/-- the non-strict order `q` is not before `p` is antisymmetric -/
theorem le_antisymm {p q : P} (h₁ : isBefore q p = false) (h₂ : isBefore p q = false) : p = q := by
  rw [isBefore_false_iff] at h₁ h₂
  rw [P.ext_iff']; omega

theorem le_trans_lt {p q r : P} (h₁ : isBefore p q = true) (h₂ : isBefore r q = false) :
    isBefore r p = false := by
  rw [isBefore_iff] at h₁; rw [isBefore_false_iff] at *; omega

/-! ### selection -/

/-- the step of the selection loop -/
def step (found y : P) : P := if isBefore y found then y else found

theorem selectFirst_cons (x : P) (xs : List P) : selectFirst (x :: xs) = some (xs.foldl step x) := rfl

/-- `m` is a least element of `l`: a member that is before every other member -/
def IsMin (m : P) (l : List P) : Prop := m ∈ l ∧ ∀ y ∈ l, y = m ∨ isBefore m y = true

theorem foldl_step_isMin (xs : List P) : ∀ x : P, IsMin (xs.foldl step x) (x :: xs) := by
  induction xs with
  | nil => intro x; exact ⟨List.mem_cons_self, fun y hy => Or.inl (by simpa using hy)⟩
  | cons y ys ih =>
    intro x
    rw [List.foldl_cons]
    by_cases hyx : isBefore y x = true
    · have hs : step x y = y := by simp [step, hyx]
      rw [hs]
      obtain ⟨hm, hall⟩ := ih y
      refine ⟨List.mem_cons_of_mem _ hm, ?_⟩
      intro z hz
      rcases List.mem_cons.mp hz with rfl | hz
      · right
        rcases hall y List.mem_cons_self with h | h
        · rw [← h]; exact hyx
        · exact isBefore_trans h hyx
      · exact hall z hz
    · have hyx' : isBefore y x = false := by simpa using hyx
      have hs : step x y = x := by simp [step, hyx']
      rw [hs]
      obtain ⟨hm, hall⟩ := ih x
      refine ⟨?_, ?_⟩
      · rcases List.mem_cons.mp hm with h | h
        · rw [h]; exact List.mem_cons_self
        · exact List.mem_cons_of_mem _ (List.mem_cons_of_mem _ h)
      · intro z hz
        rcases List.mem_cons.mp hz with rfl | hz
        · exact hall z List.mem_cons_self
        · rcases List.mem_cons.mp hz with rfl | hz
          · -- z = y, not before x
            by_cases hzx : z = x
            · rw [hzx]; exact hall x List.mem_cons_self
            · have hxz : isBefore x z = true := isBefore_of_not hyx' hzx
              rcases hall x List.mem_cons_self with h | h
              · right; rw [← h]; exact hxz
              · right; exact isBefore_trans h hxz
          · exact hall z (List.mem_cons_of_mem _ hz)

theorem selectFirst_isMin {l : List P} {m : P} (h : selectFirst l = some m) : IsMin m l := by
  cases l with
  | nil => cases h
  | cons x xs =>
    rw [selectFirst_cons] at h
    cases h
    exact foldl_step_isMin xs x

theorem IsMin.unique {m m' : P} {l l' : List P} (hmem : ∀ x, x ∈ l ↔ x ∈ l')
    (h : IsMin m l) (h' : IsMin m' l') : m = m' := by
  rcases h'.2 m ((hmem m).mp h.1) with e | b
  · exact e
  · rcases h.2 m' ((hmem m').mpr h'.1) with e | b'
    · exact e.symm
    · rw [isBefore_asymm b] at b'; cases b'

theorem selectFirst_perm {l₁ l₂ : List P} (hp : l₁.Perm l₂) : selectFirst l₁ = selectFirst l₂ := by
  cases h₁ : selectFirst l₁ with
  | none =>
    cases l₁ with
    | nil => rw [hp.symm.eq_nil]; rfl
    | cons x xs => cases h₁
  | some m =>
    cases h₂ : selectFirst l₂ with
    | none =>
      cases l₂ with
      | nil => rw [hp.eq_nil] at h₁; cases h₁
      | cons x xs => cases h₂
    | some m' =>
      rw [IsMin.unique (fun x => hp.mem_iff) (selectFirst_isMin h₁) (selectFirst_isMin h₂)]

/-! ### sorting -/

/-- non-strict order induced by `isBefore` -/
def le (a b : P) : Prop := isBefore b a = false

theorem insert_perm (x : P) (l : List P) : (insert x l).Perm (x :: l) := by
  induction l with
  | nil => exact List.Perm.refl _
  | cons y ys ih =>
    unfold insert
    split
    · exact List.Perm.refl _
    · exact (List.Perm.cons y ih).trans (List.Perm.swap x y ys)

theorem sortByPos_perm (l : List P) : (sortByPos l).Perm l := by
  induction l with
  | nil => exact List.Perm.refl _
  | cons x xs ih =>
    show (insert x (sortByPos xs)).Perm (x :: xs)
    exact (insert_perm x _).trans (List.Perm.cons x ih)

theorem insert_sorted (x : P) (l : List P) (h : l.Pairwise le) : (insert x l).Pairwise le := by
  induction l with
  | nil => simp [insert]
  | cons y ys ih =>
    rw [List.pairwise_cons] at h
    unfold insert
    split
    · rename_i hxy
      rw [List.pairwise_cons]
      refine ⟨?_, List.pairwise_cons.mpr h⟩
      intro z hz
      rcases List.mem_cons.mp hz with rfl | hz
      · exact isBefore_asymm hxy
      · exact le_trans_lt hxy (h.1 z hz)
    · rename_i hxy
      have hxy' : isBefore x y = false := by simpa using hxy
      rw [List.pairwise_cons]
      refine ⟨?_, ih h.2⟩
      intro z hz
      rcases List.mem_cons.mp ((insert_perm x ys).mem_iff.mp hz) with rfl | hz
      · exact hxy'
      · exact h.1 z hz

theorem sortByPos_sorted (l : List P) : (sortByPos l).Pairwise le := by
  induction l with
  | nil => exact List.Pairwise.nil
  | cons x xs ih => exact insert_sorted x _ ih

theorem sortByPos_perm_eq {l₁ l₂ : List P} (hp : l₁.Perm l₂) : sortByPos l₁ = sortByPos l₂ :=
  List.Perm.eq_of_pairwise (le := le)
    (fun _ _ _ _ hab hba => le_antisymm hab hba)
    (sortByPos_sorted l₁) (sortByPos_sorted l₂)
    ((sortByPos_perm l₁).trans (hp.trans (sortByPos_perm l₂).symm))

/-- with distinct positions the sorted list is strictly increasing -/
theorem sortByPos_strict {l : List P} (hn : l.Nodup) :
    (sortByPos l).Pairwise (fun a b => isBefore a b = true) := by
  have hn' : (sortByPos l).Nodup := (sortByPos_perm l).nodup_iff.mpr hn
  have hs := sortByPos_sorted l
  have := hs.and hn'
  exact this.imp (fun ⟨hle, hne⟩ => isBefore_of_not hle (fun e => hne e.symm))

end AL.SrcPos
