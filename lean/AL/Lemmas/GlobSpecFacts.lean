import AL.Lemmas.GlobComplete
/-
  Facts about the declarative syntax itself: strict ⊆ loose; the strict syntax contains no line break
  (and, for refs, none of the characters Git forbids) anywhere.
-/
namespace AL.Glob
open AL AL.Spec

theorem member_loosen {isRef : Bool} {c : Sym} (h : Member true isRef c) : Member false isRef c :=
  ⟨h.1, by simp⟩

theorem classBody_loosen {isRef : Bool} {l : List Sym} {items : List Item} {rest : List Sym}
    (h : ClassBody true isRef l items rest) : ClassBody false isRef l items rest := by
  induction h with
  | close c rest hc => exact .close c rest hc
  | single c l items rest hm hh _ ih => exact .single c l items rest (member_loosen hm) hh ih
  | range lo d hi l items rest hm hd hm2 hle _ ih => exact .range lo d hi l items rest (member_loosen hm) hd (member_loosen hm2) hle ih

theorem elems_loosen {isRef p : Bool} {l : List Sym} (h : Elems true isRef p l) : Elems false isRef p l := by
  induction h with
  | nil p => exact .nil p
  | ord p c rest ho _ ih => exact .ord p c rest ho ih
  | bslash p c rest hr hc hl _ ih => exact .bslash p c rest hr hc hl ih
  | esc p b c rest hb he _ ih => exact .esc p b c rest hb he ih
  | star p c rest hc _ ih => exact .star p c rest hc ih
  | opt c rest hc _ ih => exact .opt c rest hc ih
  | cls p o l items rest ho hb hok _ ih => exact .cls p o l items rest ho (classBody_loosen hb) hok ih

theorem validGlob_loosen {isRef : Bool} {src : List Sym} (h : ValidGlob isRef src) : ValidGlobLoose isRef src :=
  ⟨h.1, h.2.1, elems_loosen h.2.2.1, h.2.2.2⟩

/-- A character that may appear anywhere in a strictly valid pattern. -/
def Plain (isRef : Bool) (c : Sym) : Prop := ¬ LineBreak c.r ∧ (isRef = true → ¬ RefInvalid c.r)

theorem plain_of_r {isRef : Bool} {c : Sym} {x : Nat} (h : c.r = x) (h1 : ¬ LineBreak x) (h2 : ¬ RefInvalid x) :
    Plain isRef c := by
  subst h; exact ⟨h1, fun _ => h2⟩

theorem classBody_plain {isRef : Bool} {l : List Sym} {items : List Item} {rest : List Sym}
    (h : ClassBody true isRef l items rest) : ∀ c ∈ l, c ∈ rest ∨ Plain isRef c := by
  induction h with
  | close c rest hc =>
    intro x hx
    rcases List.mem_cons.1 hx with hx | hx
    · subst hx; right; exact plain_of_r hc (by simp [LineBreak]) (by simp [RefInvalid])
    · left; exact hx
  | single c l items rest hm hh _ ih =>
    intro x hx
    rcases List.mem_cons.1 hx with hx | hx
    · subst hx; right; exact hm.2 rfl
    · exact ih x hx
  | range lo d hi l items rest hm hd hm2 hle _ ih =>
    intro x hx
    simp only [List.mem_cons] at hx
    rcases hx with hx | hx | hx | hx
    · subst hx; right; exact hm.2 rfl
    · subst hx; right; exact plain_of_r hd (by simp [LineBreak]) (by simp [RefInvalid])
    · subst hx; right; exact hm2.2 rfl
    · exact ih x hx

theorem elems_plain {isRef p : Bool} {l : List Sym} (h : Elems true isRef p l) : ∀ c ∈ l, Plain isRef c := by
  induction h with
  | nil p => intro x hx; simp at hx
  | ord p c rest ho _ ih =>
    intro x hx
    rcases List.mem_cons.1 hx with hx | hx
    · subst hx; exact ⟨ho.2.2.2.2.2.1, ho.2.2.2.2.2.2⟩
    · exact ih x hx
  | bslash p c rest hr hc hl _ ih =>
    intro x hx
    rcases List.mem_cons.1 hx with hx | hx
    · subst hx; exact plain_of_r hc (by simp [LineBreak]) (by simp [RefInvalid])
    · exact ih x hx
  | esc p b c rest hb he _ ih =>
    intro x hx
    simp only [List.mem_cons] at hx
    rcases hx with hx | hx | hx
    · subst hx; exact plain_of_r hb (by simp [LineBreak]) (by simp [RefInvalid])
    · subst hx
      unfold Escapable at he
      refine ⟨?_, fun _ => ?_⟩
      · unfold LineBreak; omega
      · unfold RefInvalid; omega
    · exact ih x hx
  | star p c rest hc _ ih =>
    intro x hx
    rcases List.mem_cons.1 hx with hx | hx
    · subst hx; exact plain_of_r hc (by simp [LineBreak]) (by simp [RefInvalid])
    · exact ih x hx
  | opt c rest hc _ ih =>
    intro x hx
    rcases List.mem_cons.1 hx with hx | hx
    · subst hx
      refine ⟨?_, fun _ => ?_⟩
      · unfold LineBreak; omega
      · unfold RefInvalid; omega
    · exact ih x hx
  | cls p o l items rest ho hb hok _ ih =>
    intro x hx
    rcases List.mem_cons.1 hx with hx | hx
    · subst hx; exact plain_of_r ho (by simp [LineBreak]) (by simp [RefInvalid])
    · rcases classBody_plain hb x hx with h | h
      · exact ih x h
      · exact h

/-- The documented syntax allows no line break anywhere in the pattern and, for refs, none of
space TAB `~ ^ :` — not even inside `[...]`. -/
theorem validGlob_plain {isRef : Bool} {src : List Sym} (h : ValidGlob isRef src) : ∀ c ∈ src, Plain isRef c := by
  obtain ⟨_, _, hE, _⟩ := h
  have := elems_plain hE
  intro c hc
  unfold body at this
  split at this
  · rename_i h33
    cases src with
    | nil => simp at hc
    | cons a t =>
      rcases List.mem_cons.1 hc with hc | hc
      · subst hc
        have : c.r = 33 := by simpa using h33
        exact plain_of_r this (by simp [LineBreak]) (by simp [RefInvalid])
      · exact this c hc
  · exact this c hc
end AL.Glob
