import AL.Lemmas.C17DParse
/-
  AL.Props.C17Doc: the header conditions (`HeadersClean`, stated with `parseMapping`) from a condition on the DOCUMENT alone
  (`DocHeaders`: the three mappings on the path are mappings whose keys are non-empty scalars, pairwise different) — decidable,
  so that a concrete document is checked by evaluation.
-/
namespace AL.C17D
open AL AL.PW AL.Yaml AL.Ast AL.C03P AL.C05D

/-- the keys of a mapping node are non-empty scalars, pairwise different (as written: these mappings are case-sensitive) -/
def KeysOk (n : Node) : Prop :=
  (∀ p ∈ pairs n.content, p.1.kind = .scalar ∧ p.1.value ≠ "") ∧ ((pairs n.content).map fun p => p.1.value).Nodup

instance (n : Node) : Decidable (KeysOk n) := by unfold KeysOk; infer_instance

theorem mappingLoop_ok (cfg : Cfg) (what : String) : ∀ (l : List (Node × Node)) (seen : List (String × Yaml.Pos)),
    (∀ p ∈ l, p.1.kind = .scalar ∧ p.1.value ≠ "" ∧ lookupSeen p.1.value seen = none) → (l.map fun p => p.1.value).Nodup →
    (mappingLoop cfg what true l seen).2 = []
  | [], _, _, _ => by simp [mappingLoop]
  | (kn, vn) :: rest, seen, h, hnd => by
    obtain ⟨hk, hv, hl⟩ := h (kn, vn) (List.mem_cons_self ..)
    have hps : parseString kn false = (newString kn, []) := by simp [parseString, checkString, hk, hv]
    have hid : keyId cfg true kn = kn.value := by simp [keyId, hps, newString]
    simp only [List.map_cons, List.nodup_cons, List.mem_map, not_exists, not_and] at hnd
    rw [mappingLoop_cons, hid]
    simp only at hl
    rw [hl]
    simp only [hps, List.nil_append]
    apply mappingLoop_ok cfg what rest _ _ hnd.2
    intro p hp
    obtain ⟨hk', hv', hl'⟩ := h p (List.mem_cons_of_mem _ hp)
    refine ⟨hk', hv', ?_⟩
    rw [lookupSeen_snoc_ne _ _ (fun e => hnd.1 p hp e.symm)]
    exact hl'

/-- **`parseMapping` (case-sensitive) accepts the header of a mapping node whose keys are non-empty scalars, pairwise
different** (a null node too where an empty section is allowed; a non-empty one where it is not) -/
theorem parseMapping_ok (cfg : Cfg) (what : String) (n : Node) (ae : Bool)
    (hk : n.kind = .mapping ∨ (ae = true ∧ n.isNull = true)) (hne : ae = false → pairs n.content ≠ []) (h : KeysOk n) :
    (parseMapping cfg what n ae true).2 = [] := by
  have hloop := mappingLoop_ok cfg what (pairs n.content) [] (fun p hp => ⟨(h.1 p hp).1, (h.1 p hp).2, rfl⟩) h.2
  have h1 : (!n.isNull && decide (n.kind ≠ .mapping)) = false := by
    rcases hk with hk | ⟨_, hk⟩
    · simp [hk]
    · simp [hk]
  have h2 : (!ae && n.isNull) = false := by
    cases ae with
    | true => rfl
    | false =>
      rcases hk with hk | ⟨hk, _⟩
      · simp [Node.isNull, hk]
      · cases hk
  simp only [parseMapping, h1, h2, Bool.false_eq_true, if_false, hloop, List.nil_append]
  cases ae with
  | true => rfl
  | false =>
    have hne' := hne rfl
    rw [mappingLoop_clean_eq cfg what true _ [] hloop]
    cases hp : pairs n.content with
    | nil => exact absurd hp hne'
    | cons p rest => simp

/-- **the header conditions, on the document alone**: the root is a non-empty mapping with sound keys; when `on:` is a
mapping, it is non-empty with sound keys and every webhook event in it is a mapping (or null) with sound keys -/
def DocHeaders (doc : Node) : Prop :=
  match docRoot doc with
  | none => True
  | some root =>
    root.kind = .mapping ∧ pairs root.content ≠ [] ∧ KeysOk root ∧
    match mget root "on" with
    | none => True
    | some on =>
      on.kind = .mapping →
        pairs on.content ≠ [] ∧ KeysOk on ∧ ∀ p ∈ eventsOfOn on, (p.2.kind = .mapping ∨ p.2.isNull = true) ∧ KeysOk p.2

instance (doc : Node) : Decidable (DocHeaders doc) := by
  unfold DocHeaders
  cases docRoot doc with
  | none => exact isTrue trivial
  | some root =>
    simp only
    cases mget root "on" with
    | none => simp only; infer_instance
    | some on => simp only; infer_instance

theorem docHeaders_clean (cfg : Cfg) (doc : Node) (h : DocHeaders doc) : HeadersClean cfg doc := by
  intro root hr
  unfold DocHeaders at h
  rw [hr] at h
  simp only at h
  obtain ⟨hk, hne, hko, hon⟩ := h
  refine ⟨parseMapping_ok cfg _ root false (Or.inl hk) (fun _ => hne) hko, ?_⟩
  intro on hg hkon
  rw [hg] at hon
  simp only at hon
  obtain ⟨hne', hko', hev⟩ := hon hkon
  refine ⟨parseMapping_ok cfg _ on false (Or.inl hkon) (fun _ => hne') hko', ?_⟩
  intro p hp
  obtain ⟨hkp, hkop⟩ := hev p hp
  refine parseMapping_ok cfg _ p.2 true ?_ (fun e => by cases e) hkop
  rcases hkp with hkp | hkp
  · exact Or.inl hkp
  · exact Or.inr ⟨rfl, hkp⟩

end AL.C17D
