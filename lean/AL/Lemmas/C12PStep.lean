import AL.Lemmas.C12PBase
/-
  C12Parse, level 2: `parseStep` keeps the key. The document side of a step (`stepKeyed`) says under which workflow key
  the scalars below each step key lie (`stepKeyOf`); `stepK_keyed` says that the field the parser's loop stores them in
  (`AL.C03P.stepK`) is listed by `AL.C12R.stepKStrs` under THAT key.
-/
namespace AL.C12P
open AL.PW AL.Yaml AL.Ast AL.C03P AL.C03R AL.C12R

/-- the workflow key of the scalars below the key `k` of a step -/
def stepKeyOf (k : String) : String :=
  match k with
  | "name" => "jobs.<job_id>.steps.name"
  | "if" => "jobs.<job_id>.steps.if"
  | "run" => "jobs.<job_id>.steps.run"
  | "working-directory" => "jobs.<job_id>.steps.working-directory"
  | "env" => "jobs.<job_id>.steps.env"
  | "with" => "jobs.<job_id>.steps.with"
  | "continue-on-error" => "jobs.<job_id>.steps.continue-on-error"
  | "timeout-minutes" => "jobs.<job_id>.steps.timeout-minutes"
  | _ => ""

theorem stepKeyKeyed_eq (k : String) (x : Node) : stepKeyKeyed k x = under (stepKeyOf k) (stepKeyScalars k x) := by
  simp only [stepKeyKeyed]
  split <;> simp [stepKeyOf, stepKeyScalars]

/-- **the field ↔ key table of a step**: what the loop of `parseStep` holds under the step key `k` is listed by
`stepKStrs` under the workflow key `stepKeyOf k` -/
theorem stepK_keyed (n : Node) (k : String) (st : StepSt) (hinv : WorkInv st) (hc : stepFinish n st = []) :
    ∀ s ∈ stepK k st, (s, stepKeyOf k) ∈ stepKStrs st.step := by
  intro s hs
  simp only [stepK] at hs
  simp only [stepKStrs, List.mem_append]
  split at hs
  all_goals (cases he : st.step.exec <;> simp_all [execKStrs, stepFinish, WorkInv, withStrs, stepKeyOf, mem_tag])

/-- **level 2, clean form, with the key.** -/
theorem parseStep_leafK (cfg : Cfg) (n : Node) (v : Node) (key : String) (hv : (v, key) ∈ stepKeyed n)
    (hc : (parseStep cfg n).2 = []) : RepK v key (stepKStrs (parseStep cfg n).1) := by
  simp only [parseStep, append_nil_iff] at hc ⊢
  obtain ⟨⟨hm, hr⟩, hf⟩ := hc
  have hv' : (v, key) ∈ mapKeyed n "" (fun k y => under (stepKeyOf k) (stepKeyScalars k y)) := by
    have : stepKeyKeyed = fun k y => under (stepKeyOf k) (stepKeyScalars k y) := by
      funext k y; exact stepKeyKeyed_eq k y
    rw [← this]; exact hv
  obtain ⟨k, hkey, hk⟩ := sect_tag cfg _ n false (stepKey cfg) _ "" stepKeyOf stepKeyScalars v key hv' stepK hm hr
    (fun kv st hvk hc => stepKey_store cfg st kv v hvk hc) (stepK_pres cfg)
  obtain ⟨s, hs, e⟩ := hk
  subst hkey
  exact ⟨s, stepK_keyed n k _ (loop_inv _ WorkInv (stepKey_workInv cfg) _ _ (by intro e he; cases he)) hf s hs, e⟩

theorem stepsOf_leafK (cfg : Cfg) (v : Node) (key : String) : ∀ (cs : List Node), (v, key) ∈ cs.flatMap stepKeyed →
    (stepsOf cfg cs).2 = [] → RepK v key ((stepsOf cfg cs).1.flatMap stepKStrs)
  | [], hv, _ => by simp at hv
  | c :: cs, hv, h => by
    simp only [stepsOf, append_nil_iff] at h ⊢
    simp only [List.flatMap_cons, List.mem_append] at hv ⊢
    rcases hv with hv | hv
    · exact (parseStep_leafK cfg c v key hv h.1).left
    · exact (stepsOf_leafK cfg v key cs hv h.2).right

theorem parseSteps_leafK (cfg : Cfg) (n : Node) (v : Node) (key : String) (hv : (v, key) ∈ stepsKeyed n)
    (h : (parseSteps cfg n).2 = []) : RepK v key (((parseSteps cfg n).1.getD []).flatMap stepKStrs) := by
  simp only [parseSteps] at h ⊢
  split at h
  · rename_i hc
    have := checkSequence_clean "steps" n false h
    simp [this.2] at hc
  · rename_i hc
    simp only [hc]
    simp only [append_nil_iff] at h
    have hk := (checkSequence_clean "steps" n false h.1).1
    simp only [stepsKeyed, seqKeyed, hk, ↓reduceIte] at hv
    exact stepsOf_leafK cfg v key _ hv h.2

end AL.C12P
