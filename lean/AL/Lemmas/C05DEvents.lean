import AL.Lemmas.C05DJob
import AL.Props.C05Scope
/-
  AL.Props.C05Doc, `on:`: the header the rule builds from the events (`AL.C05S.eventHdr` folded over `Workflow.On`) in terms
  of what is written under `on: workflow_call: inputs: / secrets:` and `on: workflow_dispatch: inputs:`.
-/
namespace AL.C05D
open AL.PW AL.Yaml AL.Ast AL.C03P
open AL.C05S (eventHdr isCall isDispatch)
open AL.Visit (Header)

/-! ### the document side -/

/-- the node under `on:` -/
def docOn (doc : Node) : Option Node := (docRoot doc).bind (mget · "on")

/-- the node under `on: workflow_call:` -/
def docCall (doc : Node) : Option Node := (docOn doc).bind (mget · "workflow_call")

/-- the names declared under `on: workflow_call: inputs:`, as written -/
def docCallInputs (doc : Node) : List String :=
  match (docCall doc).bind (mget · "inputs") with
  | some n => (pairs n.content).map (·.1.value)
  | none => []

/-- the names declared under `on: workflow_call: secrets:`, as written; `none`: there is no `secrets:` key -/
def docCallSecrets (doc : Node) : Option (List String) :=
  ((docCall doc).bind (mget · "secrets")).map fun n => (pairs n.content).map (·.1.value)

/-- the names declared under `on: workflow_dispatch: inputs:`, as written -/
def docDispatchInputs (doc : Node) : List String :=
  match ((docOn doc).bind (mget · "workflow_dispatch")).bind (mget · "inputs") with
  | some n => (pairs n.content).map (·.1.value)
  | none => []

/-! ### one more form of `loop_field` -/

variable {σ τ : Type}

theorem loop_field_none (step : σ → KV → σ × List PErr) (π : σ → τ) (k : String)
    (hne : ∀ st kv, kv.id ≠ k → π (step st kv).1 = π st) :
    ∀ (kvs : List KV) (init : σ), (∀ kv ∈ kvs, kv.id ≠ k) → π (loop step init kvs).1 = π init
  | [], _, _ => rfl
  | x :: rest, init, h => by
    rw [loop_cons_fst, loop_field_none step π k hne rest _ (fun kv hk => h kv (List.mem_cons_of_mem _ hk)),
      hne _ _ (h x (List.mem_cons_self ..))]

/-- `loop_field` where what the iteration of `k` writes may depend on the field — which then still has its initial value -/
theorem loop_field_first (step : σ → KV → σ × List PErr) (π : σ → τ) (k : String) (f : KV → τ) (π0 : τ)
    (hne : ∀ st kv, kv.id ≠ k → π (step st kv).1 = π st)
    (heq : ∀ st kv, kv.id = k → π st = π0 → π (step st kv).1 = f kv) :
    ∀ (kvs : List KV) (init : σ), (kvs.map (·.id)).Nodup → π init = π0 →
      π (loop step init kvs).1 = match kvs.find? (fun kv => kv.id = k) with | some kv => f kv | none => π0
  | [], _, _, h0 => h0
  | x :: rest, init, hnd, h0 => by
    simp only [List.map_cons, List.nodup_cons, List.mem_map, not_exists, not_and] at hnd
    rw [loop_cons_fst]
    by_cases hx : x.id = k
    · rw [loop_field_none step π k hne rest _ (fun kv hk e => hnd.1 kv hk (e.trans hx.symm))]
      simp only [List.find?_cons, hx, decide_true, heq _ _ hx h0]
    · rw [loop_field_first step π k f π0 hne heq rest _ hnd.2 ((hne _ _ hx).trans h0)]
      simp only [List.find?_cons, hx, decide_false]

/-! ### the events of `on:` written as a mapping -/

def hdr0 : Header := ⟨none, none, none⟩

/-- the header after the events `es` -/
def hdrOf (es : List Event) : Header := es.foldl eventHdr hdr0

theorem hdrOf_snoc (es : List Event) (e : Event) : hdrOf (es ++ [e]) = eventHdr (hdrOf es) e := by
  simp [hdrOf, List.foldl_append]

theorem schedule_kind (cfg : Cfg) (pos : Yaml.Pos) (n : Node) (ev : Event) (h : (parseScheduleEvent cfg pos n).1 = some ev) :
    isCall ev = false ∧ isDispatch ev = false := by
  simp only [parseScheduleEvent] at h
  split at h
  · cases h
  · simp only [Option.some.injEq] at h
    subst h
    exact ⟨rfl, rfl⟩

theorem eventOfKey_call (cfg : Cfg) (st : List Event) (kv : KV) (h : kv.id = "workflow_call") :
    (eventOfKey cfg st kv).1 = st ++ [(parseWorkflowCallEvent cfg kv.key.pos kv.val).1] ∧
    (eventOfKey cfg st kv).2 = (parseWorkflowCallEvent cfg kv.key.pos kv.val).2 := by
  simp only [eventOfKey]
  split <;> first | exact ⟨rfl, rfl⟩ | (exfalso; simp_all)

theorem eventOfKey_dispatch (cfg : Cfg) (st : List Event) (kv : KV) (h : kv.id = "workflow_dispatch") :
    (eventOfKey cfg st kv).1 = st ++ [(parseWorkflowDispatchEvent cfg kv.key.pos kv.val).1] ∧
    (eventOfKey cfg st kv).2 = (parseWorkflowDispatchEvent cfg kv.key.pos kv.val).2 := by
  simp only [eventOfKey]
  split <;> first | exact ⟨rfl, rfl⟩ | (exfalso; simp_all)

theorem eventHdr_not_call (hdr : Header) (ev : Event) (h : isCall ev = false) :
    (eventHdr hdr ev).callInputs = hdr.callInputs ∧ (eventHdr hdr ev).callSecrets = hdr.callSecrets := by
  cases ev <;> first | exact ⟨rfl, rfl⟩ | simp [isCall] at h

theorem eventHdr_not_dispatch (hdr : Header) (ev : Event) (h : isDispatch ev = false) :
    (eventHdr hdr ev).dispatchInputs = hdr.dispatchInputs := by
  cases ev <;> first | rfl | simp [isDispatch] at h

theorem eventOfKey_hdr_ne_call (cfg : Cfg) (st : List Event) (kv : KV) (h : kv.id ≠ "workflow_call") :
    (hdrOf (eventOfKey cfg st kv).1).callInputs = (hdrOf st).callInputs ∧
    (hdrOf (eventOfKey cfg st kv).1).callSecrets = (hdrOf st).callSecrets := by
  simp only [eventOfKey]
  split
  · cases hs : (parseScheduleEvent cfg kv.key.pos kv.val).1 with
    | none => exact ⟨rfl, rfl⟩
    | some ev => simp only [hdrOf_snoc]; exact eventHdr_not_call _ ev (schedule_kind cfg _ _ ev hs).1
  · simp only [hdrOf_snoc]; exact eventHdr_not_call _ _ rfl
  · simp only [hdrOf_snoc]; exact eventHdr_not_call _ _ rfl
  · exact absurd ‹_› h
  · simp only [hdrOf_snoc]; exact eventHdr_not_call _ _ rfl

theorem eventOfKey_hdr_ne_dispatch (cfg : Cfg) (st : List Event) (kv : KV) (h : kv.id ≠ "workflow_dispatch") :
    (hdrOf (eventOfKey cfg st kv).1).dispatchInputs = (hdrOf st).dispatchInputs := by
  simp only [eventOfKey]
  split
  · cases hs : (parseScheduleEvent cfg kv.key.pos kv.val).1 with
    | none => rfl
    | some ev => simp only [hdrOf_snoc]; exact eventHdr_not_dispatch _ ev (schedule_kind cfg _ _ ev hs).2
  · exact absurd ‹_› h
  · simp only [hdrOf_snoc]; exact eventHdr_not_dispatch _ _ rfl
  · simp only [hdrOf_snoc]; exact eventHdr_not_dispatch _ _ rfl
  · simp only [hdrOf_snoc]; exact eventHdr_not_dispatch _ _ rfl

/-! ### `workflow_call:` -/

/-- the state of `parseWorkflowCallEvent` after its key loop -/
def callLoop (cfg : Cfg) (n : Node) : CallEventSt × List PErr :=
  loop (callEventKey cfg) {} (parseMapping cfg (sectionWhat "workflow_call") n true true).1

theorem parseCall_eq (cfg : Cfg) (pos : Yaml.Pos) (n : Node) :
    (parseWorkflowCallEvent cfg pos n).1 = .call (callLoop cfg n).1.inputs (callLoop cfg n).1.secrets (callLoop cfg n).1.outputs pos := rfl

theorem parseCall_clean (cfg : Cfg) (pos : Yaml.Pos) (n : Node) (h : (parseWorkflowCallEvent cfg pos n).2 = []) :
    (parseMapping cfg (sectionWhat "workflow_call") n true true).2 = [] ∧ (callLoop cfg n).2 = [] := by
  simp only [parseWorkflowCallEvent, append_nil_iff, parseSectionMapping] at h
  exact h

theorem callEventKey_inputs_ne (cfg : Cfg) (st : CallEventSt) (kv : KV) (h : kv.id ≠ "inputs") :
    (callEventKey cfg st kv).1.inputs = st.inputs := by
  simp only [callEventKey]
  split <;> first | rfl | exact absurd ‹_› h

theorem callEventKey_secrets_ne (cfg : Cfg) (st : CallEventSt) (kv : KV) (h : kv.id ≠ "secrets") :
    (callEventKey cfg st kv).1.secrets = st.secrets := by
  simp only [callEventKey]
  split <;> first | rfl | exact absurd ‹_› h

/-- the `inputs:` section of `workflow_call` as `parseWorkflowCallEvent` reads it -/
def callInputsOf (cfg : Cfg) (v : Node) : R (List CallInput) :=
  let m := parseMapping cfg (sectionWhat "inputs") v true false
  ((callInputs cfg m.1).1, m.2 ++ (callInputs cfg m.1).2)

def callSecretsOf (cfg : Cfg) (v : Node) : R (List (String × CallSecret)) :=
  let m := parseMapping cfg (sectionWhat "secrets") v true false
  ((mapKVs (callSecret cfg) m.1).1, m.2 ++ (mapKVs (callSecret cfg) m.1).2)

theorem callEventKey_inputs_eq (cfg : Cfg) (st : CallEventSt) (kv : KV) (h : kv.id = "inputs") :
    (callEventKey cfg st kv).1.inputs = some (callInputsOf cfg kv.val).1 ∧ (callEventKey cfg st kv).2 = (callInputsOf cfg kv.val).2 := by
  simp only [callEventKey, callInputsOf]
  split <;> first | exact ⟨rfl, rfl⟩ | (exfalso; simp_all)

theorem callEventKey_secrets_eq (cfg : Cfg) (st : CallEventSt) (kv : KV) (h : kv.id = "secrets") :
    (callEventKey cfg st kv).1.secrets = some (callSecretsOf cfg kv.val).1 ∧ (callEventKey cfg st kv).2 = (callSecretsOf cfg kv.val).2 := by
  simp only [callEventKey, callSecretsOf]
  split <;> first | exact ⟨rfl, rfl⟩ | (exfalso; simp_all)

theorem callInputs_ids (cfg : Cfg) : ∀ (kvs : List KV), (callInputs cfg kvs).1.map (·.id) = kvs.map (·.id)
  | [] => rfl
  | kv :: rest => by simp [callInputs, callInputs_ids cfg rest, (AL.C08P.callInput_id cfg kv).1]

theorem callInputsOf_clean (cfg : Cfg) (v : Node) (h : (callInputsOf cfg v).2 = []) :
    (callInputsOf cfg v).1.map (·.id) = (pairs v.content).map fun p => cfg.lower p.1.value := by
  simp only [callInputsOf, append_nil_iff] at h ⊢
  rw [callInputs_ids, parseMapping_clean_eq cfg _ v true false h.1, List.map_map]
  exact List.map_congr_left fun p _ => by simp [kvOf_false]

theorem callSecretsOf_clean (cfg : Cfg) (v : Node) (h : (callSecretsOf cfg v).2 = []) :
    (callSecretsOf cfg v).1.map (·.1) = (pairs v.content).map fun p => cfg.lower p.1.value := by
  simp only [callSecretsOf, append_nil_iff] at h ⊢
  rw [mapKVs_fst, parseMapping_clean_eq cfg _ v true false h.1, List.map_map, List.map_map]
  exact List.map_congr_left fun p _ => by simp [kvOf_false]

/-- **`workflow_call:`, accepted without a diagnostic: the ids of its inputs are the folded keys written under `inputs:`,
its secrets the folded keys written under `secrets:`** (`none` without that key) -/
theorem parseCall_written (cfg : Cfg) (n : Node) (hm : (parseMapping cfg (sectionWhat "workflow_call") n true true).2 = [])
    (hr : (callLoop cfg n).2 = []) :
    ((callLoop cfg n).1.inputs.getD []).map (·.id) =
      (match mget n "inputs" with | some v => (pairs v.content).map (fun p => cfg.lower p.1.value) | none => []) ∧
    (callLoop cfg n).1.secrets.map (·.map (·.1)) =
      (mget n "secrets").map (fun v => (pairs v.content).map fun p => cfg.lower p.1.value) := by
  have hf1 := sect_field cfg (sectionWhat "workflow_call") n true (callEventKey cfg) {} (fun st => st.inputs) "inputs"
    (fun kv => some (callInputsOf cfg kv.val).1)
    (fun st kv hne => callEventKey_inputs_ne cfg st kv hne) (fun st kv he => (callEventKey_inputs_eq cfg st kv he).1) hm
  have hf2 := sect_field cfg (sectionWhat "workflow_call") n true (callEventKey cfg) {} (fun st => st.secrets) "secrets"
    (fun kv => some (callSecretsOf cfg kv.val).1)
    (fun st kv hne => callEventKey_secrets_ne cfg st kv hne) (fun st kv he => (callEventKey_secrets_eq cfg st kv he).1) hm
  unfold callLoop at hr ⊢
  rw [hf1, hf2]
  simp only [mget]
  refine ⟨?_, ?_⟩
  · cases hp : mpair n "inputs" with
    | none => rfl
    | some p =>
      obtain ⟨hmem, hk⟩ := mpair_mem hp
      obtain ⟨st, hc⟩ := sect_clean_at cfg _ n true true (callEventKey cfg) _ hm hr p hmem
      rw [(callEventKey_inputs_eq cfg st _ (by rw [kvOf_true]; exact hk)).2] at hc
      simp only [kvOf_true] at hc ⊢
      simp only [Option.getD_some, Option.map_some, callInputsOf_clean cfg p.2 hc]
  · cases hp : mpair n "secrets" with
    | none => rfl
    | some p =>
      obtain ⟨hmem, hk⟩ := mpair_mem hp
      obtain ⟨st, hc⟩ := sect_clean_at cfg _ n true true (callEventKey cfg) _ hm hr p hmem
      rw [(callEventKey_secrets_eq cfg st _ (by rw [kvOf_true]; exact hk)).2] at hc
      simp only [kvOf_true] at hc ⊢
      simp only [Option.map_some, callSecretsOf_clean cfg p.2 hc]

/-! ### `workflow_dispatch:` -/

/-- the `inputs:` section of `workflow_dispatch` as `parseWorkflowDispatchEvent` reads it -/
def dispatchInputsOf (cfg : Cfg) (v : Node) : R (List (String × DispatchInput)) :=
  let m := parseMapping cfg (sectionWhat "inputs") v true false
  ((mapKVs (dispatchInput cfg) m.1).1, m.2 ++ (mapKVs (dispatchInput cfg) m.1).2)

/-- the body of the key loop of `parseWorkflowDispatchEvent` -/
def dispatchKey (cfg : Cfg) (st : Option (List (String × DispatchInput))) (kv : KV) : Option (List (String × DispatchInput)) × List PErr :=
  if kv.id ≠ "inputs" then (st, [unexpectedKey kv.key "workflow_dispatch" ["inputs"]])
  else (some (dispatchInputsOf cfg kv.val).1, (dispatchInputsOf cfg kv.val).2)

def dispatchLoop (cfg : Cfg) (n : Node) : Option (List (String × DispatchInput)) × List PErr :=
  loop (dispatchKey cfg) none (parseMapping cfg (sectionWhat "workflow_dispatch") n true true).1

theorem parseDispatch_eq (cfg : Cfg) (pos : Yaml.Pos) (n : Node) :
    (parseWorkflowDispatchEvent cfg pos n).1 = .dispatch (dispatchLoop cfg n).1 pos ∧
    (parseWorkflowDispatchEvent cfg pos n).2 = (parseMapping cfg (sectionWhat "workflow_dispatch") n true true).2 ++ (dispatchLoop cfg n).2 :=
  ⟨rfl, rfl⟩

theorem dispatchInputsOf_clean (cfg : Cfg) (v : Node) (h : (dispatchInputsOf cfg v).2 = []) :
    (dispatchInputsOf cfg v).1.map (·.1) = (pairs v.content).map fun p => cfg.lower p.1.value := by
  simp only [dispatchInputsOf, append_nil_iff] at h ⊢
  rw [mapKVs_fst, parseMapping_clean_eq cfg _ v true false h.1, List.map_map, List.map_map]
  exact List.map_congr_left fun p _ => by simp [kvOf_false]

/-- **`workflow_dispatch:`, accepted without a diagnostic: the ids of its inputs are the folded keys written under `inputs:`** -/
theorem parseDispatch_written (cfg : Cfg) (n : Node) (hm : (parseMapping cfg (sectionWhat "workflow_dispatch") n true true).2 = [])
    (hr : (dispatchLoop cfg n).2 = []) :
    ((dispatchLoop cfg n).1.getD []).map (·.1) =
      (match mget n "inputs" with | some v => (pairs v.content).map (fun p => cfg.lower p.1.value) | none => []) := by
  have hf := sect_field cfg (sectionWhat "workflow_dispatch") n true (dispatchKey cfg) none (fun st => st) "inputs"
    (fun kv => some (dispatchInputsOf cfg kv.val).1)
    (fun st kv hne => by simp [dispatchKey, hne]) (fun st kv he => by simp [dispatchKey, he]) hm
  unfold dispatchLoop at hr ⊢
  rw [hf]
  simp only [mget]
  cases hp : mpair n "inputs" with
  | none => rfl
  | some p =>
    obtain ⟨hmem, hk⟩ := mpair_mem hp
    obtain ⟨st, hc⟩ := sect_clean_at cfg _ n true true (dispatchKey cfg) _ hm hr p hmem
    have hid : (kvOf cfg true p).id = "inputs" := by rw [kvOf_true]; exact hk
    simp only [dispatchKey, hid, ne_eq, not_true_eq_false, if_false] at hc
    simp only [kvOf_true] at hc ⊢
    simp only [Option.getD_some, Option.map_some, dispatchInputsOf_clean cfg p.2 hc]

/-! ### `on:` written as a mapping: the header -/

/-- the state of `parseEvents` on a mapping after its key loop -/
def onLoop (cfg : Cfg) (n : Node) : List Event × List PErr :=
  loop (eventOfKey cfg) [] (parseMapping cfg (sectionWhat "on") n false true).1

theorem parseEvents_mapping (cfg : Cfg) (pos : Yaml.Pos) (n : Node) (hk : n.kind = .mapping) :
    parseEvents cfg pos n = (some (onLoop cfg n).1, (parseMapping cfg (sectionWhat "on") n false true).2 ++ (onLoop cfg n).2) := by
  simp only [parseEvents, hk]
  rfl

open AL.RuleExpr (callTy dispatchTy) in
/-- **the header the rule builds from an `on:` written as a mapping and accepted without a diagnostic**: the names of the
`workflow_call` inputs are the folded keys written under `on: workflow_call: inputs:`, its secrets the folded keys written
under `secrets:` (none without that key), the names of the `workflow_dispatch` inputs the folded keys written under
`on: workflow_dispatch: inputs:` -/
theorem on_hdr_written (cfg : Cfg) (n : Node) (hm : (parseMapping cfg (sectionWhat "on") n false true).2 = [])
    (hr : (onLoop cfg n).2 = []) :
    ((hdrOf (onLoop cfg n).1).callInputs.getD []).map (·.1) =
      (match (mget n "workflow_call").bind (mget · "inputs") with
       | some v => (pairs v.content).map (fun p => cfg.lower p.1.value) | none => []) ∧
    (hdrOf (onLoop cfg n).1).callSecrets =
      ((mget n "workflow_call").bind (mget · "secrets")).map (fun v => (pairs v.content).map fun p => cfg.lower p.1.value) ∧
    ((hdrOf (onLoop cfg n).1).dispatchInputs.getD []).map (·.1) =
      (match (mget n "workflow_dispatch").bind (mget · "inputs") with
       | some v => (pairs v.content).map (fun p => cfg.lower p.1.value) | none => []) := by
  have hnd := parseMapping_nodup cfg (sectionWhat "on") n false true
  have he := parseMapping_clean_eq cfg (sectionWhat "on") n false true hm
  -- callInputs
  have h1 := sect_field cfg (sectionWhat "on") n false (eventOfKey cfg) [] (fun st => (hdrOf st).callInputs) "workflow_call"
    (fun kv => some (((callLoop cfg kv.val).1.inputs.getD []).map fun i => (i.id, callTy i.type)))
    (fun st kv hne => (eventOfKey_hdr_ne_call cfg st kv hne).1)
    (fun st kv he => by rw [(eventOfKey_call cfg st kv he).1, hdrOf_snoc, parseCall_eq]; rfl) hm
  -- callSecrets
  have h2 := loop_field_first (eventOfKey cfg) (fun st => (hdrOf st).callSecrets) "workflow_call"
    (fun kv => (callLoop cfg kv.val).1.secrets.map (·.map (·.1))) none
    (fun st kv hne => (eventOfKey_hdr_ne_call cfg st kv hne).2)
    (fun st kv he h0 => by
      rw [(eventOfKey_call cfg st kv he).1, hdrOf_snoc, parseCall_eq]
      simp only [eventHdr]
      cases (callLoop cfg kv.val).1.secrets with
      | none => exact h0
      | some ss => rfl)
    (parseMapping cfg (sectionWhat "on") n false true).1 [] hnd rfl
  -- dispatchInputs
  have h3 := sect_field cfg (sectionWhat "on") n false (eventOfKey cfg) [] (fun st => (hdrOf st).dispatchInputs) "workflow_dispatch"
    (fun kv => some (((dispatchLoop cfg kv.val).1.getD []).map fun q => (q.1, dispatchTy q.2.type)))
    (fun st kv hne => eventOfKey_hdr_ne_dispatch cfg st kv hne)
    (fun st kv he => by rw [(eventOfKey_dispatch cfg st kv he).1, hdrOf_snoc, (parseDispatch_eq cfg _ _).1]; rfl) hm
  rw [he, find?_kvOf] at h2
  unfold onLoop at hr ⊢
  rw [h1, h3]
  rw [he, h2]
  simp only [mget]
  refine ⟨?_, ?_, ?_⟩
  · cases hp : mpair n "workflow_call" with
    | none => rfl
    | some p =>
      obtain ⟨hmem, hk⟩ := mpair_mem hp
      obtain ⟨st, hc⟩ := sect_clean_at cfg _ n false true (eventOfKey cfg) _ hm hr p hmem
      rw [(eventOfKey_call cfg st _ (by rw [kvOf_true]; exact hk)).2] at hc
      obtain ⟨c1, c2⟩ := parseCall_clean cfg _ _ hc
      simp only [kvOf_true] at c1 c2 ⊢
      simp only [Option.getD_some, Option.map_some, Option.bind_some, List.map_map]
      exact (parseCall_written cfg p.2 c1 c2).1
  · unfold mpair
    cases hp : (pairs n.content).find? (fun p => p.1.value = "workflow_call") with
    | none => rfl
    | some p =>
      obtain ⟨hmem, hk⟩ := mpair_mem (n := n) (k := "workflow_call") hp
      obtain ⟨st, hc⟩ := sect_clean_at cfg _ n false true (eventOfKey cfg) _ hm hr p hmem
      rw [(eventOfKey_call cfg st _ (by rw [kvOf_true]; exact hk)).2] at hc
      obtain ⟨c1, c2⟩ := parseCall_clean cfg _ _ hc
      simp only [kvOf_true] at c1 c2 ⊢
      simp only [Option.map_some, Option.bind_some]
      exact (parseCall_written cfg p.2 c1 c2).2
  · cases hp : mpair n "workflow_dispatch" with
    | none => rfl
    | some p =>
      obtain ⟨hmem, hk⟩ := mpair_mem hp
      obtain ⟨st, hc⟩ := sect_clean_at cfg _ n false true (eventOfKey cfg) _ hm hr p hmem
      rw [(eventOfKey_dispatch cfg st _ (by rw [kvOf_true]; exact hk)).2, (parseDispatch_eq cfg _ _).2] at hc
      simp only [kvOf_true, append_nil_iff] at hc ⊢
      simp only [Option.getD_some, Option.map_some, Option.bind_some, List.map_map]
      exact parseDispatch_written cfg p.2 hc.1 hc.2

/-! ### `on:` written as a scalar or a sequence: nothing is declared -/

/-- an event that declares no input and no secret -/
def Plain : Event → Prop
  | .dispatch i _ => i = none
  | .call i s _ _ => i = none ∧ s = none
  | _ => True

/-- a header without a declared input or secret -/
def HdrEmpty (h : Header) : Prop := h.callInputs.getD [] = [] ∧ h.dispatchInputs.getD [] = [] ∧ h.callSecrets = none

theorem eventHdr_plain (h : Header) (e : Event) (hq : HdrEmpty h) (hp : Plain e) : HdrEmpty (eventHdr h e) := by
  obtain ⟨a, b, c⟩ := hq
  cases e with
  | webhook w => exact ⟨a, b, c⟩
  | schedule cr p => exact ⟨a, b, c⟩
  | repoDispatch t p => exact ⟨a, b, c⟩
  | dispatch i p =>
    simp only [Plain] at hp
    subst hp
    exact ⟨a, rfl, c⟩
  | call i sx o p =>
    simp only [Plain] at hp
    obtain ⟨rfl, rfl⟩ := hp
    exact ⟨rfl, b, c⟩

theorem foldHdr_plain : ∀ (es : List Event), (∀ e ∈ es, Plain e) → ∀ h, HdrEmpty h → HdrEmpty (es.foldl eventHdr h)
  | [], _, _, hq => hq
  | e :: es, hp, h, hq => by
    simp only [List.foldl_cons]
    exact foldHdr_plain es (fun e' he' => hp e' (List.mem_cons_of_mem _ he')) _
      (eventHdr_plain h e hq (hp e (List.mem_cons_self ..)))

theorem eventsOfSeq_plain : ∀ (cs : List Node), ∀ e ∈ (eventsOfSeq cs).1, Plain e
  | [], e, he => by simp [eventsOfSeq] at he
  | c :: cs, e, he => by
    have ih := eventsOfSeq_plain cs
    simp only [eventsOfSeq] at he
    split at he
    · exact ih e he
    · exact ih e he
    · rcases List.mem_cons.1 he with rfl | he
      · rfl
      · exact ih e he
    · rcases List.mem_cons.1 he with rfl | he
      · exact ⟨rfl, rfl⟩
      · exact ih e he
    · rcases List.mem_cons.1 he with rfl | he
      · trivial
      · exact ih e he

/-- **`on:` not written as a mapping** (`on: push`, `on: [push, workflow_dispatch]`, …): every event is plain -/
theorem parseEvents_plain (cfg : Cfg) (pos : Yaml.Pos) (n : Node) (hk : n.kind ≠ .mapping) :
    ∀ es, (parseEvents cfg pos n).1 = some es → ∀ e ∈ es, Plain e := by
  intro es hes e he
  simp only [parseEvents] at hes
  split at hes
  · split at hes
    · simp only [Option.some.injEq] at hes; subst hes; simp only [List.mem_singleton] at he; subst he; rfl
    · simp only [Option.some.injEq] at hes; subst hes; simp only [List.mem_singleton] at he; subst he; trivial
    · simp only [Option.some.injEq] at hes; subst hes; cases he
    · simp only [Option.some.injEq] at hes; subst hes; simp only [List.mem_singleton] at he; subst he; exact ⟨rfl, rfl⟩
    · split at hes
      · simp only [Option.some.injEq] at hes; subst hes; cases he
      · simp only [Option.some.injEq] at hes; subst hes; simp only [List.mem_singleton] at he; subst he; trivial
  · exact absurd ‹_› hk
  · simp only [Option.some.injEq] at hes
    subst hes
    exact eventsOfSeq_plain _ e he
  · cases hes

/-! ### `on:` of the workflow -/

theorem workflowKey_on_ne (cfg : Cfg) (w : Workflow) (kv : KV) (h : kv.id ≠ "on") : (workflowKey cfg w kv).1.on = w.on := by
  simp only [workflowKey]
  split <;> first | rfl | exact absurd ‹_› h

theorem workflowKey_on_eq (cfg : Cfg) (w : Workflow) (kv : KV) (h : kv.id = "on") :
    (workflowKey cfg w kv).1.on = (parseEvents cfg kv.key.pos kv.val).1 ∧ (workflowKey cfg w kv).2 = (parseEvents cfg kv.key.pos kv.val).2 := by
  simp only [workflowKey]
  split <;> first | exact ⟨rfl, rfl⟩ | (exfalso; simp_all)

/-- **`Workflow.On` of an accepted document is `parseEvents` of the node under `on:`**, accepted without a diagnostic -/
theorem parse_on_written (cfg : Cfg) (doc : Node) (h : (parse cfg doc).2 = []) :
    ∃ on pos, docOn doc = some on ∧ (parse cfg doc).1.on = (parseEvents cfg pos on).1 ∧ (parseEvents cfg pos on).2 = [] := by
  obtain ⟨root, hroot, hm, hr, he, hon, _⟩ := parse_clean cfg doc h
  have hf := sect_field cfg "workflow" root false (workflowKey cfg) {} (fun w => w.on) "on"
    (fun kv => (parseEvents cfg kv.key.pos kv.val).1)
    (fun st kv hne => workflowKey_on_ne cfg st kv hne) (fun st kv he => (workflowKey_on_eq cfg st kv he).1) hm
  have hw := hf
  rw [← he] at hw
  simp only [docOn, hroot, Option.bind_some, mget]
  cases hp : mpair root "on" with
  | none =>
    rw [hp] at hw
    rw [hw] at hon
    cases hon
  | some p =>
    rw [hp] at hw
    obtain ⟨hmem, hk⟩ := mpair_mem hp
    obtain ⟨st, hc⟩ := sect_clean_at cfg _ root false true (workflowKey cfg) _ hm hr p hmem
    rw [(workflowKey_on_eq cfg st _ (by rw [kvOf_true]; exact hk)).2] at hc
    simp only [kvOf_true] at hc hw
    exact ⟨p.2, _, rfl, hw, hc⟩

end AL.C05D
