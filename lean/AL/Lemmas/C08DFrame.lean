import AL.Lemmas.C08DSect
/-
  The loop bodies of `parseStep`, `parseJob` and `parse` carry alike states to alike states (`*_frame`), and so do the final
  checks (`*_finish`): what the parser does AFTER the place where two documents differ in the spelling of a name.
-/
namespace AL.C08D
open AL.PW AL.Yaml AL.Ast AL.C13P

variable (F : Folds) (cfg : Cfg)

def nStepSt (st : StepSt) : StepSt := { st with step := nStep F st.step }
def nJobSt (st : JobSt) : JobSt := { st with job := nJob F st.job, call := nCall F st.call }

theorem nAct_reset {e e' : ExecAction} (h : nAct F e = nAct F e') :
    nAct F { e with inputs := some [] } = nAct F { e' with inputs := some [] } := by
  obtain ⟨u, i, ep, a⟩ := e
  obtain ⟨u', i', ep', a'⟩ := e'
  simp only [nAct, ExecAction.mk.injEq] at h ⊢
  obtain ⟨rfl, _, rfl, rfl⟩ := h
  simp

theorem stepKey_frame (s s' : StepSt) (kv : KV) (h : nStepSt F s = nStepSt F s') :
    Sim (nStepSt F) (stepKey cfg s kv) (stepKey cfg s' kv) := by
  obtain ⟨⟨id, cond, name, exec, env, coe, tm, pos⟩, wd⟩ := s
  obtain ⟨⟨id', cond', name', exec', env', coe', tm', pos'⟩, wd'⟩ := s'
  simp only [nStepSt, nStep, StepSt.mk.injEq, Step.mk.injEq] at h
  obtain ⟨⟨hid, rfl, rfl, hexec, henv, rfl, rfl, rfl⟩, rfl⟩ := h
  simp only [stepKey]
  split
  · exact ⟨by simp only [nStepSt, nStep, hexec, henv], rfl⟩
  · exact ⟨by simp only [nStepSt, nStep, hid, hexec, henv], rfl⟩
  · exact ⟨by simp only [nStepSt, nStep, hid, hexec, henv], rfl⟩
  · exact ⟨by simp only [nStepSt, nStep, hid, hexec], rfl⟩
  · exact ⟨by simp only [nStepSt, nStep, hid, hexec, henv], rfl⟩
  · exact ⟨by simp only [nStepSt, nStep, hid, hexec, henv], rfl⟩
  · -- uses
    cases exec <;> cases exec' <;> simp only [nExec, reduceCtorEq, Exec.action.injEq, Exec.run.injEq] at hexec
    · exact ⟨by simp only [nStepSt, nStep, hid, henv], rfl⟩
    · subst hexec; exact ⟨by simp only [nStepSt, nStep, hid, henv], rfl⟩
    · rename_i e e'
      refine ⟨?_, rfl⟩
      obtain ⟨u, i, ep, a⟩ := e
      obtain ⟨u', i', ep', a'⟩ := e'
      simp only [nAct, ExecAction.mk.injEq] at hexec
      obtain ⟨_, hi, rfl, rfl⟩ := hexec
      simp only [nStepSt, nStep, hid, henv, nExec, nAct, hi]
  · -- with
    cases exec <;> cases exec' <;> simp only [nExec, reduceCtorEq, Exec.action.injEq, Exec.run.injEq] at hexec
    · exact ⟨by simp only [nStepSt, nStep, hid, henv], rfl⟩
    · subst hexec; exact ⟨by simp only [nStepSt, nStep, hid, henv], rfl⟩
    · rename_i e e'
      obtain ⟨j1, j2⟩ := withLoop_sim F (parseSectionMapping cfg "with" kv.val false false).1 _ _ _ rfl (nAct_reset F hexec)
      exact ⟨by simp only [nStepSt, nStep, hid, henv, nExec, j1], SameSites.rfl'.append j2⟩
  · -- run
    cases exec <;> cases exec' <;> simp only [nExec, reduceCtorEq, Exec.action.injEq, Exec.run.injEq] at hexec
    · exact ⟨by simp only [nStepSt, nStep, hid, henv], rfl⟩
    · subst hexec; exact ⟨by simp only [nStepSt, nStep, hid, henv], rfl⟩
    · exact ⟨by simp only [nStepSt, nStep, hid, henv, nExec, hexec], rfl⟩
  · -- shell
    cases exec <;> cases exec' <;> simp only [nExec, reduceCtorEq, Exec.action.injEq, Exec.run.injEq] at hexec
    · exact ⟨by simp only [nStepSt, nStep, hid, henv], rfl⟩
    · subst hexec; exact ⟨by simp only [nStepSt, nStep, hid, henv], rfl⟩
    · exact ⟨by simp only [nStepSt, nStep, hid, henv, nExec, hexec], rfl⟩
  · -- working-directory
    cases exec <;> cases exec' <;> simp only [nExec, reduceCtorEq, Exec.action.injEq, Exec.run.injEq] at hexec
    · exact ⟨by simp only [nStepSt, nStep, hid, henv], rfl⟩
    · subst hexec; exact ⟨by simp only [nStepSt, nStep, hid, henv], rfl⟩
    · exact ⟨by simp only [nStepSt, nStep, hid, henv, nExec, hexec], rfl⟩
  · exact ⟨by simp only [nStepSt, nStep, hid, hexec, henv], rfl⟩

theorem stepFinish_frame (n : Node) (s s' : StepSt) (h : nStepSt F s = nStepSt F s') :
    Sim (nStep F) (s.step, stepFinish n s) (s'.step, stepFinish n s') := by
  obtain ⟨⟨id, cond, name, exec, env, coe, tm, pos⟩, wd⟩ := s
  obtain ⟨⟨id', cond', name', exec', env', coe', tm', pos'⟩, wd'⟩ := s'
  simp only [nStepSt, nStep, StepSt.mk.injEq, Step.mk.injEq] at h
  obtain ⟨⟨hid, rfl, rfl, hexec, henv, rfl, rfl, rfl⟩, rfl⟩ := h
  refine ⟨by simp only [nStep, hid, hexec, henv], ?_⟩
  simp only [stepFinish]
  cases exec <;> cases exec' <;> simp only [nExec, reduceCtorEq, Exec.action.injEq, Exec.run.injEq] at hexec
  · rfl
  · subst hexec; rfl
  · rename_i e e'
    have := congrArg ExecAction.uses hexec
    simp only [nAct] at this
    simp only [this]
    rfl

set_option linter.unusedSimpArgs false in
/-- the loop body of `parseJob` -/
theorem jobKey_frame (s s' : JobSt) (kv : KV) (h : nJobSt F s = nJobSt F s') :
    Sim (nJobSt F) (jobKey cfg s kv) (jobKey cfg s' kv) := by
  obtain ⟨⟨id, name, needs, runsOn, perm, envr, conc, outs, env, dflt, cond, steps, tm, strat, coe, cont, serv, wc, pos⟩, ⟨cu, ci, cs, cinh⟩, sk, ck⟩ := s
  obtain ⟨⟨id', name', needs', runsOn', perm', envr', conc', outs', env', dflt', cond', steps', tm', strat', coe', cont', serv', wc', pos'⟩, ⟨cu', ci', cs', cinh'⟩, sk', ck'⟩ := s'
  simp only [nJobSt, nJob, nCall, JobSt.mk.injEq, Job.mk.injEq, WorkflowCall.mk.injEq] at h
  obtain ⟨⟨hid, rfl, hneeds, rfl, rfl, rfl, rfl, houts, henv, rfl, rfl, hsteps, rfl, hstrat, rfl, hcont, hserv, hwc, rfl⟩, ⟨rfl, hci, hcs, rfl⟩, rfl, rfl⟩ := h
  simp only [jobKey]
  split
  all_goals first
    | exact ⟨by simp only [nJobSt, nJob, nCall, hid, hneeds, houts, henv, hsteps, hstrat, hcont, hserv, hwc, hci, hcs], rfl⟩
    | skip
  · split <;>
      exact ⟨by simp only [nJobSt, nJob, nCall, hid, hneeds, houts, henv, hsteps, hstrat, hcont, hserv, hwc, hci, hcs], rfl⟩
  · split
    · split <;>
        exact ⟨by simp only [nJobSt, nJob, nCall, hid, hneeds, houts, henv, hsteps, hstrat, hcont, hserv, hwc, hci, hcs], rfl⟩
    · exact ⟨by simp only [nJobSt, nJob, nCall, hid, hneeds, houts, henv, hsteps, hstrat, hcont, hserv, hwc, hci, hcs], rfl⟩

theorem option_map_isNone {α β : Type} {g : α → β} {a b : Option α} (h : a.map g = b.map g) : a.isNone = b.isNone := by
  cases a <;> cases b <;> simp_all

theorem option_map_isSome {α β : Type} {g : α → β} {a b : Option α} (h : a.map g = b.map g) : a.isSome = b.isSome := by
  cases a <;> cases b <;> simp_all

/-- the checks after the loop of `parseJob`, for two ids that spell the same name -/
theorem jobFinish_frame (jid jid' : Str) (hj : jid.pos = jid'.pos) (s s' : JobSt) (h : nJobSt F s = nJobSt F s') :
    Sim (nJob F) (jobFinish jid s) (jobFinish jid' s') := by
  obtain ⟨⟨id, name, needs, runsOn, perm, envr, conc, outs, env, dflt, cond, steps, tm, strat, coe, cont, serv, wc, pos⟩, ⟨cu, ci, cs, cinh⟩, sk, ck⟩ := s
  obtain ⟨⟨id', name', needs', runsOn', perm', envr', conc', outs', env', dflt', cond', steps', tm', strat', coe', cont', serv', wc', pos'⟩, ⟨cu', ci', cs', cinh'⟩, sk', ck'⟩ := s'
  simp only [nJobSt, nJob, nCall, JobSt.mk.injEq, Job.mk.injEq, WorkflowCall.mk.injEq] at h
  obtain ⟨⟨hid, rfl, hneeds, rfl, rfl, rfl, rfl, houts, henv, rfl, rfl, hsteps, rfl, hstrat, rfl, hcont, hserv, hwc, rfl⟩, ⟨rfl, hci, hcs, rfl⟩, rfl, rfl⟩ := h
  have hs := option_map_isNone hsteps
  simp only [jobFinish, hj, hs]
  split
  · split
    · exact ⟨by simp only [nJob, hid, hneeds, houts, henv, hsteps, hstrat, hcont, hserv, hwc], SameSites.one _ _ _ _⟩
    · exact ⟨by simp only [nJob, nCall, Option.map_some, hid, hneeds, houts, henv, hsteps, hstrat, hcont, hserv, hci, hcs], rfl⟩
  · refine ⟨by simp only [nJob, hid, hneeds, houts, henv, hsteps, hstrat, hcont, hserv, hwc], ?_⟩
    refine sim_append3 ?_ ?_ ?_
    · split
      · exact SameSites.one _ _ _ _
      · rfl
    · split
      · exact SameSites.one _ _ _ _
      · rfl
    · split
      · exact SameSites.one _ _ _ _
      · rfl

/-- **`parseJob` under two spellings of the job id** (the key of `jobs:`) -/
theorem parseJob_id_sim (jid jid' : Str) (hj : nStr F.jobId jid = nStr F.jobId jid') (n : Node) :
    Sim (nJob F) (parseJob cfg jid n) (parseJob cfg jid' n) := by
  have hp := (nStr_eq hj).2.2
  obtain ⟨i1, i2⟩ := parseMapping_what cfg (jobWhat jid.value) (jobWhat jid'.value) n false true
  obtain ⟨j1, j2⟩ := loop_frame (jobKey cfg) (jobKey cfg) (nJobSt F) (fun s s' kv hs => jobKey_frame F cfg s s' kv hs)
    (parseMapping cfg (jobWhat jid.value) n false true).1 { job := { id := jid, pos := jid.pos } } { job := { id := jid', pos := jid'.pos } }
    (by simp only [nJobSt, nJob, hj, hp])
  obtain ⟨k1, k2⟩ := jobFinish_frame F jid jid' hp _ _ j1
  simp only [parseJob, ← i1]
  exact ⟨k1, sim_append3 i2 j2 k2⟩

/-- the loop body of `parse` -/
theorem workflowKey_frame (w w' : Workflow) (kv : KV) (h : nWf F w = nWf F w') :
    Sim (nWf F) (workflowKey cfg w kv) (workflowKey cfg w' kv) := by
  obtain ⟨name, rn, on, perm, env, dflt, conc, jobs⟩ := w
  obtain ⟨name', rn', on', perm', env', dflt', conc', jobs'⟩ := w'
  simp only [nWf, Workflow.mk.injEq] at h
  obtain ⟨rfl, rfl, hon, rfl, henv, rfl, rfl, hjobs⟩ := h
  simp only [workflowKey]
  split <;> exact ⟨by simp only [nWf, hon, henv, hjobs], rfl⟩

theorem workflowFinish_frame (doc : Node) (w w' : Workflow) (h : nWf F w = nWf F w') :
    Sim (nWf F) ((workflowSect cfg doc).finish w) ((workflowSect cfg doc).finish w') := by
  refine ⟨h, ?_⟩
  have h1 : w.on.isNone = w'.on.isNone := option_map_isNone (g := List.map (nEvent F.event)) (congrArg Workflow.on h)
  have h2 : w.jobs.isNone = w'.jobs.isNone := option_map_isNone (g := nAssoc (nJob F)) (congrArg Workflow.jobs h)
  simp only [workflowSect, h1, h2]
  rfl

end AL.C08D
