import AL.Lemmas.C14DCaller
/-
  Lemmas for AL.Props.C14Doc, part 5: a step node the parser accepts — `parseStep_action_read`: with `uses:` it is an action
  step, `uses` is the scalar, the inputs are the entries of `with:` other than `entrypoint` / `args`, ids = folded keys.
-/
namespace AL.C14D
open AL.Yaml AL.PW AL.Ast AL.C10M

def execUses : Exec → Option Str
  | .action e => e.uses
  | _ => none

def execInputs : Exec → Option (List (String × Input))
  | .action e => e.inputs
  | _ => none

theorem withKey_uses (st : ExecAction) (kv : KV) : (withKey st kv).1.uses = st.uses := by
  simp only [withKey]
  split <;> rfl

theorem withKey_loop_uses (kvs : List KV) (e0 : ExecAction) : (loop withKey e0 kvs).1.uses = e0.uses :=
  loop_inv' withKey (fun st => st.uses = e0.uses) kvs (fun s kv hp => (withKey_uses s kv).trans hp) e0 rfl

/-- what one entry of `with:` adds to the inputs -/
def withEntry (kv : KV) : Option (String × Input) :=
  if kv.id = "entrypoint" ∨ kv.id = "args" then none else some (kv.id, ⟨kv.key, (parseString kv.val true).1⟩)

theorem withKey_inputs (st : ExecAction) (kv : KV) (l : List (String × Input)) (h : st.inputs = some l) :
    (withKey st kv).1.inputs = some (l ++ (withEntry kv).toList) := by
  simp only [withKey, withEntry]
  split
  · rename_i he; simp [he, h]
  · rename_i ha; simp [ha, h]
  · rename_i h1 h2
    have hn : ¬ (kv.id = "entrypoint" ∨ kv.id = "args") := by
      rintro (e | e)
      · exact h1 e
      · exact h2 e
    simp [hn, h]

theorem withKey_loop_inputs : ∀ (kvs : List KV) (e0 : ExecAction) (l : List (String × Input)), e0.inputs = some l →
    (loop withKey e0 kvs).1.inputs = some (l ++ kvs.filterMap withEntry)
  | [], e0, l, h => by simpa using h
  | kv :: rest, e0, l, h => by
    rw [AL.C03P.loop_cons_fst, withKey_loop_inputs rest _ _ (withKey_inputs e0 kv l h)]
    cases hw : withEntry kv <;> simp [hw]

theorem withEntries_read (cfg : Cfg) : ∀ (l : List (Node × Node)),
    (∀ q ∈ l, (withEntry (mkKV cfg false q)).isSome = true → (parseString q.2 true).2 = []) →
    (l.map (mkKV cfg false)).filterMap withEntry =
      (l.filter fun q => cfg.lower q.1.value ≠ "entrypoint" && cfg.lower q.1.value ≠ "args").map
        fun q => (cfg.lower q.1.value, (⟨newString q.1, newString q.2⟩ : Input))
  | [], _ => rfl
  | q :: rest, h => by
    have ih := withEntries_read cfg rest (fun q' hq' => h q' (List.mem_cons_of_mem _ hq'))
    simp only [List.map_cons, List.filterMap_cons, List.filter_cons]
    by_cases he : cfg.lower q.1.value = "entrypoint"
    · have : withEntry (mkKV cfg false q) = none := by simp [withEntry, mkKV_id_ci, he]
      simp [this, he, ih]
    · by_cases ha : cfg.lower q.1.value = "args"
      · have : withEntry (mkKV cfg false q) = none := by simp [withEntry, mkKV_id_ci, ha]
        simp [this, ha, ih]
      · have hw : withEntry (mkKV cfg false q) = some (cfg.lower q.1.value, ⟨newString q.1, (parseString q.2 true).1⟩) := by
          simp [withEntry, mkKV_id_ci, he, ha]
          exact ⟨rfl, rfl⟩
        have hc := h q (List.mem_cons_self ..) (by rw [hw]; rfl)
        have h2 := (AL.C03P.parseString_clean q.2 true hc).2
        rw [h2] at hw
        simp [hw, he, ha, ih]

/-- `with:` of a step, accepted by the parser: the inputs it yields -/
theorem stepWith_read (cfg : Cfg) (w : Node) (e0 : ExecAction) (h0 : e0.inputs = some [])
    (hm : (parseSectionMapping cfg "with" w false false).2 = [])
    (hl : (loop withKey e0 (parseSectionMapping cfg "with" w false false).1).2 = []) :
    (loop withKey e0 (parseSectionMapping cfg "with" w false false).1).1.inputs = some (stepArgs cfg w) := by
  simp only [parseSectionMapping] at hm hl ⊢
  obtain ⟨_, heq, _, _, _⟩ := parseMapping_clean_eq cfg _ w false false hm
  rw [heq] at hl ⊢
  rw [withKey_loop_inputs _ e0 [] h0, List.nil_append, stepArgs]
  congr 1
  apply withEntries_read
  intro q hq hsome
  obtain ⟨st, hst⟩ := loop_clean_mem withKey _ e0 hl (mkKV cfg false q) (List.mem_map.2 ⟨q, hq, rfl⟩)
  simp only [withEntry] at hsome
  split at hsome
  · cases hsome
  · rename_i hne
    have h1 : (mkKV cfg false q).id ≠ "entrypoint" := fun e => hne (Or.inl e)
    have h2 : (mkKV cfg false q).id ≠ "args" := fun e => hne (Or.inr e)
    simp only [withKey] at hst
    exact hst

/-! ### `stepKey` -/

theorem stepKey_uses_keep (cfg : Cfg) (st : StepSt) (kv : KV) (hne : kv.id ≠ "uses") :
    execUses (stepKey cfg st kv).1.step.exec = execUses st.step.exec := by
  simp only [stepKey]
  split
  · rfl
  · rfl
  · rfl
  · rfl
  · rfl
  · rfl
  · rename_i h; exact absurd h hne
  · split
    · rfl
    · rename_i h; simp [execUses, h, withKey_loop_uses]
    · rename_i e h; simp [execUses, h, withKey_loop_uses]
  · split
    · rfl
    · rename_i h; simp [execUses, h]
    · rename_i e h; simp [execUses, h]
  · split
    · rfl
    · rename_i h; simp [execUses, h]
    · rename_i e h; simp [execUses, h]
  · split
    · rename_i e h; simp [execUses, h]
    · rfl
  · rfl

theorem stepKey_inputs_keep (cfg : Cfg) (st : StepSt) (kv : KV) (hne : kv.id ≠ "with") :
    execInputs (stepKey cfg st kv).1.step.exec = execInputs st.step.exec := by
  simp only [stepKey]
  split
  · rfl
  · rfl
  · rfl
  · rfl
  · rfl
  · rfl
  · split
    · rfl
    · rename_i h; simp [execInputs, h]
    · rename_i e h; simp [execInputs, h]
  · rename_i h; exact absurd h hne
  · split
    · rfl
    · rename_i h; simp [execInputs, h]
    · rename_i e h; simp [execInputs, h]
  · split
    · rfl
    · rename_i h; simp [execInputs, h]
    · rename_i e h; simp [execInputs, h]
  · split
    · rename_i e h; simp [execInputs, h]
    · rfl
  · rfl

theorem stepKey_uses_set (cfg : Cfg) (st : StepSt) (kv : KV) (hk : kv.id = "uses") (hc : (stepKey cfg st kv).2 = []) :
    execUses (stepKey cfg st kv).1.step.exec = some (parseString kv.val false).1 := by
  simp only [stepKey, hk] at hc ⊢
  split at hc
  · simp at hc
  · simp [execUses]
  · simp [execUses]

theorem stepKey_with_set (cfg : Cfg) (st : StepSt) (kv : KV) (hk : kv.id = "with") (hc : (stepKey cfg st kv).2 = []) :
    execInputs (stepKey cfg st kv).1.step.exec = some (stepArgs cfg kv.val) := by
  simp only [stepKey, hk] at hc ⊢
  split at hc
  · simp at hc
  · rename_i h
    obtain ⟨h1, h2⟩ := nil_of_append_nil hc
    simp only [execInputs]
    exact stepWith_read cfg kv.val _ rfl h1 h2
  · rename_i e h
    obtain ⟨h1, h2⟩ := nil_of_append_nil hc
    simp only [execInputs]
    exact stepWith_read cfg kv.val _ rfl h1 h2

/-- **a step with `uses:`** (accepted by the parser): an action step; `uses` and the inputs are what the node says -/
theorem parseStep_action_read (cfg : Cfg) (sn : Node) (hc : (parseStep cfg sn).2 = []) (vU : Node) (hu : attr "uses" sn = some vU) :
    ∃ e, (parseStep cfg sn).1.exec = .action e ∧ e.uses = some (newString vU) ∧ e.inputs = stepWith cfg sn := by
  simp only [parseStep] at hc ⊢
  obtain ⟨hc12, _⟩ := nil_of_append_nil hc
  obtain ⟨hm, hl⟩ := nil_of_append_nil hc12
  obtain ⟨_, heq, hnd, _, hne⟩ := parseMapping_clean_eq cfg _ sn false true hm
  obtain ⟨hmap, _⟩ := hne rfl
  rw [heq] at hl ⊢
  generalize hinit : ({ step := { pos := sn.pos } } : StepSt) = init at hl ⊢
  have hat : ∀ name, attr name sn = valueOf name (pairs sn.content) := fun name => by simp [attr, hmap]
  have huses := loop_field_clean (stepKey cfg) (fun st => execUses st.step.exec) "uses" (fun _ kv => some (parseString kv.val false).1)
    (by intro st a ha hcl; exact stepKey_uses_set cfg st a ha hcl)
    (by intro st a ha _; exact stepKey_uses_keep cfg st a ha)
    _ init hnd hl
  rw [match_find_val cfg "uses" (fun x => some (parseString x false).1) _ (pairs sn.content), ← hat, hu] at huses
  simp only [Option.elim] at huses
  have hvU : (parseString vU false).1 = newString vU := by
    rw [hat] at hu
    obtain ⟨k, hmem, hkv⟩ := valueOf_mem hu
    obtain ⟨st, hst⟩ := loop_clean_mem (stepKey cfg) _ init hl (mkKV cfg true (k, vU)) (List.mem_map.2 ⟨_, hmem, rfl⟩)
    have hid : (mkKV cfg true (k, vU)).id = "uses" := hkv
    simp only [stepKey, hid] at hst
    split at hst
    · simp at hst
    · exact (AL.C03P.parseString_clean vU false hst).2
    · exact (AL.C03P.parseString_clean vU false hst).2
  rw [hvU] at huses
  have hwith := loop_field_clean (stepKey cfg) (fun st => execInputs st.step.exec) "with" (fun _ kv => some (stepArgs cfg kv.val))
    (by intro st a ha hcl; exact stepKey_with_set cfg st a ha hcl)
    (by intro st a ha _; exact stepKey_inputs_keep cfg st a ha)
    _ init hnd hl
  rw [match_find_val cfg "with" (fun x => some (stepArgs cfg x)) _ (pairs sn.content)] at hwith
  have hwith' : execInputs (loop (stepKey cfg) init ((pairs sn.content).map (mkKV cfg true))).1.step.exec = stepWith cfg sn := by
    rw [hwith]
    simp only [stepWith, hat]
    cases hv : valueOf "with" (pairs sn.content) with
    | none => subst hinit; rfl
    | some w => rfl
  cases hex : (loop (stepKey cfg) init ((pairs sn.content).map (mkKV cfg true))).1.step.exec with
  | none => rw [hex] at huses; cases huses
  | run r => rw [hex] at huses; cases huses
  | action e =>
    rw [hex] at huses hwith'
    exact ⟨e, rfl, huses, hwith'⟩

/-- a step without `uses:` (accepted by the parser) uses no action -/
theorem parseStep_nouses (cfg : Cfg) (sn : Node) (hc : (parseStep cfg sn).2 = []) (hu : attr "uses" sn = none) :
    execUses (parseStep cfg sn).1.exec = none := by
  simp only [parseStep] at hc ⊢
  obtain ⟨hc12, _⟩ := nil_of_append_nil hc
  obtain ⟨hm, hl⟩ := nil_of_append_nil hc12
  obtain ⟨_, heq, hnd, _, hne⟩ := parseMapping_clean_eq cfg _ sn false true hm
  obtain ⟨hmap, _⟩ := hne rfl
  rw [heq] at hl ⊢
  generalize hinit : ({ step := { pos := sn.pos } } : StepSt) = init at hl ⊢
  have hat : ∀ name, attr name sn = valueOf name (pairs sn.content) := fun name => by simp [attr, hmap]
  have huses := loop_field_clean (stepKey cfg) (fun st => execUses st.step.exec) "uses" (fun _ kv => some (parseString kv.val false).1)
    (by intro st a ha hcl; exact stepKey_uses_set cfg st a ha hcl)
    (by intro st a ha _; exact stepKey_uses_keep cfg st a ha)
    _ init hnd hl
  rw [match_find_val cfg "uses" (fun x => some (parseString x false).1) _ (pairs sn.content), ← hat, hu] at huses
  rw [huses]
  subst hinit
  rfl

end AL.C14D
