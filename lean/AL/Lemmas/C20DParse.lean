import AL.Lemmas.C20DBase
import AL.Lemmas.C05DJob
/-
  AL.Props.C20Doc, the parser side: for nodes the parser accepts without a diagnostic, the fields the shellcheck / pyflakes
  rules read are what is WRITTEN — a step's `shell:` and the position of its `run:` key, a job's and the workflow's
  `defaults.run.shell`.
-/
namespace AL.C20D
open AL.PW AL.Yaml AL.Ast AL.C03P AL.C05D

/-! ### a step: `shell:` and the position of the `run:` key -/

def shellOf (s : Step) : Option Str := match s.exec with | .run e => e.shell | _ => none
def runPosOf (s : Step) : Option Yaml.Pos := match s.exec with | .run e => e.runPos | _ => none

theorem stepKey_shell_ne (cfg : Cfg) (st : StepSt) (kv : KV) (h : kv.id ≠ "shell") : shellOf (stepKey cfg st kv).1.step = shellOf st.step := by
  simp only [stepKey]
  split
  case h_10 => exact absurd ‹_› h
  all_goals first | rfl | (split <;> simp_all [shellOf])

theorem stepKey_shell_eq (cfg : Cfg) (st : StepSt) (kv : KV) (h : kv.id = "shell") (hc : (stepKey cfg st kv).2 = []) :
    shellOf (stepKey cfg st kv).1.step = some (parseString kv.val false).1 ∧ (parseString kv.val false).2 = [] := by
  revert hc
  simp only [stepKey]
  split
  case h_10 => split <;> simp_all [shellOf]
  all_goals (intro _; exfalso; simp_all)

/-- **the `shell` of a parsed step is the `shell:` scalar of the step node** -/
theorem parseStep_shell (cfg : Cfg) (n : Node) (h : (parseStep cfg n).2 = []) :
    shellOf (parseStep cfg n).1 = (mget n "shell").map newString := by
  obtain ⟨hm, hr⟩ := parseStep_clean cfg n h
  have hf := sect_field_clean cfg "element of \"steps\" section" n false (stepKey cfg) { step := { pos := n.pos } }
    (fun st => shellOf st.step) "shell" (fun kv => some (parseString kv.val false).1)
    (fun st kv hne => stepKey_shell_ne cfg st kv hne) (fun st kv he hc => (stepKey_shell_eq cfg st kv he hc).1) hm hr
  simp only [parseStep]
  rw [hf]
  simp only [mget]
  cases hp : mpair n "shell" with
  | none => rfl
  | some p =>
    obtain ⟨hmem, hk⟩ := mpair_mem hp
    obtain ⟨st, hc⟩ := sect_clean_at cfg _ n false true (stepKey cfg) _ hm hr p hmem
    have := (stepKey_shell_eq cfg st _ (by rw [kvOf_true]; exact hk) hc).2
    simp only [kvOf_true] at this ⊢
    simp only [(parseString_clean p.2 false this).2, Option.map_some]

theorem stepKey_runPos_ne (cfg : Cfg) (st : StepSt) (kv : KV) (h : kv.id ≠ "run") : runPosOf (stepKey cfg st kv).1.step = runPosOf st.step := by
  simp only [stepKey]
  split
  case h_9 => exact absurd ‹_› h
  all_goals first | rfl | (split <;> simp_all [runPosOf])

theorem stepKey_runPos_eq (cfg : Cfg) (st : StepSt) (kv : KV) (h : kv.id = "run") (hc : (stepKey cfg st kv).2 = []) :
    runPosOf (stepKey cfg st kv).1.step = some kv.key.pos := by
  revert hc
  simp only [stepKey]
  split
  case h_9 => split <;> simp_all [runPosOf]
  all_goals (intro _; exfalso; simp_all)

/-- **`RunPos` of a parsed step is the position of the `run` KEY of the step node** -/
theorem parseStep_runPos (cfg : Cfg) (n : Node) (h : (parseStep cfg n).2 = []) :
    runPosOf (parseStep cfg n).1 = (mpair n "run").map (·.1.pos) := by
  obtain ⟨hm, hr⟩ := parseStep_clean cfg n h
  have hf := sect_field_clean cfg "element of \"steps\" section" n false (stepKey cfg) { step := { pos := n.pos } }
    (fun st => runPosOf st.step) "run" (fun kv => some kv.key.pos)
    (fun st kv hne => stepKey_runPos_ne cfg st kv hne) (fun st kv he hc => stepKey_runPos_eq cfg st kv he hc) hm hr
  simp only [parseStep]
  rw [hf]
  cases hp : mpair n "run" with
  | none => rfl
  | some p => simp only [kvOf_true, Option.map_some]; rfl

/-! ### `defaults:` -/

/-- the body of the key loop of `parseDefaults` -/
def defaultsKey (cfg : Cfg) (st : Option DefaultsRun) (kv : KV) : Option DefaultsRun × List PErr :=
  if kv.id ≠ "run" then (st, [unexpectedKey kv.key "defaults" ["run"]])
  else
    let mm := parseSectionMapping cfg "run" kv.val false true
    let rr := loop defaultsRunKey { pos := kv.key.pos } mm.1
    (some rr.1, mm.2 ++ rr.2)

theorem parseDefaults_eq (cfg : Cfg) (pos : Yaml.Pos) (n : Node) :
    parseDefaults cfg pos n =
      (⟨(loop (defaultsKey cfg) none (parseSectionMapping cfg "defaults" n false true).1).1, pos⟩,
        (parseSectionMapping cfg "defaults" n false true).2 ++ (loop (defaultsKey cfg) none (parseSectionMapping cfg "defaults" n false true).1).2 ++
        (if (loop (defaultsKey cfg) none (parseSectionMapping cfg "defaults" n false true).1).1.isNone then [errAt n "defaults-no-run" []] else [])) := rfl

theorem defaultsRunKey_shell_ne (st : DefaultsRun) (kv : KV) (h : kv.id ≠ "shell") : (defaultsRunKey st kv).1.shell = st.shell := by
  simp only [defaultsRunKey]
  split <;> first | rfl | exact absurd ‹_› h

theorem defaultsRunKey_shell_eq (st : DefaultsRun) (kv : KV) (h : kv.id = "shell") :
    (defaultsRunKey st kv).1.shell = some (parseString kv.val false).1 ∧ (defaultsRunKey st kv).2 = (parseString kv.val false).2 := by
  simp only [defaultsRunKey]
  split <;> first | exact ⟨rfl, rfl⟩ | (exfalso; simp_all)

/-- the text written at `<n>: run: shell:` -/
def docRunShellNode (n : Node) : Option Node := (mget n "run").bind (mget · "shell")

/-- **`parseDefaults`, clean**: there IS a `run:` (so `Defaults.Run != nil`), and `Run.Shell` is the scalar written at
`run: shell:`, which is not empty -/
theorem parseDefaults_clean (cfg : Cfg) (pos : Yaml.Pos) (n : Node) (h : (parseDefaults cfg pos n).2 = []) :
    hasRun (some (parseDefaults cfg pos n).1) = true ∧
    AL.Rules.defaultsShell (some (parseDefaults cfg pos n).1) = (docRunShellNode n).map newString ∧
    ∀ v, docRunShellNode n = some v → v.value ≠ "" := by
  rw [parseDefaults_eq] at h ⊢
  simp only [append_nil_iff] at h
  obtain ⟨⟨hm, hr⟩, hn⟩ := h
  unfold parseSectionMapping at hm hr hn ⊢
  have hf := sect_field cfg (sectionWhat "defaults") n false (defaultsKey cfg) none (fun st => st) "run"
    (fun kv => some (loop defaultsRunKey { pos := kv.key.pos } (parseSectionMapping cfg "run" kv.val false true).1).1)
    (fun st kv hne => by simp [defaultsKey, hne]) (fun st kv he => by simp [defaultsKey, he]) hm
  cases hp : mpair n "run" with
  | none =>
    rw [hp] at hf
    rw [hf] at hn
    simp at hn
  | some p =>
    rw [hp] at hf
    obtain ⟨hmem, hk⟩ := mpair_mem hp
    obtain ⟨st, hc⟩ := sect_clean_at cfg _ n false true (defaultsKey cfg) _ hm hr p hmem
    have hid : (kvOf cfg true p).id = "run" := by rw [kvOf_true]; exact hk
    simp only [defaultsKey, hid, ne_eq, not_true_eq_false, if_false, append_nil_iff] at hc
    obtain ⟨hm2, hr2⟩ := hc
    unfold parseSectionMapping at hm2 hr2 hf
    simp only [kvOf_true] at hm2 hr2 hf
    have hf2 := sect_field cfg (sectionWhat "run") p.2 false defaultsRunKey { pos := (newString p.1).pos } (fun st => st.shell) "shell"
      (fun kv => some (parseString kv.val false).1)
      (fun st kv hne => defaultsRunKey_shell_ne st kv hne) (fun st kv he => (defaultsRunKey_shell_eq st kv he).1) hm2
    have hget : mget n "run" = some p.2 := by simp [mget, hp]
    have hds : docRunShellNode n = (mpair p.2 "shell").map (·.2) := by
      simp only [docRunShellNode, hget, Option.bind_some]; rfl
    refine ⟨by simp [hasRun, hf], ?_, ?_⟩
    · rw [hds]
      simp only [AL.Rules.defaultsShell, hf, hf2]
      cases hq : mpair p.2 "shell" with
      | none => rfl
      | some q =>
        obtain ⟨hmem2, hk2⟩ := mpair_mem hq
        obtain ⟨st2, hc2⟩ := sect_clean_at cfg _ p.2 false true defaultsRunKey _ hm2 hr2 q hmem2
        rw [(defaultsRunKey_shell_eq st2 _ (by rw [kvOf_true]; exact hk2)).2] at hc2
        simp only [kvOf_true] at hc2 ⊢
        simp only [(parseString_clean q.2 false hc2).2, Option.map_some]
    · intro v hv
      rw [hds] at hv
      cases hq : mpair p.2 "shell" with
      | none => rw [hq] at hv; cases hv
      | some q =>
        rw [hq] at hv
        simp only [Option.map_some, Option.some.injEq] at hv
        subst hv
        obtain ⟨hmem2, hk2⟩ := mpair_mem hq
        obtain ⟨st2, hc2⟩ := sect_clean_at cfg _ p.2 false true defaultsRunKey _ hm2 hr2 q hmem2
        rw [(defaultsRunKey_shell_eq st2 _ (by rw [kvOf_true]; exact hk2)).2] at hc2
        simp only [kvOf_true] at hc2
        intro he
        simp [parseString, checkString, he] at hc2
        revert hc2
        by_cases hks : q.2.kind = .scalar <;> simp [hks, errAt]

/-! ### a job: `defaults`, `runs-on` -/

theorem jobFinish_shell_fields (id : Str) (st : JobSt) :
    (jobFinish id st).1.defaults = st.job.defaults ∧ (jobFinish id st).1.runsOn = st.job.runsOn := by
  simp only [jobFinish]
  split
  · split <;> exact ⟨rfl, rfl⟩
  · exact ⟨rfl, rfl⟩

theorem jobKey_defaults_ne (cfg : Cfg) (st : JobSt) (kv : KV) (h : kv.id ≠ "defaults") : (jobKey cfg st kv).1.job.defaults = st.job.defaults := by
  simp only [jobKey]
  split <;> first | rfl | exact absurd ‹_› h | (split <;> first | rfl | (split <;> rfl))

theorem jobKey_defaults_eq (cfg : Cfg) (st : JobSt) (kv : KV) (h : kv.id = "defaults") :
    (jobKey cfg st kv).1.job.defaults = some (parseDefaults cfg kv.key.pos kv.val).1 ∧
    (jobKey cfg st kv).2 = (parseDefaults cfg kv.key.pos kv.val).2 := by
  simp only [jobKey]
  split <;> first | exact ⟨rfl, rfl⟩ | (exfalso; simp_all)

/-- **`Job.Defaults` of a parsed job is what `parseDefaults` makes of the value written under `defaults:`**, without a
diagnostic -/
theorem parseJob_defaults (cfg : Cfg) (id : Str) (n : Node) (h : (parseJob cfg id n).2 = []) :
    (parseJob cfg id n).1.defaults = (mpair n "defaults").map (fun p => (parseDefaults cfg p.1.pos p.2).1) ∧
    ∀ p, mpair n "defaults" = some p → (parseDefaults cfg p.1.pos p.2).2 = [] := by
  obtain ⟨hm, hr⟩ := parseJob_clean cfg id n h
  have hf := sect_field cfg (jobWhat id.value) n false (jobKey cfg) { job := { id := id, pos := id.pos } }
    (fun st => st.job.defaults) "defaults" (fun kv => some (parseDefaults cfg kv.key.pos kv.val).1)
    (fun st kv hne => jobKey_defaults_ne cfg st kv hne) (fun st kv he => (jobKey_defaults_eq cfg st kv he).1) hm
  refine ⟨?_, ?_⟩
  · show (jobFinish id (jobLoop cfg id n).1).1.defaults = _
    rw [(jobFinish_shell_fields id _).1]
    unfold jobLoop
    rw [hf]
    cases hp : mpair n "defaults" with
    | none => rfl
    | some p => simp only [kvOf_true, Option.map_some]; rfl
  · intro p hp
    obtain ⟨hmem, hk⟩ := mpair_mem hp
    obtain ⟨st, hc⟩ := sect_clean_at cfg _ n false true (jobKey cfg) _ hm hr p hmem
    rw [(jobKey_defaults_eq cfg st _ (by rw [kvOf_true]; exact hk)).2] at hc
    simp only [kvOf_true] at hc
    exact hc

/-! ### `runs-on:` -/

/-- the label scalars of a `labels:` value (or of a scalar / sequence `runs-on:` value): none when it is one `${{ }}` -/
def labelNodesOf (l : Node) : List Node :=
  if (mayParseExpression l).isSome then [] else if l.kind = .scalar then [l] else l.content

/-- the literal label scalars written under `runs-on:`: the scalar, the elements of the sequence, or those of `labels:` of
the mapping form -/
def docLabelNodes (v : Node) : List Node :=
  if (mayParseExpression v).isSome then []
  else if v.kind = .scalar || v.kind = .sequence then labelNodesOf v
  else match mget v "labels" with
    | some l => labelNodesOf l
    | none => []

/-- the literal labels of a job node, as written -/
def docLabels (job : Node) : List String :=
  match mget job "runs-on" with
  | some v => (docLabelNodes v).map (·.value)
  | none => []

theorem psoss_clean (sec : String) (v : Node) (h : (parseStringOrStringSequence sec v false false).2 = []) :
    (parseStringOrStringSequence sec v false false).1 = some ((if v.kind = .scalar then [v] else v.content).map newString) := by
  simp only [parseStringOrStringSequence] at h ⊢
  by_cases hk : v.kind = .scalar
  · simp only [hk, if_true, Bool.false_and, Bool.false_eq_true, if_false] at h ⊢
    simp [(parseString_clean v false h).2]
  · simp only [hk, if_false] at h ⊢
    simp only [parseStringSequence] at h ⊢
    split at h
    · rename_i hc
      have := checkSequence_clean sec v false h
      simp [this.2] at hc
    · rename_i hc
      simp only [hc]
      simp only [append_nil_iff] at h
      simp [parseStrings_clean_eq false _ h.2]

variable {σ τ : Type}

theorem loop_pres (step : σ → KV → σ × List PErr) (π : σ → τ) (k : String)
    (hne : ∀ st kv, kv.id ≠ k → π (step st kv).1 = π st) :
    ∀ (kvs : List KV) (init : σ), k ∉ kvs.map (·.id) → π (loop step init kvs).1 = π init
  | [], _, _ => rfl
  | x :: rest, init, h => by
    simp only [List.map_cons, List.mem_cons, not_or] at h
    rw [loop_cons_fst, loop_pres step π k hne rest _ h.2, hne _ _ (fun e => h.1 e.symm)]

/-- `loop_field` where the writing iteration may read the field's INITIAL value -/
theorem loop_field_init (step : σ → KV → σ × List PErr) (π : σ → τ) (k : String) (f : KV → τ) (π0 : τ)
    (hne : ∀ st kv, kv.id ≠ k → π (step st kv).1 = π st)
    (heq : ∀ st kv, kv.id = k → π st = π0 → π (step st kv).1 = f kv) :
    ∀ (kvs : List KV) (init : σ), (kvs.map (·.id)).Nodup → π init = π0 →
      π (loop step init kvs).1 = match kvs.find? (fun kv => kv.id = k) with | some kv => f kv | none => π0
  | [], _, _, h0 => h0
  | x :: rest, init, hnd, h0 => by
    simp only [List.map_cons, List.nodup_cons] at hnd
    rw [loop_cons_fst]
    by_cases hx : x.id = k
    · rw [loop_pres step π k hne rest _ (by rw [← hx]; exact hnd.1)]
      simp only [List.find?_cons, hx, decide_true, heq _ _ hx h0]
    · rw [loop_field_init step π k f π0 hne heq rest _ hnd.2 (by rw [hne _ _ hx]; exact h0)]
      simp only [List.find?_cons, hx, decide_false]

theorem runsOnKey_labels_ne (st : Runner) (kv : KV) (h : kv.id ≠ "labels") : (runsOnKey st kv).1.labels = st.labels := by
  simp only [runsOnKey]
  split <;> first | rfl | exact absurd ‹_› h

/-- what the `labels` iteration writes -/
def labelsVal (kv : KV) : Option (List Str) :=
  match mayParseExpression kv.val with
  | some _ => none
  | none => (parseStringOrStringSequence "labels" kv.val false false).1

theorem runsOnKey_labels_eq (st : Runner) (kv : KV) (h : kv.id = "labels") (h0 : st.labels = none) :
    (runsOnKey st kv).1.labels = labelsVal kv := by
  simp only [runsOnKey, labelsVal]
  split
  · split <;> simp_all
  all_goals (exfalso; simp_all)

theorem runsOnKey_labels_clean (st : Runner) (kv : KV) (h : kv.id = "labels") (hc : (runsOnKey st kv).2 = [])
    (he : mayParseExpression kv.val = none) : (parseStringOrStringSequence "labels" kv.val false false).2 = [] := by
  revert hc
  simp only [runsOnKey]
  split
  · simp only [he]; exact id
  all_goals (intro _; simp_all)

/-- **the literal labels of a parsed `runs-on:` are the label scalars written** -/
theorem parseRunsOn_labels (cfg : Cfg) (v : Node) (h : (parseRunsOn cfg v).2 = []) :
    (parseRunsOn cfg v).1.labels.getD [] = (docLabelNodes v).map newString := by
  unfold parseRunsOn at h ⊢
  unfold docLabelNodes
  cases he : mayParseExpression v with
  | some e => simp
  | none =>
    simp only [he] at h ⊢
    by_cases hk : (v.kind = .scalar || v.kind = .sequence) = true
    · simp only [hk, if_true] at h ⊢
      simp only [psoss_clean "runs-on" v h, Option.getD_some, labelNodesOf, he, Option.isSome_none, Bool.false_eq_true, if_false]
    · simp only [hk, if_false, append_nil_iff, Option.isSome_none, Bool.false_eq_true] at h ⊢
      obtain ⟨hm, hr⟩ := h
      unfold parseSectionMapping at hm hr ⊢
      have hf := loop_field_init runsOnKey (fun st => st.labels) "labels" labelsVal none
        (fun st kv hne => runsOnKey_labels_ne st kv hne) (fun st kv he h0 => runsOnKey_labels_eq st kv he h0)
        (parseMapping cfg (sectionWhat "runs-on") v false true).1 {} (parseMapping_nodup cfg _ v false true) rfl
      rw [hf, parseMapping_clean_eq cfg _ v false true hm, find?_kvOf]
      simp only [mget, mpair]
      cases hp : (pairs v.content).find? (fun p => p.1.value = "labels") with
      | none => rfl
      | some p =>
        have hp' : mpair v "labels" = some p := hp
        obtain ⟨hmem, hkk⟩ := mpair_mem hp'
        obtain ⟨st, hc⟩ := sect_clean_at cfg _ v false true runsOnKey {} hm hr p hmem
        simp only [Option.map_some, labelsVal, labelNodesOf, kvOf_true]
        cases hel : mayParseExpression p.2 with
        | some e => simp
        | none =>
          have := runsOnKey_labels_clean st _ (by rw [kvOf_true]; exact hkk) hc (by rw [kvOf_true]; exact hel)
          simp only [kvOf_true] at this
          simp only [psoss_clean "labels" p.2 this, Option.getD_some, Option.isSome_none, Bool.false_eq_true, if_false]

theorem jobKey_runsOn_ne (cfg : Cfg) (st : JobSt) (kv : KV) (h : kv.id ≠ "runs-on") : (jobKey cfg st kv).1.job.runsOn = st.job.runsOn := by
  simp only [jobKey]
  split <;> first | rfl | exact absurd ‹_› h | (split <;> first | rfl | (split <;> rfl))

theorem jobKey_runsOn_eq (cfg : Cfg) (st : JobSt) (kv : KV) (h : kv.id = "runs-on") :
    (jobKey cfg st kv).1.job.runsOn = some (parseRunsOn cfg kv.val).1 ∧ (jobKey cfg st kv).2 = (parseRunsOn cfg kv.val).2 := by
  simp only [jobKey]
  split <;> first | exact ⟨rfl, rfl⟩ | (exfalso; simp_all)

/-- **the literal labels of `Job.RunsOn` of a parsed job are the label scalars written under `runs-on:`** -/
theorem parseJob_labels (cfg : Cfg) (id : Str) (n : Node) (h : (parseJob cfg id n).2 = []) :
    labelsOf (parseJob cfg id n).1 = docLabels n := by
  obtain ⟨hm, hr⟩ := parseJob_clean cfg id n h
  have hf := sect_field cfg (jobWhat id.value) n false (jobKey cfg) { job := { id := id, pos := id.pos } }
    (fun st => st.job.runsOn) "runs-on" (fun kv => some (parseRunsOn cfg kv.val).1)
    (fun st kv hne => jobKey_runsOn_ne cfg st kv hne) (fun st kv he => (jobKey_runsOn_eq cfg st kv he).1) hm
  have e : (parseJob cfg id n).1.runsOn = (jobLoop cfg id n).1.job.runsOn := (jobFinish_shell_fields id _).2
  unfold labelsOf docLabels
  rw [e]
  unfold jobLoop
  rw [hf]
  simp only [mget]
  cases hp : mpair n "runs-on" with
  | none => rfl
  | some p =>
    obtain ⟨hmem, hk⟩ := mpair_mem hp
    obtain ⟨st, hc⟩ := sect_clean_at cfg _ n false true (jobKey cfg) _ hm hr p hmem
    rw [(jobKey_runsOn_eq cfg st _ (by rw [kvOf_true]; exact hk)).2] at hc
    simp only [kvOf_true] at hc ⊢
    simp only [Option.map_some, parseRunsOn_labels cfg p.2 hc, List.map_map]
    rfl

/-! ### the workflow: `defaults` -/

theorem workflowKey_defaults_ne (cfg : Cfg) (w : Workflow) (kv : KV) (h : kv.id ≠ "defaults") : (workflowKey cfg w kv).1.defaults = w.defaults := by
  simp only [workflowKey]
  split <;> first | rfl | exact absurd ‹_› h

theorem workflowKey_defaults_eq (cfg : Cfg) (w : Workflow) (kv : KV) (h : kv.id = "defaults") :
    (workflowKey cfg w kv).1.defaults = some (parseDefaults cfg kv.key.pos kv.val).1 ∧
    (workflowKey cfg w kv).2 = (parseDefaults cfg kv.key.pos kv.val).2 := by
  simp only [workflowKey]
  split <;> first | exact ⟨rfl, rfl⟩ | (exfalso; simp_all)

/-- **`Workflow.Defaults` of an accepted document** -/
theorem parse_defaults (cfg : Cfg) (doc : Node) (h : (parse cfg doc).2 = []) :
    ∃ root, docRoot doc = some root ∧
      (parse cfg doc).1.defaults = (mpair root "defaults").map (fun p => (parseDefaults cfg p.1.pos p.2).1) ∧
      ∀ p, mpair root "defaults" = some p → (parseDefaults cfg p.1.pos p.2).2 = [] := by
  obtain ⟨root, hroot, hm, hr, he, _, _⟩ := parse_clean cfg doc h
  have hf := sect_field cfg "workflow" root false (workflowKey cfg) {} (fun w => w.defaults) "defaults"
    (fun kv => some (parseDefaults cfg kv.key.pos kv.val).1)
    (fun st kv hne => workflowKey_defaults_ne cfg st kv hne) (fun st kv he => (workflowKey_defaults_eq cfg st kv he).1) hm
  refine ⟨root, hroot, ?_, ?_⟩
  · rw [he, hf]
    cases hp : mpair root "defaults" with
    | none => rfl
    | some p => simp only [kvOf_true, Option.map_some]; rfl
  · intro p hp
    obtain ⟨hmem, hk⟩ := mpair_mem hp
    obtain ⟨st, hc⟩ := sect_clean_at cfg _ root false true (workflowKey cfg) _ hm hr p hmem
    rw [(workflowKey_defaults_eq cfg st _ (by rw [kvOf_true]; exact hk)).2] at hc
    simp only [kvOf_true] at hc
    exact hc

end AL.C20D
