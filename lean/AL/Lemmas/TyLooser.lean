import AL.Model.Ty
import AL.Spec.Looser
/-
  Two refinements of `AL.Spec.Looser` used in the C06 proofs.

  * `LooserW` ("weak"): like `Looser`, but the `deref` flag of arrays is ignored altogether. Everything
    that never looks at the flag (`assignable`, `validCompare`) is monotone for it, and both `Looser`
    and `LooserD` are contained in it.
  * `LooserD` ("deref aware"): the invariant that `Sema.check` really preserves: like `Looser`, but the
    `deref` flag of an array may be switched on (`false ↦ true`). A dereferenced array is never worse for
    acceptance (`objDerefTy` accepts more, nothing else looks at the flag), and `ArrayType.Merge` can
    switch it on when a side is loosened: `array<number>.Merge(array<number>)` has `Deref = false`
    (pinned by a test of the Go code), while with an `any` element type the flags are or-ed.
    `Looser` is contained in `LooserD` (`LooserD.of_looser`).
  (Before the repair of `ArrayType.Merge` — the result's flag was the flag of whichever side was
  returned — `LooserD` needed an extra clause forbidding `array<T> ↦ array<any>` on plain arrays.)
  Neither relation has a `refl` constructor (reflexivity is a lemma), so inversion by `cases` is exact.
-/
namespace AL.Ty
open AL AL.Spec

mutual
inductive LooserW : Ty → Ty → Prop
  | any (t : Ty) : LooserW t .any
  | null : LooserW .null .null
  | number : LooserW .number .number
  | bool : LooserW .bool .bool
  | string : LooserW .string .string
  | arr {e e' : Ty} {d d' : Bool} : LooserW e e' → LooserW (.arr e d) (.arr e' d')
  | obj {ps ps' : List (String × Ty)} {m m' : Option Ty} :
      LooserWProps ps ps' → LooserWMapped m m' → LooserW (.obj ps m) (.obj ps' m')
inductive LooserWProps : List (String × Ty) → List (String × Ty) → Prop
  | nil : LooserWProps [] []
  | cons {k : String} {t t' : Ty} {ps ps' : List (String × Ty)} :
      LooserW t t' → LooserWProps ps ps' → LooserWProps ((k, t) :: ps) ((k, t') :: ps')
inductive LooserWMapped : Option Ty → Option Ty → Prop
  | none : LooserWMapped none none
  | opened : LooserWMapped none (some .any)
  | some {t t' : Ty} : LooserW t t' → LooserWMapped (some t) (some t')
end

mutual
inductive LooserD : Ty → Ty → Prop
  | any (t : Ty) : LooserD t .any
  | null : LooserD .null .null
  | number : LooserD .number .number
  | bool : LooserD .bool .bool
  | string : LooserD .string .string
  | arr {e e' : Ty} {d d' : Bool} : LooserD e e' → (d = true → d' = true) → LooserD (.arr e d) (.arr e' d')
  | obj {ps ps' : List (String × Ty)} {m m' : Option Ty} :
      LooserDProps ps ps' → LooserDMapped m m' → LooserD (.obj ps m) (.obj ps' m')
inductive LooserDProps : List (String × Ty) → List (String × Ty) → Prop
  | nil : LooserDProps [] []
  | cons {k : String} {t t' : Ty} {ps ps' : List (String × Ty)} :
      LooserD t t' → LooserDProps ps ps' → LooserDProps ((k, t) :: ps) ((k, t') :: ps')
inductive LooserDMapped : Option Ty → Option Ty → Prop
  | none : LooserDMapped none none
  | opened : LooserDMapped none (some .any)
  | some {t t' : Ty} : LooserD t t' → LooserDMapped (some t) (some t')
end

/-! ### reflexivity -/

mutual
theorem LooserW.refl : (t : Ty) → LooserW t t
  | .any => .any _
  | .null => .null
  | .number => .number
  | .bool => .bool
  | .string => .string
  | .arr e _ => .arr (LooserW.refl e)
  | .obj ps none => .obj (LooserWProps.refl ps) .none
  | .obj ps (some t) => .obj (LooserWProps.refl ps) (.some (LooserW.refl t))
theorem LooserWProps.refl : (ps : List (String × Ty)) → LooserWProps ps ps
  | [] => .nil
  | (_, t) :: rest => .cons (LooserW.refl t) (LooserWProps.refl rest)
end

mutual
theorem LooserD.refl : (t : Ty) → LooserD t t
  | .any => .any _
  | .null => .null
  | .number => .number
  | .bool => .bool
  | .string => .string
  | .arr e _ => .arr (LooserD.refl e) id
  | .obj ps none => .obj (LooserDProps.refl ps) .none
  | .obj ps (some t) => .obj (LooserDProps.refl ps) (.some (LooserD.refl t))
theorem LooserDProps.refl : (ps : List (String × Ty)) → LooserDProps ps ps
  | [] => .nil
  | (_, t) :: rest => .cons (LooserD.refl t) (LooserDProps.refl rest)
end

theorem LooserWMapped.refl : (m : Option Ty) → LooserWMapped m m
  | Option.none => .none
  | Option.some t => .some (LooserW.refl t)

theorem LooserDMapped.refl : (m : Option Ty) → LooserDMapped m m
  | Option.none => .none
  | Option.some t => .some (LooserD.refl t)

/-! ### inclusions -/

mutual
theorem LooserW.of_looser : {t t' : Ty} → Looser t t' → LooserW t t'
  | _, _, .refl t => LooserW.refl t
  | _, _, .toAny t => .any t
  | _, _, .arr _ h => .arr (LooserW.of_looser h)
  | _, _, .obj hp hm => .obj (LooserWProps.of_looser hp) (LooserWMapped.of_looser hm)
theorem LooserWProps.of_looser : {ps ps' : List (String × Ty)} → LooserProps ps ps' → LooserWProps ps ps'
  | _, _, .nil => .nil
  | _, _, .cons h hr => .cons (LooserW.of_looser h) (LooserWProps.of_looser hr)
theorem LooserWMapped.of_looser : {m m' : Option Ty} → LooserMapped m m' → LooserWMapped m m'
  | _, _, .none => .none
  | _, _, .opened => .opened
  | _, _, .some h => .some (LooserW.of_looser h)
end

mutual
theorem LooserD.toW : {t t' : Ty} → LooserD t t' → LooserW t t'
  | _, _, .any t => .any t
  | _, _, .null => .null
  | _, _, .number => .number
  | _, _, .bool => .bool
  | _, _, .string => .string
  | _, _, .arr h _ => .arr (LooserD.toW h)
  | _, _, .obj hp hm => .obj (LooserDProps.toW hp) (LooserDMapped.toW hm)
theorem LooserDProps.toW : {ps ps' : List (String × Ty)} → LooserDProps ps ps' → LooserWProps ps ps'
  | _, _, .nil => .nil
  | _, _, .cons h hr => .cons (LooserD.toW h) (LooserDProps.toW hr)
theorem LooserDMapped.toW : {m m' : Option Ty} → LooserDMapped m m' → LooserWMapped m m'
  | _, _, .none => .none
  | _, _, .opened => .opened
  | _, _, .some h => .some (LooserD.toW h)
end

/-! plain `Looser` embeds into `LooserD` -/
mutual
theorem LooserD.of_looser : {t t' : Ty} → Looser t t' → LooserD t t'
  | _, _, .refl t => LooserD.refl t
  | _, _, .toAny t => .any t
  | _, _, .arr _ h => .arr (LooserD.of_looser h) id
  | _, _, .obj hp hm => .obj (LooserDProps.of_looser hp) (LooserDMapped.of_looser hm)
theorem LooserDProps.of_looser : {ps ps' : List (String × Ty)} → LooserProps ps ps' → LooserDProps ps ps'
  | _, _, .nil => .nil
  | _, _, .cons h hr => .cons (LooserD.of_looser h) (LooserDProps.of_looser hr)
theorem LooserDMapped.of_looser : {m m' : Option Ty} → LooserMapped m m' → LooserDMapped m m'
  | _, _, .none => .none
  | _, _, .opened => .opened
  | _, _, .some h => .some (LooserD.of_looser h)
end

/-! ### small inversions -/

theorem LooserD.any_left {t : Ty} (h : LooserD .any t) : t = .any := by cases h; rfl
theorem LooserW.any_left {t : Ty} (h : LooserW .any t) : t = .any := by cases h; rfl

theorem LooserDProps.lookup {k : String} : {ps ps' : List (String × Ty)} → LooserDProps ps ps' →
    (lookup k ps = none ∧ lookup k ps' = none) ∨
    (∃ t t', lookup k ps = some t ∧ lookup k ps' = some t' ∧ LooserD t t')
  | _, _, .nil => .inl ⟨rfl, rfl⟩
  | _, _, .cons (k := k') (t := t) (t' := t') h hr => by
    by_cases hk : k' = k
    · exact .inr ⟨t, t', by simp [Ty.lookup, hk], by simp [Ty.lookup, hk], h⟩
    · simpa [Ty.lookup, hk] using LooserDProps.lookup hr

theorem LooserDProps.head_key {k k' : String} {t t' : Ty} {ps ps' : List (String × Ty)}
    (h : LooserDProps ((k, t) :: ps) ((k', t') :: ps')) : k = k' := by
  cases h; rfl

theorem LooserDProps.isEmpty {ps ps' : List (String × Ty)} (h : LooserDProps ps ps') :
    ps'.isEmpty = ps.isEmpty := by cases h <;> rfl

end AL.Ty
