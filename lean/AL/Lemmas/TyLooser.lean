import AL.Model.Ty
import AL.Spec.Looser
/-
  Two refinements of `AL.Spec.Looser` used in the C06 proofs.

  * `LooserW` ("weak"): like `Looser`, but the `deref` flag of arrays is ignored altogether. Everything
    that never looks at the flag (`assignable`, `validCompare`) is monotone for it, and both `Looser`
    and `LooserD` are contained in it.
  * `LooserD` ("deref aware"): the invariant that `Sema.check` really preserves. The flag may be
    switched on (`false ↦ true`: `objDerefTy` accepts more then), and a *plain* array on the loose side
    (`deref = false`) may have element type `any` only if the element type was `any` before.  The second
    clause is forced by `ArrayType.Merge`, which returns the receiver when its element type is `any`,
    else the argument when the argument's element type is `any`: loosening `array<number>` to
    `array<any>` flips which side (and hence which `deref` flag) wins.
  Neither relation has a `refl` constructor (reflexivity is a lemma), so inversion by `cases` is exact.
-/
namespace AL.Ty
open AL AL.Spec

mutual
inductive LooserW : Ty → Ty → Prop
  | any (t : Ty) : LooserW t .any
  | null : LooserW .null .null
  | number : LooserW .number .number
  | bool : LooserW .bool .bool
  | string : LooserW .string .string
  | arr {e e' : Ty} {d d' : Bool} : LooserW e e' → LooserW (.arr e d) (.arr e' d')
  | obj {ps ps' : List (String × Ty)} {m m' : Option Ty} :
      LooserWProps ps ps' → LooserWMapped m m' → LooserW (.obj ps m) (.obj ps' m')
inductive LooserWProps : List (String × Ty) → List (String × Ty) → Prop
  | nil : LooserWProps [] []
  | cons {k : String} {t t' : Ty} {ps ps' : List (String × Ty)} :
      LooserW t t' → LooserWProps ps ps' → LooserWProps ((k, t) :: ps) ((k, t') :: ps')
inductive LooserWMapped : Option Ty → Option Ty → Prop
  | none : LooserWMapped none none
  | opened : LooserWMapped none (some .any)
  | some {t t' : Ty} : LooserW t t' → LooserWMapped (some t) (some t')
end

mutual
inductive LooserD : Ty → Ty → Prop
  | any (t : Ty) : LooserD t .any
  | null : LooserD .null .null
  | number : LooserD .number .number
  | bool : LooserD .bool .bool
  | string : LooserD .string .string
  | arr {e e' : Ty} {d d' : Bool} : LooserD e e' →
      (d' = true ∨ (d = false ∧ (e' = .any → e = .any))) → LooserD (.arr e d) (.arr e' d')
  | obj {ps ps' : List (String × Ty)} {m m' : Option Ty} :
      LooserDProps ps ps' → LooserDMapped m m' → LooserD (.obj ps m) (.obj ps' m')
inductive LooserDProps : List (String × Ty) → List (String × Ty) → Prop
  | nil : LooserDProps [] []
  | cons {k : String} {t t' : Ty} {ps ps' : List (String × Ty)} :
      LooserD t t' → LooserDProps ps ps' → LooserDProps ((k, t) :: ps) ((k, t') :: ps')
inductive LooserDMapped : Option Ty → Option Ty → Prop
  | none : LooserDMapped none none
  | opened : LooserDMapped none (some .any)
  | some {t t' : Ty} : LooserD t t' → LooserDMapped (some t) (some t')
end

/-! ### reflexivity -/

mutual
theorem LooserW.refl : (t : Ty) → LooserW t t
  | .any => .any _
  | .null => .null
  | .number => .number
  | .bool => .bool
  | .string => .string
  | .arr e _ => .arr (LooserW.refl e)
  | .obj ps none => .obj (LooserWProps.refl ps) .none
  | .obj ps (some t) => .obj (LooserWProps.refl ps) (.some (LooserW.refl t))
theorem LooserWProps.refl : (ps : List (String × Ty)) → LooserWProps ps ps
  | [] => .nil
  | (_, t) :: rest => .cons (LooserW.refl t) (LooserWProps.refl rest)
end

mutual
theorem LooserD.refl : (t : Ty) → LooserD t t
  | .any => .any _
  | .null => .null
  | .number => .number
  | .bool => .bool
  | .string => .string
  | .arr e d => .arr (LooserD.refl e) (by cases d <;> simp)
  | .obj ps none => .obj (LooserDProps.refl ps) .none
  | .obj ps (some t) => .obj (LooserDProps.refl ps) (.some (LooserD.refl t))
theorem LooserDProps.refl : (ps : List (String × Ty)) → LooserDProps ps ps
  | [] => .nil
  | (_, t) :: rest => .cons (LooserD.refl t) (LooserDProps.refl rest)
end

theorem LooserWMapped.refl : (m : Option Ty) → LooserWMapped m m
  | Option.none => .none
  | Option.some t => .some (LooserW.refl t)

theorem LooserDMapped.refl : (m : Option Ty) → LooserDMapped m m
  | Option.none => .none
  | Option.some t => .some (LooserD.refl t)

/-! ### inclusions -/

mutual
theorem LooserW.of_looser : {t t' : Ty} → Looser t t' → LooserW t t'
  | _, _, .refl t => LooserW.refl t
  | _, _, .toAny t => .any t
  | _, _, .arr _ h => .arr (LooserW.of_looser h)
  | _, _, .obj hp hm => .obj (LooserWProps.of_looser hp) (LooserWMapped.of_looser hm)
theorem LooserWProps.of_looser : {ps ps' : List (String × Ty)} → LooserProps ps ps' → LooserWProps ps ps'
  | _, _, .nil => .nil
  | _, _, .cons h hr => .cons (LooserW.of_looser h) (LooserWProps.of_looser hr)
theorem LooserWMapped.of_looser : {m m' : Option Ty} → LooserMapped m m' → LooserWMapped m m'
  | _, _, .none => .none
  | _, _, .opened => .opened
  | _, _, .some h => .some (LooserW.of_looser h)
end

mutual
theorem LooserD.toW : {t t' : Ty} → LooserD t t' → LooserW t t'
  | _, _, .any t => .any t
  | _, _, .null => .null
  | _, _, .number => .number
  | _, _, .bool => .bool
  | _, _, .string => .string
  | _, _, .arr h _ => .arr (LooserD.toW h)
  | _, _, .obj hp hm => .obj (LooserDProps.toW hp) (LooserDMapped.toW hm)
theorem LooserDProps.toW : {ps ps' : List (String × Ty)} → LooserDProps ps ps' → LooserWProps ps ps'
  | _, _, .nil => .nil
  | _, _, .cons h hr => .cons (LooserD.toW h) (LooserDProps.toW hr)
theorem LooserDMapped.toW : {m m' : Option Ty} → LooserDMapped m m' → LooserWMapped m m'
  | _, _, .none => .none
  | _, _, .opened => .opened
  | _, _, .some h => .some (LooserD.toW h)
end

/-! `Looser` is contained in `LooserD` as long as no plain array has its element type replaced by
`any`: `ArrSafe t t'` says exactly that, along a `Looser` derivation. -/
mutual
inductive ArrSafe : Ty → Ty → Prop
  | refl (t : Ty) : ArrSafe t t
  | toAny (t : Ty) : ArrSafe t .any
  | arr {e e' : Ty} (d : Bool) : ArrSafe e e' → (d = true ∨ (e' = .any → e = .any)) → ArrSafe (.arr e d) (.arr e' d)
  | obj {ps ps' : List (String × Ty)} {m m' : Option Ty} :
      ArrSafeProps ps ps' → ArrSafeMapped m m' → ArrSafe (.obj ps m) (.obj ps' m')
inductive ArrSafeProps : List (String × Ty) → List (String × Ty) → Prop
  | nil : ArrSafeProps [] []
  | cons {k : String} {t t' : Ty} {ps ps' : List (String × Ty)} :
      ArrSafe t t' → ArrSafeProps ps ps' → ArrSafeProps ((k, t) :: ps) ((k, t') :: ps')
inductive ArrSafeMapped : Option Ty → Option Ty → Prop
  | none : ArrSafeMapped none none
  | opened : ArrSafeMapped none (some .any)
  | some {t t' : Ty} : ArrSafe t t' → ArrSafeMapped (some t) (some t')
end

mutual
theorem ArrSafe.toD : {t t' : Ty} → ArrSafe t t' → LooserD t t'
  | _, _, .refl t => LooserD.refl t
  | _, _, .toAny t => .any t
  | _, _, .arr d h hd => .arr (ArrSafe.toD h) (by cases d <;> simp_all)
  | _, _, .obj hp hm => .obj (ArrSafeProps.toD hp) (ArrSafeMapped.toD hm)
theorem ArrSafeProps.toD : {ps ps' : List (String × Ty)} → ArrSafeProps ps ps' → LooserDProps ps ps'
  | _, _, .nil => .nil
  | _, _, .cons h hr => .cons (ArrSafe.toD h) (ArrSafeProps.toD hr)
theorem ArrSafeMapped.toD : {m m' : Option Ty} → ArrSafeMapped m m' → LooserDMapped m m'
  | _, _, .none => .none
  | _, _, .opened => .opened
  | _, _, .some h => .some (ArrSafe.toD h)
end

mutual
theorem ArrSafe.toLooser : {t t' : Ty} → ArrSafe t t' → Looser t t'
  | _, _, .refl t => .refl t
  | _, _, .toAny t => .toAny t
  | _, _, .arr d h _ => .arr d (ArrSafe.toLooser h)
  | _, _, .obj hp hm => .obj (ArrSafeProps.toLooser hp) (ArrSafeMapped.toLooser hm)
theorem ArrSafeProps.toLooser : {ps ps' : List (String × Ty)} → ArrSafeProps ps ps' → LooserProps ps ps'
  | _, _, .nil => .nil
  | _, _, .cons h hr => .cons (ArrSafe.toLooser h) (ArrSafeProps.toLooser hr)
theorem ArrSafeMapped.toLooser : {m m' : Option Ty} → ArrSafeMapped m m' → LooserMapped m m'
  | _, _, .none => .none
  | _, _, .opened => .opened
  | _, _, .some h => .some (ArrSafe.toLooser h)
end

/-! ### small inversions -/

theorem LooserD.any_left {t : Ty} (h : LooserD .any t) : t = .any := by cases h; rfl
theorem LooserW.any_left {t : Ty} (h : LooserW .any t) : t = .any := by cases h; rfl

theorem LooserDProps.lookup {k : String} : {ps ps' : List (String × Ty)} → LooserDProps ps ps' →
    (lookup k ps = none ∧ lookup k ps' = none) ∨
    (∃ t t', lookup k ps = some t ∧ lookup k ps' = some t' ∧ LooserD t t')
  | _, _, .nil => .inl ⟨rfl, rfl⟩
  | _, _, .cons (k := k') (t := t) (t' := t') h hr => by
    by_cases hk : k' = k
    · exact .inr ⟨t, t', by simp [Ty.lookup, hk], by simp [Ty.lookup, hk], h⟩
    · simpa [Ty.lookup, hk] using LooserDProps.lookup hr

theorem LooserDProps.isEmpty {ps ps' : List (String × Ty)} (h : LooserDProps ps ps') :
    ps'.isEmpty = ps.isEmpty := by cases h <;> rfl

end AL.Ty
