import AL.Lemmas.LexerSpell
/-
  One call of `Next` (`lexNext_step`) and the token stream `lexAll` / `LexExpression`.
-/
namespace AL.Lex
open AL AL.Spec

theorem skipWhite_remaining_le (st : LexState) : (skipWhite st).scan.remaining ≤ st.scan.remaining := by
  obtain ⟨gap, -, h, -⟩ := skipWhite_spec st
  rw [remaining_eq_unread, remaining_eq_unread, h]; simp

theorem skipWhite_buf_nil {st : LexState} (h : st.buf = []) : (skipWhite st).buf = [] := by
  obtain ⟨gap, -, -, -, -, g5, g6, -⟩ := skipWhite_spec st
  by_cases hg : gap = []
  · rw [g5 hg]; exact h
  · exact g6 hg

/-- every token other than END consumes at least one character -/
theorem lexNext_remaining (st : LexState) (h : (lexNext st).1.kind ≠ .end) :
    (lexNext st).2.scan.remaining < st.scan.remaining := by
  rcases lexNext_outcome st with hf | ⟨st1, x, k, hsteps, heq, hx, -⟩
  · exact absurd hf.1 h
  · rw [heq]
    have h1 := hsteps.remaining
    have h2 := skipWhite_remaining_le st
    have : x.length ≠ 0 := by simpa using hx
    show st1.scan.remaining < _
    omega

/-- the successful outcome of one `Next` call, relative to the source -/
structure TokStep (src done : List Sym) (st : LexState) (R : Tok × LexState) (done' : List Sym) : Prop where
  inv   : LInv src (done' ++ R.1.val) R.2
  buf   : R.2.buf = []
  off   : R.1.off = bytes done'
  flat  : Flat src → R.1.line = 1 ∧ R.1.col = done'.length + 1
  rem   : R.2.scan.remaining < st.scan.remaining
  clean : st.buf = [] → (∃ gap, done' = done ++ gap ∧ ∀ s ∈ gap, isWhitespace s.r = true) ∧
            Spelling R.1.kind R.1.val ∧ R.1.val ≠ []

theorem TokStep.prefix {src done : List Sym} {st : LexState} {R : Tok × LexState} {done' : List Sym}
    (h : TokStep src done st R done') : done' ++ R.1.val <+: src := by
  have := h.inv.split; rw [h.buf] at this
  exact ⟨R.2.scan.unread, by rw [this]; simp⟩

theorem TokStep.offset {src done : List Sym} {st : LexState} {R : Tok × LexState} {done' : List Sym}
    (h : TokStep src done st R done') : R.2.scan.pos.off = bytes (done' ++ R.1.val) := by
  have := h.inv.scan.pos_off; rw [h.buf] at this; simpa using this

theorem lexNext_step {src done : List Sym} {st : LexState} (hi : LInv src done st) :
    IsFail (lexNext st) ∨ ∃ done', TokStep src done st (lexNext st) done' := by
  rcases lexNext_outcome st with hf | ⟨st1, x, k, hsteps, heq, hx, hsp⟩
  · exact .inl hf
  · right
    obtain ⟨gap, g1, g2, -, -, g5, g6, g7⟩ := skipWhite_spec st
    have hi1 := hsteps.linv (g7 src done hi)
    refine ⟨(if gap = [] then done else done ++ st.buf ++ gap), ?_, ?_, ?_, ?_, ?_, ?_⟩
    · rw [heq]; exact hi1.token k
    · rw [heq]; rfl
    · rw [heq]; exact hi1.startOff
    · rw [heq]; exact hi1.startFlat
    · have h1 := hsteps.remaining
      have h2 := skipWhite_remaining_le st
      have : x.length ≠ 0 := by simpa using hx
      rw [heq]; show st1.scan.remaining < _; omega
    · intro hb
      have hb1 : st1.buf = x := by rw [hsteps.buf, skipWhite_buf_nil hb]; rfl
      refine ⟨⟨gap, ?_, g1⟩, ?_, ?_⟩
      · by_cases hg : gap = [] <;> simp [hg, hb]
      · rw [heq]; show Spelling k st1.buf; rw [hb1]; exact hsp
      · rw [heq]; show st1.buf ≠ []; rw [hb1]; exact hx

/-! ### the stream -/

theorem lexAll_succ (fuel : Nat) (st : LexState) : lexAll (fuel + 1) st =
    if (lexNext st).1.kind = .end then [⟨(lexNext st).1, (lexNext st).2.err, (lexNext st).2.scan.pos.off⟩]
    else ⟨(lexNext st).1, (lexNext st).2.err, (lexNext st).2.scan.pos.off⟩ :: lexAll fuel (lexNext st).2 := rfl

/-- the stream ends with END and has no END before, provided the fuel exceeds the number of unread characters -/
theorem lexAll_wellEnded : ∀ (fuel : Nat) (st : LexState), st.scan.remaining < fuel →
    ∃ init last, lexAll fuel st = init ++ [last] ∧ last.tok.kind = .end ∧ ∀ t ∈ init, t.tok.kind ≠ .end := by
  intro fuel
  induction fuel with
  | zero => intro st h; omega
  | succ n ih =>
    intro st h
    rw [lexAll_succ]
    split
    · rename_i he
      exact ⟨[], _, rfl, he, by simp⟩
    · rename_i he
      have := lexNext_remaining st he
      obtain ⟨init, last, h1, h2, h3⟩ := ih (lexNext st).2 (by omega)
      refine ⟨_ :: init, last, by rw [h1]; rfl, h2, ?_⟩
      intro t ht; simp at ht; rcases ht with rfl | ht
      · exact he
      · exact h3 t ht

theorem lexInit_remaining (src : List Sym) : (lexInit src).scan.remaining ≤ src.length := by
  have := (LInv.init src).split
  rw [remaining_eq_unread]
  have h2 := congrArg List.length this
  simp at h2; omega

/-- (g) for every state with an empty token buffer -/
theorem lexAll_spelling : ∀ (fuel : Nat) (st : LexState), st.buf = [] → ∀ a ∈ lexAll fuel st,
    Spelling a.tok.kind a.tok.val ∧ (a.tok.kind = .end → a.err = none → runes a.tok.val = [125, 125]) := by
  intro fuel
  induction fuel with
  | zero => intro st _ a ha; simp [lexAll] at ha
  | succ n ih =>
    intro st hb a ha
    rw [lexAll_succ] at ha
    -- the first token
    have hfirst : Spelling (lexNext st).1.kind (lexNext st).1.val ∧
        ((lexNext st).1.kind = .end → (lexNext st).2.err = none → runes (lexNext st).1.val = [125, 125]) ∧
        ((lexNext st).1.kind ≠ .end → (lexNext st).2.buf = []) := by
      rcases lexNext_outcome st with hf | ⟨st1, x, k, hsteps, heq, hx, hsp⟩
      · refine ⟨?_, fun _ h => absurd h hf.2.2, fun h => absurd hf.1 h⟩
        rw [hf.1, hf.2.1]; exact .inr rfl
      · have hb1 : st1.buf = x := by rw [hsteps.buf, skipWhite_buf_nil hb]; rfl
        rw [heq]
        refine ⟨?_, ?_, fun _ => rfl⟩
        · show Spelling k st1.buf; rw [hb1]; exact hsp
        · intro hk _
          show runes st1.buf = _
          rw [hb1]
          have hk : k = .end := hk
          subst hk
          rcases hsp with h | h
          · exact h
          · exfalso; apply hx; simpa [runes] using h
    split at ha
    · simp at ha; subst ha; exact ⟨hfirst.1, hfirst.2.1⟩
    · rename_i he
      simp at ha; rcases ha with rfl | ha
      · exact ⟨hfirst.1, hfirst.2.1⟩
      · exact ih _ (hfirst.2.2 he) a ha

/-- interleave whitespace gaps and token texts (same as `AL.C04.interleave`) -/
def weave : List (List Sym) → List Tok → List Sym
  | g :: gs, t :: ts => g ++ t.val ++ weave gs ts
  | _, _ => []

theorem go_nil (acc : List Tok) : lexExpression.go [] acc = .ok (acc, 0) := rfl

theorem go_cons (a : ATok) (rest : List ATok) (acc : List Tok) : lexExpression.go (a :: rest) acc =
    match a.err with
    | some e => .error (e, a.offset)
    | none => if a.tok.kind = .end then .ok (acc ++ [a.tok], a.offset) else lexExpression.go rest (acc ++ [a.tok]) := rfl

/-- (j) -/
theorem go_tiles {src : List Sym} : ∀ (fuel : Nat) (st : LexState) (done : List Sym) (acc ts : List Tok) (off : Nat),
    LInv src done st → st.buf = [] → st.scan.remaining < fuel →
    lexExpression.go (lexAll fuel st) acc = .ok (ts, off) →
    ∃ gaps toks, ts = acc ++ toks ∧ gaps.length = toks.length ∧
      (∀ g ∈ gaps, ∀ s ∈ g, isWhitespace s.r = true) ∧
      done ++ weave gaps toks <+: src ∧ bytes (done ++ weave gaps toks) = off := by
  intro fuel
  induction fuel with
  | zero => intro st done acc ts off _ _ h; omega
  | succ n ih =>
    intro st done acc ts off hi hb hrem hgo
    rw [lexAll_succ] at hgo
    have herr : (lexNext st).2.err = none := by
      cases he : (lexNext st).2.err with
      | none => rfl
      | some e => split at hgo <;> simp [go_cons, he] at hgo
    rcases lexNext_step hi with hf | ⟨done', hstep⟩
    · exact absurd herr hf.2.2
    · obtain ⟨⟨gap, hgap, hws⟩, -, -⟩ := hstep.clean hb
      split at hgo
      · rename_i hk
        simp only [go_cons, herr, hk, if_true] at hgo
        cases hgo
        refine ⟨[gap], [(lexNext st).1], rfl, rfl, ?_, ?_, ?_⟩
        · intro g hg; simp at hg; subst hg; exact hws
        · have := hstep.prefix; simpa [weave, hgap, List.append_assoc] using this
        · have := hstep.offset; simp [weave, hgap] at this ⊢; omega
      · rename_i hk
        simp only [go_cons, herr, hk, if_false] at hgo
        obtain ⟨gaps, toks, h1, h2, h3, h4, h5⟩ :=
          ih (lexNext st).2 _ _ ts off hstep.inv hstep.buf (by have := hstep.rem; omega) hgo
        refine ⟨gap :: gaps, (lexNext st).1 :: toks, by simp [h1], by simp [h2], ?_, ?_, ?_⟩
        · intro g hg; simp at hg; rcases hg with rfl | hg
          · exact hws
          · exact h3 g hg
        · simpa [weave, hgap, List.append_assoc] using h4
        · simpa [weave, hgap, List.append_assoc, Nat.add_assoc] using h5

/-- what (k) needs about one token -/
def Placed (src : List Sym) (t : Tok) : Prop :=
  ∃ d, d ++ t.val <+: src ∧ t.off = bytes d ∧ (Flat src → t.line = 1 ∧ t.col = d.length + 1)

/-- (k) -/
theorem go_placed {src : List Sym} : ∀ (fuel : Nat) (st : LexState) (done : List Sym) (acc ts : List Tok) (off : Nat),
    LInv src done st → st.scan.remaining < fuel → (∀ t ∈ acc, Placed src t) →
    lexExpression.go (lexAll fuel st) acc = .ok (ts, off) → ∀ t ∈ ts, Placed src t := by
  intro fuel
  induction fuel with
  | zero => intro st done acc ts off _ h; omega
  | succ n ih =>
    intro st done acc ts off hi hrem hacc hgo
    rw [lexAll_succ] at hgo
    have herr : (lexNext st).2.err = none := by
      cases he : (lexNext st).2.err with
      | none => rfl
      | some e => split at hgo <;> simp [go_cons, he] at hgo
    rcases lexNext_step hi with hf | ⟨done', hstep⟩
    · exact absurd herr hf.2.2
    · have hacc' : ∀ t ∈ acc ++ [(lexNext st).1], Placed src t := by
        intro t ht; simp at ht; rcases ht with ht | rfl
        · exact hacc t ht
        · exact ⟨done', hstep.prefix, hstep.off, hstep.flat⟩
      split at hgo
      · rename_i hk
        simp only [go_cons, herr, hk, if_true] at hgo
        cases hgo
        exact hacc'
      · rename_i hk
        simp only [go_cons, herr, hk, if_false] at hgo
        exact ih (lexNext st).2 _ _ ts off hstep.inv (by have := hstep.rem; omega) hacc' hgo

/-- the source starts with a byte-order mark (which `text/scanner` skips) -/
def StartsWithBOM (src : List Sym) : Prop := ∃ c rest, src = c :: rest ∧ c.r = 0xFEFF ∧ c.bad = false

theorem lexInit_buf {src : List Sym} (h : ¬ StartsWithBOM src) : (lexInit src).buf = [] := by
  unfold lexInit
  simp only [scanErrs_buf]
  cases src with
  | nil => rfl
  | cons c r =>
    simp only
    split
    · rename_i hb
      simp at hb
      exact absurd ⟨c, r, rfl, hb.1, hb.2⟩ h
    · rfl

/-- every token `LexExpression` returns is one of the stream, with no error recorded -/
theorem go_mem : ∀ (l : List ATok) (acc ts : List Tok) (off : Nat), lexExpression.go l acc = .ok (ts, off) →
    ∀ t ∈ ts, t ∈ acc ∨ ∃ a ∈ l, a.tok = t ∧ a.err = none := by
  intro l
  induction l with
  | nil => intro acc ts off h t ht; rw [go_nil] at h; cases h; exact .inl ht
  | cons a rest ih =>
    intro acc ts off h t ht
    rw [go_cons] at h
    cases he : a.err with
    | some e => simp [he] at h
    | none =>
      simp only [he] at h
      split at h
      · cases h
        simp at ht; rcases ht with ht | rfl
        · exact .inl ht
        · exact .inr ⟨a, by simp, rfl, he⟩
      · rcases ih _ _ _ h t ht with h1 | ⟨b, hb, hbt, hbe⟩
        · simp at h1; rcases h1 with h1 | rfl
          · exact .inl h1
          · exact .inr ⟨a, by simp, rfl, he⟩
        · exact .inr ⟨b, by simp [hb], hbt, hbe⟩

end AL.Lex
