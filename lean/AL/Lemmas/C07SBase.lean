import AL.Model.RuleExpr
import AL.Lemmas.ParseWfLoop
/-
  Infrastructure for AL.Props.C07Sites ("every diagnostic sits at a node of the document").

  * document side: `allNodes` (every node of the yaml.Node tree, keys included), `allScalars`;
  * AST side: `Item` — a string or a bare position of the AST — and `items`, the enumeration of EVERY `*String` and
    every `Pos` field of an AST value, written field by field from ast.go (class `HasItems`);
  * `StrOf v s`: the AST string `s` was made from the node `v` (`newString`, the empty placeholder `parseString` returns
    when its check fails, a raw matrix scalar);
  * `IOk S x`: every item of `x` comes from a node of `S`; `EOk S es`: every syntax diagnostic sits at a node of `S`;
    the generic lemmas for scalars, `parseMapping`, `loop`, `mapKVs`.
-/
namespace AL.C07S
open AL.Yaml AL.Ast AL.PW

abbrev Pos := AL.Yaml.Pos

/-! ### the document side -/

mutual
/-- every node of the tree below (and including) a node: mapping keys, mapping values, sequence elements, at any depth,
whatever their kind. Written without reference to the parser. -/
def allNodes : Node → List Node
  | .mk k t v q l c cs => .mk k t v q l c cs :: allNodesL cs
def allNodesL : List Node → List Node
  | [] => []
  | c :: cs => allNodes c ++ allNodesL cs
end

/-- the scalar nodes of the tree (keys included) -/
def allScalars (n : Node) : List Node := (allNodes n).filter Node.isScalar

theorem allNodes_eq (n : Node) : allNodes n = n :: allNodesL n.content := by
  obtain ⟨k, t, v, q, l, c, cs⟩ := n
  simp [allNodes, Node.content]

theorem mem_allNodes_self (n : Node) : n ∈ allNodes n := by
  rw [allNodes_eq]; exact List.mem_cons_self ..

theorem allNodesL_mem {cs : List Node} {c x : Node} (hc : c ∈ cs) (hx : x ∈ allNodes c) : x ∈ allNodesL cs := by
  induction cs with
  | nil => cases hc
  | cons d ds ih =>
    simp only [allNodesL, List.mem_append]
    rcases List.mem_cons.1 hc with rfl | hc
    · exact Or.inl hx
    · exact Or.inr (ih hc)

theorem allNodesL_elim {cs : List Node} {x : Node} (hx : x ∈ allNodesL cs) : ∃ c ∈ cs, x ∈ allNodes c := by
  induction cs with
  | nil => simp [allNodesL] at hx
  | cons d ds ih =>
    simp only [allNodesL, List.mem_append] at hx
    rcases hx with hx | hx
    · exact ⟨d, List.mem_cons_self .., hx⟩
    · obtain ⟨c, hc, h⟩ := ih hx
      exact ⟨c, List.mem_cons_of_mem _ hc, h⟩

/-- the nodes below a child are nodes below the parent -/
theorem allNodes_child {n c x : Node} (hc : c ∈ n.content) (hx : x ∈ allNodes c) : x ∈ allNodes n := by
  rw [allNodes_eq n]
  exact List.mem_cons_of_mem _ (allNodesL_mem hc hx)

theorem pairs_mem : ∀ (cs : List Node) (p : Node × Node), p ∈ pairs cs → p.1 ∈ cs ∧ p.2 ∈ cs
  | [], p, h => by simp [pairs] at h
  | [_], p, h => by simp [pairs] at h
  | k :: v :: rest, p, h => by
    simp only [pairs, List.mem_cons] at h
    rcases h with rfl | h
    · simp
    · have := pairs_mem rest p h
      simp [this.1, this.2]

theorem mem_allScalars {doc v : Node} : v ∈ allScalars doc ↔ v ∈ allNodes doc ∧ v.kind = .scalar := by
  simp [allScalars, Node.isScalar]

/-! ### the AST side: items -/

/-- a `*String` of the AST, or a bare `*Pos` field -/
inductive Item where
  | str (s : Str)
  | pos (p : Pos)
deriving Repr, DecidableEq

def Item.at : Item → Pos
  | .str s => s.pos
  | .pos p => p

def Item.str? : Item → Option Str
  | .str s => some s
  | .pos _ => none

class HasItems (α : Type) where
  items : α → List Item
export HasItems (items)

instance : HasItems Str := ⟨fun s => [.str s]⟩
instance : HasItems Pos := ⟨fun p => [.pos p]⟩
instance {α} [HasItems α] : HasItems (Option α) := ⟨fun o => match o with | some x => items x | none => []⟩
instance {α} [HasItems α] : HasItems (List α) := ⟨fun l => l.flatMap items⟩
/-- an entry of a Go map: the key is a Go string (no position); the value carries its own name node -/
instance {α} [HasItems α] : HasItems (String × α) := ⟨fun p => items p.2⟩
/-- a loop state with a flag -/
instance {α} [HasItems α] : HasItems (α × Bool) := ⟨fun p => items p.1⟩

instance : HasItems BoolV := ⟨fun b => items b.expr ++ items b.pos⟩
instance : HasItems IntV := ⟨fun b => items b.expr ++ items b.pos⟩
instance : HasItems FloatV := ⟨fun b => items b.expr ++ items b.pos⟩
instance : HasItems Filter := ⟨fun f => items f.name ++ items f.values⟩
instance : HasItems WebhookEvent := ⟨fun e =>
  items e.hook ++ items e.types ++ items e.branches ++ items e.branchesIgnore ++ items e.tags ++ items e.tagsIgnore ++
  items e.paths ++ items e.pathsIgnore ++ items e.workflows ++ items e.pos⟩
instance : HasItems DispatchInput := ⟨fun i =>
  items i.name ++ items i.description ++ items i.required ++ items i.dflt ++ items i.options⟩
instance : HasItems CallInput := ⟨fun i => items i.name ++ items i.description ++ items i.dflt ++ items i.required⟩
instance : HasItems CallSecret := ⟨fun i => items i.name ++ items i.description ++ items i.required⟩
instance : HasItems CallOutput := ⟨fun i => items i.name ++ items i.description ++ items i.value⟩
instance : HasItems Event := ⟨fun e => match e with
  | .webhook e => items e
  | .schedule cron pos => items cron ++ items pos
  | .dispatch inputs pos => items inputs ++ items pos
  | .repoDispatch types pos => items types ++ items pos
  | .call inputs secrets outputs pos => items inputs ++ items secrets ++ items outputs ++ items pos⟩
instance : HasItems PermissionScope := ⟨fun p => items p.name ++ items p.value⟩
instance : HasItems Permissions := ⟨fun p => items p.all ++ items p.scopes ++ items p.pos⟩
instance : HasItems DefaultsRun := ⟨fun d => items d.shell ++ items d.workingDirectory ++ items d.pos⟩
instance : HasItems Defaults := ⟨fun d => items d.run ++ items d.pos⟩
instance : HasItems Concurrency := ⟨fun c => items c.group ++ items c.cancelInProgress ++ items c.pos⟩
instance : HasItems Environment := ⟨fun e => items e.name ++ items e.url ++ items e.pos⟩
instance : HasItems EnvVar := ⟨fun e => items e.name ++ items e.value⟩
instance : HasItems Ast.Env := ⟨fun e => items e.vars ++ items e.expr⟩
instance : HasItems Input := ⟨fun e => items e.name ++ items e.value⟩
instance : HasItems ExecRun := ⟨fun e => items e.run ++ items e.shell ++ items e.workingDirectory ++ items e.runPos⟩
instance : HasItems ExecAction := ⟨fun e => items e.uses ++ items e.inputs ++ items e.entrypoint ++ items e.args⟩
instance : HasItems Exec := ⟨fun e => match e with
  | .none => []
  | .run e => items e
  | .action e => items e⟩

mutual
/-- a raw YAML value of a matrix: a scalar is a string (`RawYAMLString`), a collection has a position -/
def rawItems : Raw → List Item
  | .str v p => [.str ⟨v, false, p⟩]
  | .arr es p => .pos p :: rawItemsL es
  | .obj ps p => .pos p :: rawItemsP ps
def rawItemsL : List Raw → List Item
  | [] => []
  | e :: es => rawItems e ++ rawItemsL es
def rawItemsP : List (String × Raw) → List Item
  | [] => []
  | (_, v) :: ps => rawItems v ++ rawItemsP ps
end

instance : HasItems Raw := ⟨rawItems⟩
instance : HasItems MatrixRow := ⟨fun r => items r.name ++ items r.values ++ items r.expr⟩
instance : HasItems MatrixAssign := ⟨fun a => items a.key ++ items a.value⟩
instance : HasItems MatrixCombination := ⟨fun c => items c.assigns ++ items c.expr⟩
instance : HasItems MatrixCombinations := ⟨fun c => items c.combinations ++ items c.expr⟩
instance : HasItems Ast.Matrix := ⟨fun m => items m.rows ++ items m.incl ++ items m.excl ++ items m.expr ++ items m.pos⟩
instance : HasItems Strategy := ⟨fun s => items s.matrix ++ items s.failFast ++ items s.maxParallel ++ items s.pos⟩
instance : HasItems Step := ⟨fun s =>
  items s.id ++ items s.cond ++ items s.name ++ items s.exec ++ items s.env ++ items s.continueOnError ++
  items s.timeoutMinutes ++ items s.pos⟩
instance : HasItems Credentials := ⟨fun c => items c.username ++ items c.password ++ items c.pos⟩
instance : HasItems Container := ⟨fun c =>
  items c.image ++ items c.credentials ++ items c.env ++ items c.ports ++ items c.volumes ++ items c.options ++ items c.pos⟩
instance : HasItems Service := ⟨fun s => items s.name ++ items s.container⟩
instance : HasItems Services := ⟨fun s => items s.value ++ items s.expr ++ items s.pos⟩
instance : HasItems Output := ⟨fun o => items o.name ++ items o.value⟩
instance : HasItems Runner := ⟨fun r => items r.labels ++ items r.labelsExpr ++ items r.group⟩
instance : HasItems CallArg := ⟨fun a => items a.name ++ items a.value⟩
instance : HasItems WorkflowCall := ⟨fun c => items c.uses ++ items c.inputs ++ items c.secrets⟩
instance : HasItems Job := ⟨fun j =>
  items j.id ++ items j.name ++ items j.needs ++ items j.runsOn ++ items j.permissions ++ items j.environment ++
  items j.concurrency ++ items j.outputs ++ items j.env ++ items j.defaults ++ items j.cond ++ items j.steps ++
  items j.timeoutMinutes ++ items j.strategy ++ items j.continueOnError ++ items j.container ++ items j.services ++
  items j.workflowCall ++ items j.pos⟩
/-- **every string and every position of a workflow AST** -/
instance : HasItems Workflow := ⟨fun w =>
  items w.name ++ items w.runName ++ items w.on ++ items w.permissions ++ items w.env ++ items w.defaults ++
  items w.concurrency ++ items w.jobs⟩

/-- every `*String` of the AST (names, keys, values, raw matrix scalars) -/
def allStrs (w : Workflow) : List Str := (items w).filterMap Item.str?
/-- every position that occurs in the AST: of a string, a key, a job, a step, an event, a section … -/
def allPositions (w : Workflow) : List Pos := (items w).map Item.at

theorem mem_allStrs {w : Workflow} {s : Str} : s ∈ allStrs w ↔ Item.str s ∈ items w := by
  simp only [allStrs, List.mem_filterMap]
  constructor
  · rintro ⟨it, hm, h⟩
    cases it with
    | str s' => simp only [Item.str?, Option.some.injEq] at h; subst h; exact hm
    | pos p => simp [Item.str?] at h
  · intro h; exact ⟨_, h, rfl⟩

theorem allStrs_pos_sub {w : Workflow} {s : Str} (h : s ∈ allStrs w) : s.pos ∈ allPositions w :=
  List.mem_map.2 ⟨_, mem_allStrs.1 h, rfl⟩

/-! ### provenance -/

/-- the AST string `s` was made from the node `v`: it sits at `v`; its text is `v`'s (`newString`, a raw matrix scalar) or
empty (what `parseString` returns when its check fails); `v` is a scalar unless `s` is the empty placeholder or `v` is a
collection node whose `Value` is one `${{ }}` (no such node comes out of yaml.v3: a collection has the empty `Value`) -/
structure StrOf (v : Node) (s : Str) : Prop where
  pos : s.pos = v.pos
  value : s.value = v.value ∨ s.value = ""
  quoted : s.quoted = v.quoted ∨ s.quoted = false
  kind : v.kind = .scalar ∨ s.value = "" ∨ isExprAssigned v.value = true

def ItemOk (S : List Node) : Item → Prop
  | .str s => ∃ v ∈ S, StrOf v s
  | .pos p => ∃ v ∈ S, p = v.pos

/-- every string / position of `x` satisfies `P` -/
def AllI {α} [HasItems α] (P : Item → Prop) (x : α) : Prop := ∀ it ∈ items x, P it
/-- every string / position of `x` comes from a node of `S` -/
abbrev IOk {α} [HasItems α] (S : List Node) (x : α) : Prop := AllI (ItemOk S) x
/-- every syntax diagnostic sits at a node of `S` -/
def EOk (S : List Node) (es : List PErr) : Prop := ∀ e ∈ es, ∃ v ∈ S, e.pos = v.pos
/-- the result of a parser function -/
def ROk {α} [HasItems α] (S : List Node) (r : α × List PErr) : Prop := IOk S r.1 ∧ EOk S r.2

theorem ItemOk.at {S : List Node} {it : Item} (h : ItemOk S it) : ∃ v ∈ S, it.at = v.pos := by
  cases it with
  | str s => obtain ⟨v, hv, h⟩ := h; exact ⟨v, hv, h.pos⟩
  | pos p => exact h

theorem ItemOk.mono {S S' : List Node} {it : Item} (h : ItemOk S it) (hs : ∀ v ∈ S, v ∈ S') : ItemOk S' it := by
  cases it with
  | str s => obtain ⟨v, hv, h⟩ := h; exact ⟨v, hs v hv, h⟩
  | pos p => obtain ⟨v, hv, h⟩ := h; exact ⟨v, hs v hv, h⟩

/-! ### `AllI` / `IOk` through the constructors (simp lemmas) -/

section
variable {S : List Node}

@[simp] theorem EOk_nil : EOk S [] := fun _ h => by cases h
@[simp] theorem EOk_append {a b : List PErr} : EOk S (a ++ b) ↔ EOk S a ∧ EOk S b := by
  simp only [EOk, List.mem_append]
  exact ⟨fun h => ⟨fun e he => h e (Or.inl he), fun e he => h e (Or.inr he)⟩, fun h e he => he.elim (h.1 e) (h.2 e)⟩
@[simp] theorem EOk_cons {e : PErr} {b : List PErr} : EOk S (e :: b) ↔ (∃ v ∈ S, e.pos = v.pos) ∧ EOk S b := by
  simp only [EOk, List.mem_cons]
  exact ⟨fun h => ⟨h e (Or.inl rfl), fun x hx => h x (Or.inr hx)⟩, fun h x hx => by rcases hx with rfl | hx; exact h.1; exact h.2 x hx⟩
theorem EOk_ite {c : Prop} [Decidable c] {a b : List PErr} (ha : EOk S a) (hb : EOk S b) : EOk S (if c then a else b) := by
  split <;> assumption

@[simp] theorem ROk_iff {α} [HasItems α] {r : α × List PErr} : ROk S r ↔ IOk S r.1 ∧ EOk S r.2 := Iff.rfl
theorem ROk_mk {α} [HasItems α] {x : α} {es : List PErr} : ROk S (x, es) ↔ IOk S x ∧ EOk S es := Iff.rfl

variable {P : Item → Prop}

/-- a position that is a node's -/
def POk (S : List Node) (p : Pos) : Prop := ∃ v ∈ S, p = v.pos

@[simp] theorem ItemOk_pos {p : Pos} : ItemOk S (.pos p) ↔ POk S p := Iff.rfl
@[simp] theorem ItemOk_str {s : Str} : ItemOk S (.str s) ↔ ∃ v ∈ S, StrOf v s := Iff.rfl
@[simp] theorem AllI_pos {p : Pos} : AllI P p ↔ P (.pos p) := by
  simp [AllI, items]
@[simp] theorem AllI_str {s : Str} : AllI P s ↔ P (.str s) := by
  simp [AllI, items]
theorem IOk_pos {p : Pos} : IOk S p ↔ POk S p := by
  simp
theorem IOk_str {s : Str} : IOk S s ↔ ∃ v ∈ S, StrOf v s := by
  simp
@[simp] theorem IOk_none {α} [HasItems α] : AllI P (none : Option α) := by
  simp [AllI, items]
@[simp] theorem IOk_some {α} [HasItems α] {x : α} : AllI P (some x) ↔ AllI P x := by
  simp [AllI, items]
@[simp] theorem IOk_nil {α} [HasItems α] : AllI P ([] : List α) := by
  simp [AllI, items]
@[simp] theorem IOk_cons {α} [HasItems α] {x : α} {l : List α} : AllI P (x :: l) ↔ AllI P x ∧ AllI P l := by
  simp only [AllI, items, List.flatMap_cons, List.mem_append]
  exact ⟨fun h => ⟨fun e he => h e (Or.inl he), fun e he => h e (Or.inr he)⟩, fun h e he => he.elim (h.1 e) (h.2 e)⟩
@[simp] theorem IOk_append {α} [HasItems α] {a b : List α} : AllI P (a ++ b) ↔ AllI P a ∧ AllI P b := by
  simp only [AllI, items, List.flatMap_append, List.mem_append]
  exact ⟨fun h => ⟨fun e he => h e (Or.inl he), fun e he => h e (Or.inr he)⟩, fun h e he => he.elim (h.1 e) (h.2 e)⟩
theorem IOk_list {α} [HasItems α] {l : List α} : AllI P l ↔ ∀ x ∈ l, AllI P x := by
  simp only [AllI, items, List.mem_flatMap]
  exact ⟨fun h x hx it hit => h it ⟨x, hx, hit⟩, fun h it ⟨x, hx, hit⟩ => h x hx it hit⟩
@[simp] theorem IOk_entry {α} [HasItems α] {p : String × α} : AllI P p ↔ AllI P p.2 := Iff.rfl
@[simp] theorem IOk_flag {α} [HasItems α] {p : α × Bool} : AllI P p ↔ AllI P p.1 := Iff.rfl
theorem IOk_getD {α} [HasItems α] {o : Option (List α)} (h : AllI P o) : AllI P (o.getD []) := by
  cases o <;> simp_all

/-- auxiliary: `IOk` of a concatenation of item lists -/
def LAll (P : Item → Prop) (l : List Item) : Prop := ∀ it ∈ l, P it
abbrev LOk (S : List Node) (l : List Item) : Prop := LAll (ItemOk S) l
theorem IOk_def {α} [HasItems α] {x : α} : AllI P x ↔ LAll P (items x) := Iff.rfl
@[simp] theorem LOk_append {a b : List Item} : LAll P (a ++ b) ↔ LAll P a ∧ LAll P b := by
  simp only [LAll, List.mem_append]
  exact ⟨fun h => ⟨fun e he => h e (Or.inl he), fun e he => h e (Or.inr he)⟩, fun h e he => he.elim (h.1 e) (h.2 e)⟩
@[simp] theorem LOk_items {α} [HasItems α] {x : α} : LAll P (items x) ↔ AllI P x := Iff.rfl
@[simp] theorem LOk_nil : LAll P [] := fun _ h => by cases h

/-! ### `IOk` of a structure = `IOk` of its fields (generated from the field lists of ast.go) -/

@[simp] theorem IOk_BoolV {x : BoolV} : AllI P x ↔ AllI P x.expr ∧ AllI P x.pos := by
  change LAll P (items x.expr ++ items x.pos) ↔ _
  simp only [LOk_append, LOk_items]

@[simp] theorem IOk_IntV {x : IntV} : AllI P x ↔ AllI P x.expr ∧ AllI P x.pos := by
  change LAll P (items x.expr ++ items x.pos) ↔ _
  simp only [LOk_append, LOk_items]

@[simp] theorem IOk_FloatV {x : FloatV} : AllI P x ↔ AllI P x.expr ∧ AllI P x.pos := by
  change LAll P (items x.expr ++ items x.pos) ↔ _
  simp only [LOk_append, LOk_items]

@[simp] theorem IOk_Filter {x : Filter} : AllI P x ↔ AllI P x.name ∧ AllI P x.values := by
  change LAll P (items x.name ++ items x.values) ↔ _
  simp only [LOk_append, LOk_items]

@[simp] theorem IOk_WebhookEvent {x : WebhookEvent} : AllI P x ↔ AllI P x.hook ∧ AllI P x.types ∧ AllI P x.branches ∧ AllI P x.branchesIgnore ∧ AllI P x.tags ∧ AllI P x.tagsIgnore ∧ AllI P x.paths ∧ AllI P x.pathsIgnore ∧ AllI P x.workflows ∧ AllI P x.pos := by
  change LAll P (items x.hook ++ items x.types ++ items x.branches ++ items x.branchesIgnore ++ items x.tags ++ items x.tagsIgnore ++ items x.paths ++ items x.pathsIgnore ++ items x.workflows ++ items x.pos) ↔ _
  simp only [LOk_append, LOk_items, and_assoc]

@[simp] theorem IOk_DispatchInput {x : DispatchInput} : AllI P x ↔ AllI P x.name ∧ AllI P x.description ∧ AllI P x.required ∧ AllI P x.dflt ∧ AllI P x.options := by
  change LAll P (items x.name ++ items x.description ++ items x.required ++ items x.dflt ++ items x.options) ↔ _
  simp only [LOk_append, LOk_items, and_assoc]

@[simp] theorem IOk_CallInput {x : CallInput} : AllI P x ↔ AllI P x.name ∧ AllI P x.description ∧ AllI P x.dflt ∧ AllI P x.required := by
  change LAll P (items x.name ++ items x.description ++ items x.dflt ++ items x.required) ↔ _
  simp only [LOk_append, LOk_items, and_assoc]

@[simp] theorem IOk_CallSecret {x : CallSecret} : AllI P x ↔ AllI P x.name ∧ AllI P x.description ∧ AllI P x.required := by
  change LAll P (items x.name ++ items x.description ++ items x.required) ↔ _
  simp only [LOk_append, LOk_items, and_assoc]

@[simp] theorem IOk_CallOutput {x : CallOutput} : AllI P x ↔ AllI P x.name ∧ AllI P x.description ∧ AllI P x.value := by
  change LAll P (items x.name ++ items x.description ++ items x.value) ↔ _
  simp only [LOk_append, LOk_items, and_assoc]

@[simp] theorem IOk_PermissionScope {x : PermissionScope} : AllI P x ↔ AllI P x.name ∧ AllI P x.value := by
  change LAll P (items x.name ++ items x.value) ↔ _
  simp only [LOk_append, LOk_items]

@[simp] theorem IOk_Permissions {x : Permissions} : AllI P x ↔ AllI P x.all ∧ AllI P x.scopes ∧ AllI P x.pos := by
  change LAll P (items x.all ++ items x.scopes ++ items x.pos) ↔ _
  simp only [LOk_append, LOk_items, and_assoc]

@[simp] theorem IOk_DefaultsRun {x : DefaultsRun} : AllI P x ↔ AllI P x.shell ∧ AllI P x.workingDirectory ∧ AllI P x.pos := by
  change LAll P (items x.shell ++ items x.workingDirectory ++ items x.pos) ↔ _
  simp only [LOk_append, LOk_items, and_assoc]

@[simp] theorem IOk_Defaults {x : Defaults} : AllI P x ↔ AllI P x.run ∧ AllI P x.pos := by
  change LAll P (items x.run ++ items x.pos) ↔ _
  simp only [LOk_append, LOk_items]

@[simp] theorem IOk_Concurrency {x : Concurrency} : AllI P x ↔ AllI P x.group ∧ AllI P x.cancelInProgress ∧ AllI P x.pos := by
  change LAll P (items x.group ++ items x.cancelInProgress ++ items x.pos) ↔ _
  simp only [LOk_append, LOk_items, and_assoc]

@[simp] theorem IOk_Environment {x : Environment} : AllI P x ↔ AllI P x.name ∧ AllI P x.url ∧ AllI P x.pos := by
  change LAll P (items x.name ++ items x.url ++ items x.pos) ↔ _
  simp only [LOk_append, LOk_items, and_assoc]

@[simp] theorem IOk_EnvVar {x : EnvVar} : AllI P x ↔ AllI P x.name ∧ AllI P x.value := by
  change LAll P (items x.name ++ items x.value) ↔ _
  simp only [LOk_append, LOk_items]

@[simp] theorem IOk_Env {x : Ast.Env} : AllI P x ↔ AllI P x.vars ∧ AllI P x.expr := by
  change LAll P (items x.vars ++ items x.expr) ↔ _
  simp only [LOk_append, LOk_items]

@[simp] theorem IOk_Input {x : Input} : AllI P x ↔ AllI P x.name ∧ AllI P x.value := by
  change LAll P (items x.name ++ items x.value) ↔ _
  simp only [LOk_append, LOk_items]

@[simp] theorem IOk_ExecRun {x : ExecRun} : AllI P x ↔ AllI P x.run ∧ AllI P x.shell ∧ AllI P x.workingDirectory ∧ AllI P x.runPos := by
  change LAll P (items x.run ++ items x.shell ++ items x.workingDirectory ++ items x.runPos) ↔ _
  simp only [LOk_append, LOk_items, and_assoc]

@[simp] theorem IOk_ExecAction {x : ExecAction} : AllI P x ↔ AllI P x.uses ∧ AllI P x.inputs ∧ AllI P x.entrypoint ∧ AllI P x.args := by
  change LAll P (items x.uses ++ items x.inputs ++ items x.entrypoint ++ items x.args) ↔ _
  simp only [LOk_append, LOk_items, and_assoc]

@[simp] theorem IOk_MatrixRow {x : MatrixRow} : AllI P x ↔ AllI P x.name ∧ AllI P x.values ∧ AllI P x.expr := by
  change LAll P (items x.name ++ items x.values ++ items x.expr) ↔ _
  simp only [LOk_append, LOk_items, and_assoc]

@[simp] theorem IOk_MatrixAssign {x : MatrixAssign} : AllI P x ↔ AllI P x.key ∧ AllI P x.value := by
  change LAll P (items x.key ++ items x.value) ↔ _
  simp only [LOk_append, LOk_items]

@[simp] theorem IOk_MatrixCombination {x : MatrixCombination} : AllI P x ↔ AllI P x.assigns ∧ AllI P x.expr := by
  change LAll P (items x.assigns ++ items x.expr) ↔ _
  simp only [LOk_append, LOk_items]

@[simp] theorem IOk_MatrixCombinations {x : MatrixCombinations} : AllI P x ↔ AllI P x.combinations ∧ AllI P x.expr := by
  change LAll P (items x.combinations ++ items x.expr) ↔ _
  simp only [LOk_append, LOk_items]

@[simp] theorem IOk_Matrix {x : Ast.Matrix} : AllI P x ↔ AllI P x.rows ∧ AllI P x.incl ∧ AllI P x.excl ∧ AllI P x.expr ∧ AllI P x.pos := by
  change LAll P (items x.rows ++ items x.incl ++ items x.excl ++ items x.expr ++ items x.pos) ↔ _
  simp only [LOk_append, LOk_items, and_assoc]

@[simp] theorem IOk_Strategy {x : Strategy} : AllI P x ↔ AllI P x.matrix ∧ AllI P x.failFast ∧ AllI P x.maxParallel ∧ AllI P x.pos := by
  change LAll P (items x.matrix ++ items x.failFast ++ items x.maxParallel ++ items x.pos) ↔ _
  simp only [LOk_append, LOk_items, and_assoc]

@[simp] theorem IOk_Step {x : Step} : AllI P x ↔ AllI P x.id ∧ AllI P x.cond ∧ AllI P x.name ∧ AllI P x.exec ∧ AllI P x.env ∧ AllI P x.continueOnError ∧ AllI P x.timeoutMinutes ∧ AllI P x.pos := by
  change LAll P (items x.id ++ items x.cond ++ items x.name ++ items x.exec ++ items x.env ++ items x.continueOnError ++ items x.timeoutMinutes ++ items x.pos) ↔ _
  simp only [LOk_append, LOk_items, and_assoc]

@[simp] theorem IOk_Credentials {x : Credentials} : AllI P x ↔ AllI P x.username ∧ AllI P x.password ∧ AllI P x.pos := by
  change LAll P (items x.username ++ items x.password ++ items x.pos) ↔ _
  simp only [LOk_append, LOk_items, and_assoc]

@[simp] theorem IOk_Container {x : Container} : AllI P x ↔ AllI P x.image ∧ AllI P x.credentials ∧ AllI P x.env ∧ AllI P x.ports ∧ AllI P x.volumes ∧ AllI P x.options ∧ AllI P x.pos := by
  change LAll P (items x.image ++ items x.credentials ++ items x.env ++ items x.ports ++ items x.volumes ++ items x.options ++ items x.pos) ↔ _
  simp only [LOk_append, LOk_items, and_assoc]

@[simp] theorem IOk_Service {x : Service} : AllI P x ↔ AllI P x.name ∧ AllI P x.container := by
  change LAll P (items x.name ++ items x.container) ↔ _
  simp only [LOk_append, LOk_items]

@[simp] theorem IOk_Services {x : Services} : AllI P x ↔ AllI P x.value ∧ AllI P x.expr ∧ AllI P x.pos := by
  change LAll P (items x.value ++ items x.expr ++ items x.pos) ↔ _
  simp only [LOk_append, LOk_items, and_assoc]

@[simp] theorem IOk_Output {x : Output} : AllI P x ↔ AllI P x.name ∧ AllI P x.value := by
  change LAll P (items x.name ++ items x.value) ↔ _
  simp only [LOk_append, LOk_items]

@[simp] theorem IOk_Runner {x : Runner} : AllI P x ↔ AllI P x.labels ∧ AllI P x.labelsExpr ∧ AllI P x.group := by
  change LAll P (items x.labels ++ items x.labelsExpr ++ items x.group) ↔ _
  simp only [LOk_append, LOk_items, and_assoc]

@[simp] theorem IOk_CallArg {x : CallArg} : AllI P x ↔ AllI P x.name ∧ AllI P x.value := by
  change LAll P (items x.name ++ items x.value) ↔ _
  simp only [LOk_append, LOk_items]

@[simp] theorem IOk_WorkflowCall {x : WorkflowCall} : AllI P x ↔ AllI P x.uses ∧ AllI P x.inputs ∧ AllI P x.secrets := by
  change LAll P (items x.uses ++ items x.inputs ++ items x.secrets) ↔ _
  simp only [LOk_append, LOk_items, and_assoc]

@[simp] theorem IOk_Job {x : Job} : AllI P x ↔ AllI P x.id ∧ AllI P x.name ∧ AllI P x.needs ∧ AllI P x.runsOn ∧ AllI P x.permissions ∧ AllI P x.environment ∧ AllI P x.concurrency ∧ AllI P x.outputs ∧ AllI P x.env ∧ AllI P x.defaults ∧ AllI P x.cond ∧ AllI P x.steps ∧ AllI P x.timeoutMinutes ∧ AllI P x.strategy ∧ AllI P x.continueOnError ∧ AllI P x.container ∧ AllI P x.services ∧ AllI P x.workflowCall ∧ AllI P x.pos := by
  change LAll P (items x.id ++ items x.name ++ items x.needs ++ items x.runsOn ++ items x.permissions ++ items x.environment ++ items x.concurrency ++ items x.outputs ++ items x.env ++ items x.defaults ++ items x.cond ++ items x.steps ++ items x.timeoutMinutes ++ items x.strategy ++ items x.continueOnError ++ items x.container ++ items x.services ++ items x.workflowCall ++ items x.pos) ↔ _
  simp only [LOk_append, LOk_items, and_assoc]

@[simp] theorem IOk_Workflow {x : Workflow} : AllI P x ↔ AllI P x.name ∧ AllI P x.runName ∧ AllI P x.on ∧ AllI P x.permissions ∧ AllI P x.env ∧ AllI P x.defaults ∧ AllI P x.concurrency ∧ AllI P x.jobs := by
  change LAll P (items x.name ++ items x.runName ++ items x.on ++ items x.permissions ++ items x.env ++ items x.defaults ++ items x.concurrency ++ items x.jobs) ↔ _
  simp only [LOk_append, LOk_items, and_assoc]

@[simp] theorem IOk_webhook {e : WebhookEvent} : AllI P (Event.webhook e) ↔ AllI P e := Iff.rfl
@[simp] theorem IOk_schedule {c : List Str} {p : Pos} : AllI P (Event.schedule c p) ↔ AllI P c ∧ P (.pos p) := by
  change LAll P (items c ++ items p) ↔ _
  simp only [LOk_append, LOk_items, AllI_pos]
@[simp] theorem IOk_dispatch {i : Option (List (String × DispatchInput))} {p : Pos} :
    AllI P (Event.dispatch i p) ↔ AllI P i ∧ P (.pos p) := by
  change LAll P (items i ++ items p) ↔ _
  simp only [LOk_append, LOk_items, AllI_pos]
@[simp] theorem IOk_repoDispatch {t : Option (List Str)} {p : Pos} : AllI P (Event.repoDispatch t p) ↔ AllI P t ∧ P (.pos p) := by
  change LAll P (items t ++ items p) ↔ _
  simp only [LOk_append, LOk_items, AllI_pos]
@[simp] theorem IOk_call {i : Option (List CallInput)} {s : Option (List (String × CallSecret))}
    {o : Option (List (String × CallOutput))} {p : Pos} :
    AllI P (Event.call i s o p) ↔ AllI P i ∧ AllI P s ∧ AllI P o ∧ P (.pos p) := by
  change LAll P (items i ++ items s ++ items o ++ items p) ↔ _
  simp only [LOk_append, LOk_items, AllI_pos, and_assoc]
@[simp] theorem IOk_exec_none : AllI P Exec.none := fun _ h => by cases h
@[simp] theorem IOk_exec_run {e : ExecRun} : AllI P (Exec.run e) ↔ AllI P e := Iff.rfl
@[simp] theorem IOk_exec_action {e : ExecAction} : AllI P (Exec.action e) ↔ AllI P e := Iff.rfl

theorem rawItemsL_eq (es : List Raw) : rawItemsL es = items es := by
  induction es with
  | nil => rfl
  | cons e es ih => simp only [rawItemsL, ih]; rfl
theorem rawItemsP_eq (ps : List (String × Raw)) : rawItemsP ps = items ps := by
  induction ps with
  | nil => rfl
  | cons e es ih => obtain ⟨k, v⟩ := e; simp only [rawItemsP, ih]; rfl
@[simp] theorem IOk_raw_str {v : String} {p : Pos} : AllI P (AL.Matrix.Raw.str v p) ↔ P (.str ⟨v, false, p⟩) := by
  simp [AllI, items, rawItems]
@[simp] theorem IOk_raw_arr {es : List Raw} {p : Pos} : AllI P (AL.Matrix.Raw.arr es p) ↔ P (.pos p) ∧ AllI P es := by
  change LAll P (Item.pos p :: rawItemsL es) ↔ _
  rw [rawItemsL_eq]
  simp [LAll, AllI]
@[simp] theorem IOk_raw_obj {ps : List (String × Raw)} {p : Pos} : AllI P (AL.Matrix.Raw.obj ps p) ↔ P (.pos p) ∧ AllI P ps := by
  change LAll P (Item.pos p :: rawItemsP ps) ↔ _
  rw [rawItemsP_eq]
  simp [LAll, AllI]


end

end AL.C07S
