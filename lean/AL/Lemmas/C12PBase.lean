import AL.Spec.KeyedScalars
import AL.Props.C03Parse
import AL.Props.C12Rule
/-
  Infrastructure for AL.Props.C12Parse ("every position of the DOCUMENT is checked under the workflow key of its position"):

  * `keyedScalars_fst` — the first components of the keyed walk over the document ARE `valueScalars doc` (the two walks
    agree on WHICH scalars are values);
  * `RepK v key l` — the document scalar `v` is one of the AST strings of `l`, paired there with the key `key`;
  * the keyed counterparts of `mapScalars_clean`, `sect_keyed`, `sect_K` of AL/Lemmas/C03PBase.lean, and `sect_tag`: a
    section whose document side is `under (kname k) (g k y)` per key inherits `…_store` / `…_pres` from C03Parse.
-/
namespace AL.C12P
open AL.PW AL.Yaml AL.Ast AL.C03P AL.C03R AL.C12R

/-! ### the document side: the keyed walk lists exactly the value scalars -/

theorem mem_under {key k : String} {l : List Node} {v : Node} : (v, k) ∈ under key l ↔ v ∈ l ∧ k = key := by
  simp only [under, List.mem_map, Prod.mk.injEq]
  constructor
  · rintro ⟨a, ha, rfl, rfl⟩; exact ⟨ha, rfl⟩
  · rintro ⟨ha, rfl⟩; exact ⟨v, ha, rfl, rfl⟩

@[simp] theorem under_fst (key : String) (l : List Node) : (under key l).map Prod.fst = l := by
  simp [under, Function.comp_def]

@[simp] theorem under_nil (key : String) : under key [] = [] := rfl

theorem flatMap_fst {α : Type} (l : List α) (f : α → List (Node × String)) (g : α → List Node)
    (h : ∀ a, (f a).map Prod.fst = g a) : (l.flatMap f).map Prod.fst = l.flatMap g := by
  induction l with
  | nil => rfl
  | cons a rest ih => simp only [List.flatMap_cons, List.map_append, h, ih]

theorem mapKeyed_fst (n : Node) (dflt : String) (g : String → Node → List (Node × String)) (g' : String → Node → List Node)
    (h : ∀ k y, (g k y).map Prod.fst = g' k y) : (mapKeyed n dflt g).map Prod.fst = mapScalars n g' := by
  simp only [mapKeyed, mapScalars]
  split
  · exact flatMap_fst _ _ _ (fun p => h p.1.value p.2)
  · exact under_fst _ _

theorem subKeyed_fst (n : Node) (dflt : String) (g : String → Node → List (Node × String))
    (h : ∀ k y, (g k y).map Prod.fst = leaves y) : (subKeyed n dflt g).map Prod.fst = leaves n := by
  simp only [subKeyed]
  split
  · rename_i hk
    rw [leaves_mapping n hk]
    exact flatMap_fst _ _ _ (fun p => h p.1.value p.2)
  · exact under_fst _ _

theorem seqKeyed_fst (n : Node) (dflt : String) (g : Node → List (Node × String)) (g' : Node → List Node)
    (h : ∀ c, (g c).map Prod.fst = g' c) : (seqKeyed n dflt g).map Prod.fst = seqScalars n g' := by
  simp only [seqKeyed, seqScalars]
  split
  · exact flatMap_fst _ _ _ h
  · exact under_fst _ _

theorem stepKeyKeyed_fst (k : String) (x : Node) : (stepKeyKeyed k x).map Prod.fst = stepKeyScalars k x := by
  simp only [stepKeyKeyed]
  split <;> simp [stepKeyScalars]

theorem stepKeyed_fst (n : Node) : (stepKeyed n).map Prod.fst = stepScalars n :=
  mapKeyed_fst n _ _ _ stepKeyKeyed_fst

theorem stepsKeyed_fst (n : Node) : (stepsKeyed n).map Prod.fst = stepsScalars n :=
  seqKeyed_fst n _ _ _ stepKeyed_fst

theorem containerKeyKeyed_fst (a b c : String) (k : String) (y : Node) : (containerKeyKeyed a b c k y).map Prod.fst = leaves y := by
  simp only [containerKeyKeyed]
  split <;> exact under_fst _ _

theorem containerKeyed_fst (a b c : String) (x : Node) : (containerKeyed a b c x).map Prod.fst = leaves x :=
  subKeyed_fst x _ _ (containerKeyKeyed_fst a b c)

theorem servicesKeyed_fst (x : Node) : (servicesKeyed x).map Prod.fst = servicesScalars x := by
  simp only [servicesKeyed, servicesScalars, exprPos]
  split
  · exact mapKeyed_fst x _ _ _ (fun _ c => containerKeyed_fst _ _ _ c)
  · rfl

theorem environmentKeyed_fst (x : Node) : (environmentKeyed x).map Prod.fst = leaves x := by
  refine subKeyed_fst x _ _ ?_
  intro k y
  simp only [environmentKeyKeyed]
  split <;> exact under_fst _ _

theorem jobKeyKeyed_fst (k : String) (x : Node) : (jobKeyKeyed k x).map Prod.fst = jobKeyScalars k x := by
  simp only [jobKeyKeyed]
  split
  all_goals first
    | (simp [jobKeyScalars, environmentKeyed_fst, containerKeyed_fst, servicesKeyed_fst, stepsKeyed_fst]; done)
    | skip
  · simp only [jobKeyScalars]
    split <;> simp

theorem jobKeyed_fst (n : Node) : (jobKeyed n).map Prod.fst = jobScalars n :=
  mapKeyed_fst n _ _ _ jobKeyKeyed_fst

theorem jobsKeyed_fst (n : Node) : (jobsKeyed n).map Prod.fst = jobsScalars n :=
  mapKeyed_fst n _ _ _ (fun _ j => jobKeyed_fst j)

theorem callInputAttrKeyed_fst (k : String) (y : Node) : (callInputAttrKeyed k y).map Prod.fst = callInputAttrScalars k y := by
  simp only [callInputAttrKeyed]
  split
  · simp only [callInputAttrScalars]
    split <;> simp
  · simp

theorem callOutputAttrKeyed_fst (k : String) (z : Node) : (callOutputAttrKeyed k z).map Prod.fst = leaves z := by
  simp only [callOutputAttrKeyed]
  split <;> exact under_fst _ _

theorem callKeyKeyed_fst (k : String) (y : Node) : (callKeyKeyed k y).map Prod.fst = callKeyScalars k y := by
  simp only [callKeyKeyed]
  split
  · simp only [callKeyScalars]
    exact mapKeyed_fst y _ _ _ (fun _ spec => mapKeyed_fst spec _ _ _ callInputAttrKeyed_fst)
  · simp only [callKeyScalars]
    exact mapKeyed_fst y _ _ _ (fun _ spec => mapKeyed_fst spec _ _ _ callOutputAttrKeyed_fst)
  · simp

theorem callKeyed_fst (x : Node) : (callKeyed x).map Prod.fst = callScalars x :=
  mapKeyed_fst x _ _ _ callKeyKeyed_fst

theorem eventKeyed_fst (k : String) (x : Node) : (eventKeyed k x).map Prod.fst = eventScalars k x := by
  simp only [eventKeyed]
  split
  · simp only [eventScalars]
    exact callKeyed_fst x
  · simp

theorem onKeyed_fst (x : Node) : (onKeyed x).map Prod.fst = onScalars x := by
  simp only [onKeyed]
  split
  · rename_i hk
    simp only [onScalars, hk]
    exact mapKeyed_fst x _ _ _ eventKeyed_fst
  · simp

theorem workflowKeyKeyed_fst (k : String) (x : Node) : (workflowKeyKeyed k x).map Prod.fst = workflowKeyScalars k x := by
  simp only [workflowKeyKeyed]
  split
  all_goals first
    | (simp [workflowKeyScalars, onKeyed_fst, jobsKeyed_fst]; done)
    | skip

/-- **the two walks agree on WHICH scalars are values**: the first components of `keyedScalars doc` are `valueScalars doc`,
in the same order — no value scalar is missing from the keyed walk, none is added -/
theorem keyedScalars_fst (doc : Node) : (keyedScalars doc).map Prod.fst = valueScalars doc := by
  simp only [keyedScalars, valueScalars]
  cases doc.content with
  | nil => rfl
  | cons root rest => exact mapKeyed_fst _ _ _ _ workflowKeyKeyed_fst

/-- every value scalar of the document has a key … -/
theorem every_scalar_keyed (doc : Node) (v : Node) (hv : v ∈ valueScalars doc) : ∃ key, (v, key) ∈ keyedScalars doc := by
  rw [← keyedScalars_fst] at hv
  obtain ⟨⟨v', k⟩, hp, rfl⟩ := List.mem_map.1 hv
  exact ⟨k, hp⟩

/-- … and what the keyed walk lists is a value scalar -/
theorem keyed_is_scalar (doc : Node) (v : Node) (key : String) (hv : (v, key) ∈ keyedScalars doc) : v ∈ valueScalars doc := by
  rw [← keyedScalars_fst]
  exact List.mem_map.2 ⟨(v, key), hv, rfl⟩

/-! ### the AST side -/

/-- the document scalar `v` is one of the strings of the keyed enumeration `l` — same text, same position — and is paired
there with the key `key` -/
def RepK (v : Node) (key : String) (l : List (Str × String)) : Prop := ∃ s, (s, key) ∈ l ∧ s.value = v.value ∧ s.pos = v.pos

theorem RepK.mono {v : Node} {key : String} {l l' : List (Str × String)} (h : RepK v key l) (hs : ∀ p ∈ l, p ∈ l') :
    RepK v key l' := by
  obtain ⟨s, hm, e⟩ := h
  exact ⟨s, hs _ hm, e⟩

theorem RepK.left {v : Node} {key : String} {a b : List (Str × String)} (h : RepK v key a) : RepK v key (a ++ b) :=
  h.mono fun _ hs => List.mem_append_left _ hs
theorem RepK.right {v : Node} {key : String} {a b : List (Str × String)} (h : RepK v key b) : RepK v key (a ++ b) :=
  h.mono fun _ hs => List.mem_append_right _ hs

theorem RepK.flatMap {α : Type} {v : Node} {key : String} {l : List α} {f : α → List (Str × String)} {a : α} (ha : a ∈ l)
    (h : RepK v key (f a)) : RepK v key (l.flatMap f) := by
  obtain ⟨s, hm, e⟩ := h
  exact ⟨s, List.mem_flatMap.2 ⟨a, ha, hm⟩, e⟩

theorem RepK.nil {v : Node} {key : String} (h : RepK v key []) : False := by
  obtain ⟨s, hm, _⟩ := h
  cases hm

/-- a string of `l`, all of which lie under `key` -/
theorem RepK.of_rep {v : Node} {l : List Str} (h : Rep v l) (key : String) : RepK v key (tag key l) := by
  obtain ⟨s, hm, e⟩ := h
  exact ⟨s, mem_tag.2 ⟨hm, rfl⟩, e⟩

theorem RepK.rep {v : Node} {key : String} {l : List (Str × String)} (h : RepK v key l) : Rep v (l.map Prod.fst) := by
  obtain ⟨s, hm, e⟩ := h
  exact ⟨s, List.mem_map.2 ⟨_, hm, rfl⟩, e⟩

theorem tag_mono {key : String} {l l' : List Str} (h : ∀ s ∈ l, s ∈ l') : ∀ p ∈ tag key l, p ∈ tag key l' := by
  rintro ⟨s, k⟩ hp
  obtain ⟨hs, rfl⟩ := mem_tag.1 hp
  exact mem_tag.2 ⟨h s hs, rfl⟩

/-- the scalars under one key: the C03Parse theorem of the section carries over -/
theorem RepK.of_under {v : Node} {key K : String} {l : List Node} {strs : List Str} (hv : (v, key) ∈ under K l)
    (h : v ∈ l → Rep v strs) : RepK v key (tag K strs) := by
  obtain ⟨hm, rfl⟩ := mem_under.1 hv
  exact RepK.of_rep (h hm) _

/-! ### the keyed walk meets `parseMapping` -/

theorem mapKeyed_clean (cfg : Cfg) (what : String) (n : Node) (ae cs : Bool) (dflt : String)
    (g : String → Node → List (Node × String)) (v : Node) (key : String)
    (hv : (v, key) ∈ mapKeyed n dflt g) (h : (parseMapping cfg what n ae cs).2 = []) :
    ∃ kv ∈ (parseMapping cfg what n ae cs).1, ∃ k, (cs = true → k = kv.id) ∧ (v, key) ∈ g k kv.val := by
  obtain ⟨hk, hp⟩ := parseMapping_clean cfg what n ae cs h
  have : (n.kind = .mapping || n.isNull) = true := by
    rcases hk with hk | hk <;> simp [hk]
  simp only [mapKeyed, this, ↓reduceIte, List.mem_flatMap] at hv
  obtain ⟨p, hpm, hv⟩ := hv
  obtain ⟨kv, hkv, e1, e2⟩ := hp p hpm
  refine ⟨kv, hkv, p.1.value, ?_, by rw [e1]; exact hv⟩
  intro hcs
  simp [e2, keyOf, hcs]

/-- where the mapping must not be empty the node is a mapping, and `subKeyed` is `mapKeyed` -/
theorem subKeyed_clean (cfg : Cfg) (what : String) (n : Node) (cs : Bool) (dflt : String)
    (g : String → Node → List (Node × String)) (h : (parseMapping cfg what n false cs).2 = []) :
    subKeyed n dflt g = mapKeyed n dflt g := by
  have hk := parseMapping_clean_notnull cfg what n cs h
  simp [subKeyed, mapKeyed, hk]

variable {σ : Type}

/-- the keyed `sect_keyed` -/
theorem sect_keyedK (cfg : Cfg) (what : String) (n : Node) (ae cs : Bool) (step : σ → KV → σ × List PErr) (init : σ)
    (dflt : String) (g : String → Node → List (Node × String)) (v : Node) (key : String) (hv : (v, key) ∈ mapKeyed n dflt g)
    (I Q : String → σ → Prop) (hI0 : ∀ k, I k init)
    (hm : (parseMapping cfg what n ae cs).2 = [])
    (hr : (loop step init (parseMapping cfg what n ae cs).1).2 = [])
    (H : ∀ (kv : KV) (k : String), (cs = true → k = kv.id) → (v, key) ∈ g k kv.val →
      (∀ st kv', kv'.id ≠ kv.id → I kv.id st → I kv.id (step st kv').1) ∧
      (∀ st, I kv.id st → (step st kv).2 = [] → Q kv.id (step st kv).1) ∧
      (∀ st kv', kv'.id ≠ kv.id → Q kv.id st → (step st kv').2 = [] → Q kv.id (step st kv').1)) :
    ∃ k, Q k (loop step init (parseMapping cfg what n ae cs).1).1 := by
  obtain ⟨kv, hkv, k, hk, hvk⟩ := mapKeyed_clean cfg what n ae cs dflt g v key hv hm
  obtain ⟨h1, h2, h3⟩ := H kv k hk hvk
  exact ⟨kv.id, loop_keyed step (I kv.id) (Q kv.id) kv h1 h2 h3 _ (parseMapping_nodup cfg what n ae cs) hkv init (hI0 _) hr⟩

/-- the keyed `sect_K`: the scalar is one of the keyed strings `K id st` the loop state holds under the id of the entry it
lies below, WITH ITS KEY; `K id` is only touched by the iteration of `id` -/
theorem sect_KK (cfg : Cfg) (what : String) (n : Node) (ae cs : Bool) (step : σ → KV → σ × List PErr) (init : σ)
    (dflt : String) (g : String → Node → List (Node × String)) (v : Node) (key : String) (hv : (v, key) ∈ mapKeyed n dflt g)
    (K : String → σ → List (Str × String))
    (hm : (parseMapping cfg what n ae cs).2 = [])
    (hr : (loop step init (parseMapping cfg what n ae cs).1).2 = [])
    (hstore : ∀ (kv : KV) (k : String) (st : σ), (cs = true → k = kv.id) → (v, key) ∈ g k kv.val → (step st kv).2 = [] →
      RepK v key (K kv.id (step st kv).1))
    (hpres : ∀ (k : String) (st : σ) (kv : KV), kv.id ≠ k → ∀ p ∈ K k st, p ∈ K k (step st kv).1) :
    ∃ k, RepK v key (K k (loop step init (parseMapping cfg what n ae cs).1).1) :=
  sect_keyedK cfg what n ae cs step init dflt g v key hv (fun _ _ => True) (fun k st => RepK v key (K k st))
    (fun _ => trivial) hm hr
    (fun kv k hk hvk => ⟨fun _ _ _ _ => trivial, fun st _ hc => hstore kv k st hk hvk hc,
      fun st kv' hne hq _ => hq.mono (hpres kv.id st kv' hne)⟩)

/-- **a section whose keys each lie under ONE workflow key** (`kname id`), in a case-sensitive mapping: `…_store` and
`…_pres` of C03Parse carry over; the scalar is among the strings held under the id `k` of its entry, and its key is
`kname k` -/
theorem sect_tag (cfg : Cfg) (what : String) (n : Node) (ae : Bool) (step : σ → KV → σ × List PErr) (init : σ)
    (dflt : String) (kname : String → String) (g : String → Node → List Node) (v : Node) (key : String)
    (hv : (v, key) ∈ mapKeyed n dflt (fun k y => under (kname k) (g k y))) (K : String → σ → List Str)
    (hm : (parseMapping cfg what n ae true).2 = [])
    (hr : (loop step init (parseMapping cfg what n ae true).1).2 = [])
    (hstore : ∀ (kv : KV) (st : σ), v ∈ g kv.id kv.val → (step st kv).2 = [] → Rep v (K kv.id (step st kv).1))
    (hpres : ∀ (k : String) (st : σ) (kv : KV), kv.id ≠ k → ∀ s ∈ K k st, s ∈ K k (step st kv).1) :
    ∃ k, key = kname k ∧ Rep v (K k (loop step init (parseMapping cfg what n ae true).1).1) := by
  obtain ⟨k, hk, hq⟩ := sect_keyedK cfg what n ae true step init dflt _ v key hv (fun _ _ => True)
    (fun k st => key = kname k ∧ Rep v (K k st)) (fun _ => trivial) hm hr
    (by
      intro kv k hid hvk
      have := hid rfl
      subst this
      obtain ⟨hvk, hkey⟩ := mem_under.1 hvk
      exact ⟨fun _ _ _ _ => trivial, fun st _ hc => ⟨hkey, hstore kv st hvk hc⟩,
        fun st kv' hne hq _ => ⟨hq.1, hq.2.mono (hpres kv.id st kv' hne)⟩⟩)
  exact ⟨k, hk, hq⟩

end AL.C12P
