import AL.Props.C18Parse
/-
  Helper lemmas for AL.Props.C09Doc: what `RuleJobNeeds` (AL.Needs.check) reports, job by job, when the folded job ids
  are pairwise distinct (which the parser guarantees, `C18P.parsed_job_ids_nodup`):
    * `needs-duplicate`: a function of the job alone (`dupOf`);
    * `needs-undefined`: a function of the job and of the SET of job ids (`undefOf`);
    * `needs-cyclic`: at most one for the whole graph, and only when nothing is undefined.
-/
namespace AL.C09D
open AL.Needs AL.C18P

/-- the `needs-duplicate` reports of a job: a function of the job alone -/
def dupOf (lower : String → String) (j : JobIn) : List Diag := (normNeeds lower j.needs []).2

/-- the `needs-undefined` reports of a job: a function of the job and of the ids of the workflow's jobs -/
def undefOf (lower : String → String) (ids : List String) (j : JobIn) : List Diag :=
  if lower j.idValue = "" then []
  else ((normNeeds lower j.needs []).1.filter fun dep => !ids.contains dep).map fun dep =>
    Diag.undefined j.idPos (lower j.idValue) dep

/-- with pairwise distinct folded ids `VisitJobPre` reports exactly the jobs' own `needs-duplicate`s, in order -/
theorem visitJobs_diags_of_nodup (lower : String → String) : ∀ (jobs : List JobIn) (nodes : List RawNode),
    (nodes.map (·.id) ++ (jobs.map fun j => lower j.idValue).filter (· ≠ "")).Nodup →
    (visitJobs lower jobs nodes).2 = jobs.flatMap (dupOf lower)
  | [], nodes, _ => by simp [visitJobs]
  | j :: rest, nodes, h => by
    simp only [visitJobs]
    by_cases hid : lower j.idValue = ""
    · have h' : (nodes.map (·.id) ++ (rest.map fun j => lower j.idValue).filter (· ≠ "")).Nodup := by
        simpa [List.filter_cons, hid] using h
      have ih := visitJobs_diags_of_nodup lower rest nodes h'
      simp only [hid, ↓reduceIte, ih, List.flatMap_cons, dupOf]
    · have hnew : ∀ n ∈ nodes, n.id ≠ lower j.idValue := by
        intro n hn e
        have h1 : (nodes.map (·.id) ++ (lower j.idValue :: (rest.map fun j => lower j.idValue).filter (· ≠ ""))).Nodup := by
          simpa [List.filter_cons, hid] using h
        rw [List.nodup_append] at h1
        exact h1.2.2 n.id (List.mem_map.2 ⟨n, hn, rfl⟩) (lower j.idValue) (by simp) e
      have hfind : nodes.find? (fun n => decide (n.id = lower j.idValue)) = none := by
        rw [List.find?_eq_none]; intro n hn; simpa using hnew n hn
      have hany : nodes.any (fun n => decide (n.id = lower j.idValue)) = false := by
        rw [List.any_eq_false]; intro n hn; simpa using hnew n hn
      have h' : ((nodes ++ [mkNode lower j]).map (·.id) ++ (rest.map fun j => lower j.idValue).filter (· ≠ "")).Nodup := by
        simpa [List.filter_cons, hid, mkNode] using h
      have ih := visitJobs_diags_of_nodup lower rest (nodes ++ [mkNode lower j]) h'
      simp only [hid, ↓reduceIte, hfind, hany, Bool.false_eq_true, List.append_nil, List.flatMap_cons, dupOf]
      rw [show (nodes ++ [({ id := lower j.idValue, pos := j.idPos, needs := (normNeeds lower j.needs []).1 } : RawNode)]) =
        nodes ++ [mkNode lower j] from rfl, ih]

/-- `normNeeds` keeps no empty name -/
theorem normNeeds_ne_empty (lower : String → String) (ns : List NeedRef) : ∀ dep ∈ (normNeeds lower ns []).1, dep ≠ "" := by
  intro dep h
  have := (normNeeds_mem lower dep ns []).1 h
  simp only [List.not_mem_nil, false_or] at this
  exact this.1

/-- the resolution loop, job by job -/
theorem resolve_diags_of_nodup (lower : String → String) (jobs : List JobIn)
    (h : ((jobs.map fun j => lower j.idValue).filter (· ≠ "")).Nodup) :
    (resolve (nodesOf lower jobs)).2 = jobs.flatMap (undefOf lower (jobs.map fun j => lower j.idValue)) := by
  have hn : nodesOf lower jobs = (jobs.filter fun j => lower j.idValue ≠ "").map (mkNode lower) := by
    have := (visitJobs_of_nodup lower jobs [] (by simpa using h)).1
    simpa [nodesOf] using this
  rw [hn]
  simp only [resolve]
  generalize hN : (jobs.filter fun j => lower j.idValue ≠ "").map (mkNode lower) = N
  have hmem : ∀ dep, dep ≠ "" → ((indexOf? N dep).isNone = !(jobs.map fun j => lower j.idValue).contains dep) := by
    intro dep hd
    rw [Bool.eq_iff_iff, indexOf?_isNone]
    subst hN
    simp only [List.mem_map, List.mem_filter, Bool.not_eq_true', List.contains_eq_mem, decide_eq_false_iff_not,
      forall_exists_index, and_imp]
    constructor
    · intro hall ⟨j, hj, e⟩
      exact hall _ j hj (by simpa [e] using hd) rfl (by simpa [mkNode] using e)
    · intro hno m j hj _ e1 e2
      subst e1
      exact hno ⟨j, hj, by simpa [mkNode] using e2⟩
  subst hN
  rw [List.flatMap_map]
  -- a `flatMap` over a filter is a `flatMap` with an `if`
  have hf : ∀ (l : List JobIn) (g : JobIn → List Diag),
      (l.filter fun j => lower j.idValue ≠ "").flatMap g = l.flatMap fun j => if lower j.idValue = "" then [] else g j := by
    intro l g
    induction l with
    | nil => rfl
    | cons x rest ih =>
      simp only [ne_eq, decide_not] at ih ⊢
      by_cases hx : lower x.idValue = "" <;> simp [hx, ih]
  rw [hf]
  apply List.flatMap_congr
  intro j _
  simp only [undefOf]
  split
  · rfl
  · simp only [mkNode]
    congr 1
    apply List.filter_congr
    intro dep hdep
    exact hmem dep (normNeeds_ne_empty lower j.needs dep hdep)

/-- **`RuleJobNeeds`, job by job** (folded ids pairwise distinct): the jobs' own `needs-duplicate`s; then the jobs'
`needs-undefined`s if there is one, else the (at most one) `needs-cyclic` of the graph -/
theorem check_decomp (lower : String → String) (jobs : List JobIn) (order : List Nat)
    (h : ((jobs.map fun j => lower j.idValue).filter (· ≠ "")).Nodup) :
    check lower jobs order =
      jobs.flatMap (dupOf lower) ++
        (if (jobs.flatMap (undefOf lower (jobs.map fun j => lower j.idValue))).isEmpty then
          (match cycleDiag (graphOf lower jobs) order with | some c => [Diag.cyclic c] | none => [])
         else jobs.flatMap (undefOf lower (jobs.map fun j => lower j.idValue))) := by
  rw [check_eq, resolve_diags_of_nodup lower jobs h, visitJobs_diags_of_nodup lower jobs [] (by simpa using h)]
  cases hU : (jobs.flatMap (undefOf lower (jobs.map fun j => lower j.idValue))).isEmpty
  · simp
  · simp only [Bool.not_true, Bool.false_eq_true, ↓reduceIte]
    cases cycleDiag (graphOf lower jobs) order <;> simp

/-- when no `needs-cyclic` is reported, the rule's output is the two per-job parts -/
theorem check_no_cyclic (lower : String → String) (jobs : List JobIn) (order : List Nat)
    (h : ((jobs.map fun j => lower j.idValue).filter (· ≠ "")).Nodup)
    (hc : ∀ c, Diag.cyclic c ∉ check lower jobs order) :
    check lower jobs order =
      jobs.flatMap (dupOf lower) ++ jobs.flatMap (undefOf lower (jobs.map fun j => lower j.idValue)) := by
  have hd := check_decomp lower jobs order h
  rw [hd] at hc ⊢
  cases hU : (jobs.flatMap (undefOf lower (jobs.map fun j => lower j.idValue))).isEmpty
  · simp
  · simp only [hU, ↓reduceIte] at hc ⊢
    have hnil : jobs.flatMap (undefOf lower (jobs.map fun j => lower j.idValue)) = [] := List.isEmpty_iff.1 hU
    rw [hnil]
    cases hcy : cycleDiag (graphOf lower jobs) order with
    | none => rfl
    | some c =>
      exfalso
      apply hc c
      simp [hcy]

/-- a job's `needs-undefined`s when one more id `x` joins the id set: those naming `x` go, the others stay -/
theorem undefOf_insert (lower : String → String) (ids₁ ids₂ : List String) (x : String) (j : JobIn) :
    undefOf lower (ids₁ ++ x :: ids₂) j =
      (undefOf lower (ids₁ ++ ids₂) j).filter fun d => match d with | .undefined _ _ dep => dep ≠ x | _ => true := by
  simp only [undefOf]
  split
  · rfl
  · rw [List.filter_map, List.filter_filter]
    congr 1
    apply List.filter_congr
    intro dep _
    simp only [List.contains_eq_mem, List.mem_append, List.mem_cons, Function.comp_apply, ne_eq, decide_not]
    by_cases hx : dep = x <;> simp [hx]

/-- nobody needs `x`: nothing changes -/
theorem undefOf_insert_unneeded (lower : String → String) (ids₁ ids₂ : List String) (x : String) (j : JobIn)
    (h : x ∉ (normNeeds lower j.needs []).1) :
    undefOf lower (ids₁ ++ x :: ids₂) j = undefOf lower (ids₁ ++ ids₂) j := by
  simp only [undefOf]
  split
  · rfl
  · congr 1
    apply List.filter_congr
    intro dep hdep
    have : dep ≠ x := fun e => h (e ▸ hdep)
    simp [this]

/-! ### one more node: the needs graph of the smaller list embeds into that of the bigger one -/

open AL.Spec

/-- the index of an old node in the list with one more node after the first `k` -/
def shift (k v : Nat) : Nat := if v < k then v else v + 1

theorem getElem?_shift (NA NB : List RawNode) (nx : RawNode) (v : Nat) :
    (NA ++ nx :: NB)[shift NA.length v]? = (NA ++ NB)[v]? := by
  simp only [shift]
  by_cases h : v < NA.length
  · simp only [h, ↓reduceIte, List.getElem?_append_left h]
  · have h1 : NA.length ≤ v := Nat.le_of_not_lt h
    have h2 : NA.length ≤ v + 1 := by omega
    simp only [h, ↓reduceIte, List.getElem?_append_right h1, List.getElem?_append_right h2]
    have : v + 1 - NA.length = (v - NA.length) + 1 := by omega
    rw [this, List.getElem?_cons_succ]

theorem indexOf?_shift (NA NB : List RawNode) (nx : RawNode) (dep : String) (w : Nat)
    (hx : ∀ n ∈ NA ++ NB, n.id ≠ nx.id) (h : indexOf? (NA ++ NB) dep = some w) :
    indexOf? (NA ++ nx :: NB) dep = some (shift NA.length w) := by
  simp only [indexOf?] at h ⊢
  split at h
  · rename_i hlt
    simp only [Option.some.injEq] at h
    have hne : nx.id ≠ dep := by
      obtain ⟨n, hn, hp⟩ := List.findIdx_lt_length.1 hlt
      have : n.id = dep := by simpa using hp
      exact fun e => hx n hn (this.trans e.symm)
    have hpx : (decide (nx.id = dep)) = false := by simpa using hne
    rw [List.findIdx_append] at h hlt
    rw [List.findIdx_append, List.findIdx_cons, hpx]
    simp only [cond_false]
    by_cases hfa : List.findIdx (fun x => decide (x.id = dep)) NA < NA.length
    · simp only [hfa, ↓reduceIte] at h hlt ⊢
      subst h
      simp only [shift, hfa, ↓reduceIte, List.length_append, List.length_cons]
      split
      · rfl
      · rename_i hc; exfalso; apply hc; omega
    · simp only [hfa, ↓reduceIte] at h hlt ⊢
      subst h
      have : ¬ (List.findIdx (fun x => decide (x.id = dep)) NB + NA.length < NA.length) := by omega
      simp only [shift, this, ↓reduceIte, List.length_append, List.length_cons] at hlt ⊢
      split
      · congr 1; omega
      · rename_i hc; exfalso; apply hc; omega
  · cases h

theorem succ_resolve (N : List RawNode) (v w : Nat) :
    w ∈ (resolve N).1.succ v ↔ ∃ n, N[v]? = some n ∧ ∃ dep ∈ n.needs, indexOf? N dep = some w := by
  simp only [resolve, Graph.succ, List.getElem?_map]
  cases N[v]? with
  | none => simp
  | some n => simp [List.mem_filterMap]

theorem succ_shift (NA NB : List RawNode) (nx : RawNode) (hx : ∀ n ∈ NA ++ NB, n.id ≠ nx.id) (v w : Nat)
    (h : w ∈ (resolve (NA ++ NB)).1.succ v) :
    shift NA.length w ∈ (resolve (NA ++ nx :: NB)).1.succ (shift NA.length v) := by
  rw [succ_resolve] at h ⊢
  obtain ⟨n, hn, dep, hdep, hi⟩ := h
  exact ⟨n, by rw [getElem?_shift]; exact hn, dep, hdep, indexOf?_shift NA NB nx dep w hx hi⟩

theorem walk_shift (NA NB : List RawNode) (nx : RawNode) (hx : ∀ n ∈ NA ++ NB, n.id ≠ nx.id) (vs : List Nat)
    (h : Walk (resolve (NA ++ NB)).1 vs) : Walk (resolve (NA ++ nx :: NB)).1 (vs.map (shift NA.length)) := by
  have hlen : ∀ v, v < (resolve (NA ++ NB)).1.length → shift NA.length v < (resolve (NA ++ nx :: NB)).1.length := by
    intro v hv
    simp only [resolve_length, List.length_append, List.length_cons, shift] at hv ⊢
    split <;> omega
  induction h with
  | single v hv => exact .single _ (hlen v hv)
  | cons v w rest hv he _ ih =>
    simp only [List.map_cons] at ih ⊢
    exact .cons _ _ _ (hlen v hv) (succ_shift NA NB nx hx v w he) ih

/-- **a cycle of the smaller graph is a cycle of the bigger one** -/
theorem cyclic_insert_node (NA NB : List RawNode) (nx : RawNode) (hx : ∀ n ∈ NA ++ NB, n.id ≠ nx.id)
    (h : Cyclic (resolve (NA ++ NB)).1) : Cyclic (resolve (NA ++ nx :: NB)).1 := by
  obtain ⟨vs, hw, hl, he⟩ := h
  refine ⟨vs.map (shift NA.length), walk_shift NA NB nx hx vs hw, by simpa using hl, ?_⟩
  rw [List.head?_map, List.getLast?_map, he]

/-- the same for job lists with pairwise distinct folded ids -/
theorem cyclic_add_job (lower : String → String) (A B : List JobIn) (x : JobIn)
    (h : (((A ++ x :: B).map fun j => lower j.idValue).filter (· ≠ "")).Nodup)
    (hc : Cyclic (graphOf lower (A ++ B))) : Cyclic (graphOf lower (A ++ x :: B)) := by
  have h₀ : (((A ++ B).map fun j => lower j.idValue).filter (· ≠ "")).Nodup := by
    refine h.sublist ?_
    simp only [List.map_append, List.map_cons, List.filter_append]
    exact List.Sublist.append_left (List.Sublist.filter _ (List.sublist_cons_self _ _)) _
  have hn : ∀ jobs : List JobIn, ((jobs.map fun j => lower j.idValue).filter (· ≠ "")).Nodup →
      nodesOf lower jobs = (jobs.filter fun j => lower j.idValue ≠ "").map (mkNode lower) := by
    intro jobs hj
    have := (visitJobs_of_nodup lower jobs [] (by simpa using hj)).1
    simpa [nodesOf] using this
  simp only [graphOf, hn _ h, hn _ h₀] at hc ⊢
  by_cases hid : lower x.idValue = ""
  · simpa [List.filter_append, List.filter_cons, hid] using hc
  · simp only [List.filter_append, List.filter_cons, hid, ne_eq, not_false_eq_true, decide_true, ↓reduceIte, List.map_append,
      List.map_cons] at hc ⊢
    refine cyclic_insert_node _ _ _ ?_ hc
    intro n hn' e
    -- `n` is the node of a job of `A ++ B` with the folded id of `x`
    simp only [List.mem_append, List.mem_map, List.mem_filter] at hn'
    have hmem : lower x.idValue ∈ ((A ++ B).map fun j => lower j.idValue).filter (· ≠ "") := by
      rcases hn' with ⟨j, ⟨hj, _⟩, rfl⟩ | ⟨j, ⟨hj, _⟩, rfl⟩
      · simp only [mkNode] at e
        exact List.mem_filter.2 ⟨List.mem_map.2 ⟨j, List.mem_append_left _ hj, e⟩, by simpa using hid⟩
      · simp only [mkNode] at e
        exact List.mem_filter.2 ⟨List.mem_map.2 ⟨j, List.mem_append_right _ hj, e⟩, by simpa using hid⟩
    -- but the ids of `A ++ x :: B` are pairwise distinct
    simp only [List.map_append, List.map_cons, List.filter_append, List.filter_cons, hid, ne_eq, not_false_eq_true, decide_true,
      ↓reduceIte] at h hmem
    rw [List.nodup_append] at h
    rcases List.mem_append.1 hmem with hm | hm
    · exact h.2.2 _ hm _ (List.mem_cons_self ..) rfl
    · exact (List.nodup_cons.1 h.2.1).1 hm

end AL.C09D
