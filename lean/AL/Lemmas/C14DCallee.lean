import AL.Lemmas.C14DBase
import AL.Props.C08Parse
/-
  Lemmas for AL.Props.C14Doc, part 2: the interface of a reusable workflow READ FROM ITS DOCUMENT.

  `readMeta cfg cd` is written without the parser and without the decoder: it walks `on:` → `workflow_call:` →
  `inputs:` / `secrets:` / `outputs:` with `attr` and lists the entries. `fromDocAst_read`: for a document the parser accepts
  without a diagnostic, the interface `WriteWorkflowCallEvent` derives from the AST is `readMeta`.
-/
namespace AL.C14D
open AL.Yaml AL.PW AL.Ast AL.CallMeta AL.C10M

/-! ### the reader -/

def trueWords : List String := ["true", "True", "TRUE"]

/-- the node is the boolean literal `true` -/
def saysTrue (n : Node) : Bool := n.kind = .scalar && n.tag = "!!bool" && trueWords.contains n.value

/-- the entry has a `default:` that is not null -/
def hasDefault (v : Node) : Bool :=
  match attr "default" v with
  | some d => !d.isNull
  | none => false

/-- the entry has `required: true` -/
def requiredTrue (v : Node) : Bool :=
  match attr "required" v with
  | some r => saysTrue r
  | none => false

/-- an input must be supplied: `required: true` and no (non-null) `default:` -/
def inputRequired (v : Node) : Bool := requiredTrue v && !hasDefault v

def typeOf (v : Node) : CallMeta.Ty :=
  match attr "type" v with
  | some t => tyOfString t.value
  | none => .any

/-- the key/value pairs of a section node (nothing for a node that is not a mapping, e.g. `inputs:` with no value) -/
def secEntries (n : Node) : List (Node × Node) := if n.kind = .mapping then pairs n.content else []

/-- the entries of the section `name` of a `workflow_call:` node -/
def sectionOf (name : String) (c : Node) : List (Node × Node) :=
  match attr name c with
  | some s => secEntries s
  | none => []

def inputsOf (cfg : Cfg) (c : Node) : List (String × CallMeta.Input) :=
  (sectionOf "inputs" c).map fun q => (cfg.lower q.1.value, ⟨q.1.value, inputRequired q.2, typeOf q.2⟩)

def secretsOf (cfg : Cfg) (c : Node) : List (String × CallMeta.Secret) :=
  (sectionOf "secrets" c).map fun q => (cfg.lower q.1.value, ⟨q.1.value, requiredTrue q.2⟩)

def outputsOf (cfg : Cfg) (c : Node) : List (String × String) :=
  (sectionOf "outputs" c).map fun q => (cfg.lower q.1.value, q.1.value)

def readCall (cfg : Cfg) : Option Node → Meta
  | some c => { inputs := inputsOf cfg c, outputs := outputsOf cfg c, secrets := secretsOf cfg c }
  | none => {}

/-- the root mapping of a document -/
def rootOf (doc : Node) : Option Node := doc.content.head?

/-- the value of `on:` -/
def onNode (doc : Node) : Option Node := (rootOf doc).bind (attr "on")

/-- the value of `on: → workflow_call:` -/
def callNode (doc : Node) : Option Node := (onNode doc).bind (attr "workflow_call")

/-- the entries of `on.workflow_call.<name>` of a document -/
def entries (name : String) (doc : Node) : List (Node × Node) :=
  match callNode doc with
  | some c => sectionOf name c
  | none => []

/-- **the interface of a reusable workflow, read from its document** -/
def readMeta (cfg : Cfg) (doc : Node) : Meta := readCall cfg (callNode doc)

/-! ### attributes -/

theorem attr_eq (name : String) (v : Node) (hs : Sane v) (hk : v.kind = .mapping ∨ v.isNull = true) :
    valueOf name (pairs v.content) = attr name v := by
  rcases hk with hk | hk
  · simp [attr, hk]
  · have hsc := (null_tag v hk).1
    rw [pairs_of_null v hs hk]
    simp [attr, hsc, valueOf]

theorem secEntries_eq (v : Node) (hs : Sane v) (hk : v.kind = .mapping ∨ v.isNull = true) : pairs v.content = secEntries v := by
  rcases hk with hk | hk
  · simp [secEntries, hk]
  · have hsc := (null_tag v hk).1
    rw [pairs_of_null v hs hk]
    simp [secEntries, hsc]

/-- looking an id up among the entries of a case-sensitive mapping, then using the entry -/
theorem match_find {α : Type} (cfg : Cfg) (name : String) (f : KV → α) (d : α) (l : List (Node × Node)) :
    ((l.map (mkKV cfg true)).find? (fun kv => kv.id = name)).elim d f =
      (l.find? (fun q => q.1.value = name)).elim d (fun q => f (mkKV cfg true q)) := by
  rw [find_mkKV]
  cases l.find? (fun q => q.1.value = name) <;> rfl

theorem match_find_val {α : Type} (cfg : Cfg) (name : String) (f : Node → α) (d : α) (l : List (Node × Node)) :
    ((l.map (mkKV cfg true)).find? (fun kv => kv.id = name)).elim d (fun kv => f kv.val) = (valueOf name l).elim d f := by
  rw [match_find cfg name (fun kv => f kv.val) d l, ← find_pair_value]
  cases l.find? (fun q => q.1.value = name) <;> rfl

theorem parseBool_saysTrue (r : Node) (hs : Sane r) (hstr : r.tag ≠ "!!str") (h : (parseBool r).2 = []) :
    boolOf (parseBool r).1 = saysTrue r := by
  simp only [parseBool] at h ⊢
  by_cases hk : r.kind = .scalar
  · by_cases hb : r.tag = "!!bool"
    · have hv := hs.boolValue hb
      simp only [boolWords, List.mem_cons, List.not_mem_nil, or_false] at hv
      rcases hv with e | e | e | e | e | e <;>
        simp [hk, hb, e, boolOf, saysTrue, trueWords, asciiLower] <;> decide
    · simp [hk, hb, hstr] at h
  · simp [hk] at h

/-! ### one input -/

theorem callInputAttr_required_keep (st : CallInput × Bool) (kv : KV) (hne : kv.id ≠ "required") :
    (callInputAttr st kv).1.1.required = st.1.required := by
  simp only [callInputAttr]
  split
  · rfl
  · rename_i h; exact absurd h hne
  · split <;> rfl
  · split <;> rfl
  · rfl

theorem callInputAttr_dflt_keep (st : CallInput × Bool) (kv : KV) (hne : kv.id ≠ "default") :
    (callInputAttr st kv).1.1.dflt = st.1.dflt := by
  simp only [callInputAttr]
  split
  · rfl
  · rfl
  · rename_i h; exact absurd h hne
  · split <;> rfl
  · rfl

theorem callInputAttr_type_keep (st : CallInput × Bool) (kv : KV) (hne : kv.id ≠ "type") :
    (callInputAttr st kv).1.1.type = st.1.type := by
  simp only [callInputAttr]
  split
  · rfl
  · rfl
  · split <;> rfl
  · rename_i h; exact absurd h hne
  · rfl

/-- what the iteration of `type:` makes of the declared type -/
def tyOfValue (old : CallMeta.Ty) (s : String) : CallMeta.Ty :=
  match s with
  | "boolean" => .bool
  | "number" => .number
  | "string" => .string
  | _ => old

theorem tyOfValue_any (s : String) : tyOfValue .any s = tyOfString s := by
  unfold tyOfValue tyOfString
  rfl

/-- **one entry of `inputs:`**: what the parser makes of it, in terms of the entry's node -/
theorem callInput_read (cfg : Cfg) (kv : KV) (hs : SaneTo 1 kv.val) (hnp : NoPH kv.val) (hc : (callInput cfg kv).2 = []) :
    inputOfAst (callInput cfg kv).1 = ⟨kv.key.value, inputRequired kv.val, typeOf kv.val⟩ := by
  have hname := (AL.C08P.callInput_id cfg kv).2
  simp only [callInput] at hc hname ⊢
  obtain ⟨hc12, _⟩ := nil_of_append_nil hc
  obtain ⟨hm, hl⟩ := nil_of_append_nil hc12
  obtain ⟨hkind, heq, hnd, _, _⟩ := parseMapping_clean_eq cfg _ kv.val true true hm
  have hsv : Sane kv.val := hs.sane
  rw [heq] at hl hname ⊢
  generalize hinit : (({ name := kv.key, id := kv.id } : CallInput), false) = init at hl hname ⊢
  -- required
  have hreq := loop_field_clean callInputAttr (fun st => boolOf st.1.required) "required" (fun _ a => boolOf (parseBool a.val).1)
    (by intro st a ha _; simp only [callInputAttr, ha])
    (by intro st a ha _; simp only [callInputAttr_required_keep st a ha])
    _ init hnd hl
  rw [match_find_val cfg "required" (fun x => boolOf (parseBool x).1) _ (pairs kv.val.content)] at hreq
  have hreq' : boolOf (loop callInputAttr init ((pairs kv.val.content).map (mkKV cfg true))).1.1.required = requiredTrue kv.val := by
    rw [hreq]
    simp only [requiredTrue, ← attr_eq "required" kv.val hsv hkind]
    cases hv : valueOf "required" (pairs kv.val.content) with
    | none => subst hinit; rfl
    | some r =>
      simp only
      obtain ⟨k, hmem, hkv⟩ := valueOf_mem hv
      have hsr : Sane r := (hs.2 (k, r) hmem).2
      have hstr : r.tag ≠ "!!str" := hnp (k, r) hmem hkv
      obtain ⟨st, hst⟩ := loop_clean_mem callInputAttr _ init hl (mkKV cfg true (k, r)) (List.mem_map.2 ⟨_, hmem, rfl⟩)
      have hid : (mkKV cfg true (k, r)).id = "required" := hkv
      simp only [callInputAttr, hid] at hst
      exact parseBool_saysTrue r hsr hstr hst
  -- default
  have hdf := loop_field_clean callInputAttr (fun st => st.1.dflt.isSome) "default" (fun old a => if a.val.isNull then old else true)
    (by intro st a ha _
        simp only [callInputAttr, ha]
        split <;> simp)
    (by intro st a ha _; simp only [callInputAttr_dflt_keep st a ha])
    _ init hnd hl
  rw [match_find_val cfg "default" (fun x => if x.isNull then init.1.dflt.isSome else true) _ (pairs kv.val.content)] at hdf
  have hdf' : (loop callInputAttr init ((pairs kv.val.content).map (mkKV cfg true))).1.1.dflt.isSome = hasDefault kv.val := by
    rw [hdf]
    simp only [hasDefault, ← attr_eq "default" kv.val hsv hkind]
    cases hv : valueOf "default" (pairs kv.val.content) with
    | none => subst hinit; rfl
    | some d =>
      subst hinit
      cases hn : d.isNull <;> simp [hn]
  -- type
  have hty := loop_field_clean callInputAttr (fun st => tyOfAst st.1.type) "type" (fun old a => tyOfValue old a.val.value)
    (by intro st a ha _
        simp only [callInputAttr, ha, tyOfValue]
        split <;> simp_all [tyOfAst])
    (by intro st a ha _; simp only [callInputAttr_type_keep st a ha])
    _ init hnd hl
  rw [match_find_val cfg "type" (fun x => tyOfValue (tyOfAst init.1.type) x.value) _ (pairs kv.val.content)] at hty
  have hty' : tyOfAst (loop callInputAttr init ((pairs kv.val.content).map (mkKV cfg true))).1.1.type = typeOf kv.val := by
    rw [hty]
    simp only [typeOf, ← attr_eq "type" kv.val hsv hkind]
    cases hv : valueOf "type" (pairs kv.val.content) with
    | none => subst hinit; rfl
    | some t =>
      subst hinit
      simp only [tyOfAst, Option.elim]
      exact tyOfValue_any t.value
  simp only [inputOfAst, hname, hreq', hty', inputRequired]
  have : (loop callInputAttr init ((pairs kv.val.content).map (mkKV cfg true))).1.1.dflt.isNone = !hasDefault kv.val := by
    rw [← hdf']
    cases (loop callInputAttr init ((pairs kv.val.content).map (mkKV cfg true))).1.1.dflt <;> rfl
  rw [this]

theorem callInputs_fst (cfg : Cfg) : ∀ (kvs : List KV), (callInputs cfg kvs).1 = kvs.map fun kv => (callInput cfg kv).1
  | [] => rfl
  | kv :: rest => by simp only [callInputs, List.map_cons, callInputs_fst cfg rest]

theorem callInputs_clean (cfg : Cfg) : ∀ (kvs : List KV), (callInputs cfg kvs).2 = [] → ∀ kv ∈ kvs, (callInput cfg kv).2 = []
  | [], _, kv, hk => by cases hk
  | x :: rest, h, kv, hk => by
    simp only [callInputs] at h
    obtain ⟨h1, h2⟩ := nil_of_append_nil h
    rcases List.mem_cons.1 hk with rfl | hk
    · exact h1
    · exact callInputs_clean cfg rest h2 kv hk

/-! ### one secret -/

theorem callSecretAttr_required_keep (st : CallSecret) (kv : KV) (hne : kv.id ≠ "required") :
    (callSecretAttr st kv).1.required = st.required := by
  simp only [callSecretAttr]
  split
  · rfl
  · rename_i h; exact absurd h hne
  · rfl

theorem callSecret_read (cfg : Cfg) (kv : KV) (hs : SaneTo 1 kv.val) (hnp : NoPH kv.val) (hc : (callSecret cfg kv).2 = []) :
    (callSecret cfg kv).1.name = kv.key ∧ boolOf (callSecret cfg kv).1.required = requiredTrue kv.val := by
  have hname : (callSecret cfg kv).1.name = kv.key := by
    simp only [callSecret]
    exact loop_inv' callSecretAttr (fun st => st.name = kv.key) _
      (fun s a hp => (callSecretAttr_keeps s a).trans hp) { name := kv.key } rfl
  refine ⟨hname, ?_⟩
  simp only [callSecret] at hc ⊢
  obtain ⟨hm, hl⟩ := nil_of_append_nil hc
  obtain ⟨hkind, heq, hnd, _, _⟩ := parseMapping_clean_eq cfg _ kv.val true true hm
  have hsv : Sane kv.val := hs.sane
  rw [heq] at hl ⊢
  generalize hinit : ({ name := kv.key } : CallSecret) = init at hl ⊢
  have hreq := loop_field_clean callSecretAttr (fun st => boolOf st.required) "required" (fun _ a => boolOf (parseBool a.val).1)
    (by intro st a ha _; simp only [callSecretAttr, ha])
    (by intro st a ha _; simp only [callSecretAttr_required_keep st a ha])
    _ init hnd hl
  rw [match_find_val cfg "required" (fun x => boolOf (parseBool x).1) _ (pairs kv.val.content)] at hreq
  rw [hreq]
  simp only [requiredTrue, ← attr_eq "required" kv.val hsv hkind]
  cases hv : valueOf "required" (pairs kv.val.content) with
  | none => subst hinit; rfl
  | some r =>
    simp only
    obtain ⟨k, hmem, hkv⟩ := valueOf_mem hv
    have hsr : Sane r := (hs.2 (k, r) hmem).2
    have hstr : r.tag ≠ "!!str" := hnp (k, r) hmem hkv
    obtain ⟨st, hst⟩ := loop_clean_mem callSecretAttr _ init hl (mkKV cfg true (k, r)) (List.mem_map.2 ⟨_, hmem, rfl⟩)
    have hid : (mkKV cfg true (k, r)).id = "required" := hkv
    simp only [callSecretAttr, hid] at hst
    exact parseBool_saysTrue r hsr hstr hst

/-! ### the three sections -/

/-- `inputs:` — the part of the interface the parser's result gives, as a list over the entries of the node -/
theorem inputs_read (cfg : Cfg) (n : Node) (hs : SaneTo 2 n) (hnp : NoPH2 n)
    (hm : (parseSectionMapping cfg "inputs" n true false).2 = [])
    (hc : (callInputs cfg (parseSectionMapping cfg "inputs" n true false).1).2 = []) :
    (callInputs cfg (parseSectionMapping cfg "inputs" n true false).1).1.foldl (fun m i => put m i.id (inputOfAst i)) [] =
      (secEntries n).map fun q => (cfg.lower q.1.value, (⟨q.1.value, inputRequired q.2, typeOf q.2⟩ : CallMeta.Input)) := by
  simp only [parseSectionMapping] at hm hc ⊢
  obtain ⟨hkind, heq, hnd, _, _⟩ := parseMapping_clean_eq cfg _ n true false hm
  rw [heq] at hc ⊢
  rw [callInputs_fst]
  have hclean := callInputs_clean cfg _ hc
  rw [foldl_put_distinct (fun i : CallInput => i.id) inputOfAst]
  · rw [List.nil_append, List.map_map, List.map_map, ← secEntries_eq n hs.sane hkind]
    apply List.map_congr_left
    intro q hq
    simp only [Function.comp]
    have h1 := (AL.C08P.callInput_id cfg (mkKV cfg false q)).1
    have h2 := callInput_read cfg (mkKV cfg false q) (hs.2 q hq).2 (hnp q hq) (hclean _ (List.mem_map.2 ⟨q, hq, rfl⟩))
    rw [h1, h2]
    rfl
  · simp only [List.map_nil, List.nil_append, List.map_map]
    have : ((fun i : CallInput => i.id) ∘ (fun kv => (callInput cfg kv).1) ∘ mkKV cfg false) = ((·.id) ∘ mkKV cfg false) := by
      funext q
      simp only [Function.comp]
      exact (AL.C08P.callInput_id cfg (mkKV cfg false q)).1
    rw [this, ← List.map_map]
    exact hnd

theorem secrets_read (cfg : Cfg) (n : Node) (hs : SaneTo 2 n) (hnp : NoPH2 n)
    (hm : (parseSectionMapping cfg "secrets" n true false).2 = [])
    (hc : (mapKVs (callSecret cfg) (parseSectionMapping cfg "secrets" n true false).1).2 = []) :
    (mapKVs (callSecret cfg) (parseSectionMapping cfg "secrets" n true false).1).1.foldl
        (fun m s => put m s.1 (⟨s.2.name.value, boolOf s.2.required⟩ : CallMeta.Secret)) [] =
      (secEntries n).map fun q => (cfg.lower q.1.value, (⟨q.1.value, requiredTrue q.2⟩ : CallMeta.Secret)) := by
  simp only [parseSectionMapping] at hm hc ⊢
  obtain ⟨hkind, heq, hnd, _, _⟩ := parseMapping_clean_eq cfg _ n true false hm
  rw [heq] at hc ⊢
  rw [mapKVs_fst]
  have hclean := mapKVs_clean_all (callSecret cfg) _ hc
  rw [foldl_put_distinct (fun s : String × CallSecret => s.1) (fun s => (⟨s.2.name.value, boolOf s.2.required⟩ : CallMeta.Secret))]
  · rw [List.nil_append, List.map_map, List.map_map, ← secEntries_eq n hs.sane hkind]
    apply List.map_congr_left
    intro q hq
    simp only [Function.comp]
    obtain ⟨h1, h2⟩ := callSecret_read cfg (mkKV cfg false q) (hs.2 q hq).2 (hnp q hq) (hclean _ (List.mem_map.2 ⟨q, hq, rfl⟩))
    rw [h1, h2]
    rfl
  · simp only [List.map_nil, List.nil_append, List.map_map]
    have : ((fun s : String × CallSecret => s.1) ∘ (fun kv => (kv.id, (callSecret cfg kv).1)) ∘ mkKV cfg false) = ((·.id) ∘ mkKV cfg false) := rfl
    rw [this, ← List.map_map]
    exact hnd

theorem outputs_read (cfg : Cfg) (n : Node) (hs : Sane n)
    (hm : (parseSectionMapping cfg "outputs" n true false).2 = []) :
    (mapKVs (callOutput cfg) (parseSectionMapping cfg "outputs" n true false).1).1.foldl
        (fun m o => put m o.1 o.2.name.value) [] =
      (secEntries n).map fun q => (cfg.lower q.1.value, q.1.value) := by
  simp only [parseSectionMapping] at hm ⊢
  obtain ⟨hkind, heq, hnd, _, _⟩ := parseMapping_clean_eq cfg _ n true false hm
  rw [heq]
  rw [mapKVs_fst]
  rw [foldl_put_distinct (fun s : String × CallOutput => s.1) (fun s => s.2.name.value)]
  · rw [List.nil_append, List.map_map, List.map_map, ← secEntries_eq n hs hkind]
    apply List.map_congr_left
    intro q _
    simp only [Function.comp]
    rw [output_entry]
    rfl
  · simp only [List.map_nil, List.nil_append, List.map_map]
    have : ((fun s : String × CallOutput => s.1) ∘ (fun kv => (kv.id, (callOutput cfg kv).1)) ∘ mkKV cfg false) = ((·.id) ∘ mkKV cfg false) := rfl
    rw [this, ← List.map_map]
    exact hnd

end AL.C14D
