import AL.Lemmas.NeedsTop
import Batteries.Data.List.Perm
/-
  `collectCycle`, `pickStart`, `printLoop`: from the state in which a back edge was found to the
  printed cycle.
-/
namespace AL.Needs
open AL.Spec

/-! ### The cycle segment of the stack -/

/-- `cs = [b, …, a]` is the part of the DFS stack from the back edge's target to its source, in edge
direction. -/
structure CycleSeg (g : Graph) (st : List Status) (a b : Nat) (cs : List Nat) : Prop where
  head : cs.head? = some b
  last : cs.getLast? = some a
  nodup : cs.Nodup
  act : ∀ x ∈ cs, st[x]? = some Status.active
  chain : List.IsChain (Link g st) cs
  close : Link g st a b

theorem Found.seg {g : Graph} {st : List Status} {a b : Nat} (h : Found g st a b) :
    ∃ cs, CycleSeg g st a b cs := by
  obtain ⟨stack', hs, hb, hl⟩ := h.ex
  obtain ⟨l1, l2, heq⟩ := List.append_of_mem hb
  have hch := hs.chain
  rw [heq, List.isChain_split] at hch
  have hnd := hs.nodup
  rw [heq] at hnd
  have hsub : ∀ x ∈ l1 ++ [b], x ∈ a :: stack' := by
    intro x hx
    rw [heq]
    simp only [List.mem_append, List.mem_cons] at hx ⊢
    rcases hx with hx | hx
    · exact Or.inl hx
    · rcases hx with hx | hx
      · exact Or.inr (Or.inl hx)
      · cases hx
  refine ⟨(l1 ++ [b]).reverse, ?_, ?_, ?_, ?_, ?_, hl⟩
  · simp
  · rw [List.getLast?_reverse]
    cases l1 with
    | nil => simp at heq ⊢; exact heq.1.symm
    | cons c l1 => simp at heq ⊢; exact heq.1.symm
  · rw [(List.reverse_perm _).nodup_iff]
    have : (l1 ++ [b]).Sublist (l1 ++ b :: l2) :=
      List.Sublist.append_left (List.Sublist.cons_cons _ (List.nil_sublist _)) _
    exact this.nodup hnd
  · intro x hx
    rw [List.mem_reverse] at hx
    exact (hs.act x).2 (hsub x hx)
  · rw [List.isChain_reverse]
    exact hch.1

theorem CycleSeg.lt {g : Graph} {st : List Status} {a b : Nat} {cs : List Nat} (h : CycleSeg g st a b cs)
    (hlen : st.length = g.length) : ∀ x ∈ cs, x < g.length := by
  intro x hx
  have := h.act x hx
  rcases Nat.lt_or_ge x st.length with h' | h'
  · omega
  · simp [List.getElem?_eq_none h'] at this

theorem length_le_of_nodup_lt {l : List Nat} {n : Nat} (hnd : l.Nodup) (hlt : ∀ x ∈ l, x < n) : l.length ≤ n := by
  have : l ⊆ List.range n := fun x hx => List.mem_range.2 (hlt x hx)
  have := (List.subperm_of_subset hnd this).length_le
  simpa using this

/-! ### Association lists -/

def Edges.keys (e : Edges) : List Nat := e.map (·.1)

theorem Edges.filter_of_not_mem {e : Edges} {k : Nat} (h : k ∉ e.keys) : e.filter (·.1 ≠ k) = e := by
  rw [List.filter_eq_self]
  intro p hp
  have : p.1 ≠ k := by
    rintro rfl
    exact h (List.mem_map.2 ⟨p, hp, rfl⟩)
  simpa using this

theorem Edges.put_of_not_mem {e : Edges} {k v : Nat} (h : k ∉ e.keys) : e.put k v = (k, v) :: e := by
  rw [Edges.put, Edges.filter_of_not_mem h]

theorem Edges.get?_isSome {e : Edges} {k : Nat} : (e.get? k).isSome = true ↔ k ∈ e.keys := by
  simp only [Edges.get?, Option.isSome_map, List.find?_isSome, Edges.keys, List.mem_map]
  constructor
  · rintro ⟨p, hp, hk⟩; exact ⟨p, hp, by simpa using hk⟩
  · rintro ⟨p, hp, hk⟩; exact ⟨p, hp, by simpa using hk⟩

theorem Edges.get?_of_mem {e : Edges} (hnd : e.keys.Nodup) {k v : Nat} (h : (k, v) ∈ e) : e.get? k = some v := by
  induction e with
  | nil => simp at h
  | cons p e ih =>
    simp only [Edges.keys, List.map_cons, List.nodup_cons] at hnd
    simp only [List.mem_cons] at h
    rcases h with rfl | h
    · simp [Edges.get?]
    · have hne : p.1 ≠ k := by
        rintro rfl
        exact hnd.1 (List.mem_map.2 ⟨(p.1, v), h, rfl⟩)
      have := ih hnd.2 h
      simp only [Edges.get?] at this ⊢
      rw [List.find?_cons_of_neg (by simpa using hne)]
      exact this

theorem Edges.mem_of_get? {e : Edges} {k v : Nat} (h : e.get? k = some v) : (k, v) ∈ e := by
  simp only [Edges.get?, Option.map_eq_some_iff] at h
  obtain ⟨p, hp, rfl⟩ := h
  have h1 := List.mem_of_find?_eq_some hp
  have h2 := List.find?_some hp
  simp at h2
  subst h2
  exact h1

/-! ### `collectList` -/

theorem collectList_skip (g : Graph) (st : List Status) (fuel src : Nat) (pre ds : List Nat) (edges : Edges)
    (h : ∀ w ∈ pre, st[w]? ≠ some Status.active) :
    collectList g st fuel src (pre ++ ds) edges = collectList g st fuel src ds edges := by
  induction pre with
  | nil => rfl
  | cons w pre ih =>
    rw [List.cons_append, collectList.eq_2]
    simp only [h w (by simp), ne_eq, not_false_eq_true, if_true]
    exact ih fun x hx => h x (by simp [hx])

theorem collectList_hit (g : Graph) {st : List Status} (fuel src : Nat) {dest : Nat} (ds : List Nat)
    {edges : Edges} (ha : st[dest]? = some Status.active)
    (hk : ((edges.put src dest).get? dest).isSome = true) :
    collectList g st fuel src (dest :: ds) edges = (true, edges.put src dest) := by
  rw [collectList.eq_2]
  simp [ha, hk]

theorem collectList_descend (g : Graph) {st : List Status} (fuel src : Nat) {dest : Nat} (ds : List Nat)
    {edges e2 : Edges} (ha : st[dest]? = some Status.active)
    (hk : ((edges.put src dest).get? dest).isSome = false)
    (hrec : collectList g st fuel dest (g.succ dest) (edges.put src dest) = (true, e2)) :
    collectList g st (fuel + 1) src (dest :: ds) edges = (true, e2) := by
  rw [collectList.eq_2]
  simp [ha, hk, hrec]

/-- The edges of the path `l`, last edge first (the order in which `collectCycle` inserts them). -/
def pairsRev : List Nat → Edges
  | x :: y :: r => pairsRev (y :: r) ++ [(x, y)]
  | _ => []

theorem Link.notActive {g : Graph} {st : List Status} {x y : Nat} (h : Link g st x y) :
    ∃ pre post, g.succ x = pre ++ y :: post ∧ ∀ w ∈ pre, st[w]? ≠ some Status.active := by
  obtain ⟨pre, post, he, hf⟩ := h
  exact ⟨pre, post, he, fun w hw => by simp [hf w hw]⟩

theorem collectList_chain (g : Graph) (st : List Status) (a : Nat) :
    ∀ (remaining : List Nat) (cur : Nat) (edges : Edges) (fuel : Nat), remaining ≠ [] →
      List.IsChain (Link g st) (cur :: remaining) →
      (∀ x ∈ cur :: remaining, st[x]? = some Status.active) →
      (cur :: remaining).Nodup →
      (∀ x ∈ (cur :: remaining).dropLast, x ∉ edges.keys) →
      (cur :: remaining).getLast? = some a → a ∈ edges.keys →
      remaining.length ≤ fuel + 1 →
      collectList g st fuel cur (g.succ cur) edges = (true, pairsRev (cur :: remaining) ++ edges) := by
  intro remaining
  induction remaining with
  | nil => intro _ _ _ h; exact absurd rfl h
  | cons y r ih =>
    intro cur edges fuel _ hch hact hnd hkeys hlast ha hfuel
    rw [List.isChain_cons_cons] at hch
    obtain ⟨pre, post, hsucc, hpre⟩ := hch.1.notActive
    rw [hsucc, collectList_skip g st fuel cur pre _ edges hpre]
    have hcur : cur ∉ edges.keys := hkeys cur (by cases r <;> simp)
    have hy : st[y]? = some Status.active := hact y (by simp)
    cases r with
    | nil =>
      simp only [List.getLast?_cons_cons, List.getLast?_singleton, Option.some.injEq] at hlast
      subst hlast
      rw [collectList_hit g fuel cur post hy]
      · simp [pairsRev, Edges.put_of_not_mem hcur]
      · rw [Edges.put_of_not_mem hcur, Edges.get?_isSome]
        simp [Edges.keys] at ha ⊢
        exact Or.inr ha
    | cons z r =>
      have hne : y ≠ cur := by
        rintro rfl
        simp at hnd
      have hyk : y ∉ edges.keys := hkeys y (by simp)
      cases fuel with
      | zero => simp at hfuel
      | succ f =>
        have hrec := ih y ((cur, y) :: edges) f (by simp) hch.2 (fun x hx => hact x (by simp [hx]))
          (List.nodup_cons.1 hnd).2 ?_ (by simpa [List.getLast?_cons_cons] using hlast)
          (by simp [Edges.keys] at ha ⊢; exact Or.inr ha) (by simpa using hfuel)
        · rw [collectList_descend g f cur post hy ?_ (by rw [Edges.put_of_not_mem hcur]; exact hrec)]
          · simp [pairsRev]
          · rw [Edges.put_of_not_mem hcur]
            rw [Bool.eq_false_iff]
            intro hsome
            rw [Edges.get?_isSome] at hsome
            simp only [Edges.keys, List.map_cons, List.mem_cons] at hsome
            rcases hsome with h | h
            · exact hne h
            · exact hyk h
        · intro x hx
          have hx' : x ∈ (cur :: y :: z :: r).dropLast := by
            simp only [List.dropLast_cons_cons, List.mem_cons] at hx ⊢
            exact Or.inr hx
          have hxne : x ≠ cur := by
            rintro rfl
            have := List.dropLast_subset _ hx
            exact (List.nodup_cons.1 hnd).1 this
          simp only [Edges.keys, List.map_cons, List.mem_cons, not_or]
          exact ⟨hxne, hkeys x hx'⟩

theorem collectCycle_seg {g : Graph} {st : List Status} {a b : Nat} {cs : List Nat}
    (hlen : st.length = g.length) (h : CycleSeg g st a b cs) :
    collectCycle g st b [(a, b)] = (true, pairsRev cs ++ [(a, b)]) := by
  unfold collectCycle
  cases cs with
  | nil => have := h.head; simp at this
  | cons c r =>
    have hc : c = b := by have := h.head; simpa using this
    subst hc
    cases r with
    | nil =>
      have ha : c = a := by have := h.last; simpa using this
      subst ha
      obtain ⟨pre, post, hsucc, hpre⟩ := h.close.notActive
      rw [hsucc, collectList_skip g st _ c pre _ _ hpre]
      rw [collectList_hit g _ c post (h.act c (by simp))]
      · simp [pairsRev, Edges.put]
      · simp [Edges.put, Edges.get?]
    | cons y r =>
      have hlast := h.last
      refine collectList_chain g st a (y :: r) c [(a, c)] g.length (by simp) h.chain h.act h.nodup ?_ hlast
        (by simp [Edges.keys]) ?_
      · intro x hx
        simp only [Edges.keys, List.map_cons, List.map_nil, List.mem_singleton]
        rintro rfl
        have hd := List.dropLast_append_getLast? x hlast
        have hnd := h.nodup
        rw [← hd, List.nodup_append] at hnd
        exact hnd.2.2 x hx x (by simp) rfl
      · have := length_le_of_nodup_lt h.nodup (h.lt hlen)
        simp at this ⊢
        omega

end AL.Needs
