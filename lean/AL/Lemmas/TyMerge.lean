import AL.Lemmas.TyLooser
import AL.Lemmas.TyWf
/-
  C06 (c): `merge` is monotone for the deref-aware relation `LooserD` (element looser, `deref` flag may
  switch on), provided the second argument is well formed (sorted property lists). Proved by mutual structural recursion on the second argument,
  which is the argument `merge`/`mergeProps` recurse on.
-/
namespace AL.Ty
open AL AL.Spec

theorem isAny_iff {t : Ty} : t.isAny = true ↔ t = .any := by
  cases t <;> simp [isAny]

theorem isAny_false_iff {t : Ty} : t.isAny = false ↔ t ≠ .any := by
  cases t <;> simp [isAny]

theorem LooserDMapped.some_any : (m : Option Ty) → LooserDMapped m (Option.some Ty.any)
  | Option.none => .opened
  | Option.some t => .some (.any t)

theorem LooserDMapped.isSomeAny {m m' : Option Ty} (h : LooserDMapped m m') (hm : isSomeAny m = true) :
    isSomeAny m' = true := by
  rw [isSomeAny_iff] at hm ⊢
  subst hm
  cases h with
  | some h => rw [h.any_left]

theorem LooserDProps.setProp {k : String} {v v' : Ty} (hv : LooserD v v') :
    {ps ps' : List (String × Ty)} → LooserDProps ps ps' → LooserDProps (setProp k v ps) (setProp k v' ps')
  | _, _, .nil => .cons hv .nil
  | _, _, .cons (k := k2) (t := t) (t' := t') (ps := ps) (ps' := ps') h hr => by
    simp only [Ty.setProp]
    split
    · exact .cons hv hr
    · split
      · exact .cons hv (.cons h hr)
      · exact .cons h (LooserDProps.setProp hv hr)

theorem lookup_none_of_all_lt {n : String} : (acc : List (String × Ty)) → (∀ p ∈ acc, p.1 < n) → lookup n acc = none
  | [], _ => rfl
  | (k, v) :: rest, h => by
    have hk : k < n := h (k, v) (by simp)
    have hne : ¬ k = n := fun e => String.lt_irrefl n (e ▸ hk)
    simp only [lookup, hne, if_false]
    exact lookup_none_of_all_lt rest (fun p hp => h p (by simp [hp]))

theorem setProp_append_of_all_lt {n : String} {r : Ty} :
    (acc : List (String × Ty)) → (∀ p ∈ acc, p.1 < n) → setProp n r acc = acc ++ [(n, r)]
  | [], _ => rfl
  | (k, v) :: rest, h => by
    have hk : k < n := h (k, v) (by simp)
    have hne : ¬ k = n := fun e => String.lt_irrefl n (e ▸ hk)
    have hnlt : ¬ n < k := String.lt_asymm hk
    simp only [setProp, hne, hnlt, if_false, List.cons_append]
    rw [setProp_append_of_all_lt rest (fun p hp => h p (by simp [hp]))]

theorem keysGt_iff {k : String} : (ps : List (String × Ty)) → (keysGt k ps = true ↔ ∀ p ∈ ps, k < p.1)
  | [] => by simp [keysGt]
  | (k2, v) :: rest => by simp [keysGt, keysGt_iff rest]

/-- merging a key-sorted list into an accumulator with smaller keys appends it -/
theorem mergeProps_append : (qs : List (String × Ty)) → ∀ acc mapped, sortedKeys qs = true →
    (∀ p ∈ acc, ∀ q ∈ qs, p.1 < q.1) → ∃ mp, mergeProps acc mapped qs = .obj (acc ++ qs) mp
  | [], acc, mapped, _, _ => ⟨mapped, by simp [mergeProps_nil]⟩
  | (n, r) :: rest, acc, mapped, hs, hlt => by
    simp only [sortedKeys, Bool.and_eq_true] at hs
    have hacc : ∀ p ∈ acc, p.1 < n := fun p hp => hlt p hp (n, r) (by simp)
    rw [mergeProps_cons, lookup_none_of_all_lt acc hacc, setProp_append_of_all_lt acc hacc]
    have hn := (keysGt_iff rest).mp hs.1
    obtain ⟨mp, h⟩ := mergeProps_append rest (acc ++ [(n, r)]) (mergeMapped mapped r) hs.2 (by
      intro p hp q hq
      rcases List.mem_append.mp hp with hp | hp
      · exact hlt p hp q (by simp [hq])
      · simp only [List.mem_singleton] at hp; subst hp; exact hn q hq)
    exact ⟨mp, by simp [h]⟩

theorem merge_mono_scalar_right {r : Ty} (h1 : r.isObj = false) (h2 : r.isArr = false) {l l' : Ty}
    (hl : LooserD l l') : LooserD (merge l r) (merge l' r) := by
  cases hl with
  | any => rw [merge_any_left]; exact .any _
  | arr _ _ => rw [merge_arr_left _ _ h2, merge_arr_left _ _ h2]; exact .any _
  | obj _ _ => rw [merge_obj_left _ _ h1, merge_obj_left _ _ h1]; exact .any _
  | _ => exact LooserD.refl _

/-- the object/object case of `merge_mono`, with the recursive facts as hypotheses -/
theorem merge_obj_obj_mono {ps ps' qs qs' : List (String × Ty)} {m m2 m' m2' : Option Ty}
    (hsorted : sortedKeys qs = true)
    (hps : LooserDProps ps ps') (hm : LooserDMapped m m2) (hqs : LooserDProps qs qs') (hm' : LooserDMapped m' m2')
    (ihProps : ∀ props props' mapped mapped', LooserDProps props props' → LooserDMapped mapped mapped' →
      LooserD (mergeProps props mapped qs) (mergeProps props' mapped' qs'))
    (ihMapped : ∀ b, m' = some b → ∀ a a' b', LooserD a a' → LooserD b b' → LooserD (merge a b) (merge a' b')) :
    LooserD (merge (.obj ps m) (.obj qs m')) (merge (.obj ps' m2) (.obj qs' m2')) := by
  rw [merge_obj_obj, merge_obj_obj]
  have e1 : ps'.isEmpty = ps.isEmpty := hps.isEmpty
  have e2 : qs'.isEmpty = qs.isEmpty := hqs.isEmpty
  have hmap0 : LooserDMapped (mapped0 m m') (mapped0 m2 m2') := by
    cases hm with
    | none => simpa [mapped0] using hm'
    | opened =>
      cases hm' with
      | none => exact .opened
      | opened => simp only [mapped0, merge_any_left]; exact .opened
      | some h => simp only [mapped0, merge_any_left]; exact .some (.any _)
    | some h =>
      cases hm' with
      | none => exact .some h
      | opened => simp only [mapped0, merge_any_right]; exact .some (.any _)
      | some hb => exact .some (ihMapped _ rfl _ _ _ h hb)
  by_cases cA : (ps.isEmpty && isSomeAny m') = true
  · have cA' : (ps'.isEmpty && isSomeAny m2') = true := by
      simp only [Bool.and_eq_true] at cA ⊢
      exact ⟨e1 ▸ cA.1, hm'.isSomeAny cA.2⟩
    rw [if_pos cA, if_pos cA']
    exact .obj hqs hm'
  · by_cases cA' : (ps'.isEmpty && isSomeAny m2') = true
    · rw [if_neg cA, if_pos cA']
      simp only [Bool.and_eq_true] at cA'
      have hm2' : m2' = some .any := isSomeAny_iff.mp cA'.2
      have hps0 : ps = [] := by rw [e1] at cA'; simpa using cA'.1
      subst hm2' hps0
      by_cases cB : (qs.isEmpty && isSomeAny m) = true
      · rw [if_pos cB]
        simp only [Bool.and_eq_true] at cB
        have hq0 : qs = [] := by simpa using cB.1
        subst hq0
        cases hqs
        exact .obj .nil (LooserDMapped.some_any _)
      · rw [if_neg cB]
        obtain ⟨mp, h⟩ := mergeProps_append qs [] (mapped0 m m') hsorted (by simp)
        rw [h]
        exact .obj (by simpa using hqs) (LooserDMapped.some_any _)
    · rw [if_neg cA, if_neg cA']
      by_cases cB : (qs.isEmpty && isSomeAny m) = true
      · have cB' : (qs'.isEmpty && isSomeAny m2) = true := by
          simp only [Bool.and_eq_true] at cB ⊢
          exact ⟨e2 ▸ cB.1, hm.isSomeAny cB.2⟩
        rw [if_pos cB, if_pos cB']
        exact .obj hps hm
      · by_cases cB' : (qs'.isEmpty && isSomeAny m2) = true
        · rw [if_neg cB, if_pos cB']
          simp only [Bool.and_eq_true] at cB'
          have hm2 : m2 = some .any := isSomeAny_iff.mp cB'.2
          have hq0 : qs = [] := by rw [e2] at cB'; simpa using cB'.1
          subst hm2 hq0
          rw [mergeProps_nil]
          exact .obj hps (LooserDMapped.some_any _)
        · rw [if_neg cB, if_neg cB']
          exact ihProps _ _ _ _ hps hmap0

/-- the array/array case of `merge_mono`, with the recursive fact as hypothesis -/
theorem merge_arr_arr_mono {e f e' f' : Ty} {d d2 d' d2' : Bool}
    (he : LooserD e f) (hc : d = true → d2 = true)
    (he' : LooserD e' f') (hc' : d' = true → d2' = true)
    (ih : LooserD (merge e e') (merge f f')) :
    LooserD (merge (.arr e d) (.arr e' d')) (merge (.arr f d2) (.arr f' d2')) := by
  rw [merge_arr_arr, merge_arr_arr]
  have hor : (d || d') = true → (d2 || d2') = true := by
    intro h
    rcases Bool.or_eq_true_iff.mp h with h | h
    · simp [hc h]
    · simp [hc' h]
  by_cases h1 : e.isAny = true
  · have he0 : e = .any := isAny_iff.mp h1
    subst he0
    have hf0 : f = .any := he.any_left
    subst hf0
    simp only [isAny, if_true]
    exact .arr (.any _) hor
  · rw [if_neg h1]
    by_cases h2 : e'.isAny = true
    · have he0 : e' = .any := isAny_iff.mp h2
      subst he0
      have hf0 : f' = .any := he'.any_left
      subst hf0
      rw [if_pos h2]
      by_cases h3 : f.isAny = true
      · rw [if_pos h3]
        have hf0 : f = .any := isAny_iff.mp h3
        subst hf0
        exact .arr (.any _) hor
      · rw [if_neg h3, if_pos h2]
        exact .arr (.any _) hor
    · rw [if_neg h2]
      by_cases h3 : f.isAny = true
      · rw [if_pos h3]
        have hf0 : f = .any := isAny_iff.mp h3
        subst hf0
        exact .arr (.any _) (fun h => by cases h)
      · rw [if_neg h3]
        by_cases h4 : f'.isAny = true
        · rw [if_pos h4]
          have hf0 : f' = .any := isAny_iff.mp h4
          subst hf0
          exact .arr (.any _) (fun h => by cases h)
        · rw [if_neg h4]
          exact .arr ih id

mutual
theorem merge_mono : (r : Ty) → ∀ l l' r', wf r = true → LooserD l l' → LooserD r r' →
    LooserD (merge l r) (merge l' r')
  | .any, l, l', r', _, hl, hr => by
    cases hr; rw [merge_any_right, merge_any_right]; exact .any _
  | .null, l, l', r', _, hl, hr => by
    cases hr with
    | any => rw [merge_any_right]; exact .any _
    | null => exact merge_mono_scalar_right rfl rfl hl
  | .number, l, l', r', _, hl, hr => by
    cases hr with
    | any => rw [merge_any_right]; exact .any _
    | number => exact merge_mono_scalar_right rfl rfl hl
  | .bool, l, l', r', _, hl, hr => by
    cases hr with
    | any => rw [merge_any_right]; exact .any _
    | bool => exact merge_mono_scalar_right rfl rfl hl
  | .string, l, l', r', _, hl, hr => by
    cases hr with
    | any => rw [merge_any_right]; exact .any _
    | string => exact merge_mono_scalar_right rfl rfl hl
  | .arr e' d', l, l', r', hw, hl, hr => by
    cases hr with
    | any => rw [merge_any_right]; exact .any _
    | arr he' hc' =>
      cases hl with
      | any => rw [merge_any_left]; exact .any _
      | arr he hc =>
        exact merge_arr_arr_mono he hc he' hc' (merge_mono e' _ _ _ (by simpa [wf] using hw) he he')
      | obj _ _ => rw [merge_obj_left _ _ rfl, merge_obj_left _ _ rfl]; exact .any _
      | _ => rw [merge_scalar_left rfl rfl, merge_scalar_left rfl rfl]; exact .any _
  | .obj qs none, l, l', r', hw, hl, hr => by
    cases hr with
    | any => rw [merge_any_right]; exact .any _
    | obj hqs hm' =>
      rw [wf_obj] at hw
      simp only [Bool.and_eq_true] at hw
      cases hl with
      | any => rw [merge_any_left]; exact .any _
      | arr _ _ => rw [merge_arr_left _ _ rfl, merge_arr_left _ _ rfl]; exact .any _
      | obj hps hm =>
        exact merge_obj_obj_mono hw.1.1 hps hm hqs hm'
          (fun props props' mapped mapped' h1 h2 => mergeProps_mono qs props props' mapped mapped' _ hw.1.2 h1 h2 hqs)
          (fun b hb => by cases hb)
      | _ => rw [merge_scalar_left rfl rfl, merge_scalar_left rfl rfl]; exact .any _
  | .obj qs (some b), l, l', r', hw, hl, hr => by
    cases hr with
    | any => rw [merge_any_right]; exact .any _
    | obj hqs hm' =>
      rw [wf_obj] at hw
      simp only [Bool.and_eq_true, wfOpt] at hw
      cases hl with
      | any => rw [merge_any_left]; exact .any _
      | arr _ _ => rw [merge_arr_left _ _ rfl, merge_arr_left _ _ rfl]; exact .any _
      | obj hps hm =>
        exact merge_obj_obj_mono hw.1.1 hps hm hqs hm'
          (fun props props' mapped mapped' h1 h2 => mergeProps_mono qs props props' mapped mapped' _ hw.1.2 h1 h2 hqs)
          (fun b0 hb a a' b' ha hbb => by
            cases hb
            exact merge_mono b a a' b' hw.2 ha hbb)
      | _ => rw [merge_scalar_left rfl rfl, merge_scalar_left rfl rfl]; exact .any _
theorem mergeProps_mono : (qs : List (String × Ty)) → ∀ props props' mapped mapped' qs', wfProps qs = true →
    LooserDProps props props' → LooserDMapped mapped mapped' → LooserDProps qs qs' →
    LooserD (mergeProps props mapped qs) (mergeProps props' mapped' qs')
  | [], props, props', mapped, mapped', qs', _, hp, hm, hq => by
    cases hq
    rw [mergeProps_nil, mergeProps_nil]
    exact .obj hp hm
  | (n, r) :: rest, props, props', mapped, mapped', qs', hw, hp, hm, hq => by
    simp only [wfProps, Bool.and_eq_true] at hw
    cases hq with
    | cons hr hrest =>
      rw [mergeProps_cons, mergeProps_cons]
      rcases hp.lookup (k := n) with ⟨h1, h2⟩ | ⟨t, t', h1, h2, ht⟩
      · rw [h1, h2]
        refine mergeProps_mono rest _ _ _ _ _ hw.2 (hp.setProp hr) ?_ hrest
        cases hm with
        | none => exact .none
        | opened => simp only [mergeMapped, merge_any_left]; exact .opened
        | some h => exact .some (merge_mono r _ _ _ hw.1 h hr)
      · rw [h1, h2]
        exact mergeProps_mono rest _ _ _ _ _ hw.2 (hp.setProp (merge_mono r _ _ _ hw.1 ht hr)) hm hrest
end

end AL.Ty
