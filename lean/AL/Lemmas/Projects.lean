import AL.Model.Projects
/-
  Lemmas about the `Projects.At` model: `findRootRev` walks the reversed path, the invariants are stated about
  `l.reverse` (the directory in its natural order).
-/
namespace AL.Projects

/-- a prefix of `up.reverse ++ [c]` is the whole list or a prefix of `up.reverse` -/
theorem prefix_concat_cases {α} {r l : List α} {c : α} (h : r <+: l ++ [c]) : r = l ++ [c] ∨ r <+: l := by
  rcases List.prefix_concat_iff.mp h with h | h
  · exact Or.inl h
  · exact Or.inr h

/-- what `findRootRev` finds is a root and a prefix of the (un-reversed) directory -/
theorem findRootRev_some (isRoot : List String → Bool) :
    ∀ (l r : List String), findRootRev isRoot l = some r → isRoot r = true ∧ r <+: l.reverse := by
  intro l
  induction l with
  | nil =>
    intro r h
    simp only [findRootRev] at h
    split at h
    · cases h
      exact ⟨by assumption, List.prefix_refl _⟩
    · cases h
  | cons c up ih =>
    intro r h
    simp only [findRootRev] at h
    split at h
    · cases h
      exact ⟨by assumption, List.prefix_refl _⟩
    · obtain ⟨h1, h2⟩ := ih r h
      refine ⟨h1, ?_⟩
      rw [List.reverse_cons]
      exact List.prefix_append_of_prefix h2

/-- … and no longer prefix of the directory is a root -/
theorem findRootRev_innermost (isRoot : List String → Bool) :
    ∀ (l r r' : List String), findRootRev isRoot l = some r → r' <+: l.reverse → isRoot r' = true →
      r'.length ≤ r.length := by
  intro l
  induction l with
  | nil =>
    intro r r' _ hp _
    have : r' = [] := by simpa using hp
    subst this
    exact Nat.zero_le _
  | cons c up ih =>
    intro r r' h hp hr
    simp only [findRootRev] at h
    split at h
    · cases h
      exact hp.length_le
    · rename_i hn
      rw [List.reverse_cons] at hp hn
      rcases prefix_concat_cases hp with heq | hp'
      · subst heq
        exact absurd hr hn
      · exact ih r r' h hp' hr

/-- nothing is found iff no prefix of the directory is a root -/
theorem findRootRev_none (isRoot : List String → Bool) :
    ∀ (l : List String), findRootRev isRoot l = none ↔ ∀ r, r <+: l.reverse → isRoot r = false := by
  intro l
  induction l with
  | nil =>
    simp only [findRootRev, List.reverse_nil, List.prefix_nil]
    constructor
    · intro h r hr
      subst hr
      split at h
      · cases h
      · simpa using ‹¬ isRoot [] = true›
    · intro h
      rw [h [] rfl]
      rfl
  | cons c up ih =>
    simp only [findRootRev]
    constructor
    · intro h r hr
      split at h
      · cases h
      · rename_i hn
        rw [List.reverse_cons] at hr hn
        rcases prefix_concat_cases hr with heq | hp'
        · subst heq
          simpa using hn
        · exact ih.mp h r hp'
    · intro h
      have hw : isRoot (c :: up).reverse = false := h _ (List.prefix_refl _)
      rw [hw]
      simp only [Bool.false_eq_true, if_false]
      apply ih.mpr
      intro r hr
      apply h
      rw [List.reverse_cons]
      exact List.prefix_append_of_prefix hr

theorem findRoot_some (isRoot : List String → Bool) (p r : List String) (h : findRoot isRoot p = some r) :
    isRoot r = true ∧ r <+: p := by
  have := findRootRev_some isRoot p.reverse r h
  rwa [List.reverse_reverse] at this

theorem findRoot_innermost (isRoot : List String → Bool) (p r r' : List String) (h : findRoot isRoot p = some r)
    (hp : r' <+: p) (hr : isRoot r' = true) : r'.length ≤ r.length := by
  apply findRootRev_innermost isRoot p.reverse r r' h _ hr
  rwa [List.reverse_reverse]

theorem findRoot_none (isRoot : List String → Bool) (p : List String) :
    findRoot isRoot p = none ↔ ∀ r, r <+: p → isRoot r = false := by
  have := findRootRev_none isRoot p.reverse
  rwa [List.reverse_reverse] at this

theorem lookup_fst (isRoot : List String → Bool) (known : Known) (p : List String) :
    (lookup isRoot known p).1 = findRoot isRoot p := by
  unfold lookup
  split
  · rename_i h; rw [h]
  · rename_i r h
    rw [h]
    split <;> rfl

theorem lookup_nodup (isRoot : List String → Bool) (known : Known) (p : List String) (hk : known.Nodup) :
    (lookup isRoot known p).2.Nodup := by
  unfold lookup
  split
  · exact hk
  · rename_i r h
    split
    · exact hk
    · rename_i hc
      have hnot : r ∉ known := by
        intro hm
        exact hc (List.contains_iff_mem.mpr hm)
      rw [List.nodup_append]
      refine ⟨hk, by simp, ?_⟩
      intro a ha b hb
      have : b = r := by simpa using hb
      subst this
      intro hab
      subst hab
      exact hnot ha

theorem atAll_fst (isRoot : List String → Bool) :
    ∀ (ps : List (List String)) (known : Known), (atAll isRoot known ps).1 = ps.map (findRoot isRoot) := by
  intro ps
  induction ps with
  | nil => intro known; rfl
  | cons p ps ih =>
    intro known
    simp only [atAll, List.map_cons, ih, lookup_fst]

theorem atAll_nodup (isRoot : List String → Bool) :
    ∀ (ps : List (List String)) (known : Known), known.Nodup → (atAll isRoot known ps).2.Nodup := by
  intro ps
  induction ps with
  | nil => intro known hk; exact hk
  | cons p ps ih =>
    intro known hk
    simp only [atAll]
    exact ih _ (lookup_nodup isRoot known p hk)

end AL.Projects
