import AL.Model.ParseStep
/-
  Helper lemmas for AL.Props.C03Step: the state of the `parseStep` loop after a prefix `l` of distinct known keys is a
  closed-form function of the lookups in `l` (`invS` for script steps, `invA` for action steps); the diagnostics
  list is carried along untouched by the known keys.
-/
namespace AL.ParseStep

/-- first value stored under key `k` -/
def get (k : String) : List (String × V) → Option V
  | [] => none
  | (k', v) :: rest => if k' = k then some v else get k rest

@[simp] theorem get_nil (k : String) : get k [] = none := rfl

theorem get_cons (k k' : String) (v : V) (l : List (String × V)) :
    get k ((k', v) :: l) = if k' = k then some v else get k l := rfl

theorem get_append (k : String) (l m : List (String × V)) :
    get k (l ++ m) = (get k l).or (get k m) := by
  induction l with
  | nil => simp
  | cons kv l ih =>
    obtain ⟨k', v⟩ := kv
    by_cases h : k' = k <;> simp [get_cons, h, ih]

theorem get_eq_none_of_not_mem {k : String} {l : List (String × V)} (h : k ∉ l.map (·.1)) : get k l = none := by
  induction l with
  | nil => rfl
  | cons kv l ih =>
    obtain ⟨k', v⟩ := kv
    simp only [List.map_cons, List.mem_cons, not_or] at h
    rw [get_cons, if_neg (fun e => h.1 e.symm), ih h.2]

theorem get_snoc_ne {k k' : String} (v : V) (l : List (String × V)) (h : k' ≠ k) :
    get k (l ++ [(k', v)]) = get k l := by
  simp [get_append, get_cons, h]

theorem get_snoc_self {k : String} (v : V) {l : List (String × V)} (h : get k l = none) :
    get k (l ++ [(k, v)]) = some v := by
  simp [get_append, get_cons, h]

theorem get_eq_some_iff {k : String} {v : V} {l : List (String × V)} (nd : (l.map (·.1)).Nodup) :
    get k l = some v ↔ (k, v) ∈ l := by
  induction l with
  | nil => simp
  | cons kv l ih =>
    obtain ⟨k', v'⟩ := kv
    simp only [List.map_cons, List.nodup_cons] at nd
    rw [get_cons]
    by_cases h : k' = k
    · subst h
      have : (k', v) ∉ l := fun hm => nd.1 (List.mem_map.2 ⟨_, hm, rfl⟩)
      simp [this, eq_comm]
    · have h' : ¬ k = k' := fun e => h e.symm
      simp [h, h', ih nd.2]

theorem get_perm {l l' : List (String × V)} (p : l.Perm l') (nd : (l.map (·.1)).Nodup) (k : String) :
    get k l' = get k l := by
  have nd' : (l'.map (·.1)).Nodup := (p.map _).nodup_iff.1 nd
  apply Option.ext
  intro v
  rw [get_eq_some_iff nd, get_eq_some_iff nd', p.mem_iff]

/-! ### script steps -/

def scriptKnown : List String :=
  ["id", "if", "name", "env", "continue-on-error", "timeout-minutes", "run", "shell", "working-directory"]

def execS (l : List (String × V)) : Exec :=
  if (get "run" l).isSome || (get "shell" l).isSome then
    .run (get "run" l) (get "shell" l) (get "working-directory" l)
  else .none

/-- loop state after the distinct script-step keys `l`, with diagnostics `ds` reported so far -/
def invS (ds : List Diag) (l : List (String × V)) : St :=
  { step := { id := get "id" l, cond := get "if" l, name := get "name" l, env := get "env" l,
              continueOnError := get "continue-on-error" l, timeoutMinutes := get "timeout-minutes" l,
              exec := execS l },
    workDir := get "working-directory" l, diags := ds }

theorem invS_nil : invS [] [] = {} := rfl

theorem stepKey_invS (ds : List Diag) (l : List (String × V)) (k : String) (v : V)
    (hk : k ∈ scriptKnown) (hn : get k l = none) :
    stepKey (invS ds l) (k, v) = invS ds (l ++ [(k, v)]) := by
  simp only [scriptKnown, List.mem_cons, List.not_mem_nil, or_false] at hk
  rcases hk with h | h | h | h | h | h | h | h | h <;> subst h
  all_goals
    cases hs : get "shell" l <;> cases hr : get "run" l <;>
      simp_all [stepKey, invS, execS, get_snoc_ne, get_snoc_self]

theorem stepKey_invS_unknown (ds : List Diag) (l : List (String × V)) (k : String) (v : V)
    (hk : k ∉ scriptKnown ++ ["uses", "with"]) :
    stepKey (invS ds l) (k, v) = invS (ds ++ [.unexpectedKey k]) l := by
  simp only [scriptKnown, List.cons_append, List.nil_append, List.mem_cons, List.not_mem_nil, or_false,
    not_or] at hk
  obtain ⟨h1, h2, h3, h4, h5, h6, h7, h8, h9, h10, h11⟩ := hk
  simp [stepKey, invS, *]

theorem not_mem_of_nodup_append_cons {l m : List (String × V)} {kv : String × V}
    (nd : ((l ++ kv :: m).map (·.1)).Nodup) : kv.1 ∉ l.map (·.1) := by
  simp only [List.map_append, List.map_cons, List.nodup_append, List.mem_cons, List.nodup_cons] at nd
  intro hm
  exact nd.2.2 _ hm _ (Or.inl rfl) rfl

theorem foldl_invS (ds : List Diag) (m : List (String × V)) :
    ∀ l : List (String × V), (∀ kv ∈ m, kv.1 ∈ scriptKnown) → ((l ++ m).map (·.1)).Nodup →
      m.foldl stepKey (invS ds l) = invS ds (l ++ m) := by
  induction m with
  | nil => intro l _ _; simp
  | cons kv m ih =>
    intro l hk nd
    obtain ⟨k, v⟩ := kv
    have hn : get k l = none := get_eq_none_of_not_mem (not_mem_of_nodup_append_cons nd)
    have e : l ++ (k, v) :: m = (l ++ [(k, v)]) ++ m := by simp
    rw [List.foldl_cons, stepKey_invS ds l k v (hk _ (List.mem_cons_self ..)) hn, e]
    apply ih
    · intro kv h; exact hk kv (List.mem_cons_of_mem _ h)
    · rw [← e]; exact nd

theorem finish_invS (ds : List Diag) (l : List (String × V)) (hr : (get "run" l).isSome) :
    finish (invS ds l) =
      ({ id := get "id" l, cond := get "if" l, name := get "name" l, env := get "env" l,
         continueOnError := get "continue-on-error" l, timeoutMinutes := get "timeout-minutes" l,
         exec := .run (get "run" l) (get "shell" l) (get "working-directory" l) }, ds) := by
  cases h : get "run" l <;> simp_all [finish, invS, execS]

theorem parseStep_script (l : List (String × V)) (nd : (l.map (·.1)).Nodup)
    (hk : ∀ kv ∈ l, kv.1 ∈ scriptKnown) (hr : (get "run" l).isSome) :
    parseStep l =
      ({ id := get "id" l, cond := get "if" l, name := get "name" l, env := get "env" l,
         continueOnError := get "continue-on-error" l, timeoutMinutes := get "timeout-minutes" l,
         exec := .run (get "run" l) (get "shell" l) (get "working-directory" l) }, []) := by
  have := foldl_invS [] l [] hk (by simpa using nd)
  rw [invS_nil, List.nil_append] at this
  rw [parseStep, this, finish_invS [] l hr]

theorem parseStep_script_unknown (pre post : List (String × V)) (k : String) (v : V)
    (hu : k ∉ scriptKnown ++ ["uses", "with"])
    (nd : ((pre ++ post).map (·.1)).Nodup)
    (hk : ∀ kv ∈ pre ++ post, kv.1 ∈ scriptKnown) (hr : (get "run" (pre ++ post)).isSome) :
    parseStep (pre ++ (k, v) :: post) = ((parseStep (pre ++ post)).1, [.unexpectedKey k]) := by
  have hpre := foldl_invS [] pre []
    (fun kv h => hk kv (List.mem_append_left _ h))
    (by
      have : ((pre ++ post).map (·.1)) = pre.map (·.1) ++ post.map (·.1) := by simp
      rw [this] at nd
      simpa using (List.nodup_append.1 nd).1)
  rw [invS_nil, List.nil_append] at hpre
  have hpost := foldl_invS ([] ++ [Diag.unexpectedKey k]) post pre
    (fun kv h => hk kv (List.mem_append_right _ h)) nd
  rw [parseStep_script _ nd hk hr]
  rw [parseStep, List.foldl_append, List.foldl_cons, hpre, stepKey_invS_unknown [] pre k v hu, hpost,
    finish_invS _ _ hr]
  rfl

/-! ### action steps -/

def actionKnown : List String :=
  ["id", "if", "name", "env", "continue-on-error", "timeout-minutes", "uses", "with"]

def execA (l : List (String × V)) : Exec :=
  if (get "uses" l).isSome || (get "with" l).isSome then .action (get "uses" l) (get "with" l) else .none

def invA (ds : List Diag) (l : List (String × V)) : St :=
  { step := { id := get "id" l, cond := get "if" l, name := get "name" l, env := get "env" l,
              continueOnError := get "continue-on-error" l, timeoutMinutes := get "timeout-minutes" l,
              exec := execA l },
    workDir := none, diags := ds }

theorem invA_nil : invA [] [] = {} := rfl

theorem stepKey_invA (ds : List Diag) (l : List (String × V)) (k : String) (v : V)
    (hk : k ∈ actionKnown) (hn : get k l = none) :
    stepKey (invA ds l) (k, v) = invA ds (l ++ [(k, v)]) := by
  simp only [actionKnown, List.mem_cons, List.not_mem_nil, or_false] at hk
  rcases hk with h | h | h | h | h | h | h | h <;> subst h
  all_goals
    cases hs : get "uses" l <;> cases hr : get "with" l <;>
      simp_all [stepKey, invA, execA, get_snoc_ne, get_snoc_self]

theorem foldl_invA (ds : List Diag) (m : List (String × V)) :
    ∀ l : List (String × V), (∀ kv ∈ m, kv.1 ∈ actionKnown) → ((l ++ m).map (·.1)).Nodup →
      m.foldl stepKey (invA ds l) = invA ds (l ++ m) := by
  induction m with
  | nil => intro l _ _; simp
  | cons kv m ih =>
    intro l hk nd
    obtain ⟨k, v⟩ := kv
    have hn : get k l = none := get_eq_none_of_not_mem (not_mem_of_nodup_append_cons nd)
    have e : l ++ (k, v) :: m = (l ++ [(k, v)]) ++ m := by simp
    rw [List.foldl_cons, stepKey_invA ds l k v (hk _ (List.mem_cons_self ..)) hn, e]
    apply ih
    · intro kv h; exact hk kv (List.mem_cons_of_mem _ h)
    · rw [← e]; exact nd

theorem finish_invA (ds : List Diag) (l : List (String × V)) (hr : (get "uses" l).isSome) :
    finish (invA ds l) =
      ({ id := get "id" l, cond := get "if" l, name := get "name" l, env := get "env" l,
         continueOnError := get "continue-on-error" l, timeoutMinutes := get "timeout-minutes" l,
         exec := .action (get "uses" l) (get "with" l) }, ds) := by
  cases h : get "uses" l <;> simp_all [finish, invA, execA]

theorem parseStep_action (l : List (String × V)) (nd : (l.map (·.1)).Nodup)
    (hk : ∀ kv ∈ l, kv.1 ∈ actionKnown) (hr : (get "uses" l).isSome) :
    parseStep l =
      ({ id := get "id" l, cond := get "if" l, name := get "name" l, env := get "env" l,
         continueOnError := get "continue-on-error" l, timeoutMinutes := get "timeout-minutes" l,
         exec := .action (get "uses" l) (get "with" l) }, []) := by
  have := foldl_invA [] l [] hk (by simpa using nd)
  rw [invA_nil, List.nil_append] at this
  rw [parseStep, this, finish_invA [] l hr]

end AL.ParseStep
