import AL.Model.ParseWf
/-
  Generic lemmas about the two loops every section parser of parse.go is made of:
  `mappingLoop` (the key loop of `parseMapping`) and `loop` (the `for _, kv := range …` over its result).
-/
namespace AL.PW
open AL.Yaml AL.Ast

variable {σ : Type}

/-! ### `loop` -/

theorem foldl_acc (step : σ → KV → σ × List PErr) (kvs : List KV) :
    ∀ (s : σ) (es : List PErr),
      kvs.foldl (fun acc kv => let r := step acc.1 kv; (r.1, acc.2 ++ r.2)) (s, es) =
        ((kvs.foldl (fun acc kv => let r := step acc.1 kv; (r.1, acc.2 ++ r.2)) (s, [])).1,
         es ++ (kvs.foldl (fun acc kv => let r := step acc.1 kv; (r.1, acc.2 ++ r.2)) (s, [])).2) := by
  induction kvs with
  | nil => intro s es; simp
  | cons kv rest ih =>
    intro s es
    simp only [List.foldl_cons, List.nil_append]
    rw [ih (step s kv).1 (es ++ (step s kv).2), ih (step s kv).1 (step s kv).2]
    simp [List.append_assoc]

@[simp] theorem loop_nil (step : σ → KV → σ × List PErr) (init : σ) : loop step init [] = (init, []) := rfl

theorem loop_cons (step : σ → KV → σ × List PErr) (init : σ) (kv : KV) (rest : List KV) :
    loop step init (kv :: rest) =
      ((loop step (step init kv).1 rest).1, (step init kv).2 ++ (loop step (step init kv).1 rest).2) := by
  unfold loop
  simp only [List.foldl_cons, List.nil_append]
  rw [foldl_acc]

theorem loop_append (step : σ → KV → σ × List PErr) (a b : List KV) :
    ∀ init : σ, loop step init (a ++ b) =
      ((loop step (loop step init a).1 b).1, (loop step init a).2 ++ (loop step (loop step init a).1 b).2) := by
  induction a with
  | nil => intro init; simp
  | cons kv rest ih =>
    intro init
    simp only [List.cons_append, loop_cons, ih, List.append_assoc]

/-- an iteration that leaves the state alone and reports `es` can be spliced in anywhere: the state afterwards is the
same, the diagnostics are the old ones with `es` inserted at that point -/
theorem loop_skip (step : σ → KV → σ × List PErr) (kv : KV) (es : List PErr) (h : ∀ s, step s kv = (s, es))
    (init : σ) (pre post : List KV) :
    loop step init (pre ++ kv :: post) =
      ((loop step init (pre ++ post)).1,
       (loop step init pre).2 ++ es ++ (loop step (loop step init pre).1 post).2) := by
  rw [loop_append, loop_cons, h, loop_append]
  simp [List.append_assoc]

theorem loop_skip_perm (step : σ → KV → σ × List PErr) (kv : KV) (es : List PErr) (h : ∀ s, step s kv = (s, es))
    (init : σ) (pre post : List KV) :
    (loop step init (pre ++ kv :: post)).1 = (loop step init (pre ++ post)).1 ∧
    (loop step init (pre ++ kv :: post)).2.Perm (es ++ (loop step init (pre ++ post)).2) := by
  rw [loop_skip step kv es h]
  refine ⟨rfl, ?_⟩
  rw [loop_append]
  simp only
  rw [List.append_assoc]
  exact List.perm_append_comm_assoc _ _ _

/-- the diagnostics of one iteration are among the diagnostics of the loop -/
theorem loop_mem (step : σ → KV → σ × List PErr) (pre post : List KV) (kv : KV) (init : σ) (e : PErr)
    (h : e ∈ (step (loop step init pre).1 kv).2) : e ∈ (loop step init (pre ++ kv :: post)).2 := by
  rw [loop_append, loop_cons]
  simp only [List.mem_append]
  exact Or.inr (Or.inl h)

/-! ### `mappingLoop` -/

/-- the id under which `parseMapping` files a key node -/
def keyId (cfg : Cfg) (caseSensitive : Bool) (kn : Node) : String :=
  if caseSensitive then (parseString kn false).1.value else cfg.lower (parseString kn false).1.value

theorem lookupSeen_snoc (id id' : String) (p : Pos) (seen : List (String × Pos)) :
    lookupSeen id (seen ++ [(id', p)]) =
      match lookupSeen id seen with
      | some q => some q
      | none => if id' = id then some p else none := by
  induction seen with
  | nil => simp [lookupSeen]
  | cons x rest ih =>
    obtain ⟨k, q⟩ := x
    simp only [List.cons_append, lookupSeen]
    split
    · rfl
    · exact ih

theorem lookupSeen_snoc_ne {id id' : String} (p : Pos) (seen : List (String × Pos)) (h : id' ≠ id) :
    lookupSeen id (seen ++ [(id', p)]) = lookupSeen id seen := by
  rw [lookupSeen_snoc]
  cases lookupSeen id seen <;> simp [h]

theorem mappingLoop_cons (cfg : Cfg) (what : String) (cs : Bool) (kn vn : Node) (rest : List (Node × Node))
    (seen : List (String × Pos)) :
    mappingLoop cfg what cs ((kn, vn) :: rest) seen =
      match lookupSeen (keyId cfg cs kn) seen with
      | some pos =>
        ((mappingLoop cfg what cs rest seen).1,
         (parseString kn false).2 ++ [⟨(parseString kn false).1.pos, "key-duplicated",
            [(parseString kn false).1.value, what, posString pos,
             if cs then "" else ". note that this key is case insensitive"]⟩] ++ (mappingLoop cfg what cs rest seen).2)
      | none =>
        (⟨keyId cfg cs kn, (parseString kn false).1, vn⟩ ::
            (mappingLoop cfg what cs rest (seen ++ [(keyId cfg cs kn, (parseString kn false).1.pos)])).1,
         (parseString kn false).2 ++
            (mappingLoop cfg what cs rest (seen ++ [(keyId cfg cs kn, (parseString kn false).1.pos)])).2) := by
  simp only [mappingLoop, keyId]
  split <;> rename_i h <;> simp only [h]

/-- `mappingLoop` looks at `seen` only through the ids of the keys it processes -/
theorem mappingLoop_congr (cfg : Cfg) (what : String) (cs : Bool) (l : List (Node × Node)) :
    ∀ seen seen' : List (String × Pos),
      (∀ q ∈ l, lookupSeen (keyId cfg cs q.1) seen = lookupSeen (keyId cfg cs q.1) seen') →
      mappingLoop cfg what cs l seen = mappingLoop cfg what cs l seen' := by
  induction l with
  | nil => intros; rfl
  | cons q rest ih =>
    intro seen seen' h
    obtain ⟨kn, vn⟩ := q
    have hk := h (kn, vn) (by simp)
    simp only at hk
    rw [mappingLoop_cons, mappingLoop_cons, ← hk]
    cases hl : lookupSeen (keyId cfg cs kn) seen with
    | some pos =>
      simp only
      rw [ih seen seen' (fun q hq => h q (by simp [hq]))]
    | none =>
      simp only
      have : mappingLoop cfg what cs rest (seen ++ [(keyId cfg cs kn, (parseString kn false).1.pos)]) =
             mappingLoop cfg what cs rest (seen' ++ [(keyId cfg cs kn, (parseString kn false).1.pos)]) := by
        apply ih
        intro q hq
        rw [lookupSeen_snoc, lookupSeen_snoc, h q (by simp [hq])]
      rw [this]

/-- a key whose id occurs nowhere else is one more entry of the result; nothing else changes -/
theorem mappingLoop_insert_fresh (cfg : Cfg) (what : String) (cs : Bool) (kn vn : Node) (post : List (Node × Node)) :
    ∀ (pre : List (Node × Node)) (seen : List (String × Pos)),
      lookupSeen (keyId cfg cs kn) seen = none →
      (∀ q ∈ pre ++ post, keyId cfg cs q.1 ≠ keyId cfg cs kn) →
      ∃ kvs₁ kvs₂ es₁ es₂,
        mappingLoop cfg what cs (pre ++ post) seen = (kvs₁ ++ kvs₂, es₁ ++ es₂) ∧
        mappingLoop cfg what cs (pre ++ (kn, vn) :: post) seen =
          (kvs₁ ++ ⟨keyId cfg cs kn, (parseString kn false).1, vn⟩ :: kvs₂, es₁ ++ (parseString kn false).2 ++ es₂) := by
  intro pre
  induction pre with
  | nil =>
    intro seen hs hne
    refine ⟨[], (mappingLoop cfg what cs post seen).1, [], (mappingLoop cfg what cs post seen).2, rfl, ?_⟩
    have : mappingLoop cfg what cs post (seen ++ [(keyId cfg cs kn, (parseString kn false).1.pos)]) =
           mappingLoop cfg what cs post seen := by
      apply mappingLoop_congr
      intro q hq
      exact lookupSeen_snoc_ne _ _ (Ne.symm (hne q (by simpa using hq)))
    simp only [List.nil_append, mappingLoop_cons, hs, this]
  | cons q rest ih =>
    intro seen hs hne
    obtain ⟨kn', vn'⟩ := q
    have hk' : keyId cfg cs kn' ≠ keyId cfg cs kn := hne (kn', vn') (by simp)
    have hne' : ∀ q ∈ rest ++ post, keyId cfg cs q.1 ≠ keyId cfg cs kn :=
      fun q hq => hne q (by simp only [List.cons_append, List.mem_cons]; exact Or.inr hq)
    simp only [List.cons_append, mappingLoop_cons]
    cases hl : lookupSeen (keyId cfg cs kn') seen with
    | some pos =>
      obtain ⟨kvs₁, kvs₂, es₁, es₂, e₁, e₂⟩ := ih seen hs hne'
      refine ⟨kvs₁, kvs₂, (parseString kn' false).2 ++ [⟨(parseString kn' false).1.pos, "key-duplicated",
            [(parseString kn' false).1.value, what, posString pos,
             if cs then "" else ". note that this key is case insensitive"]⟩] ++ es₁, es₂, ?_, ?_⟩
      · simp only [e₁, List.append_assoc]
      · simp only [e₂, List.append_assoc]
    | none =>
      have hs' : lookupSeen (keyId cfg cs kn) (seen ++ [(keyId cfg cs kn', (parseString kn' false).1.pos)]) = none := by
        rw [lookupSeen_snoc_ne _ _ hk']; exact hs
      obtain ⟨kvs₁, kvs₂, es₁, es₂, e₁, e₂⟩ := ih _ hs' hne'
      refine ⟨⟨keyId cfg cs kn', (parseString kn' false).1, vn'⟩ :: kvs₁, kvs₂, (parseString kn' false).2 ++ es₁, es₂, ?_, ?_⟩
      · simp only [e₁, List.cons_append, List.append_assoc]
      · simp only [e₂, List.cons_append, List.append_assoc]

/-- the position `parseMapping` remembers for an id: the first key node with that id -/
def firstPos (cfg : Cfg) (cs : Bool) (id : String) : List (Node × Node) → Option Pos
  | [] => none
  | (kn, _) :: rest => if keyId cfg cs kn = id then some (parseString kn false).1.pos else firstPos cfg cs id rest

/-- a key whose id was seen before only adds the `key-duplicated` diagnostic (at that key); the result is the same -/
theorem mappingLoop_insert_dup (cfg : Cfg) (what : String) (cs : Bool) (kn vn : Node) (post : List (Node × Node)) :
    ∀ (pre : List (Node × Node)) (seen : List (String × Pos)),
      ((lookupSeen (keyId cfg cs kn) seen).isSome ∨ ∃ q ∈ pre, keyId cfg cs q.1 = keyId cfg cs kn) →
      ∃ kvs es₁ es₂ pos,
        mappingLoop cfg what cs (pre ++ post) seen = (kvs, es₁ ++ es₂) ∧
        mappingLoop cfg what cs (pre ++ (kn, vn) :: post) seen =
          (kvs, es₁ ++ ((parseString kn false).2 ++ [⟨(parseString kn false).1.pos, "key-duplicated",
            [(parseString kn false).1.value, what, posString pos,
             if cs then "" else ". note that this key is case insensitive"]⟩]) ++ es₂) ∧
        (lookupSeen (keyId cfg cs kn) seen = some pos ∨
          (lookupSeen (keyId cfg cs kn) seen = none ∧ firstPos cfg cs (keyId cfg cs kn) pre = some pos)) := by
  intro pre
  induction pre with
  | nil =>
    intro seen h
    have hs : (lookupSeen (keyId cfg cs kn) seen).isSome := by
      rcases h with h | ⟨q, hq, _⟩
      · exact h
      · cases hq
    obtain ⟨pos, hp⟩ := Option.isSome_iff_exists.1 hs
    refine ⟨(mappingLoop cfg what cs post seen).1, [], (mappingLoop cfg what cs post seen).2, pos, rfl, ?_, Or.inl hp⟩
    simp only [List.nil_append, mappingLoop_cons, hp, List.append_assoc]
  | cons q rest ih =>
    intro seen h
    obtain ⟨kn', vn'⟩ := q
    simp only [List.cons_append, mappingLoop_cons]
    cases hl : lookupSeen (keyId cfg cs kn') seen with
    | some pos' =>
      have h' : (lookupSeen (keyId cfg cs kn) seen).isSome ∨ ∃ q ∈ rest, keyId cfg cs q.1 = keyId cfg cs kn := by
        rcases h with h | ⟨q, hq, e⟩
        · exact Or.inl h
        · rcases List.mem_cons.1 hq with rfl | hq
          · left; rw [← e, hl]; rfl
          · exact Or.inr ⟨q, hq, e⟩
      obtain ⟨kvs, es₁, es₂, pos, e₁, e₂, hp⟩ := ih seen h'
      refine ⟨kvs, (parseString kn' false).2 ++ [⟨(parseString kn' false).1.pos, "key-duplicated",
            [(parseString kn' false).1.value, what, posString pos',
             if cs then "" else ". note that this key is case insensitive"]⟩] ++ es₁, es₂, pos, ?_, ?_, ?_⟩
      · simp only [e₁, List.append_assoc]
      · simp only [e₂, List.append_assoc]
      · rcases hp with hp | ⟨hn, hf⟩
        · exact Or.inl hp
        · refine Or.inr ⟨hn, ?_⟩
          simp only [firstPos]
          have : keyId cfg cs kn' ≠ keyId cfg cs kn := by
            intro e; rw [e] at hl; rw [hl] at hn; cases hn
          simp [this, hf]
    | none =>
      by_cases hk : keyId cfg cs kn' = keyId cfg cs kn
      · -- this very key is the first occurrence
        have h' : (lookupSeen (keyId cfg cs kn) (seen ++ [(keyId cfg cs kn', (parseString kn' false).1.pos)])).isSome ∨
            ∃ q ∈ rest, keyId cfg cs q.1 = keyId cfg cs kn := by
          left; rw [lookupSeen_snoc, ← hk, hl]; simp
        obtain ⟨kvs, es₁, es₂, pos, e₁, e₂, hp⟩ := ih _ h'
        refine ⟨⟨keyId cfg cs kn', (parseString kn' false).1, vn'⟩ :: kvs, (parseString kn' false).2 ++ es₁, es₂, pos, ?_, ?_, ?_⟩
        · simp only [e₁, List.append_assoc]
        · simp only [e₂, List.append_assoc]
        · have hn : lookupSeen (keyId cfg cs kn) seen = none := by rw [← hk]; exact hl
          refine Or.inr ⟨hn, ?_⟩
          rcases hp with hp | ⟨hp, _⟩
          · rw [lookupSeen_snoc, hn] at hp
            simp only [hk, ↓reduceIte] at hp
            simp only [firstPos, hk, ↓reduceIte]
            exact hp
          · rw [lookupSeen_snoc, hn] at hp
            simp [hk] at hp
      · have h' : (lookupSeen (keyId cfg cs kn) (seen ++ [(keyId cfg cs kn', (parseString kn' false).1.pos)])).isSome ∨
            ∃ q ∈ rest, keyId cfg cs q.1 = keyId cfg cs kn := by
          rcases h with h | ⟨q, hq, e⟩
          · left; rw [lookupSeen_snoc_ne _ _ hk]; exact h
          · rcases List.mem_cons.1 hq with rfl | hq
            · exact absurd e hk
            · exact Or.inr ⟨q, hq, e⟩
        obtain ⟨kvs, es₁, es₂, pos, e₁, e₂, hp⟩ := ih _ h'
        refine ⟨⟨keyId cfg cs kn', (parseString kn' false).1, vn'⟩ :: kvs, (parseString kn' false).2 ++ es₁, es₂, pos, ?_, ?_, ?_⟩
        · simp only [e₁, List.append_assoc]
        · simp only [e₂, List.append_assoc]
        · rw [lookupSeen_snoc_ne _ _ hk] at hp
          rcases hp with hp | ⟨hn, hf⟩
          · exact Or.inl hp
          · exact Or.inr ⟨hn, by simp [firstPos, hk, hf]⟩

/-- every entry of the result carries the id of its own key node -/
theorem mappingLoop_ids (cfg : Cfg) (what : String) (cs : Bool) (l : List (Node × Node)) :
    ∀ (seen : List (String × Pos)) (kv : KV), kv ∈ (mappingLoop cfg what cs l seen).1 →
      ∃ q ∈ l, kv.id = keyId cfg cs q.1 ∧ kv.key = (parseString q.1 false).1 ∧ kv.val = q.2 := by
  induction l with
  | nil => intro seen kv h; cases h
  | cons q rest ih =>
    intro seen kv h
    obtain ⟨kn, vn⟩ := q
    rw [mappingLoop_cons] at h
    cases hl : lookupSeen (keyId cfg cs kn) seen with
    | some pos =>
      rw [hl] at h
      obtain ⟨q, hq, hh⟩ := ih seen kv h
      exact ⟨q, by simp [hq], hh⟩
    | none =>
      rw [hl] at h
      rcases List.mem_cons.1 h with rfl | h
      · exact ⟨(kn, vn), by simp, rfl, rfl, rfl⟩
      · obtain ⟨q, hq, hh⟩ := ih _ kv h
        exact ⟨q, by simp [hq], hh⟩

end AL.PW
