import AL.Lemmas.C07SBase
/-
  C07Sites, rule side: a diagnostic of rule_expression.go sits at one of the strings of the AST value the check was given.
  Contrapositive form, so that the same decomposition lemmas (`AllI` of a structure = `AllI` of its fields) drive the proofs:
  `NS d x` — "`d` sits at none of the strings of `x`" — implies `d ∉ check … x …`.
-/
namespace AL.C07S
open AL AL.Ast AL.Sema AL.RuleExpr

/-- the item is not a string the diagnostic `d` sits at -/
def NotAt (d : Diag) : Item → Prop
  | .str s => d.site ≠ s.pos
  | .pos _ => True

/-- `d` sits at none of the strings of `x` -/
abbrev NS {α} [HasItems α] (d : Diag) (x : α) : Prop := AllI (NotAt d) x

variable {d : Diag}

@[simp] theorem NotAt_str {s : Str} : NotAt d (.str s) ↔ d.site ≠ s.pos := Iff.rfl
@[simp] theorem NotAt_pos {p : Pos} : NotAt d (.pos p) ↔ True := Iff.rfl

theorem not_mem_flatMap {α β} {l : List α} {f : α → List β} {b : β} (h : ∀ x ∈ l, b ∉ f x) : b ∉ l.flatMap f := by
  simp only [List.mem_flatMap, not_exists, not_and]; exact h

theorem NS_getD {α} [HasItems α] {o : Option (List α)} (h : NS d o) : ∀ x ∈ o.getD [], NS d x := by
  cases o with
  | none => intro x hx; cases hx
  | some l => exact IOk_list.1 (IOk_some.1 h)

/-! ### the checks of one string -/

theorem at_not {s : Str} (h : d.site ≠ s.pos) (es : List SemaErr) : d ∉ at_ s es := by
  simp only [at_, List.mem_map, not_exists, not_and]
  intro e _ he
  subst he
  exact h rfl

theorem checkStrU_not (cx : Cx) (u : Bool) {o : Option Str} (h : NS d o) (key : String) : d ∉ (checkStrU cx u o key).2 := by
  cases o with
  | none => simp [checkStrU]
  | some s =>
    have hs : d.site ≠ s.pos := by simpa using h
    simp only [checkStrU]
    split <;> exact at_not hs _

theorem checkString_not (cx : Cx) {o : Option Str} (h : NS d o) (key : String) : d ∉ checkString cx o key :=
  checkStrU_not cx false h key
theorem checkScriptString_not (cx : Cx) {o : Option Str} (h : NS d o) (key : String) : d ∉ checkScriptString cx o key :=
  checkStrU_not cx true h key

theorem checkStrings_not (cx : Cx) {o : Option (List Str)} (h : NS d o) (key : String) : d ∉ checkStrings cx o key := by
  simp only [checkStrings]
  exact not_mem_flatMap fun s hs => checkString_not cx (IOk_some.2 (NS_getD h s hs)) key

theorem checkOneExpression_not (cx : Cx) {o : Option Str} (h : NS d o) (what key : String) :
    d ∉ (checkOneExpression cx o what key).2 := by
  cases o with
  | none => simp [checkOneExpression]
  | some s =>
    have hs : d.site ≠ s.pos := by simpa using h
    simp only [checkOneExpression]
    split <;> exact at_not hs _

theorem mustBe_not (p : Ty → Bool) (code what : String) {o : Option Str} (h : NS d o) {r : Option Ty × List Diag} (hr : d ∉ r.2) :
    d ∉ (mustBe p code what o r).2 := by
  cases o with
  | none =>
    simp only [mustBe]
    split
    · rename_i h2; cases h2
    · exact hr
  | some s =>
    have hs : d.site ≠ s.pos := by simpa using h
    have ha := fun es => at_not hs es
    simp only [mustBe]
    split
    · split
      · exact hr
      · simp_all
    · exact hr

theorem checkObjectExpression_not (cx : Cx) {o : Option Str} (h : NS d o) (what key : String) :
    d ∉ (checkObjectExpression cx o what key).2 := mustBe_not _ _ _ h (checkOneExpression_not cx h what key)
theorem checkArrayExpression_not (cx : Cx) {o : Option Str} (h : NS d o) (what key : String) :
    d ∉ (checkArrayExpression cx o what key).2 := mustBe_not _ _ _ h (checkOneExpression_not cx h what key)
theorem checkNumberExpression_not (cx : Cx) {o : Option Str} (h : NS d o) (what key : String) :
    d ∉ (checkNumberExpression cx o what key).2 := mustBe_not _ _ _ h (checkOneExpression_not cx h what key)

theorem checkBool_not (cx : Cx) {b : Option BoolV} (h : NS d b) (key : String) : d ∉ checkBool cx b key := by
  cases b with
  | none => simp [checkBool]
  | some b =>
    have he : NS d b.expr := (IOk_BoolV.1 (IOk_some.1 h)).1
    simp only [checkBool]
    split
    · simp
    · rename_i e hex
      rw [hex] at he
      have h1 := checkOneExpression_not cx he "bool value" key
      have hs : d.site ≠ e.pos := by simpa using he
      split
      · exact h1
      · exact h1
      · simp only [List.mem_append, not_or]; exact ⟨h1, at_not hs _⟩
      · exact h1

theorem checkInt_not (cx : Cx) {i : Option IntV} (h : NS d i) (key : String) : d ∉ checkInt cx i key := by
  cases i with
  | none => simp [checkInt]
  | some i => exact checkNumberExpression_not cx (IOk_IntV.1 (IOk_some.1 h)).1 _ key

theorem checkFloat_not (cx : Cx) {f : Option FloatV} (h : NS d f) (key : String) : d ∉ checkFloat cx f key := by
  cases f with
  | none => simp [checkFloat]
  | some f => exact checkNumberExpression_not cx (IOk_FloatV.1 (IOk_some.1 h)).1 _ key

/-! ### sections -/

theorem checkEnv_not (cx : Cx) {env : Option Ast.Env} (h : NS d env) (key : String) : d ∉ RuleExpr.checkEnv cx env key := by
  cases env with
  | none => simp [RuleExpr.checkEnv]
  | some e =>
    have he := IOk_Env.1 (IOk_some.1 h)
    simp only [RuleExpr.checkEnv]
    split
    · rename_i vars hv
      rw [hv] at he
      refine not_mem_flatMap fun kv hkv => ?_
      have hkv' := IOk_EnvVar.1 (IOk_entry.1 (IOk_list.1 (IOk_some.1 he.1) kv hkv))
      simp only [List.mem_append, not_or]
      exact ⟨checkString_not cx (IOk_some.2 hkv'.1) key, checkString_not cx (IOk_some.2 hkv'.2) key⟩
    · exact checkObjectExpression_not cx he.2 _ key

theorem checkContainer_not (cx : Cx) {c : Option Container} (h : NS d c) (key pre : String) :
    d ∉ checkContainer cx c key pre := by
  cases c with
  | none => simp [checkContainer]
  | some c =>
    have hc := IOk_Container.1 (IOk_some.1 h)
    simp only [checkContainer, List.mem_append, not_or]
    refine ⟨⟨⟨⟨⟨checkString_not cx hc.1 _, ?_⟩, checkEnv_not cx hc.2.2.1 _⟩, checkStrings_not cx hc.2.2.2.1 _⟩,
      checkStrings_not cx hc.2.2.2.2.1 _⟩, checkString_not cx hc.2.2.2.2.2.1 _⟩
    split
    · rename_i cr hcr
      have := hc.2.1
      rw [hcr] at this
      have hcr' := IOk_Credentials.1 (IOk_some.1 this)
      simp only [List.mem_append, not_or]
      exact ⟨checkString_not cx hcr'.1 _, checkString_not cx hcr'.2.1 _⟩
    · simp

theorem checkConcurrency_not (cx : Cx) {c : Option Concurrency} (h : NS d c) (key : String) :
    d ∉ checkConcurrency cx c key := by
  cases c with
  | none => simp [checkConcurrency]
  | some c =>
    have hc := IOk_Concurrency.1 (IOk_some.1 h)
    simp only [checkConcurrency, List.mem_append, not_or]
    exact ⟨checkString_not cx hc.1 _, checkBool_not cx hc.2.1 _⟩

theorem checkDefaults_not (cx : Cx) {x : Option Defaults} (h : NS d x) (key : String) : d ∉ checkDefaults cx x key := by
  cases x with
  | none => simp [checkDefaults]
  | some x =>
    have hx := IOk_Defaults.1 (IOk_some.1 h)
    simp only [checkDefaults]
    split
    · simp
    · rename_i r hr
      have := hx.1
      rw [hr] at this
      have hr' := IOk_DefaultsRun.1 (IOk_some.1 this)
      simp only [List.mem_append, not_or]
      exact ⟨checkString_not cx hr'.1 _, checkString_not cx hr'.2.1 _⟩

theorem checkIfCondition_not (cx : Cx) {o : Option Str} (h : NS d o) (key : String) : d ∉ checkIfCondition cx o key := by
  cases o with
  | none => simp [checkIfCondition]
  | some s =>
    have hs : d.site ≠ s.pos := by simpa using h
    have hu := checkStrU_not cx false h key
    have hnb : ∀ t : Ty, d ∉ (match t with
        | .bool => ([] : List Diag) | .any => []
        | t => if Ty.assignable .bool t then [] else at_ s [err "if-cond-type" [tyStr t]]) := by
      intro t
      split
      · simp
      · simp
      · split
        · simp
        · exact at_not hs _
    simp only [checkIfCondition]
    split
    · split
      · split
        · simp only [List.mem_append, not_or]; exact ⟨hu, hnb _⟩
        · exact hu
      · exact hu
    · split
      · exact at_not hs _
      · exact hnb _

/-! ### the matrix -/

theorem rawStringTy_not (cx : Cx) (isNum : IsNumber) (v : String) (p : Pos) (h : d.site ≠ p) :
    d ∉ (rawStringTy cx isNum v p).2 := by
  have ha : d ∉ at_ ⟨v, false, p⟩ (checkExprsIn cx "jobs.<job_id>.strategy" false v).2 := at_not (s := ⟨v, false, p⟩) h _
  simp only [rawStringTy]
  repeat' split
  all_goals exact ha

mutual
theorem rawTy_not (cx : Cx) (isNum : IsNumber) : ∀ (v : AL.Matrix.Raw), NS d v → d ∉ (rawTy cx isNum v).2
  | .str v p, h => by
    simp only [rawTy]
    exact rawStringTy_not cx isNum v p (by simpa using h)
  | .arr es p, h => by
    have hes : NS d es := (IOk_raw_arr.1 h).2
    cases es with
    | nil => simp [rawTy]
    | cons e rest =>
      have := IOk_cons.1 hes
      simp only [rawTy, List.mem_append, not_or]
      exact ⟨rawTy_not cx isNum e this.1, rawFold_not cx isNum _ rest this.2⟩
  | .obj ps p, h => by
    simp only [rawTy]
    exact rawProps_not cx isNum ps (IOk_raw_obj.1 h).2
theorem rawFold_not (cx : Cx) (isNum : IsNumber) : ∀ (acc : Ty) (vs : List AL.Matrix.Raw), NS d vs → d ∉ (rawFold cx isNum acc vs).2
  | _, [], _ => by simp [rawFold]
  | acc, v :: vs, h => by
    have := IOk_cons.1 h
    simp only [rawFold, List.mem_append, not_or]
    exact ⟨rawTy_not cx isNum v this.1, rawFold_not cx isNum _ vs this.2⟩
theorem rawProps_not (cx : Cx) (isNum : IsNumber) : ∀ (ps : List (String × AL.Matrix.Raw)), NS d ps → d ∉ (RuleExpr.rawProps cx isNum ps).2
  | [], _ => by simp [RuleExpr.rawProps]
  | (k, v) :: ps, h => by
    have := IOk_cons.1 h
    simp only [RuleExpr.rawProps, List.mem_append, not_or]
    exact ⟨rawTy_not cx isNum v (IOk_entry.1 this.1), rawProps_not cx isNum ps this.2⟩
end

theorem rowTy_not (cx : Cx) (isNum : IsNumber) {r : MatrixRow} (h : NS d r) : d ∉ (rowTy cx isNum r).2 := by
  have hr := IOk_MatrixRow.1 h
  simp only [rowTy]
  split
  · rename_i e he
    have := hr.2.2
    rw [he] at this
    exact checkArrayExpression_not cx this _ _
  · have hv : NS d (r.values.getD []) := IOk_getD hr.2.1
    split
    · simp
    · rename_i v vs hvs
      rw [hvs] at hv
      have := IOk_cons.1 hv
      simp only [List.mem_append, not_or]
      exact ⟨rawTy_not cx isNum v this.1, rawFold_not cx isNum _ vs this.2⟩

theorem assigns_not (cx : Cx) (isNum : IsNumber) {c : MatrixCombination} (h : NS d c) :
    ∀ kv ∈ c.assigns.getD [], d ∉ (rawTy cx isNum kv.2.value).2 := by
  intro kv hkv
  have := NS_getD (IOk_MatrixCombination.1 h).1 kv hkv
  exact rawTy_not cx isNum _ (IOk_MatrixAssign.1 (IOk_entry.1 this)).2

theorem excludeDiags_not (cx : Cx) (isNum : IsNumber) {ex : Option MatrixCombinations} (h : NS d ex) :
    d ∉ excludeDiags cx isNum ex := by
  cases ex with
  | none => simp [excludeDiags]
  | some ex =>
    have hx := IOk_MatrixCombinations.1 (IOk_some.1 h)
    simp only [excludeDiags]
    split
    · rename_i e he
      have he' := hx.2
      rw [he] at he'
      have h1 := checkArrayExpression_not cx he' "exclude" "jobs.<job_id>.strategy"
      have hs : d.site ≠ e.pos := by simpa using he'
      have ha := fun es => at_not hs es
      repeat' split
      all_goals simp_all
    · refine not_mem_flatMap fun c hc => ?_
      have hc' := NS_getD hx.1 c hc
      split
      · rename_i e he
        have := (IOk_MatrixCombination.1 hc').2
        rw [he] at this
        exact checkObjectExpression_not cx this _ _
      · exact not_mem_flatMap (assigns_not cx isNum hc')

theorem foldl_not {α σ : Type} (step : σ × List Diag → α → σ × List Diag) (l : List α)
    (hstep : ∀ acc x, x ∈ l → d ∉ acc.2 → d ∉ (step acc x).2) :
    ∀ acc, d ∉ acc.2 → d ∉ (l.foldl step acc).2 := by
  induction l with
  | nil => intro acc h; exact h
  | cons x rest ih =>
    intro acc h
    simp only [List.foldl_cons]
    exact ih (fun acc y hy => hstep acc y (List.mem_cons_of_mem _ hy)) _ (hstep acc x (List.mem_cons_self ..) h)

theorem includeCombo_not (cx : Cx) (isNum : IsNumber) {acc : Ty × List Diag} (hacc : d ∉ acc.2) {c : MatrixCombination} (h : NS d c) :
    d ∉ (includeCombo cx isNum acc c).2 := by
  simp only [includeCombo]
  split
  · rename_i e he
    have := (IOk_MatrixCombination.1 h).2
    rw [he] at this
    have h1 := checkOneExpression_not cx this "matrix combination at element of include section" "jobs.<job_id>.strategy"
    split <;> simp_all
  · refine foldl_not _ _ ?_ acc hacc
    intro a kv hkv ha
    have := assigns_not cx isNum h kv hkv
    split <;> simp_all

theorem matrixExprTy_not (cx : Cx) {e : Str} (h : d.site ≠ e.pos) : d ∉ (matrixExprTy cx e).2 := by
  have := checkObjectExpression_not (d := d) cx (o := some e) (by simpa using h) "matrix" "jobs.<job_id>.strategy"
  simp only [matrixExprTy]
  split <;> exact this

theorem checkMatrix_not (cx : Cx) (isNum : IsNumber) {m : Ast.Matrix} (h : NS d m) : d ∉ (checkMatrix cx isNum m).2 := by
  have hm := IOk_Matrix.1 h
  simp only [checkMatrix]
  split
  · rename_i e he
    have := hm.2.2.2.1
    rw [he] at this
    exact matrixExprTy_not cx (by simpa using this)
  · have hex := excludeDiags_not cx isNum hm.2.2.1
    have hrows : d ∉ ((m.rows.getD []).foldl (fun (acc : List (String × Ty) × List Diag) kv =>
        let t := rowTy cx isNum kv.2
        (Ty.setProp kv.1 t.1 acc.1, acc.2 ++ t.2)) ([], [])).2 := by
      refine foldl_not _ _ ?_ _ (by simp)
      intro acc kv hkv ha
      have := rowTy_not cx isNum (IOk_entry.1 (NS_getD hm.1 kv hkv))
      simp_all
    split
    · simp_all
    · rename_i inc hinc
      have hi := hm.2.1
      rw [hinc] at hi
      have hi' := IOk_MatrixCombinations.1 (IOk_some.1 hi)
      split
      · rename_i e he
        have := hi'.2
        rw [he] at this
        have := checkOneExpression_not cx this "include" "jobs.<job_id>.strategy"
        simp_all
      · have : d ∉ ((inc.combinations.getD []).foldl (includeCombo cx isNum) (.obj ((m.rows.getD []).foldl (fun (acc : List (String × Ty) × List Diag) kv =>
            let t := rowTy cx isNum kv.2
            (Ty.setProp kv.1 t.1 acc.1, acc.2 ++ t.2)) ([], [])).1 none, [])).2 := by
          refine foldl_not _ _ ?_ _ (by simp)
          intro acc c hc ha
          exact includeCombo_not cx isNum ha (NS_getD hi'.1 c hc)
        simp_all

/-! ### steps -/

theorem stepExec_not (cx : Cx) {e : Exec} (h : NS d e) : d ∉ (stepExec cx e).1 := by
  cases e with
  | none => simp [stepExec]
  | run e =>
    have he := IOk_ExecRun.1 (IOk_exec_run.1 h)
    simp only [stepExec, List.mem_append, not_or]
    exact ⟨⟨checkScriptString_not cx he.1 _, checkString_not cx he.2.1 _⟩, checkString_not cx he.2.2.1 _⟩
  | action e =>
    have he := IOk_ExecAction.1 (IOk_exec_action.1 h)
    simp only [stepExec, List.mem_append, not_or]
    refine ⟨⟨⟨checkString_not cx he.1 _, ?_⟩, checkString_not cx he.2.2.1 _⟩, checkString_not cx he.2.2.2 _⟩
    refine not_mem_flatMap fun kv hkv => ?_
    have := (IOk_Input.1 (IOk_entry.1 (NS_getD he.2.1 kv hkv))).2
    repeat' split
    all_goals first
      | exact checkScriptString_not cx (IOk_some.2 this) _
      | exact checkString_not cx (IOk_some.2 this) _

theorem stepDiags_not (cx : Cx) {n : Step} (h : NS d n) : d ∉ stepDiags cx n := by
  have hn := IOk_Step.1 h
  simp only [stepDiags, List.mem_append, not_or]
  exact ⟨⟨⟨⟨⟨checkString_not cx hn.2.2.1 _, checkIfCondition_not cx hn.2.1 _⟩, stepExec_not cx hn.2.2.2.1⟩,
    checkEnv_not cx hn.2.2.2.2.1 _⟩, checkBool_not cx hn.2.2.2.2.2.1 _⟩, checkFloat_not cx hn.2.2.2.2.2.2.1 _⟩

theorem visitStep_not (cx : Cx) {n : Step} (h : NS d n) : d ∉ (visitStep cx n).2 := by
  have hn := IOk_Step.1 h
  have h1 := stepDiags_not cx h
  simp only [visitStep]
  split
  · exact h1
  · rename_i id hid
    have := hn.1
    rw [hid] at this
    have := checkString_not cx this ""
    simp only [List.mem_append, not_or]
    refine ⟨h1, ?_⟩
    split
    · exact this
    · simp

theorem visitSteps_not : ∀ (steps : List Step) (cx : Cx), NS d steps → d ∉ (visitSteps cx steps).2
  | [], _, _ => by simp [visitSteps]
  | s :: ss, cx, h => by
    have := IOk_cons.1 h
    simp only [visitSteps, List.mem_append, not_or]
    exact ⟨visitStep_not cx this.1, visitSteps_not ss _ this.2⟩

/-! ### jobs -/

theorem typedInput_not (cx : Cx) (u : Str) {kv : String × CallArg} (h : d.site ≠ kv.2.value.pos) (ts : List Ty) :
    d ∉ typedInput cx u kv ts := by
  simp only [typedInput]
  repeat' split
  all_goals first
    | simp; done
    | (simp only [List.mem_singleton]; intro hd; subst hd; exact h rfl)

theorem checkWorkflowCall_not (cx : Cx) {c : Option WorkflowCall} (h : NS d c) : d ∉ checkWorkflowCall cx c := by
  cases c with
  | none => simp [checkWorkflowCall]
  | some c =>
    have hc := IOk_WorkflowCall.1 (IOk_some.1 h)
    simp only [checkWorkflowCall]
    split
    · simp
    · rename_i u hu
      have h1 := hc.1
      rw [hu] at h1
      simp only [List.mem_append, not_or]
      refine ⟨⟨checkString_not cx h1 _, ?_⟩, ?_⟩
      · refine not_mem_flatMap fun kv hkv => ?_
        have := (IOk_CallArg.1 (IOk_entry.1 (NS_getD hc.2.1 kv hkv))).2
        simp only [List.mem_append, not_or]
        exact ⟨checkStrU_not cx false (IOk_some.2 this) _, typedInput_not cx u (by simpa using this) _⟩
      · refine not_mem_flatMap fun kv hkv => ?_
        have := (IOk_CallArg.1 (IOk_entry.1 (NS_getD hc.2.2 kv hkv))).2
        exact checkString_not cx (IOk_some.2 this) _

theorem runsOnDiags_not (cx : Cx) {r : Option Runner} (h : NS d r) : d ∉ runsOnDiags cx r := by
  cases r with
  | none => simp [runsOnDiags]
  | some r =>
    have hr := IOk_Runner.1 (IOk_some.1 h)
    simp only [runsOnDiags, List.mem_append, not_or]
    refine ⟨?_, checkString_not cx hr.2.2 _⟩
    split
    · rename_i e he
      have he' := hr.2.1
      rw [he] at he'
      have h1 := checkOneExpression_not cx he' "runner label at \"runs-on\" section" "jobs.<job_id>.runs-on"
      have hs : d.site ≠ e.pos := by simpa using he'
      have ha := fun es => at_not hs es
      split <;> simp_all
    · exact not_mem_flatMap fun l hl => checkString_not cx (IOk_some.2 (NS_getD hr.1 l hl)) _

theorem strategyDiags_not (cx : Cx) {s : Option Strategy} (h : NS d s) : d ∉ strategyDiags cx s := by
  cases s with
  | none => simp [strategyDiags]
  | some s =>
    have hs := IOk_Strategy.1 (IOk_some.1 h)
    simp only [strategyDiags, List.mem_append, not_or]
    exact ⟨checkBool_not cx hs.2.1 _, checkInt_not cx hs.2.2.1 _⟩

theorem servicesDiags_not (cx : Cx) {s : Option Services} (h : NS d s) : d ∉ servicesDiags cx s := by
  cases s with
  | none => simp [servicesDiags]
  | some s =>
    have hs := IOk_Services.1 (IOk_some.1 h)
    simp only [servicesDiags, List.mem_append, not_or]
    refine ⟨checkObjectExpression_not cx hs.2.1 _ _, not_mem_flatMap fun kv hkv => ?_⟩
    have := (IOk_Service.1 (IOk_entry.1 (NS_getD hs.1 kv hkv))).2
    exact checkContainer_not cx (IOk_some.2 this) _ _

theorem jobPre_not (cx : Cx) {n : Job} (h : NS d n) : d ∉ jobPre cx n := by
  have hn := IOk_Job.1 h
  obtain ⟨_, hname, hneeds, hrunsOn, _, _, hconc, _, henv, hdef, hcond, _, htimeout, hstrat, hcoe, hcont, hserv, hcall, _⟩ := hn
  simp only [jobPre, List.mem_append, not_or]
  exact ⟨⟨⟨⟨⟨⟨⟨⟨⟨⟨⟨⟨checkString_not cx hname _, checkStrings_not cx hneeds _⟩, runsOnDiags_not cx hrunsOn⟩,
    checkConcurrency_not cx hconc _⟩, checkEnv_not cx henv _⟩, checkDefaults_not cx hdef _⟩, checkIfCondition_not cx hcond _⟩,
    strategyDiags_not cx hstrat⟩, checkBool_not cx hcoe _⟩, checkFloat_not cx htimeout _⟩, checkContainer_not cx hcont _ _⟩,
    servicesDiags_not cx hserv⟩, checkWorkflowCall_not cx hcall⟩

theorem jobPost_not (cx : Cx) {n : Job} (h : NS d n) : d ∉ jobPost cx n := by
  have hn := IOk_Job.1 h
  simp only [jobPost, List.mem_append, not_or]
  refine ⟨?_, not_mem_flatMap fun kv hkv => ?_⟩
  · split
    · rename_i e he
      have := hn.2.2.2.2.2.1
      rw [he] at this
      have he' := IOk_Environment.1 (IOk_some.1 this)
      simp only [List.mem_append, not_or]
      exact ⟨checkString_not cx he'.1 _, checkString_not cx he'.2.1 _⟩
    · simp
  · have := (IOk_Output.1 (IOk_entry.1 (NS_getD hn.2.2.2.2.2.2.2.1 kv hkv))).2
    exact checkString_not cx (IOk_some.2 this) _

theorem jobMatrix_not (cx : Cx) (isNum : IsNumber) {n : Job} (h : NS d n) : d ∉ (jobMatrix cx isNum n).2 := by
  have hn := IOk_Job.1 h
  obtain ⟨_, _, _, _, _, _, _, _, _, _, _, _, _, hstrat, _⟩ := hn
  simp only [jobMatrix]
  split
  · rename_i s hs
    rw [hs] at hstrat
    have hs' := IOk_Strategy.1 (IOk_some.1 hstrat)
    split
    · rename_i m hm
      have := hs'.1
      rw [hm] at this
      exact checkMatrix_not cx isNum (IOk_some.1 this)
    · simp
  · simp

theorem visitJob_not (cx0 : Cx) (isNum : IsNumber) (jobs : List (String × Job)) {n : Job} (h : NS d n) :
    d ∉ visitJob cx0 isNum jobs n := by
  have hsteps : NS d (n.steps.getD []) := by
    have hn := IOk_Job.1 h
    obtain ⟨_, _, _, _, _, _, _, _, _, _, _, hsteps, _⟩ := hn
    exact IOk_getD hsteps
  simp only [visitJob, List.mem_append, not_or]
  exact ⟨⟨⟨jobMatrix_not _ isNum h, jobPre_not _ h⟩, visitSteps_not _ _ hsteps⟩, jobPost_not _ h⟩

/-! ### events -/

theorem callInputs_not (cx : Cx) : ∀ (ins : List Ast.CallInput) (acc : List (String × Ty)), NS d ins →
    d ∉ (RuleExpr.callInputs cx acc ins).2
  | [], _, _ => by simp [RuleExpr.callInputs]
  | i :: rest, acc, h => by
    have hh := IOk_cons.1 h
    have hi := IOk_CallInput.1 hh.1
    have ih := callInputs_not cx rest (acc ++ [(i.id, callTy i.type)]) hh.2
    simp only [RuleExpr.callInputs, List.mem_append, not_or]
    refine ⟨⟨⟨⟨checkString_not _ hi.2.1 _, checkBool_not _ hi.2.2.2 _⟩, checkStrU_not _ false hi.2.2.1 _⟩, ?_⟩, ih⟩
    split
    · rename_i t dd _ _ hd
      have := hi.2.2.1
      rw [hd] at this
      have hs : d.site ≠ dd.pos := by simpa using this
      have ha := fun es => at_not hs es
      repeat' split
      all_goals simp_all
    · rename_i t dd _ _ hd
      have := hi.2.2.1
      rw [hd] at this
      have hs : d.site ≠ dd.pos := by simpa using this
      have ha := fun es => at_not hs es
      repeat' split
      all_goals simp_all
    · simp

theorem filterDiags_not (cx : Cx) {x : Option Filter} (h : NS d x) : d ∉ filterDiags cx x := by
  cases x with
  | none => simp [filterDiags]
  | some f => exact checkStrings_not cx (IOk_Filter.1 (IOk_some.1 h)).2 _

theorem webhookDiags_not (cx : Cx) {e : WebhookEvent} (h : NS d e) : d ∉ webhookDiags cx e := by
  obtain ⟨_, h1, h2, h3, h4, h5, h6, h7, h8, _⟩ := IOk_WebhookEvent.1 h
  simp only [webhookDiags, List.mem_append, not_or]
  exact ⟨⟨⟨⟨⟨⟨⟨checkStrings_not cx h1 _, filterDiags_not cx h2⟩, filterDiags_not cx h3⟩, filterDiags_not cx h4⟩,
    filterDiags_not cx h5⟩, filterDiags_not cx h6⟩, filterDiags_not cx h7⟩, checkStrings_not cx h8 _⟩

theorem dispatchInputDiags_not (cx : Cx) {i : DispatchInput} (h : NS d i) : d ∉ dispatchInputDiags cx i := by
  obtain ⟨_, h1, h2, h3, h4⟩ := IOk_DispatchInput.1 h
  simp only [dispatchInputDiags, List.mem_append, not_or]
  exact ⟨⟨⟨checkString_not cx h1 _, checkString_not cx h3 _⟩, checkBool_not cx h2 _⟩, checkStrings_not cx h4 _⟩

theorem callSecretDiags_not (cx : Cx) {s : CallSecret} (h : NS d s) : d ∉ callSecretDiags cx s := by
  obtain ⟨_, h1, h2⟩ := IOk_CallSecret.1 h
  simp only [callSecretDiags, List.mem_append, not_or]
  exact ⟨checkString_not cx h1 _, checkBool_not cx h2 _⟩

theorem visitEvent_not (cx : Cx) {e : Ast.Event} (h : NS d e) : d ∉ (visitEvent cx e).2 := by
  cases e with
  | webhook e => exact webhookDiags_not cx (IOk_webhook.1 h)
  | schedule cron p => exact checkStrings_not cx (o := some cron) (IOk_some.2 (IOk_schedule.1 h).1) _
  | dispatch inputs p =>
    have hi := (IOk_dispatch.1 h).1
    simp only [visitEvent]
    exact not_mem_flatMap fun kv hkv => dispatchInputDiags_not cx (IOk_entry.1 (NS_getD hi kv hkv))
  | repoDispatch types p => exact checkStrings_not cx (IOk_repoDispatch.1 h).1 _
  | call inputs secrets outputs p =>
    obtain ⟨h1, h2, h3, _⟩ := IOk_call.1 h
    simp only [visitEvent, List.mem_append, not_or]
    refine ⟨⟨callInputs_not _ _ _ (IOk_getD h1), ?_⟩, ?_⟩
    · exact not_mem_flatMap fun kv hkv => callSecretDiags_not _ (IOk_entry.1 (NS_getD h2 kv hkv))
    · exact not_mem_flatMap fun kv hkv =>
        checkString_not _ (IOk_CallOutput.1 (IOk_entry.1 (NS_getD h3 kv hkv))).2.1 _

theorem visitEvents_not : ∀ (es : List Ast.Event) (cx : Cx), NS d es → d ∉ (visitEvents cx es).2
  | [], _, _ => by simp [visitEvents]
  | e :: es, cx, h => by
    have := IOk_cons.1 h
    simp only [visitEvents, List.mem_append, not_or]
    exact ⟨visitEvent_not cx this.1, visitEvents_not es _ this.2⟩

theorem findCallOutputs_not : ∀ (es : List Ast.Event), NS d es → ∀ outs, findCallOutputs es = some outs → NS d outs
  | [], _, outs, h => by simp [findCallOutputs] at h
  | e :: es, hes, outs, h => by
    have hh := IOk_cons.1 hes
    cases e with
    | call i s o p =>
      simp only [findCallOutputs, Option.some.injEq] at h
      subst h
      exact IOk_getD (IOk_call.1 hh.1).2.2.1
    | webhook e => exact findCallOutputs_not es hh.2 outs (by simpa [findCallOutputs] using h)
    | schedule c p => exact findCallOutputs_not es hh.2 outs (by simpa [findCallOutputs] using h)
    | dispatch i p => exact findCallOutputs_not es hh.2 outs (by simpa [findCallOutputs] using h)
    | repoDispatch t p => exact findCallOutputs_not es hh.2 outs (by simpa [findCallOutputs] using h)

/-- **the whole rule**: a diagnostic that sits at none of the strings of the workflow is not reported -/
theorem rule_not (lower : String → String) (isNum : IsNumber) (w : Workflow) (proj : ProjView) (h : NS d w) :
    d ∉ rule lower isNum w proj := by
  obtain ⟨hname, hrun, hon, _, henv, hdef, hconc, hjobs⟩ := IOk_Workflow.1 h
  have hon' : NS d (w.on.getD []) := IOk_getD hon
  simp only [rule, List.mem_append, not_or]
  refine ⟨⟨⟨⟨checkString_not _ hname _, visitEvents_not _ _ hon'⟩, ⟨⟨⟨checkString_not _ hrun _, checkEnv_not _ henv _⟩,
    checkDefaults_not _ hdef _⟩, checkConcurrency_not _ hconc _⟩⟩, ?_⟩, ?_⟩
  · exact not_mem_flatMap fun kv hkv => visitJob_not _ isNum _ (IOk_entry.1 (NS_getD hjobs kv hkv))
  · split
    · rename_i outs ho
      have houts := findCallOutputs_not _ hon' outs ho
      split
      · simp
      · exact not_mem_flatMap fun kv hkv =>
          checkString_not _ (IOk_CallOutput.1 (IOk_entry.1 (IOk_list.1 houts kv hkv))).2.2 _
    · simp

end AL.C07S
