import AL.Model.Visit
import AL.Lemmas.Visit
/-
  Lemmas for the `on:` section of the Visit model (C02 / C05): `Ty.setProp` keeps a key-sorted association list
  key-sorted, a key-sorted list is determined by its `Ty.lookup` function, hence `setProp`s for different keys
  commute on sorted lists and the fold in `objOf` does not depend on the order of a list with distinct keys.
-/
namespace AL.Visit
open AL AL.Sema

/-! ### the order on `String` -/

theorem str_lt_of_not_lt_of_ne {a b : String} (h : ¬ a < b) (hne : b ≠ a) : b < a := by
  apply Decidable.byContradiction
  intro h'
  exact hne (String.le_antisymm (String.not_lt.1 h) (String.not_lt.1 h'))

/-! ### key-sorted association lists -/

/-- strictly increasing keys -/
def KeySorted (ps : List (String × Ty)) : Prop := ps.Pairwise (fun a b => a.1 < b.1)

theorem keySorted_nil : KeySorted [] := List.Pairwise.nil

theorem mem_setProp {k : String} {v : Ty} {a : String × Ty} :
    {ps : List (String × Ty)} → a ∈ Ty.setProp k v ps → a = (k, v) ∨ a ∈ ps
  | [], h => by
    simp [Ty.setProp] at h
    exact Or.inl h
  | (k', v') :: rest, h => by
    simp only [Ty.setProp] at h
    split at h
    · rcases List.mem_cons.1 h with h | h
      · exact Or.inl h
      · exact Or.inr (List.mem_cons_of_mem _ h)
    · split at h
      · rcases List.mem_cons.1 h with h | h
        · exact Or.inl h
        · exact Or.inr h
      · rcases List.mem_cons.1 h with h | h
        · exact Or.inr (h ▸ List.mem_cons_self)
        · rcases mem_setProp h with h | h
          · exact Or.inl h
          · exact Or.inr (List.mem_cons_of_mem _ h)

/-- (1) `setProp` keeps a key-sorted list key-sorted -/
theorem setProp_keySorted (k : String) (v : Ty) :
    {ps : List (String × Ty)} → KeySorted ps → KeySorted (Ty.setProp k v ps)
  | [], _ => by simp [Ty.setProp, KeySorted]
  | (k', v') :: rest, h => by
    unfold KeySorted at h ⊢
    have hc := List.pairwise_cons.1 h
    simp only [Ty.setProp]
    split
    next heq =>
      subst heq
      exact List.pairwise_cons.2 ⟨fun b hb => hc.1 b hb, hc.2⟩
    next hne =>
      split
      next hlt =>
        refine List.pairwise_cons.2 ⟨?_, h⟩
        intro b hb
        rcases List.mem_cons.1 hb with rfl | hb
        · exact hlt
        · exact String.lt_trans hlt (hc.1 b hb)
      next hnlt =>
        refine List.pairwise_cons.2 ⟨?_, setProp_keySorted k v hc.2⟩
        intro b hb
        rcases mem_setProp hb with rfl | hb
        · exact str_lt_of_not_lt_of_ne hnlt hne
        · exact hc.1 b hb

theorem mem_of_lookup_eq_some {x : String} {v : Ty} :
    {ps : List (String × Ty)} → Ty.lookup x ps = some v → (x, v) ∈ ps
  | [], h => by simp [Ty.lookup] at h
  | (k', v') :: rest, h => by
    simp only [Ty.lookup] at h
    split at h
    next heq =>
      subst heq
      cases h
      exact List.mem_cons_self
    next => exact List.mem_cons_of_mem _ (mem_of_lookup_eq_some h)

theorem lookup_eq_none_of_forall_ne {x : String} :
    {ps : List (String × Ty)} → (∀ a ∈ ps, a.1 ≠ x) → Ty.lookup x ps = none
  | [], _ => rfl
  | (k', v') :: rest, h => by
    simp only [Ty.lookup]
    have h1 : k' ≠ x := h (k', v') List.mem_cons_self
    simp only [h1, if_false]
    exact lookup_eq_none_of_forall_ne fun a ha => h a (List.mem_cons_of_mem _ ha)

theorem lookup_cons_self (k : String) (v : Ty) (rest : List (String × Ty)) :
    Ty.lookup k ((k, v) :: rest) = some v := by
  simp [Ty.lookup]

/-- (3) a key-sorted list is determined by its `lookup` function -/
theorem keySorted_ext :
    {ps qs : List (String × Ty)} → KeySorted ps → KeySorted qs →
      (∀ x, Ty.lookup x ps = Ty.lookup x qs) → ps = qs
  | [], [], _, _, _ => rfl
  | [], (k, v) :: _, _, _, h => by
    have := h k
    rw [lookup_cons_self] at this
    simp [Ty.lookup] at this
  | (k, v) :: _, [], _, _, h => by
    have := h k
    rw [lookup_cons_self] at this
    simp [Ty.lookup] at this
  | (k₁, v₁) :: r₁, (k₂, v₂) :: r₂, h₁, h₂, h => by
    have c₁ := List.pairwise_cons.1 h₁
    have c₂ := List.pairwise_cons.1 h₂
    -- the head keys agree: each is the least key of the other list
    have hk : k₁ = k₂ := by
      have m₁ : (k₁, v₁) ∈ (k₂, v₂) :: r₂ :=
        mem_of_lookup_eq_some (by rw [← h k₁, lookup_cons_self])
      have m₂ : (k₂, v₂) ∈ (k₁, v₁) :: r₁ :=
        mem_of_lookup_eq_some (by rw [h k₂, lookup_cons_self])
      rcases List.mem_cons.1 m₁ with e | m₁
      · exact congrArg Prod.fst e
      · rcases List.mem_cons.1 m₂ with e | m₂
        · exact (congrArg Prod.fst e).symm
        · exact absurd (c₁.1 _ m₂) (String.lt_asymm (c₂.1 _ m₁))
    subst hk
    have hv : v₁ = v₂ := by
      have := h k₁
      rw [lookup_cons_self, lookup_cons_self] at this
      exact Option.some.inj this
    subst hv
    have hr : r₁ = r₂ := by
      refine keySorted_ext c₁.2 c₂.2 fun x => ?_
      by_cases hx : k₁ = x
      · subst hx
        rw [lookup_eq_none_of_forall_ne fun a ha e => String.lt_irrefl _ (e ▸ c₁.1 a ha),
          lookup_eq_none_of_forall_ne fun a ha e => String.lt_irrefl _ (e ▸ c₂.1 a ha)]
      · have := h x
        simpa [Ty.lookup, hx] using this
    rw [hr]

/-- `setProp`s for different keys commute on a key-sorted list -/
theorem setProp_comm {k k' : String} (hne : k ≠ k') (v v' : Ty) {ps : List (String × Ty)} (hs : KeySorted ps) :
    Ty.setProp k v (Ty.setProp k' v' ps) = Ty.setProp k' v' (Ty.setProp k v ps) := by
  apply keySorted_ext (setProp_keySorted _ _ (setProp_keySorted _ _ hs))
    (setProp_keySorted _ _ (setProp_keySorted _ _ hs))
  intro x
  simp only [lookup_setProp]
  by_cases h1 : x = k
  · subst h1; simp [hne]
  · simp [h1]

/-! ### the fold of `objOf` -/

/-- the fold inside `objOf` -/
def propsFold (acc : List (String × Ty)) (l : List (String × Ty)) : List (String × Ty) :=
  l.foldl (fun acc kv => Ty.setProp kv.1 kv.2 acc) acc

theorem objOf_eq (l : List (String × Ty)) : objOf l = .obj (propsFold [] l) none := rfl

theorem propsFold_keySorted (l : List (String × Ty)) :
    {acc : List (String × Ty)} → KeySorted acc → KeySorted (propsFold acc l) := by
  induction l with
  | nil => intro acc h; exact h
  | cons a l ih => intro acc h; exact ih (setProp_keySorted a.1 a.2 h)

/-- the keys of `objOf l` are strictly increasing -/
theorem objOf_keySorted (l : List (String × Ty)) : KeySorted (propsFold [] l) :=
  propsFold_keySorted l keySorted_nil

/-- from a key-sorted accumulator, the fold over a list with pairwise distinct keys does not depend on the order -/
theorem propsFold_perm {l l' : List (String × Ty)} (hp : l.Perm l') :
    (l.map (·.1)).Nodup → ∀ {acc : List (String × Ty)}, KeySorted acc → propsFold acc l = propsFold acc l' := by
  induction hp with
  | nil => intro _ acc _; rfl
  | cons a _ ih =>
    intro hnd acc hs
    rw [List.map_cons, List.nodup_cons] at hnd
    exact ih hnd.2 (setProp_keySorted a.1 a.2 hs)
  | swap a b l =>
    intro hnd acc hs
    rw [List.map_cons, List.map_cons, List.nodup_cons] at hnd
    have hne : a.1 ≠ b.1 := fun e => hnd.1 (e ▸ List.mem_cons_self)
    show propsFold (Ty.setProp a.1 a.2 (Ty.setProp b.1 b.2 acc)) l =
      propsFold (Ty.setProp b.1 b.2 (Ty.setProp a.1 a.2 acc)) l
    rw [setProp_comm hne a.2 b.2 hs]
  | trans h₁ _ ih₁ ih₂ =>
    intro hnd acc hs
    have hnd₂ := (h₁.map (·.1)).nodup_iff.1 hnd
    exact (ih₁ hnd hs).trans (ih₂ hnd₂ hs)

theorem objOf_perm {l l' : List (String × Ty)} (hp : l.Perm l') (hnd : (l.map (·.1)).Nodup) :
    objOf l' = objOf l := by
  rw [objOf_eq, objOf_eq, propsFold_perm hp hnd keySorted_nil]

/-- the lookups in `objOf l` -/
theorem lookup_propsFold (x : String) (l : List (String × Ty)) :
    ∀ acc, Ty.lookup x (propsFold acc l) =
      match (l.reverse.find? (·.1 = x)) with
      | some kv => some kv.2
      | none => Ty.lookup x acc := by
  induction l with
  | nil => intro acc; rfl
  | cons a l ih =>
    intro acc
    show Ty.lookup x (propsFold (Ty.setProp a.1 a.2 acc) l) = _
    rw [ih, List.reverse_cons, List.find?_append]
    cases h : l.reverse.find? (·.1 = x) with
    | some kv => simp
    | none =>
      simp only [Option.none_or, lookup_setProp, List.find?_cons, List.find?_nil]
      by_cases hx : a.1 = x
      · simp [hx]
      · have hx' : ¬ x = a.1 := fun e => hx e.symm
        simp [hx, hx']

/-! ### `runCallDefaults` -/

theorem runCallDefaults_append (lower : String → String) (hdr : Header) (pre : List CallInput) :
    ∀ (acc : List (String × Ty)) (post : List CallInput),
      runCallDefaults lower hdr acc (pre ++ post) =
        runCallDefaults lower hdr acc pre ++
          runCallDefaults lower hdr (acc ++ pre.map fun x => (x.id, x.ty)) post := by
  induction pre with
  | nil => intro acc post; simp [runCallDefaults]
  | cons i pre ih =>
    intro acc post
    simp [runCallDefaults, ih, List.append_assoc]

end AL.Visit
