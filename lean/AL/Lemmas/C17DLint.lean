import AL.Lemmas.C17DRule
/-
  AL.Props.C17Doc: the glob diagnostics inside the whole-file model (`AL.Rules.rules`, `AL.Rules.lint`, `AL.ProjLint.lint`):
  every other rule reports under another kind (`KindIs`, AL.Props.C09Cron; here also rule events), the sort keeps the glob
  diagnostics in their relative order.
-/
namespace AL.C17D
open AL AL.Rules AL.Yaml AL.Ast AL.C09C

/-- a diagnostic of rule glob -/
def isGlob (d : Diag) : Bool := d.kind == "glob"

theorem filter_glob_self {l : List Diag} (h : KindIs "glob" l) : l.filter isGlob = l := by
  rw [List.filter_eq_self]
  intro d hd
  simp [isGlob, h d hd]

theorem filter_glob_other {k : String} {l : List Diag} (hk : k ≠ "glob") (h : KindIs k l) : l.filter isGlob = [] := by
  rw [List.filter_eq_nil_iff]
  intro d hd
  simp [isGlob, h d hd, hk]

theorem kind_exclusive (f i : Option Filter) (hook : String) (av : List String) : KindIs "events" (exclusiveFilters f i hook av) := by
  unfold exclusiveFilters
  split
  · split
    · exact kindIs_ite (kindIs_single rfl) kindIs_nil
    · exact kindIs_nil
  · apply kindIs_append
    · split
      · exact kindIs_ite (kindIs_single rfl) kindIs_nil
      · exact kindIs_nil
    · split
      · exact kindIs_ite (kindIs_single rfl) kindIs_nil
      · exact kindIs_nil

theorem kind_webhook (e : WebhookEvent) : KindIs "events" (checkWebhookEvent e) := by
  unfold checkWebhookEvent
  simp only []
  split
  · exact kindIs_single rfl
  · refine kindIs_append (kindIs_append (kindIs_append (kindIs_append ?_ ?_) (kind_exclusive _ _ _ _)) (kind_exclusive _ _ _ _)) (kind_exclusive _ _ _ _)
    · exact kindIs_ite (kindIs_single rfl) (kindIs_flatMap fun ty _ => kindIs_ite kindIs_nil (kindIs_single rfl))
    · exact kindIs_ite (kindIs_ite (kindIs_single rfl) kindIs_nil) (kindIs_ite (kindIs_single rfl) kindIs_nil)

theorem kind_schedule (zk : List Char → Bool) (cron : List Str) : KindIs "events" (checkScheduleEvent zk cron) := by
  unfold checkScheduleEvent
  apply kindIs_flatMap
  intro s _
  unfold cronEntry
  split
  · apply kindIs_map
    intro x
    cases x <;> rfl
  · exact kindIs_nil

theorem kind_call (lower : String → String) (isNum : String → Bool) (inputs : List CallInput) :
    KindIs "events" (checkCallEvent lower isNum inputs) := by
  unfold checkCallEvent
  apply kindIs_flatMap
  intro i _
  split
  · exact kindIs_nil
  · apply kindIs_append
    · apply kindIs_ite _ kindIs_nil
      split
      · exact kindIs_ite kindIs_nil (kindIs_single rfl)
      · exact kindIs_ite kindIs_nil (kindIs_single rfl)
      · exact kindIs_nil
    · exact kindIs_ite (kindIs_single rfl) kindIs_nil

theorem kind_dupOptions : ∀ (opts : List Str) (seen : List String), KindIs "events" (dupOptions opts seen).1
  | [], _ => by simp [dupOptions]; exact kindIs_nil
  | o :: rest, seen => by
    unfold dupOptions
    split
    · intro d hd
      simp only [List.mem_cons] at hd
      rcases hd with rfl | hd
      · rfl
      · exact kind_dupOptions rest seen d hd
    · exact kind_dupOptions rest _

theorem kind_dispatch (lower : String → String) (isNum : String → Bool) (inputs : List (String × DispatchInput)) (pos : AL.Rules.Pos) :
    KindIs "events" (checkDispatchEvent lower isNum inputs pos) := by
  unfold checkDispatchEvent
  refine kindIs_append (kindIs_flatMap ?_) (kindIs_ite (kindIs_single rfl) kindIs_nil)
  intro kv _
  simp only []
  split
  · split
    · exact kindIs_single rfl
    · apply kindIs_append
      · intro d hd
        obtain ⟨x, hx, rfl⟩ := List.mem_map.1 hd
        exact kind_dupOptions _ _ x hx
      · split
        · exact kindIs_ite kindIs_nil (kindIs_single rfl)
        · exact kindIs_nil
  · apply kindIs_append
    · exact kindIs_ite (kindIs_single rfl) kindIs_nil
    · split
      · split
        · exact kindIs_ite kindIs_nil (kindIs_single rfl)
        · exact kindIs_ite kindIs_nil (kindIs_single rfl)
        · exact kindIs_nil
      · exact kindIs_nil

theorem kind_events (lower : String → String) (isNum : String → Bool) (w : Workflow) (lc : LabelCfg) :
    KindIs "events" (ruleEvents lower isNum w lc) := by
  unfold ruleEvents
  apply kindIs_flatMap
  intro e _
  split
  · exact kind_webhook _
  · exact kind_schedule _ _
  · exact kind_dispatch _ _ _ _
  · exact kind_call _ _ _
  · exact kindIs_nil

end AL.C17D
