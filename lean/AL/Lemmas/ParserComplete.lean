import AL.Lemmas.ParserFuel
/-
  Completeness of the parser model w.r.t. the grammar relation: a sentence of level `L` followed by a
  token outside the follow set `cont L` is parsed to its tree and the parser stops right behind it.
  One claim per level, proved by recursion over the derivation (`Der.rec`), with explicit fuel bounds.
-/
namespace AL.Parse
open AL AL.Lex AL.Spec

/-- tokens that continue a sentence of the given level (one token of look-ahead) -/
def cont : Level → TokKind → Bool
  | .or, k => k = .or || k = .and || (cmpOf k).isSome || k = .dot || k = .lbracket || k = .lparen
  | .and, k => k = .and || (cmpOf k).isSome || k = .dot || k = .lbracket || k = .lparen
  | .cmp, k => (cmpOf k).isSome || k = .dot || k = .lbracket || k = .lparen
  | .unary, k => k = .dot || k = .lbracket || k = .lparen
  | .postfix, k => k = .dot || k = .lbracket || k = .lparen
  | .primary, k => k = .lparen

theorem cont_or_false {k} : cont .or k = false ↔ k ≠ .or ∧ cont .and k = false := by
  cases k <;> simp [cont, cmpOf]
theorem cont_and_false {k} : cont .and k = false ↔ k ≠ .and ∧ cont .cmp k = false := by
  cases k <;> simp [cont, cmpOf]
theorem cont_cmp_false {k} : cont .cmp k = false ↔ cmpOf k = none ∧ cont .unary k = false := by
  cases k <;> simp [cont, cmpOf]
theorem cont_unary_false {k} : cont .unary k = false ↔ k ≠ .dot ∧ k ≠ .lbracket ∧ k ≠ .lparen := by
  cases k <;> simp [cont]
theorem cont_primary_false {k} : cont .primary k = false ↔ k ≠ .lparen := by
  cases k <;> simp [cont]

/-! ### the first token of a sentence -/

def headKinds : Level → TokKind → Bool
  | .postfix, k | .primary, k => k = .ident || k = .lparen || k = .int || k = .float || k = .string
  | _, k => k = .ident || k = .lparen || k = .int || k = .float || k = .string || k = .not

def HeadOk (L : Level) (ts : List Tok) : Prop := ∃ t rest, ts = t :: rest ∧ headKinds L t.kind = true

theorem headOk_mono {L L' ts} (h : HeadOk L ts) (hl : ∀ k, headKinds L k = true → headKinds L' k = true) :
    HeadOk L' ts := by
  obtain ⟨t, rest, rfl, hk⟩ := h; exact ⟨t, rest, rfl, hl _ hk⟩

theorem headOk_append {L L' ts} (h : HeadOk L ts) (hl : ∀ k, headKinds L k = true → headKinds L' k = true)
    (more : List Tok) : HeadOk L' (ts ++ more) := by
  obtain ⟨t, rest, rfl, hk⟩ := h; exact ⟨t, rest ++ more, rfl, hl _ hk⟩

theorem der_head {L ts e} (h : Der L ts e) : HeadOk L ts := by
  refine Der.rec (motive_1 := fun L ts _ _ => HeadOk L ts) (motive_2 := fun ts _ _ => HeadOk .or ts)
    ?_ ?_ ?_ ?_ ?_ ?_ ?_ ?_ ?_ ?_ ?_ ?_ ?_ ?_ ?_ ?_ ?_ ?_ ?_ ?_ ?_ h
  · intro ts e _ ih; exact headOk_mono ih (by intro k; cases k <;> simp [headKinds])
  · intro l r o el er _ _ _ ih _; exact headOk_append ih (by intro k; cases k <;> simp [headKinds]) _
  · intro ts e _ ih; exact headOk_mono ih (by intro k; cases k <;> simp [headKinds])
  · intro l r o el er _ _ _ ih _; exact headOk_append ih (by intro k; cases k <;> simp [headKinds]) _
  · intro ts e _ ih; exact headOk_mono ih (by intro k; cases k <;> simp [headKinds])
  · intro l r o k el er _ _ _ ih _; exact headOk_append ih (by intro k; cases k <;> simp [headKinds]) _
  · intro ts e _ ih; exact headOk_mono ih (by intro k; cases k <;> simp [headKinds])
  · intro ts o e ho _ _; exact ⟨o, ts, rfl, by simp [headKinds, ho]⟩
  · intro ts e _ ih; exact headOk_mono ih (by intro k; cases k <;> simp [headKinds])
  · intro ts d i e _ _ _ ih; exact headOk_append ih (fun _ h => h) _
  · intro ts d s e _ _ _ ih; exact headOk_append ih (fun _ h => h) _
  · intro ts lb idx rb e ei _ _ _ _ ih _
    have := headOk_append ih (fun _ h => h) (lb :: idx ++ [rb])
    simpa using this
  · intro t v ht _; exact ⟨t, [], rfl, by simp [headKinds, ht]⟩
  · intro t ht _; exact ⟨t, [], rfl, by simp [headKinds, ht]⟩
  · intro t ht; exact ⟨t, [], rfl, by simp [headKinds, ht]⟩
  · intro t ht; exact ⟨t, [], rfl, by simp [headKinds, ht]⟩
  · intro t lp rp ht _ _; exact ⟨t, _, rfl, by simp [headKinds, ht]⟩
  · intro t lp rp args es ht _ _ _ _; exact ⟨t, _, rfl, by simp [headKinds, ht]⟩
  · intro lp ts rp e hl _ _ _; exact ⟨lp, _, rfl, by simp [headKinds, hl]⟩
  · intro ts e _ ih; exact ih
  · intro ts c rest e es _ _ _ ih _; exact headOk_append ih (fun _ h => h) _

theorem derArgs_head {ts es} (h : DerArgs ts es) : HeadOk .or ts := by
  cases h with
  | one h => exact der_head h
  | more h _ _ => exact headOk_append (der_head h) (fun _ h => h) _

/-! ### splitting an annotated stream along its token list -/

theorem tk_eq_append {pre : Toks} {a b : List Tok} (h : tk pre = a ++ b) :
    ∃ pa pb, pre = pa ++ pb ∧ tk pa = a ∧ tk pb = b := List.map_eq_append_iff.mp h

theorem tk_eq_cons {pre : Toks} {t : Tok} {b : List Tok} (h : tk pre = t :: b) :
    ∃ a pb, pre = a :: pb ∧ a.tok = t ∧ tk pb = b := List.map_eq_cons_iff.mp h

theorem tk_eq_nil {pre : Toks} (h : tk pre = []) : pre = [] := List.map_eq_nil_iff.mp h

/-! ### the claims -/

def CLevel (p : Nat → Toks → PRes) (c : Nat) (L : Level) (ts : List Tok) (e : Expr) : Prop :=
  ∀ pre rest, tk pre = ts → rest ≠ [] → cont L (cur rest).tok.kind = false →
    ∀ f, 6 * (pre ++ rest).length + c ≤ f → p f (pre ++ rest) = .ok (e, rest)

/-- after a postfix sentence the parser is inside the postfix loop, holding its tree -/
def CPost (ts : List Tok) (e : Expr) : Prop :=
  ∀ pre rest, tk pre = ts → rest ≠ [] → (cur rest).tok.kind ≠ .lparen →
    ∃ k, 1 ≤ k ∧ k ≤ ts.length + 1 ∧
      ∀ f, 6 * (pre ++ rest).length + 2 ≤ f → parsePostfix f (pre ++ rest) = postfixLoop (f - k) e rest

def CArgs (ts : List Tok) (es : List Expr) : Prop :=
  ∀ pre rp rest acc, tk pre = ts → rp.tok.kind = .rparen → rest ≠ [] →
    ∀ f, 6 * (pre ++ rp :: rest).length + 7 ≤ f → argsLoop f acc (pre ++ rp :: rest) = .ok (acc ++ es, rest)

def Claim (L : Level) (ts : List Tok) (e : Expr) : Prop :=
  match L with
  | .or => CLevel parseLogicalOr 6 .or ts e
  | .and => CLevel parseLogicalAnd 5 .and ts e
  | .cmp => CLevel parseCompare 4 .cmp ts e
  | .unary => CLevel parsePrefix 3 .unary ts e
  | .postfix => CPost ts e
  | .primary => CLevel parsePrimary 1 .primary ts e

theorem succ_of_le {c f : Nat} (h : c + 1 ≤ f) : ∃ f', f = f' + 1 := ⟨f - 1, by omega⟩

theorem c_orUp {ts e} (ih : CLevel parseLogicalAnd 5 .and ts e) : CLevel parseLogicalOr 6 .or ts e := by
  intro pre rest hpre hrest hcont f hf
  obtain ⟨f, rfl⟩ := succ_of_le (c := 0) (by omega : 0 + 1 ≤ f)
  have hc := cont_or_false.mp hcont
  rw [parseLogicalOr, ih pre rest hpre hrest hc.2 f (by omega)]
  simp [hc.1]

theorem c_orBin {l r o el er} (ih1 : CLevel parseLogicalAnd 5 .and l el) (ho : o.kind = .or)
    (ih2 : CLevel parseLogicalOr 6 .or r er) :
    CLevel parseLogicalOr 6 .or (l ++ o :: r) (.logical .or el er) := by
  intro pre rest hpre hrest hcont f hf
  obtain ⟨pl, pr0, rfl, rfl, h2⟩ := tk_eq_append hpre
  obtain ⟨ao, pr, rfl, rfl, rfl⟩ := tk_eq_cons h2
  obtain ⟨f, rfl⟩ := succ_of_le (c := 0) (by omega : 0 + 1 ≤ f)
  have e1 : (pl ++ ao :: pr) ++ rest = pl ++ ao :: (pr ++ rest) := by simp
  rw [e1] at hf ⊢
  simp only [List.length_append, List.length_cons] at hf
  have h1 := ih1 pl (ao :: (pr ++ rest)) rfl (by simp) (by rw [cur_cons, ho]; rfl) f
    (by simp only [List.length_append, List.length_cons]; omega)
  have h2 := ih2 pr rest rfl hrest hcont f (by simp only [List.length_append]; omega)
  rw [parseLogicalOr, h1]
  simp only [cur_cons, ho, ne_eq, not_true_eq_false, if_false]
  rw [adv_cons (by simp [hrest]), h2]

theorem c_andUp {ts e} (ih : CLevel parseCompare 4 .cmp ts e) : CLevel parseLogicalAnd 5 .and ts e := by
  intro pre rest hpre hrest hcont f hf
  obtain ⟨f, rfl⟩ := succ_of_le (c := 0) (by omega : 0 + 1 ≤ f)
  have hc := cont_and_false.mp hcont
  rw [parseLogicalAnd, ih pre rest hpre hrest hc.2 f (by omega)]
  simp [hc.1]

theorem c_andBin {l r o el er} (ih1 : CLevel parseCompare 4 .cmp l el) (ho : o.kind = .and)
    (ih2 : CLevel parseLogicalAnd 5 .and r er) :
    CLevel parseLogicalAnd 5 .and (l ++ o :: r) (.logical .and el er) := by
  intro pre rest hpre hrest hcont f hf
  obtain ⟨pl, pr0, rfl, rfl, h2⟩ := tk_eq_append hpre
  obtain ⟨ao, pr, rfl, rfl, rfl⟩ := tk_eq_cons h2
  obtain ⟨f, rfl⟩ := succ_of_le (c := 0) (by omega : 0 + 1 ≤ f)
  have e1 : (pl ++ ao :: pr) ++ rest = pl ++ ao :: (pr ++ rest) := by simp
  rw [e1] at hf ⊢
  simp only [List.length_append, List.length_cons] at hf
  have h1 := ih1 pl (ao :: (pr ++ rest)) rfl (by simp) (by rw [cur_cons, ho]; rfl) f
    (by simp only [List.length_append, List.length_cons]; omega)
  have h2 := ih2 pr rest rfl hrest hcont f (by simp only [List.length_append]; omega)
  rw [parseLogicalAnd, h1]
  simp only [cur_cons, ho, ne_eq, not_true_eq_false, if_false]
  rw [adv_cons (by simp [hrest]), h2]

theorem c_cmpUp {ts e} (ih : CLevel parsePrefix 3 .unary ts e) : CLevel parseCompare 4 .cmp ts e := by
  intro pre rest hpre hrest hcont f hf
  obtain ⟨f, rfl⟩ := succ_of_le (c := 0) (by omega : 0 + 1 ≤ f)
  have hc := cont_cmp_false.mp hcont
  rw [parseCompare, ih pre rest hpre hrest hc.2 f (by omega)]
  simp only
  split
  · rfl
  · rename_i k hk
    have hk' : cmpOf (cur rest).tok.kind = some k := hk
    rw [hc.1] at hk'; cases hk'

theorem c_cmpBin {l r o k el er} (ih1 : CLevel parsePrefix 3 .unary l el) (ho : cmpOf o.kind = some k)
    (ih2 : CLevel parseCompare 4 .cmp r er) :
    CLevel parseCompare 4 .cmp (l ++ o :: r) (.cmp k el er) := by
  intro pre rest hpre hrest hcont f hf
  obtain ⟨pl, pr0, rfl, rfl, h2⟩ := tk_eq_append hpre
  obtain ⟨ao, pr, rfl, rfl, rfl⟩ := tk_eq_cons h2
  obtain ⟨f, rfl⟩ := succ_of_le (c := 0) (by omega : 0 + 1 ≤ f)
  have e1 : (pl ++ ao :: pr) ++ rest = pl ++ ao :: (pr ++ rest) := by simp
  rw [e1] at hf ⊢
  simp only [List.length_append, List.length_cons] at hf
  have hco : cont .unary ao.tok.kind = false := by
    generalize ao.tok.kind = kk at ho; cases kk <;> simp [cmpOf] at ho <;> rfl
  have h1 := ih1 pl (ao :: (pr ++ rest)) rfl (by simp) (by rw [cur_cons]; exact hco) f
    (by simp only [List.length_append, List.length_cons]; omega)
  have h2 := ih2 pr rest rfl hrest hcont f (by simp only [List.length_append]; omega)
  rw [parseCompare, h1]
  simp only [cur_cons]
  split
  · rename_i hk
    have hk' : cmpOf ao.tok.kind = none := hk
    rw [ho] at hk'; cases hk'
  · rename_i k' hk
    have hk' : cmpOf ao.tok.kind = some k' := hk
    rw [ho] at hk'; cases hk'
    rw [adv_cons (by simp [hrest]), h2]

theorem c_unaryNot {ts o e} (ho : o.kind = .not) (ih : CLevel parsePrefix 3 .unary ts e) :
    CLevel parsePrefix 3 .unary (o :: ts) (.not e) := by
  intro pre rest hpre hrest hcont f hf
  obtain ⟨ao, pr, rfl, rfl, rfl⟩ := tk_eq_cons hpre
  obtain ⟨f, rfl⟩ := succ_of_le (c := 0) (by omega : 0 + 1 ≤ f)
  simp only [List.cons_append, List.length_append, List.length_cons] at hf ⊢
  have h2 := ih pr rest rfl hrest hcont f (by simp only [List.length_append]; omega)
  rw [parsePrefix]
  simp only [cur_cons, ho, ne_eq, not_true_eq_false, if_false]
  rw [adv_cons (by simp [hrest]), h2]

/-- leaving the postfix loop -/
theorem loop_exit {f ret rest} (h : cont .postfix (cur rest).tok.kind = false) :
    postfixLoop (f + 1) ret rest = .ok (ret, rest) := by
  have hc := cont_unary_false.mp h
  rw [postfixLoop]
  split
  · rename_i hk; exact absurd hk hc.1
  · rename_i hk; exact absurd hk hc.2.1
  · rfl

theorem c_unaryUp {ts e} (hd : Der .postfix ts e) (ih : CPost ts e) : CLevel parsePrefix 3 .unary ts e := by
  intro pre rest hpre hrest hcont f hf
  obtain ⟨f, rfl⟩ := succ_of_le (c := 0) (by omega : 0 + 1 ≤ f)
  have hc := cont_unary_false.mp hcont
  obtain ⟨k, hk1, hk2, hk⟩ := ih pre rest hpre hrest hc.2.2
  obtain ⟨t, r, rfl, hh⟩ := der_head hd
  obtain ⟨a, pr, rfl, rfl, rfl⟩ := tk_eq_cons hpre
  have hnot : a.tok.kind ≠ .not := by
    intro h0; rw [h0] at hh; simp [headKinds] at hh
  rw [parsePrefix]
  simp only [List.cons_append, cur_cons, ne_eq, hnot, not_false_eq_true, if_true]
  have := hk f (by simp only [List.cons_append, List.length_append, List.length_cons] at hf ⊢; omega)
  simp only [List.cons_append] at this
  rw [this]
  simp only [List.length_cons, List.length_map, List.cons_append, List.length_append] at hk2 hf
  obtain ⟨g, hg⟩ : ∃ g, f - k = g + 1 := ⟨f - k - 1, by omega⟩
  rw [hg]; exact loop_exit hcont

theorem c_postUp {ts e} (ih : CLevel parsePrimary 1 .primary ts e) : CPost ts e := by
  intro pre rest hpre hrest hcont
  refine ⟨1, by omega, by omega, ?_⟩
  intro f hf
  obtain ⟨f, rfl⟩ := succ_of_le (c := 0) (by omega : 0 + 1 ≤ f)
  rw [parsePostfix, ih pre rest hpre hrest (cont_primary_false.mpr hcont) f (by omega)]
  rfl

theorem c_postProp {ts d i e} (ih : CPost ts e) (hd : d.kind = .dot) (hi : i.kind = .ident) :
    CPost (ts ++ [d, i]) (.objDeref e i.val) := by
  intro pre rest hpre hrest hcont
  obtain ⟨p, s, rfl, rfl, h2⟩ := tk_eq_append hpre
  obtain ⟨ad, s1, rfl, rfl, h3⟩ := tk_eq_cons h2
  obtain ⟨ai, s2, rfl, rfl, h4⟩ := tk_eq_cons h3
  have := tk_eq_nil h4; subst this
  obtain ⟨k, hk1, hk2, hk⟩ := ih p (ad :: ai :: rest) rfl (by simp) (by rw [cur_cons, hd]; decide)
  refine ⟨k + 1, by omega, by simp only [List.length_append, List.length_cons, List.length_nil]; omega, ?_⟩
  intro f hf
  have e1 : (p ++ [ad, ai]) ++ rest = p ++ ad :: ai :: rest := by simp
  rw [e1] at hf ⊢
  rw [hk f hf]
  simp only [List.length_append, List.length_cons, List.length_map] at hf hk2
  obtain ⟨g, hg⟩ : ∃ g, f - k = g + 1 := ⟨f - k - 1, by omega⟩
  have hg' : f - (k + 1) = g := by omega
  rw [hg, hg', postfixLoop]
  simp only [cur_cons, hd, adv_cons (rest := ai :: rest) (by simp), hi, adv_cons hrest]

theorem c_postStar {ts d s e} (ih : CPost ts e) (hd : d.kind = .dot) (hs : s.kind = .star) :
    CPost (ts ++ [d, s]) (.arrDeref e) := by
  intro pre rest hpre hrest hcont
  obtain ⟨p, s0, rfl, rfl, h2⟩ := tk_eq_append hpre
  obtain ⟨ad, s1, rfl, rfl, h3⟩ := tk_eq_cons h2
  obtain ⟨ai, s2, rfl, rfl, h4⟩ := tk_eq_cons h3
  have := tk_eq_nil h4; subst this
  obtain ⟨k, hk1, hk2, hk⟩ := ih p (ad :: ai :: rest) rfl (by simp) (by rw [cur_cons, hd]; decide)
  refine ⟨k + 1, by omega, by simp only [List.length_append, List.length_cons, List.length_nil]; omega, ?_⟩
  intro f hf
  have e1 : (p ++ [ad, ai]) ++ rest = p ++ ad :: ai :: rest := by simp
  rw [e1] at hf ⊢
  rw [hk f hf]
  simp only [List.length_append, List.length_cons, List.length_map] at hf hk2
  obtain ⟨g, hg⟩ : ∃ g, f - k = g + 1 := ⟨f - k - 1, by omega⟩
  have hg' : f - (k + 1) = g := by omega
  rw [hg, hg', postfixLoop]
  simp only [cur_cons, hd, adv_cons (rest := ai :: rest) (by simp), hs, adv_cons hrest]

theorem c_postIndex {ts lb idx rb e ei} (ih : CPost ts e) (hl : lb.kind = .lbracket)
    (ih2 : CLevel parseLogicalOr 6 .or idx ei) (hr : rb.kind = .rbracket) :
    CPost (ts ++ lb :: idx ++ [rb]) (.index e ei) := by
  intro pre rest hpre hrest hcont
  have e0 : ts ++ lb :: idx ++ [rb] = ts ++ lb :: (idx ++ [rb]) := by simp
  rw [e0] at hpre ⊢
  obtain ⟨p, s, rfl, rfl, h2⟩ := tk_eq_append hpre
  obtain ⟨alb, s1, rfl, rfl, h3⟩ := tk_eq_cons h2
  obtain ⟨pidx, s2, rfl, rfl, h4⟩ := tk_eq_append h3
  obtain ⟨arb, s3, rfl, rfl, h5⟩ := tk_eq_cons h4
  have := tk_eq_nil h5; subst this
  obtain ⟨k, hk1, hk2, hk⟩ := ih p (alb :: (pidx ++ arb :: rest)) rfl (by simp) (by rw [cur_cons, hl]; decide)
  refine ⟨k + 1, by omega, by simp only [List.length_append, List.length_cons, List.length_nil]; omega, ?_⟩
  intro f hf
  have e1 : (p ++ alb :: (pidx ++ [arb])) ++ rest = p ++ alb :: (pidx ++ arb :: rest) := by simp
  rw [e1] at hf ⊢
  rw [hk f hf]
  simp only [List.length_append, List.length_cons, List.length_map] at hf hk2
  obtain ⟨g, hg⟩ : ∃ g, f - k = g + 1 := ⟨f - k - 1, by omega⟩
  have hg' : f - (k + 1) = g := by omega
  have h1 := ih2 pidx (arb :: rest) rfl (by simp) (by rw [cur_cons, hr]; rfl) g
    (by simp only [List.length_append, List.length_cons]; omega)
  rw [hg, hg', postfixLoop]
  simp only [cur_cons, hl, adv_cons (rest := pidx ++ arb :: rest) (by simp), h1, hr, ne_eq, not_true_eq_false,
    if_false, adv_cons hrest]

theorem c_primInt {t v} (ht : t.kind = .int) (hv : parseIntLit t.val = some v) :
    CLevel parsePrimary 1 .primary [t] (.int v) := by
  intro pre rest hpre hrest hcont f hf
  obtain ⟨a, s, rfl, rfl, h2⟩ := tk_eq_cons hpre
  have := tk_eq_nil h2; subst this
  obtain ⟨f, rfl⟩ := succ_of_le (c := 0) (by omega : 0 + 1 ≤ f)
  rw [parsePrimary]
  simp only [List.cons_append, List.nil_append, cur_cons, ht, hv, adv_cons hrest]

theorem c_primFloat {t} (ht : t.kind = .float) (hv : floatOverflows t.val = false) :
    CLevel parsePrimary 1 .primary [t] (.float t.val) := by
  intro pre rest hpre hrest hcont f hf
  obtain ⟨a, s, rfl, rfl, h2⟩ := tk_eq_cons hpre
  have := tk_eq_nil h2; subst this
  obtain ⟨f, rfl⟩ := succ_of_le (c := 0) (by omega : 0 + 1 ≤ f)
  rw [parsePrimary]
  simp [cur_cons, ht, hv, adv_cons hrest]

theorem c_primStr {t} (ht : t.kind = .string) :
    CLevel parsePrimary 1 .primary [t] (.str (strValue ((t.val.drop 1).dropLast))) := by
  intro pre rest hpre hrest hcont f hf
  obtain ⟨a, s, rfl, rfl, h2⟩ := tk_eq_cons hpre
  have := tk_eq_nil h2; subst this
  obtain ⟨f, rfl⟩ := succ_of_le (c := 0) (by omega : 0 + 1 ≤ f)
  rw [parsePrimary]
  simp only [List.cons_append, List.nil_append, cur_cons, ht, adv_cons hrest, unescape_eq_strValue]

theorem c_primIdent {t} (ht : t.kind = .ident) :
    CLevel parsePrimary 1 .primary [t] (keywordOrVar t.val) := by
  intro pre rest hpre hrest hcont f hf
  obtain ⟨a, s, rfl, rfl, h2⟩ := tk_eq_cons hpre
  have := tk_eq_nil h2; subst this
  obtain ⟨f, rfl⟩ := succ_of_le (c := 0) (by omega : 0 + 1 ≤ f)
  have hc := cont_primary_false.mp hcont
  rw [parsePrimary]
  simp only [List.cons_append, List.nil_append, cur_cons, ht, adv_cons hrest, hc, if_false, keyword_eq]

theorem c_primCall0 {t lp rp} (ht : t.kind = .ident) (hl : lp.kind = .lparen) (hr : rp.kind = .rparen) :
    CLevel parsePrimary 1 .primary [t, lp, rp] (.call t.val []) := by
  intro pre rest hpre hrest hcont f hf
  obtain ⟨a, s, rfl, rfl, h2⟩ := tk_eq_cons hpre
  obtain ⟨alp, s1, rfl, rfl, h3⟩ := tk_eq_cons h2
  obtain ⟨arp, s2, rfl, rfl, h4⟩ := tk_eq_cons h3
  have := tk_eq_nil h4; subst this
  obtain ⟨f, rfl⟩ := succ_of_le (c := 0) (by omega : 0 + 1 ≤ f)
  rw [parsePrimary]
  simp only [List.cons_append, List.nil_append, cur_cons, ht, adv_cons (rest := alp :: arp :: rest) (by simp), hl,
    adv_cons (rest := arp :: rest) (by simp), hr, adv_cons hrest, if_true]

theorem c_primCall {t lp rp args es} (ht : t.kind = .ident) (hl : lp.kind = .lparen) (hd : DerArgs args es)
    (ih : CArgs args es) (hr : rp.kind = .rparen) :
    CLevel parsePrimary 1 .primary (t :: lp :: args ++ [rp]) (.call t.val es) := by
  intro pre rest hpre hrest hcont f hf
  have e0 : t :: lp :: args ++ [rp] = t :: lp :: (args ++ [rp]) := by simp
  rw [e0] at hpre
  obtain ⟨a, s, rfl, rfl, h2⟩ := tk_eq_cons hpre
  obtain ⟨alp, s1, rfl, rfl, h3⟩ := tk_eq_cons h2
  obtain ⟨pargs, s2, rfl, rfl, h4⟩ := tk_eq_append h3
  obtain ⟨arp, s3, rfl, rfl, h5⟩ := tk_eq_cons h4
  have := tk_eq_nil h5; subst this
  obtain ⟨f, rfl⟩ := succ_of_le (c := 0) (by omega : 0 + 1 ≤ f)
  have e1 : (a :: alp :: (pargs ++ [arp])) ++ rest = a :: alp :: (pargs ++ arp :: rest) := by simp
  rw [e1] at hf ⊢
  simp only [List.length_append, List.length_cons] at hf
  -- the first argument does not start with `)`
  obtain ⟨h0, r0, hh, hk0⟩ := derArgs_head hd
  obtain ⟨a0, pr0, rfl, rfl, _⟩ := tk_eq_cons hh
  have hnr : a0.tok.kind ≠ .rparen := by
    intro h0; rw [h0] at hk0; simp [headKinds] at hk0
  have h1 := ih (a0 :: pr0) arp rest [] rfl hr hrest f
    (by simp only [List.length_append, List.length_cons] at hf ⊢; omega)
  rw [parsePrimary]
  simp only [List.cons_append] at h1 ⊢
  simp only [cur_cons, ht, adv_cons2, hl, hnr, if_true, if_false]
  rw [h1]; rfl

theorem c_primParen {lp ts rp e} (hl : lp.kind = .lparen) (ih : CLevel parseLogicalOr 6 .or ts e)
    (hr : rp.kind = .rparen) : CLevel parsePrimary 1 .primary (lp :: ts ++ [rp]) e := by
  intro pre rest hpre hrest hcont f hf
  have e0 : lp :: ts ++ [rp] = lp :: (ts ++ [rp]) := by simp
  rw [e0] at hpre
  obtain ⟨alp, s1, rfl, rfl, h3⟩ := tk_eq_cons hpre
  obtain ⟨pts, s2, rfl, rfl, h4⟩ := tk_eq_append h3
  obtain ⟨arp, s3, rfl, rfl, h5⟩ := tk_eq_cons h4
  have := tk_eq_nil h5; subst this
  obtain ⟨f, rfl⟩ := succ_of_le (c := 0) (by omega : 0 + 1 ≤ f)
  have e1 : (alp :: (pts ++ [arp])) ++ rest = alp :: (pts ++ arp :: rest) := by simp
  rw [e1] at hf ⊢
  simp only [List.length_append, List.length_cons] at hf
  have h1 := ih pts (arp :: rest) rfl (by simp) (by rw [cur_cons, hr]; rfl) f
    (by simp only [List.length_append, List.length_cons]; omega)
  rw [parsePrimary]
  simp only [cur_cons, hl, adv_cons (rest := pts ++ arp :: rest) (by simp), h1, hr, adv_cons hrest, if_true]

theorem c_argsOne {ts e} (ih : CLevel parseLogicalOr 6 .or ts e) : CArgs ts [e] := by
  intro pre rp rest acc hpre hr hrest f hf
  obtain ⟨f, rfl⟩ := succ_of_le (c := 0) (by omega : 0 + 1 ≤ f)
  have h1 := ih pre (rp :: rest) hpre (by simp) (by rw [cur_cons, hr]; rfl) f (by omega)
  rw [argsLoop, h1]
  simp only [cur_cons, hr, adv_cons hrest]

theorem c_argsMore {ts c rest' e es} (ih : CLevel parseLogicalOr 6 .or ts e) (hc : c.kind = .comma)
    (ih2 : CArgs rest' es) : CArgs (ts ++ c :: rest') (e :: es) := by
  intro pre rp rest acc hpre hr hrest f hf
  obtain ⟨p1, s, rfl, rfl, h2⟩ := tk_eq_append hpre
  obtain ⟨ac, p2, rfl, rfl, rfl⟩ := tk_eq_cons h2
  obtain ⟨f, rfl⟩ := succ_of_le (c := 0) (by omega : 0 + 1 ≤ f)
  have e1 : (p1 ++ ac :: p2) ++ rp :: rest = p1 ++ ac :: (p2 ++ rp :: rest) := by simp
  rw [e1] at hf ⊢
  simp only [List.length_append, List.length_cons] at hf
  have h1 := ih p1 (ac :: (p2 ++ rp :: rest)) rfl (by simp) (by rw [cur_cons, hc]; rfl) f
    (by simp only [List.length_append, List.length_cons]; omega)
  have h3 := ih2 p2 rp rest (acc ++ [e]) rfl hr hrest f
    (by simp only [List.length_append, List.length_cons]; omega)
  rw [argsLoop, h1]
  simp only [cur_cons, hc, adv_cons (rest := p2 ++ rp :: rest) (by simp), h3, List.append_assoc, List.cons_append,
    List.nil_append]

theorem complete_all {L ts e} (h : Der L ts e) : Claim L ts e := by
  refine Der.rec (motive_1 := fun L ts e _ => Claim L ts e) (motive_2 := fun ts es _ => CArgs ts es)
    ?_ ?_ ?_ ?_ ?_ ?_ ?_ ?_ ?_ ?_ ?_ ?_ ?_ ?_ ?_ ?_ ?_ ?_ ?_ ?_ ?_ h
  · intro ts e _ ih; exact c_orUp ih
  · intro l r o el er _ ho _ ih1 ih2; exact c_orBin ih1 ho ih2
  · intro ts e _ ih; exact c_andUp ih
  · intro l r o el er _ ho _ ih1 ih2; exact c_andBin ih1 ho ih2
  · intro ts e _ ih; exact c_cmpUp ih
  · intro l r o k el er _ ho _ ih1 ih2; exact c_cmpBin ih1 ho ih2
  · intro ts e hd ih; exact c_unaryUp hd ih
  · intro ts o e ho _ ih; exact c_unaryNot ho ih
  · intro ts e _ ih; exact c_postUp ih
  · intro ts d i e _ hd hi ih; exact c_postProp ih hd hi
  · intro ts d s e _ hd hs ih; exact c_postStar ih hd hs
  · intro ts lb idx rb e ei _ hl _ hr ih ih2; exact c_postIndex ih hl ih2 hr
  · intro t v ht hv; exact c_primInt ht hv
  · intro t ht hv; exact c_primFloat ht hv
  · intro t ht; exact c_primStr ht
  · intro t ht; exact c_primIdent ht
  · intro t lp rp ht hl hr; exact c_primCall0 ht hl hr
  · intro t lp rp args es ht hl hd hr ih; exact c_primCall ht hl hd ih hr
  · intro lp ts rp e hl _ hr ih; exact c_primParen hl ih hr
  · intro ts e _ ih; exact c_argsOne ih
  · intro ts c rest e es _ hc _ ih ih2; exact c_argsMore ih hc ih2

/-- completeness at the top level, with the explicit fuel bound -/
theorem complete_or {ts e} (h : Der .or ts e) {pre rest : Toks} (hpre : tk pre = ts) (hrest : rest ≠ [])
    (hcont : cont .or (cur rest).tok.kind = false) {f : Nat} (hf : 6 * (pre ++ rest).length + 6 ≤ f) :
    parseLogicalOr f (pre ++ rest) = .ok (e, rest) :=
  complete_all h pre rest hpre hrest hcont f hf

end AL.Parse
