import AL.Props.C13Doc3
import AL.Props.C08Parse
/-
  C08 at the level of the DOCUMENT, base: the relation "the same node tree but for the letter case of the KEYS of one
  mapping" (`KeyRecased`), what the key loop of `parseMapping` makes of two such mappings (`parseMapping_alike`), and the
  two loops of the section parsers over two lists of key/value pairs that differ in the spelling of the keys only
  (`mapKVs_sim`, `loop_sim`).

  Names are compared through a FOLD `f : String → String` (`cfg.lower` itself, or something finer such as the ASCII
  folding when the name is also read as written, e.g. by the naming convention of ids): two spellings are the same
  name when their folds are equal and both or neither is empty (`SameName`).
-/
namespace AL.C08D
open AL.PW AL.Yaml AL.Ast AL.C13P

/-- site and code of a parser diagnostic: what does not echo a spelling -/
def psig (e : PErr) : Yaml.Pos × String := (e.pos, e.code)

/-- the same sites and codes, in the same order -/
def SameSites (es es' : List PErr) : Prop := es.map psig = es'.map psig

theorem SameSites.rfl' {es : List PErr} : SameSites es es := rfl

theorem SameSites.symm {a b : List PErr} (h : SameSites a b) : SameSites b a := Eq.symm h

theorem SameSites.trans {a b c : List PErr} (h : SameSites a b) (h' : SameSites b c) : SameSites a c := Eq.trans h h'

theorem SameSites.append {a a' b b' : List PErr} (h : SameSites a a') (h' : SameSites b b') : SameSites (a ++ b) (a' ++ b') := by
  simp only [SameSites, List.map_append] at *
  rw [h, h']

theorem SameSites.of_eq {a b : List PErr} (h : a = b) : SameSites a b := by rw [h]; rfl

theorem SameSites.one (p : Yaml.Pos) (code : String) (a b : List String) : SameSites [⟨p, code, a⟩] [⟨p, code, b⟩] := rfl

theorem SameSites.length {a b : List PErr} (h : SameSites a b) : a.length = b.length := by
  have := congrArg List.length h
  simpa using this

/-- a result and its diagnostics, compared after the normalisation `N` of the result -/
def Sim {α α' : Type} (N : α → α') (r r' : R α) : Prop := N r.1 = N r'.1 ∧ SameSites r.2 r'.2

theorem Sim.rfl' {α α' : Type} {N : α → α'} {r : R α} : Sim N r r := ⟨rfl, rfl⟩

theorem Sim.symm {α α' : Type} {N : α → α'} {r r' : R α} (h : Sim N r r') : Sim N r' r := ⟨h.1.symm, h.2.symm⟩

theorem Sim.trans {α α' : Type} {N : α → α'} {a b c : R α} (h : Sim N a b) (h' : Sim N b c) : Sim N a c :=
  ⟨h.1.trans h'.1, h.2.trans h'.2⟩

/-! ### names -/

/-- two spellings of the same name -/
structure SameName (f : String → String) (a b : String) : Prop where
  fold : f a = f b
  empty : a = "" ↔ b = ""

theorem SameName.rfl' {f : String → String} {a : String} : SameName f a a := ⟨rfl, Iff.rfl⟩

theorem SameName.symm {f : String → String} {a b : String} (h : SameName f a b) : SameName f b a := ⟨h.fold.symm, h.empty.symm⟩

/-- the scalar string with its text folded -/
def nStr (f : String → String) (s : Str) : Str := ⟨f s.value, s.quoted, s.pos⟩

/-- an entry of `parseMapping`'s result with the text of its key folded -/
def nKV (f : String → String) (kv : KV) : KV := ⟨kv.id, nStr f kv.key, kv.val⟩

theorem nKV_eq {f : String → String} {a b : KV} (h : nKV f a = nKV f b) :
    a.id = b.id ∧ nStr f a.key = nStr f b.key ∧ a.val = b.val := by
  obtain ⟨i, k, v⟩ := a
  obtain ⟨i', k', v'⟩ := b
  simp only [nKV, KV.mk.injEq] at h
  exact h

theorem nStr_eq {f : String → String} {a b : Str} (h : nStr f a = nStr f b) : f a.value = f b.value ∧ a.quoted = b.quoted ∧ a.pos = b.pos := by
  simpa [nStr] using h

/-! ### node trees -/

/-- the node with another text -/
def setValue : Node → String → Node
  | .mk k t _ q l c cs, v => .mk k t v q l c cs

@[simp] theorem setValue_kind (n : Node) (v : String) : (setValue n v).kind = n.kind := by cases n; rfl
@[simp] theorem setValue_tag (n : Node) (v : String) : (setValue n v).tag = n.tag := by cases n; rfl
@[simp] theorem setValue_value (n : Node) (v : String) : (setValue n v).value = v := by cases n; rfl
@[simp] theorem setValue_quoted (n : Node) (v : String) : (setValue n v).quoted = n.quoted := by cases n; rfl
@[simp] theorem setValue_pos (n : Node) (v : String) : (setValue n v).pos = n.pos := by cases n; rfl
@[simp] theorem setValue_content (n : Node) (v : String) : (setValue n v).content = n.content := by cases n; rfl
theorem setValue_self (n : Node) : setValue n n.value = n := by cases n; rfl

/-- two key nodes: everything equal but the text, which spells the same name -/
def KeyAlike (f : String → String) (k k' : Node) : Prop := ∃ v, k' = setValue k v ∧ SameName f k.value v

theorem KeyAlike.rfl' {f : String → String} {k : Node} : KeyAlike f k k := ⟨k.value, (setValue_self k).symm, SameName.rfl'⟩

/-- the pairs of two mappings: the same values under keys that are alike -/
inductive PairsAlike (f : String → String) : List (Node × Node) → List (Node × Node) → Prop
  | nil : PairsAlike f [] []
  | cons {k k' v : Node} {ps ps' : List (Node × Node)} : KeyAlike f k k' → PairsAlike f ps ps' → PairsAlike f ((k, v) :: ps) ((k', v) :: ps')

theorem PairsAlike.rfl' {f : String → String} : ∀ {ps : List (Node × Node)}, PairsAlike f ps ps
  | [] => .nil
  | (_, _) :: _ => .cons KeyAlike.rfl' PairsAlike.rfl'

/-- one key re-spelled -/
theorem PairsAlike.one {f : String → String} {k k' : Node} (h : KeyAlike f k k') (v : Node) (post : List (Node × Node)) :
    ∀ pre : List (Node × Node), PairsAlike f (pre ++ (k, v) :: post) (pre ++ (k', v) :: post)
  | [] => .cons h PairsAlike.rfl'
  | (_, _) :: rest => .cons KeyAlike.rfl' (PairsAlike.one h v post rest)

/-- **`KeyRecased f n n'`**: the same node — kind, tag, text, position, and under a mapping the same values at the same
places — except that the KEY scalars of the mapping may be spelled differently, each still spelling the same name -/
structure KeyRecased (f : String → String) (n n' : Node) : Prop where
  kind : n'.kind = n.kind
  tag : n'.tag = n.tag
  value : n'.value = n.value
  quoted : n'.quoted = n.quoted
  pos : n'.pos = n.pos
  pairs : PairsAlike f (pairs n.content) (pairs n'.content)

theorem KeyRecased.rfl' {f : String → String} {n : Node} : KeyRecased f n n := ⟨rfl, rfl, rfl, rfl, rfl, PairsAlike.rfl'⟩

/-- a mapping node with one key re-spelled -/
theorem KeyRecased.of_key {f : String → String} {k k' : Node} (h : KeyAlike f k k') (tag : String) (l c : Nat)
    (pre post : List (Node × Node)) (v : Node) :
    KeyRecased f (mapNode tag l c (pre ++ (k, v) :: post)) (mapNode tag l c (pre ++ (k', v) :: post)) :=
  ⟨rfl, rfl, rfl, rfl, rfl, by
    show PairsAlike f (Yaml.pairs (flatten _)) (Yaml.pairs (flatten _))
    simpa using PairsAlike.one h v post pre⟩

theorem KeyRecased.of_pairs {f : String → String} (tag : String) (l c : Nat) {ps ps' : List (Node × Node)} (h : PairsAlike f ps ps') :
    KeyRecased f (mapNode tag l c ps) (mapNode tag l c ps') :=
  ⟨rfl, rfl, rfl, rfl, rfl, by
    show PairsAlike f (Yaml.pairs (flatten _)) (Yaml.pairs (flatten _))
    simpa using h⟩

/-! ### the key as `parseMapping` reads it -/

theorem KeyAlike.errs {f : String → String} {k k' : Node} (h : KeyAlike f k k') : (parseString k' false).2 = (parseString k false).2 := by
  obtain ⟨v, rfl, hn⟩ := h
  have he := hn.empty
  simp only [parseString, checkString, setValue_kind, setValue_value, setValue_tag, errAt, setValue_pos]
  by_cases hk : k.kind = .scalar
  · by_cases hv : k.value = ""
    · have hv' : v = "" := he.1 hv
      simp [hk, hv, hv']
    · have hv' : ¬ v = "" := fun e => hv (he.2 e)
      simp [hk, hv, hv']
  · simp [hk]

theorem KeyAlike.str {f : String → String} {k k' : Node} (h : KeyAlike f k k') :
    nStr f (parseString k' false).1 = nStr f (parseString k false).1 := by
  obtain ⟨v, rfl, hn⟩ := h
  have he := hn.empty
  have hf := hn.fold
  simp only [parseString, checkString, setValue_kind, setValue_value, setValue_tag, errAt, setValue_pos]
  by_cases hk : k.kind = .scalar
  · by_cases hv : k.value = ""
    · have hv' : v = "" := he.1 hv
      simp [hk, hv, hv']
    · have hv' : ¬ v = "" := fun e => hv (he.2 e)
      simp [hk, hv, hv', nStr, newString, hf]
  · simp [hk]

theorem KeyAlike.strPos {f : String → String} {k k' : Node} (h : KeyAlike f k k') :
    (parseString k' false).1.pos = (parseString k false).1.pos := (nStr_eq h.str).2.2

theorem KeyAlike.keyId {f : String → String} {k k' : Node} (h : KeyAlike f k k') (cfg : Cfg)
    (hf : ∀ a b, f a = f b → cfg.lower a = cfg.lower b) : keyId cfg false k' = keyId cfg false k := by
  simp only [AL.PW.keyId, Bool.false_eq_true, if_false]
  exact hf _ _ (nStr_eq h.str).1

/-! ### `mappingLoop` / `parseMapping` on two mappings that are alike -/

theorem mappingLoop_alike (cfg : Cfg) (f : String → String) (hf : ∀ a b, f a = f b → cfg.lower a = cfg.lower b) (what what' : String) :
    ∀ (ps ps' : List (Node × Node)), PairsAlike f ps ps' → ∀ seen : List (String × Yaml.Pos),
      (mappingLoop cfg what false ps seen).1.map (nKV f) = (mappingLoop cfg what' false ps' seen).1.map (nKV f) ∧
      SameSites (mappingLoop cfg what false ps seen).2 (mappingLoop cfg what' false ps' seen).2 := by
  intro ps ps' h
  induction h with
  | nil => intro seen; exact ⟨rfl, rfl⟩
  | @cons k k' v ps ps' hk _ ih =>
    intro seen
    rw [mappingLoop_cons, mappingLoop_cons, hk.keyId cfg hf, hk.errs, hk.strPos]
    cases lookupSeen (keyId cfg false k) seen with
    | some pos =>
      simp only
      obtain ⟨i1, i2⟩ := ih seen
      exact ⟨i1, (SameSites.append (SameSites.append SameSites.rfl' (SameSites.one _ _ _ _)) i2)⟩
    | none =>
      simp only
      obtain ⟨i1, i2⟩ := ih (seen ++ [(keyId cfg false k, (parseString k false).1.pos)])
      refine ⟨?_, SameSites.append SameSites.rfl' i2⟩
      simp only [List.map_cons, i1, nKV, hk.str]

/-- the same mapping described differently in the messages (`what`) -/
theorem mappingLoop_what (cfg : Cfg) (what what' : String) (cs : Bool) :
    ∀ (ps : List (Node × Node)) (seen : List (String × Yaml.Pos)),
      (mappingLoop cfg what cs ps seen).1 = (mappingLoop cfg what' cs ps seen).1 ∧
      SameSites (mappingLoop cfg what cs ps seen).2 (mappingLoop cfg what' cs ps seen).2
  | [], _ => ⟨rfl, rfl⟩
  | (k, v) :: ps, seen => by
    rw [mappingLoop_cons, mappingLoop_cons]
    cases lookupSeen (keyId cfg cs k) seen with
    | some pos =>
      simp only
      obtain ⟨i1, i2⟩ := mappingLoop_what cfg what what' cs ps seen
      exact ⟨i1, (SameSites.append (SameSites.append SameSites.rfl' (SameSites.one _ _ _ _)) i2)⟩
    | none =>
      simp only
      obtain ⟨i1, i2⟩ := mappingLoop_what cfg what what' cs ps (seen ++ [(keyId cfg cs k, (parseString k false).1.pos)])
      exact ⟨by rw [i1], SameSites.append SameSites.rfl' i2⟩

theorem map_isEmpty {α β : Type} {l l' : List α} (g : α → β) (h : l.map g = l'.map g) : l.isEmpty = l'.isEmpty := by
  cases l <;> cases l' <;> simp_all

/-- **`parseMapping` on a case-insensitive mapping whose keys are re-spelled**: the same entries (ids, positions, values) but for
the spelling of the keys; the same sites and codes -/
theorem parseMapping_alike (cfg : Cfg) (f : String → String) (hf : ∀ a b, f a = f b → cfg.lower a = cfg.lower b) (what what' : String)
    (n n' : Node) (ae : Bool) (h : KeyRecased f n n') :
    (parseMapping cfg what n ae false).1.map (nKV f) = (parseMapping cfg what' n' ae false).1.map (nKV f) ∧
    SameSites (parseMapping cfg what n ae false).2 (parseMapping cfg what' n' ae false).2 := by
  obtain ⟨i1, i2⟩ := mappingLoop_alike cfg f hf what what' _ _ h.pairs []
  have hemp := map_isEmpty _ i1
  have e2 : n'.isNull = n.isNull := by simp only [Node.isNull, h.kind, h.tag]
  simp only [parseMapping, e2, h.kind, errAt, h.pos]
  by_cases c1 : (!n.isNull && decide (n.kind ≠ Kind.mapping)) = true
  · rw [if_pos c1, if_pos c1]; exact ⟨rfl, SameSites.one _ _ _ _⟩
  · rw [if_neg c1, if_neg c1]
    by_cases c2 : (!ae && n.isNull) = true
    · rw [if_pos c2, if_pos c2]; exact ⟨rfl, SameSites.one _ _ _ _⟩
    · rw [if_neg c2, if_neg c2]
      refine ⟨i1, SameSites.append i2 ?_⟩
      rw [hemp]
      split
      · exact SameSites.one _ _ _ _
      · rfl

/-- a mapping (case-sensitive or not) described differently in the messages -/
theorem parseMapping_what (cfg : Cfg) (what what' : String) (n : Node) (ae cs : Bool) :
    (parseMapping cfg what n ae cs).1 = (parseMapping cfg what' n ae cs).1 ∧
    SameSites (parseMapping cfg what n ae cs).2 (parseMapping cfg what' n ae cs).2 := by
  obtain ⟨i1, i2⟩ := mappingLoop_what cfg what what' cs (pairs n.content) []
  simp only [parseMapping]
  split
  · exact ⟨rfl, SameSites.one _ _ _ _⟩
  · split
    · exact ⟨rfl, SameSites.one _ _ _ _⟩
    · refine ⟨i1, SameSites.append i2 ?_⟩
      rw [i1]
      split
      · exact SameSites.one _ _ _ _
      · rfl

/-! ### the loops over the entries -/

/-- a Go map of the AST, values normalised -/
def nAssoc {β β' : Type} (N : β → β') (l : List (String × β)) : List (String × β') := l.map fun p => (p.1, N p.2)

@[simp] theorem nAssoc_nil {β β' : Type} (N : β → β') : nAssoc N [] = [] := rfl
@[simp] theorem nAssoc_cons {β β' : Type} (N : β → β') (p : String × β) (l : List (String × β)) :
    nAssoc N (p :: l) = (p.1, N p.2) :: nAssoc N l := rfl
@[simp] theorem nAssoc_append {β β' : Type} (N : β → β') (a b : List (String × β)) : nAssoc N (a ++ b) = nAssoc N a ++ nAssoc N b := by
  simp [nAssoc]

/-- an entry made of its key and what a parser makes of its value -/
theorem named_sim {β γ β' : Type} (f : String → String) (mk : Str → γ → β) (val : Node → R γ) (N : β → β')
    (hN : ∀ k k' x, nStr f k = nStr f k' → N (mk k x) = N (mk k' x)) {kv kv' : KV} (hk : nKV f kv = nKV f kv') :
    Sim N (let v := val kv.val; (mk kv.key v.1, v.2)) (let v := val kv'.val; (mk kv'.key v.1, v.2)) := by
  obtain ⟨i, k, v⟩ := kv
  obtain ⟨i', k', v'⟩ := kv'
  simp only [nKV, KV.mk.injEq] at hk
  obtain ⟨_, hk2, rfl⟩ := hk
  exact ⟨hN _ _ _ hk2, rfl⟩

/-- `ret[kv.id] = g(kv)` over two lists of entries that are alike -/
theorem mapKVs_sim {β β' : Type} (f : String → String) (g g' : KV → R β) (N : β → β')
    (hg : ∀ kv kv', nKV f kv = nKV f kv' → Sim N (g kv) (g' kv')) :
    ∀ (kvs kvs' : List KV), kvs.map (nKV f) = kvs'.map (nKV f) →
      Sim (nAssoc N) (mapKVs g kvs) (mapKVs g' kvs')
  | [], [], _ => ⟨rfl, rfl⟩
  | [], _ :: _, h => by simp at h
  | _ :: _, [], h => by simp at h
  | kv :: rest, kv' :: rest', h => by
    simp only [List.map_cons, List.cons.injEq] at h
    obtain ⟨h1, h2⟩ := h
    obtain ⟨i1, i2⟩ := mapKVs_sim f g g' N hg rest rest' h2
    obtain ⟨j1, j2⟩ := hg kv kv' h1
    simp only [Sim, mapKVs, nAssoc_cons] at i1 ⊢
    exact ⟨by rw [i1, j1, (nKV_eq h1).1], SameSites.append j2 i2⟩

/-- `for _, kv := range kvs { body }` over two lists of entries that are alike, from two states that are alike -/
theorem loop_sim {σ σ' : Type} (f : String → String) (step step' : σ → KV → σ × List PErr) (N : σ → σ')
    (hs : ∀ s s' kv kv', N s = N s' → nKV f kv = nKV f kv' → Sim N (step s kv) (step' s' kv')) :
    ∀ (kvs kvs' : List KV) (s s' : σ), kvs.map (nKV f) = kvs'.map (nKV f) → N s = N s' →
      Sim N (loop step s kvs) (loop step' s' kvs')
  | [], [], _, _, _, h0 => ⟨h0, rfl⟩
  | [], _ :: _, _, _, h, _ => by simp at h
  | _ :: _, [], _, _, h, _ => by simp at h
  | kv :: rest, kv' :: rest', s, s', h, h0 => by
    simp only [List.map_cons, List.cons.injEq] at h
    obtain ⟨h1, h2⟩ := h
    obtain ⟨j1, j2⟩ := hs s s' kv kv' h0 h1
    obtain ⟨i1, i2⟩ := loop_sim f step step' N hs rest rest' _ _ h2 j1
    rw [loop_cons, loop_cons]
    exact ⟨i1, SameSites.append j2 i2⟩

/-- the same list of entries, from two states that are alike -/
theorem loop_frame {σ σ' : Type} (step step' : σ → KV → σ × List PErr) (N : σ → σ')
    (hs : ∀ s s' kv, N s = N s' → Sim N (step s kv) (step' s' kv)) (kvs : List KV) (s s' : σ) (h0 : N s = N s') :
    Sim N (loop step s kvs) (loop step' s' kvs) := by
  apply loop_sim id step step' N (fun s s' kv kv' h hk => ?_) kvs kvs s s' rfl h0
  have : kv = kv' := by
    obtain ⟨i, k, v⟩ := kv
    obtain ⟨i', k', v'⟩ := kv'
    simp only [nKV, nStr, id, KV.mk.injEq] at hk
    obtain ⟨a, b, c⟩ := hk
    subst a; subst c
    cases k; cases k'
    simp_all
  subst this
  exact hs s s' kv h

end AL.C08D
