import AL.Lemmas.C07SBase
import AL.Props.C03Rule
/-
  C07Sites: `allStrs` (every `*String` of the AST, AL/Lemmas/C07SBase.lean) contains `AL.C03R.valueStrs` (the value
  strings the expression rule is proved to check, AL/Props/C03Rule.lean): the two enumerations of the AST agree.
-/
namespace AL.C07S
open AL AL.Ast AL.C03R AL.RuleExpr

/-- every string of the list satisfies `P` -/
def SAll (P : Item → Prop) (l : List Str) : Prop := ∀ s ∈ l, P (.str s)

variable {P : Item → Prop}

@[simp] theorem SAll_nil : SAll P [] := fun _ h => by cases h
@[simp] theorem SAll_append {a b : List Str} : SAll P (a ++ b) ↔ SAll P a ∧ SAll P b := by
  simp only [SAll, List.mem_append]
  exact ⟨fun h => ⟨fun e he => h e (Or.inl he), fun e he => h e (Or.inr he)⟩, fun h e he => he.elim (h.1 e) (h.2 e)⟩
@[simp] theorem SAll_single {s : Str} : SAll P [s] ↔ P (.str s) := by simp [SAll]
@[simp] theorem SAll_toList {o : Option Str} : SAll P o.toList ↔ AllI P o := by
  cases o <;> simp [SAll]
theorem AllI_strs {l : List Str} : AllI P l ↔ SAll P l := by
  simp only [IOk_list, AllI_str, SAll]
@[simp] theorem SAll_getD {o : Option (List Str)} : SAll P (o.getD []) ↔ AllI P o := by
  cases o with
  | none => simp
  | some l => simp [AllI_strs]
theorem SAll_flatMap {α} {l : List α} {f : α → List Str} (h : ∀ x ∈ l, SAll P (f x)) : SAll P (l.flatMap f) := by
  intro s hs
  obtain ⟨x, hx, hs⟩ := List.mem_flatMap.1 hs
  exact h x hx s hs
theorem SAll_map {α} {l : List α} {f : α → Str} (h : ∀ x ∈ l, P (.str (f x))) : SAll P (l.map f) := by
  intro s hs
  obtain ⟨x, hx, rfl⟩ := List.mem_map.1 hs
  exact h x hx

theorem AllI_getD_mem' {α} [HasItems α] {o : Option (List α)} (h : AllI P o) : ∀ x ∈ o.getD [], AllI P x := by
  cases o with
  | none => intro x hx; cases hx
  | some l => exact IOk_list.1 (IOk_some.1 h)

theorem boolStrs_sall {b : Option BoolV} (h : AllI P b) : SAll P (boolStrs b) := by
  cases b <;> simp_all [boolStrs]
theorem intStrs_sall {b : Option IntV} (h : AllI P b) : SAll P (intStrs b) := by
  cases b <;> simp_all [intStrs]
theorem floatStrs_sall {b : Option FloatV} (h : AllI P b) : SAll P (floatStrs b) := by
  cases b <;> simp_all [floatStrs]

theorem envStrs_sall {e : Option Ast.Env} (h : AllI P e) : SAll P (envStrs e) := by
  cases e with
  | none => simp [envStrs]
  | some e =>
    have he := IOk_Env.1 (IOk_some.1 h)
    simp only [envStrs]
    split
    · rename_i vars hv
      rw [hv] at he
      exact SAll_map fun kv hkv => AllI_str.1 (IOk_EnvVar.1 (IOk_entry.1 (IOk_list.1 (IOk_some.1 he.1) kv hkv))).2
    · simp [he.2]

theorem containerStrs_sall {c : Option Container} (h : AllI P c) : SAll P (containerStrs c) := by
  cases c with
  | none => simp [containerStrs]
  | some c =>
    obtain ⟨h1, h2, h3, h4, h5, h6, _⟩ := IOk_Container.1 (IOk_some.1 h)
    have he := envStrs_sall h3
    simp only [containerStrs, SAll_append, SAll_toList, SAll_getD]
    refine ⟨⟨⟨⟨⟨h1, ?_⟩, he⟩, h4⟩, h5⟩, h6⟩
    split
    · rename_i cr hcr
      rw [hcr] at h2
      have := IOk_Credentials.1 (IOk_some.1 h2)
      simp [this.1, this.2.1]
    · simp

theorem concurrencyStrs_sall {c : Option Concurrency} (h : AllI P c) : SAll P (concurrencyStrs c) := by
  cases c with
  | none => simp [concurrencyStrs]
  | some c =>
    obtain ⟨h1, h2, _⟩ := IOk_Concurrency.1 (IOk_some.1 h)
    simp [concurrencyStrs, h1, boolStrs_sall h2]

theorem defaultsStrs_sall {x : Option Defaults} (h : AllI P x) : SAll P (defaultsStrs x) := by
  cases x with
  | none => simp [defaultsStrs]
  | some x =>
    have hx := (IOk_Defaults.1 (IOk_some.1 h)).1
    simp only [defaultsStrs]
    split
    · simp
    · rename_i r hr
      rw [hr] at hx
      have := IOk_DefaultsRun.1 (IOk_some.1 hx)
      simp [this.1, this.2.1]

mutual
theorem rawStrs_sall : ∀ (v : AL.Matrix.Raw), AllI P v → SAll P (rawStrs v)
  | .str v p, h => by simpa [rawStrs] using h
  | .arr es p, h => by rw [rawStrs]; exact rawStrsL_sall es (IOk_raw_arr.1 h).2
  | .obj ps p, h => by rw [rawStrs]; exact rawStrsP_sall ps (IOk_raw_obj.1 h).2
theorem rawStrsL_sall : ∀ (es : List AL.Matrix.Raw), AllI P es → SAll P (rawStrsL es)
  | [], _ => by simp [rawStrsL]
  | e :: es, h => by
    have := IOk_cons.1 h
    simp only [rawStrsL, SAll_append]
    exact ⟨rawStrs_sall e this.1, rawStrsL_sall es this.2⟩
theorem rawStrsP_sall : ∀ (ps : List (String × AL.Matrix.Raw)), AllI P ps → SAll P (rawStrsP ps)
  | [], _ => by simp [rawStrsP]
  | (k, v) :: ps, h => by
    have := IOk_cons.1 h
    simp only [rawStrsP, SAll_append]
    exact ⟨rawStrs_sall v (IOk_entry.1 this.1), rawStrsP_sall ps this.2⟩
end

theorem rowStrs_sall {r : MatrixRow} (h : AllI P r) : SAll P (rowStrs r) := by
  obtain ⟨_, h2, h3⟩ := IOk_MatrixRow.1 h
  simp only [rowStrs]
  split
  · rename_i e he
    rw [he] at h3
    simpa using h3
  · exact rawStrsL_sall _ (IOk_getD h2)

theorem comboStrs_sall {c : MatrixCombination} (h : AllI P c) : SAll P (comboStrs c) := by
  obtain ⟨h1, h2⟩ := IOk_MatrixCombination.1 h
  simp only [comboStrs]
  split
  · rename_i e he
    rw [he] at h2
    simpa using h2
  · exact SAll_flatMap fun kv hkv => rawStrs_sall _ (IOk_MatrixAssign.1 (IOk_entry.1 (AllI_getD_mem' h1 kv hkv))).2

theorem combosStrs_sall {c : Option MatrixCombinations} (h : AllI P c) : SAll P (combosStrs c) := by
  cases c with
  | none => simp [combosStrs]
  | some c =>
    obtain ⟨h1, h2⟩ := IOk_MatrixCombinations.1 (IOk_some.1 h)
    simp only [combosStrs]
    split
    · rename_i e he
      rw [he] at h2
      simpa using h2
    · exact SAll_flatMap fun x hx => comboStrs_sall (AllI_getD_mem' h1 x hx)

theorem matrixStrs_sall {m : Ast.Matrix} (h : AllI P m) : SAll P (matrixStrs m) := by
  obtain ⟨h1, h2, h3, h4, _⟩ := IOk_Matrix.1 h
  simp only [matrixStrs]
  split
  · rename_i e he
    rw [he] at h4
    simpa using h4
  · simp only [SAll_append]
    exact ⟨⟨combosStrs_sall h3, SAll_flatMap fun kv hkv => rowStrs_sall (IOk_entry.1 (AllI_getD_mem' h1 kv hkv))⟩,
      combosStrs_sall h2⟩

theorem execStrs_sall {e : Exec} (h : AllI P e) : SAll P (execStrs e) := by
  cases e with
  | none => simp [execStrs]
  | run e =>
    obtain ⟨h1, h2, h3, _⟩ := IOk_ExecRun.1 (IOk_exec_run.1 h)
    simp [execStrs, h1, h2, h3]
  | action e =>
    obtain ⟨h1, h2, h3, h4⟩ := IOk_ExecAction.1 (IOk_exec_action.1 h)
    simp only [execStrs, SAll_append, SAll_toList]
    exact ⟨⟨⟨h1, SAll_map fun kv hkv => AllI_str.1 (IOk_Input.1 (IOk_entry.1 (AllI_getD_mem' h2 kv hkv))).2⟩, h3⟩, h4⟩

theorem stepStrs_sall {st : Step} (h : AllI P st) : SAll P (stepStrs st) := by
  obtain ⟨_, h2, h3, h4, h5, h6, h7, _⟩ := IOk_Step.1 h
  simp only [stepStrs, SAll_append, SAll_toList]
  exact ⟨⟨⟨⟨⟨h3, h2⟩, execStrs_sall h4⟩, envStrs_sall h5⟩, boolStrs_sall h6⟩, floatStrs_sall h7⟩

theorem runnerStrs_sall {r : Option Runner} (h : AllI P r) : SAll P (runnerStrs r) := by
  cases r with
  | none => simp [runnerStrs]
  | some r =>
    obtain ⟨h1, h2, h3⟩ := IOk_Runner.1 (IOk_some.1 h)
    simp only [runnerStrs, SAll_append, SAll_toList]
    refine ⟨?_, h3⟩
    split
    · rename_i e he
      rw [he] at h2
      simpa using h2
    · simpa using h1

theorem strategyStrs_sall {s : Option Strategy} (h : AllI P s) : SAll P (strategyStrs s) := by
  cases s with
  | none => simp [strategyStrs]
  | some s =>
    obtain ⟨_, h2, h3, _⟩ := IOk_Strategy.1 (IOk_some.1 h)
    simp [strategyStrs, boolStrs_sall h2, intStrs_sall h3]

theorem servicesStrs_sall {s : Option Services} (h : AllI P s) : SAll P (servicesStrs s) := by
  cases s with
  | none => simp [servicesStrs]
  | some s =>
    obtain ⟨h1, h2, _⟩ := IOk_Services.1 (IOk_some.1 h)
    simp only [servicesStrs, SAll_append, SAll_toList]
    exact ⟨h2, SAll_flatMap fun kv hkv =>
      containerStrs_sall (IOk_some.2 (IOk_Service.1 (IOk_entry.1 (AllI_getD_mem' h1 kv hkv))).2)⟩

theorem callStrs_sall {c : Option WorkflowCall} (h : AllI P c) : SAll P (callStrs c) := by
  cases c with
  | none => simp [callStrs]
  | some c =>
    obtain ⟨h1, h2, h3⟩ := IOk_WorkflowCall.1 (IOk_some.1 h)
    simp only [callStrs]
    split
    · simp
    · rename_i u hu
      rw [hu] at h1
      simp only [SAll_append, SAll_single]
      exact ⟨⟨by simpa using h1, SAll_map fun kv hkv => AllI_str.1 (IOk_CallArg.1 (IOk_entry.1 (AllI_getD_mem' h2 kv hkv))).2⟩,
        SAll_map fun kv hkv => AllI_str.1 (IOk_CallArg.1 (IOk_entry.1 (AllI_getD_mem' h3 kv hkv))).2⟩

theorem jobStrs_sall {n : Job} (h : AllI P n) : SAll P (jobStrs n) := by
  obtain ⟨_, hname, hneeds, hrunsOn, _, henvt, hconc, houts, henv, hdef, hcond, hsteps, htimeout, hstrat, hcoe, hcont, hserv,
    hcall, _⟩ := IOk_Job.1 h
  simp only [jobStrs, SAll_append]
  refine ⟨⟨⟨?_, ?_⟩, ?_⟩, ?_⟩
  · simp only [matrixOfStrs]
    split
    · rename_i s hs
      rw [hs] at hstrat
      have := (IOk_Strategy.1 (IOk_some.1 hstrat)).1
      split
      · rename_i m hm
        rw [hm] at this
        exact matrixStrs_sall (IOk_some.1 this)
      · simp
    · simp
  · simp only [jobPreStrs, SAll_append, SAll_toList, SAll_getD]
    exact ⟨⟨⟨⟨⟨⟨⟨⟨⟨⟨⟨⟨hname, hneeds⟩, runnerStrs_sall hrunsOn⟩, concurrencyStrs_sall hconc⟩, envStrs_sall henv⟩,
      defaultsStrs_sall hdef⟩, hcond⟩, strategyStrs_sall hstrat⟩, boolStrs_sall hcoe⟩, floatStrs_sall htimeout⟩,
      containerStrs_sall hcont⟩, servicesStrs_sall hserv⟩, callStrs_sall hcall⟩
  · exact SAll_flatMap fun st hst => stepStrs_sall (AllI_getD_mem' hsteps st hst)
  · simp only [jobPostStrs, SAll_append]
    refine ⟨?_, SAll_map fun kv hkv => AllI_str.1 (IOk_Output.1 (IOk_entry.1 (AllI_getD_mem' houts kv hkv))).2⟩
    split
    · rename_i e he
      rw [he] at henvt
      have := IOk_Environment.1 (IOk_some.1 henvt)
      simp [this.1, this.2.1]
    · simp

theorem filterStrs_sall {f : Option Filter} (h : AllI P f) : SAll P (filterStrs f) := by
  cases f with
  | none => simp [filterStrs]
  | some f => simpa [filterStrs] using (IOk_Filter.1 (IOk_some.1 h)).2

theorem eventStrs_sall {e : Ast.Event} (h : AllI P e) : SAll P (eventStrs e) := by
  cases e with
  | webhook e =>
    obtain ⟨_, h1, h2, h3, h4, h5, h6, h7, h8, _⟩ := IOk_WebhookEvent.1 (IOk_webhook.1 h)
    simp only [eventStrs, SAll_append, SAll_getD]
    exact ⟨⟨⟨⟨⟨⟨⟨h1, filterStrs_sall h2⟩, filterStrs_sall h3⟩, filterStrs_sall h4⟩, filterStrs_sall h5⟩,
      filterStrs_sall h6⟩, filterStrs_sall h7⟩, h8⟩
  | schedule cron p => exact AllI_strs.1 (IOk_schedule.1 h).1
  | dispatch inputs p =>
    simp only [eventStrs]
    refine SAll_flatMap fun kv hkv => ?_
    obtain ⟨_, h1, h2, h3, h4⟩ := IOk_DispatchInput.1 (IOk_entry.1 (AllI_getD_mem' (IOk_dispatch.1 h).1 kv hkv))
    simp [h1, h3, boolStrs_sall h2, h4]
  | repoDispatch types p => simpa [eventStrs] using (IOk_repoDispatch.1 h).1
  | call inputs secrets outputs p =>
    obtain ⟨h1, h2, h3, _⟩ := IOk_call.1 h
    simp only [eventStrs, SAll_append]
    refine ⟨⟨SAll_flatMap fun i hi => ?_, SAll_flatMap fun kv hkv => ?_⟩, SAll_flatMap fun kv hkv => ?_⟩
    · obtain ⟨_, a, b, c⟩ := IOk_CallInput.1 (AllI_getD_mem' h1 i hi)
      simp [callInputStrs, a, b, boolStrs_sall c]
    · obtain ⟨_, a, b⟩ := IOk_CallSecret.1 (IOk_entry.1 (AllI_getD_mem' h2 kv hkv))
      simp [a, boolStrs_sall b]
    · obtain ⟨_, a, _⟩ := IOk_CallOutput.1 (IOk_entry.1 (AllI_getD_mem' h3 kv hkv))
      simp [a]

theorem findCallOutputs_all : ∀ (es : List Ast.Event), AllI P es → ∀ outs, findCallOutputs es = some outs → AllI P outs
  | [], _, outs, h => by simp [findCallOutputs] at h
  | e :: es, hes, outs, h => by
    have hh := IOk_cons.1 hes
    cases e with
    | call i s o p =>
      simp only [findCallOutputs, Option.some.injEq] at h
      subst h
      exact IOk_getD (IOk_call.1 hh.1).2.2.1
    | webhook e => exact findCallOutputs_all es hh.2 outs (by simpa [findCallOutputs] using h)
    | schedule c p => exact findCallOutputs_all es hh.2 outs (by simpa [findCallOutputs] using h)
    | dispatch i p => exact findCallOutputs_all es hh.2 outs (by simpa [findCallOutputs] using h)
    | repoDispatch t p => exact findCallOutputs_all es hh.2 outs (by simpa [findCallOutputs] using h)

theorem valueStrs_sall {w : Workflow} (h : AllI P w) : SAll P (valueStrs w) := by
  obtain ⟨hname, hrun, hon, _, henv, hdef, hconc, hjobs⟩ := IOk_Workflow.1 h
  simp only [valueStrs, SAll_append, SAll_toList]
  refine ⟨⟨⟨⟨hname, SAll_flatMap fun e he => eventStrs_sall (AllI_getD_mem' hon e he)⟩,
    ⟨⟨⟨hrun, envStrs_sall henv⟩, defaultsStrs_sall hdef⟩, concurrencyStrs_sall hconc⟩⟩,
    SAll_flatMap fun kv hkv => jobStrs_sall (IOk_entry.1 (AllI_getD_mem' hjobs kv hkv))⟩, ?_⟩
  simp only [outValueStrs]
  split
  · rename_i outs ho
    have := findCallOutputs_all _ (IOk_getD hon) outs ho
    split
    · simp
    · exact SAll_flatMap fun kv hkv => SAll_toList.2 (IOk_CallOutput.1 (IOk_entry.1 (IOk_list.1 this kv hkv))).2.2
  · simp

/-- **the value strings of AL.C03R are among the strings of the AST enumerated here** -/
theorem valueStrs_sub_allStrs (w : Workflow) : ∀ s ∈ valueStrs w, s ∈ allStrs w := by
  intro s hs
  have : AllI (fun it => it ∈ items w) w := fun it hit => hit
  exact mem_allStrs.2 (valueStrs_sall this s hs)

end AL.C07S
