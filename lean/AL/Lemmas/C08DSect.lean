import AL.Lemmas.C08DNorm
/-
  C08 on the parser, section by section: re-spelling the keys of a case-insensitive mapping (`KeyRecased`) gives the same
  section of the AST but for the NAME strings of the entries (same ids, same positions, same values: equal normal forms),
  and diagnostics at the same sites with the same codes (`Sim`). Stated on the parse functions of `AL.PW`.
-/
namespace AL.C08D
open AL.PW AL.Yaml AL.Ast AL.C13P

variable {cfg : Cfg} {f : String → String}

/-! ### what the parse functions read of the node itself is the same -/

theorem KeyRecased.newString {n n' : Node} (h : KeyRecased f n n') : newString n' = newString n := by
  simp only [AL.PW.newString, h.value, h.quoted, h.pos]

theorem KeyRecased.parseExpression {n n' : Node} (h : KeyRecased f n n') (what : String) : parseExpression n' what = parseExpression n what := by
  simp only [AL.PW.parseExpression, h.value, errAt, h.pos, h.newString]

theorem KeyRecased.mayParseExpression {n n' : Node} (h : KeyRecased f n n') : mayParseExpression n' = mayParseExpression n := by
  simp only [AL.PW.mayParseExpression, h.value, h.tag, h.newString]

theorem KeyRecased.isNull {n n' : Node} (h : KeyRecased f n n') : n'.isNull = n.isNull := by
  simp only [Node.isNull, h.kind, h.tag]

theorem sim_append3 {a a' b b' c c' : List PErr} (h1 : SameSites a a') (h2 : SameSites b b') (h3 : SameSites c c') :
    SameSites (a ++ b ++ c) (a' ++ b' ++ c') := (h1.append h2).append h3

/-! ### `env:` -/

/-- **`env:`** (of the workflow, a job, a step, a container, a service) -/
theorem parseEnv_recase (hf : ∀ a b, f a = f b → cfg.lower a = cfg.lower b) {n n' : Node} (h : KeyRecased f n n') :
    Sim (nEnv f) (parseEnv cfg n) (parseEnv cfg n') := by
  simp only [parseEnv, h.kind, h.parseExpression]
  split
  · exact ⟨rfl, rfl⟩
  · obtain ⟨i1, i2⟩ := parseMapping_alike cfg f hf "env" "env" n n' false h
    obtain ⟨j1, j2⟩ := mapKVs_sim f
      (fun kv => let v := parseString kv.val true; ((⟨kv.key, v.1⟩ : EnvVar), v.2))
      (fun kv => let v := parseString kv.val true; ((⟨kv.key, v.1⟩ : EnvVar), v.2)) (nEnvVar f)
      (fun kv kv' hk => named_sim f (fun k x => (⟨k, x⟩ : EnvVar)) (fun n => parseString n true) (nEnvVar f)
        (fun k k' x hx => by simp only [nEnvVar, hx]) hk) _ _ i1
    refine ⟨?_, i2.append j2⟩
    simp only [nEnv, Option.map_some]
    exact congrArg (fun x => (⟨some x, none⟩ : Env)) j1

/-! ### `with:` of a step -/

/-- the loop of `parseStep` over the entries of `with:` -/
theorem withLoop_sim (F : Folds) : ∀ (kvs kvs' : List KV) (e e' : ExecAction), kvs.map (nKV F.input) = kvs'.map (nKV F.input) →
    nAct F e = nAct F e' → Sim (nAct F) (loop withKey e kvs) (loop withKey e' kvs') := by
  apply loop_sim F.input withKey withKey (nAct F)
  intro s s' kv kv' hs hk
  obtain ⟨hk1, hk2, hk3⟩ := nKV_eq hk
  obtain ⟨u, i, ep, a⟩ := s
  obtain ⟨u', i', ep', a'⟩ := s'
  simp only [nAct, ExecAction.mk.injEq] at hs
  obtain ⟨rfl, hi, rfl, rfl⟩ := hs
  simp only [withKey, hk1, hk3]
  split
  · exact ⟨by simp only [nAct, hi], rfl⟩
  · exact ⟨by simp only [nAct, hi], rfl⟩
  · refine ⟨?_, rfl⟩
    simp only [nAct, Option.map_some, ExecAction.mk.injEq, true_and, and_true, Option.some.injEq, nAssoc_append, nAssoc_cons, nAssoc_nil,
      nInput, hk2]
    congr 1
    cases i <;> cases i' <;> simp_all

/-- **`with:` of a step**, as `parseStep` reads it -/
theorem stepWith_recase (F : Folds) (hf : ∀ a b, F.input a = F.input b → cfg.lower a = cfg.lower b) {n n' : Node} (h : KeyRecased F.input n n')
    (e0 : ExecAction) :
    Sim (nAct F)
      (let m := parseSectionMapping cfg "with" n false false; let r := loop withKey { e0 with inputs := some [] } m.1; (r.1, m.2 ++ r.2))
      (let m := parseSectionMapping cfg "with" n' false false; let r := loop withKey { e0 with inputs := some [] } m.1; (r.1, m.2 ++ r.2)) := by
  obtain ⟨i1, i2⟩ := parseMapping_alike cfg F.input hf (sectionWhat "with") (sectionWhat "with") n n' false h
  obtain ⟨j1, j2⟩ := withLoop_sim F _ _ { e0 with inputs := some [] } { e0 with inputs := some [] } i1 rfl
  exact ⟨j1, i2.append j2⟩

/-! ### `with:` / `secrets:` of a job that calls a reusable workflow -/

theorem callArgs_sim (f : String → String) (kvs kvs' : List KV) (h : kvs.map (nKV f) = kvs'.map (nKV f)) :
    Sim (nAssoc (nArg f)) (callArgs kvs) (callArgs kvs') :=
  mapKVs_sim f _ _ (nArg f) (fun kv kv' hk => named_sim f (fun k x => (⟨k, x⟩ : CallArg)) (fun n => parseString n true) (nArg f)
    (fun k k' x hx => by simp only [nArg, hx]) hk) kvs kvs' h

/-- **`with:` / `secrets:` of a call**, as `parseJob` reads them (`sec` is "with" or "secrets") -/
theorem callArgs_recase (hf : ∀ a b, f a = f b → cfg.lower a = cfg.lower b) (sec : String) {n n' : Node} (h : KeyRecased f n n') :
    Sim (nAssoc (nArg f))
      (let m := parseSectionMapping cfg sec n false false; let r := callArgs m.1; (r.1, m.2 ++ r.2))
      (let m := parseSectionMapping cfg sec n' false false; let r := callArgs m.1; (r.1, m.2 ++ r.2)) := by
  obtain ⟨i1, i2⟩ := parseMapping_alike cfg f hf (sectionWhat sec) (sectionWhat sec) n n' false h
  obtain ⟨j1, j2⟩ := callArgs_sim f _ _ i1
  exact ⟨j1, i2.append j2⟩

/-! ### `outputs:` of a job -/

theorem nAssoc_length {β β' : Type} (N : β → β') (l : List (String × β)) : (nAssoc N l).length = l.length := by simp [nAssoc]

/-- **`outputs:` of a job** -/
theorem parseOutputs_recase (hf : ∀ a b, f a = f b → cfg.lower a = cfg.lower b) {n n' : Node} (h : KeyRecased f n n') :
    Sim (nAssoc (nOutput f)) (parseOutputs cfg n) (parseOutputs cfg n') := by
  obtain ⟨i1, i2⟩ := parseMapping_alike cfg f hf (sectionWhat "outputs") (sectionWhat "outputs") n n' false h
  obtain ⟨j1, j2⟩ := mapKVs_sim f
    (fun kv => let v := parseString kv.val true; ((⟨kv.key, v.1⟩ : Output), v.2))
    (fun kv => let v := parseString kv.val true; ((⟨kv.key, v.1⟩ : Output), v.2)) (nOutput f)
    (fun kv kv' hk => named_sim f (fun k x => (⟨k, x⟩ : Output)) (fun n => parseString n true) (nOutput f)
      (fun k k' x hx => by simp only [nOutput, hx]) hk) _ _ i1
  have hl := congrArg List.length j1
  simp only [nAssoc_length] at hl
  simp only [parseOutputs, parseSectionMapping, checkNotEmpty, errAt, h.pos, hl]
  refine ⟨j1, sim_append3 i2 j2 ?_⟩
  split
  · exact SameSites.one _ _ _ _
  · rfl

/-! ### `services:` -/

/-- **`services:`** -/
theorem parseServices_recase (F : Folds) (hf : ∀ a b, F.service a = F.service b → cfg.lower a = cfg.lower b) {n n' : Node}
    (h : KeyRecased F.service n n') : Sim (nServices F) (parseServices cfg n) (parseServices cfg n') := by
  simp only [parseServices, h.mayParseExpression, h.pos]
  split
  · exact ⟨rfl, rfl⟩
  · obtain ⟨i1, i2⟩ := parseMapping_alike cfg F.service hf (sectionWhat "services") (sectionWhat "services") n n' false h
    obtain ⟨j1, j2⟩ := mapKVs_sim F.service
      (fun s => let c := parseContainer cfg "services" s.key.pos s.val; ((⟨s.key, c.1⟩ : Service), c.2))
      (fun s => let c := parseContainer cfg "services" s.key.pos s.val; ((⟨s.key, c.1⟩ : Service), c.2)) (nService F)
      (fun kv kv' hk => by
        obtain ⟨i, k, v⟩ := kv
        obtain ⟨i', k', v'⟩ := kv'
        simp only [nKV, KV.mk.injEq] at hk
        obtain ⟨_, hk2, rfl⟩ := hk
        have hp := (nStr_eq hk2).2.2
        simp only at hp ⊢
        rw [hp]
        exact ⟨by simp only [nService, hk2], rfl⟩) _ _ i1
    refine ⟨?_, i2.append j2⟩
    simp only [nServices, Option.map_some, parseSectionMapping]
    exact congrArg (fun x => (⟨some x, none, n.pos⟩ : Services)) j1

/-! ### `matrix:` -/

theorem nAssoc_setAssoc {β β' : Type} (N : β → β') (k : String) (v : β) : ∀ (l : List (String × β)),
    nAssoc N (setAssoc k v l) = setAssoc k (N v) (nAssoc N l)
  | [] => rfl
  | (k', v') :: rest => by
    simp only [setAssoc, nAssoc_cons]
    split
    · rfl
    · simp only [nAssoc_cons, nAssoc_setAssoc N k v rest]

/-- the loop of `parseMatrix` over the rows -/
theorem matrixLoop_sim (f : String → String) : ∀ (kvs kvs' : List KV) (m m' : Matrix), kvs.map (nKV f) = kvs'.map (nKV f) →
    nMatrix f m = nMatrix f m' → Sim (nMatrix f) (loop (matrixKey cfg) m kvs) (loop (matrixKey cfg) m' kvs') := by
  apply loop_sim f (matrixKey cfg) (matrixKey cfg) (nMatrix f)
  intro s s' kv kv' hs hk
  obtain ⟨hk1, hk2, hk3⟩ := nKV_eq hk
  obtain ⟨r, i, x, e, p⟩ := s
  obtain ⟨r', i', x', e', p'⟩ := s'
  simp only [nMatrix, Matrix.mk.injEq] at hs
  obtain ⟨hr, hi, hx, rfl, rfl⟩ := hs
  have hrows : nAssoc (nRow f) (r.getD []) = nAssoc (nRow f) (r'.getD []) := by
    cases r <;> cases r' <;> simp_all
  simp only [matrixKey, hk1, hk3]
  split
  · exact ⟨by simp only [nMatrix, hr, hx], rfl⟩
  · exact ⟨by simp only [nMatrix, hr, hi], rfl⟩
  · split
    · refine ⟨?_, rfl⟩
      simp only [nMatrix, Option.map_some, hi, hx, nAssoc_setAssoc, hrows]
    · split
      · exact ⟨by simp only [nMatrix, hr, hi, hx], rfl⟩
      · refine ⟨?_, rfl⟩
        simp only [nMatrix, Option.map_some, hi, hx, nAssoc_setAssoc, hrows, nRow, hk2]

/-- **`matrix:`**: the names of the rows -/
theorem parseMatrix_recase (hf : ∀ a b, f a = f b → cfg.lower a = cfg.lower b) (pos : Yaml.Pos) {n n' : Node} (h : KeyRecased f n n') :
    Sim (nMatrix f) (parseMatrix cfg pos n) (parseMatrix cfg pos n') := by
  simp only [parseMatrix, h.kind, h.parseExpression, h.pos]
  split
  · exact ⟨rfl, rfl⟩
  · obtain ⟨i1, i2⟩ := parseMapping_alike cfg f hf (sectionWhat "matrix") (sectionWhat "matrix") n n' false h
    obtain ⟨j1, j2⟩ := matrixLoop_sim (cfg := cfg) f _ _ { rows := some [], pos := pos } { rows := some [], pos := pos } i1 rfl
    exact ⟨j1, i2.append j2⟩

theorem matrixAssigns_sim (f : String → String) : ∀ (kvs kvs' : List KV), kvs.map (nKV f) = kvs'.map (nKV f) →
    Sim (nAssoc (nAssign f)) (matrixAssigns cfg kvs) (matrixAssigns cfg kvs')
  | [], [], _ => ⟨rfl, rfl⟩
  | [], _ :: _, h => by simp at h
  | _ :: _, [], h => by simp at h
  | kv :: rest, kv' :: rest', h => by
    simp only [List.map_cons, List.cons.injEq] at h
    obtain ⟨h1, h2⟩ := h
    obtain ⟨hk1, hk2, hk3⟩ := nKV_eq h1
    obtain ⟨i1, i2⟩ := matrixAssigns_sim f rest rest' h2
    simp only [matrixAssigns, hk1, hk3]
    refine ⟨?_, SameSites.rfl'.append i2⟩
    cases (rawValue cfg kv'.val).1 with
    | none => exact i1
    | some x =>
      simp only [nAssoc_cons, nAssign, hk2, i1]

/-- **an element of `include:` / `exclude:`**: the keys of one combination -/
theorem matrixCombos_recase (hf : ∀ a b, f a = f b → cfg.lower a = cfg.lower b) (sec : String) {c c' : Node} (h : KeyRecased f c c')
    (b : List Node) : ∀ a : List Node,
      Sim (List.map (nCombo f)) (matrixCombos cfg sec (a ++ c :: b)) (matrixCombos cfg sec (a ++ c' :: b))
  | [] => by
    simp only [List.nil_append, matrixCombos, h.kind, h.parseExpression]
    split
    · exact ⟨rfl, rfl⟩
    · obtain ⟨i1, i2⟩ := parseMapping_alike cfg f hf ("element in \"" ++ sec ++ "\" section") ("element in \"" ++ sec ++ "\" section") c c' false h
      obtain ⟨j1, j2⟩ := matrixAssigns_sim (cfg := cfg) f _ _ i1
      refine ⟨?_, sim_append3 i2 j2 SameSites.rfl'⟩
      simp only [List.map_cons, nCombo, Option.map_some, j1]
  | x :: a => by
    obtain ⟨i1, i2⟩ := matrixCombos_recase hf sec h b a
    simp only [List.cons_append, matrixCombos]
    split
    · refine ⟨?_, SameSites.rfl'.append i2⟩
      cases (parseExpression x "mapping of matrix combination").1 with
      | none => exact i1
      | some s => simp only [List.map_cons, i1]
    · exact ⟨by simp only [List.map_cons, i1], SameSites.rfl'.append i2⟩

/-! ### `on.workflow_call`, `on.workflow_dispatch` -/

theorem callInput_sim (f : String → String) {kv kv' : KV} (hk : nKV f kv = nKV f kv') :
    Sim (nCallInput f) (callInput cfg kv) (callInput cfg kv') := by
  obtain ⟨hk1, hk2, hk3⟩ := nKV_eq hk
  have hp := (nStr_eq hk2).2.2
  obtain ⟨j1, j2⟩ := loop_frame callInputAttr callInputAttr (fun st : CallInput × Bool => (nCallInput f st.1, st.2))
    (fun s s' a hs => by
      obtain ⟨⟨n, d, df, r, t, i⟩, b⟩ := s
      obtain ⟨⟨n', d', df', r', t', i'⟩, b'⟩ := s'
      simp only [nCallInput, Prod.mk.injEq, CallInput.mk.injEq] at hs
      obtain ⟨⟨hn, rfl, rfl, rfl, rfl, rfl⟩, rfl⟩ := hs
      simp only [callInputAttr]
      split
      · exact ⟨by simp only [nCallInput, hn], rfl⟩
      · exact ⟨by simp only [nCallInput, hn], rfl⟩
      · split
        · exact ⟨by simp only [nCallInput, hn], rfl⟩
        · exact ⟨by simp only [nCallInput, hn], rfl⟩
      · split <;> exact ⟨by simp only [nCallInput, hn], rfl⟩
      · exact ⟨by simp only [nCallInput, hn], rfl⟩)
    (parseMapping cfg "input of workflow_call event" kv.val true true).1
    ({ name := kv.key, id := kv.id }, false) ({ name := kv'.key, id := kv'.id }, false)
    (by simp only [nCallInput, hk1, hk2])
  simp only [Prod.mk.injEq] at j1
  simp only [callInput, ← hk3, hp]
  refine ⟨j1.1, sim_append3 SameSites.rfl' j2 ?_⟩
  rw [j1.2]
  split
  · exact SameSites.one _ _ _ _
  · rfl

theorem callInputs_sim (f : String → String) : ∀ (kvs kvs' : List KV), kvs.map (nKV f) = kvs'.map (nKV f) →
    Sim (List.map (nCallInput f)) (callInputs cfg kvs) (callInputs cfg kvs')
  | [], [], _ => ⟨rfl, rfl⟩
  | [], _ :: _, h => by simp at h
  | _ :: _, [], h => by simp at h
  | kv :: rest, kv' :: rest', h => by
    simp only [List.map_cons, List.cons.injEq] at h
    obtain ⟨h1, h2⟩ := h
    obtain ⟨i1, i2⟩ := callInputs_sim f rest rest' h2
    obtain ⟨j1, j2⟩ := callInput_sim (cfg := cfg) f h1
    simp only [callInputs]
    exact ⟨by simp only [List.map_cons, i1, j1], j2.append i2⟩

theorem callSecret_sim (f : String → String) {kv kv' : KV} (hk : nKV f kv = nKV f kv') :
    Sim (nCallSecret f) (callSecret cfg kv) (callSecret cfg kv') := by
  obtain ⟨hk1, hk2, hk3⟩ := nKV_eq hk
  obtain ⟨j1, j2⟩ := loop_frame callSecretAttr callSecretAttr (nCallSecret f)
    (fun s s' a hs => by
      obtain ⟨n, d, r⟩ := s
      obtain ⟨n', d', r'⟩ := s'
      simp only [nCallSecret, CallSecret.mk.injEq] at hs
      obtain ⟨hn, rfl, rfl⟩ := hs
      simp only [callSecretAttr]
      split <;> exact ⟨by simp only [nCallSecret, hn], rfl⟩)
    (parseMapping cfg "secret of workflow_call event" kv.val true true).1
    { name := kv.key } { name := kv'.key } (by simp only [nCallSecret, hk2])
  simp only [callSecret, ← hk3]
  exact ⟨j1, SameSites.rfl'.append j2⟩

theorem callOutput_sim (f : String → String) {kv kv' : KV} (hk : nKV f kv = nKV f kv') :
    Sim (nCallOutput f) (callOutput cfg kv) (callOutput cfg kv') := by
  obtain ⟨hk1, hk2, hk3⟩ := nKV_eq hk
  have hp := (nStr_eq hk2).2.2
  obtain ⟨j1, j2⟩ := loop_frame callOutputAttr callOutputAttr (nCallOutput f)
    (fun s s' a hs => by
      obtain ⟨n, d, r⟩ := s
      obtain ⟨n', d', r'⟩ := s'
      simp only [nCallOutput, CallOutput.mk.injEq] at hs
      obtain ⟨hn, rfl, rfl⟩ := hs
      simp only [callOutputAttr]
      split <;> exact ⟨by simp only [nCallOutput, hn], rfl⟩)
    (parseMapping cfg "output of workflow_call event" kv.val true true).1
    { name := kv.key } { name := kv'.key } (by simp only [nCallOutput, hk2])
  have hv := congrArg CallOutput.value j1
  simp only [nCallOutput] at hv
  simp only [callOutput, ← hk3, hp]
  refine ⟨j1, sim_append3 SameSites.rfl' j2 ?_⟩
  rw [hv]
  split
  · exact SameSites.one _ _ _ _
  · rfl

/-- the state of the loop of `parseWorkflowCallEvent`, normalised -/
def nCallEventSt (f : String → String) (st : CallEventSt) : CallEventSt :=
  ⟨st.inputs.map (List.map (nCallInput f)), st.secrets.map (nAssoc (nCallSecret f)), st.outputs.map (nAssoc (nCallOutput f))⟩

/-- **`inputs:` / `secrets:` / `outputs:` of `workflow_call`**, as the loop of `parseWorkflowCallEvent` reads them -/
theorem callEventKey_recase (hf : ∀ a b, f a = f b → cfg.lower a = cfg.lower b) (st : CallEventSt) (id : String) (k : Str) {n n' : Node}
    (h : KeyRecased f n n') : Sim (nCallEventSt f) (callEventKey cfg st ⟨id, k, n⟩) (callEventKey cfg st ⟨id, k, n'⟩) := by
  simp only [callEventKey]
  split
  · obtain ⟨i1, i2⟩ := parseMapping_alike cfg f hf (sectionWhat "inputs") (sectionWhat "inputs") n n' true h
    obtain ⟨j1, j2⟩ := callInputs_sim (cfg := cfg) f _ _ i1
    exact ⟨by simp only [nCallEventSt, Option.map_some, parseSectionMapping, j1], i2.append j2⟩
  · obtain ⟨i1, i2⟩ := parseMapping_alike cfg f hf (sectionWhat "secrets") (sectionWhat "secrets") n n' true h
    obtain ⟨j1, j2⟩ := mapKVs_sim f (callSecret cfg) (callSecret cfg) (nCallSecret f) (fun kv kv' hk => callSecret_sim f hk) _ _ i1
    refine ⟨?_, i2.append j2⟩
    simp only [nCallEventSt, Option.map_some, parseSectionMapping]
    rw [j1]
  · obtain ⟨i1, i2⟩ := parseMapping_alike cfg f hf (sectionWhat "outputs") (sectionWhat "outputs") n n' true h
    obtain ⟨j1, j2⟩ := mapKVs_sim f (callOutput cfg) (callOutput cfg) (nCallOutput f) (fun kv kv' hk => callOutput_sim f hk) _ _ i1
    refine ⟨?_, i2.append j2⟩
    simp only [nCallEventSt, Option.map_some, parseSectionMapping]
    rw [j1]
  · exact ⟨rfl, rfl⟩

theorem dispatchInput_sim (f : String → String) {kv kv' : KV} (hk : nKV f kv = nKV f kv') :
    Sim (nDispatchInput f) (dispatchInput cfg kv) (dispatchInput cfg kv') := by
  obtain ⟨hk1, hk2, hk3⟩ := nKV_eq hk
  simp only [dispatchInput, ← hk3]
  exact ⟨by simp only [nDispatchInput, hk2], rfl⟩

/-- **`inputs:` of `workflow_dispatch`**, as the loop of `parseWorkflowDispatchEvent` reads it -/
theorem dispatchInputs_recase (hf : ∀ a b, f a = f b → cfg.lower a = cfg.lower b) (st : Option (List (String × DispatchInput))) (k : Str)
    {n n' : Node} (h : KeyRecased f n n') :
    Sim (Option.map (nAssoc (nDispatchInput f))) (dispatchStep cfg st ⟨"inputs", k, n⟩) (dispatchStep cfg st ⟨"inputs", k, n'⟩) := by
  obtain ⟨i1, i2⟩ := parseMapping_alike cfg f hf (sectionWhat "inputs") (sectionWhat "inputs") n n' true h
  obtain ⟨j1, j2⟩ := mapKVs_sim f (dispatchInput cfg) (dispatchInput cfg) (nDispatchInput f) (fun kv kv' hk => dispatchInput_sim f hk) _ _ i1
  simp only [dispatchStep, ne_eq, not_true_eq_false, if_false, parseSectionMapping]
  refine ⟨?_, i2.append j2⟩
  simp only [Option.map_some, Option.some.injEq]
  exact j1

end AL.C08D
