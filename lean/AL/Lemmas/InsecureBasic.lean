import AL.Spec.Untrusted
/-
  C11, basic facts about the untrusted-input machine (`AL.Insecure`) and the event stream of the
  semantic checker:
  * the shape of `(check Γ e).evs` for every constructor (`evs_*`),
  * `finish` (= Go `end()`) in closed form,
  * under `safeCalls > 0` every event stream of an expression is the identity (`silent_all`),
    hence a contains/startsWith/endsWith call entered outside any safe call acts exactly like
    `end()` (`safe_finish`): nothing inside it is seen, and leaving it ends the chain that was
    pending before it (the repaired behaviour; before the repair the pending cursor survived).
-/
namespace AL.Insecure
open AL AL.Sema AL.Spec

/-- `e` is a call of contains / startsWith / endsWith -/
def isSafeE (lower : String → String) : E → Bool
  | .call c _ => isSafeCall lower c
  | _ => false

/-! ### running the machine -/

def exec (roots : List Trie) (st : State) (evs : List Ev) : State := evs.foldl (State.step roots) st

@[simp] theorem exec_nil (roots : List Trie) (st : State) : exec roots st [] = st := rfl
@[simp] theorem exec_cons (roots : List Trie) (st : State) (ev : Ev) (evs : List Ev) :
    exec roots st (ev :: evs) = exec roots (st.step roots ev) evs := rfl
theorem exec_append (roots : List Trie) (st : State) (a b : List Ev) :
    exec roots st (a ++ b) = exec roots (exec roots st a) b := by
  simp [exec, List.foldl_append]

theorem run_eq (roots : List Trie) (evs : List Ev) : run roots evs = ((exec roots {} evs).finish).reports := rfl

/-- the report `end()` emits for a cursor list -/
def rep (c : List Cur) : List (List String) :=
  let inputs := (c.filter (·.node.isLeaf)).map (·.pathStr)
  if inputs.isEmpty then [] else [sortStrs inputs]

@[simp] theorem rep_nil : rep [] = [] := rfl

theorem finish_eq (st : State) :
    st.finish = { cur := [], filteringObject := false, safeCalls := st.safeCalls, reports := st.reports ++ rep st.cur } := by
  unfold State.finish rep
  simp only []
  split <;> simp

/-! ### shape of the event stream -/

/-- the truthiness with which `checkLogicalOp` narrows its left operand -/
def dirOf : LogOp → Bool
  | .and => false
  | .or => true

section evs
variable (env : Env)

theorem evs_null : (check env .null).evs = [.leave .other] := by rw [check]; rfl
theorem evs_bool : (check env .bool).evs = [.leave .other] := by rw [check]; rfl
theorem evs_num : (check env .num).evs = [.leave .other] := by rw [check]; rfl
theorem evs_str (v : String) : (check env (.str v)).evs = [.leave .other] := by rw [check]; rfl
theorem evs_var (n : String) : (check env (.var n)).evs = [.leave (.var n)] := by
  rw [check]; simp only [wrap, enterOf, leaveOf]; split <;> rfl
theorem evs_objDeref (r : E) (p : String) :
    (check env (.objDeref r p)).evs = (check env r).evs ++ [.leave (.objDeref p)] := by
  rw [check.eq_def]; simp [wrap, enterOf, leaveOf]
theorem evs_arrDeref (r : E) :
    (check env (.arrDeref r)).evs = (check env r).evs ++ [.leave .arrDeref] := by
  rw [check]; simp [wrap, enterOf, leaveOf]
theorem evs_index (r i : E) :
    (check env (.index r i)).evs =
      (check env i).evs ++ (check env r).evs ++ [.leave (leaveOf env.lower (.index r i))] := by
  rw [check]; simp [wrap, enterOf]
theorem evs_call (c : String) (args : List E) :
    (check env (.call c args)).evs =
      enterOf env.lower (.call c args) ++
      (match lookupFuncs (env.lower c) env.funcs with
        | none => []
        | some _ => (checkArgs env args).2.2) ++ [.leave (leaveOf env.lower (.call c args))] := by
  rw [check.eq_def]; simp only [wrap]; split <;> simp [*]
theorem evs_not (e : E) : (check env (.not e)).evs = (check env e).evs ++ [.leave .other] := by
  rw [check.eq_def]; simp [wrap, enterOf, leaveOf]
theorem evs_cmp (op : CmpOp) (l r : E) :
    (check env (.cmp op l r)).evs = (check env l).evs ++ (check env r).evs ++ [.leave .other] := by
  rw [check]; simp [wrap, enterOf, leaveOf]
theorem evs_logical (op : LogOp) (l r : E) :
    (check env (.logical op l r)).evs =
      (narrow env l (dirOf op)).evs ++ (check env r).evs ++ [.leave .other] := by
  rw [check.eq_def]; cases op <;> simp [wrap, enterOf, leaveOf, dirOf]

theorem evs_narrow_and (l r : E) :
    (narrow env (.logical .and l r) true).evs = (check env l).evs ++ (check env r).evs := by
  rw [narrow]
theorem evs_narrow_or (l r : E) :
    (narrow env (.logical .or l r) false).evs = (check env l).evs ++ (check env r).evs := by
  rw [narrow]
theorem evs_narrow_logical (op : LogOp) (l r : E) (x : Bool)
    (h1 : x = true → op = .and → False) (h2 : x = false → op = .or → False) :
    (narrow env (.logical op l r) x).evs =
      (narrow env l (dirOf op)).evs ++ (check env r).evs := by
  cases op <;> cases x <;> simp at h1 h2 <;> rw [narrow.eq_def] <;> simp [dirOf]
theorem evs_narrow_not (e : E) (t : Bool) : (narrow env (.not e) t).evs = (narrow env e (!t)).evs := by
  rw [narrow]
theorem narrow_other (e : E) (x : Bool)
    (h3 : ∀ (op : LogOp) (l r : E), e = .logical op l r → False)
    (h4 : ∀ (operand : E), e = .not operand → False) : narrow env e x = check env e := by
  cases e <;> first | (exfalso; exact h3 _ _ _ rfl) | (exfalso; exact h4 _ rfl) | (rw [narrow.eq_def])

theorem evs_narrow_or_true (l r : E) :
    (narrow env (.logical .or l r) true).evs = (narrow env l true).evs ++ (check env r).evs :=
  evs_narrow_logical env .or l r true (by simp) (by simp)
theorem evs_narrow_and_false (l r : E) :
    (narrow env (.logical .and l r) false).evs = (narrow env l false).evs ++ (check env r).evs :=
  evs_narrow_logical env .and l r false (by simp) (by simp)
theorem narrow_null (x : Bool) : narrow env .null x = check env .null := narrow_other env _ x (by simp) (by simp)
theorem narrow_bool (x : Bool) : narrow env .bool x = check env .bool := narrow_other env _ x (by simp) (by simp)
theorem narrow_num (x : Bool) : narrow env .num x = check env .num := narrow_other env _ x (by simp) (by simp)
theorem narrow_str (v : String) (x : Bool) : narrow env (.str v) x = check env (.str v) :=
  narrow_other env _ x (by simp) (by simp)
theorem narrow_var (n : String) (x : Bool) : narrow env (.var n) x = check env (.var n) :=
  narrow_other env _ x (by simp) (by simp)
theorem narrow_call (c : String) (args : List E) (x : Bool) : narrow env (.call c args) x = check env (.call c args) :=
  narrow_other env _ x (by simp) (by simp)
theorem narrow_objDeref (r : E) (p : String) (x : Bool) : narrow env (.objDeref r p) x = check env (.objDeref r p) :=
  narrow_other env _ x (by simp) (by simp)
theorem narrow_arrDeref (r : E) (x : Bool) : narrow env (.arrDeref r) x = check env (.arrDeref r) :=
  narrow_other env _ x (by simp) (by simp)
theorem narrow_index (r i : E) (x : Bool) : narrow env (.index r i) x = check env (.index r i) :=
  narrow_other env _ x (by simp) (by simp)
theorem narrow_cmp (op : CmpOp) (l r : E) (x : Bool) : narrow env (.cmp op l r) x = check env (.cmp op l r) :=
  narrow_other env _ x (by simp) (by simp)

theorem evs_args_nil : (checkArgs env []).2.2 = [] := by rw [checkArgs]
theorem evs_args_cons (a : E) (rest : List E) :
    (checkArgs env (a :: rest)).2.2 = (check env a).evs ++ (checkArgs env rest).2.2 := by rw [checkArgs]
end evs

/-- rewrite `(check Γ e).evs` of a concrete expression into a concrete event list (modulo closed terms
the kernel can evaluate) -/
macro "evs_simp" : tactic => `(tactic| simp only [evs_null, evs_bool, evs_num, evs_str, evs_var, evs_objDeref,
  evs_arrDeref, evs_index, evs_call, evs_not, evs_cmp, evs_logical, dirOf, evs_narrow_and, evs_narrow_or,
  evs_narrow_or_true, evs_narrow_and_false, evs_narrow_not, narrow_null, narrow_bool, narrow_num, narrow_str,
  narrow_var, narrow_call, narrow_objDeref, narrow_arrDeref, narrow_index, narrow_cmp, evs_args_nil, evs_args_cons,
  Bool.not_true, Bool.not_false])

/-! ### nothing happens inside a safe call -/

theorem step_silent (roots : List Trie) (st : State) (k : LeaveKind) (h : 0 < st.safeCalls) (hk : k ≠ .safeCall) :
    st.step roots (.leave k) = st := by
  cases k <;> simp_all [State.step]

/-- a nested safe call (entered under `safeCalls > 0`): enter, a silent body, leave — back to the very
same state -/
theorem exec_safe_bracket (roots : List Trie) (body : List Ev)
    (hb : ∀ st : State, 0 < st.safeCalls → exec roots st body = st) (st : State) (h : 0 < st.safeCalls) :
    exec roots st ([.enterSafeCall] ++ body ++ [.leave .safeCall]) = st := by
  rw [exec_append, exec_append]
  simp only [exec_cons, exec_nil]
  rw [hb _ (by simp [State.step])]
  have : st.safeCalls ≠ 0 := by omega
  simp [State.step, this]

/-- an outermost safe call: enter, a silent body, leave — the net effect is `end()` -/
theorem exec_safe_top (roots : List Trie) (body : List Ev)
    (hb : ∀ st : State, 0 < st.safeCalls → exec roots st body = st) (st : State) (h : st.safeCalls = 0) :
    exec roots st ([.enterSafeCall] ++ body ++ [.leave .safeCall]) = st.finish := by
  rw [exec_append, exec_append]
  simp only [exec_cons, exec_nil]
  rw [hb _ (by simp [State.step])]
  simp [State.step, h, finish_eq]

theorem leaveOf_safe (lower : String → String) (e : E) (h : isSafeE lower e = true) :
    enterOf lower e = [.enterSafeCall] ∧ leaveOf lower e = .safeCall := by
  cases e <;> simp_all [isSafeE, enterOf, leaveOf]

theorem leaveOf_not_safe (lower : String → String) (e : E) (h : isSafeE lower e = false) :
    enterOf lower e = [] ∧ leaveOf lower e ≠ .safeCall := by
  cases e with
  | call c args => simp_all [isSafeE, enterOf, leaveOf]
  | index r i => cases i <;> simp [enterOf, leaveOf]
  | _ => simp [enterOf, leaveOf]

theorem silent_all (roots : List Trie) (env : Env) (e : E) :
    ∀ st : State, 0 < st.safeCalls → exec roots st (check env e).evs = st := by
  apply check.induct env
    (motive1 := fun e => ∀ st : State, 0 < st.safeCalls → exec roots st (check env e).evs = st)
    (motive2 := fun e x => ∀ st : State, 0 < st.safeCalls → exec roots st (narrow env e x).evs = st)
    (motive3 := fun args => ∀ st : State, 0 < st.safeCalls → exec roots st (checkArgs env args).2.2 = st)
  case case1 => intro st h; rw [evs_null]; simp [step_silent _ _ _ h]
  case case2 => intro st h; rw [evs_bool]; simp [step_silent _ _ _ h]
  case case3 => intro st h; rw [evs_num]; simp [step_silent _ _ _ h]
  case case4 => intro v st h; rw [evs_str]; simp [step_silent _ _ _ h]
  case case5 => intro n st h; rw [evs_var]; simp [step_silent _ _ _ h]
  case case6 =>
    intro r p _ _ _ _ _ ih st h
    rw [evs_objDeref, exec_append, ih st h]; simp [step_silent _ _ _ h]
  case case7 =>
    intro r _ _ _ _ ih st h
    rw [evs_arrDeref, exec_append, ih st h]; simp [step_silent _ _ _ h]
  case case8 =>
    intro r i _ _ _ _ _ ihi ihr st h
    rw [evs_index, exec_append, exec_append, ihi st h, ihr st h]
    simp [step_silent _ _ _ h (leaveOf_not_safe env.lower (.index r i) rfl).2]
  case case9 =>
    intro c args ih st h
    rw [evs_call]
    have hb : ∀ st : State, 0 < st.safeCalls → exec roots st (match lookupFuncs (env.lower c) env.funcs with
        | none => []
        | some _ => (checkArgs env args).2.2) = st := by
      intro st h; split
      · rfl
      · exact ih st h
    cases hs : isSafeE env.lower (.call c args)
    · obtain ⟨h1, h2⟩ := leaveOf_not_safe _ _ hs
      rw [h1, exec_append, List.nil_append, hb st h]
      simp [step_silent _ _ _ h h2]
    · obtain ⟨h1, h2⟩ := leaveOf_safe _ _ hs
      rw [h1, h2]; exact exec_safe_bracket roots _ hb st h
  case case10 =>
    intro e ih st h
    rw [evs_not, exec_append, ih st h]; simp [step_silent _ _ _ h]
  case case11 =>
    intro op l r ihl ihr st h
    rw [evs_cmp, exec_append, exec_append, ihl st h, ihr st h]; simp [step_silent _ _ _ h]
  case case12 =>
    intro op l r ihl ihr st h
    have ihl' : exec roots st (narrow env l (dirOf op)).evs = st := by cases op <;> exact ihl st h
    rw [evs_logical, exec_append, exec_append, ihl', ihr st h]; simp [step_silent _ _ _ h]
  case case13 =>
    intro l r ihl ihr st h
    rw [evs_narrow_and, exec_append, ihl st h, ihr st h]
  case case14 =>
    intro l r ihl ihr st h
    rw [evs_narrow_or, exec_append, ihl st h, ihr st h]
  case case15 =>
    intro op l r x h1 h2 ihl ihr st h
    have ihl' : exec roots st (narrow env l (dirOf op)).evs = st := by cases op <;> exact ihl st h
    rw [evs_narrow_logical env op l r x h1 h2, exec_append, ihl', ihr st h]
  case case16 =>
    intro e t ih st h
    rw [evs_narrow_not]; exact ih st h
  case case17 =>
    intro e x _ _ h3 h4 ih st h
    rw [narrow_other env e x h3 h4]; exact ih st h
  case case18 => intro st h; rw [evs_args_nil]; rfl
  case case19 =>
    intro a rest iha ihr st h
    rw [evs_args_cons, exec_append, iha st h, ihr st h]

/-- the events of the argument list of a call are silent under `safeCalls > 0` -/
theorem silent_args (roots : List Trie) (env : Env) (args : List E) :
    ∀ st : State, 0 < st.safeCalls → exec roots st (checkArgs env args).2.2 = st := by
  induction args with
  | nil => intro st h; rw [evs_args_nil]; rfl
  | cons a rest ih =>
    intro st h
    rw [evs_args_cons, exec_append, silent_all roots env a st h, ih st h]

/-- A contains/startsWith/endsWith call entered outside any safe call acts on the machine exactly
like `end()`: nothing inside it is seen, and the chain pending before it is ended. -/
theorem safe_finish (roots : List Trie) (env : Env) (e : E) (hs : isSafeE env.lower e = true) (st : State)
    (h : st.safeCalls = 0) : exec roots st (check env e).evs = st.finish := by
  cases e with
  | call c args =>
    rw [evs_call]
    obtain ⟨h1, h2⟩ := leaveOf_safe _ _ hs
    rw [h1, h2]
    apply exec_safe_top _ _ _ _ h
    intro st h; split
    · rfl
    · exact silent_args roots env args st h
  | _ => simp [isSafeE] at hs

end AL.Insecure
