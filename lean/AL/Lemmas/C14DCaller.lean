import AL.Lemmas.C14DCallee
/-
  Lemmas for AL.Props.C14Doc, part 4: the CALLER's document. For a document the parser accepts without a diagnostic:
  the jobs of the AST are the entries of `jobs:` (`parse_jobs_read`), the `WorkflowCall` of a job with `uses:` is
  `uses:` / `with:` / `secrets:` of the job's node with the keys folded (`parseJob_call_read`), the steps are the elements
  of `steps:` (`parseJob_steps_read`) and a step with `uses:` is an action step whose inputs are the entries of `with:`
  other than `entrypoint` / `args` (`parseStep_action_read`).
-/
namespace AL.C14D
open AL.Yaml AL.PW AL.Ast AL.C10M

/-! ### readers -/

/-- the entries of `with:` / `secrets:` of a calling job as the parser stores them: id = folded key -/
def argsOf (cfg : Cfg) (n : Node) : List (String × CallArg) :=
  (pairs n.content).map fun q => (cfg.lower q.1.value, ⟨newString q.1, newString q.2⟩)

def withArgs (cfg : Cfg) (jn : Node) : Option (List (String × CallArg)) := (attr "with" jn).map (argsOf cfg)

def secretArgs (cfg : Cfg) (jn : Node) : Option (List (String × CallArg)) :=
  match attr "secrets" jn with
  | some s => if s.kind = .scalar then none else some (argsOf cfg s)
  | none => none

/-- `secrets: inherit` -/
def inheritsSecrets (jn : Node) : Bool :=
  match attr "secrets" jn with
  | some s => s.kind = .scalar && s.value = "inherit"
  | none => false

/-- the entries of `jobs:` of a document -/
def jobEntries (doc : Node) : List (Node × Node) :=
  match (rootOf doc).bind (attr "jobs") with
  | some j => secEntries j
  | none => []

/-- the elements of `steps:` of a job node -/
def stepNodes (jn : Node) : List Node :=
  match attr "steps" jn with
  | some s => if s.kind = .sequence then s.content else []
  | none => []

/-- the entries of `with:` of a step that are inputs of the action (`entrypoint` and `args` are not), as the parser stores
them: id = folded key -/
def stepArgs (cfg : Cfg) (n : Node) : List (String × Input) :=
  ((pairs n.content).filter fun q => cfg.lower q.1.value ≠ "entrypoint" && cfg.lower q.1.value ≠ "args").map
    fun q => (cfg.lower q.1.value, ⟨newString q.1, newString q.2⟩)

def stepWith (cfg : Cfg) (sn : Node) : Option (List (String × Input)) := (attr "with" sn).map (stepArgs cfg)

/-! ### `callArgs` -/

theorem callArgs_read (cfg : Cfg) (sec : String) (v : Node)
    (hm : (parseSectionMapping cfg sec v false false).2 = [])
    (hc : (callArgs (parseSectionMapping cfg sec v false false).1).2 = []) :
    (callArgs (parseSectionMapping cfg sec v false false).1).1 = argsOf cfg v := by
  simp only [parseSectionMapping] at hm hc ⊢
  obtain ⟨_, heq, _, _, _⟩ := parseMapping_clean_eq cfg _ v false false hm
  rw [heq] at hc ⊢
  simp only [callArgs] at hc ⊢
  rw [mapKVs_fst, List.map_map]
  have hclean := mapKVs_clean_all _ _ hc
  simp only [argsOf]
  apply List.map_congr_left
  intro q hq
  have := hclean (mkKV cfg false q) (List.mem_map.2 ⟨q, hq, rfl⟩)
  simp only at this
  have hv : (mkKV cfg false q).val = q.2 := rfl
  rw [hv] at this
  have h2 := (AL.C03P.parseString_clean q.2 true this).2
  show ((mkKV cfg false q).id, (⟨(mkKV cfg false q).key, (parseString q.2 true).1⟩ : CallArg)) = _
  rw [h2]
  rfl

/-! ### a job -/

theorem jobKey_uses_keep (cfg : Cfg) (st : JobSt) (kv : KV) (hne : kv.id ≠ "uses") : (jobKey cfg st kv).1.call.uses = st.call.uses := by
  simp only [jobKey]
  split <;> first | rfl | (rename_i h; exact absurd h hne) | (split <;> first | rfl | (split <;> rfl))

theorem jobKey_inputs_keep (cfg : Cfg) (st : JobSt) (kv : KV) (hne : kv.id ≠ "with") : (jobKey cfg st kv).1.call.inputs = st.call.inputs := by
  simp only [jobKey]
  split <;> first | rfl | (rename_i h; exact absurd h hne) | (split <;> first | rfl | (split <;> rfl))

theorem jobKey_secrets_keep (cfg : Cfg) (st : JobSt) (kv : KV) (hne : kv.id ≠ "secrets") :
    (jobKey cfg st kv).1.call.secrets = st.call.secrets ∧ (jobKey cfg st kv).1.call.inheritSecrets = st.call.inheritSecrets := by
  simp only [jobKey]
  split <;> first | exact ⟨rfl, rfl⟩ | (rename_i h; exact absurd h hne) | (split <;> first | exact ⟨rfl, rfl⟩ | (split <;> exact ⟨rfl, rfl⟩))

theorem jobKey_steps_keep (cfg : Cfg) (st : JobSt) (kv : KV) (hne : kv.id ≠ "steps") : (jobKey cfg st kv).1.job.steps = st.job.steps := by
  simp only [jobKey]
  split <;> first | rfl | (rename_i h; exact absurd h hne) | (split <;> first | rfl | (split <;> rfl))

theorem jobKey_job_keeps (cfg : Cfg) (st : JobSt) (kv : KV) :
    (jobKey cfg st kv).1.job.workflowCall = st.job.workflowCall ∧ (jobKey cfg st kv).1.job.id = st.job.id := by
  simp only [jobKey]
  split <;> first | exact ⟨rfl, rfl⟩ | (split <;> first | exact ⟨rfl, rfl⟩ | (split <;> exact ⟨rfl, rfl⟩))

/-- **a job with `uses:`** (accepted by the parser): its `WorkflowCall` is what the job's node says -/
theorem parseJob_call_read (cfg : Cfg) (id : Str) (jn : Node) (hc : (parseJob cfg id jn).2 = []) (vU : Node)
    (hu : attr "uses" jn = some vU) :
    (parseJob cfg id jn).1.id = id ∧
    ∃ c, (parseJob cfg id jn).1.workflowCall = some c ∧ c.uses = some (newString vU) ∧ c.inputs = withArgs cfg jn ∧
      c.secrets = secretArgs cfg jn ∧ c.inheritSecrets = inheritsSecrets jn := by
  refine ⟨AL.C08P.parseJob_id cfg id jn, ?_⟩
  simp only [parseJob] at hc ⊢
  obtain ⟨hc12, hfin⟩ := nil_of_append_nil hc
  obtain ⟨hm, hl⟩ := nil_of_append_nil hc12
  obtain ⟨_, heq, hnd, _, hne⟩ := parseMapping_clean_eq cfg _ jn false true hm
  obtain ⟨hmap, _⟩ := hne rfl
  rw [heq] at hl hfin ⊢
  generalize hinit : ({ job := { id := id, pos := id.pos } } : JobSt) = init at hl hfin ⊢
  have hat : ∀ name, attr name jn = valueOf name (pairs jn.content) := fun name => by simp [attr, hmap]
  -- uses
  have huses := loop_field_clean (jobKey cfg) (fun st => st.call.uses) "uses" (fun _ kv => some (parseString kv.val false).1)
    (by intro st a ha _; simp only [jobKey, ha])
    (by intro st a ha _; exact jobKey_uses_keep cfg st a ha)
    _ init hnd hl
  rw [match_find_val cfg "uses" (fun x => some (parseString x false).1) _ (pairs jn.content), ← hat, hu] at huses
  simp only [Option.elim] at huses
  have hvU : (parseString vU false).1 = newString vU := by
    rw [hat] at hu
    obtain ⟨k, hmem, hkv⟩ := valueOf_mem hu
    obtain ⟨st, hst⟩ := loop_clean_mem (jobKey cfg) _ init hl (mkKV cfg true (k, vU)) (List.mem_map.2 ⟨_, hmem, rfl⟩)
    have hid : (mkKV cfg true (k, vU)).id = "uses" := hkv
    simp only [jobKey, hid] at hst
    exact (AL.C03P.parseString_clean vU false hst).2
  rw [hvU] at huses
  -- with
  have hwith := loop_field_clean (jobKey cfg) (fun st => st.call.inputs) "with"
    (fun _ kv => some (callArgs (parseSectionMapping cfg "with" kv.val false false).1).1)
    (by intro st a ha _; simp only [jobKey, ha])
    (by intro st a ha _; exact jobKey_inputs_keep cfg st a ha)
    _ init hnd hl
  rw [match_find_val cfg "with" (fun x => some (callArgs (parseSectionMapping cfg "with" x false false).1).1) _ (pairs jn.content)] at hwith
  have hwith' : (loop (jobKey cfg) init ((pairs jn.content).map (mkKV cfg true))).1.call.inputs = withArgs cfg jn := by
    rw [hwith]
    simp only [withArgs, hat]
    cases hv : valueOf "with" (pairs jn.content) with
    | none => subst hinit; rfl
    | some w =>
      simp only [Option.elim, Option.map_some]
      obtain ⟨k, hmem, hkv⟩ := valueOf_mem hv
      obtain ⟨st, hst⟩ := loop_clean_mem (jobKey cfg) _ init hl (mkKV cfg true (k, w)) (List.mem_map.2 ⟨_, hmem, rfl⟩)
      have hid : (mkKV cfg true (k, w)).id = "with" := hkv
      simp only [jobKey, hid] at hst
      obtain ⟨h1, h2⟩ := nil_of_append_nil hst
      rw [callArgs_read cfg "with" w h1 h2]
  -- secrets
  have hsec := loop_field_clean (jobKey cfg) (fun st => st.call.secrets) "secrets"
    (fun old kv => if kv.val.kind = .scalar then old else some (callArgs (parseSectionMapping cfg "secrets" kv.val false false).1).1)
    (by intro st a ha _
        simp only [jobKey, ha]
        split
        · split <;> rfl
        · rfl)
    (by intro st a ha _; exact (jobKey_secrets_keep cfg st a ha).1)
    _ init hnd hl
  rw [match_find_val cfg "secrets" (fun x => if x.kind = .scalar then init.call.secrets else
    some (callArgs (parseSectionMapping cfg "secrets" x false false).1).1) _ (pairs jn.content)] at hsec
  have hsec' : (loop (jobKey cfg) init ((pairs jn.content).map (mkKV cfg true))).1.call.secrets = secretArgs cfg jn := by
    rw [hsec]
    simp only [secretArgs, hat]
    cases hv : valueOf "secrets" (pairs jn.content) with
    | none => subst hinit; rfl
    | some w =>
      simp only [Option.elim]
      by_cases hk : w.kind = .scalar
      · simp only [hk, if_true]; subst hinit; rfl
      · simp only [hk, if_false]
        obtain ⟨k, hmem, hkv⟩ := valueOf_mem hv
        obtain ⟨st, hst⟩ := loop_clean_mem (jobKey cfg) _ init hl (mkKV cfg true (k, w)) (List.mem_map.2 ⟨_, hmem, rfl⟩)
        have hid : (mkKV cfg true (k, w)).id = "secrets" := hkv
        have hv2 : (mkKV cfg true (k, w)).val = w := rfl
        simp only [jobKey, hid, hv2, hk, if_false] at hst
        obtain ⟨h1, h2⟩ := nil_of_append_nil hst
        rw [callArgs_read cfg "secrets" w h1 h2]
  -- inherit
  have hinh := loop_field_clean (jobKey cfg) (fun st => st.call.inheritSecrets) "secrets"
    (fun old kv => if kv.val.kind = .scalar then (if kv.val.value = "inherit" then true else old) else old)
    (by intro st a ha _
        simp only [jobKey, ha]
        split
        · split <;> rfl
        · rfl)
    (by intro st a ha _; exact (jobKey_secrets_keep cfg st a ha).2)
    _ init hnd hl
  rw [match_find_val cfg "secrets" (fun x => if x.kind = .scalar then (if x.value = "inherit" then true else init.call.inheritSecrets)
    else init.call.inheritSecrets) _ (pairs jn.content)] at hinh
  have hinh' : (loop (jobKey cfg) init ((pairs jn.content).map (mkKV cfg true))).1.call.inheritSecrets = inheritsSecrets jn := by
    rw [hinh]
    simp only [inheritsSecrets, hat]
    have h0 : init.call.inheritSecrets = false := by subst hinit; rfl
    cases hv : valueOf "secrets" (pairs jn.content) with
    | none => simp [h0]
    | some w =>
      simp only [Option.elim, h0]
      by_cases hk : w.kind = .scalar <;> by_cases hv : w.value = "inherit" <;> simp [hk, hv]
  -- the finish
  have hsome : (loop (jobKey cfg) init ((pairs jn.content).map (mkKV cfg true))).1.call.uses.isSome = true := by rw [huses]; rfl
  simp only [jobFinish, hsome, if_true] at hfin ⊢
  cases hso : (loop (jobKey cfg) init ((pairs jn.content).map (mkKV cfg true))).1.stepsOnlyKey with
  | some k => simp [hso] at hfin
  | none =>
    simp only
    exact ⟨_, rfl, huses, hwith', hsec', hinh'⟩

/-- the steps of a job the parser accepts are the elements of `steps:`, each parsed without a diagnostic -/
theorem parseSteps_read (cfg : Cfg) (s : Node) (hc : (parseSteps cfg s).2 = []) :
    s.kind = .sequence ∧ (parseSteps cfg s).1 = some (s.content.map fun c => (parseStep cfg c).1) ∧
      ∀ c ∈ s.content, (parseStep cfg c).2 = [] := by
  simp only [parseSteps] at hc ⊢
  have hk : s.kind = .sequence := by
    by_cases hk : s.kind = .sequence
    · exact hk
    · simp [checkSequence, hk] at hc
  have hcs : (checkSequence "steps" s false).1 = true := by
    simp only [checkSequence, hk, ne_eq, not_true_eq_false, if_false, Bool.false_eq_true, checkNotEmpty] at hc ⊢
    split
    · rename_i h0; simp [h0] at hc
    · rfl
  simp only [hcs, Bool.not_true, Bool.false_eq_true, if_false] at hc ⊢
  obtain ⟨_, h2⟩ := nil_of_append_nil hc
  have : ∀ (l : List Node), (stepsOf cfg l).2 = [] → (stepsOf cfg l).1 = l.map (fun c => (parseStep cfg c).1) ∧
      ∀ c ∈ l, (parseStep cfg c).2 = [] := by
    intro l
    induction l with
    | nil => intro _; simp [stepsOf]
    | cons c cs ih =>
      intro h
      simp only [stepsOf] at h ⊢
      obtain ⟨h1, h2⟩ := nil_of_append_nil h
      obtain ⟨ih1, ih2⟩ := ih h2
      refine ⟨by rw [ih1]; rfl, ?_⟩
      intro c' hc'
      rcases List.mem_cons.1 hc' with rfl | hc'
      · exact h1
      · exact ih2 c' hc'
  obtain ⟨h3, h4⟩ := this _ h2
  exact ⟨hk, by rw [h3], h4⟩

/-- **the steps of a job** (accepted by the parser) -/
theorem parseJob_steps_read (cfg : Cfg) (id : Str) (jn : Node) (hc : (parseJob cfg id jn).2 = []) (hu : attr "uses" jn = none) :
    ((parseJob cfg id jn).1.steps.getD []) = (stepNodes jn).map (fun c => (parseStep cfg c).1) ∧
      ∀ c ∈ stepNodes jn, (parseStep cfg c).2 = [] := by
  simp only [parseJob] at hc ⊢
  obtain ⟨hc12, hfin⟩ := nil_of_append_nil hc
  obtain ⟨hm, hl⟩ := nil_of_append_nil hc12
  obtain ⟨_, heq, hnd, _, hne⟩ := parseMapping_clean_eq cfg _ jn false true hm
  obtain ⟨hmap, _⟩ := hne rfl
  rw [heq] at hl hfin ⊢
  generalize hinit : ({ job := { id := id, pos := id.pos } } : JobSt) = init at hl hfin ⊢
  have hat : ∀ name, attr name jn = valueOf name (pairs jn.content) := fun name => by simp [attr, hmap]
  have huses := loop_field_clean (jobKey cfg) (fun st => st.call.uses) "uses" (fun _ kv => some (parseString kv.val false).1)
    (by intro st a ha _; simp only [jobKey, ha])
    (by intro st a ha _; exact jobKey_uses_keep cfg st a ha)
    _ init hnd hl
  rw [match_find_val cfg "uses" (fun x => some (parseString x false).1) _ (pairs jn.content), ← hat, hu] at huses
  have hnone : (loop (jobKey cfg) init ((pairs jn.content).map (mkKV cfg true))).1.call.uses.isSome = false := by
    rw [huses]; subst hinit; rfl
  have hsteps := loop_field_clean (jobKey cfg) (fun st => st.job.steps) "steps" (fun _ kv => (parseSteps cfg kv.val).1)
    (by intro st a ha _; simp only [jobKey, ha])
    (by intro st a ha _; exact jobKey_steps_keep cfg st a ha)
    _ init hnd hl
  rw [match_find_val cfg "steps" (fun x => (parseSteps cfg x).1) _ (pairs jn.content)] at hsteps
  simp only [jobFinish, hnone, Bool.false_eq_true, if_false]
  rw [hsteps]
  simp only [stepNodes, hat]
  cases hv : valueOf "steps" (pairs jn.content) with
  | none => subst hinit; simp
  | some s =>
    simp only [Option.elim]
    obtain ⟨k, hmem, hkv⟩ := valueOf_mem hv
    obtain ⟨st, hst⟩ := loop_clean_mem (jobKey cfg) _ init hl (mkKV cfg true (k, s)) (List.mem_map.2 ⟨_, hmem, rfl⟩)
    have hid : (mkKV cfg true (k, s)).id = "steps" := hkv
    simp only [jobKey, hid] at hst
    obtain ⟨hk, h1, h2⟩ := parseSteps_read cfg s hst
    simp only [hk, if_true]
    refine ⟨by rw [h1]; rfl, h2⟩

/-- a job without `uses:` (accepted by the parser) calls nothing -/
theorem parseJob_nocall (cfg : Cfg) (id : Str) (jn : Node) (hc : (parseJob cfg id jn).2 = []) (hu : attr "uses" jn = none) :
    (parseJob cfg id jn).1.workflowCall = none := by
  simp only [parseJob] at hc ⊢
  obtain ⟨hc12, _⟩ := nil_of_append_nil hc
  obtain ⟨hm, hl⟩ := nil_of_append_nil hc12
  obtain ⟨_, heq, hnd, _, hne⟩ := parseMapping_clean_eq cfg _ jn false true hm
  obtain ⟨hmap, _⟩ := hne rfl
  rw [heq] at hl ⊢
  generalize hinit : ({ job := { id := id, pos := id.pos } } : JobSt) = init at hl ⊢
  have hat : ∀ name, attr name jn = valueOf name (pairs jn.content) := fun name => by simp [attr, hmap]
  have huses := loop_field_clean (jobKey cfg) (fun st => st.call.uses) "uses" (fun _ kv => some (parseString kv.val false).1)
    (by intro st a ha _; simp only [jobKey, ha])
    (by intro st a ha _; exact jobKey_uses_keep cfg st a ha)
    _ init hnd hl
  rw [match_find_val cfg "uses" (fun x => some (parseString x false).1) _ (pairs jn.content), ← hat, hu] at huses
  have hnone : (loop (jobKey cfg) init ((pairs jn.content).map (mkKV cfg true))).1.call.uses.isSome = false := by
    rw [huses]; subst hinit; rfl
  have hwc : (loop (jobKey cfg) init ((pairs jn.content).map (mkKV cfg true))).1.job.workflowCall = none :=
    loop_inv' (jobKey cfg) (fun st => st.job.workflowCall = none) _
      (fun s a hp => (jobKey_job_keeps cfg s a).1.trans hp) init (by subst hinit; rfl)
  simp only [jobFinish, hnone, Bool.false_eq_true, if_false]
  exact hwc

theorem jobKey_sok_mono (cfg : Cfg) (st : JobSt) (kv : KV) (h : (jobKey cfg st kv).1.stepsOnlyKey = none) : st.stepsOnlyKey = none := by
  revert h
  simp only [jobKey]
  split <;> first | exact id | (intro h; cases h) | (split <;> first | exact id | (intro h; cases h) | (split <;> first | exact id | (intro h; cases h)))

/-- a job with `uses:` (accepted by the parser) has no steps -/
theorem parseJob_call_nosteps (cfg : Cfg) (id : Str) (jn : Node) (hc : (parseJob cfg id jn).2 = []) (vU : Node)
    (hu : attr "uses" jn = some vU) : (parseJob cfg id jn).1.steps = none := by
  simp only [parseJob] at hc ⊢
  obtain ⟨hc12, hfin⟩ := nil_of_append_nil hc
  obtain ⟨hm, hl⟩ := nil_of_append_nil hc12
  obtain ⟨_, heq, hnd, _, hne⟩ := parseMapping_clean_eq cfg _ jn false true hm
  obtain ⟨hmap, _⟩ := hne rfl
  rw [heq] at hl hfin ⊢
  generalize hinit : ({ job := { id := id, pos := id.pos } } : JobSt) = init at hl hfin ⊢
  have hat : ∀ name, attr name jn = valueOf name (pairs jn.content) := fun name => by simp [attr, hmap]
  have huses := loop_field_clean (jobKey cfg) (fun st => st.call.uses) "uses" (fun _ kv => some (parseString kv.val false).1)
    (by intro st a ha _; simp only [jobKey, ha])
    (by intro st a ha _; exact jobKey_uses_keep cfg st a ha)
    _ init hnd hl
  rw [match_find_val cfg "uses" (fun x => some (parseString x false).1) _ (pairs jn.content), ← hat, hu] at huses
  have hsome : (loop (jobKey cfg) init ((pairs jn.content).map (mkKV cfg true))).1.call.uses.isSome = true := by rw [huses]; rfl
  have hinv : (loop (jobKey cfg) init ((pairs jn.content).map (mkKV cfg true))).1.stepsOnlyKey = none →
      (loop (jobKey cfg) init ((pairs jn.content).map (mkKV cfg true))).1.job.steps = none :=
    loop_inv' (jobKey cfg) (fun st => st.stepsOnlyKey = none → st.job.steps = none) _
      (fun s a hp hn => by
        by_cases ha : a.id = "steps"
        · exfalso
          simp only [jobKey, ha] at hn
          cases hn
        · rw [jobKey_steps_keep cfg s a ha]
          exact hp (jobKey_sok_mono cfg s a hn))
      init (by subst hinit; intro _; rfl)
  simp only [jobFinish, hsome, if_true] at hfin ⊢
  cases hso : (loop (jobKey cfg) init ((pairs jn.content).map (mkKV cfg true))).1.stepsOnlyKey with
  | some k => simp [hso] at hfin
  | none => simp only; exact hinv hso

/-! ### the jobs of a document -/

theorem workflowKey_jobs_keep (cfg : Cfg) (w : Workflow) (kv : KV) (hne : kv.id ≠ "jobs") : (workflowKey cfg w kv).1.jobs = w.jobs := by
  simp only [workflowKey]
  split <;> first | rfl | (rename_i heq; exact absurd heq hne)

/-- **the jobs of a document the parser accepts**: one per entry of `jobs:`, under the folded key, each parsed without a
diagnostic -/
theorem parse_jobs_read (cfg : Cfg) (doc : Node) (hc : (parse cfg doc).2 = []) :
    (parse cfg doc).1.jobs.getD [] = (jobEntries doc).map (fun q => (cfg.lower q.1.value, (parseJob cfg (newString q.1) q.2).1)) ∧
      (∀ q ∈ jobEntries doc, (parseJob cfg (newString q.1) q.2).2 = []) ∧
      ((jobEntries doc).map fun q => cfg.lower q.1.value).Nodup := by
  cases hd : doc.content with
  | nil =>
    have hfix : (fixDocPos doc).content = [] := by rw [fixDocPos_content, hd]
    simp [parse, hfix] at hc
  | cons root rest =>
    have hfix : (fixDocPos doc).content = root :: rest := by rw [fixDocPos_content, hd]
    simp only [parse, hfix] at hc ⊢
    obtain ⟨hc12, _⟩ := nil_of_append_nil hc
    obtain ⟨hc12, _⟩ := nil_of_append_nil hc12
    obtain ⟨hpm, hl⟩ := nil_of_append_nil hc12
    obtain ⟨_, heq, hnd, _, hne⟩ := parseMapping_clean_eq cfg _ root false true hpm
    obtain ⟨hmap, _⟩ := hne rfl
    rw [heq] at hl ⊢
    have hjobs := loop_field_clean (workflowKey cfg) (fun w => w.jobs) "jobs" (fun _ kv => some (parseJobs cfg kv.val).1)
      (by intro st a ha _; simp only [workflowKey, ha])
      (by intro st a ha _; exact workflowKey_jobs_keep cfg st a ha)
      _ {} hnd hl
    rw [match_find_val cfg "jobs" (fun x => some (parseJobs cfg x).1) _ (pairs root.content)] at hjobs
    rw [hjobs]
    have hje : (rootOf doc).bind (attr "jobs") = valueOf "jobs" (pairs root.content) := by
      simp [rootOf, hd, attr, hmap]
    simp only [jobEntries, hje]
    cases hv : valueOf "jobs" (pairs root.content) with
    | none => simp
    | some jv =>
      simp only [Option.elim, Option.getD_some]
      obtain ⟨k, hmem, hkv⟩ := valueOf_mem hv
      obtain ⟨st, hst⟩ := loop_clean_mem (workflowKey cfg) _ {} hl (mkKV cfg true (k, jv)) (List.mem_map.2 ⟨_, hmem, rfl⟩)
      have hid : (mkKV cfg true (k, jv)).id = "jobs" := hkv
      simp only [workflowKey, hid] at hst
      have hv2 : (mkKV cfg true (k, jv)).val = jv := rfl
      rw [hv2] at hst
      simp only [parseJobs, parseSectionMapping] at hst ⊢
      obtain ⟨h1, h2⟩ := nil_of_append_nil hst
      obtain ⟨_, heq2, hnd2, _, hne2⟩ := parseMapping_clean_eq cfg _ jv false false h1
      obtain ⟨hmap2, _⟩ := hne2 rfl
      rw [heq2] at h2 ⊢
      rw [mapKVs_fst, List.map_map]
      have hcl := mapKVs_clean_all _ _ h2
      simp only [secEntries, hmap2, if_true]
      refine ⟨rfl, ?_, ?_⟩
      · intro q hq
        exact hcl (mkKV cfg false q) (List.mem_map.2 ⟨q, hq, rfl⟩)
      · rw [List.map_map] at hnd2
        exact hnd2

end AL.C14D
