import AL.Lemmas.C03PMatrix
/-
  C03Parse, level 3: `parseJob`. The walk over a job node (`jobScalars`), the strings the loop state holds under each key
  (`jobK`), `jobKey_store`, `jobK_pres`, `jobK_final`, and the theorem `parseJob_leaf`; `parseJobs_leaf` for the `jobs:` section.
-/
namespace AL.C03P
open AL.PW AL.Yaml AL.Ast AL.C03R

/-- the strings the loop of `parseJob` holds under the key `k` -/
def jobK (k : String) (st : JobSt) : List Str :=
  match k with
  | "name" => st.job.name.toList
  | "needs" => st.job.needs.getD []
  | "runs-on" => runnerStrs st.job.runsOn
  | "environment" => (match st.job.environment with | some e => environmentStrs e | none => [])
  | "concurrency" => concurrencyStrs st.job.concurrency
  | "outputs" => (st.job.outputs.getD []).map (·.2.value)
  | "env" => envStrs st.job.env
  | "defaults" => defaultsStrs st.job.defaults
  | "if" => st.job.cond.toList
  | "steps" => (st.job.steps.getD []).flatMap stepStrs
  | "timeout-minutes" => floatStrs st.job.timeoutMinutes
  | "strategy" => (match st.job.strategy with | some s => strategyAllStrs s | none => [])
  | "continue-on-error" => boolStrs st.job.continueOnError
  | "container" => containerStrs st.job.container
  | "services" => servicesStrs st.job.services
  | "uses" => st.call.uses.toList
  | "with" => if st.callOnlyKey.isSome then (st.call.inputs.getD []).map (·.2.value) else []
  | "secrets" => if st.callOnlyKey.isSome then (st.call.secrets.getD []).map (·.2.value) else []
  | _ => []

theorem jobK_pres (cfg : Cfg) (k : String) (st : JobSt) (kv : KV) (hne : kv.id ≠ k) :
    ∀ s ∈ jobK k st, s ∈ jobK k (jobKey cfg st kv).1 := by
  intro s hs
  simp only [jobKey]
  split
  all_goals (try split)
  all_goals (try split)
  all_goals (simp only [jobK] at hs ⊢; split at hs)
  all_goals first | exact hs | exact absurd ‹kv.id = _› hne | skip
  all_goals (split at hs <;> first | (simp only [Option.isSome_some, ↓reduceIte]; exact hs) | cases hs)

theorem jobKey_store (cfg : Cfg) (st : JobSt) (kv : KV) (v : Node) (hv : v ∈ jobKeyScalars kv.id kv.val)
    (hc : (jobKey cfg st kv).2 = []) : Rep v (jobK kv.id (jobKey cfg st kv).1) := by
  revert hc
  simp only [jobKey]
  split
  next h =>  -- name
    intro hc; simp only [h, jobKeyScalars] at hv; simp only [h, jobK]
    exact (parseString_leaf _ _ v hv hc).mono (by simp)
  next h =>  -- needs
    simp only [h, jobKeyScalars] at hv; simp only [h, jobK]
    split
    · intro hc; exact (parseString_leaf _ _ v hv hc).mono (by simp)
    · intro hc; exact parseStringSequence_leaf _ _ _ _ v hv hc
  next h =>  -- runs-on
    intro hc; simp only [h, jobKeyScalars] at hv; simp only [h, jobK]
    exact parseRunsOn_leaf cfg _ v hv hc
  next h => simp [h, jobKeyScalars] at hv  -- permissions
  next h =>  -- environment
    intro hc; simp only [h, jobKeyScalars] at hv; simp only [h, jobK]
    exact parseEnvironment_leaf cfg _ _ v hv hc
  next h =>  -- concurrency
    intro hc; simp only [h, jobKeyScalars] at hv; simp only [h, jobK]
    exact parseConcurrency_leaf cfg _ _ v hv hc
  next h =>  -- outputs
    intro hc; simp only [h, jobKeyScalars] at hv; simp only [h, jobK]
    exact parseOutputs_leaf cfg _ v hv hc
  next h =>  -- env
    intro hc; simp only [h, jobKeyScalars] at hv; simp only [h, jobK]
    exact parseEnv_leaf cfg _ v hv hc
  next h =>  -- defaults
    intro hc; simp only [h, jobKeyScalars] at hv; simp only [h, jobK]
    exact parseDefaults_leaf cfg _ _ v hv hc
  next h =>  -- if
    intro hc; simp only [h, jobKeyScalars] at hv; simp only [h, jobK]
    exact (parseString_leaf _ _ v hv hc).mono (by simp)
  next h =>  -- steps
    intro hc; simp only [h, jobKeyScalars] at hv; simp only [h, jobK]
    exact parseSteps_leaf cfg _ v hv hc
  next h =>  -- timeout-minutes
    intro hc; simp only [h, jobKeyScalars] at hv; simp only [h, jobK]
    exact parseTimeoutMinutes_leaf cfg _ v hv hc
  next h =>  -- strategy
    intro hc; simp only [h, jobKeyScalars] at hv; simp only [h, jobK]
    exact parseStrategy_leaf cfg _ _ v hv hc
  next h =>  -- continue-on-error
    intro hc; simp only [h, jobKeyScalars] at hv; simp only [h, jobK]
    exact parseBool_leaf _ v hv hc
  next h =>  -- container
    intro hc; simp only [h, jobKeyScalars] at hv; simp only [h, jobK]
    exact parseContainer_leaf cfg _ _ _ v hv hc
  next h =>  -- services
    intro hc; simp only [h, jobKeyScalars] at hv; simp only [h, jobK]
    exact parseServices_leaf cfg _ v hv hc
  next h =>  -- uses
    intro hc; simp only [h, jobKeyScalars] at hv; simp only [h, jobK]
    exact (parseString_leaf _ _ v hv hc).mono (by simp)
  next h =>  -- with
    intro hc; simp only [h, jobKeyScalars] at hv; simp only [h, jobK]
    simp only [append_nil_iff] at hc
    simp only [Option.isSome_some, ↓reduceIte, Option.getD_some]
    exact callArgs_leaf cfg "with" _ v hv hc.1 hc.2
  next h =>  -- secrets
    simp only [h, jobKeyScalars] at hv; simp only [h, jobK]
    split
    · rename_i hk
      split
      · rename_i hi
        simp [hk, hi] at hv
      · intro hc; simp at hc
    · rename_i hk
      intro hc
      simp only [hk, Bool.false_and, decide_false, Bool.false_eq_true, ↓reduceIte] at hv
      simp only [append_nil_iff] at hc
      simp only [Option.isSome_some, ↓reduceIte, Option.getD_some]
      exact callArgs_leaf cfg "secrets" _ v hv hc.1 hc.2
  next => intro hc; simp at hc

end AL.C03P
