import AL.Model.Lint
import AL.Lemmas.LintSort
/-
  C02 lemmas: a list sorted w.r.t. `less` is determined by its per-key sublists; writing `results[i]`
  into slot `i` in any completion order fills the slots in index order.
-/
namespace AL.Lint

/-! ### a sorted list is determined by its key classes -/

theorem filter_key_cons_self (x : D) (xs : List D) :
    (x :: xs).filter (fun d => key d = key x) = x :: xs.filter (fun d => key d = key x) := by
  simp

theorem filter_key_cons_ne {x : D} {k : String × Nat × Nat} (h : key x ≠ k) (xs : List D) :
    (x :: xs).filter (fun d => key d = k) = xs.filter (fun d => key d = k) := by
  simp [h]

theorem eq_nil_of_filter_key_nil {l : List D} (h : ∀ k, l.filter (fun d => key d = k) = []) : l = [] := by
  cases l with
  | nil => rfl
  | cons y ys =>
    have := h (key y)
    rw [filter_key_cons_self] at this
    cases this

/-- two lists, both sorted w.r.t. `less`, that agree on every key class are equal: equal keys are
contiguous and the blocks come in strictly increasing key order -/
theorem sorted_eq_of_filter_key_eq {l₁ l₂ : List D} (h₁ : SortedL l₁) (h₂ : SortedL l₂)
    (h : ∀ k, l₁.filter (fun d => key d = k) = l₂.filter (fun d => key d = k)) : l₁ = l₂ := by
  induction l₁ generalizing l₂ with
  | nil => exact (eq_nil_of_filter_key_nil (fun k => (h k).symm)).symm
  | cons x xs ih =>
    cases l₂ with
    | nil => exact eq_nil_of_filter_key_nil h
    | cons y ys =>
      have hs₁ := List.pairwise_cons.1 h₁
      have hs₂ := List.pairwise_cons.1 h₂
      -- the two heads have the same key
      have hk : key x = key y := by
        by_cases hk : key x = key y
        · exact hk
        · -- `x` occurs in `ys` and `y` occurs in `xs`, so neither is less than the other
          have hx : x ∈ ys := by
            have hm : x ∈ (y :: ys).filter (fun d => key d = key x) := by
              rw [← h (key x), filter_key_cons_self]; exact List.mem_cons_self
            rw [filter_key_cons_ne (fun e => hk e.symm)] at hm
            exact (List.mem_filter.1 hm).1
          have hy : y ∈ xs := by
            have hm : y ∈ (x :: xs).filter (fun d => key d = key y) := by
              rw [h (key y), filter_key_cons_self]; exact List.mem_cons_self
            rw [filter_key_cons_ne hk] at hm
            exact (List.mem_filter.1 hm).1
          exact (less_incomp_iff x y).1 ⟨hs₂.1 x hx, hs₁.1 y hy⟩
      -- hence they are the same element
      have hxy : x = y ∧ xs.filter (fun d => key d = key x) = ys.filter (fun d => key d = key x) := by
        have := h (key x)
        rw [filter_key_cons_self] at this
        conv at this => rhs; rw [hk, filter_key_cons_self, ← hk]
        exact List.cons.inj this
      obtain ⟨rfl, htail⟩ := hxy
      congr 1
      apply ih hs₁.2 hs₂.2
      intro k
      by_cases hkx : key x = k
      · rw [← hkx]; exact htail
      · have := h k
        rwa [filter_key_cons_ne hkx, filter_key_cons_ne hkx] at this

/-- the stable sort depends only on the key classes of its input -/
theorem stableSort_eq_of_filter_key_eq {l₁ l₂ : List D}
    (h : ∀ k, l₁.filter (fun d => key d = k) = l₂.filter (fun d => key d = k)) :
    stableSort l₁ = stableSort l₂ := by
  apply sorted_eq_of_filter_key_eq (stableSort_sorted l₁) (stableSort_sorted l₂)
  intro k
  rw [stableSort_filter_key, stableSort_filter_key, h k]

/-! ### slots written in any order -/

/-- one goroutine finishing: slot `i` receives `results[i]` -/
abbrev writeSlot {α : Type} (results : List α) : List (Option α) → Nat → List (Option α) :=
  fun acc i => acc.set i (results[i]?)

theorem length_foldl_writeSlot {α : Type} (results : List α) (finish : List Nat) (acc : List (Option α)) :
    (finish.foldl (writeSlot results) acc).length = acc.length := by
  induction finish generalizing acc with
  | nil => rfl
  | cons i rest ih => simp [List.foldl_cons, ih]

/-- invariant: after the writes in `finish`, slot `j` holds `results[j]` iff `j` was written -/
theorem getElem?_foldl_writeSlot {α : Type} (results : List α) (finish : List Nat) (acc : List (Option α))
    (j : Nat) :
    (finish.foldl (writeSlot results) acc)[j]? =
      if j ∈ finish ∧ j < acc.length then some (results[j]?) else acc[j]? := by
  induction finish generalizing acc with
  | nil => simp
  | cons i rest ih =>
    rw [List.foldl_cons, ih]
    simp only [writeSlot, List.length_set, List.getElem?_set, List.mem_cons]
    by_cases hjr : j ∈ rest
    · by_cases hjl : j < acc.length
      · simp [hjr, hjl]
      · simp only [hjr, hjl, and_false, if_false]
        by_cases hij : i = j
        · subst hij; simp [hjl]
        · simp [hij]
    · by_cases hij : i = j
      · subst hij
        by_cases hjl : i < acc.length <;> simp [hjr, hjl]
      · have : ¬ j = i := fun e => hij e.symm
        simp [hjr, hij, this]

/-- if every index below `results.length` is written (in any order, any number of times, and whatever
else is in `finish`), the collected slots are exactly `results` -/
theorem collect_slots {α : Type} (results : List α) (finish : List Nat)
    (hall : ∀ j, j < results.length → j ∈ finish) :
    (finish.foldl (writeSlot results) (List.replicate results.length none)).filterMap id = results := by
  have : finish.foldl (writeSlot results) (List.replicate results.length none) = results.map some := by
    apply List.ext_getElem?
    intro j
    rw [getElem?_foldl_writeSlot, List.length_replicate]
    by_cases hj : j < results.length
    · simp [hall j hj, hj]
    · simp [hj]
  rw [this, List.filterMap_map]
  simp

end AL.Lint
