import AL.Lemmas.SemaMonoBasic
/-
  C06: monotonicity (for `LooserD`) and well-formedness preservation of the non-recursive type rules
  `objDerefTy`, `arrDerefTy`, `indexTy`, `checkSig`, `resolveCall`.
-/
namespace AL.Sema
open AL AL.Ty AL.Spec

/-! ### the rules do not look at `vars` -/

theorem objDerefTy_setVars (Γ : Env) (vs : List (String × Ty)) : objDerefTy (Γ.setVars vs) = objDerefTy Γ := rfl
theorem indexTy_setVars (Γ : Env) (vs : List (String × Ty)) : indexTy (Γ.setVars vs) = indexTy Γ := rfl
theorem builtinCall_setVars (Γ : Env) (vs : List (String × Ty)) : builtinCall (Γ.setVars vs) = builtinCall Γ := rfl

/-! ### object dereference -/

theorem objDerefTy_mono (Γ : Env) (b : Bool) (p : String) {t t' : Ty} (h : LooserD t t')
    (he : (objDerefTy Γ b p t).2 = []) :
    (objDerefTy Γ b p t').2 = [] ∧ LooserD (objDerefTy Γ b p t).1 (objDerefTy Γ b p t').1 := by
  cases h with
  | any => exact ⟨rfl, .any _⟩
  | null => simp [objDerefTy] at he
  | number => simp [objDerefTy] at he
  | bool => simp [objDerefTy] at he
  | string => simp [objDerefTy] at he
  | @arr e e' d d' hel hc =>
    cases d with
    | false => simp [objDerefTy] at he
    | true =>
      have hd' : d' = true := hc rfl
      subst hd'
      cases hel with
      | any =>
        refine ⟨by simp [objDerefTy], ?_⟩
        have : ∃ X, (objDerefTy Γ b p (.arr e true)).1 = .arr X true := by
          cases e with
          | any => exact ⟨_, rfl⟩
          | obj eps em =>
            simp only [objDerefTy] at he ⊢
            cases hl : Ty.lookup p eps with
            | some pt => simp
            | none =>
              cases em with
              | some mt => simp
              | none => simp [hl] at he
          | _ => simp [objDerefTy] at he
        obtain ⟨X, hX⟩ := this
        rw [hX]
        simp only [objDerefTy]
        exact .arr (.any _) (fun _ => rfl)
      | null => simp [objDerefTy] at he
      | number => simp [objDerefTy] at he
      | bool => simp [objDerefTy] at he
      | string => simp [objDerefTy] at he
      | arr _ _ => simp [objDerefTy] at he
      | obj hp hm =>
        simp only [objDerefTy] at he ⊢
        rcases hp.lookup (k := p) with ⟨h1, h2⟩ | ⟨pt, pt', h1, h2, hpt⟩
        · cases hm with
          | none => simp [h1] at he
          | opened => simp [h1] at he
          | some hmt => simp only [h1, h2]; exact ⟨by simp, .arr hmt (fun _ => rfl)⟩
        · simp only [h1, h2]; exact ⟨by simp, .arr hpt (fun _ => rfl)⟩
  | obj hp hm =>
    simp only [objDerefTy] at he ⊢
    rcases hp.lookup (k := p) with ⟨h1, h2⟩ | ⟨pt, pt', h1, h2, hpt⟩
    · cases hm with
      | none => simp [h1] at he
      | opened => simp [h1] at he
      | some hmt =>
        simp only [h1, h2] at he ⊢
        exact ⟨he, hmt⟩
    · simp only [h1, h2]; exact ⟨by simp, hpt⟩

theorem objDerefTy_wf (Γ : Env) (b : Bool) (p : String) {t : Ty} (h : wf t = true) :
    wf (objDerefTy Γ b p t).1 = true := by
  cases t with
  | obj ps m =>
    rw [wf_obj] at h
    simp only [Bool.and_eq_true] at h
    simp only [objDerefTy]
    cases hl : Ty.lookup p ps with
    | some pt => exact lookup_wf ps h.1.2 hl
    | none =>
      cases m with
      | some mt => simpa [wfOpt] using h.2
      | none => rfl
  | arr e d =>
    cases d with
    | false => rfl
    | true =>
      cases e with
      | any => exact h
      | obj eps em =>
        simp only [wf] at h
        rw [wf_obj] at h
        simp only [Bool.and_eq_true] at h
        cases hl : Ty.lookup p eps with
        | some pt => simp [objDerefTy, hl, wf, lookup_wf eps h.1.2 hl]
        | none =>
          cases em with
          | some mt => simpa [objDerefTy, hl, wf, wfOpt] using h.2
          | none => simp [objDerefTy, hl, wf]
      | _ => rfl
  | _ => rfl

/-! ### array dereference `.*` -/

def objOrAny (p : String × Ty) : Bool :=
  match p.2 with
  | .obj _ _ => true
  | .any => true
  | _ => false

theorem arrDerefTy_obj_none (ps : List (String × Ty)) :
    arrDerefTy (.obj ps none) =
      if ps.any objOrAny then (.arr .any true, []) else (.any, [err "filter-no-object-elem" [tyStr (.obj ps none)]]) := rfl

theorem any_objOrAny_mono : {ps ps' : List (String × Ty)} → LooserDProps ps ps' →
    ps.any objOrAny = true → ps'.any objOrAny = true
  | _, _, .nil => fun h => h
  | _, _, .cons (k := k) (t := t) (t' := t') h hr => fun ha => by
    simp only [List.any_cons, Bool.or_eq_true] at ha ⊢
    rcases ha with ha | ha
    · left
      cases h <;> simp_all [objOrAny]
    · exact .inr (any_objOrAny_mono hr ha)

theorem arrDerefTy_shape {t : Ty} (he : (arrDerefTy t).2 = []) : ∃ X, (arrDerefTy t).1 = .arr X true := by
  cases t with
  | any => exact ⟨_, rfl⟩
  | arr e d => exact ⟨_, rfl⟩
  | obj ps m =>
    cases m with
    | none =>
      rw [arrDerefTy_obj_none] at he ⊢
      split at he
      · next h => simp [h]
      · simp at he
    | some mt =>
      cases mt with
      | any => exact ⟨_, rfl⟩
      | obj _ _ => exact ⟨_, rfl⟩
      | _ => simp [arrDerefTy] at he
  | _ => simp [arrDerefTy] at he

theorem arrDerefTy_mono {t t' : Ty} (h : LooserD t t') (he : (arrDerefTy t).2 = []) :
    (arrDerefTy t').2 = [] ∧ LooserD (arrDerefTy t).1 (arrDerefTy t').1 := by
  cases h with
  | any =>
    obtain ⟨X, hX⟩ := arrDerefTy_shape he
    rw [hX]
    exact ⟨rfl, .arr (.any _) (fun _ => rfl)⟩
  | null => simp [arrDerefTy] at he
  | number => simp [arrDerefTy] at he
  | bool => simp [arrDerefTy] at he
  | string => simp [arrDerefTy] at he
  | arr hel _ => exact ⟨rfl, .arr hel (fun _ => rfl)⟩
  | @obj ps ps' m m' hp hm =>
    cases hm with
    | none =>
      rw [arrDerefTy_obj_none] at he ⊢
      rw [arrDerefTy_obj_none]
      split at he
      · next h => simp only [h, any_objOrAny_mono hp h, if_true]; exact ⟨trivial, LooserD.refl _⟩
      · simp at he
    | opened =>
      obtain ⟨X, hX⟩ := arrDerefTy_shape he
      rw [hX]
      exact ⟨rfl, .arr (.any _) (fun _ => rfl)⟩
    | some hmt =>
      cases hmt with
      | any =>
        obtain ⟨X, hX⟩ := arrDerefTy_shape he
        rw [hX]
        exact ⟨rfl, .arr (.any _) (fun _ => rfl)⟩
      | null => simp [arrDerefTy] at he
      | number => simp [arrDerefTy] at he
      | bool => simp [arrDerefTy] at he
      | string => simp [arrDerefTy] at he
      | arr _ _ => simp [arrDerefTy] at he
      | obj hp2 hm2 => exact ⟨rfl, .arr (.obj hp2 hm2) (fun _ => rfl)⟩

theorem arrDerefTy_wf {t : Ty} (h : wf t = true) : wf (arrDerefTy t).1 = true := by
  cases t with
  | arr e d => exact h
  | obj ps m =>
    cases m with
    | none =>
      rw [arrDerefTy_obj_none]
      split <;> rfl
    | some mt =>
      rw [wf_obj] at h
      simp only [Bool.and_eq_true, wfOpt] at h
      cases mt with
      | obj _ _ => exact h.2
      | _ => rfl
  | _ => rfl

/-! ### index access -/

theorem indexTy_mono (Γ : Env) (lit : Option String) {idx idx' t t' : Ty} (hi : LooserD idx idx')
    (h : LooserD t t') (he : (indexTy Γ lit idx t).2 = []) :
    (indexTy Γ lit idx' t').2 = [] ∧ LooserD (indexTy Γ lit idx t).1 (indexTy Γ lit idx' t').1 := by
  cases h with
  | any => exact ⟨rfl, .any _⟩
  | null => simp [indexTy] at he
  | number => simp [indexTy] at he
  | bool => simp [indexTy] at he
  | string => simp [indexTy] at he
  | arr hel _ =>
    cases hi with
    | any =>
      cases idx with
      | any => exact ⟨rfl, hel⟩
      | number => exact ⟨rfl, hel⟩
      | _ => simp [indexTy] at he
    | number => exact ⟨rfl, hel⟩
    | _ => simp [indexTy] at he
  | obj hp hm =>
    cases hi with
    | any => exact ⟨rfl, .any _⟩
    | string =>
      cases lit with
      | some v =>
        simp only [indexTy] at he ⊢
        rcases hp.lookup (k := Γ.lower v) with ⟨h1, h2⟩ | ⟨pt, pt', h1, h2, hpt⟩
        · cases hm with
          | none => simp [h1] at he
          | opened => simp [h1] at he
          | some hmt => simp only [h1, h2]; exact ⟨trivial, hmt⟩
        · simp only [h1, h2]; exact ⟨trivial, hpt⟩
      | none =>
        cases hm with
        | none => exact ⟨rfl, .any _⟩
        | opened => exact ⟨rfl, .any _⟩
        | some hmt => exact ⟨rfl, hmt⟩
    | _ => simp [indexTy] at he

theorem indexTy_wf (Γ : Env) (lit : Option String) (idx : Ty) {t : Ty} (h : wf t = true) :
    wf (indexTy Γ lit idx t).1 = true := by
  cases t with
  | arr e d =>
    simp only [wf] at h
    cases idx <;> first | exact h | rfl
  | obj ps m =>
    rw [wf_obj] at h
    simp only [Bool.and_eq_true] at h
    cases idx with
    | string =>
      cases lit with
      | some v =>
        simp only [indexTy]
        cases hl : Ty.lookup (Γ.lower v) ps with
        | some pt => exact lookup_wf ps h.1.2 hl
        | none =>
          cases m with
          | some mt => simpa [wfOpt] using h.2
          | none => rfl
      | none =>
        cases m with
        | some mt => simpa [indexTy, wfOpt] using h.2
        | none => rfl
    | _ => rfl
  | _ => rfl

/-! ### calls -/

/-- pointwise `LooserD` on argument type lists -/
inductive LooserDs : List Ty → List Ty → Prop
  | nil : LooserDs [] []
  | cons {t t' : Ty} {ts ts' : List Ty} : LooserD t t' → LooserDs ts ts' → LooserDs (t :: ts) (t' :: ts')

theorem LooserDs.length_eq : {ts ts' : List Ty} → LooserDs ts ts' → ts'.length = ts.length
  | _, _, .nil => rfl
  | _, _, .cons _ h => by simp [h.length_eq]

theorem LooserDs.drop : {ts ts' : List Ty} → LooserDs ts ts' → ∀ n, LooserDs (ts.drop n) (ts'.drop n)
  | _, _, .nil, n => by simpa using LooserDs.nil
  | _, _, .cons h hr, 0 => .cons h hr
  | _, _, .cons _ hr, n + 1 => by simpa using hr.drop n

theorem fixed_mono : (ps : List Ty) → {as as' : List Ty} → LooserDs as as' → ∀ i,
    firstBadArg.fixed ps as i = none → firstBadArg.fixed ps as' i = none
  | [], _, _, _, _, _ => by simp [firstBadArg.fixed]
  | _ :: _, _, _, .nil, _, _ => by simp [firstBadArg.fixed]
  | p :: ps, _, _, .cons (t := a) (t' := a') h hr, i, he => by
    simp only [firstBadArg.fixed] at he ⊢
    split at he
    · cases he
    · next hna =>
      have ha : Ty.assignable p a = true := by simpa using hna
      simp only [assignable_mono h.toW p ha, Bool.not_true, Bool.false_eq_true, if_false]
      exact fixed_mono ps hr _ he

theorem rest_mono (p : Ty) : {as as' : List Ty} → LooserDs as as' → ∀ i,
    firstBadArg.rest p as i = none → firstBadArg.rest p as' i = none
  | _, _, .nil, _, _ => by simp [firstBadArg.rest]
  | _, _, .cons (t := a) (t' := a') h hr, i, he => by
    simp only [firstBadArg.rest] at he ⊢
    split at he
    · cases he
    · next hna =>
      have ha : Ty.assignable p a = true := by simpa using hna
      simp only [assignable_mono h.toW p ha, Bool.not_true, Bool.false_eq_true, if_false]
      exact rest_mono p hr _ he

theorem firstBadArg_mono (params : List Ty) (variadic : Bool) {as as' : List Ty} (h : LooserDs as as')
    (he : firstBadArg params variadic as = none) : firstBadArg params variadic as' = none := by
  unfold firstBadArg at he ⊢
  cases hf : firstBadArg.fixed params as 1 with
  | some x => simp [hf] at he
  | none =>
    simp only [hf] at he
    simp only [fixed_mono params h 1 hf]
    cases variadic with
    | false => rfl
    | true =>
      simp only [if_true] at he ⊢
      cases hl : params.getLast? with
      | none => rfl
      | some p =>
        simp only [hl] at he ⊢
        exact rest_mono p (h.drop _) _ he

theorem checkSig_eq_none (s : Sig) (as : List Ty) :
    checkSig s as = none ↔
      ((s.variadic && decide (s.params.length > as.length)) ||
        (!s.variadic && decide (s.params.length ≠ as.length))) = false ∧
      firstBadArg s.params s.variadic as = none := by
  unfold checkSig
  simp only []
  by_cases hc : ((s.variadic && decide (s.params.length > as.length)) ||
        (!s.variadic && decide (s.params.length ≠ as.length))) = true
  · rw [if_pos hc]
    constructor
    · intro h; cases h
    · intro h; rw [hc] at h; cases h.1
  · rw [if_neg hc]
    have hc' := Bool.eq_false_iff.mpr hc
    cases hf : firstBadArg s.params s.variadic as with
    | none => exact ⟨fun _ => ⟨hc', rfl⟩, fun _ => rfl⟩
    | some x =>
      obtain ⟨i, a, p⟩ := x
      constructor
      · intro h; cases h
      · intro h; cases h.2

theorem checkSig_mono (s : Sig) {as as' : List Ty} (h : LooserDs as as') (he : checkSig s as = none) :
    checkSig s as' = none := by
  rw [checkSig_eq_none] at he ⊢
  rw [h.length_eq]
  exact ⟨he.1, firstBadArg_mono _ _ h he.2⟩

theorem builtinCall_ret (Γ : Env) (c : String) {s s' : Sig} (h : s.ret = s'.ret) (fl : Option String) (n : Nat) :
    builtinCall Γ c s fl n = builtinCall Γ c s' fl n := by
  simp only [builtinCall, h]

/-- what the overload loop returns: the result for the first matching signature, or `any` and one
more diagnostic per signature -/
theorem go_cases (Γ : Env) (c : String) (fl : Option String) (tys : List Ty) :
    (sigs : List Sig) → ∀ errs,
      (∃ s ∈ sigs, checkSig s tys = none ∧
        resolveCall.go Γ c fl tys sigs errs = builtinCall Γ c s fl tys.length) ∨
      ((∀ s ∈ sigs, checkSig s tys ≠ none) ∧ (resolveCall.go Γ c fl tys sigs errs).1 = .any ∧
        ((resolveCall.go Γ c fl tys sigs errs).2 = [] → sigs = []))
  | [], errs => .inr ⟨by simp, by simp [resolveCall.go], fun _ => rfl⟩
  | s :: rest, errs => by
    cases hs : checkSig s tys with
    | none => exact .inl ⟨s, by simp, hs, by simp [resolveCall.go, hs]⟩
    | some e =>
      rcases go_cases Γ c fl tys rest (errs ++ [e]) with ⟨s', hm, hn, hg⟩ | ⟨hall, hty, hnil⟩
      · exact .inl ⟨s', by simp [hm], hn, by simp [resolveCall.go, hs, hg]⟩
      · refine .inr ⟨?_, by simp [resolveCall.go, hs, hty], ?_⟩
        · intro s0 hs0
          rcases List.mem_cons.mp hs0 with rfl | h
          · simp [hs]
          · exact hall s0 h
        · intro h
          simp only [resolveCall.go, hs] at h
          have := go_errs_ne Γ c fl tys rest (errs ++ [e]) (by simp) hall
          exact absurd h this
where
  go_errs_ne (Γ : Env) (c : String) (fl : Option String) (tys : List Ty) :
      (sigs : List Sig) → ∀ errs, errs ≠ [] → (∀ s ∈ sigs, checkSig s tys ≠ none) →
        (resolveCall.go Γ c fl tys sigs errs).2 ≠ []
    | [], errs, h, _ => by simpa [resolveCall.go] using h
    | s :: rest, errs, h, hall => by
      cases hs : checkSig s tys with
      | none => exact absurd hs (hall s (by simp))
      | some e =>
        simp only [resolveCall.go, hs]
        exact go_errs_ne Γ c fl tys rest (errs ++ [e]) (by simp) (fun s0 h0 => hall s0 (by simp [h0]))

theorem resolveCall_mono (Γ : Env) (vs : List (String × Ty)) (c : String) (sigs : List Sig) (fl : Option String)
    {tys tys' : List Ty} (hsame : ∀ s₁ ∈ sigs, ∀ s₂ ∈ sigs, s₁.ret = s₂.ret) (h : LooserDs tys tys')
    (he : (resolveCall Γ c sigs fl tys).2 = []) :
    (resolveCall (Γ.setVars vs) c sigs fl tys').2 = [] ∧
      LooserD (resolveCall Γ c sigs fl tys).1 (resolveCall (Γ.setVars vs) c sigs fl tys').1 := by
  unfold resolveCall at he ⊢
  rcases go_cases (Γ.setVars vs) c fl tys' sigs [] with ⟨s', hm', hn', hg'⟩ | ⟨hall', hty', hnil'⟩
  · rw [hg', builtinCall_setVars]
    rcases go_cases Γ c fl tys sigs [] with ⟨s, hm, hn, hg⟩ | ⟨hall, hty, hnil⟩
    · rw [hg] at he ⊢
      rw [h.length_eq, builtinCall_ret Γ c (hsame s' hm' s hm)]
      exact ⟨he, LooserD.refl _⟩
    · have := hnil he
      subst this
      simp at hm'
  · have hall : ∀ s ∈ sigs, checkSig s tys ≠ none := fun s hs hn => hall' s hs (checkSig_mono s h hn)
    rcases go_cases Γ c fl tys sigs [] with ⟨s, hm, hn, hg⟩ | ⟨_, hty, hnil⟩
    · exact absurd hn (hall s hm)
    · have := hnil he
      subst this
      exact ⟨by simp [resolveCall.go], by simp [resolveCall.go]; exact .any _⟩

theorem builtinCall_wf (Γ : Env) (hj : ∀ s t, Γ.fromJson s = .ok t → wf t = true) (c : String) (s : Sig)
    (hs : wf s.ret = true) (fl : Option String) (n : Nat) : wf (builtinCall Γ c s fl n).1 = true := by
  unfold builtinCall
  simp only []
  split
  · split <;> exact hs
  · split
    · split
      · exact hs
      · split
        · next t ht => exact hj _ _ ht
        · exact hs
        · exact hs
    · exact hs

theorem resolveCall_wf (Γ : Env) (hj : ∀ s t, Γ.fromJson s = .ok t → wf t = true) (c : String)
    (sigs : List Sig) (hs : ∀ s ∈ sigs, wf s.ret = true) (fl : Option String) (tys : List Ty) :
    wf (resolveCall Γ c sigs fl tys).1 = true := by
  unfold resolveCall
  rcases go_cases Γ c fl tys sigs [] with ⟨s, hm, _, hg⟩ | ⟨_, hty, _⟩
  · rw [hg]; exact builtinCall_wf Γ hj c s (hs s hm) fl _
  · rw [hty]; rfl

end AL.Sema
