import AL.Lemmas.C05DJob
import AL.Props.C19Parse
/-
  AL.Props.C05Doc, the matrix: what `parseStrategy` / `parseMatrix` / `parseMatrixCombinations` return on nodes they accept
  without a diagnostic, in terms of what is written: the row keys and the keys the `include:` entries assign.
-/
namespace AL.C05D
open AL.PW AL.Yaml AL.Ast AL.C03P

/-! ### the document side -/

/-- the node under `strategy: matrix:` of a job node -/
def docMatrix (job : Node) : Option Node := (mget job "strategy").bind (mget · "matrix")

/-- a key of `matrix:` other than `include` / `exclude` (compared folded, as the parser does) -/
def isRowId (id : String) : Bool := id ≠ "include" && id ≠ "exclude"

/-- the row keys of a literal `matrix:` node, as written -/
def docMatrixRowKeys (cfg : Cfg) (mx : Node) : List String :=
  ((pairs mx.content).map (·.1.value)).filter fun k => isRowId (cfg.lower k)

/-- the node under `include:` of a `matrix:` node -/
def docIncludeNode (cfg : Cfg) (mx : Node) : Option Node :=
  ((pairs mx.content).find? (fun p => cfg.lower p.1.value = "include")).map (·.2)

/-- the keys the elements of a literal `include:` assign, as written -/
def docIncludeKeys (cfg : Cfg) (mx : Node) : List String :=
  match docIncludeNode cfg mx with
  | some inc => inc.content.flatMap fun c => (pairs c.content).map (·.1.value)
  | none => []

/-! ### `strategy`, `matrix` of a job -/

theorem jobKey_strategy_ne (cfg : Cfg) (st : JobSt) (kv : KV) (h : kv.id ≠ "strategy") :
    (jobKey cfg st kv).1.job.strategy = st.job.strategy := by
  simp only [jobKey]
  split <;> first | rfl | exact absurd ‹_› h | (split <;> first | rfl | (split <;> rfl))

theorem jobKey_strategy_eq (cfg : Cfg) (st : JobSt) (kv : KV) (h : kv.id = "strategy") :
    (jobKey cfg st kv).1.job.strategy = some (parseStrategy cfg kv.key.pos kv.val).1 ∧
    (jobKey cfg st kv).2 = (parseStrategy cfg kv.key.pos kv.val).2 := by
  simp only [jobKey]
  split <;> first | exact ⟨rfl, rfl⟩ | (exfalso; simp_all)

theorem strategyKey_matrix_ne (cfg : Cfg) (st : Strategy) (kv : KV) (h : kv.id ≠ "matrix") :
    (strategyKey cfg st kv).1.matrix = st.matrix := by
  simp only [strategyKey]
  split <;> first | rfl | exact absurd ‹_› h

theorem strategyKey_matrix_eq (cfg : Cfg) (st : Strategy) (kv : KV) (h : kv.id = "matrix") :
    (strategyKey cfg st kv).1.matrix = some (parseMatrix cfg kv.key.pos kv.val).1 ∧
    (strategyKey cfg st kv).2 = (parseMatrix cfg kv.key.pos kv.val).2 := by
  simp only [strategyKey]
  split <;> first | exact ⟨rfl, rfl⟩ | (exfalso; simp_all)

/-- **the matrix of a parsed job is `parseMatrix` of the node under `strategy: matrix:`**, accepted without a diagnostic -/
theorem parseJob_matrix (cfg : Cfg) (id : Str) (n : Node) (h : (parseJob cfg id n).2 = []) (mx : Node)
    (hmx : docMatrix n = some mx) :
    ∃ pos, (parseJob cfg id n).1.strategy.bind (·.matrix) = some (parseMatrix cfg pos mx).1 ∧ (parseMatrix cfg pos mx).2 = [] := by
  obtain ⟨hm, hr⟩ := parseJob_clean cfg id n h
  have hf := sect_field cfg (jobWhat id.value) n false (jobKey cfg) { job := { id := id, pos := id.pos } }
    (fun st => st.job.strategy) "strategy" (fun kv => some (parseStrategy cfg kv.key.pos kv.val).1)
    (fun st kv hne => jobKey_strategy_ne cfg st kv hne) (fun st kv he => (jobKey_strategy_eq cfg st kv he).1) hm
  rw [(parseJob_fields cfg id n).2.2.1]
  unfold jobLoop
  rw [hf]
  simp only [docMatrix, mget] at hmx
  cases hp : mpair n "strategy" with
  | none => rw [hp] at hmx; cases hmx
  | some p =>
    rw [hp] at hmx
    simp only [Option.map_some, Option.bind_some] at hmx
    obtain ⟨hmem, hk⟩ := mpair_mem hp
    obtain ⟨st, hc⟩ := sect_clean_at cfg _ n false true (jobKey cfg) _ hm hr p hmem
    rw [(jobKey_strategy_eq cfg st _ (by rw [kvOf_true]; exact hk)).2] at hc
    simp only [kvOf_true] at hc ⊢
    simp only [Option.bind_some]
    -- inside `strategy:`
    simp only [parseStrategy, append_nil_iff, parseSectionMapping] at hc ⊢
    have hf2 := sect_field cfg (sectionWhat "strategy") p.2 false (strategyKey cfg) { pos := (newString p.1).pos }
      (fun st => st.matrix) "matrix" (fun kv => some (parseMatrix cfg kv.key.pos kv.val).1)
      (fun st kv hne => strategyKey_matrix_ne cfg st kv hne) (fun st kv he => (strategyKey_matrix_eq cfg st kv he).1) hc.1
    rw [hf2]
    cases hq : mpair p.2 "matrix" with
    | none => rw [hq] at hmx; cases hmx
    | some q =>
      rw [hq] at hmx
      simp only [Option.map_some, Option.some.injEq] at hmx
      obtain ⟨hmem2, hk2⟩ := mpair_mem hq
      obtain ⟨st2, hc2⟩ := sect_clean_at cfg _ p.2 false true (strategyKey cfg) _ hc.1 hc.2 q hmem2
      rw [(strategyKey_matrix_eq cfg st2 _ (by rw [kvOf_true]; exact hk2)).2] at hc2
      simp only [kvOf_true] at hc2 ⊢
      rw [hmx] at hc2
      exact ⟨_, by rw [hmx], hc2⟩

/-! ### a literal `matrix:` -/

/-- the row keys of a matrix of the AST -/
def rowKeys (m : Matrix) : List String := (m.rows.getD []).map (·.1)

theorem matrixKey_expr (cfg : Cfg) (st : Matrix) (kv : KV) : (matrixKey cfg st kv).1.expr = st.expr := by
  simp only [matrixKey]
  split
  · rfl
  · rfl
  · split
    · rfl
    · split <;> rfl

theorem matrixKey_incl_ne (cfg : Cfg) (st : Matrix) (kv : KV) (h : kv.id ≠ "include") : (matrixKey cfg st kv).1.incl = st.incl := by
  simp only [matrixKey]
  split
  · exact absurd ‹_› h
  · rfl
  · split
    · rfl
    · split <;> rfl

theorem matrixKey_incl_eq (cfg : Cfg) (st : Matrix) (kv : KV) (h : kv.id = "include") :
    (matrixKey cfg st kv).1.incl = (parseMatrixCombinations cfg "include" kv.val).1 ∧
    (matrixKey cfg st kv).2 = (parseMatrixCombinations cfg "include" kv.val).2 := by
  simp only [matrixKey]
  split <;> first | exact ⟨rfl, rfl⟩ | (exfalso; simp_all)

/-- one iteration of the loop of `parseMatrix`, clean, on a fresh id: a row key is appended (the value a sequence, or a
scalar holding an expression), `include` / `exclude` are no rows -/
theorem matrixKey_rowKeys (cfg : Cfg) (st : Matrix) (kv : KV) (hc : (matrixKey cfg st kv).2 = []) (hn : kv.id ∉ rowKeys st) :
    rowKeys (matrixKey cfg st kv).1 = rowKeys st ++ (if isRowId kv.id then [kv.id] else []) := by
  have hset : ∀ row : MatrixRow, ((setAssoc kv.id row (st.rows.getD [])).map (·.1)) = rowKeys st ++ [kv.id] := by
    intro row
    rw [AL.C19P.setAssoc_keys]
    simp only [rowKeys] at hn ⊢
    simp [hn]
  revert hc
  simp only [matrixKey]
  split
  · rename_i h; intro _; simp [isRowId, h, rowKeys]
  · rename_i h; intro _; simp [isRowId, h, rowKeys]
  · rename_i h1 h2
    have hrow : isRowId kv.id = true := by
      simp only [isRowId, Bool.and_eq_true, decide_eq_true_eq]
      exact ⟨fun e => h1 e, fun e => h2 e⟩
    simp only [hrow, if_true]
    split
    · intro _; simp only [rowKeys, Option.getD_some]; exact hset _
    · split
      · rename_i hcs
        intro hc
        have := checkSequence_clean "matrix values" kv.val false hc
        simp [this.2] at hcs
      · intro _; simp only [rowKeys, Option.getD_some]; exact hset _

theorem loop_rowKeys (cfg : Cfg) : ∀ (kvs : List KV) (st : Matrix), (loop (matrixKey cfg) st kvs).2 = [] →
    (kvs.map (·.id)).Nodup → (∀ kv ∈ kvs, kv.id ∉ rowKeys st) →
    rowKeys (loop (matrixKey cfg) st kvs).1 = rowKeys st ++ (kvs.map (·.id)).filter isRowId
  | [], st, _, _, _ => by simp
  | x :: rest, st, hc, hnd, hfresh => by
    rw [loop_clean_cons] at hc
    simp only [List.map_cons, List.nodup_cons, List.mem_map, not_exists, not_and] at hnd
    have h1 := matrixKey_rowKeys cfg st x hc.1 (hfresh x (List.mem_cons_self ..))
    rw [loop_cons_fst, loop_rowKeys cfg rest _ hc.2 hnd.2 ?_, h1]
    · simp only [List.map_cons, List.filter_cons]
      split <;> simp
    · intro kv hk
      rw [h1]
      simp only [List.mem_append, not_or]
      refine ⟨hfresh kv (List.mem_cons_of_mem _ hk), ?_⟩
      split
      · simp only [List.mem_singleton]
        exact fun e => hnd.1 kv hk e
      · simp

theorem find?_kvOf_false (cfg : Cfg) (k : String) : ∀ (l : List (Node × Node)),
    (l.map (kvOf cfg false)).find? (fun kv => kv.id = k) = (l.find? (fun p => cfg.lower p.1.value = k)).map (kvOf cfg false)
  | [] => rfl
  | p :: rest => by
    have e : (kvOf cfg false p).id = cfg.lower p.1.value := by simp [kvOf, keyOf]
    simp only [List.map_cons, List.find?_cons, e]
    by_cases hp : cfg.lower p.1.value = k
    · simp [hp]
    · simp only [hp, decide_false]
      exact find?_kvOf_false cfg k rest

/-- **a `matrix:` written as a mapping, accepted without a diagnostic**: it is not an expression, its row keys are the
folded keys written other than `include` / `exclude`, in order, its `include` is `parseMatrixCombinations` of the node
under `include:` -/
theorem parseMatrix_lit (cfg : Cfg) (pos : Yaml.Pos) (mx : Node) (hk : mx.kind ≠ .scalar) (h : (parseMatrix cfg pos mx).2 = []) :
    (parseMatrix cfg pos mx).1.expr = none ∧
    rowKeys (parseMatrix cfg pos mx).1 = (docMatrixRowKeys cfg mx).map cfg.lower ∧
    (parseMatrix cfg pos mx).1.incl =
      (match docIncludeNode cfg mx with | some inc => (parseMatrixCombinations cfg "include" inc).1 | none => none) ∧
    (∀ inc, docIncludeNode cfg mx = some inc → (parseMatrixCombinations cfg "include" inc).2 = []) := by
  simp only [parseMatrix, hk, if_false, append_nil_iff, parseSectionMapping] at h ⊢
  have he := parseMapping_clean_eq cfg (sectionWhat "matrix") mx false false h.1
  have hnd := parseMapping_nodup cfg (sectionWhat "matrix") mx false false
  refine ⟨?_, ?_, ?_, ?_⟩
  · exact loop_inv (matrixKey cfg) (fun st => st.expr = none) (fun st kv hs => by rw [matrixKey_expr]; exact hs) _ _ rfl
  · rw [loop_rowKeys cfg _ _ h.2 hnd (by intro kv _; simp [rowKeys]), he]
    simp only [rowKeys, Option.getD_some, List.map_nil, List.nil_append, List.map_map, docMatrixRowKeys, List.filter_map]
    apply congrArg
    · rfl
  · rw [loop_field (matrixKey cfg) (fun st => st.incl) "include" (fun kv => (parseMatrixCombinations cfg "include" kv.val).1)
      (fun st kv hne => matrixKey_incl_ne cfg st kv hne) (fun st kv he => (matrixKey_incl_eq cfg st kv he).1) _ _ hnd,
      he, find?_kvOf_false, docIncludeNode]
    cases (pairs mx.content).find? (fun p => cfg.lower p.1.value = "include") with
    | none => rfl
    | some p => simp [kvOf_false]
  · intro inc hinc
    simp only [docIncludeNode, Option.map_eq_some_iff] at hinc
    obtain ⟨p, hp, rfl⟩ := hinc
    obtain ⟨st, hc⟩ := sect_clean_at cfg _ mx false false (matrixKey cfg) _ h.1 h.2 p (List.mem_of_find?_eq_some hp)
    have hid : (kvOf cfg false p).id = "include" := by
      rw [kvOf_false]
      simpa using List.find?_some hp
    rw [(matrixKey_incl_eq cfg st _ hid).2] at hc
    simpa [kvOf_false] using hc

/-! ### a literal `include:` -/

theorem rawValue_clean_some (cfg : Cfg) (n : Node) (h : (rawValue cfg n).2 = []) : ∃ x, (rawValue cfg n).1 = some x := by
  obtain ⟨k, t, v, q, l, c, cs⟩ := n
  cases k <;> simp [rawValue] at h ⊢

theorem matrixAssigns_keys (cfg : Cfg) : ∀ (kvs : List KV), (matrixAssigns cfg kvs).2 = [] →
    (matrixAssigns cfg kvs).1.map (·.1) = kvs.map (·.id)
  | [], _ => rfl
  | kv :: rest, h => by
    simp only [matrixAssigns, append_nil_iff] at h ⊢
    obtain ⟨x, hx⟩ := rawValue_clean_some cfg kv.val h.1
    simp only [hx, List.map_cons, matrixAssigns_keys cfg rest h.2]

/-- the elements of `include:` when none of them is a scalar: one literal combination each, assigning the folded keys
written in the element -/
theorem matrixCombos_lit (cfg : Cfg) (sec : String) : ∀ (cs : List Node), (∀ c ∈ cs, c.kind ≠ .scalar) →
    (matrixCombos cfg sec cs).2 = [] →
    (∀ c ∈ (matrixCombos cfg sec cs).1, c.expr = none) ∧
    (matrixCombos cfg sec cs).1.map (fun c => (c.assigns.getD []).map (·.1)) =
      cs.map (fun c => (pairs c.content).map fun q => cfg.lower q.1.value)
  | [], _, _ => by simp [matrixCombos]
  | c :: cs, hall, h => by
    have hc : c.kind ≠ .scalar := hall c (List.mem_cons_self ..)
    simp only [matrixCombos, hc, if_false, append_nil_iff] at h ⊢
    obtain ⟨ih1, ih2⟩ := matrixCombos_lit cfg sec cs (fun c' h' => hall c' (List.mem_cons_of_mem _ h')) h.2
    refine ⟨?_, ?_⟩
    · intro c' hc'
      rcases List.mem_cons.1 hc' with rfl | hc'
      · rfl
      · exact ih1 c' hc'
    · have e := matrixAssigns_keys cfg _ h.1.2
      rw [parseMapping_clean_eq cfg _ c false false h.1.1] at e
      simp only [List.map_cons, ih2, Option.getD_some]
      rw [parseMapping_clean_eq cfg _ c false false h.1.1, e, List.map_map]
      congr 1

/-- **`include:` written as a sequence of mappings, accepted without a diagnostic**: literal, one literal combination per
element -/
theorem parseCombos_lit (cfg : Cfg) (sec : String) (inc : Node) (hk : inc.kind ≠ .scalar) (hall : ∀ c ∈ inc.content, c.kind ≠ .scalar)
    (h : (parseMatrixCombinations cfg sec inc).2 = []) :
    ∃ cs, (parseMatrixCombinations cfg sec inc).1 = some ⟨some cs, none⟩ ∧ (∀ c ∈ cs, c.expr = none) ∧
      cs.map (fun c => (c.assigns.getD []).map (·.1)) = inc.content.map (fun c => (pairs c.content).map fun q => cfg.lower q.1.value) := by
  simp only [parseMatrixCombinations, hk, if_false] at h ⊢
  split at h
  · rename_i hc
    have := checkSequence_clean sec inc false h
    simp [this.2] at hc
  · rename_i hc
    simp only [hc]
    simp only [append_nil_iff] at h
    obtain ⟨h1, h2⟩ := matrixCombos_lit cfg sec inc.content hall h.2
    exact ⟨_, rfl, h1, h2⟩

end AL.C05D
