import AL.Lemmas.RenderBasic
/-
  C16 helper lemmas, part 2: the lazy searches `matchKind`, `matchMsg`, `matchTail`, `matchFile`.
-/
namespace AL.Render

/-- every character is matched by `.` -/
abbrev AllDot (s : List Char) : Prop := ∀ c ∈ s, dot c = true

/-! ### `matchKind` -/

theorem matchKind_bracket (k : List Char) (hk : k ≠ []) (hd : AllDot k) :
    matchKind (' ' :: '[' :: (k ++ [']'])) = some k := by
  have h1 : k.isEmpty = false := by cases k <;> simp_all
  have h2 : k.all dot = true := by simpa using hd
  simp [matchKind, h1, h2]

theorem matchKind_some {s k : List Char} (h : matchKind s = some k) :
    s = ' ' :: '[' :: (k ++ [']']) ∧ k ≠ [] ∧ AllDot k := by
  unfold matchKind at h
  split at h
  · rename_i rest
    split at h
    · rename_i revKind hrev
      dsimp only at h
      split at h
      · rename_i hcond
        simp only [Option.some.injEq] at h
        subst h
        have hrest : rest = revKind.reverse ++ [']'] := by
          have := congrArg List.reverse hrev
          simpa using this
        refine ⟨by rw [hrest], ?_, ?_⟩
        · intro hnil
          simp [hnil] at hcond
        · intro c hc
          simp only [Bool.and_eq_true, List.all_eq_true] at hcond
          exact hcond.2 c hc
      · cases h
    · cases h
  · cases h

theorem matchKind_none_of_head {s : List Char} (h : ∀ r, s ≠ ' ' :: '[' :: r) : matchKind s = none := by
  cases hs : matchKind s with
  | none => rfl
  | some k => exact absurd (matchKind_some hs).1 (h _)

theorem matchKind_none_of_nondot {s : List Char} (h : ∃ c ∈ s, dot c = false) : matchKind s = none := by
  cases hs : matchKind s with
  | none => rfl
  | some k =>
    obtain ⟨hs1, _, hk⟩ := matchKind_some hs
    obtain ⟨c, hc, hdot⟩ := h
    subst hs1
    simp only [List.mem_cons, List.mem_append, List.not_mem_nil, or_false] at hc
    rcases hc with rfl | rfl | hc | rfl
    · simp [dot_space] at hdot
    · simp [dot_lbracket] at hdot
    · simp [hk c hc] at hdot
    · simp [dot_rbracket] at hdot

/-! ### `matchMsg` -/

/-- the lazy `(.+?)` stops at the end of `m` when no ` [` occurs in `m` after its first character -/
theorem matchMsg_lazy : ∀ (m acc k : List Char), m ≠ [] → AllDot m →
    (∀ a b, m = a ++ ' ' :: '[' :: b → a = []) → k ≠ [] → AllDot k →
    matchMsg acc (m ++ ' ' :: '[' :: (k ++ [']'])) = some (acc ++ m, k)
  | [], _, _, h, _, _, _, _ => absurd rfl h
  | c :: m', acc, k, _, hdot, hnb, hk, hkd => by
    have hc : dot c = true := hdot c (by simp)
    rw [List.cons_append, matchMsg]
    simp only [hc, Bool.not_true, Bool.false_eq_true, if_false]
    cases m' with
    | nil =>
      simp [matchKind_bracket k hk hkd]
    | cons x m'' =>
      have hnone : matchKind ((x :: m'') ++ ' ' :: '[' :: (k ++ [']'])) = none := by
        apply matchKind_none_of_head
        intro r hr
        cases m'' with
        | nil =>
          simp only [List.cons_append, List.nil_append, List.cons.injEq] at hr
          exact absurd hr.2.1 (by decide)
        | cons y m''' =>
          simp only [List.cons_append, List.cons.injEq] at hr
          obtain ⟨rfl, rfl, _⟩ := hr
          have := hnb [c] m''' rfl
          cases this
      rw [hnone]
      have ih := matchMsg_lazy (x :: m'') (acc ++ [c]) k (by simp)
        (fun d hd => hdot d (by simp [List.mem_cons] at hd ⊢; exact Or.inr hd))
        (fun a b hab => by
          have := hnb (c :: a) b (by rw [hab]; rfl)
          cases this)
        hk hkd
      simp only at ih ⊢
      rw [ih]
      simp

/-- on a one-line text that ends in ` [k]` the message search always succeeds -/
theorem matchMsg_isSome : ∀ (s acc k : List Char), s ≠ [] → AllDot s → k ≠ [] → AllDot k →
    (matchMsg acc (s ++ ' ' :: '[' :: (k ++ [']']))).isSome = true
  | [], _, _, h, _, _, _ => absurd rfl h
  | c :: s', acc, k, _, hdot, hk, hkd => by
    have hc : dot c = true := hdot c (by simp)
    rw [List.cons_append, matchMsg]
    simp only [hc, Bool.not_true, Bool.false_eq_true, if_false]
    cases hmk : matchKind (s' ++ ' ' :: '[' :: (k ++ [']'])) with
    | some k' => simp
    | none =>
      cases s' with
      | nil => simp [matchKind_bracket k hk hkd] at hmk
      | cons x s'' =>
        exact matchMsg_isSome (x :: s'') (acc ++ [c]) k (by simp)
          (fun d hd => hdot d (by simp [List.mem_cons] at hd ⊢; exact Or.inr hd)) hk hkd

/-- `.` never matches a line terminator: a text with one is rejected -/
theorem matchMsg_none_of_nondot : ∀ (s acc : List Char), (∃ c ∈ s, dot c = false) → matchMsg acc s = none
  | [], _, h => by simp at h
  | c :: s', acc, h => by
    rw [matchMsg]
    by_cases hc : dot c = true
    · have h' : ∃ d ∈ s', dot d = false := by
        obtain ⟨d, hd, hdd⟩ := h
        simp only [List.mem_cons] at hd
        rcases hd with rfl | hd
        · simp [hc] at hdd
        · exact ⟨d, hd, hdd⟩
      simp only [hc, Bool.not_true, Bool.false_eq_true, if_false]
      rw [matchKind_none_of_nondot h']
      exact matchMsg_none_of_nondot s' (acc ++ [c]) h'
    · simp [hc]

/-! ### `matchTail`, decomposed into two `:digits` stages -/

/-- `:(\d+)`: the digits and the rest -/
def stage (s : List Char) : Option (List Char × List Char) :=
  match s with
  | ':' :: r => if (takeDigits r).1.isEmpty then none else some (takeDigits r)
  | _ => none

theorem stage_colon (r : List Char) :
    stage (':' :: r) = if (takeDigits r).1.isEmpty then none else some (takeDigits r) := rfl

theorem stage_not_colon (s : List Char) (h : ∀ r, s ≠ ':' :: r) : stage s = none := by
  unfold stage; split
  · rename_i r; exact absurd rfl (h r)
  · rfl

theorem matchTail_eq_stage (s : List Char) :
    matchTail s =
      match stage s with
      | none => none
      | some p =>
        match stage p.2 with
        | none => none
        | some q =>
          match q.2 with
          | ':' :: ' ' :: r5 =>
            (matchMsg [] r5).map fun mk =>
              ((String.ofList p.1).toNat!, (String.ofList q.1).toNat!, mk.1, mk.2)
          | _ => none := by
  unfold matchTail
  split
  · rename_i r1
    rw [stage_colon]
    simp only
    by_cases h1 : (takeDigits r1).1.isEmpty = true
    · simp [h1]
    · simp only [h1, Bool.false_eq_true, if_false]
      split
      · rename_i r3 hr2
        rw [hr2, stage_colon]
        by_cases h2 : (takeDigits r3).1.isEmpty = true
        · simp [h2]
        · simp only [h2, Bool.false_eq_true, if_false]
          split
          · rename_i r5 hr4
            simp only [hr4]
          · rename_i hr4
            split
            · rename_i r5 hr4'
              exact absurd hr4' (hr4 r5)
            · rfl
      · rename_i hr2
        rw [stage_not_colon _ hr2]
  · rename_i hs
    rw [stage_not_colon _ hs]

theorem stage_some {s : List Char} {p : List Char × List Char} (h : stage s = some p) :
    s = ':' :: (p.1 ++ p.2) ∧ p.1 ≠ [] ∧ (∀ c ∈ p.1, isDigit c = true) ∧ NoDigitHead p.2 := by
  unfold stage at h
  split at h
  · rename_i r
    split at h
    · cases h
    · rename_i hne
      simp only [Option.some.injEq] at h
      subst h
      refine ⟨by rw [takeDigits_append_eq], ?_, takeDigits_fst_digits r, takeDigits_snd_noDigitHead r⟩
      intro hnil
      simp [hnil] at hne
  · cases h

theorem stage_digits (d t : List Char) (hd : d ≠ []) (hdd : ∀ c ∈ d, isDigit c = true) (ht : NoDigitHead t) :
    stage (':' :: (d ++ t)) = some (d, t) := by
  have : d.isEmpty = false := by cases d <;> simp_all
  simp [stage, takeDigits_digits_append d t hdd ht, this]

theorem stage_append (a b : List Char) (ha : a ≠ []) (hb : NoDigitHead b) :
    stage (a ++ b) = (stage a).map fun p => (p.1, p.2 ++ b) := by
  cases a with
  | nil => exact absurd rfl ha
  | cons x a' =>
    by_cases hx : x = ':'
    · subst hx
      simp only [List.cons_append, stage, takeDigits_append a' b hb]
      by_cases h1 : (takeDigits a').1.isEmpty = true
      · simp [h1]
      · simp [h1]
    · have h1 : stage (x :: a' ++ b) = none := by
        unfold stage
        split
        · rename_i r hr
          simp only [List.cons_append, List.cons.injEq] at hr
          exact absurd hr.1 hx
        · rfl
      have h2 : stage (x :: a') = none := by
        unfold stage
        split
        · rename_i r hr
          simp only [List.cons.injEq] at hr
          exact absurd hr.1 hx
        · rfl
      rw [h1, h2]; rfl

/-- `matchTail` on `:d1:d2: R` with two non-empty digit lists -/
theorem matchTail_digits (d1 d2 R : List Char) (h1 : d1 ≠ []) (h2 : d2 ≠ [])
    (hd1 : ∀ c ∈ d1, isDigit c = true) (hd2 : ∀ c ∈ d2, isDigit c = true) :
    matchTail (':' :: (d1 ++ ':' :: (d2 ++ ':' :: ' ' :: R))) =
      (matchMsg [] R).map fun mk => ((String.ofList d1).toNat!, (String.ofList d2).toNat!, mk.1, mk.2) := by
  rw [matchTail_eq_stage, stage_digits d1 _ h1 hd1 (noDigitHead_colon _)]
  simp only
  rw [stage_digits d2 _ h2 hd2 (noDigitHead_colon _)]
  rfl

/-- a non-`.` character anywhere makes the tail fail -/
theorem matchTail_none_of_nondot {s : List Char} (h : ∃ c ∈ s, dot c = false) : matchTail s = none := by
  rw [matchTail_eq_stage]
  cases hp : stage s with
  | none => rfl
  | some p =>
    obtain ⟨hs, _, hpd, _⟩ := stage_some hp
    simp only
    have h2 : ∃ c ∈ p.2, dot c = false := by
      obtain ⟨c, hc, hcd⟩ := h
      rw [hs] at hc
      simp only [List.mem_cons, List.mem_append] at hc
      rcases hc with rfl | hc | hc
      · simp [dot_colon] at hcd
      · simp [dot_of_isDigit (hpd c hc)] at hcd
      · exact ⟨c, hc, hcd⟩
    cases hq : stage p.2 with
    | none => rfl
    | some q =>
      obtain ⟨hs2, _, hqd, _⟩ := stage_some hq
      simp only
      have h4 : ∃ c ∈ q.2, dot c = false := by
        obtain ⟨c, hc, hcd⟩ := h2
        rw [hs2] at hc
        simp only [List.mem_cons, List.mem_append] at hc
        rcases hc with rfl | hc | hc
        · simp [dot_colon] at hcd
        · simp [dot_of_isDigit (hqd c hc)] at hcd
        · exact ⟨c, hc, hcd⟩
      split
      · rename_i r5 hr4
        have h5 : ∃ c ∈ r5, dot c = false := by
          obtain ⟨c, hc, hcd⟩ := h4
          rw [hr4] at hc
          simp only [List.mem_cons] at hc
          rcases hc with rfl | rfl | hc
          · simp [dot_colon] at hcd
          · simp [dot_space] at hcd
          · exact ⟨c, hc, hcd⟩
        rw [matchMsg_none_of_nondot r5 [] h5]; rfl
      · rfl

/-! ### the separator shape `^:\d+:\d+: ` and independence of the tail -/

/-- does `s` start with `:digits:digits: `? -/
def sepPrefix (s : List Char) : Bool :=
  match stage s with
  | none => false
  | some p =>
    match stage p.2 with
    | none => false
    | some q =>
      match q.2 with
      | ':' :: ' ' :: _ => true
      | _ => false

/-- the part of a header line after the file: `:d1:d2: m [k]` -/
structure GoodTail (T : List Char) : Prop where
  ex : ∃ d1 d2 m k : List Char, d1 ≠ [] ∧ d2 ≠ [] ∧ (∀ c ∈ d1, isDigit c = true) ∧ (∀ c ∈ d2, isDigit c = true) ∧
    m ≠ [] ∧ AllDot m ∧ k ≠ [] ∧ AllDot k ∧
    T = ':' :: (d1 ++ ':' :: (d2 ++ ':' :: ' ' :: (m ++ ' ' :: '[' :: (k ++ [']']))))

theorem allDot_of_digits {d : List Char} (h : ∀ c ∈ d, isDigit c = true) : AllDot d :=
  fun c hc => dot_of_isDigit (h c hc)

/-- For a suffix `rest` of the file, whether the pattern's tail matches `rest ++ T` does not depend on the
good tail `T`: it matches iff `rest` itself starts with `:digits:digits: `. -/
theorem matchTail_append_goodTail (rest T : List Char) (hT : GoodTail T) (hne : rest ≠ []) (hdot : AllDot rest) :
    (matchTail (rest ++ T)).isSome = sepPrefix rest := by
  obtain ⟨d1, d2, m, k, h1, h2, hd1, hd2, hm, hmd, hk, hkd, rfl⟩ := hT.ex
  rw [matchTail_eq_stage, sepPrefix, stage_append rest _ hne (noDigitHead_colon _)]
  cases hp : stage rest with
  | none => rfl
  | some p =>
    obtain ⟨hrest, _, hpd, _⟩ := stage_some hp
    have hp2dot : AllDot p.2 := fun c hc => hdot c (by rw [hrest]; simp [hc])
    simp only [Option.map_some]
    by_cases hp2 : p.2 = []
    · -- the first number runs up to the end of `rest`: line := it, col := d1, then `:d2` is not `: `
      rw [hp2]
      simp only [List.nil_append]
      rw [stage_digits d1 _ h1 hd1 (noDigitHead_colon _)]
      simp only
      have : stage ([] : List Char) = none := rfl
      rw [this]
      cases d2 with
      | nil => exact absurd rfl h2
      | cons x d2' =>
        have hx : x ≠ ' ' := isDigit_ne_space (hd2 x (by simp))
        simp only [List.cons_append]
        split
        · rename_i r5 hr
          simp only [List.cons.injEq] at hr
          exact absurd hr.2.1 hx
        · rfl
    · rw [stage_append p.2 _ hp2 (noDigitHead_colon _)]
      cases hq : stage p.2 with
      | none => rfl
      | some q =>
        obtain ⟨hp2eq, _, hqd, _⟩ := stage_some hq
        have hq2dot : AllDot q.2 := fun c hc => hp2dot c (by rw [hp2eq]; simp [hc])
        simp only [Option.map_some]
        match hq2 : q.2 with
        | [] =>
          simp only [List.nil_append]
          cases d1 with
          | nil => exact absurd rfl h1
          | cons x d1' =>
            have hx : x ≠ ' ' := isDigit_ne_space (hd1 x (by simp))
            simp only [List.cons_append]
            split
            · rename_i r5 hr
              simp only [List.cons.injEq] at hr
              exact absurd hr.2.1 hx
            · rfl
        | [y] =>
          simp only [List.cons_append, List.nil_append]
          split
          · rename_i r5 hr
            simp only [List.cons.injEq] at hr
            exact absurd hr.2.1 (by decide)
          · rfl
        | y :: z :: r5' =>
          simp only [List.cons_append]
          by_cases hyz : y = ':' ∧ z = ' '
          · obtain ⟨rfl, rfl⟩ := hyz
            simp only [Option.isSome_map]
            have hr5dot : AllDot r5' := fun c hc => hq2dot c (by rw [hq2]; simp [hc])
            have key := matchMsg_isSome
              (r5' ++ ':' :: (d1 ++ ':' :: (d2 ++ ':' :: ' ' :: m))) [] k (by simp)
              (by
                intro c hc
                simp only [List.mem_append, List.mem_cons] at hc
                rcases hc with hc | rfl | hc | rfl | hc | rfl | rfl | hc
                · exact hr5dot c hc
                · exact dot_colon
                · exact allDot_of_digits hd1 c hc
                · exact dot_colon
                · exact allDot_of_digits hd2 c hc
                · exact dot_colon
                · exact dot_space
                · exact hmd c hc)
              hk hkd
            simpa [List.append_assoc] using key
          · split
            · rename_i r5 hr
              simp only [List.cons.injEq] at hr
              exact absurd ⟨hr.1, hr.2.1⟩ hyz
            · split
              · rename_i r5 hr
                simp only [List.cons.injEq] at hr
                exact absurd ⟨hr.1, hr.2.1⟩ hyz
              · rfl

/-! ### `matchFile` -/

/-- the lazy file search stops exactly at the end of `file` when no earlier split lets the tail match -/
theorem matchFile_prefix : ∀ (file acc T : List Char) (x : Nat × Nat × List Char × List Char),
    file ≠ [] → AllDot file →
    (∀ pre rest, file = pre ++ rest → pre ≠ [] → rest ≠ [] → matchTail (rest ++ T) = none) →
    matchTail T = some x →
    matchFile acc (file ++ T) = some (acc ++ file, x)
  | [], _, _, _, h, _, _, _ => absurd rfl h
  | c :: f', acc, T, x, _, hdot, hpre, hT => by
    have hc : dot c = true := hdot c (by simp)
    rw [List.cons_append, matchFile]
    simp only [hc, Bool.not_true, Bool.false_eq_true, if_false]
    cases f' with
    | nil =>
      obtain ⟨l, co, m, k⟩ := x
      simp [hT]
    | cons y f'' =>
      rw [hpre [c] (y :: f'') rfl (by simp) (by simp)]
      have ih := matchFile_prefix (y :: f'') (acc ++ [c]) T x (by simp)
        (fun d hd => hdot d (by simp [List.mem_cons] at hd ⊢; exact Or.inr hd))
        (fun pre rest hsplit hp hr => hpre (c :: pre) rest (by rw [hsplit]; rfl) (by simp) hr)
        hT
      simp only
      rw [ih]
      simp

/-- a line with a non-`.` character (line terminator) is rejected as a whole -/
theorem matchFile_none_of_nondot : ∀ (s acc : List Char), (∃ c ∈ s, dot c = false) → matchFile acc s = none
  | [], _, h => by simp at h
  | c :: s', acc, h => by
    rw [matchFile]
    by_cases hc : dot c = true
    · have h' : ∃ d ∈ s', dot d = false := by
        obtain ⟨d, hd, hdd⟩ := h
        simp only [List.mem_cons] at hd
        rcases hd with rfl | hd
        · simp [hc] at hdd
        · exact ⟨d, hd, hdd⟩
      simp only [hc, Bool.not_true, Bool.false_eq_true, if_false]
      rw [matchTail_none_of_nondot h']
      exact matchFile_none_of_nondot s' (acc ++ [c]) h'
    · simp [hc]

end AL.Render
