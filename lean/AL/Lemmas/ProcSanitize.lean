import AL.Model.Proc
/-
  Lemmas for C20 (a)–(d): `indexOf` specification, fuel irrelevance of `sanitizeAux`,
  length / pointwise / first-placeholder / idempotence.
-/
namespace AL.Proc

/-! ### indexOf -/

theorem indexOf_shift (pat s : List Nat) (i : Nat) :
    indexOf pat s i = (indexOf pat s 0).map (· + i) := by
  induction s generalizing i with
  | nil => simp only [indexOf]; split <;> simp
  | cons c cs ih =>
    simp only [indexOf]
    split
    · simp
    · rw [ih (i + 1), ih (0 + 1)]
      cases indexOf pat cs 0 with
      | none => rfl
      | some k => simp; omega

theorem indexOf_cons_neg (pat : List Nat) (c : Nat) (cs : List Nat)
    (h : pat.isPrefixOf (c :: cs) = false) :
    indexOf pat (c :: cs) 0 = (indexOf pat cs 0).map (· + 1) := by
  simp only [indexOf, h]
  rw [indexOf_shift]; simp

/-- specification of a hit -/
theorem indexOf_some (pat s : List Nat) (k : Nat) (h : indexOf pat s 0 = some k) :
    k ≤ s.length ∧ pat.isPrefixOf (s.drop k) = true ∧ ∀ j < k, pat.isPrefixOf (s.drop j) = false := by
  induction s generalizing k with
  | nil =>
    simp only [indexOf] at h
    split at h
    · rename_i hp
      simp at h; subst h
      simp at hp; subst hp; simp
    · simp at h
  | cons c cs ih =>
    by_cases hp : pat.isPrefixOf (c :: cs) = true
    · simp only [indexOf, hp] at h
      simp at h; subst h
      simp [hp]
    · have hp' : pat.isPrefixOf (c :: cs) = false := (Bool.not_eq_true _).mp hp
      rw [indexOf_cons_neg _ _ _ hp'] at h
      cases hk : indexOf pat cs 0 with
      | none => simp [hk] at h
      | some k' =>
        simp [hk] at h; subst h
        obtain ⟨h1, h2, h3⟩ := ih k' hk
        refine ⟨by simp; omega, by simpa using h2, ?_⟩
        intro j hj
        cases j with
        | zero => simpa using hp'
        | succ j => simpa using h3 j (by omega)

/-- converse: a first hit determines `indexOf` -/
theorem indexOf_eq_some (pat s : List Nat) (k : Nat) (hk : k ≤ s.length)
    (hp : pat.isPrefixOf (s.drop k) = true) (hn : ∀ j < k, pat.isPrefixOf (s.drop j) = false) :
    indexOf pat s 0 = some k := by
  induction s generalizing k with
  | nil =>
    simp at hk; subst hk
    simp at hp
    simp [indexOf, hp]
  | cons c cs ih =>
    cases k with
    | zero => simp at hp; simp [indexOf, hp]
    | succ k =>
      have h0 := hn 0 (by omega)
      simp only [List.drop_zero] at h0
      rw [indexOf_cons_neg _ _ _ h0]
      rw [ih k (by simpa using hk) (by simpa using hp) (fun j hj => by simpa using hn (j + 1) (by omega))]
      simp

theorem isPrefixOf_length {pat l : List Nat} (h : pat.isPrefixOf l = true) : pat.length ≤ l.length := by
  have := List.isPrefixOf_iff_prefix.mp h
  exact this.length_le

theorem indexOf_some_len (pat s : List Nat) (k : Nat) (h : indexOf pat s 0 = some k) :
    k + pat.length ≤ s.length := by
  obtain ⟨h1, h2, _⟩ := indexOf_some pat s k h
  have := isPrefixOf_length h2
  simp at this; omega

/-- no occurrence starts inside the prefix `P` ⇒ the search skips `P` -/
theorem indexOf_append_skip (pat P R : List Nat)
    (h : ∀ j < P.length, pat.isPrefixOf ((P ++ R).drop j) = false) :
    indexOf pat (P ++ R) 0 = (indexOf pat R 0).map (· + P.length) := by
  induction P with
  | nil => simp
  | cons c P ih =>
    have h0 := h 0 (by simp)
    simp only [List.drop_zero, List.cons_append] at h0
    rw [List.cons_append, indexOf_cons_neg _ _ _ h0, ih (fun j hj => by simpa using h (j + 1) (by simp; omega))]
    cases indexOf pat R 0 with
    | none => rfl
    | some k => simp; omega

/-! ### sanitizeAux: unfolding equations -/

theorem sanitizeAux_noOpen (f : Nat) (src : List Nat) (h : indexOf open3 src 0 = none) :
    sanitizeAux f src = src := by
  cases f with
  | zero => rfl
  | succ f => simp [sanitizeAux, h]

theorem sanitizeAux_noClose (f : Nat) (src : List Nat) (s : Nat) (h : indexOf open3 src 0 = some s)
    (h2 : indexOf close2 (src.drop s) 0 = none) :
    sanitizeAux f src = src := by
  cases f with
  | zero => rfl
  | succ f => simp [sanitizeAux, h, h2]

theorem sanitizeAux_hit (f : Nat) (src : List Nat) (s e0 : Nat) (h : indexOf open3 src 0 = some s)
    (h2 : indexOf close2 (src.drop s) 0 = some e0) :
    sanitizeAux (f + 1) src =
      src.take s ++ List.replicate (e0 + 2) 95 ++ sanitizeAux f (src.drop (e0 + s + 2)) := by
  simp only [sanitizeAux, h, h2]
  congr 3
  omega

/-- bounds for a hit -/
theorem hit_bounds (src : List Nat) (s e0 : Nat) (h : indexOf open3 src 0 = some s)
    (h2 : indexOf close2 (src.drop s) 0 = some e0) : e0 + s + 2 ≤ src.length := by
  have h1 := indexOf_some_len _ _ _ h
  have h3 := indexOf_some_len _ _ _ h2
  simp [open3, close2] at h1 h3
  omega

/-! ### (a) length -/

theorem sanitizeAux_length (f : Nat) (src : List Nat) : (sanitizeAux f src).length = src.length := by
  induction f generalizing src with
  | zero => rfl
  | succ f ih =>
    cases h : indexOf open3 src 0 with
    | none => rw [sanitizeAux_noOpen _ _ h]
    | some s =>
      cases h2 : indexOf close2 (src.drop s) 0 with
      | none => rw [sanitizeAux_noClose _ _ _ h h2]
      | some e0 =>
        rw [sanitizeAux_hit _ _ _ _ h h2]
        have := hit_bounds _ _ _ h h2
        simp [ih]
        omega

theorem sanitize_length (src : List Nat) : (sanitize src).length = src.length :=
  sanitizeAux_length _ _

/-! ### fuel irrelevance -/

theorem sanitizeAux_fuel (f g : Nat) (src : List Nat) (hf : src.length ≤ f) (hg : src.length ≤ g) :
    sanitizeAux f src = sanitizeAux g src := by
  induction f generalizing g src with
  | zero =>
    have : src = [] := by simpa using hf
    subst this
    rw [sanitizeAux_noOpen g [] (by simp [indexOf, open3])]
    rfl
  | succ f ih =>
    cases h : indexOf open3 src 0 with
    | none => rw [sanitizeAux_noOpen _ _ h, sanitizeAux_noOpen _ _ h]
    | some s =>
      cases h2 : indexOf close2 (src.drop s) 0 with
      | none => rw [sanitizeAux_noClose _ _ _ h h2, sanitizeAux_noClose _ _ _ h h2]
      | some e0 =>
        have hb := hit_bounds _ _ _ h h2
        cases g with
        | zero => omega
        | succ g =>
          rw [sanitizeAux_hit _ _ _ _ h h2, sanitizeAux_hit _ _ _ _ h h2]
          rw [ih g _ (by simp; omega) (by simp; omega)]

theorem sanitizeAux_eq_sanitize (f : Nat) (src : List Nat) (hf : src.length ≤ f) :
    sanitizeAux f src = sanitize src :=
  sanitizeAux_fuel _ _ _ hf (Nat.le_refl _)

/-- the defining equation of `sanitize` at a hit (fuel-free) -/
theorem sanitize_hit (src : List Nat) (s e0 : Nat) (h : indexOf open3 src 0 = some s)
    (h2 : indexOf close2 (src.drop s) 0 = some e0) :
    sanitize src = src.take s ++ List.replicate (e0 + 2) 95 ++ sanitize (src.drop (e0 + s + 2)) := by
  have hb := hit_bounds _ _ _ h h2
  rw [← sanitizeAux_eq_sanitize (src.length + 1) src (by omega), sanitizeAux_hit _ _ _ _ h h2,
    sanitizeAux_eq_sanitize _ _ (by simp)]

theorem sanitize_noOpen (src : List Nat) (h : indexOf open3 src 0 = none) : sanitize src = src :=
  sanitizeAux_noOpen _ _ h

theorem sanitize_noClose (src : List Nat) (s : Nat) (h : indexOf open3 src 0 = some s)
    (h2 : indexOf close2 (src.drop s) 0 = none) : sanitize src = src :=
  sanitizeAux_noClose _ _ _ h h2

/-! ### (b) pointwise -/

theorem sanitizeAux_pointwise (f : Nat) (src : List Nat) (i : Nat) (hi : i < src.length) :
    (sanitizeAux f src)[i]? = some src[i] ∨ (sanitizeAux f src)[i]? = some 95 := by
  induction f generalizing src i with
  | zero => left; simp [sanitizeAux, hi]
  | succ f ih =>
    cases h : indexOf open3 src 0 with
    | none => rw [sanitizeAux_noOpen _ _ h]; left; simp [hi]
    | some s =>
      cases h2 : indexOf close2 (src.drop s) 0 with
      | none => rw [sanitizeAux_noClose _ _ _ h h2]; left; simp [hi]
      | some e0 =>
        rw [sanitizeAux_hit _ _ _ _ h h2]
        have hb := hit_bounds _ _ _ h h2
        have hts : (List.take s src).length = s := by simp; omega
        by_cases h1 : i < s
        · left
          rw [List.append_assoc, List.getElem?_append_left (by rw [hts]; exact h1)]
          simp [h1, hi]
        · by_cases h3 : i < e0 + s + 2
          · right
            rw [List.getElem?_append_left (by simp; omega),
              List.getElem?_append_right (by rw [hts]; omega), hts, List.getElem?_replicate]
            rw [if_pos (by omega)]
          · rw [List.getElem?_append_right (by simp; omega)]
            have hlen : (List.take s src ++ List.replicate (e0 + 2) 95).length = e0 + s + 2 := by
              simp; omega
            rw [hlen]
            have := ih (src.drop (e0 + s + 2)) (i - (e0 + s + 2)) (by simp; omega)
            have hidx : e0 + s + 2 + (i - (e0 + s + 2)) = i := by omega
            simpa [hidx] using this

/-! ### (d) idempotence -/

/-- a prefix that contains no start of `${{` is copied -/
theorem sanitizeAux_append_skip (f : Nat) (P R : List Nat)
    (h : ∀ j < P.length, open3.isPrefixOf ((P ++ R).drop j) = false) :
    sanitizeAux f (P ++ R) = P ++ sanitizeAux f R := by
  cases f with
  | zero => rfl
  | succ f =>
    have hidx := indexOf_append_skip open3 P R h
    cases hr : indexOf open3 R 0 with
    | none =>
      rw [hr] at hidx
      rw [sanitizeAux_noOpen _ _ hidx, sanitizeAux_noOpen _ _ hr]
    | some t =>
      rw [hr] at hidx
      simp only [Option.map_some] at hidx
      have hd : (P ++ R).drop (t + P.length) = R.drop t := by
        rw [List.drop_append]
        have : List.drop (t + P.length) P = [] := by simp
        simp [this]
      cases h2 : indexOf close2 (R.drop t) 0 with
      | none =>
        rw [sanitizeAux_noClose _ _ _ hidx (by rw [hd]; exact h2), sanitizeAux_noClose _ _ _ hr h2]
      | some e0 =>
        rw [sanitizeAux_hit _ _ _ _ hidx (by rw [hd]; exact h2), sanitizeAux_hit _ _ _ _ hr h2]
        have ht : (P ++ R).take (t + P.length) = P ++ R.take t := by
          rw [List.take_append]
          have : List.take (t + P.length) P = P := List.take_of_length_le (by omega)
          simp [this]
        have hd2 : (P ++ R).drop (e0 + (t + P.length) + 2) = R.drop (e0 + t + 2) := by
          rw [List.drop_append]
          have : List.drop (e0 + (t + P.length) + 2) P = [] := by simp; omega
          have h3 : e0 + (t + P.length) + 2 - P.length = e0 + t + 2 := by omega
          simp [this, h3]
        rw [ht, hd2]
        simp

theorem isPrefixOf_open3_iff (l : List Nat) :
    open3.isPrefixOf l = true ↔ l[0]? = some 36 ∧ l[1]? = some 123 ∧ l[2]? = some 123 := by
  match l with
  | [] => simp [open3]
  | [a] => simp [open3, List.isPrefixOf]
  | [a, b] => simp [open3, List.isPrefixOf]
  | a :: b :: c :: r =>
    simp only [open3, List.isPrefixOf, Bool.and_true, Bool.and_eq_true, beq_iff_eq,
      List.getElem?_cons_zero, List.getElem?_cons_succ, Option.some.injEq]
    constructor
    · rintro ⟨h1, h2, h3⟩; exact ⟨h1.symm, h2.symm, h3.symm⟩
    · rintro ⟨h1, h2, h3⟩; exact ⟨h1.symm, h2.symm, h3.symm⟩

/-- blanking the placeholder creates no new `${{` in or before the blanked region -/
theorem blank_noOpen (src : List Nat) (s m : Nat) (R : List Nat) (hs : s ≤ src.length) (hm : 2 ≤ m)
    (h : ∀ j < s, open3.isPrefixOf (src.drop j) = false) :
    ∀ j < (src.take s ++ List.replicate m 95).length,
      open3.isPrefixOf ((src.take s ++ List.replicate m 95 ++ R).drop j) = false := by
  intro j hj
  have hlen : (src.take s ++ List.replicate m 95).length = s + m := by simp; omega
  rw [hlen] at hj
  rw [Bool.eq_false_iff]
  intro hc
  rw [isPrefixOf_open3_iff] at hc
  obtain ⟨c0, c1, c2⟩ := hc
  simp only [List.getElem?_drop, List.append_assoc] at c0 c1 c2
  have hts : (List.take s src).length = s := by simp; omega
  by_cases h0 : j < s
  · by_cases h1 : j + 1 < s
    · by_cases h2 : j + 2 < s
      · -- all three bytes are in the untouched prefix: contradiction with `h`
        have := h j h0
        rw [Bool.eq_false_iff] at this
        apply this
        rw [isPrefixOf_open3_iff]
        simp only [List.getElem?_drop]
        rw [List.getElem?_append_left (by rw [hts]; omega)] at c0 c1 c2
        rw [List.getElem?_take] at c0 c1 c2
        simp only [Nat.add_zero] at c0 ⊢
        simp [h0] at c0
        simp [h1] at c1
        simp [h2] at c2
        exact ⟨c0, c1, c2⟩
      · rw [List.getElem?_append_right (by rw [hts]; omega), hts,
          List.getElem?_append_left (by simp; omega), List.getElem?_replicate] at c2
        split at c2 <;> simp at c2
    · rw [List.getElem?_append_right (by rw [hts]; omega), hts,
        List.getElem?_append_left (by simp; omega), List.getElem?_replicate] at c1
      split at c1 <;> simp at c1
  · rw [List.getElem?_append_right (by rw [hts]; omega), hts,
      List.getElem?_append_left (by simp; omega), List.getElem?_replicate] at c0
    split at c0 <;> simp at c0

theorem sanitizeAux_idem (f : Nat) (src : List Nat) (hf : src.length ≤ f) :
    sanitizeAux f (sanitizeAux f src) = sanitizeAux f src := by
  induction f generalizing src with
  | zero => rfl
  | succ f ih =>
    cases h : indexOf open3 src 0 with
    | none => rw [sanitizeAux_noOpen _ _ h, sanitizeAux_noOpen _ _ h]
    | some s =>
      cases h2 : indexOf close2 (src.drop s) 0 with
      | none => rw [sanitizeAux_noClose _ _ _ h h2, sanitizeAux_noClose _ _ _ h h2]
      | some e0 =>
        have hb := hit_bounds _ _ _ h h2
        obtain ⟨hs1, _, hs3⟩ := indexOf_some _ _ _ h
        rw [sanitizeAux_hit _ _ _ _ h h2]
        rw [sanitizeAux_append_skip _ _ _
          (blank_noOpen src s (e0 + 2) _ hs1 (by omega) hs3)]
        congr 1
        have hl : (src.drop (e0 + s + 2)).length ≤ f := by simp; omega
        rw [sanitizeAux_fuel (f + 1) f _ (by rw [sanitizeAux_length]; omega)
          (by rw [sanitizeAux_length]; exact hl)]
        exact ih _ hl

theorem sanitize_idem (src : List Nat) : sanitize (sanitize src) = sanitize src := by
  unfold sanitize
  rw [sanitizeAux_length]
  exact sanitizeAux_idem _ _ (Nat.le_refl _)

end AL.Proc
